(* Proof/RaftLog_pebble.v — one scope of the Pebble store against the reference:
   the representation invariant of the rows, the cached writer state as a
   function of the rows, and the simulation of saveOp.apply / markApplied. *)
From WK Require Import Base.Base Gen.Consts_C14 Model.RaftLog Proof.RaftLog_lists Proof.RaftLog_ref.
From Coq Require Import ZifyBool ZifyN ZifyNat.
Open Scope N_scope.

(* ---- representation *)

Definition canon_meta (r : rstate) (cs : conf) : meta :=
  M (r_sidx r + 1) (r_last r) (r_applied r) (r_sidx r) (s_term (r_snap r)) cs.

Definition snap_rel (files : list (N * bytes)) (next : N) (ks : option manifest) (s : snapshot) : Prop :=
  match ks with
  | None => s = snap0
  | Some mf => 0 < s_idx s /\ mf_idx mf = s_idx s /\ mf_term mf = s_term s /\ mf_conf mf = s_conf s
               /\ mf_size mf = blen (s_data s) /\ mf_sum mf = s_sum s
               /\ mf_id mf < next /\ file_get (mf_id mf) files = Some (s_data s)
  end.

Definition pristine (r : rstate) : Prop :=
  r_hs r = hs0 /\ r_applied r = 0 /\ r_snap r = snap0 /\ r_ents r = [].

Definition RowsInv (files : list (N * bytes)) (next : N) (rw : rows) (r : rstate) : Prop :=
  k_hs rw = r_hs r /\ k_cfg rw = r_cfg r /\ k_ents rw = r_ents r
  /\ snap_rel files next (k_snap rw) (r_snap r)
  /\ match k_meta rw with
     | None => pristine r /\ k_applied rw = 0
     | Some m => exists cs, ref_conf r = Some cs /\ m = canon_meta r cs
     end.

(* the writer's cached state is a function of the rows *)
Definition canon_w (rw : rows) (r : rstate) (cs : conf) : wstate :=
  WS (r_hs r) (smeta_of (r_snap r)) (k_snap rw) (map cloneCachedEntry (r_ents r)) (canon_meta r cs).

Lemma RowsInv_rows0 files next : RowsInv files next rows0 rstate0.
Proof.
  unfold RowsInv, rows0, rstate0, pristine. cbn. repeat split; reflexivity.
Qed.

Lemma ref_conf_pristine r : pristine r -> ref_conf r = Some [].
Proof.
  intros (Hh & _ & Hs & He). unfold ref_conf. rewrite Hs, He. reflexivity.
Qed.

(* with an empty log the derived conf state is the snapshot's *)
Lemma ref_conf_empty_log r cs :
  wf r -> r_ents r = [] -> ref_conf r = Some cs ->
  cs = if r_sidx r =? 0 then [] else s_conf (r_snap r).
Proof.
  intros (_ & _ & _ & Hz & Hpos & _) He H. unfold ref_conf, deriveConfState in H.
  rewrite He in H. unfold smeta_of in H. cbn [sm_idx sm_conf] in H. fold (r_sidx r) in H.
  destruct (r_sidx r =? 0) eqn:E.
  - cbn in H. congruence.
  - assert (Hp : 0 < r_sidx r) by lia. destruct (Hpos Hp) as [Hok _].
    rewrite (conf_ok_restore _ Hok) in H.
    destruct (s_conf (r_snap r)); cbn in H; congruence.
Qed.

Lemma snap_rel_none_sidx files next r : snap_rel files next None (r_snap r) -> r_sidx r = 0.
Proof. cbn. intro H. unfold r_sidx. rewrite H. reflexivity. Qed.

Lemma loadEntries_all rw a :
  contiguous_from (a + 1) (k_ents rw) = true ->
  loadEntries rw (a + 1) 0 = k_ents rw.
Proof.
  intro H. unfold loadEntries. apply filter_true. intros x Hx.
  pose proof (contig_in _ _ _ H Hx). cbn [N.eqb orb]. lia.
Qed.

Lemma loadEntries_00 rw : loadEntries rw 0 0 = k_ents rw.
Proof. unfold loadEntries. apply filter_true. intros. cbn. lia. Qed.

Lemma validate_ok files next rw r :
  wf r -> RowsInv files next rw r -> validateManifestMetaConsistency rw = true.
Proof.
  intros Hwf (Hh & Hc & He & Hs & Hm). unfold validateManifestMetaConsistency.
  destruct (k_snap rw) as [mf|] eqn:Eks; destruct (k_meta rw) as [m|] eqn:Ekm.
  - destruct Hm as (cs & Hcs & ->). cbn in Hs. destruct Hs as (Hp & Hi & Ht & Hcf & _).
    unfold canon_meta. cbn [m_sidx m_sterm m_last m_conf]. unfold r_sidx.
    rewrite Hi, Ht, !N.eqb_refl. cbn [andb].
    destruct (r_last r <=? s_idx (r_snap r)) eqn:El; [|reflexivity].
    assert (Hnil : r_ents r = []).
    { unfold r_last, r_sidx in El. destruct (r_ents r); [reflexivity|]. cbn [length] in El. lia. }
    rewrite (ref_conf_empty_log r cs Hwf Hnil Hcs). unfold r_sidx.
    replace (s_idx (r_snap r) =? 0) with false by lia.
    rewrite Hcf, conf_eqb_refl. reflexivity.
  - destruct Hm as ((_ & _ & Hs0 & _) & _). cbn in Hs. rewrite Hs0 in Hs. cbn in Hs. lia.
  - destruct Hm as (cs & Hcs & ->). cbn in Hs. unfold canon_meta. cbn [m_sidx]. unfold r_sidx. rewrite Hs. reflexivity.
  - reflexivity.
Qed.

Lemma load_canon files next rw r cs :
  wf r -> RowsInv files next rw r -> ref_conf r = Some cs ->
  load_from_rows rw = Ok (canon_w rw r cs).
Proof.
  intros Hwf Hinv Hcs. unfold load_from_rows.
  rewrite (validate_ok _ _ _ _ Hwf Hinv). cbn [negb].
  destruct Hwf as (Hcont & _ & Hmax & _).
  destruct Hinv as (Hh & Hc & He & Hs & Hm).
  assert (Hents : loadEntries rw (match k_snap rw with
                                  | Some mf => if mf_idx mf <? c14_MaxUint64 then mf_idx mf + 1 else 0
                                  | None => 0 end) 0 = r_ents r).
  { destruct (k_snap rw) as [mf|] eqn:Eks.
    - cbn in Hs. destruct Hs as (_ & Hi & _). rewrite Hi. fold (r_sidx r).
      replace (r_sidx r <? c14_MaxUint64) with true by lia.
      rewrite <- He. apply loadEntries_all. rewrite He. exact Hcont.
    - rewrite loadEntries_00. exact He. }
  rewrite Hents.
  assert (Hsm : match k_snap rw with Some mf => smeta_of_manifest mf | None => smeta0 end = smeta_of (r_snap r)).
  { destruct (k_snap rw) as [mf|]; cbn in Hs.
    - destruct Hs as (_ & Hi & Ht & Hcf & _). unfold smeta_of_manifest, smeta_of. rewrite Hi, Ht, Hcf. reflexivity.
    - rewrite Hs. reflexivity. }
  rewrite Hsm.
  destruct (k_meta rw) as [m|] eqn:Ekm.
  - destruct Hm as (cs' & Hcs' & ->). rewrite Hcs in Hcs'. inversion Hcs'; subst cs'.
    unfold canon_w. rewrite Hh. reflexivity.
  - destruct Hm as (Hp & Ha). pose proof Hp as (Hh0 & Ha0 & Hs0 & He0).
    rewrite (ref_conf_pristine r Hp) in Hcs. inversion Hcs; subst cs.
    unfold canon_w, canon_meta, r_last, r_sidx. rewrite He0, Hs0, Hh, Hh0, Ha0. reflexivity.
Qed.

(* ---- batches that only address one scope *)

Lemma fold_bent sc es rw :
  fold_left apply_bop_rows (map (BEnt sc) es) rw =
  RW (k_hs rw) (k_applied rw) (k_cfg rw) (k_snap rw) (k_meta rw)
     (fold_left (fun acc e => row_put e acc) es (k_ents rw)).
Proof.
  revert rw. induction es as [|e es IH]; intro rw.
  - destruct rw; reflexivity.
  - cbn [map fold_left]. rewrite IH. reflexivity.
Qed.

Lemma row_del_below l x :
  row_del 0 (Some (x + 1)) l = filter (fun e => x <? e_idx e) l.
Proof.
  unfold row_del. apply filter_ext. intro e. unfold in_range. lia.
Qed.

Lemma row_del_from l f :
  row_del f None l = filter (fun e => negb (f <=? e_idx e)) l.
Proof.
  unfold row_del. apply filter_ext. intro e. unfold in_range. rewrite andb_true_r. reflexivity.
Qed.

(* the entry rows after the tombstone (if any) and the Sets of sub-step 2 *)
Lemma rows_append a base L f e0 es :
  contiguous_from (a + 1) base = true ->
  (L = a + len base \/ (base = [] /\ L <= a)) ->
  contiguous_from f (e0 :: es) = true ->
  a + 1 <= f -> f <= a + 1 + len base ->
  fold_left (fun acc e => row_put e acc) (e0 :: es)
            (if f <=? L then row_del f None base else base)
  = firstn (N.to_nat (f - a - 1)) base ++ e0 :: es.
Proof.
  intros Hb HL Hes Hlo Hhi.
  assert (Hf : contiguous_from (a + 1) (firstn (N.to_nat (f - a - 1)) base) = true) by (apply contig_firstn; assumption).
  assert (Hlen : len (firstn (N.to_nat (f - a - 1)) base) = f - a - 1).
  { unfold len in *. rewrite firstn_length. lia. }
  destruct (f <=? L) eqn:E.
  - rewrite row_del_from, (filter_lt_firstn (a + 1) base f Hb).
    replace (N.to_nat (f - (a + 1))) with (N.to_nat (f - a - 1)) by lia.
    apply (fold_row_put_tail (a + 1)); [assumption|]. rewrite Hlen.
    replace (a + 1 + (f - a - 1)) with f by lia. assumption.
  - assert (Hall : firstn (N.to_nat (f - a - 1)) base = base).
    { destruct HL as [HL|[HL _]]; [|subst base; rewrite firstn_nil; reflexivity].
      apply firstn_all3. unfold len in *. lia. }
    rewrite Hall in *. apply (fold_row_put_tail (a + 1)); [assumption|]. rewrite Hlen.
    replace (a + 1 + (f - a - 1)) with f by lia. assumption.
Qed.

(* ---- saveOp.apply *)

Lemma set_first_same m : set_first m (m_first m) = m.
Proof. destruct m; reflexivity. Qed.

(* sub-step 2 on a writer state whose meta may carry a stale (smaller) LastIndex
   right after the snapshot sub-step *)
Lemma entries_step_sim sc a base L st sv si es rw :
  contiguous_from (a + 1) base = true ->
  (L = a + len base \/ (base = [] /\ L <= a)) ->
  k_ents rw = base ->
  w_ents st = map cloneCachedEntry base ->
  m_first (w_meta st) = a + 1 -> m_last (w_meta st) = L ->
  (if 0 <? si then filterEntriesAfterSnapshot (ws_ents sv) si else ws_ents sv) = es ->
  match es with
  | [] => True
  | e0 :: _ => contiguous_from (e_idx e0) es = true /\ a + 1 <= e_idx e0 /\ e_idx e0 <= a + 1 + len base
  end ->
  let ents' := match es with
               | [] => base
               | e0 :: _ => firstn (N.to_nat (e_idx e0 - a - 1)) base ++ es
               end in
  exists b,
    save_entries_step sc st sv si =
      (b, WS (w_hs st) (w_snap st) (w_mf st) (map cloneCachedEntry ents') (w_meta st))
    /\ Forall (fun x => bop_scope x = sc) b
    /\ fold_left apply_bop_rows b rw =
       RW (k_hs rw) (k_applied rw) (k_cfg rw) (k_snap rw) (k_meta rw) ents'.
Proof.
  intros Hb HL Hk Hw Hf Hl Hes Hok ents'. unfold save_entries_step. rewrite Hes.
  destruct es as [|e0 es0].
  - exists []. subst ents'. rewrite <- Hw. split; [destruct st; reflexivity|].
    split; [constructor|]. cbn [fold_left]. rewrite <- Hk. destruct rw; reflexivity.
  - destruct Hok as (Hc & Hlo & Hhi).
    assert (Hm' : (if (m_last (w_meta st) <? m_first (w_meta st)) || (e_idx e0 <? m_first (w_meta st))
                   then set_first (w_meta st) (e_idx e0) else w_meta st) = w_meta st).
    { rewrite Hf, Hl. destruct ((L <? a + 1) || (e_idx e0 <? a + 1)) eqn:E; [|reflexivity].
      assert (e_idx e0 = a + 1).
      { destruct HL as [HL|[HL HL2]]; [|subst base; rewrite len_nil in Hhi; lia].
        unfold len in *. lia. }
      rewrite H, <- Hf. apply set_first_same. }
    rewrite Hm'. rewrite Hl.
    eexists. split.
    { f_equal. f_equal. rewrite Hw. unfold replaceCachedEntriesFromIndex.
      rewrite take_below_map_clone, (take_below_firstn (a + 1) base (e_idx e0) Hb).
      subst ents'. rewrite map_app. f_equal. f_equal. f_equal. lia. }
    split.
    { apply Forall_app. split.
      - destruct (e_idx e0 <=? L); constructor; [reflexivity|constructor].
      - apply Forall_forall. intros x Hx. apply in_map_iff in Hx. destruct Hx as (e & <- & _). reflexivity. }
    rewrite fold_left_app, fold_bent.
    assert (Hdel : k_ents (fold_left apply_bop_rows (if e_idx e0 <=? L then [BDel sc (e_idx e0) None] else []) rw)
                   = if e_idx e0 <=? L then row_del (e_idx e0) None base else base).
    { destruct (e_idx e0 <=? L); cbn [fold_left apply_bop_rows k_ents]; rewrite ?Hk; reflexivity. }
    rewrite Hdel.
    assert (Hrest : forall P : rows -> N, (forall x y, P (apply_bop_rows x (BDel sc y None)) = P x) ->
                    P (fold_left apply_bop_rows (if e_idx e0 <=? L then [BDel sc (e_idx e0) None] else []) rw) = P rw)
      by (intros P HP; destruct (e_idx e0 <=? L); cbn [fold_left]; [apply HP|reflexivity]).
    subst ents'. rewrite (rows_append a base L (e_idx e0) e0 es0 Hb HL Hc Hlo Hhi).
    f_equal.
    + destruct (e_idx e0 <=? L); reflexivity.
    + destruct (e_idx e0 <=? L); reflexivity.
    + destruct (e_idx e0 <=? L); reflexivity.
    + destruct (e_idx e0 <=? L); reflexivity.
    + destruct (e_idx e0 <=? L); reflexivity.
Qed.

(* updateScopeWriteMeta on a state whose tail is the clone of a contiguous log *)
Lemma update_meta_sim hs sm mf l m a cs :
  sm_idx sm = a -> a < c14_MaxUint64 ->
  contiguous_from (a + 1) l = true ->
  m_first m = a + 1 ->
  deriveConfState sm l (hs_commit hs) = Some cs ->
  updateScopeWriteMeta (WS hs sm mf (map cloneCachedEntry l) m) =
  Ok (WS hs sm mf (map cloneCachedEntry l)
         (M (a + 1) (a + len l) (m_applied m) a (sm_term sm) cs)).
Proof.
  intros Ha Hmax Hc Hf Hd. unfold updateScopeWriteMeta. cbn [w_snap w_ents w_hs w_meta].
  rewrite deriveConfState_clone, Hd, Ha, Hf.
  rewrite last_idx_of_map_clone, (last_idx_of_contig (a + 1) l Hc).
  replace (a + 1 =? 0) with false by lia.
  destruct l as [|e l].
  - rewrite len_nil. replace ((a <? a + 1) && (a <? c14_MaxUint64)) with true by lia.
    rewrite N.add_0_r. reflexivity.
  - set (n := len (e :: l)). assert (1 <= n) by (subst n; rewrite len_cons; lia).
    replace (a <? a + 1 + n - 1) with true by lia.
    replace ((a + 1 + n - 1 <? a + 1) && (a + 1 + n - 1 <? c14_MaxUint64)) with false by lia.
    replace (a + 1 + n - 1) with (a + n) by lia. reflexivity.
Qed.

Lemma ref_save_ok_cases r hs ents snap r' :
  ref_save false r hs ents snap = ROk r' ->
  match snap with
  | Some s => (s_idx s = r_sidx r /\ same_snapshot s (r_snap r) = true) \/ r_sidx r < s_idx s
  | None => True
  end.
Proof.
  unfold ref_save. destruct snap as [s|]; [|trivial].
  destruct (s_idx s <? r_sidx r) eqn:E1; [discriminate|].
  destruct (s_idx s =? r_sidx r) eqn:E2.
  - destruct (same_snapshot s (r_snap r)); [|discriminate]. intros _. left. split; [lia|reflexivity].
  - intros _. right. lia.
Qed.

Lemma filter_after_idem ents i :
  filterEntriesAfterSnapshot (filterEntriesAfterSnapshot ents i) i = filterEntriesAfterSnapshot ents i.
Proof.
  unfold filterEntriesAfterSnapshot. apply filter_true. intros x Hx. apply filter_In in Hx. tauto.
Qed.

(* what planSnapshotSave / prepareAndWriteSnapshot hand to the writer *)
Definition plan_ok (files' : list (N * bytes)) (next' : N) (rw : rows) (r r' : rstate)
           (hs : option hardstate) (ents : list entry) (snap : option snapshot) (sv : wsave) : Prop :=
  match snap with
  | None => sv = WSv hs ents None None /\ snap_rel files' next' (k_snap rw) (r_snap r)
  | Some s => exists mf', sv = WSv hs (filterEntriesAfterSnapshot ents (s_idx s)) (Some (smeta_of s)) (Some mf')
                          /\ snap_rel files' next' (Some mf') (r_snap r')
                          /\ (s_idx s = r_sidx r -> k_snap rw = Some mf')
  end.

Lemma manifest_equiv_refl mf : snapshotManifestEquivalent mf mf = true.
Proof. unfold snapshotManifestEquivalent. rewrite !N.eqb_refl, conf_eqb_refl. reflexivity. Qed.

Lemma filter_all_gt a ents :
  match ents with [] => true | e0 :: _ => contiguous_from (e_idx e0) ents end = true ->
  match ents with [] => true | e0 :: _ => a <? e_idx e0 end = true ->
  filterEntriesAfterSnapshot ents a = ents.
Proof.
  intros Hc Hh. destruct ents as [|e0 l]; [reflexivity|].
  unfold filterEntriesAfterSnapshot. apply filter_true. intros x Hx.
  pose proof (contig_in _ _ _ Hc Hx). lia.
Qed.

Lemma cloneCached_idem e : cloneCachedEntry (cloneCachedEntry e) = cloneCachedEntry e.
Proof.
  unfold cloneCachedEntry. destruct (is_cc_typ (e_typ e)) eqn:Et; [rewrite Et; reflexivity|].
  cbn [e_typ]. rewrite Et. reflexivity.
Qed.

Lemma trim_clone l i :
  trimCachedEntriesAfterSnapshot (map cloneCachedEntry l) i =
  map cloneCachedEntry (filter (fun e => i <? e_idx e) l).
Proof.
  unfold trimCachedEntriesAfterSnapshot.
  rewrite (filter_map_clone (fun j => i <? j)), map_map.
  apply map_ext. intro e. apply cloneCached_idem.
Qed.

Lemma saveOp_sim sc files next files' next' rw r cs hs ents snap sv r' :
  wf r -> RowsInv files next rw r -> ref_conf r = Some cs ->
  req_valid r (WSave hs ents snap) = true -> not_k1 r (WSave hs ents snap) ->
  ref_save false r hs ents snap = ROk r' ->
  plan_ok files' next' rw r r' hs ents snap sv ->
  exists b st' cs',
    saveOp_apply sc (canon_w rw r cs) sv = Ok (b, st')
    /\ Forall (fun x => bop_scope x = sc) b
    /\ RowsInv files' next' (fold_left apply_bop_rows b rw) r'
    /\ ref_conf r' = Some cs'
    /\ st' = canon_w (fold_left apply_bop_rows b rw) r' cs'.
Proof.
  intros Hwf Hinv Hcs Hv Hk Href Hplan.
  destruct (ref_save_ok r hs ents snap r' Hwf Hv Hk Href) as (Hspec & Hao & Hwf').
  pose proof (ref_save_ok_cases r hs ents snap r' Href) as Hcases.
  pose proof Hwf as (Hcont & Hbnd & Hmax & Hz & Hpos & _).
  pose proof Hwf' as (Hcont' & _ & Hmax' & _ & _ & (cs' & Hcs')).
  pose proof Hinv as (Hh & Hc & He & Hs & Hm).
  pose proof Hv as Hv'. unfold req_valid in Hv'. rewrite Href in Hv'.
  apply andb_true_iff in Hv'. destruct Hv' as [Hv' _].
  apply andb_true_iff in Hv'. destruct Hv' as [Hv' Hsn].
  apply andb_true_iff in Hv'. destruct Hv' as [Hok Hcg].
  set (h1 := match hs with Some h => h | None => r_hs r end).
  (* the snapshot sub-step, uniformly: new snapshot meta sm', manifest, base rows *)
  assert (Hstep1 : exists b1 mfo,
    save_snapshot_step sc (canon_w rw r cs) h1 sv =
      Ok (b1, WS (r_hs r) (smeta_of (fst (spec_snap r snap))) mfo
                 (map cloneCachedEntry (snd (spec_snap r snap)))
                 (set_first (canon_meta r cs) (s_idx (fst (spec_snap r snap)) + 1)),
          raise h1 snap, match snap with Some s => s_idx s | None => 0 end)
    /\ Forall (fun x => bop_scope x = sc) b1
    /\ fold_left apply_bop_rows b1 rw =
       RW (k_hs rw) (k_applied rw) (k_cfg rw) mfo (k_meta rw) (snd (spec_snap r snap))
    /\ snap_rel files' next' mfo (fst (spec_snap r snap))
    /\ (if 0 <? match snap with Some s => s_idx s | None => 0 end
        then filterEntriesAfterSnapshot (ws_ents sv) (match snap with Some s => s_idx s | None => 0 end)
        else ws_ents sv) = filterEntriesAfterSnapshot ents (s_idx (fst (spec_snap r snap)))
    /\ ws_hs sv = hs
    /\ (ws_snap sv = None <-> snap = None)).
  { unfold plan_ok in Hplan. destruct snap as [s|].
    - destruct Hplan as (mf' & -> & Hrel & Hsame).
      unfold snapshot_ok in Hsn. bdestr.
      unfold save_snapshot_step. cbn [ws_snap ws_mf canon_w w_snap w_mf w_ents w_meta w_hs smeta_of sm_idx].
      fold (r_sidx r).
      assert (Hr'snap : r_snap r' = fst (spec_snap r (Some s))) by (rewrite Hspec; reflexivity).
      destruct Hcases as [[Heq Hsm]|Hgt].
      + (* the stored snapshot again *)
        replace (s_idx s <? r_sidx r) with false by lia.
        replace (s_idx s =? r_sidx r) with true by lia.
        rewrite (Hsame Heq), manifest_equiv_refl. cbn [negb andb].
        replace (s_idx s <? c14_MaxUint64) with true by lia.
        unfold spec_snap. replace (r_sidx r <? s_idx s) with false by lia. cbn [fst snd].
        destruct (snap_eqb_fields _ _ Hsm) as (Hi & Ht & Hcf & Hd).
        eexists. exists (Some mf'). split.
        { rewrite trim_clone, (filter_gt_skipn (r_sidx r + 1) _ _ Hcont).
          replace (N.to_nat (s_idx s + 1 - (r_sidx r + 1))) with O by lia. cbn [skipn].
          unfold smeta_of, raise. rewrite Ht, Hcf. unfold r_sidx in Heq. rewrite Heq. reflexivity. }
        split; [repeat constructor|].
        split.
        { cbn [fold_left apply_bop_rows k_hs k_applied k_cfg k_snap k_meta k_ents].
          rewrite row_del_below, He, (filter_gt_skipn (r_sidx r + 1) _ _ Hcont).
          match goal with |- context [skipn ?k _] => replace k with O by (unfold r_sidx in *; lia) end.
          reflexivity. }
        split.
        { rewrite Hr'snap in Hrel. unfold spec_snap in Hrel. replace (r_sidx r <? s_idx s) with false in Hrel by lia. exact Hrel. }
        split.
        { replace (0 <? s_idx s) with true by lia. cbn [ws_ents]. rewrite filter_after_idem.
          unfold r_sidx in Heq. rewrite Heq. reflexivity. }
        split; [reflexivity|]. split; discriminate.
      + (* a newer snapshot *)
        replace (s_idx s <? r_sidx r) with false by lia.
        replace (s_idx s =? r_sidx r) with false by lia. cbn [andb].
        replace (s_idx s <? c14_MaxUint64) with true by lia.
        unfold spec_snap. replace (r_sidx r <? s_idx s) with true by lia. cbn [fst snd].
        eexists. exists (Some mf'). split.
        { rewrite trim_clone, (filter_gt_skipn (r_sidx r + 1) _ _ Hcont).
          replace (N.to_nat (s_idx s + 1 - (r_sidx r + 1))) with (N.to_nat (s_idx s - r_sidx r)) by lia.
          reflexivity. }
        split; [repeat constructor|].
        split.
        { cbn [fold_left apply_bop_rows k_hs k_applied k_cfg k_snap k_meta k_ents].
          rewrite row_del_below, He, (filter_gt_skipn (r_sidx r + 1) _ _ Hcont).
          replace (N.to_nat (s_idx s + 1 - (r_sidx r + 1))) with (N.to_nat (s_idx s - r_sidx r)) by lia. reflexivity. }
        split.
        { rewrite Hr'snap in Hrel. unfold spec_snap in Hrel. replace (r_sidx r <? s_idx s) with true in Hrel by lia. exact Hrel. }
        split.
        { replace (0 <? s_idx s) with true by lia. cbn [ws_ents]. apply filter_after_idem. }
        split; [reflexivity|]. split; discriminate.
    - destruct Hplan as (-> & Hrel).
      unfold save_snapshot_step. cbn [ws_snap]. unfold spec_snap, raise. cbn [fst snd].
      exists [], (k_snap rw). split.
      { reflexivity. }
      split; [constructor|].
      split; [cbn [fold_left]; rewrite <- He; destruct rw; reflexivity|].
      split; [exact Hrel|].
      split.
      { cbn [N.ltb]. replace (0 <? 0) with false by lia. cbn [ws_ents].
        symmetry. apply filter_all_gt; [assumption|]. destruct ents; [reflexivity|]. fold (r_sidx r). assumption. }
      split; [reflexivity|]. split; reflexivity. }
  destruct Hstep1 as (b1 & mfo & Hs1 & Hb1 & Hrows1 & Hrel1 & Hfil & Hwhs & Hwsn).
  set (sn' := fst (spec_snap r snap)) in *. set (base := snd (spec_snap r snap)) in *.
  assert (Hbase : contiguous_from (s_idx sn' + 1) base = true) by (apply spec_snap_contig; assumption).
  assert (Hr'snap : r_snap r' = sn') by (rewrite Hspec; reflexivity).
  assert (Hr'ents : r_ents r' = append_spec (s_idx sn') base ents) by (rewrite Hspec; reflexivity).
  (* the stale LastIndex after the snapshot sub-step *)
  assert (HL : r_last r = s_idx sn' + len base \/ (base = [] /\ r_last r <= s_idx sn')).
  { subst sn' base. unfold spec_snap. destruct snap as [s|]; [|left; reflexivity].
    destruct (r_sidx r <? s_idx s) eqn:E; [|left; reflexivity]. cbn [fst snd].
    unfold r_last. destruct (Nat.le_gt_cases (N.to_nat (s_idx s - r_sidx r)) (length (r_ents r))).
    - left. unfold len. rewrite skipn_length. lia.
    - right. split; [apply skipn_all2; lia|lia]. }
  set (es := filterEntriesAfterSnapshot ents (s_idx sn')) in *.
  assert (Hes_ok : match es with
                   | [] => True
                   | e0 :: _ => contiguous_from (e_idx e0) es = true /\ s_idx sn' + 1 <= e_idx e0
                                /\ e_idx e0 <= s_idx sn' + 1 + len base
                   end).
  { unfold append_ok in Hao. fold sn' base es in Hao. destruct es; [exact I|exact Hao]. }
  set (st1 := WS (r_hs r) (smeta_of sn') mfo (map cloneCachedEntry base)
                 (set_first (canon_meta r cs) (s_idx sn' + 1))) in *.
  destruct (entries_step_sim sc (s_idx sn') base (r_last r) st1 sv
              (match snap with Some s => s_idx s | None => 0 end) es
              (fold_left apply_bop_rows b1 rw) Hbase HL)
    as (b2 & Hs2 & Hb2 & Hrows2);
    [rewrite Hrows1; reflexivity|reflexivity|reflexivity|reflexivity|exact Hfil|exact Hes_ok|].
  assert (Hents' : match es with [] => base | e0 :: _ => firstn (N.to_nat (e_idx e0 - s_idx sn' - 1)) base ++ es end
                   = r_ents r').
  { rewrite Hr'ents. unfold append_spec. fold es. destruct es; reflexivity. }
  rewrite Hents' in Hs2, Hrows2.
  (* updateScopeWriteMeta *)
  assert (Hd : deriveConfState (smeta_of sn') (r_ents r') (hs_commit (raise h1 snap)) = Some cs').
  { unfold ref_conf in Hcs'. rewrite Hr'snap in Hcs'. rewrite <- Hcs'. f_equal.
    rewrite Hspec. reflexivity. }
  assert (Hcont'' : contiguous_from (s_idx sn' + 1) (r_ents r') = true).
  { unfold r_sidx in Hcont'. rewrite Hr'snap in Hcont'. exact Hcont'. }
  assert (Hmax'' : s_idx sn' < c14_MaxUint64) by (unfold r_sidx in Hmax'; rewrite Hr'snap in Hmax'; exact Hmax').
  pose proof (update_meta_sim (raise h1 snap) (smeta_of sn') mfo (r_ents r')
                (set_first (canon_meta r cs) (s_idx sn' + 1)) (s_idx sn') cs'
                eq_refl Hmax'' Hcont'' eq_refl Hd) as Hum.
  (* assemble *)
  unfold saveOp_apply. rewrite Hwhs. change (w_hs (canon_w rw r cs)) with (r_hs r). fold h1. rewrite Hs1. rewrite Hs2. cbn [w_snap w_mf w_ents w_meta].
  unfold st1. cbn [w_snap w_mf w_ents w_meta w_hs]. rewrite Hum. cbn [w_meta].
  set (persist := match hs with
                  | Some _ => true
                  | None => match ws_snap sv with Some _ => true | None => false end
                  end).
  set (meta' := M (s_idx sn' + 1) (s_idx sn' + len (r_ents r')) (m_applied (set_first (canon_meta r cs) (s_idx sn' + 1)))
                  (s_idx sn') (sm_term (smeta_of sn')) cs').
  assert (Hmeta' : meta' = canon_meta r' cs').
  { subst meta'. unfold canon_meta, r_last, r_sidx. rewrite Hr'snap. cbn.
    rewrite Hspec. reflexivity. }
  eexists. eexists. exists cs'. split; [reflexivity|].
  split.
  { apply Forall_app. split; [assumption|]. apply Forall_app. split; [assumption|].
    apply Forall_app. split; [destruct persist; repeat constructor|repeat constructor]. }
  assert (Hrows : fold_left apply_bop_rows
                    (b1 ++ b2 ++ (if persist then [BHs sc (raise h1 snap)] else []) ++ [BMeta sc meta']) rw
                  = RW (if persist then raise h1 snap else k_hs rw) (k_applied rw) (k_cfg rw) mfo (Some meta') (r_ents r')).
  { rewrite !fold_left_app, Hrows2, Hrows1. cbn [k_hs k_applied k_cfg k_snap k_meta k_ents].
    destruct persist; reflexivity. }
  rewrite Hrows.
  assert (Hhs' : (if persist then raise h1 snap else k_hs rw) = r_hs r').
  { rewrite Hspec. cbn [save_spec r_hs]. fold h1. subst persist.
    destruct hs as [h|]; [reflexivity|].
    destruct (ws_snap sv) eqn:Ews; [reflexivity|].
    assert (snap = None) by (apply Hwsn; reflexivity). subst snap. cbn [raise]. subst h1. exact Hh. }
  split.
  { unfold RowsInv. cbn [k_hs k_applied k_cfg k_snap k_meta k_ents].
    split; [exact Hhs'|]. split; [rewrite Hspec; exact Hc|]. split; [reflexivity|].
    split; [rewrite Hr'snap; exact Hrel1|].
    exists cs'. split; [exact Hcs'|exact Hmeta']. }
  split; [exact Hcs'|].
  unfold canon_w. cbn [k_snap]. rewrite Hr'snap, Hmeta'.
  f_equal. rewrite Hspec. reflexivity.
Qed.
