(* Proof/StateFile.v — C19: the state file is replaced atomically; Decode accepts only
   self-consistent files.

   [old_or_new]: from a file system whose main path is settled, a crash after ANY prefix of
   Store.Save's step sequence, with ANY prefix of the pending directory operations on disk and
   ANY bytes in unsynced inodes, leaves the main path reading either exactly what it read
   before or exactly the new bytes; the main path is settled again after the reboot, so the
   statement iterates over any history of saves and crashes ([history_reads]).
   [decode_consistent], [encode_decode]: the codec, with JSON and CRC abstract. *)
From WK Require Import Base.Base.
From WK Require Import Gen.Consts_C18 Model.CtrlFSM Model.StateFile Proof.CtrlFSM_norm Proof.CtrlFSM_getset.
From Coq Require Import ZifyBool ZifyN ZifyNat.
Open Scope N_scope.

(* ---- directories and inode tables ---- *)

Lemma dir_get_del d n m : dir_get (dir_del d n) m = if n =? m then None else dir_get d m.
Proof.
  induction d as [|[k i] d IH]; cbn [dir_del dir_get].
  - destruct (n =? m); reflexivity.
  - destruct (k =? n) eqn:E1.
    + rewrite IH. destruct (n =? m) eqn:E2; [reflexivity|].
      assert (E3 : (k =? m) = false) by lia. rewrite E3. reflexivity.
    + cbn [dir_get]. rewrite IH. destruct (k =? m) eqn:E3; [|reflexivity].
      assert (E2 : (n =? m) = false) by lia. rewrite E2. reflexivity.
Qed.

Lemma dir_get_set d n i m : dir_get (dir_set d n i) m = if n =? m then Some i else dir_get d m.
Proof.
  unfold dir_set. cbn [dir_get]. destruct (n =? m) eqn:E; [reflexivity|]. rewrite dir_get_del, E. reflexivity.
Qed.

Definition crash_inode (junk : N -> bytes) (p : N * inode) : N * inode :=
  (fst p, if i_synced (snd p) then snd p else IN (junk (fst p)) true).

Lemma ino_get_crash junk t i :
  ino_get (map (crash_inode junk) t) i
  = match ino_get t i with
    | Some x => Some (if i_synced x then x else IN (junk i) true)
    | None => None
    end.
Proof.
  induction t as [|[k x] t IH]; [reflexivity|]. cbn [map ino_get crash_inode fst snd].
  destruct (k =? i) eqn:E; [|exact IH]. assert (k = i) by lia. subst k. reflexivity.
Qed.

(* ---- the states Save goes through ---- *)

Section Save.
  Variable s0 : fs.
  Variable t : N.                 (* the temp name *)
  Variable data : bytes.          (* state.Encode's output *)

  Hypothesis Hsettled : settled s0 = true.
  (* every directory entry points below the next free inode number *)
  Hypothesis Hbound : bounded s0.
  Hypothesis Ht0 : t <> 0.

  Let inew := f_next s0.
  Let d0 := f_dir s0.
  Let dd0 := f_ddir s0.
  Let tab0 := f_inodes s0.

  Definition s1 : fs := FS (dir_set d0 t inew) dd0 [DLink t inew] (ino_set tab0 inew (IN [] true)) (inew + 1).
  Definition tab2 := ino_set (ino_set tab0 inew (IN [] true)) inew (IN data (is_empty data)).
  Definition s2 : fs := FS (dir_set d0 t inew) dd0 [DLink t inew] tab2 (inew + 1).
  Definition tab3 := ino_set tab2 inew (IN data true).
  Definition s3 : fs := FS (dir_set d0 t inew) dd0 [DLink t inew] tab3 (inew + 1).
  Definition d5 := dir_set (dir_del (dir_set d0 t inew) t) 0 inew.
  Definition s5 : fs := FS d5 dd0 [DLink t inew; DRename t 0] tab3 (inew + 1).
  Definition s6 : fs := FS d5 d5 [] tab3 (inew + 1).

  Lemma pending0 : f_pending s0 = [].
  Proof.
    unfold settled in Hsettled. apply andb_true_iff in Hsettled. destruct Hsettled as [H _].
    destruct (f_pending s0); [reflexivity|discriminate H].
  Qed.

  Lemma s0_eta : s0 = FS d0 dd0 [] tab0 inew.
  Proof. subst d0 dd0 tab0 inew. rewrite <- pending0. destruct s0; reflexivity. Qed.

  Lemma run1 : run s0 (firstn 1 (save_ops t data)) = s1.
  Proof. cbn [firstn save_ops run fold_left step]. rewrite pending0. reflexivity. Qed.

  Lemma step_s1 : step s1 (Write t data) = s2.
  Proof.
    unfold step, s1. cbn [f_dir f_ddir f_pending f_inodes f_next].
    rewrite dir_get_set, N.eqb_refl. unfold ino_set at 1. cbn [ino_get]. rewrite N.eqb_refl.
    cbn [i_data i_synced app]. rewrite andb_true_r. reflexivity.
  Qed.

  Lemma step_s2 : step s2 (Fsync t) = s3.
  Proof.
    unfold step, s2. cbn [f_dir f_ddir f_pending f_inodes f_next].
    rewrite dir_get_set, N.eqb_refl. unfold tab2 at 1, ino_set at 1. cbn [ino_get]. rewrite N.eqb_refl.
    reflexivity.
  Qed.

  Lemma step_s3 : step s3 (Rename t 0) = s5.
  Proof.
    unfold step, s3, s5, d5. cbn [f_dir f_ddir f_pending f_inodes f_next dir_apply app].
    rewrite dir_get_set, N.eqb_refl. reflexivity.
  Qed.

  Lemma run_k k : run s0 (firstn k (save_ops t data))
                  = match k with
                    | 0 => s0 | 1 => s1 | 2 => s2 | 3 => s3 | 4 => s3 | 5 => s5 | _ => s6
                    end%nat.
  Proof.
    assert (R2 : run s0 (firstn 2 (save_ops t data)) = s2).
    { change (firstn 2 (save_ops t data)) with (firstn 1 (save_ops t data) ++ [Write t data]).
      unfold run. rewrite fold_left_app. fold (run s0 (firstn 1 (save_ops t data))). rewrite run1. apply step_s1. }
    assert (R3 : run s0 (firstn 3 (save_ops t data)) = s3).
    { change (firstn 3 (save_ops t data)) with (firstn 2 (save_ops t data) ++ [Fsync t]).
      unfold run. rewrite fold_left_app. fold (run s0 (firstn 2 (save_ops t data))). rewrite R2. apply step_s2. }
    assert (R4 : run s0 (firstn 4 (save_ops t data)) = s3).
    { change (firstn 4 (save_ops t data)) with (firstn 3 (save_ops t data) ++ [Hook]).
      unfold run. rewrite fold_left_app. fold (run s0 (firstn 3 (save_ops t data))). rewrite R3. reflexivity. }
    assert (R5 : run s0 (firstn 5 (save_ops t data)) = s5).
    { change (firstn 5 (save_ops t data)) with (firstn 4 (save_ops t data) ++ [Rename t 0]).
      unfold run. rewrite fold_left_app. fold (run s0 (firstn 4 (save_ops t data))). rewrite R4. apply step_s3. }
    assert (R6 : run s0 (save_ops t data) = s6).
    { change (save_ops t data) with (firstn 5 (save_ops t data) ++ [FsyncDir]).
      unfold run. rewrite fold_left_app. fold (run s0 (firstn 5 (save_ops t data))). rewrite R5. reflexivity. }
    destruct k as [|[|[|[|[|[|k]]]]]]; try assumption; try reflexivity; try exact run1.
    rewrite firstn_all2 by (cbn; lia). exact R6.
  Qed.

  (* ---- what the main path reads ---- *)

  (* the old inode of the main path, if any, is below inew, exists and is synced *)
  Lemma old_inode :
    (dir_get d0 0 = None /\ dir_get dd0 0 = None)
    \/ (exists i x, dir_get d0 0 = Some i /\ dir_get dd0 0 = Some i /\ ino_get tab0 i = Some x
                    /\ i_synced x = true /\ i < inew).
  Proof.
    unfold settled in Hsettled. apply andb_true_iff in Hsettled. destruct Hsettled as [_ H].
    fold d0 dd0 tab0 in H.
    destruct (dir_get d0 0) as [i|] eqn:E1; destruct (dir_get dd0 0) as [k|] eqn:E2; try discriminate H.
    - right. apply andb_true_iff in H. destruct H as [Hik Hx]. assert (i = k) by lia. subst k.
      destruct (ino_get tab0 i) as [x|] eqn:E3; [|discriminate Hx].
      exists i, x. repeat split; try assumption. apply (Hbound 0). left. exact E1.
    - left. split; reflexivity.
  Qed.

  Definition reads_old (s : fs) : Prop := read s 0 = read s0 0.
  Definition reads_new (s : fs) : Prop := read s 0 = Some data.

  (* a table that extends tab0 with entries for inew only *)
  Definition extends (tab : list (N * inode)) : Prop :=
    forall i, i < inew -> ino_get tab i = ino_get tab0 i.

  Lemma extends_tab0 : extends tab0. Proof. intros i _. reflexivity. Qed.
  Lemma extends_set tab x : extends tab -> extends (ino_set tab inew x).
  Proof.
    intros H i Hi. unfold ino_set. cbn [ino_get]. assert (E : (inew =? i) = false) by lia. rewrite E. apply H. exact Hi.
  Qed.
  Lemma extends_tab3 : extends tab3.
  Proof. unfold tab3, tab2. repeat apply extends_set. apply extends_tab0. Qed.

  (* a crashed state whose directory agrees with the old durable one on the main path reads the old bytes *)
  Lemma crash_reads_old d tab pend nxt junk :
    extends tab -> dir_get d 0 = dir_get dd0 0 ->
    read (FS d d pend (map (crash_inode junk) tab) nxt) 0 = read s0 0.
  Proof.
    intros Hext Hd. unfold read. cbn [f_dir f_inodes]. rewrite Hd. fold d0 tab0.
    destruct old_inode as [[E1 E2]|(i & x & E1 & E2 & E3 & E4 & E5)].
    - rewrite E1, E2. reflexivity.
    - rewrite E1, E2. rewrite ino_get_crash, (Hext i E5), E3, E4. reflexivity.
  Qed.

  Lemma crash_reads_new d tab pend nxt junk :
    ino_get tab inew = Some (IN data true) -> dir_get d 0 = Some inew ->
    read (FS d d pend (map (crash_inode junk) tab) nxt) 0 = Some data.
  Proof.
    intros Hi Hd. unfold read. cbn [f_dir f_inodes]. rewrite Hd, ino_get_crash, Hi. reflexivity.
  Qed.

  Lemma tab3_new : ino_get tab3 inew = Some (IN data true).
  Proof. unfold tab3, ino_set. cbn [ino_get]. rewrite N.eqb_refl. reflexivity. Qed.

  Lemma link_keeps_main d : dir_get (dir_apply d (DLink t inew)) 0 = dir_get d 0.
  Proof. cbn [dir_apply]. rewrite dir_get_set. assert (E : (t =? 0) = false) by lia. rewrite E. reflexivity. Qed.

  Lemma crash_fold_one d j : dir_get (fold_left dir_apply (firstn j [DLink t inew]) d) 0 = dir_get d 0.
  Proof. destruct j as [|j]; [reflexivity|]. cbn [firstn fold_left]. rewrite firstn_nil. cbn [fold_left]. apply link_keeps_main. Qed.

  (* the theorem for one Save *)
  Theorem old_or_new k j junk :
    let s := crash (run s0 (firstn k (save_ops t data))) j junk in
    (reads_old s \/ reads_new s) /\ settled s = true.
  Proof.
    cbv zeta. rewrite run_k.
    assert (Hsett : forall d tab nxt, (forall i, dir_get d 0 = Some i -> exists x, ino_get tab i = Some x) ->
                                      settled (FS d d [] (map (crash_inode junk) tab) nxt) = true).
    { intros d tab nxt Hex. unfold settled. cbn [f_pending f_dir f_ddir f_inodes is_empty andb].
      destruct (dir_get d 0) as [i|] eqn:E; [|reflexivity]. rewrite N.eqb_refl. cbn [andb].
      rewrite ino_get_crash. destruct (Hex i eq_refl) as [x Hx]. rewrite Hx. destruct (i_synced x) eqn:Es; [exact Es|reflexivity]. }
    assert (Hold_ex : forall d tab, extends tab -> dir_get d 0 = dir_get dd0 0 ->
                                    forall i, dir_get d 0 = Some i -> exists x, ino_get tab i = Some x).
    { intros d tab Hext Hd i Hi. rewrite Hd in Hi.
      destruct old_inode as [[_ E2]|(i' & x & _ & E2 & E3 & _ & E5)]; [rewrite E2 in Hi; discriminate Hi|].
      rewrite E2 in Hi. inversion Hi; subst i'. exists x. rewrite (Hext i E5). exact E3. }
    unfold crash, reads_old, reads_new.
    destruct k as [|[|[|[|[|[|k]]]]]].
    - (* nothing done *)
      rewrite pending0, firstn_nil. cbn [fold_left]. fold dd0 tab0.
      split; [left; apply crash_reads_old; [apply extends_tab0|reflexivity]|].
      apply Hsett. apply (Hold_ex dd0 tab0 extends_tab0 eq_refl).
    - unfold s1. cbn [f_pending f_ddir f_inodes f_next].
      split; [left; apply crash_reads_old; [apply extends_set, extends_tab0|apply crash_fold_one]|].
      apply Hsett. apply Hold_ex; [apply extends_set, extends_tab0|apply crash_fold_one].
    - unfold s2. cbn [f_pending f_ddir f_inodes f_next].
      split; [left; apply crash_reads_old; [unfold tab2; repeat apply extends_set; apply extends_tab0|apply crash_fold_one]|].
      apply Hsett. apply Hold_ex; [unfold tab2; repeat apply extends_set; apply extends_tab0|apply crash_fold_one].
    - unfold s3. cbn [f_pending f_ddir f_inodes f_next].
      split; [left; apply crash_reads_old; [apply extends_tab3|apply crash_fold_one]|].
      apply Hsett. apply Hold_ex; [apply extends_tab3|apply crash_fold_one].
    - unfold s3. cbn [f_pending f_ddir f_inodes f_next].
      split; [left; apply crash_reads_old; [apply extends_tab3|apply crash_fold_one]|].
      apply Hsett. apply Hold_ex; [apply extends_tab3|apply crash_fold_one].
    - (* the rename is pending *)
      unfold s5. cbn [f_pending f_ddir f_inodes f_next].
      destruct j as [|[|j]].
      + cbn [firstn fold_left].
        split; [left; apply crash_reads_old; [apply extends_tab3|reflexivity]|].
        apply Hsett. apply (Hold_ex dd0 tab3 extends_tab3 eq_refl).
      + cbn [firstn fold_left].
        split; [left; apply crash_reads_old; [apply extends_tab3|apply link_keeps_main]|].
        apply Hsett. apply Hold_ex; [apply extends_tab3|apply link_keeps_main].
      + cbn [firstn fold_left]. rewrite firstn_nil. cbn [fold_left dir_apply].
        rewrite dir_get_set, N.eqb_refl.
        assert (Hd : dir_get (dir_set (dir_del (dir_set dd0 t inew) t) 0 inew) 0 = Some inew)
          by (rewrite dir_get_set; reflexivity).
        split; [right; apply crash_reads_new; [apply tab3_new|exact Hd]|].
        apply Hsett. intros i Hi. rewrite Hd in Hi. inversion Hi; subst i. exists (IN data true). apply tab3_new.
    - (* Save returned *)
      unfold s6. cbn [f_pending f_ddir f_inodes f_next]. rewrite firstn_nil. cbn [fold_left].
      assert (Hd : dir_get d5 0 = Some inew) by (unfold d5; rewrite dir_get_set; reflexivity).
      split; [right; apply crash_reads_new; [apply tab3_new|exact Hd]|].
      apply Hsett. intros i Hi. rewrite Hd in Hi. inversion Hi; subst i. exists (IN data true). apply tab3_new.
  Qed.

  (* without a crash: readers see the old bytes until the rename and the new bytes from then on *)
  Theorem visible_switch k :
    read (run s0 (firstn k (save_ops t data))) 0 = if (k <? 5)%nat then read s0 0 else Some data.
  Proof.
    rewrite run_k.
    assert (Hkeep : forall tab, extends tab -> read (FS (dir_set d0 t inew) dd0 [DLink t inew] tab (inew + 1)) 0 = read s0 0).
    { intros tab Hext. unfold read. cbn [f_dir f_inodes]. rewrite dir_get_set.
      assert (E : (t =? 0) = false) by lia. rewrite E. fold d0 tab0.
      destruct old_inode as [[E1 _]|(i & x & E1 & _ & E3 & _ & E5)]; rewrite E1; [reflexivity|].
      rewrite (Hext i E5). reflexivity. }
    assert (Hnew : forall dd pend, read (FS d5 dd pend tab3 (inew + 1)) 0 = Some data).
    { intros dd pend. unfold read, d5. cbn [f_dir f_inodes]. rewrite dir_get_set. cbn [N.eqb]. rewrite tab3_new. reflexivity. }
    destruct k as [|[|[|[|[|[|k]]]]]]; cbn [Nat.ltb Nat.leb]; try reflexivity.
    - apply Hkeep. apply extends_set, extends_tab0.
    - apply Hkeep. unfold tab2. repeat apply extends_set. apply extends_tab0.
    - apply Hkeep. apply extends_tab3.
    - apply Hkeep. apply extends_tab3.
    - apply Hnew.
    - apply Hnew.
  Qed.

  (* the hook fails: Save removes the temp file and the main path still reads the old bytes *)
  Theorem hook_failure_keeps_old :
    read (run s0 (save_ops_hook_fails t data)) 0 = read s0 0
    /\ dir_get (f_dir (run s0 (save_ops_hook_fails t data))) t = None.
  Proof.
    change (save_ops_hook_fails t data) with (firstn 4 (save_ops t data) ++ [Remove t]).
    unfold run. rewrite fold_left_app. fold (run s0 (firstn 4 (save_ops t data))). rewrite run_k.
    cbn [fold_left step s3 f_dir f_ddir f_pending f_inodes f_next].
    split.
    - unfold read. cbn [f_dir f_inodes]. rewrite dir_get_del, dir_get_set.
      assert (E : (t =? 0) = false) by lia. rewrite E. fold d0 tab0.
      destruct old_inode as [[E1 _]|(i & x & E1 & _ & E3 & _ & E5)]; rewrite E1; [reflexivity|].
      rewrite (extends_tab3 i E5). reflexivity.
    - rewrite dir_get_del, N.eqb_refl. reflexivity.
  Qed.
  (* the crashed state is bounded again *)
  Definition dir_bounded (d : dir) (b : N) : Prop := forall n i, dir_get d n = Some i -> i < b.

  Lemma dir_bounded_del d n b : dir_bounded d b -> dir_bounded (dir_del d n) b.
  Proof. intros H m i. rewrite dir_get_del. destruct (n =? m); [discriminate|apply H]. Qed.
  Lemma dir_bounded_set d n i b : dir_bounded d b -> i < b -> dir_bounded (dir_set d n i) b.
  Proof. intros H Hi m k. rewrite dir_get_set. destruct (n =? m); [intro E; inversion E; subst; exact Hi|apply H]. Qed.
  Lemma dir_bounded_apply d o b :
    dir_bounded d b -> (forall n i, o = DLink n i -> i < b) -> dir_bounded (dir_apply d o) b.
  Proof.
    intros H Ho. destruct o as [n i|a c|n]; cbn [dir_apply].
    - apply dir_bounded_set; [exact H|apply (Ho n i eq_refl)].
    - destruct (dir_get d a) as [i|] eqn:E; [|exact H].
      apply dir_bounded_set; [apply dir_bounded_del; exact H|apply (H a i E)].
    - apply dir_bounded_del. exact H.
  Qed.
  Lemma dir_bounded_fold ops : forall d b,
    dir_bounded d b -> (forall o n i, In o ops -> o = DLink n i -> i < b) -> dir_bounded (fold_left dir_apply ops d) b.
  Proof.
    induction ops as [|o ops IH]; intros d b H Ho; [exact H|]. cbn [fold_left]. apply IH.
    - apply dir_bounded_apply; [exact H|]. intros n i E. apply (Ho o n i); [left; reflexivity|exact E].
    - intros o' n i Hin E. apply (Ho o' n i); [right; exact Hin|exact E].
  Qed.

  Lemma In_firstn {A} (l : list A) : forall j x, In x (firstn j l) -> In x l.
  Proof.
    induction l as [|y l IH]; intros j x H; destruct j; cbn [firstn] in H; try contradiction.
    destruct H as [H|H]; [left; exact H|right; apply (IH j); exact H].
  Qed.

  Theorem crash_bounded k j junk : bounded (crash (run s0 (firstn k (save_ops t data))) j junk).
  Proof.
    rewrite run_k.
    assert (Hdd : dir_bounded dd0 (inew + 1)).
    { intros n i E. assert (i < inew) by (apply (Hbound n i); right; exact E). lia. }
    assert (Hd5 : dir_bounded d5 (inew + 1)).
    { unfold d5. apply dir_bounded_set; [|lia]. apply dir_bounded_del. apply dir_bounded_set; [|lia].
      intros n i E. assert (i < inew) by (apply (Hbound n i); left; exact E). lia. }
    assert (Hgen : forall s, f_next s = inew + 1 -> dir_bounded (f_ddir s) (inew + 1) ->
                             (forall o n i, In o (f_pending s) -> o = DLink n i -> i < inew + 1) ->
                             bounded (crash s j junk)).
    { intros s Hn Hb Hp n i H. unfold crash in *. cbn [f_dir f_ddir f_next] in *. rewrite Hn.
      assert (B : dir_bounded (fold_left dir_apply (firstn j (f_pending s)) (f_ddir s)) (inew + 1)).
      { apply dir_bounded_fold; [exact Hb|]. intros o n' i' Hin E. apply (Hp o n' i'); [|exact E].
        apply (In_firstn _ j). exact Hin. }
      destruct H as [H|H]; exact (B n i H). }
    assert (Hlink : forall o n i, In o [DLink t inew] -> o = DLink n i -> i < inew + 1).
    { intros o n i [<-|[]] E. inversion E; subst. lia. }
    assert (Hlink2 : forall o n i, In o [DLink t inew; DRename t 0] -> o = DLink n i -> i < inew + 1).
    { intros o n i [<-|[<-|[]]] E; inversion E; subst. lia. }
    destruct k as [|[|[|[|[|[|k]]]]]]; try (apply Hgen; [reflexivity|assumption|assumption]).
    - (* nothing done: the old state *)
      intros n i H. unfold crash in H. cbn [f_dir f_ddir f_next] in H. rewrite pending0, firstn_nil in H.
      cbn [fold_left] in H. unfold crash. cbn [f_next]. apply (Hbound n i). right. destruct H as [H|H]; exact H.
    - apply Hgen; [reflexivity|exact Hd5|intros o n i []].
  Qed.
End Save.

(* ---- any history of saves and crashes ---- *)

Theorem history_reads junk : forall l s0 n,
  settled s0 = true -> bounded s0 -> Forall (fun a => a_t a <> 0) l ->
  In (read (history s0 junk n l) 0) (read s0 0 :: map (fun a => Some (a_data a)) l)
  /\ settled (history s0 junk n l) = true.
Proof.
  induction l as [|a l IH]; intros s0 n Hs Hb Hl.
  - cbn [history map]. split; [left; reflexivity|exact Hs].
  - inversion Hl as [|? ? Ha Hl']; subst. cbn [history].
    destruct (old_or_new s0 (a_t a) (a_data a) Hs Hb Ha (a_k a) (a_j a) (junk n)) as [Hr Hs'].
    pose proof (crash_bounded s0 (a_t a) (a_data a) Hs Hb Ha (a_k a) (a_j a) (junk n)) as Hb'.
    destruct (IH _ (S n) Hs' Hb' Hl') as [Hin Hset]. split; [|exact Hset].
    cbn [map]. destruct Hin as [Hin|Hin].
    + destruct Hr as [Hr|Hr]; unfold reads_old, reads_new in Hr; rewrite Hr in Hin.
      * left. exact Hin.
      * right. left. exact Hin.
    + right. right. exact Hin.
Qed.

(* ---- the codec ---- *)

Section DecodeFacts.
  Variable parse : bytes -> option CState.
  Variable ck : CState -> bytes.

  (* a file is accepted only if it parses to a state that carries the checksum of its own content,
     has the current schema and validates: every other file is rejected *)
  Theorem decode_consistent data s :
    Decode parse ck data = Some s ->
    exists st, parse data = Some st
               /\ s_schema st = CurrentSchemaVersion
               /\ s_checksum st <> [] /\ s_checksum st = ck st
               /\ s = set_checksum (Normalize st) (ck st) /\ Validate s = true.
  Proof.
    unfold Decode. destruct (parse data) as [st|]; [|discriminate].
    destruct (s_schema st =? CurrentSchemaVersion) eqn:E1; cbn [negb]; [|discriminate].
    destruct (is_empty (s_checksum st)) eqn:E2; [discriminate|].
    destruct (bytes_eqb (s_checksum st) (ck st)) eqn:E3; cbn [negb]; [|discriminate].
    destruct (Validate (set_checksum (Normalize st) (ck st))) eqn:E4; [|discriminate].
    intro H. inversion H; subst s. exists st.
    split; [reflexivity|]. split; [lia|]. split; [intro X; rewrite X in E2; discriminate E2|].
    split; [apply bytes_eqb_eq; exact E3|]. split; [reflexivity|exact E4].
  Qed.

End DecodeFacts.

Section CodecFacts.
  Variable parse : bytes -> option CState.
  Variable render : CState -> bytes.
  Variable ck : CState -> bytes.

  (* JSON round trip and the two facts about state.Checksum used by Encode/Decode *)
  Hypothesis parse_render : forall s, parse (render s) = Some s.
  Hypothesis ck_blind : forall s x, ck (set_checksum s x) = ck s.
  Hypothesis ck_nonempty : forall s, ck s <> [].

  Theorem encode_decode st data :
    Encode render ck st = Some data ->
    Decode parse ck data = Some (set_checksum (Normalize st) (ck (Normalize st))).
  Proof.
    unfold Encode. destruct (Validate (Normalize st)) eqn:V; [|discriminate].
    intro H. inversion H; subst data. unfold Decode. rewrite parse_render.
    assert (Hs : s_schema (set_checksum (Normalize st) (ck (Normalize st))) = CurrentSchemaVersion).
    { unfold Validate, validate_normalized in V.
      repeat (apply andb_true_iff in V; destruct V as [V ?]).
      cbn [s_schema set_checksum]. rewrite !s_schema_Normalize in *. lia. }
    rewrite Hs, N.eqb_refl. cbn [negb s_checksum set_checksum].
    destruct (ck (Normalize st)) as [|b r] eqn:Ec; [exfalso; exact (ck_nonempty _ Ec)|].
    cbn [is_empty]. rewrite <- Ec.
    change (CS (s_schema (Normalize st)) (s_cluster (Normalize st)) (s_rev (Normalize st)) (s_applied (Normalize st))
               (s_updated (Normalize st)) (s_config (Normalize st)) (s_controllers (Normalize st)) (s_nodes (Normalize st))
               (s_slots (Normalize st)) (s_health (Normalize st)) (s_hashslots (Normalize st)) (s_tasks (Normalize st))
               (s_sb (Normalize st)) (s_ops (Normalize st)) (ck (Normalize st)))
      with (set_checksum (Normalize st) (ck (Normalize st))).
    rewrite ck_blind, bytes_eqb_refl. cbn [negb].
    rewrite Normalize_set_checksum, Normalize_idem, set_checksum_set_checksum.
    rewrite Validate_set_checksum, V. reflexivity.
  Qed.
End CodecFacts.
