(* Proof/WkEnc_blocks.v — PKCS7, block splitting and xor: the concrete,
   key-independent half of the CBC round trip of Model/WkEnc.v. *)
From WK Require Import Base.Base Base.Bytes Gen.Consts_C25 Model.WkEnc.
From Coq Require Import ZifyBool ZifyN ZifyNat.
Ltac Zify.zify_post_hook ::= Z.div_mod_to_equations.
Open Scope N_scope.

Definition is_block (b : bytes) : Prop := length b = 16%nat /\ all_bytes b = true.

Lemma block_len_16 : block_len = 16%nat.
Proof. reflexivity. Qed.

(* ---- bytes ---------------------------------------------------------------------------- *)

Lemma lxor_byte a b : a < 256 -> b < 256 -> N.lxor a b < 256.
Proof.
  intros Ha Hb.
  destruct (N.eq_dec (N.lxor a b) 0) as [E|E]; [rewrite E; reflexivity|].
  change 256 with (2 ^ 8). apply N.log2_lt_pow2; [lia|].
  pose proof (N.log2_lxor a b) as L.
  assert (La : N.log2 a < 8).
  { destruct (N.eq_dec a 0) as [->|Na]; [reflexivity|]. apply N.log2_lt_pow2; [lia|exact Ha]. }
  assert (Lb : N.log2 b < 8).
  { destruct (N.eq_dec b 0) as [->|Nb]; [reflexivity|]. apply N.log2_lt_pow2; [lia|exact Hb]. }
  lia.
Qed.

Lemma all_bytes_cons x r : all_bytes (x :: r) = true <-> x < 256 /\ all_bytes r = true.
Proof.
  cbn [all_bytes forallb]. rewrite andb_true_iff. unfold is_byte. rewrite N.ltb_lt. reflexivity.
Qed.

Lemma all_bytes_firstn n d : all_bytes d = true -> all_bytes (firstn n d) = true.
Proof.
  revert d. induction n as [|n IH]; intros [|x d] H; try reflexivity.
  apply all_bytes_cons in H. destruct H as [Hx Hd]. cbn [firstn]. apply all_bytes_cons. split; [exact Hx|apply IH; exact Hd].
Qed.

Lemma all_bytes_skipn n d : all_bytes d = true -> all_bytes (skipn n d) = true.
Proof.
  revert d. induction n as [|n IH]; intros [|x d] H; try reflexivity; [exact H|].
  apply all_bytes_cons in H. destruct H as [Hx Hd]. cbn [skipn]. apply IH; exact Hd.
Qed.

Lemma all_bytes_repeat x n : x < 256 -> all_bytes (repeat x n) = true.
Proof. intro H. induction n as [|n IH]; [reflexivity|]. cbn [repeat]. apply all_bytes_cons. split; assumption. Qed.

Lemma all_bytes_concat bs : Forall (fun b => all_bytes b = true) bs -> all_bytes (concat bs) = true.
Proof.
  induction 1 as [|b bs Hb _ IH]; [reflexivity|]. cbn [concat]. rewrite all_bytes_app, Hb, IH. reflexivity.
Qed.

(* ---- xorBlock --------------------------------------------------------------------------- *)

Lemma xorBlock_length a : forall b, length a = length b -> length (xorBlock a b) = length a.
Proof.
  induction a as [|x a IH]; intros [|y b] H; try reflexivity; try discriminate.
  cbn [xorBlock length]. f_equal. apply IH. injection H as H. exact H.
Qed.

Lemma xorBlock_involutive a : forall b, length a = length b -> xorBlock (xorBlock a b) b = a.
Proof.
  induction a as [|x a IH]; intros [|y b] H; try reflexivity; try discriminate.
  cbn [xorBlock]. f_equal.
  - rewrite N.lxor_assoc, N.lxor_nilpotent, N.lxor_0_r. reflexivity.
  - apply IH. injection H as H. exact H.
Qed.

Lemma xorBlock_bytes a : forall b, all_bytes a = true -> all_bytes b = true -> all_bytes (xorBlock a b) = true.
Proof.
  induction a as [|x a IH]; intros [|y b] Ha Hb; try reflexivity.
  apply all_bytes_cons in Ha. apply all_bytes_cons in Hb. destruct Ha as [Hx Ha], Hb as [Hy Hb].
  cbn [xorBlock]. apply all_bytes_cons. split; [apply lxor_byte; assumption|apply IH; assumption].
Qed.

Lemma xorBlock_block a b : is_block a -> is_block b -> is_block (xorBlock a b).
Proof.
  intros [La Ba] [Lb Bb]. split.
  - rewrite xorBlock_length; [exact La|congruence].
  - apply xorBlock_bytes; assumption.
Qed.

(* ---- chunks ------------------------------------------------------------------------------- *)

Definition len16 (b : bytes) : Prop := length b = 16%nat.

Lemma chunks_fuel_step f x d :
  chunks_fuel (S f) (x :: d) = firstn 16 (x :: d) :: chunks_fuel f (skipn 16 (x :: d)).
Proof. reflexivity. Qed.

Lemma chunks_fuel_concat bs : Forall len16 bs -> forall fuel, (length bs <= fuel)%nat ->
  chunks_fuel fuel (concat bs) = bs.
Proof.
  induction 1 as [|b bs Hb _ IH]; intros fuel Hf.
  - destruct fuel; reflexivity.
  - destruct fuel as [|fuel]; [cbn [length] in Hf; lia|].
    unfold len16 in Hb. change (concat (b :: bs)) with (b ++ concat bs).
    assert (Hf' : (length bs <= fuel)%nat) by (cbn [length] in Hf; lia).
    destruct b as [|x b]; [discriminate|].
    change ((x :: b) ++ concat bs) with (x :: (b ++ concat bs)).
    rewrite chunks_fuel_step.
    change (x :: (b ++ concat bs)) with ((x :: b) ++ concat bs).
    rewrite firstn_app, skipn_app, Hb, Nat.sub_diag.
    change (firstn 0 (concat bs)) with (@nil N). change (skipn 0 (concat bs)) with (concat bs).
    rewrite app_nil_r, <- Hb, firstn_all, skipn_all. change ([] ++ concat bs) with (concat bs).
    f_equal. apply IH. exact Hf'.
Qed.

Lemma concat_length16 bs : Forall len16 bs -> length (concat bs) = (16 * length bs)%nat.
Proof.
  induction 1 as [|b bs Hb _ IH]; [reflexivity|]. cbn [concat length]. rewrite app_length, IH, Hb. lia.
Qed.

Lemma chunks_concat bs : Forall len16 bs -> chunks (concat bs) = bs.
Proof.
  intro H. unfold chunks. apply chunks_fuel_concat; [exact H|]. rewrite concat_length16 by exact H. lia.
Qed.

(* a buffer whose length is a multiple of 16 is a concatenation of 16-byte blocks *)
Lemma split_blocks m : forall d, length d = (16 * m)%nat ->
  exists bs, d = concat bs /\ Forall len16 bs /\ length bs = m.
Proof.
  induction m as [|m IH]; intros d H.
  - exists []. destruct d; [|discriminate]. repeat split. constructor.
  - destruct (IH (skipn 16 d)) as (bs & E & F & L).
    + rewrite skipn_length. lia.
    + exists (firstn 16 d :: bs). cbn [concat]. rewrite <- E, firstn_skipn. repeat split.
      * constructor; [|exact F]. unfold len16. rewrite firstn_length. lia.
      * cbn [length]. lia.
Qed.

Lemma forall_blocks bs : Forall len16 bs -> all_bytes (concat bs) = true -> Forall is_block bs.
Proof.
  induction 1 as [|b bs Hb _ IH]; intro H; [constructor|].
  cbn [concat] in H. rewrite all_bytes_app in H. apply andb_true_iff in H. destruct H as [H1 H2].
  constructor; [split; assumption|apply IH; exact H2].
Qed.

Lemma blocks_len16 bs : Forall is_block bs -> Forall len16 bs.
Proof. apply Forall_impl. intros b [H _]. exact H. Qed.

Lemma blocks_bytes bs : Forall is_block bs -> all_bytes (concat bs) = true.
Proof. intro H. apply all_bytes_concat. revert H. apply Forall_impl. intros b [_ H]. exact H. Qed.

(* ---- PKCS7 ----------------------------------------------------------------------------------- *)

(* c25_pad_range: the padding size is in 1..16 and completes the block *)
Lemma pkcs7PaddingSize_spec n :
  let k := pkcs7PaddingSize n AesBlockSize in 1 <= k <= 16 /\ (n + k) mod 16 = 0.
Proof.
  unfold pkcs7PaddingSize. change AesBlockSize with 16.
  destruct (16 - n mod 16 =? 0) eqn:E; lia.
Qed.

Lemma pkcs7_pad_length p : exists m, (length (pkcs7_pad p) = 16 * m)%nat /\ (1 <= m)%nat.
Proof.
  unfold pkcs7_pad. pose proof (pkcs7PaddingSize_spec (N.of_nat (length p))) as S. cbv zeta in S.
  set (k := pkcs7PaddingSize (N.of_nat (length p)) AesBlockSize) in *.
  rewrite app_length, repeat_length.
  exists (N.to_nat ((N.of_nat (length p) + k) / 16)). lia.
Qed.

Lemma pkcs7_pad_bytes p : all_bytes p = true -> all_bytes (pkcs7_pad p) = true.
Proof.
  intro H. unfold pkcs7_pad. pose proof (pkcs7PaddingSize_spec (N.of_nat (length p))) as S. cbv zeta in S.
  rewrite all_bytes_app, H. apply all_bytes_repeat. lia.
Qed.

Lemma last_app_repeat {A} (p : list A) x n d : (1 <= n)%nat -> last (p ++ repeat x n) d = x.
Proof.
  intro Hn. destruct n as [|n]; [lia|].
  replace (repeat x (S n)) with (repeat x n ++ [x]).
  - rewrite app_assoc. apply last_last.
  - clear. induction n as [|n IH]; [reflexivity|]. cbn [repeat app] in *. rewrite IH. reflexivity.
Qed.

Lemma forallb_repeat (f : N -> bool) x n : f x = true -> forallb f (repeat x n) = true.
Proof. intro H. induction n as [|n IH]; [reflexivity|]. cbn [repeat forallb]. rewrite H, IH. reflexivity. Qed.

Theorem pkcs7_unpad_pad p : pkcs7UnpadView (pkcs7_pad p) AesBlockSize = Some p.
Proof.
  unfold pkcs7UnpadView, pkcs7_pad.
  pose proof (pkcs7PaddingSize_spec (N.of_nat (length p))) as S. cbv zeta in S.
  set (k := pkcs7PaddingSize (N.of_nat (length p)) AesBlockSize) in *.
  destruct S as [Sk Sm].
  rewrite last_app_repeat by lia.
  rewrite app_length, repeat_length. change AesBlockSize with 16.
  replace (N.of_nat (length p + N.to_nat k)) with (N.of_nat (length p) + k) by lia.
  replace (length p + N.to_nat k - N.to_nat k)%nat with (length p) by lia.
  rewrite Sm.
  destruct (N.of_nat (length p) + k =? 0) eqn:E1; [lia|].
  cbn [orb negb N.eqb].
  destruct (k =? 0) eqn:E2; [lia|]. destruct (16 <? k) eqn:E3; [lia|].
  destruct (N.of_nat (length p) + k <? k) eqn:E4; [lia|]. cbn [orb].
  rewrite skipn_app, skipn_all, Nat.sub_diag. cbn [skipn app].
  rewrite forallb_repeat by apply N.eqb_refl.
  rewrite firstn_app, firstn_all, Nat.sub_diag. cbn [firstn]. rewrite app_nil_r. reflexivity.
Qed.
