(* Proof/Delivery_local.v — pushOwnerLocal: the result partitions the pushed
   routes; only pushed routes are written; shape of the retry set. *)
From WK Require Import Base.Base Gen.Consts_C31 Model.Delivery Model.Delivery_C31.
From Coq Require Import Permutation.
Open Scope N_scope.

(* ----------------------------------------------------- route equality ---- *)

Lemma route_eqb_eq a b : route_eqb a b = true <-> a = b.
Proof.
  destruct a as [u o b0 q s d f l], b as [u' o' b0' q' s' d' f' l'].
  unfold route_eqb. cbn [r_uid r_owner r_boot r_oseq r_sess r_dev r_flag r_level].
  rewrite !andb_true_iff, !bytes_eqb_eq, !N.eqb_eq. split.
  - intros [[[[[[[-> ->] ->] ->] ->] ->] ->] ->]. reflexivity.
  - intros E. inversion E. subst. repeat split.
Qed.

Lemma route_eqb_refl a : route_eqb a a = true.
Proof. apply route_eqb_eq. reflexivity. Qed.

Lemma routes_eqb_eq a b : routes_eqb a b = true <-> a = b.
Proof. apply list_eqb_spec. apply route_eqb_eq. Qed.

Lemma routes_eqb_refl a : routes_eqb a a = true.
Proof. apply routes_eqb_eq. reflexivity. Qed.

Lemma mem_route_in r l : mem_route r l = true <-> In r l.
Proof.
  unfold mem_route. rewrite existsb_exists. split.
  - intros (x & Hx & E). apply route_eqb_eq in E. subst. exact Hx.
  - intros H. exists r. split; [exact H| apply route_eqb_refl].
Qed.

(* -------------------------------------------------------- multisets ---- *)

Lemma count_r_app x a b : count_r x (a ++ b) = (count_r x a + count_r x b)%nat.
Proof. unfold count_r. rewrite filter_app, app_length. reflexivity. Qed.

Lemma count_r_cons x y l :
  count_r x (y :: l) = ((if route_eqb x y then 1 else 0) + count_r x l)%nat.
Proof. unfold count_r. simpl. destruct (route_eqb x y); reflexivity. Qed.

Lemma perm_count x a b : Permutation a b -> count_r x a = count_r x b.
Proof.
  induction 1 as [|y a b _ IH|y z a|a b c _ IH1 _ IH2].
  - reflexivity.
  - rewrite !count_r_cons, IH. reflexivity.
  - rewrite !count_r_cons. lia.
  - congruence.
Qed.

Lemma same_routes_perm a b : Permutation a b -> same_routes a b = true.
Proof.
  intros P. unfold same_routes. apply forallb_forall. intros x _.
  apply Nat.eqb_eq. apply perm_count. exact P.
Qed.

Lemma same_routes_refl a : same_routes a a = true.
Proof. apply same_routes_perm. apply Permutation_refl. Qed.

Lemma sub_routes_intro a b :
  (forall x, (count_r x a <= count_r x b)%nat) -> sub_routes a b = true.
Proof.
  intros H. unfold sub_routes. apply forallb_forall. intros x _. apply Nat.leb_le. apply H.
Qed.

Lemma prefix_routes_refl a : prefix_routes a a = true.
Proof. induction a as [|x a IH]; simpl; [reflexivity| rewrite route_eqb_refl, IH; reflexivity]. Qed.

Lemma prefix_routes_nil a : prefix_routes [] a = true.
Proof. destruct a; reflexivity. Qed.

(* ---------------------------------------- accumulator-free form of the loop ---- *)

Definition wclass (k : N) (w : route * N * bool) : bool := disp_class (w_disp w) =? k.

Definition no_reject (orc : list lout) : Prop := ~ In LReject orc.

Definition orc_next (orc : list lout) : lout :=
  match orc with o :: _ => o | [] => LWrite c31_write_accepted false end.
Definition orc_rest (orc : list lout) : list lout :=
  match orc with _ :: t => t | [] => [] end.

Fixpoint lspec (hw : bool) (msgid owner : N) (rs : list route) (orc : list lout) (cx : bool) : lres :=
  match rs with
  | [] => LRes [] [] [] [] cx
  | r :: rs' =>
      if cx then
        let s := lspec hw msgid owner rs' orc true in
        LRes (l_acc s) (r :: l_retry s) (l_drop s) (l_writes s) (l_cx s)
      else if negb (route_valid msgid owner r) then
        let s := lspec hw msgid owner rs' orc false in
        LRes (l_acc s) (l_retry s) (r :: l_drop s) (l_writes s) (l_cx s)
      else
        match orc_next orc with
        | LReject =>
            let s := lspec hw msgid owner rs' (orc_rest orc) false in
            LRes (l_acc s) (l_retry s) (r :: l_drop s) (l_writes s) (l_cx s)
        | LWrite d c =>
            if hw then
              let s := lspec hw msgid owner rs' (orc_rest orc) c in
              if disp_class d =? 1 then
                LRes (r :: l_acc s) (l_retry s) (l_drop s) ((r, d, c) :: l_writes s) (l_cx s)
              else if disp_class d =? 2 then
                LRes (l_acc s) (r :: l_retry s) (l_drop s) ((r, d, c) :: l_writes s) (l_cx s)
              else
                LRes (l_acc s) (l_retry s) (r :: l_drop s) ((r, d, c) :: l_writes s) (l_cx s)
            else
              let s := lspec hw msgid owner rs' (orc_rest orc) false in
              LRes (l_acc s) (r :: l_retry s) (l_drop s) (l_writes s) (l_cx s)
        end
  end.

Definition lres_app (a s : lres) : lres :=
  LRes (l_acc a ++ l_acc s) (l_retry a ++ l_retry s) (l_drop a ++ l_drop s)
       (l_writes a ++ l_writes s) (l_cx s).

Lemma snoc_app {A} (x : list A) (r : A) (y : list A) : (x ++ [r]) ++ y = x ++ r :: y.
Proof. rewrite <- app_assoc. reflexivity. Qed.

Lemma local_loop_lspec hw msgid owner rs : forall orc a,
  local_loop hw msgid owner rs orc a = lres_app a (lspec hw msgid owner rs orc (l_cx a)).
Proof.
  induction rs as [|r rs IH]; intros orc a.
  - destruct a. unfold lres_app. simpl. rewrite !app_nil_r. reflexivity.
  - cbn [local_loop lspec].
    destruct (l_cx a) eqn:Hcx.
    { rewrite IH. unfold lres_app. cbn [l_acc l_retry l_drop l_writes l_cx].
      rewrite snoc_app. reflexivity. }
    destruct (negb (route_valid msgid owner r)).
    { rewrite IH. unfold lres_app. cbn [l_acc l_retry l_drop l_writes l_cx].
      rewrite snoc_app. reflexivity. }
    fold (orc_next orc). fold (orc_rest orc).
    destruct (orc_next orc) as [|d c].
    { rewrite IH. unfold lres_app. cbn [l_acc l_retry l_drop l_writes l_cx].
      rewrite snoc_app. reflexivity. }
    destruct hw.
    + destruct (disp_class d =? 1); [|destruct (disp_class d =? 2)];
        rewrite IH; unfold lres_app; cbn [l_acc l_retry l_drop l_writes l_cx];
        rewrite !snoc_app; reflexivity.
    + rewrite IH. unfold lres_app. cbn [l_acc l_retry l_drop l_writes l_cx].
      rewrite snoc_app. reflexivity.
Qed.

(* ------------------------------------------------- properties of lspec ---- *)

Lemma no_reject_rest orc : no_reject orc -> no_reject (orc_rest orc).
Proof. destruct orc; simpl; [auto|]. unfold no_reject. simpl. tauto. Qed.

Lemma no_reject_next orc : no_reject orc -> orc_next orc <> LReject.
Proof.
  destruct orc as [|o t]; simpl; [discriminate|]. unfold no_reject. simpl.
  intros H E. apply H. left. exact E.
Qed.

(* Accepted, Retryable, Dropped partition the pushed routes *)
Lemma lspec_partition hw msgid owner rs : forall orc cx,
  let s := lspec hw msgid owner rs orc cx in
  Permutation (l_acc s ++ l_retry s ++ l_drop s) rs.
Proof.
  induction rs as [|r rs IH]; intros orc cx; cbn [lspec].
  - simpl. constructor.
  - assert (Hmid : forall (a b c : list route),
               Permutation (a ++ b ++ c) rs -> Permutation (a ++ (r :: b) ++ c) (r :: rs)).
    { intros a b c P. simpl. apply Permutation_sym. apply Permutation_cons_app.
      apply Permutation_sym. exact P. }
    assert (Hend : forall (a b c : list route),
               Permutation (a ++ b ++ c) rs -> Permutation (a ++ b ++ r :: c) (r :: rs)).
    { intros a b c P. rewrite app_assoc. apply Permutation_sym. apply Permutation_cons_app.
      rewrite <- app_assoc. apply Permutation_sym. exact P. }
    destruct cx; [cbn [l_acc l_retry l_drop]; apply Hmid; apply IH|].
    destruct (negb (route_valid msgid owner r)); [cbn [l_acc l_retry l_drop]; apply Hend; apply IH|].
    destruct (orc_next orc) as [|d c]; [cbn [l_acc l_retry l_drop]; apply Hend; apply IH|].
    destruct hw.
    + destruct (disp_class d =? 1); [|destruct (disp_class d =? 2)]; cbn [l_acc l_retry l_drop].
      * simpl. constructor. apply IH.
      * apply Hmid. apply IH.
      * apply Hend. apply IH.
    + cbn [l_acc l_retry l_drop]. apply Hmid. apply IH.
Qed.

(* the accepted routes are exactly the writes the session accepted *)
Lemma lspec_acc hw msgid owner rs : forall orc cx,
  let s := lspec hw msgid owner rs orc cx in
  l_acc s = map w_route (filter (wclass 1) (l_writes s)).
Proof.
  induction rs as [|r rs IH]; intros orc cx; cbn [lspec].
  - reflexivity.
  - destruct cx; [cbn [l_acc l_writes]; apply IH|].
    destruct (negb (route_valid msgid owner r)); [cbn [l_acc l_writes]; apply IH|].
    destruct (orc_next orc) as [|d c]; [cbn [l_acc l_writes]; apply IH|].
    destruct hw; [|cbn [l_acc l_writes]; apply IH].
    destruct (disp_class d =? 1) eqn:E1; [|destruct (disp_class d =? 2) eqn:E2];
      cbn [l_acc l_writes filter]; unfold wclass at 1, w_disp at 1; cbn [fst snd]; rewrite E1.
    + cbn [map]. unfold w_route at 1. cbn [fst]. f_equal. apply IH.
    + apply IH.
    + apply IH.
Qed.

(* only pushed routes are written, each at most as often as it was pushed *)
Lemma lspec_writes_count hw msgid owner rs x : forall orc cx,
  let s := lspec hw msgid owner rs orc cx in
  (count_r x (map w_route (l_writes s)) <= count_r x rs)%nat.
Proof.
  induction rs as [|r rs IH]; intros orc cx; cbn [lspec].
  - simpl. unfold count_r. simpl. lia.
  - rewrite count_r_cons.
    destruct cx; [cbn [l_writes]; specialize (IH orc true); simpl in IH; lia|].
    destruct (negb (route_valid msgid owner r)); [cbn [l_writes]; specialize (IH orc false); simpl in IH; lia|].
    destruct (orc_next orc) as [|d c]; [cbn [l_writes]; specialize (IH (orc_rest orc) false); simpl in IH; lia|].
    destruct hw; [|cbn [l_writes]; specialize (IH (orc_rest orc) false); simpl in IH; lia].
    specialize (IH (orc_rest orc) c). simpl in IH.
    destruct (disp_class d =? 1); [|destruct (disp_class d =? 2)];
      cbn [l_writes map]; unfold w_route at 1; cbn [fst]; rewrite count_r_cons; lia.
Qed.

Lemma lspec_writes_valid hw msgid owner rs : forall orc cx w,
  In w (l_writes (lspec hw msgid owner rs orc cx)) -> route_valid msgid owner (w_route w) = true.
Proof.
  induction rs as [|r rs IH]; intros orc cx w; cbn [lspec].
  - simpl. tauto.
  - destruct cx; [cbn [l_writes]; apply IH|].
    destruct (negb (route_valid msgid owner r)) eqn:Hv; [cbn [l_writes]; apply IH|].
    apply negb_false_iff in Hv.
    destruct (orc_next orc) as [|d c]; [cbn [l_writes]; apply IH|].
    destruct hw; [|cbn [l_writes]; apply IH].
    destruct (disp_class d =? 1); [|destruct (disp_class d =? 2)]; cbn [l_writes];
      (intros [<-|H]; [exact Hv| eapply IH; exact H]).
Qed.

(* after the context ended nothing is written; everything left is Retryable *)
Lemma lspec_cancelled hw msgid owner rs orc :
  lspec hw msgid owner rs orc true = LRes [] rs [] [] true.
Proof.
  induction rs as [|r rs IH]; cbn [lspec]; [reflexivity|]. rewrite IH. reflexivity.
Qed.

(* SessionWriter == nil *)
Lemma lspec_nowriter msgid owner rs : forall orc,
  no_reject orc ->
  let s := lspec false msgid owner rs orc false in
  l_writes s = [] /\ l_retry s = filter (route_valid msgid owner) rs /\ l_cx s = false /\ l_acc s = [].
Proof.
  induction rs as [|r rs IH]; intros orc NR; cbn [lspec filter].
  - auto.
  - destruct (route_valid msgid owner r) eqn:Hv; cbn [negb].
    + pose proof (no_reject_next orc NR) as Hn.
      destruct (orc_next orc) as [|d c]; [congruence|].
      destruct (IH (orc_rest orc) (no_reject_rest _ NR)) as (A & B & C & D).
      cbn [l_acc l_retry l_writes l_cx]. rewrite A, B, C, D. auto.
    + destruct (IH orc NR) as (A & B & C & D).
      cbn [l_acc l_retry l_writes l_cx]. auto.
Qed.

(* with a writer: the writes follow the valid routes in order, up to the write
   during which the context ended; without cancellation every valid route is
   written and the retry set is exactly the writes classified retryable *)
Lemma lspec_writer msgid owner rs : forall orc,
  no_reject orc ->
  let s := lspec true msgid owner rs orc false in
  prefix_routes (map w_route (l_writes s)) (filter (route_valid msgid owner) rs) = true
  /\ l_cx s = existsb w_cancel (l_writes s)
  /\ (l_cx s = false ->
      map w_route (l_writes s) = filter (route_valid msgid owner) rs
      /\ l_retry s = map w_route (filter (wclass 2) (l_writes s))).
Proof.
  induction rs as [|r rs IH]; intros orc NR; cbn [lspec filter].
  - simpl. auto.
  - destruct (route_valid msgid owner r) eqn:Hv; cbn [negb].
    2:{ destruct (IH orc NR) as (A & B & C). cbn [l_retry l_writes l_cx]. auto. }
    pose proof (no_reject_next orc NR) as Hn.
    destruct (orc_next orc) as [|d c]; [congruence|].
    pose proof (no_reject_rest _ NR) as NR'.
    assert (Hgen :
      let s := lspec true msgid owner rs (orc_rest orc) c in
      prefix_routes (r :: map w_route (l_writes s)) (r :: filter (route_valid msgid owner) rs) = true
      /\ l_cx s = (c || existsb w_cancel (l_writes s))
      /\ (l_cx s = false ->
          r :: map w_route (l_writes s) = r :: filter (route_valid msgid owner) rs
          /\ l_retry s = map w_route (filter (wclass 2) (l_writes s)))).
    { destruct c.
      - rewrite lspec_cancelled. cbn [l_writes l_cx l_retry map]. simpl.
        rewrite route_eqb_refl. split; [reflexivity|]. split; [reflexivity| discriminate].
      - destruct (IH (orc_rest orc) NR') as (A & B & C). cbn zeta.
        split; [simpl; rewrite route_eqb_refl; exact A|].
        split; [exact B|]. intros H. destruct (C H) as [C1 C2]. rewrite C1. auto. }
    cbn zeta in Hgen. destruct Hgen as (G1 & G2 & G3).
    destruct (disp_class d =? 1) eqn:E1; [|destruct (disp_class d =? 2) eqn:E2];
      cbn [l_retry l_writes l_cx map existsb filter];
      unfold w_route at 1, w_cancel at 1, wclass at 1, w_disp at 1; cbn [fst snd].
    + assert (E2 : disp_class d =? 2 = false).
      { apply N.eqb_eq in E1. rewrite E1. reflexivity. }
      rewrite E2. auto.
    + rewrite E2. split; [exact G1|]. split; [exact G2|].
      intros H. destruct (G3 H) as [C1 C2]. split; [exact C1|].
      cbn [map]. unfold w_route at 1. cbn [fst]. f_equal. exact C2.
    + rewrite E2. auto.
Qed.

(* a Retryable route was pushed *)
Lemma lspec_retry_in hw msgid owner rs orc cx x :
  In x (l_retry (lspec hw msgid owner rs orc cx)) -> In x rs.
Proof.
  intros H. pose proof (lspec_partition hw msgid owner rs orc cx) as P. cbn zeta in P.
  apply (Permutation_in x P). apply in_or_app. right. apply in_or_app. left. exact H.
Qed.

(* ---------------------------------------------- pushOwnerLocal / attempt ---- *)

(* c31_local_result_partition *)
Theorem local_result_partition c ev owner rs orc cx :
  let '(err, r) := pushOwnerLocal c ev owner rs orc cx in
  err = 0 -> Permutation (l_acc r ++ l_retry r ++ l_drop r) rs.
Proof.
  unfold pushOwnerLocal.
  destruct ((c_local c =? 0) || (owner =? 0) || negb (owner =? c_local c)); [discriminate|].
  intros _. rewrite local_loop_lspec. unfold lres_app, lres0. cbn [l_acc l_retry l_drop l_cx].
  simpl. apply lspec_partition.
Qed.

(* only the exact pushed routes are ever written *)
Theorem local_writes_exact c ev owner rs orc cx w :
  In w (l_writes (snd (pushOwnerLocal c ev owner rs orc cx))) ->
  In (w_route w) rs /\ route_valid (e_msgid ev) owner (w_route w) = true.
Proof.
  unfold pushOwnerLocal.
  destruct ((c_local c =? 0) || (owner =? 0) || negb (owner =? c_local c)); [simpl; tauto|].
  cbn [snd]. rewrite local_loop_lspec. unfold lres_app, lres0. cbn [l_writes l_cx]. simpl.
  intros H. split.
  - pose proof (lspec_writes_count (c_has_writer c) (e_msgid ev) owner rs (w_route w) orc cx) as Hc.
    cbn zeta in Hc.
    assert (Hpos : (1 <= count_r (w_route w) (map w_route (l_writes (lspec (c_has_writer c) (e_msgid ev) owner rs orc cx))))%nat).
    { apply (in_map w_route) in H. revert H. generalize (map w_route (l_writes (lspec (c_has_writer c) (e_msgid ev) owner rs orc cx))).
      intros l Hl. induction l as [|y l IHl]; [contradiction|]. rewrite count_r_cons.
      destruct Hl as [->|Hl]; [rewrite route_eqb_refl; lia| specialize (IHl Hl); lia]. }
    assert (Hrs : (1 <= count_r (w_route w) rs)%nat) by lia.
    revert Hrs. clear. induction rs as [|y rs IH]; [unfold count_r; simpl; lia|].
    rewrite count_r_cons. destruct (route_eqb (w_route w) y) eqn:E.
    + intros _. left. symmetry. apply route_eqb_eq. exact E.
    + intros Hc. right. apply IH. lia.
  - eapply lspec_writes_valid. exact H.
Qed.
