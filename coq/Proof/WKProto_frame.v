(* Proof/WKProto_frame.v — composition: EncodeFrame / encodedFrameSize / DecodeFrame
   on whole frames, for every frame type and every version. *)
From WK Require Import Base.Base Base.Bytes Gen.Consts_C22 Model.WKProto Proof.WKProto Proof.WKProto_types.
From Coq Require Import ZifyBool ZifyN ZifyNat.
Open Scope N_scope.

(* the wire bytes of a frame within limits *)
Definition frame_bytes (f : frame) (v : N) : bytes :=
  if is_pingpong f then [(frame_type f * 16) mod 256]
  else ToFixHeaderUint8 f :: encodeVariable2 (blen (body_bytes f v)) ++ body_bytes f v.

Definition remlen_of (f : frame) (v : N) : N :=
  if is_pingpong f then 0 else blen (body_bytes f v).

Lemma within_limits_split v f : within_limits v f = true ->
  fields_ok v f = true /\ fst (encodedFrameBodySize f v) <= MaxRemaingLength.
Proof.
  unfold within_limits. intro H. apply andb_prop in H. destruct H as [H1 H2].
  split; [exact H1|]. apply N.leb_le. exact H2.
Qed.

Lemma body_bounds v f : within_limits v f = true -> is_pingpong f = false ->
  3 <= blen (body_bytes f v) /\ blen (body_bytes f v) <= MaxRemaingLength.
Proof.
  intros H NP. destruct (within_limits_split v f H) as [F L].
  destruct (body_size_ok v f F) as [S OK]. specialize (OK NP).
  pose proof (body_nonzero v f NP OK) as B. rewrite S in *. split; assumption.
Qed.

Lemma send_precheck v f : fields_ok v f = true ->
  match f with
  | FSend _ _ _ _ _ _ _ _ _ _ pl => if PayloadMaxSize <? blen pl then WErr else W []
  | _ => W []
  end = W [].
Proof.
  intro H. destruct f; try reflexivity. cbn [fields_ok] in H. split_ok H.
  match goal with Hp : (blen payload <=? PayloadMaxSize) = true |- _ =>
    assert (P : (PayloadMaxSize <? blen payload) = false) by (clear - Hp; lia) end.
  rewrite P. reflexivity.
Qed.

Lemma EncodeFrame_ok v f : within_limits v f = true -> EncodeFrame f v = EncOk (frame_bytes f v).
Proof.
  intro H. unfold EncodeFrame, frame_bytes.
  destruct (is_pingpong f) eqn:NP; [reflexivity|].
  destruct (within_limits_split v f H) as [F L].
  destruct (body_size_ok v f F) as [S _].
  destruct (body_bounds v f H NP) as [B1 B2].
  rewrite (send_precheck v f F), (encodeBody_ok v f F), S.
  rewrite wrap32_small by (unfold u32, u32max, MaxRemaingLength in *; lia).
  reflexivity.
Qed.

Lemma encodedFrameSize_ok v f : within_limits v f = true ->
  encodedFrameSize f v = blen (frame_bytes f v).
Proof.
  intro H. unfold encodedFrameSize, frame_bytes.
  destruct (is_pingpong f) eqn:NP; [reflexivity|].
  destruct (within_limits_split v f H) as [F L].
  destruct (body_size_ok v f F) as [S OK]. specialize (OK NP).
  destruct (body_bounds v f H NP) as [B1 B2].
  destruct (encodedFrameBodySize f v) as [sz ok]. cbn [fst snd] in *. subst ok sz.
  rewrite wrap32_small by (unfold u32, u32max, MaxRemaingLength in *; lia).
  unfold encodedVariableSize. rewrite blen_cons, blen_app. lia.
Qed.

Lemma skipn_body (h : N) var body tail :
  skipn (N.to_nat (1 + blen var)) (h :: var ++ body ++ tail) = body ++ tail.
Proof.
  replace (N.to_nat (1 + blen var)) with (S (length var)) by (unfold blen; lia).
  cbn [skipn]. rewrite skipn_app, Nat.sub_diag, skipn_all. reflexivity.
Qed.

Lemma firstn_body (body tail : bytes) : firstn (N.to_nat (blen body)) (body ++ tail) = body.
Proof.
  rewrite to_nat_blen, firstn_app, Nat.sub_diag, firstn_all, firstn_O, app_nil_r. reflexivity.
Qed.

Lemma type_not_unknown f : (frame_type f =? UNKNOWN) = false.
Proof. destruct f; reflexivity. Qed.

Lemma DecodeFrame_ok v f tail : within_limits v f = true ->
  DecodeFrame (frame_bytes f v ++ tail) v
  = DFrame (normalize v f)
           (Meta (frame_type f) (remlen_of f v) (blen (frame_bytes f v) + blen tail) false)
           (blen (frame_bytes f v)).
Proof.
  intro H. unfold frame_bytes, remlen_of.
  destruct (is_pingpong f) eqn:NP.
  - (* PING / PONG: one byte, flags not encoded *)
    destruct f; try (vm_compute in NP; discriminate); cbn [frame_type normalize app];
      unfold DecodeFrame.
    + change (FramerFromUint8 ((PING * 16) mod 256)) with (PING, Flags false false false false false).
      cbv beta iota zeta. change ((PING =? PING) || (PING =? PONG)) with true. cbv beta iota.
      change (PING =? UNKNOWN) with false. change (PING =? PING) with true. cbv beta iota.
      rewrite !blen_cons, blen_nil. replace (1 + 0 + blen tail) with (1 + blen tail) by lia. reflexivity.
    + change (FramerFromUint8 ((PONG * 16) mod 256)) with (PONG, Flags false false false false false).
      cbv beta iota zeta. change ((PONG =? PING) || (PONG =? PONG)) with true. cbv beta iota.
      change (PONG =? UNKNOWN) with false. change (PONG =? PING) with false.
      change (PONG =? PONG) with true. cbv beta iota.
      rewrite !blen_cons, blen_nil. replace (1 + 0 + blen tail) with (1 + blen tail) by lia. reflexivity.
  - destruct (within_limits_split v f H) as [F L].
    destruct (body_bounds v f H NP) as [B1 B2].
    set (body := body_bytes f v) in *.
    set (var := encodeVariable2 (blen body)).
    cbn [app]. rewrite <- app_assoc.
    unfold DecodeFrame.
    rewrite (header_roundtrip f NP). cbv beta iota zeta.
    unfold is_pingpong in NP. rewrite NP.
    apply orb_false_iff in NP. destruct NP as [N1 N2].
    unfold var at 1.
    rewrite decodeLength_enc by (unfold MaxRemaingLength in *; lia).
    fold var. cbv beta iota.
    rewrite type_not_unknown, N1, N2.
    assert (M : (MaxRemaingLength <? blen body) = false) by lia. rewrite M.
    assert (Sz : blen (ToFixHeaderUint8 f :: var ++ body ++ tail)
                 = 1 + blen var + blen body + blen tail).
    { rewrite blen_cons, !blen_app. lia. }
    rewrite Sz.
    assert (G : (1 + blen var + blen body + blen tail <? blen body + 1 + blen var) = false) by lia.
    rewrite G.
    rewrite skipn_body, firstn_body.
    destruct (packetDecodeMap_some f) as [dec D].
    { unfold is_pingpong. rewrite N1, N2. reflexivity. }
    rewrite D.
    pose proof (decode_body_rt v f dec F D) as R. fold body in R. rewrite R.
    f_equal.
    + f_equal. rewrite blen_cons, blen_app. lia.
    + rewrite blen_cons, blen_app. lia.
Qed.

(* ---- reflexivity of the decidable equalities ------------------------------------------- *)

Lemma bytes_eqb_refl a : bytes_eqb a a = true.
Proof. apply bytes_eqb_eq. reflexivity. Qed.

Lemma flags_eqb_refl a : flags_eqb a a = true.
Proof. apply flags_eqb_eq. reflexivity. Qed.

Lemma frame_eqb_refl f : frame_eqb f f = true.
Proof.
  destruct f; cbn [frame_eqb]; rewrite ?flags_eqb_refl, ?N.eqb_refl, ?bytes_eqb_refl; reflexivity.
Qed.

Lemma frame_eqb_eq a b : frame_eqb a b = true -> a = b.
Proof.
  destruct a, b; cbn [frame_eqb]; intro H; try discriminate; split_ok H;
    repeat match goal with
           | E : flags_eqb _ _ = true |- _ => apply flags_eqb_eq in E
           | E : (_ =? _) = true |- _ => apply N.eqb_eq in E
           | E : bytes_eqb _ _ = true |- _ => apply bytes_eqb_eq in E
           end; subst; reflexivity.
Qed.

(* ---- the C22 statements ------------------------------------------------------------------ *)

Theorem roundtrip v f tail : within_limits v f = true ->
  exists bs,
    EncodeFrame f v = EncOk bs
    /\ DecodeFrame (bs ++ tail) v
       = DFrame (normalize v f) (Meta (frame_type f) (remlen_of f v) (blen bs + blen tail) false) (blen bs)
    /\ encodedFrameSize f v = blen bs.
Proof.
  intro H. exists (frame_bytes f v). split; [apply EncodeFrame_ok; exact H|].
  split; [apply DecodeFrame_ok; exact H|apply encodedFrameSize_ok; exact H].
Qed.

Theorem roundtrip_exact v f tail : within_limits v f = true -> normalize v f = f ->
  exists bs m,
    EncodeFrame f v = EncOk bs /\ DecodeFrame (bs ++ tail) v = DFrame f m (blen bs)
    /\ encodedFrameSize f v = blen bs.
Proof.
  intros H E. destruct (roundtrip v f tail H) as [bs [A [B C]]].
  exists bs. eexists. rewrite E in B. split; [exact A|]. split; [exact B|exact C].
Qed.

Lemma model_satisfies_monitor v f tail :
  C22_monitor (C22Case v f tail (encodedFrameSize f v) (EncodeFrame f v)
                 (match EncodeFrame f v with EncOk bs => Some (DecodeFrame (bs ++ tail) v) | _ => None end)
                 true) = 0.
Proof.
  unfold C22_monitor. cbn [c22_v c22_f c22_tail c22_size c22_enc c22_dec c22_unchanged].
  destruct (within_limits v f) eqn:H; [|reflexivity].
  rewrite (EncodeFrame_ok v f H), (DecodeFrame_ok v f tail H), (encodedFrameSize_ok v f H).
  cbn [m_type]. rewrite frame_eqb_refl, !N.eqb_refl. reflexivity.
Qed.
