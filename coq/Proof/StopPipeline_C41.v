(* Proof/StopPipeline_C41.v — invariant of the stop / drain protocol and the C41 theorems. *)
From WK Require Import Base.Base Model.GatewaySend Model.StopPipeline_C41 Proof.GatewaySend_lib.
Open Scope N_scope.

Definition thold (p : tpc) : N := match p with TWork => 1 | _ => 0 end.

Record SInv (c : scfg) (st : sstate) : Prop := {
  i_range : forall t, (sc_ntasks c <= t)%nat -> s_tpc st t = TIdle;
  i_infl : s_inflight st = sumf (fun t => thold (s_tpc st t)) (sc_ntasks c);
  i_done : s_done st = true -> s_dstarted st = true /\ s_inflight st = 0 /\ s_cancelled st = true;
  i_dstarted : s_dstarted st = true -> s_stopping st = true;
  i_kpc : s_stopping st = false -> forall d, match s_kpc st d with KIdle | KSet _ => True | _ => False end;
  i_cancel : s_cancelled st = true -> sc_cod c = false -> s_done st = true;
  i_cancel_sig : s_cancelled st = true ->
                 s_done st = true \/ exists s, In s (s_stops st) /\ hp_ok s = false;
  i_sub_acc : forall x, In x (s_subs st) -> hb_acc x = true ->
              s_tpc st (hb_task x) = TWork \/ exists e, In e (s_terms st) /\ ht_task e = hb_task x;
  i_work_sub : forall t, s_tpc st t = TWork ->
               exists x, In x (s_subs st) /\ hb_task x = t /\ hb_acc x = true;
  i_term_fin : forall e, In e (s_terms st) ->
               s_tpc st (ht_task e) = TFin /\ exists x, In x (s_subs st) /\ hb_task x = ht_task e /\ hb_acc x = true;
  i_term_nodup : NoDup (map ht_task (s_terms st));
  i_b_subs : forall x, In x (s_subs st) -> hb_t0 x <= s_now st;
  i_b_gate : forall t t0, s_tpc st t = TGate t0 -> t0 <= s_now st;
  i_b_terms : forall e, In e (s_terms st) -> ht_t e <= s_now st;
  i_b_stops : forall s, In s (s_stops st) -> hp_t1 s <= s_now st;
  i_nostop : s_stopping st = false -> s_stops st = [];
  i_fence : forall x s, In x (s_subs st) -> hb_acc x = true -> In s (s_stops st) -> hb_t0 x <= hp_t1 s;
  i_okstop : forall s, In s (s_stops st) -> hp_ok s = true -> s_done st = true;
  i_stopped : forall s x, In s (s_stops st) -> hp_ok s = true -> In x (s_subs st) -> hb_acc x = true ->
              exists e, In e (s_terms st) /\ ht_task e = hb_task x /\ ht_t e < hp_t1 s;
  i_rc : forall e, In e (s_terms st) -> ht_res e = RCancel ->
         sc_cod c = true /\ exists s, In s (s_stops st) /\ hp_ok s = false /\ hp_t1 s <= ht_t e }.

Lemma sinv_init c : SInv c sinit.
Proof.
  constructor; cbn; intros; try contradiction; try discriminate; try reflexivity; try exact I.
  - induction (sc_ntasks c); cbn [sumf]; lia.
  - constructor.
Qed.

Lemma sum_t_upd (f : nat -> tpc) n t p :
  (t < n)%nat ->
  sumf (fun i => thold (upd f t p i)) n + thold (f t) = sumf (fun i => thold (f i)) n + thold p.
Proof.
  intro Ht.
  pose proof (sumf_change (fun i => thold (f i)) (fun i => thold (upd f t p i)) n t Ht
                (fun i Hi => f_equal thold (upd_other f t p i Hi))) as H.
  cbn beta in H. rewrite upd_same in H. exact H.
Qed.

Ltac sproj := cbn [s_now s_stopping s_cancelled s_dstarted s_done s_inflight s_tpc s_kpc s_subs s_terms s_stops] in *.

Ltac in_snoc H :=
  apply in_app_or in H; destruct H as [H|[H|[]]].

Ltac tidx t0 t :=
  let E := fresh "E" in
  destruct (Nat.eq_dec t0 t) as [E|?];
  [first [subst t0 | (rewrite ?E in *)]; rewrite ?upd_same in * | rewrite ?upd_other in * by assumption].

Ltac bounds :=
  intros;
  repeat match goal with
  | H : forall x, In x ?l -> _ <= _, Hin : In ?y ?l |- _ => specialize (H y Hin)
  | H : forall t t0, s_tpc _ t = TGate t0 -> _, Hin : s_tpc _ ?t = TGate ?t0 |- _ => specialize (H t t0 Hin)
  end; lia.

(* the state after the clock tick alone *)
Lemma sinv_tick c st :
  SInv c st ->
  SInv c (SSt (s_now st + 1) (s_stopping st) (s_cancelled st) (s_dstarted st) (s_done st)
              (s_inflight st) (s_tpc st) (s_kpc st) (s_subs st) (s_terms st) (s_stops st)).
Proof. intros []. constructor; sproj; try assumption; bounds. Qed.

Lemma sinv_step c st e : SInv c st -> SInv c (sstep c st e).
Proof.
  intros I. pose proof (sinv_tick c st I) as IT. unfold sstep. destruct e.
  - (* SSubmit *)
    sproj. destruct (s_tpc st t) eqn:Hp; try exact IT.
    destruct (t <? sc_ntasks c)%nat eqn:Ht; [|exact IT].
    apply Nat.ltb_lt in Ht. clear IT. destruct I. constructor; sproj; try assumption; try solve [bounds].
    + intros t0 H0. tidx t0 t; [lia|auto].
    + pose proof (sum_t_upd (s_tpc st) (sc_ntasks c) t (TGate (s_now st + 1)) Ht) as Hs.
      rewrite Hp in Hs. cbn [thold] in Hs. lia.
    + intros x Hx Ha. destruct (i_sub_acc0 x Hx Ha) as [H|H]; [|right; exact H]. left.
      tidx (hb_task x) t; [congruence|exact H].
    + intros t0 H0. tidx t0 t; [discriminate|auto].
    + intros e He. destruct (i_term_fin0 e He) as [H1 H2]. split; [|exact H2].
      tidx (ht_task e) t; [congruence|exact H1].
    + intros t0 t1 H0. tidx t0 t; [inversion H0; lia | specialize (i_b_gate0 _ _ H0); lia].
  - (* STask *)
    sproj. destruct (s_tpc st t) eqn:Hp; try exact IT.
    + (* TGate: the admission critical section *)
      assert (Ht : (t < sc_ntasks c)%nat).
      { destruct (Nat.lt_ge_cases t (sc_ntasks c)) as [H|H]; [exact H|]. rewrite (i_range c st I t H) in Hp. discriminate. }
      clear IT. destruct (s_stopping st) eqn:Hst.
      { (* rejected *)
        destruct I; constructor; sproj; try assumption; try solve [bounds].
        * intros t1 H1. tidx t1 t; [lia|auto].
        * pose proof (sum_t_upd (s_tpc st) (sc_ntasks c) t TFin Ht) as Hs. rewrite Hp in Hs. cbn [thold] in Hs. lia.
        * intros x Hx Ha. in_snoc Hx; [|subst x; discriminate Ha].
          destruct (i_sub_acc0 x Hx Ha) as [H|H]; [|right; exact H]. left. tidx (hb_task x) t; [congruence|exact H].
        * intros t1 H1. tidx t1 t; [discriminate|]. destruct (i_work_sub0 t1 H1) as [x [Hx Hx2]]. exists x. split; [apply in_or_app; left; exact Hx|exact Hx2].
        * intros e He. destruct (i_term_fin0 e He) as [H1 [x [Hx Hx2]]]. split.
          -- tidx (ht_task e) t; [reflexivity|exact H1].
          -- exists x. split; [apply in_or_app; left; exact Hx|exact Hx2].
        * intros x Hx. in_snoc Hx; [specialize (i_b_subs0 x Hx); lia|subst x; cbn [hb_t0]; specialize (i_b_gate0 t t0 Hp); lia].
        * intros t1 t2 H1. tidx t1 t; [discriminate|specialize (i_b_gate0 _ _ H1); lia].
        * intros x s Hx Ha Hs. in_snoc Hx; [eauto|subst x; discriminate Ha].
        * intros s x Hs Hok Hx Ha. in_snoc Hx; [eauto|subst x; discriminate Ha]. }
      { (* admitted *)
        destruct I; constructor; sproj; try assumption; try solve [bounds].
        * intros t1 H1. tidx t1 t; [lia|auto].
        * pose proof (sum_t_upd (s_tpc st) (sc_ntasks c) t TWork Ht) as Hs. rewrite Hp in Hs. cbn [thold] in Hs. lia.
        * intro Hd. destruct (i_done0 Hd) as [H1 _]. rewrite (i_dstarted0 H1) in Hst. discriminate.
        * intro Hd. rewrite (i_dstarted0 Hd) in Hst. discriminate.
        * intros _. apply i_kpc0. exact Hst.
        * intros x Hx Ha. in_snoc Hx.
          -- destruct (i_sub_acc0 x Hx Ha) as [H|H]; [|right; exact H]. left. tidx (hb_task x) t; [reflexivity|exact H].
          -- subst x. cbn [hb_task]. left. apply upd_same.
        * intros t1 H1. tidx t1 t.
          -- exists (HSub t t0 (s_now st + 1) true). split; [apply in_or_app; right; left; reflexivity|split; reflexivity].
          -- destruct (i_work_sub0 t1 H1) as [x [Hx Hx2]]. exists x. split; [apply in_or_app; left; exact Hx|exact Hx2].
        * intros e He. destruct (i_term_fin0 e He) as [H1 [x [Hx Hx2]]]. split.
          -- tidx (ht_task e) t; [congruence|exact H1].
          -- exists x. split; [apply in_or_app; left; exact Hx|exact Hx2].
        * intros x Hx. in_snoc Hx; [specialize (i_b_subs0 x Hx); lia|subst x; cbn [hb_t0]; specialize (i_b_gate0 t t0 Hp); lia].
        * intros t1 t2 H1. tidx t1 t; [discriminate|specialize (i_b_gate0 _ _ H1); lia].
        * intros _. apply i_nostop0. exact Hst.
        * intros x s Hx Ha Hs. rewrite (i_nostop0 Hst) in Hs. contradiction.
        * intros s x Hs. rewrite (i_nostop0 Hst) in Hs. contradiction. }
    + (* TWork: terminal result *)
      assert (Ht : (t < sc_ntasks c)%nat).
      { destruct (Nat.lt_ge_cases t (sc_ntasks c)) as [H|H]; [exact H|]. rewrite (i_range c st I t H) in Hp. discriminate. }
      destruct (res_eqb r RCancel && negb (s_cancelled st)) eqn:Hrc; [exact IT|]. clear IT.
      assert (Hpos : 1 <= s_inflight st).
      { rewrite (i_infl c st I). pose proof (sumf_ge (fun t => thold (s_tpc st t)) (sc_ntasks c) t Ht) as H.
        cbn beta in H. rewrite Hp in H. exact H. }
      destruct I; constructor; sproj; try assumption; try solve [bounds].
      * intros t1 H1. tidx t1 t; [lia|auto].
      * pose proof (sum_t_upd (s_tpc st) (sc_ntasks c) t TFin Ht) as Hs. rewrite Hp in Hs. cbn [thold] in Hs. lia.
      * intro Hd. destruct (i_done0 Hd) as [_ [H0 _]]. lia.
      * intros x Hx Ha. destruct (i_sub_acc0 x Hx Ha) as [H|[e [He1 He2]]].
        -- destruct (Nat.eq_dec (hb_task x) t) as [E|Hne].
           ++ right. exists (HTerm t (s_now st + 1) r). split; [apply in_or_app; right; left; reflexivity|]. cbn. congruence.
           ++ left. rewrite upd_other by assumption. exact H.
        -- right. exists e. split; [apply in_or_app; left; exact He1|exact He2].
      * intros t1 H1. tidx t1 t; [discriminate|auto].
      * intros e He. in_snoc He.
        -- destruct (i_term_fin0 e He) as [H1 H2]. split; [|exact H2].
           destruct (Nat.eq_dec (ht_task e) t) as [E|Hne]; [rewrite E; apply upd_same|]. rewrite upd_other by assumption. exact H1.
        -- subst e. cbn [ht_task]. split; [apply upd_same|]. apply i_work_sub0. exact Hp.
      * rewrite map_app. cbn [map ht_task].
        assert (Hni : ~ In t (map ht_task (s_terms st))).
        { intro Hin. apply in_map_iff in Hin. destruct Hin as [e [E He]]. destruct (i_term_fin0 e He) as [H1 _].
          rewrite E in H1. congruence. }
        clear - i_term_nodup0 Hni. induction (map ht_task (s_terms st)) as [|a l IH]; cbn [app].
        -- constructor; [intros []|constructor].
        -- inversion i_term_nodup0; subst. constructor.
           ++ intro Hin. apply in_app_or in Hin. destruct Hin as [Hin|[Hin|[]]]; [contradiction|]. apply Hni. left. symmetry. exact Hin.
           ++ apply IH; [assumption|]. intro Hin. apply Hni. right. exact Hin.
      * intros t1 t2 H1. tidx t1 t; [discriminate|specialize (i_b_gate0 _ _ H1); lia].
      * intros e He. in_snoc He; [specialize (i_b_terms0 e He); lia|subst e; cbn; lia].
      * intros s x Hs Hok Hx Ha. destruct (i_stopped0 s x Hs Hok Hx Ha) as [e [H1 H2]]. exists e. split; [apply in_or_app; left; exact H1|exact H2].
      * intros e He Hr. in_snoc He; [apply i_rc0; assumption|]. subst e. cbn [ht_res ht_t] in *. subst r. cbn [res_eqb andb] in Hrc.
        apply negb_false_iff in Hrc.
        assert (Hnd : s_done st = false).
        { destruct (s_done st) eqn:Hd; [|reflexivity]. destruct (i_done0 eq_refl) as [_ [H0 _]]. lia. }
        split.
        -- destruct (sc_cod c) eqn:Hcod; [reflexivity|]. rewrite (i_cancel0 Hrc eq_refl) in Hnd. discriminate.
        -- destruct (i_cancel_sig0 Hrc) as [Hd|[s [Hs1 Hs2]]]; [congruence|]. exists s. repeat split; try assumption.
           specialize (i_b_stops0 s Hs1). lia.
  - (* SStopCall *)
    sproj. destruct (s_kpc st d) eqn:Hk; try exact IT. clear IT.
    destruct I; constructor; sproj; try assumption; try solve [bounds].
    intros Hs d0. specialize (i_kpc0 Hs d0). unfold upd. destruct (Nat.eqb d0 d); [exact I|exact i_kpc0].
  - (* SStop *)
    sproj. destruct (s_kpc st d) eqn:Hk; try exact IT; clear IT.
    + (* KSet: stopping := true *)
      destruct I; constructor; sproj; try assumption; try solve [bounds]; try (intros; discriminate).
    + (* KOnce: the drainer is started once *)
      assert (Hst : s_stopping st = true).
      { destruct (s_stopping st) eqn:E; [reflexivity|]. pose proof (i_kpc c st I E d) as H. rewrite Hk in H. contradiction. }
      destruct I; constructor; sproj; try assumption; try solve [bounds].
      * intro Hd. destruct (i_done0 Hd) as [_ H]. split; [reflexivity|exact H].
      * intros _. exact Hst.
      * intro Hs. rewrite Hst in Hs. discriminate.
    + (* KWait *)
      assert (Hst : s_stopping st = true).
      { destruct (s_stopping st) eqn:E; [reflexivity|]. pose proof (i_kpc c st I E d) as H. rewrite Hk in H. contradiction. }
      pose proof (i_range c st I) as Hrange. pose proof (i_infl c st I) as Hinfl.
      destruct I. destruct (s_done st) eqn:Hd.
      * (* returns nil *)
        constructor; sproj; try assumption; try solve [bounds].
        -- intro Hs. rewrite Hst in Hs. discriminate.
        -- intros s Hs. in_snoc Hs; [specialize (i_b_stops0 s Hs); lia|subst s; cbn; lia].
        -- intro Hs. rewrite Hst in Hs. discriminate.
        -- intros x s Hx Ha Hs. in_snoc Hs; [eauto|]. subst s. cbn [hp_t1]. specialize (i_b_subs0 x Hx). lia.
        -- intros s x Hs Hok Hx Ha. in_snoc Hs; [eauto|]. subst s. cbn [hp_t1].
           destruct (i_done0 eq_refl) as [_ [H0 _]].
           destruct (i_sub_acc0 x Hx Ha) as [Hw|[e [He1 He2]]].
           ++ exfalso. destruct (Nat.lt_ge_cases (hb_task x) (sc_ntasks c)) as [Hlt|Hge].
              ** pose proof (sumf_ge (fun t => thold (s_tpc st t)) (sc_ntasks c) (hb_task x) Hlt) as Hg.
                 cbn beta in Hg. rewrite Hw in Hg. cbn [thold] in Hg. lia.
              ** rewrite (Hrange _ Hge) in Hw. discriminate.
           ++ exists e. repeat split; try assumption. specialize (i_b_terms0 e He1). lia.
        -- intros e He Hr. destruct (i_rc0 e He Hr) as [H1 [s [H2 H3]]]. split; [exact H1|]. exists s. split; [apply in_or_app; left; exact H2|exact H3].
      * destruct timeout.
        -- (* the caller's deadline expires *)
           constructor; sproj; try assumption; try solve [bounds].
           ++ intro Hs. rewrite Hst in Hs. discriminate.
           ++ intros Hc Hcod. rewrite Hcod, orb_false_r in Hc. apply i_cancel0; assumption.
           ++ intros _. right. exists (HStop t0 (s_now st + 1) false). split; [apply in_or_app; right; left; reflexivity|reflexivity].
           ++ intros s Hs. in_snoc Hs; [specialize (i_b_stops0 s Hs); lia|subst s; cbn; lia].
           ++ intro Hs. rewrite Hst in Hs. discriminate.
           ++ intros x s Hx Ha Hs. in_snoc Hs; [eauto|]. subst s. cbn [hp_t1]. specialize (i_b_subs0 x Hx). lia.
           ++ intros s Hs Hok. in_snoc Hs; [eauto|subst s; discriminate Hok].
           ++ intros s x Hs Hok Hx Ha. in_snoc Hs; [eauto|subst s; discriminate Hok].
           ++ intros e He Hr. destruct (i_rc0 e He Hr) as [H1 [s [H2 H3]]]. split; [exact H1|]. exists s. split; [apply in_or_app; left; exact H2|exact H3].
        -- constructor; sproj; try assumption; try solve [bounds].
  - (* SDrainer *)
    sproj. destruct (s_dstarted st && negb (s_done st) && (s_inflight st =? 0)) eqn:Hg; [|exact IT]. clear IT.
    apply andb_true_iff in Hg. destruct Hg as [Hg H0]. apply andb_true_iff in Hg. destruct Hg as [Hds Hnd].
    apply N.eqb_eq in H0. apply negb_true_iff in Hnd.
    destruct I; constructor; sproj; try assumption; try solve [bounds].
    intros _. repeat split; assumption.
Qed.

Lemma sinv_run c evs : SInv c (srun c evs).
Proof.
  unfold srun. rewrite <- fold_left_rev_right.
  induction (rev evs) as [|e l IH]; cbn [fold_right]; [apply sinv_init|]. apply sinv_step. exact IH.
Qed.

(* ---- the monitor on model histories ---------------------------------------------------------- *)

Definition squiescent (st : sstate) : Prop := forall t, s_tpc st t = TIdle \/ s_tpc st t = TFin.

Lemma nodup_nat_spec l : NoDup l -> nodup_nat l = true.
Proof.
  induction 1 as [|x l Hni Hnd IH]; [reflexivity|]. cbn [nodup_nat]. rewrite IH, andb_true_r.
  apply negb_true_iff. destruct (existsb (Nat.eqb x) l) eqn:E; [|reflexivity]. exfalso. apply Hni.
  apply existsb_exists in E. destruct E as [y [Hy Hxy]]. apply Nat.eqb_eq in Hxy. subst. exact Hy.
Qed.

Lemma sok_fence_model c evs : sok_fence (shist_of (srun c evs)) = true.
Proof.
  pose proof (sinv_run c evs) as I. unfold sok_fence, shist_of. cbn [sh_subs sh_stops].
  apply forallb_forall. intros x Hx. destruct (hb_acc x) eqn:Ha; [|reflexivity]. cbn [negb orb].
  apply forallb_forall. intros s Hs. apply negb_true_iff. apply N.ltb_ge. apply (i_fence c _ I x s Hx Ha Hs).
Qed.

Lemma sok_terms_model c evs : sok_terms (shist_of (srun c evs)) = true.
Proof.
  pose proof (sinv_run c evs) as I. unfold sok_terms, shist_of. cbn [sh_subs sh_terms].
  apply andb_true_iff. split; [apply nodup_nat_spec; apply (i_term_nodup c _ I)|].
  apply forallb_forall. intros e He. destruct (i_term_fin c _ I e He) as [_ [x [Hx [H1 H2]]]].
  apply existsb_exists. exists x. split; [exact Hx|]. rewrite H1, H2, Nat.eqb_refl. reflexivity.
Qed.

Lemma sok_stopped_model c evs : sok_stopped (shist_of (srun c evs)) = true.
Proof.
  pose proof (sinv_run c evs) as I. unfold sok_stopped, shist_of. cbn [sh_subs sh_terms sh_stops].
  apply forallb_forall. intros s Hs. destruct (hp_ok s) eqn:Hok; [|reflexivity]. cbn [negb orb].
  apply forallb_forall. intros x Hx. destruct (hb_acc x) eqn:Ha; [|reflexivity]. cbn [negb orb].
  destruct (i_stopped c _ I s x Hs Hok Hx Ha) as [e [H1 [H2 H3]]].
  apply existsb_exists. exists e. split; [exact H1|]. rewrite H2, Nat.eqb_refl. apply N.ltb_lt in H3. rewrite H3. reflexivity.
Qed.

Lemma sok_complete_model c evs : squiescent (srun c evs) -> sok_complete (shist_of (srun c evs)) = true.
Proof.
  intro Q. pose proof (sinv_run c evs) as I. unfold sok_complete, shist_of. cbn [sh_subs sh_terms].
  apply forallb_forall. intros x Hx. destruct (hb_acc x) eqn:Ha; [|reflexivity]. cbn [negb orb].
  destruct (i_sub_acc c _ I x Hx Ha) as [Hw|[e [H1 H2]]].
  - destruct (Q (hb_task x)) as [H|H]; rewrite H in Hw; discriminate.
  - apply existsb_exists. exists e. split; [exact H1|]. rewrite H2. apply Nat.eqb_refl.
Qed.

Lemma sok_nocancel_model c evs : sc_cod c = false -> sok_nocancel (shist_of (srun c evs)) = true.
Proof.
  intro Hcod. pose proof (sinv_run c evs) as I. unfold sok_nocancel, shist_of. cbn [sh_terms].
  apply forallb_forall. intros e He. apply negb_true_iff. destruct (ht_res e) eqn:Hr; try reflexivity.
  destruct (i_rc c _ I e He Hr) as [H _]. congruence.
Qed.

Lemma cancel_sig_model c evs : cancel_after_expired_stop (shist_of (srun c evs)) = true.
Proof.
  pose proof (sinv_run c evs) as I. unfold cancel_after_expired_stop, shist_of. cbn [sh_terms sh_stops].
  apply forallb_forall. intros e He. destruct (ht_res e) eqn:Hr; try reflexivity. cbn [res_eqb negb orb].
  destruct (i_rc c _ I e He Hr) as [_ [s [H1 [H2 H3]]]]. apply existsb_exists. exists s. split; [exact H1|].
  rewrite H2. cbn [negb andb]. apply N.leb_le. exact H3.
Qed.

(* stops that never cancel on an expired deadline (Group.Stop, DrainSends, Quiesce): the monitor is 0 *)
Theorem smonitor_model c evs comp final :
  sc_cod c = false -> (final = true -> squiescent (srun c evs)) ->
  smonitor comp final (shist_of (srun c evs)) = 0.
Proof.
  intros Hcod Hq. unfold smonitor. rewrite sok_fence_model, sok_terms_model, sok_stopped_model. cbn [andb].
  assert (Hc : negb final || sok_complete (shist_of (srun c evs)) = true).
  { destruct final; [|reflexivity]. cbn [negb orb]. apply sok_complete_model. apply Hq. reflexivity. }
  rewrite Hc, (sok_nocancel_model c evs Hcod). reflexivity.
Qed.

(* Runtime.Stop (cancel on deadline): the only way the monitor can be non-zero is
   the known signature — a task cancelled after a stop call returned with an expired deadline *)
Theorem smonitor_model_cod c evs final :
  (final = true -> squiescent (srun c evs)) ->
  smonitor 3 final (shist_of (srun c evs)) = 0 \/ smonitor 3 final (shist_of (srun c evs)) = 2.
Proof.
  intros Hq. unfold smonitor. rewrite sok_fence_model, sok_terms_model, sok_stopped_model. cbn [andb].
  assert (Hc : negb final || sok_complete (shist_of (srun c evs)) = true).
  { destruct final; [|reflexivity]. cbn [negb orb]. apply sok_complete_model. apply Hq. reflexivity. }
  rewrite Hc, cancel_sig_model. cbn [N.eqb andb]. destruct (sok_nocancel _); auto.
Qed.

(* ---- state-level statements ------------------------------------------------------------------------ *)

Theorem no_admission_after_stop c st e :
  s_stopping st = true ->
  s_stopping (sstep c st e) = true /\ s_inflight (sstep c st e) <= s_inflight st.
Proof.
  intro H. unfold sstep. destruct e; sproj; rewrite ?H;
    repeat match goal with
           | |- context [match ?x with _ => _ end] => destruct x
           | |- context [if ?x then _ else _] => destruct x
           end; sproj; split; try reflexivity; try assumption; lia.
Qed.

Theorem admitted_get_terminal c evs x :
  s_done (srun c evs) = true -> In x (s_subs (srun c evs)) -> hb_acc x = true ->
  exists e, In e (s_terms (srun c evs)) /\ ht_task e = hb_task x.
Proof.
  intros Hd Hx Ha. pose proof (sinv_run c evs) as I. destruct (i_done c _ I Hd) as [_ [H0 _]].
  destruct (i_sub_acc c _ I x Hx Ha) as [Hw|H]; [|exact H]. exfalso.
  destruct (Nat.lt_ge_cases (hb_task x) (sc_ntasks c)) as [Hlt|Hge].
  - pose proof (sumf_ge (fun t => thold (s_tpc (srun c evs) t)) (sc_ntasks c) (hb_task x) Hlt) as Hg.
    cbn beta in Hg. rewrite Hw in Hg. cbn [thold] in Hg. rewrite <- (i_infl c _ I) in Hg. lia.
  - rewrite (i_range c _ I _ Hge) in Hw. discriminate.
Qed.

(* the runtime context is cancelled only after the drain (no cancel on deadline) *)
Theorem cancel_only_after_drain c evs :
  sc_cod c = false -> s_cancelled (srun c evs) = true ->
  s_done (srun c evs) = true /\ s_inflight (srun c evs) = 0.
Proof.
  intros Hcod Hc. pose proof (sinv_run c evs) as I. pose proof (i_cancel c _ I Hc Hcod) as Hd.
  split; [exact Hd|]. apply (i_done c _ I Hd).
Qed.

Theorem never_cancelled c evs e :
  sc_cod c = false -> In e (s_terms (srun c evs)) -> ht_res e <> RCancel.
Proof.
  intros Hcod He Hr. pose proof (sinv_run c evs) as I. destruct (i_rc c _ I e He Hr) as [H _]. congruence.
Qed.

(* the deadline step of a stop caller touches nothing but the caller's own bookkeeping *)
Theorem deadline_step_structural c st d :
  sc_cod c = false ->
  let st' := sstep c st (SStop d true) in
  s_tpc st' = s_tpc st /\ s_inflight st' = s_inflight st /\ s_cancelled st' = s_cancelled st
  /\ s_subs st' = s_subs st /\ s_terms st' = s_terms st /\ s_done st' = s_done st
  /\ (s_dstarted st = true -> s_dstarted st' = true).
Proof.
  intro Hcod. unfold sstep. sproj. destruct (s_kpc st d); [| | |destruct (s_done st) eqn:E]; sproj;
    rewrite ?Hcod, ?orb_false_r; repeat split; auto.
Qed.

(* a later stop call reuses the drain that is already running *)
Theorem second_stop_reuses c st d timeout :
  s_dstarted st = true ->
  let st' := sstep c st (SStop d timeout) in
  s_dstarted st' = true /\ s_tpc st' = s_tpc st /\ s_inflight st' = s_inflight st
  /\ s_subs st' = s_subs st /\ s_terms st' = s_terms st /\ (s_done st = true -> s_done st' = true).
Proof.
  intro H. unfold sstep. sproj. destruct (s_kpc st d); [| | |destruct (s_done st) eqn:E; [|destruct timeout]]; sproj;
    repeat split; auto.
Qed.

Lemma fence_rt c evs x s :
  In x (s_subs (srun c evs)) -> hb_acc x = true -> In s (s_stops (srun c evs)) -> hb_t0 x <= hp_t1 s.
Proof. exact (i_fence c _ (sinv_run c evs) x s). Qed.

Lemma stop_after_terminal c evs s x :
  In s (s_stops (srun c evs)) -> hp_ok s = true -> In x (s_subs (srun c evs)) -> hb_acc x = true ->
  exists e, In e (s_terms (srun c evs)) /\ ht_task e = hb_task x /\ ht_t e < hp_t1 s.
Proof. exact (i_stopped c _ (sinv_run c evs) s x). Qed.

Lemma terminal_once c evs :
  NoDup (map ht_task (s_terms (srun c evs)))
  /\ forall e, In e (s_terms (srun c evs)) ->
       exists x, In x (s_subs (srun c evs)) /\ hb_task x = ht_task e /\ hb_acc x = true.
Proof.
  split; [exact (i_term_nodup c _ (sinv_run c evs))|].
  intros e He. exact (proj2 (i_term_fin c _ (sinv_run c evs) e He)).
Qed.

Lemma runtime_stop_refuted :
  exists c evs e, sc_cod c = true /\ In e (s_terms (srun c evs)) /\ ht_res e = RCancel
                  /\ smonitor 3 true (shist_of (srun c evs)) = 2.
Proof.
  exists (SCfg 2 true),
         [SSubmit 0; STask 0 ROk; SSubmit 1; STask 1 ROk; SStopCall 0; SStop 0 false; SStop 0 false;
          SStop 0 true; STask 0 RCancel; STask 1 RCancel; SDrainer],
         (HTerm 0 9 RCancel).
  vm_compute. repeat split; try reflexivity. left. reflexivity.
Qed.

(* why the lock scope matters (seeded change C41-a): with the lifecycle check and the
   admission in two separate critical sections a stop can complete between them —
   the drain is done, yet a task is admitted afterwards, is in flight and has no
   terminal result; the same event list on the real model rejects nothing wrongly
   and keeps the monitor at 0 *)
Lemma split_check_refuted :
  let c := SCfg 1 false in
  let evs := [SSubmit 0; STask 0 ROk; SStopCall 0; SStop 0 false; SStop 0 false; SDrainer; SStop 0 false; STask 0 ROk] in
  let st := srun_split c evs in
  s_done st = true /\ s_inflight st = 1 /\ s_tpc st 0%nat = TWork
  /\ map hb_acc (s_subs st) = [true] /\ s_terms st = [] /\ map hp_ok (s_stops st) = [true]
  /\ smonitor 1 false (shist_of st) = 1
  /\ smonitor 1 false (shist_of (srun c evs)) = 0.
Proof. vm_compute. repeat split; reflexivity. Qed.
