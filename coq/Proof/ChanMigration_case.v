(* Proof/ChanMigration_case.v — from a case file to the link theorem: if the model reproduces an
   implementation trace of one-command batches (C17_mismatch = false) then the monitor's verdict on
   that trace is 0, 2 or 3 — a monitor code 1 or 4 on such a case means the implementation left
   the model. *)
From WK Require Import Base.Base.
From WK Require Import Gen.Consts_C15 Gen.Consts_C17 Model.RuntimeMeta Model.ChanMigration Model.ChanMigration_C17.
From WK Require Import Proof.RuntimeMeta Proof.ChanMigration Proof.ChanMigration_cmds Proof.ChanMigration_inv
                       Proof.ChanMigration_step Proof.ChanMigration_meta Proof.ChanMigration_trace
                       Proof.ChanMigration_monitor Proof.ChanMigration_link.
Open Scope N_scope.

Definition dummy_cmd : cmd := CGC 0%Z 0%Z.
Definition cmd_of (s : list cmd * obs) : cmd := match fst s with [c] => c | _ => dummy_cmd end.

(* every batch has one command; every observation lists the same channels *)
Definition case_shape (chs : list chan_key) (steps : list (list cmd * obs)) : Prop :=
  Forall (fun s => (exists c, fst s = [c])
                   /\ map fst (o_active (snd s)) = chs /\ map fst (o_metas (snd s)) = chs) steps.

Lemma err_eqb_eq a b : err_eqb a b = true -> a = b.
Proof. destruct a, b; simpl; congruence. Qed.

Lemma nlist_eqb_eq' a b : list_eqb N.eqb a b = true -> a = b.
Proof. apply list_eqb_spec. intros. apply N.eqb_eq. Qed.

Lemma bres_eqb_eq a b : bres_eqb a b = true -> a = b.
Proof.
  destruct a, b; cbn [bres_eqb]; try discriminate; intro H.
  - apply err_eqb_eq in H. congruence.
  - apply nlist_eqb_eq' in H. congruence.
Qed.

Lemma list_eqb_task_eq a b : list_eqb task_eqb a b = true -> a = b.
Proof.
  revert b. induction a as [|x a IH]; destruct b as [|y b]; cbn [list_eqb]; try discriminate; [reflexivity|].
  intro H. apply andb_prop in H. destruct H as [H1 H2]. apply task_eqb_eq in H1. apply IH in H2. congruence.
Qed.

Lemma forallb_assoc_eq {V} (eqbV : V -> V -> bool) (eqbV_eq : forall a b, eqbV a b = true -> a = b)
      (f : chan_key -> option V) (l : list (chan_key * option V)) :
  forallb (fun cv => option_eqb eqbV (f (fst cv)) (snd cv)) l = true ->
  l = map (fun c => (c, f c)) (map fst l).
Proof.
  induction l as [|[c v] l IH]; cbn [forallb map fst snd]; [reflexivity|].
  intro H. apply andb_prop in H. destruct H as [H1 H2].
  rewrite <- (IH H2). f_equal. f_equal.
  destruct (f c) as [a|], v as [b|]; cbn [option_eqb] in H1; try discriminate; [|reflexivity].
  apply eqbV_eq in H1. congruence.
Qed.

Lemma bytes_eqb_eq' a b : bytes_eqb a b = true -> a = b.
Proof. apply bytes_eqb_eq. Qed.

Lemma obs_matches_eq chs d r o :
  map fst (o_active o) = chs -> map fst (o_metas o) = chs ->
  obs_matches d r o = true -> o = obs_of chs d r.
Proof.
  intros A M H. unfold obs_matches in H. b2p.
  destruct o as [res tasks act metas]. cbn [o_res o_tasks o_active o_metas] in *.
  match goal with Hq : bres_eqb _ _ = true |- _ => apply bres_eqb_eq in Hq; subst res end.
  match goal with Hq : list_eqb task_eqb _ _ = true |- _ => apply list_eqb_task_eq in Hq; subst tasks end.
  match goal with Hq : forallb (fun cv => option_eqb bytes_eqb _ _) act = true |- _ =>
    apply (forallb_assoc_eq bytes_eqb bytes_eqb_eq' (active_get d)) in Hq; rewrite A in Hq end.
  match goal with Hq : forallb (fun cv => option_eqb runtime_meta_eqb _ _) metas = true |- _ =>
    apply (forallb_assoc_eq runtime_meta_eqb runtime_meta_eqb_eq (meta_get d)) in Hq; rewrite M in Hq end.
  unfold obs_of. congruence.
Qed.

Lemma no_mismatch_is_model_trace chs : forall steps d,
  case_shape chs steps -> run_mismatch d steps = false ->
  steps = model_trace chs d (map cmd_of steps).
Proof.
  induction steps as [|[cs o] r IH]; intros d Sh H; cbn [map model_trace]; [reflexivity|].
  inversion Sh as [|s l Hs Sr Eq]. clear Eq. destruct Hs as [[c Ec] [A M]]. cbn [fst snd] in Ec, A, M. subst cs.
  cbn [run_mismatch] in H. rewrite ApplyBatch_single in H.
  destruct (obs_matches (fst (apply_one d c)) (bres_of (snd (apply_one d c))) o) eqn:Om; [|discriminate].
  unfold cmd_of at 1. cbn [fst].
  rewrite (obs_matches_eq chs _ _ _ A M Om). f_equal.
  apply IH; assumption.
Qed.

(* THEOREM c17_case_link *)
Theorem case_link chs c :
  case_shape chs (c_steps c) -> Forall (covers chs) (map cmd_of (c_steps c)) ->
  C17_mismatch c = false ->
  good (C17_monitor c).
Proof.
  intros Sh Cv Mm. unfold C17_monitor, C17_mismatch in *.
  rewrite (no_mismatch_is_model_trace chs _ _ Sh Mm). apply model_satisfies_monitor. exact Cv.
Qed.
