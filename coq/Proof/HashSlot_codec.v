(* Proof/HashSlot_codec.v — DecodeHashSlotTable (Encode t) = t for every table
   whose fields fit their wire widths and whose migrations belong to hash slots of
   the table; that invariant holds for NewHashSlotTable and is preserved by every
   mutator. *)
From WK Require Import Base.Base Base.Bytes Gen.Consts_C20 Model.HashSlot Proof.HashSlot_table.
From Coq Require Import ZifyBool ZifyN ZifyNat Sorting.Sorted.
Open Scope N_scope.

Definition u64 (x : N) : Prop := x < 256 ^ 8.
Definition mig_ok (m : migration) : Prop :=
  m_hs m < 256 ^ 2 /\ m_phase m < 256 /\ u64 (m_src m) /\ u64 (m_tgt m).
Definition mig_lt (a b : migration) : Prop := m_hs a < m_hs b.

(* what Encode needs to be loss-free *)
Record codec_ok (t : table) : Prop := {
  co_wf : wf t;
  co_count : t_count t < 256 ^ 2;
  co_version : u64 (t_version t);
  co_assign : Forall u64 (t_assign t);
  co_migs : Forall mig_ok (t_migs t);
  co_sorted : StronglySorted mig_lt (t_migs t);
  co_owned : Forall (fun m => m_hs m < t_count t) (t_migs t)
}.

(* ---- assignment section ---------------------------------------------------------- *)

Lemma get_assign_put l : forall rest, Forall u64 l ->
  get_assign (length l) (flat_map put_u64 l ++ rest) = Some (l, rest).
Proof.
  induction l as [|x l IH]; intros rest H; cbn [length get_assign flat_map]; [reflexivity|].
  inversion H; subst. rewrite <- app_assoc. unfold put_u64 at 1.
  rewrite get_be_put by assumption. rewrite IH by assumption. reflexivity.
Qed.

(* ---- migration section ------------------------------------------------------------ *)

Lemma put_u8_small x : x < 256 -> put_u8 x = [x].
Proof.
  intro H. unfold put_u8, be_put. cbn [le_put rev app]. rewrite N.mod_small by exact H. reflexivity.
Qed.

Lemma enc_mig_length m : length (enc_mig m) = 20%nat.
Proof.
  unfold enc_mig, put_u16, put_u8, put_u64. rewrite !app_length, !be_put_length. reflexivity.
Qed.

Lemma flat_enc_mig_length ms : N.of_nat (length (flat_map enc_mig ms)) = N.of_nat (length ms) * 20.
Proof.
  induction ms as [|m ms IH]; cbn [flat_map length]; [reflexivity|].
  rewrite app_length, enc_mig_length. lia.
Qed.

Lemma get_migs_put ms : forall acc, Forall mig_ok ms ->
  get_migs (length ms) (flat_map enc_mig ms) acc = fold_left (fun a m => mig_put m a) ms acc.
Proof.
  induction ms as [|m ms IH]; intros acc H; cbn [length get_migs flat_map fold_left]; [reflexivity|].
  inversion H as [|? ? [H1 [H2 [H3 H4]]] Hr]; subst.
  unfold enc_mig at 1. rewrite <- !app_assoc. unfold put_u16.
  rewrite get_be_put by exact H1. rewrite (put_u8_small _ H2). cbn [app].
  unfold put_u64. rewrite get_be_put by exact H3. rewrite get_be_put by exact H4.
  rewrite IH by exact Hr. destruct m; reflexivity.
Qed.

Lemma mig_put_last m : forall acc, Forall (fun a => mig_lt a m) acc -> mig_put m acc = acc ++ [m].
Proof.
  induction acc as [|x acc IH]; intro H; cbn [mig_put app]; [reflexivity|].
  inversion H; subst. unfold mig_lt in *.
  destruct (m_hs m <? m_hs x) eqn:E1; [lia|]. destruct (m_hs m =? m_hs x) eqn:E2; [lia|].
  rewrite IH by assumption. reflexivity.
Qed.

Lemma fold_put_sorted ms : forall acc, StronglySorted mig_lt ms ->
  (forall a m, In a acc -> In m ms -> mig_lt a m) ->
  fold_left (fun a m => mig_put m a) ms acc = acc ++ ms.
Proof.
  induction ms as [|m ms IH]; intros acc S H; cbn [fold_left]; [rewrite app_nil_r; reflexivity|].
  inversion S as [|? ? S' F]; subst.
  rewrite mig_put_last.
  - rewrite IH; [rewrite <- app_assoc; reflexivity|exact S'|].
    intros a x Ia Ix. apply in_app_or in Ia. destruct Ia as [Ia|[Ia|[]]].
    + apply H; [exact Ia|right; exact Ix].
    + subst a. rewrite Forall_forall in F. apply F. exact Ix.
  - apply Forall_forall. intros a Ia. apply H; [exact Ia|left; reflexivity].
Qed.

(* strictly ascending hash slots below n: at most n migrations *)
Lemma sorted_below_length ms : forall lo n, StronglySorted mig_lt ms ->
  Forall (fun m => lo <= m_hs m < n) ms -> N.of_nat (length ms) + lo <= N.max lo n.
Proof.
  induction ms as [|m ms IH]; intros lo n S F; cbn [length]; [lia|].
  inversion S as [|? ? S' G]; subst. inversion F as [|? ? Hm Fr]; subst.
  specialize (IH (m_hs m + 1) n S').
  assert (Forall (fun x => m_hs m + 1 <= m_hs x < n) ms) as Q.
  { rewrite Forall_forall in *. intros x Ix. specialize (G x Ix). specialize (Fr x Ix). unfold mig_lt in G. lia. }
  specialize (IH Q). lia.
Qed.

(* ---- round trip --------------------------------------------------------------------- *)

Lemma be_put2_cons x : exists a b, put_u16 x = [a; b].
Proof. unfold put_u16, be_put. cbn [le_put rev app]. eexists. eexists. reflexivity. Qed.

Lemma decode_encode t : codec_ok t -> decode_hash_slot_table (encode t) = Some t.
Proof.
  intros [W C V A M S O]. unfold encode, decode_hash_slot_table.
  unfold put_u16 at 1. rewrite get_be_put by (unfold enc_version; lia).
  unfold put_u16 at 1. rewrite get_be_put by exact C.
  unfold put_u64 at 1. rewrite get_be_put by exact V.
  assert (E1 : (enc_version =? 1) = false) by reflexivity.
  rewrite E1, N.eqb_refl. cbn [orb negb].
  assert (L : N.to_nat (t_count t) = length (t_assign t)) by (unfold wf in W; lia).
  rewrite L, get_assign_put by exact A.
  assert (LM : N.of_nat (length (t_migs t)) < 256 ^ 2).
  { pose proof (sorted_below_length (t_migs t) 0 (t_count t) S) as B.
    assert (Forall (fun m => 0 <= m_hs m < t_count t) (t_migs t)) as Q.
    { rewrite Forall_forall in *. intros x Ix. specialize (O x Ix). lia. }
    specialize (B Q). lia. }
  destruct (be_put2_cons (N.of_nat (length (t_migs t)))) as [a [b Eab]].
  remember (put_u16 (N.of_nat (length (t_migs t))) ++ flat_map enc_mig (t_migs t)) as r4 eqn:R4.
  assert (NE : exists x y, r4 = x :: y) by (rewrite R4, Eab; cbn [app]; eexists; eexists; reflexivity).
  destruct NE as [x [y Exy]]. rewrite Exy. rewrite <- Exy, R4.
  unfold put_u16. rewrite get_be_put by exact LM.
  rewrite flat_enc_mig_length, N.eqb_refl.
  rewrite Nnat.Nat2N.id, get_migs_put by exact M.
  rewrite fold_put_sorted; [|exact S|intros ? ? []]. cbn [app].
  destruct t; reflexivity.
Qed.

(* ---- the invariant is established by New and preserved by every mutator ------------- *)

Lemma repeat_Forall_u64 n : Forall u64 (repeat 0 n).
Proof. apply repeat_Forall. unfold u64. lia. Qed.

Lemma new_fill_u64 fuel : forall i base rem, i + N.of_nat fuel < 256 ^ 8 ->
  Forall u64 (new_fill fuel i base rem).
Proof.
  induction fuel as [|f IH]; intros i base rem H; cbn [new_fill]; [constructor|].
  apply Forall_app. split; [apply repeat_Forall; unfold u64; lia|apply IH; lia].
Qed.

Lemma Forall_firstn {A} (P : A -> Prop) n : forall l, Forall P l -> Forall P (firstn n l).
Proof.
  induction n as [|n IH]; intros [|x l] H; cbn [firstn]; try constructor.
  - inversion H; assumption.
  - apply IH. inversion H; assumption.
Qed.

Lemma new_codec_ok count phys : count < 256 ^ 2 -> codec_ok (new_hash_slot_table count phys).
Proof.
  intro Hc. constructor.
  - apply new_wf.
  - unfold new_hash_slot_table. destruct ((count =? 0) || (phys <=? 0)%Z); exact Hc.
  - unfold new_hash_slot_table. destruct ((count =? 0) || (phys <=? 0)%Z); cbn [t_version]; unfold u64; lia.
  - unfold new_hash_slot_table. destruct ((count =? 0) || (phys <=? 0)%Z); cbn [t_assign].
    + apply repeat_Forall_u64.
    + apply Forall_firstn, Forall_app. split; [|apply repeat_Forall_u64].
      apply new_fill_u64. lia.
  - unfold new_hash_slot_table. destruct ((count =? 0) || (phys <=? 0)%Z); constructor.
  - unfold new_hash_slot_table. destruct ((count =? 0) || (phys <=? 0)%Z); constructor.
  - unfold new_hash_slot_table. destruct ((count =? 0) || (phys <=? 0)%Z); constructor.
Qed.

Lemma bump_u64 v : u64 (bump v).
Proof. unfold u64, bump, wrap64. apply N.mod_lt. lia. Qed.

Lemma reassign_codec_ok t hs s : u64 s -> codec_ok t -> codec_ok (reassign t hs s).
Proof.
  intros Hs H. pose proof (reassign_wf t hs s (co_wf t H)) as W. revert W.
  unfold reassign. destruct (alen t <=? hs); [intros _; exact H|].
  destruct (at_hs t hs =? s); [intros _; exact H|]. intro W.
  destruct H as [_ C V A M S O]. constructor; cbn [t_version t_count t_assign t_migs]; try assumption.
  - apply bump_u64.
  - apply Forall_set_nth; assumption.
Qed.

Lemma mig_put_sorted m : forall ms, StronglySorted mig_lt ms -> StronglySorted mig_lt (mig_put m ms).
Proof.
  induction ms as [|x r IH]; intro S; cbn [mig_put].
  - constructor; constructor.
  - inversion S as [|? ? S' F]; subst. unfold mig_lt in *.
    destruct (m_hs m <? m_hs x) eqn:E1.
    + constructor; [exact S|]. constructor; [unfold mig_lt; lia|].
      rewrite Forall_forall in *. intros y Iy. specialize (F y Iy). unfold mig_lt in *. lia.
    + destruct (m_hs m =? m_hs x) eqn:E2.
      * constructor; [exact S'|]. rewrite Forall_forall in *. intros y Iy. specialize (F y Iy).
        unfold mig_lt in *. lia.
      * constructor; [apply IH; exact S'|]. apply Forall_forall. intros y Iy.
        destruct (in_mig_put _ _ _ Iy) as [Q|Q]; [subst y; unfold mig_lt; lia|].
        rewrite Forall_forall in F. apply F. exact Q.
Qed.

Lemma mig_del_sorted hs : forall ms, StronglySorted mig_lt ms -> StronglySorted mig_lt (mig_del hs ms).
Proof.
  induction ms as [|x r IH]; intro S; cbn [mig_del]; [constructor|].
  inversion S as [|? ? S' F]; subst. destruct (m_hs x =? hs); [apply IH; exact S'|].
  constructor; [apply IH; exact S'|]. apply Forall_forall. intros y Iy.
  rewrite Forall_forall in F. apply F. apply (in_mig_del _ _ _ Iy).
Qed.

Lemma Forall_mig_put (P : migration -> Prop) m ms : P m -> Forall P ms -> Forall P (mig_put m ms).
Proof.
  intros Hm H. apply Forall_forall. intros x Ix. destruct (in_mig_put _ _ _ Ix) as [Q|Q]; [subst; exact Hm|].
  rewrite Forall_forall in H. apply H. exact Q.
Qed.

Lemma Forall_mig_del (P : migration -> Prop) hs ms : Forall P ms -> Forall P (mig_del hs ms).
Proof.
  intro H. apply Forall_forall. intros x Ix. rewrite Forall_forall in H. apply H. apply (in_mig_del _ _ _ Ix).
Qed.

Lemma start_codec_ok t hs a b : u64 a -> u64 b -> codec_ok t -> codec_ok (start_migration t hs a b).
Proof.
  intros Ha Hb H. unfold start_migration.
  destruct (alen t <=? hs) eqn:E; [exact H|].
  destruct ((a =? 0) || (b =? 0) || (a =? b) || negb (at_hs t hs =? a)); [exact H|].
  destruct (mig_find hs (t_migs t)); [exact H|].
  destruct H as [W C V A M S O]. assert (Hh : hs < t_count t) by (unfold alen, wf in *; lia).
  constructor; cbn [t_version t_count t_assign t_migs]; try assumption.
  - apply bump_u64.
  - apply Forall_mig_put; [|exact M]. unfold mig_ok. cbn [m_hs m_phase m_src m_tgt].
    split; [lia|]. split; [unfold PhaseSnapshot; lia|]. split; assumption.
  - apply mig_put_sorted. exact S.
  - apply Forall_mig_put; [cbn [m_hs]; exact Hh|exact O].
Qed.

Lemma advance_codec_ok t hs ph : ph < 256 -> codec_ok t -> codec_ok (advance_migration t hs ph).
Proof.
  intros Hp H. unfold advance_migration.
  destruct (mig_find hs (t_migs t)) as [m|] eqn:F; [|exact H].
  destruct (m_phase m =? ph); [exact H|].
  destruct H as [W C V A M S O]. pose proof (mig_find_in _ _ _ F) as I.
  constructor; cbn [t_version t_count t_assign t_migs]; try assumption.
  - apply bump_u64.
  - apply Forall_mig_put; [|exact M]. rewrite Forall_forall in M. destruct (M m I) as [Q1 [Q2 [Q3 Q4]]].
    unfold mig_ok. cbn [m_hs m_phase m_src m_tgt]. repeat split; assumption.
  - apply mig_put_sorted. exact S.
  - apply Forall_mig_put; [|exact O]. cbn [m_hs]. rewrite Forall_forall in O. apply O. exact I.
Qed.

Lemma finalize_codec_ok t hs : codec_ok t -> codec_ok (finalize_migration t hs).
Proof.
  intro H. pose proof (finalize_wf t hs (co_wf t H)) as W'. revert W'. unfold finalize_migration.
  destruct (mig_find hs (t_migs t)) as [m|] eqn:F; [|intros _; exact H]. intro W'.
  destruct H as [W C V A M S O]. pose proof (mig_find_in _ _ _ F) as I.
  constructor; cbn [t_version t_count t_assign t_migs]; try assumption.
  - apply bump_u64.
  - destruct (hs <? alen t); [|exact A]. apply Forall_set_nth; [exact A|].
    rewrite Forall_forall in M. destruct (M m I) as [_ [_ [_ Q]]]. exact Q.
  - apply Forall_mig_del. exact M.
  - apply mig_del_sorted. exact S.
  - apply Forall_mig_del. exact O.
Qed.

Lemma abort_codec_ok t hs : codec_ok t -> codec_ok (abort_migration t hs).
Proof.
  intro H. unfold abort_migration.
  destruct (mig_find hs (t_migs t)) as [m|] eqn:F; [|exact H].
  destruct H as [W C V A M S O].
  constructor; cbn [t_version t_count t_assign t_migs]; try assumption.
  - apply bump_u64.
  - apply Forall_mig_del. exact M.
  - apply mig_del_sorted. exact S.
  - apply Forall_mig_del. exact O.
Qed.

Lemma apply_plan_codec_ok p : forall t, Forall (fun m => u64 (mv_to m)) p -> codec_ok t -> codec_ok (apply_plan t p).
Proof.
  unfold apply_plan. induction p as [|m p IH]; intros t Hp H; cbn [fold_left]; [exact H|].
  inversion Hp; subst. apply IH; [assumption|]. apply reassign_codec_ok; assumption.
Qed.
