(* Proof/ChanAppend_coalesce.v — newIdempotentAppendBatch (append.go): the map
   pass keeps one unique item per coalesced logical send; every item's owner
   slot holds the item itself or an EARLIER item that is the same logical send,
   and then both carry the two key fields.  Holds for an ARBITRARY payload hash
   [hashf] and fingerprint [fp] (hash collisions can never merge different
   sends).  Completeness (equal keyed sends DO share an owner) holds whenever
   the payload hash separates the payloads that occur under one key. *)
From WK Require Import Base.Base Gen.Consts_C29 Model.ChanAppend.
From Coq Require Import Sorted.
Local Open Scope nat_scope.

(* ---- sameLogicalSend is equality of commands ------------------------------------------ *)

Lemma same_eq a b : sameLogicalSend a b = true <-> a = b.
Proof.
  unfold sameLogicalSend. destruct a as [u1 c1 p1], b as [u2 c2 p2]. cbn [c_uid c_cno c_pay].
  rewrite !andb_true_iff, !bytes_eqb_eq. split.
  - intros [[E1 E2] E3]. subst. reflexivity.
  - intro E. inversion E. auto.
Qed.

Lemma same_refl a : sameLogicalSend a a = true.
Proof. apply same_eq. reflexivity. Qed.

Lemma ikey_eqb_eq (a b : ikey) : ikey_eqb a b = true <-> a = b.
Proof.
  unfold ikey_eqb. destruct a as [[u1 c1] h1], b as [[u2 c2] h2]. cbn [fst snd].
  rewrite !andb_true_iff, !bytes_eqb_eq, N.eqb_eq. split.
  - intros [[E1 E2] E3]. subst. reflexivity.
  - intro E. inversion E. auto.
Qed.

Lemma seen_get_cons k k' v s :
  seen_get k ((k', v) :: s) = if ikey_eqb k k' then Some v else seen_get k s.
Proof. reflexivity. Qed.

Lemma seen_get_cons_eq k v s : seen_get k ((k, v) :: s) = Some v.
Proof. rewrite seen_get_cons. replace (ikey_eqb k k) with true; [reflexivity|]. symmetry. apply ikey_eqb_eq. reflexivity. Qed.

Lemma seen_get_cons_neq k k' v s : k <> k' -> seen_get k ((k', v) :: s) = seen_get k s.
Proof.
  intro N. rewrite seen_get_cons. destruct (ikey_eqb k k') eqn:E; [|reflexivity].
  apply ikey_eqb_eq in E. contradiction.
Qed.

(* ---- small list facts -------------------------------------------------------------------- *)

Definition cmdat (items : list psend) (i : nat) : cmd := ps_cmd (nth i items dflt_psend).

Lemma map_nth_seq (items : list psend) k :
  k <= length items -> map (fun p => nth p items dflt_psend) (seq 0 k) = firstn k items.
Proof.
  revert items. induction k as [|k IH]; intros items H; [reflexivity|].
  destruct items as [|x items]; [cbn in H; lia|].
  cbn [seq map firstn nth]. f_equal. rewrite <- seq_shift, map_map. cbn [nth].
  apply IH. cbn in H. lia.
Qed.

Lemma nth_error_seq0 k q p : nth_error (seq 0 k) q = Some p -> p = q /\ q < k.
Proof.
  intro H. assert (Hq : q < length (seq 0 k)) by (apply nth_error_Some; congruence).
  rewrite seq_length in Hq. rewrite (nth_error_nth' _ 0) in H by (rewrite seq_length; exact Hq).
  rewrite seq_nth in H by exact Hq. inversion H. lia.
Qed.

Lemma nth_error_seq0_some k q : q < k -> nth_error (seq 0 k) q = Some q.
Proof.
  intro H. rewrite (nth_error_nth' _ 0) by (rewrite seq_length; exact H). rewrite seq_nth by exact H. reflexivity.
Qed.

Lemma sorted_seq0 k : StronglySorted lt (seq 0 k).
Proof.
  generalize 0. induction k as [|k IH]; intro a; cbn [seq]; constructor; [apply IH|].
  apply Forall_forall. intros x Hx. apply in_seq in Hx. lia.
Qed.

Lemma sorted_snoc (l : list nat) k : StronglySorted lt l -> Forall (fun p => p < k) l -> StronglySorted lt (l ++ [k]).
Proof.
  induction l as [|x l IH]; intros Hs Hb; cbn [app].
  - constructor; constructor.
  - inversion Hs; subst. inversion Hb; subst. constructor; [apply IH; assumption|].
    apply Forall_app. split; [assumption|]. constructor; [assumption|constructor].
Qed.

Lemma nth_snoc_lt {A} (l : list A) x d i : i < length l -> nth i (l ++ [x]) d = nth i l d.
Proof. intro H. apply app_nth1. exact H. Qed.

Lemma nth_snoc_eq {A} (l : list A) x d : nth (length l) (l ++ [x]) d = x.
Proof. rewrite app_nth2 by lia. rewrite Nat.sub_diag. reflexivity. Qed.

Lemma nth_error_snoc_lt {A} (l : list A) x i : i < length l -> nth_error (l ++ [x]) i = nth_error l i.
Proof. intro H. apply nth_error_app1. exact H. Qed.

Lemma nth_error_snoc_eq {A} (l : list A) x : nth_error (l ++ [x]) (length l) = Some x.
Proof. rewrite nth_error_app2 by lia. rewrite Nat.sub_diag. reflexivity. Qed.

Lemma nth_error_snoc_inv {A} (l : list A) x q p :
  nth_error (l ++ [x]) q = Some p -> (q < length l /\ nth_error l q = Some p) \/ (q = length l /\ p = x).
Proof.
  intro H. destruct (Nat.lt_ge_cases q (length l)) as [L|L].
  - left. split; [exact L|]. rewrite nth_error_app1 in H by exact L. exact H.
  - right. rewrite nth_error_app2 in H by exact L.
    destruct (q - length l) as [|d] eqn:E; cbn in H.
    + inversion H. split; [lia|reflexivity].
    + destruct d; discriminate.
Qed.

(* ---- the specification of a coalesced batch ---------------------------------------------- *)

Definition owner_of (b : ibatch) (i : nat) : nat :=
  match ib_owners b with Some ow => nth i ow 0 | None => i end.

(* [pos] lists, slot by slot, the position (in [items]) of the unique item the slot holds *)
Record coalesced (items : list psend) (b : ibatch) (pos : list nat) : Prop := {
  cz_sorted : StronglySorted lt pos;
  cz_bound : Forall (fun p => p < length items) pos;
  cz_items : ib_items b = map (fun p => nth p items dflt_psend) pos;
  cz_owners : forall ow, ib_owners b = Some ow -> length ow = length items /\ ib_original b = items;
  cz_none : ib_owners b = None -> pos = seq 0 (length items);
  cz_slot : forall q p, nth_error pos q = Some p -> owner_of b p = q;
  cz_owner : forall i, i < length items ->
     exists p, nth_error pos (owner_of b i) = Some p /\ p <= i /\
       (p = i \/ (keyed (cmdat items i) = true /\ sameLogicalSend (cmdat items p) (cmdat items i) = true)) }.

Lemma coalesced_trivial items : coalesced items (nb_trivial items) (seq 0 (length items)).
Proof.
  constructor; cbn [nb_trivial ib_items ib_owners ib_original].
  - apply sorted_seq0.
  - apply Forall_forall. intros x Hx. apply in_seq in Hx. lia.
  - rewrite map_nth_seq by lia. rewrite firstn_all. reflexivity.
  - intros ow H. discriminate.
  - reflexivity.
  - intros q p H. apply nth_error_seq0 in H. unfold owner_of. cbn. lia.
  - intros i Hi. exists i. unfold owner_of. cbn [ib_owners nb_trivial].
    split; [apply nth_error_seq0_some; exact Hi|]. split; [lia|left; reflexivity].
Qed.

(* ---- invariants of the map pass ----------------------------------------------------------- *)

Section Pass.
  Variable hashf : bytes -> N.
  Variable all : list psend.

  Definition key_of (c : cmd) : ikey := (c_uid c, c_cno c, hashf (c_pay c)).

  (* no duplicate found yet: batch.items still aliases the input *)
  Record InvA (k : nat) (st : nb_state) : Prop := {
    ia_batch : fst st = nb_trivial all;
    ia_sound : forall key i, seen_get key (snd st) = Some i ->
                 i < k /\ keyed (cmdat all i) = true /\ key_of (cmdat all i) = key;
    ia_first : forall j, j < k -> keyed (cmdat all j) = true ->
                 exists i, seen_get (key_of (cmdat all j)) (snd st) = Some i /\ i <= j /\
                           (i = j \/ sameLogicalSend (cmdat all i) (cmdat all j) = false) }.

  (* coalescing is active *)
  Record InvB (k : nat) (st : nb_state) (ow pos : list nat) : Prop := {
    ib_b_owners : ib_owners (fst st) = Some ow;
    ib_b_len : length ow = k;
    ib_b_orig : ib_original (fst st) = all;
    ib_b_sorted : StronglySorted lt pos;
    ib_b_bound : Forall (fun p => p < k) pos;
    ib_b_items : ib_items (fst st) = map (fun p => nth p all dflt_psend) pos;
    ib_b_slot : forall q p, nth_error pos q = Some p -> nth p ow 0 = q;
    ib_b_owner : forall i, i < k ->
       exists p, nth_error pos (nth i ow 0) = Some p /\ p <= i /\
         (p = i \/ (keyed (cmdat all i) = true /\ sameLogicalSend (cmdat all p) (cmdat all i) = true));
    ib_b_sound : forall key o, seen_get key (snd st) = Some o ->
       exists p, nth_error pos o = Some p /\ keyed (cmdat all p) = true /\ key_of (cmdat all p) = key;
    ib_b_first : forall q p, nth_error pos q = Some p -> keyed (cmdat all p) = true ->
       exists o, seen_get (key_of (cmdat all p)) (snd st) = Some o /\ o <= q /\
         (o = q \/ exists p0, nth_error pos o = Some p0 /\ sameLogicalSend (cmdat all p0) (cmdat all p) = false) }.

  Lemma items_len st ow pos k : InvB k st ow pos -> length (ib_items (fst st)) = length pos.
  Proof. intro H. rewrite (ib_b_items _ _ _ _ H), map_length. reflexivity. Qed.

  Lemma nth_items st ow pos k o p :
    InvB k st ow pos -> nth_error pos o = Some p -> nth o (ib_items (fst st)) dflt_psend = nth p all dflt_psend.
  Proof.
    intros H Hp. rewrite (ib_b_items _ _ _ _ H).
    assert (Ho : o < length pos) by (apply nth_error_Some; congruence).
    rewrite (nth_indep _ _ (nth 0 all dflt_psend)) by (rewrite map_length; exact Ho).
    change (nth 0 all dflt_psend) with ((fun p => nth p all dflt_psend) 0).
    rewrite map_nth. f_equal. apply nth_error_nth with (d := 0) in Hp. exact Hp.
  Qed.

  (* pushing item k as a new unique item *)
  Lemma push_inv k st ow pos seen' :
    InvB k st ow pos -> k < length all ->
    (* how the seen table changes *)
    (forall key o, seen_get key seen' = Some o ->
        (o = length pos /\ keyed (cmdat all k) = true /\ key_of (cmdat all k) = key) \/ seen_get key (snd st) = Some o) ->
    (forall key o, seen_get key (snd st) = Some o -> seen_get key seen' = Some o) ->
    (keyed (cmdat all k) = true ->
       seen_get (key_of (cmdat all k)) seen' = Some (length pos) \/
       exists o p0, seen_get (key_of (cmdat all k)) seen' = Some o /\ nth_error pos o = Some p0 /\
                    sameLogicalSend (cmdat all p0) (cmdat all k) = false) ->
    InvB (S k) (nb_push (fst st) (nth k all dflt_psend), seen') (ow ++ [length pos]) (pos ++ [k]).
  Proof.
    intros H Hk Hnew Hold Hfirst.
    pose proof (items_len _ _ _ _ H) as Hlen.
    destruct H as [B1 B2 B3 B4 B5 B6 B7 B8 B9 B10].
    unfold nb_push. rewrite B1. constructor; cbn [fst snd ib_owners ib_original ib_items].
    - rewrite Hlen. reflexivity.
    - rewrite app_length. cbn. lia.
    - exact B3.
    - apply sorted_snoc; assumption.
    - apply Forall_app. split.
      + eapply Forall_impl; [|exact B5]. intros a Ha. cbn in Ha. lia.
      + constructor; [lia|constructor].
    - rewrite map_app, B6. reflexivity.
    - intros q p Hq. apply nth_error_snoc_inv in Hq. destruct Hq as [[Hq1 Hq2]|[Hq1 Hq2]].
      + assert (Hp : p < k).
        { rewrite Forall_forall in B5. apply B5. eapply nth_error_In; eauto. }
        rewrite nth_snoc_lt by lia. apply B7. exact Hq2.
      + subst q p. rewrite <- B2. apply nth_snoc_eq.
    - intros i Hi. destruct (Nat.eq_dec i k) as [E|E].
      + subst i. exists k.
        assert (En : nth k (ow ++ [length pos]) 0 = length pos) by (rewrite <- B2; apply nth_snoc_eq).
        rewrite En, nth_error_snoc_eq.
        split; [reflexivity|]. split; [lia|left; reflexivity].
      + assert (Hi' : i < k) by lia. destruct (B8 i Hi') as [p [P1 [P2 P3]]].
        exists p. rewrite nth_snoc_lt by lia. split; [|split; assumption].
        rewrite nth_error_snoc_lt; [exact P1|]. apply nth_error_Some. congruence.
    - intros key o Ho. destruct (Hnew key o Ho) as [[E1 [E2 E3]]|E].
      + subst o. exists k. split; [apply nth_error_snoc_eq|]. split; assumption.
      + destruct (B9 key o E) as [p [P1 [P2 P3]]]. exists p. split; [|split; assumption].
        rewrite nth_error_snoc_lt; [exact P1|]. apply nth_error_Some. congruence.
    - intros q p Hq Hkeyed. apply nth_error_snoc_inv in Hq. destruct Hq as [[Hq1 Hq2]|[Hq1 Hq2]].
      + destruct (B10 q p Hq2 Hkeyed) as [o [O1 [O2 O3]]].
        exists o. split; [apply Hold; exact O1|]. split; [exact O2|].
        destruct O3 as [O3|[p0 [O3 O4]]]; [left; exact O3|right].
        exists p0. split; [|exact O4]. rewrite nth_error_snoc_lt; [exact O3|]. apply nth_error_Some. congruence.
      + subst q p. destruct (Hfirst Hkeyed) as [F|[o [p0 [F1 [F2 F3]]]]].
        * exists (length pos). split; [exact F|]. split; [lia|left; reflexivity].
        * exists o. split; [exact F1|].
          assert (Ho : o < length pos) by (apply nth_error_Some; congruence).
          split; [lia|right]. exists p0. split; [|exact F3].
          rewrite nth_error_snoc_lt; [exact F2|exact Ho].
  Qed.

  (* merging item k into the existing unique slot [o] *)
  Lemma merge_inv k st ow pos o p0 :
    InvB k st ow pos -> k < length all ->
    nth_error pos o = Some p0 -> keyed (cmdat all k) = true ->
    sameLogicalSend (cmdat all p0) (cmdat all k) = true ->
    InvB (S k) (IB (ib_items (fst st)) (ib_original (fst st)) (Some (ow ++ [o])), snd st) (ow ++ [o]) pos.
  Proof.
    intros H Hk Ho Hkeyed Hsame.
    destruct H as [B1 B2 B3 B4 B5 B6 B7 B8 B9 B10].
    constructor; cbn [fst snd ib_owners ib_original ib_items]; auto.
    - rewrite app_length. cbn. lia.
    - eapply Forall_impl; [|exact B5]. intros a Ha. cbn in Ha. lia.
    - intros q p Hq.
      assert (Hp : p < k). { rewrite Forall_forall in B5. apply B5. eapply nth_error_In; eauto. }
      rewrite nth_snoc_lt by lia. apply B7. exact Hq.
    - intros i Hi. destruct (Nat.eq_dec i k) as [E|E].
      + subst i. exists p0.
        assert (En : nth k (ow ++ [o]) 0 = o) by (rewrite <- B2; apply nth_snoc_eq).
        rewrite En.
        assert (Hp0 : p0 < k). { rewrite Forall_forall in B5. apply B5. eapply nth_error_In; eauto. }
        split; [exact Ho|]. split; [lia|right; split; assumption].
      + assert (Hi' : i < k) by lia. destruct (B8 i Hi') as [p [P1 [P2 P3]]].
        exists p. rewrite nth_snoc_lt by lia. split; [exact P1|split; assumption].
  Qed.

  Lemma stepA k st :
    InvA k st -> k < length all ->
    let st' := nb_step hashf all k (nth k all dflt_psend) st in
    InvA (S k) st' \/ exists ow pos, InvB (S k) st' ow pos.
  Proof.
    intros [A1 A2 A3] Hk. destruct st as [b seen]. cbn [fst snd] in *. subst b.
    unfold nb_step. fold (cmdat all k).
    destruct (keyed (cmdat all k)) eqn:Kd; cbn [negb].
    2:{ (* a keyless item is never recorded *)
      left. unfold nb_push. cbn [ib_owners nb_trivial]. constructor; cbn [fst snd].
      - reflexivity.
      - intros key i Hi. destruct (A2 key i Hi) as [X1 X2]. split; [lia|exact X2].
      - intros j Hj Hkj. assert (j < k) by (destruct (Nat.eq_dec j k); [subst; congruence|lia]). auto. }
    change (c_uid (cmdat all k), c_cno (cmdat all k), hashf (c_pay (cmdat all k))) with (key_of (cmdat all k)).
    destruct (seen_get (key_of (cmdat all k)) seen) as [owner|] eqn:G.
    - destruct (A2 _ _ G) as [O1 [O2 O3]].
      cbn [ib_items nb_trivial]. fold (cmdat all owner).
      destruct (sameLogicalSend (cmdat all owner) (cmdat all k)) eqn:S.
      + (* first duplicate: switch to the coalescing representation *)
        right. cbn [ib_owners]. exists (seq 0 k ++ [owner]), (seq 0 k).
        constructor; cbn [fst snd ib_owners ib_original ib_items].
        * reflexivity.
        * rewrite app_length, seq_length. cbn. lia.
        * reflexivity.
        * apply sorted_seq0.
        * apply Forall_forall. intros x Hx. apply in_seq in Hx. lia.
        * rewrite map_nth_seq by lia. reflexivity.
        * intros q p Hq. apply nth_error_seq0 in Hq. destruct Hq as [E Hq]. subst p.
          rewrite app_nth1 by (rewrite seq_length; exact Hq). rewrite seq_nth by exact Hq. reflexivity.
        * intros i Hi. destruct (Nat.eq_dec i k) as [E|E].
          -- subst i. exists owner. rewrite app_nth2 by (rewrite seq_length; lia).
             rewrite seq_length, Nat.sub_diag. cbn [nth].
             split; [apply nth_error_seq0_some; exact O1|]. split; [lia|right; split; assumption].
          -- assert (Hi' : i < k) by lia. exists i.
             rewrite app_nth1 by (rewrite seq_length; exact Hi'). rewrite seq_nth by exact Hi'. cbn.
             split; [apply nth_error_seq0_some; exact Hi'|]. split; [lia|left; reflexivity].
        * intros key o Ho. destruct (A2 key o Ho) as [X1 [X2 X3]]. exists o.
          split; [apply nth_error_seq0_some; exact X1|]. split; assumption.
        * intros q p Hq Hkp. apply nth_error_seq0 in Hq. destruct Hq as [E Hq]. subst p.
          destruct (A3 q Hq Hkp) as [i [I1 [I2 I3]]]. exists i. split; [exact I1|]. split; [exact I2|].
          destruct I3 as [I3|I3]; [left; exact I3|right]. exists i. split; [|exact I3].
          apply nth_error_seq0_some. lia.
      + (* same key and payload hash, different payload: neither merged nor recorded *)
        left. unfold nb_push. cbn [ib_owners nb_trivial]. constructor; cbn [fst snd].
        * reflexivity.
        * intros key i Hi. destruct (A2 key i Hi) as [X1 X2]. split; [lia|exact X2].
        * intros j Hj Hkj. destruct (Nat.eq_dec j k) as [E|E].
          -- subst j. exists owner. split; [exact G|]. split; [lia|right; exact S].
          -- apply A3; [lia|exact Hkj].
    - (* first item with this key *)
      left. cbn [ib_owners nb_trivial]. constructor; cbn [fst snd].
      + reflexivity.
      + intros key i Hi. rewrite seen_get_cons in Hi. destruct (ikey_eqb key (key_of (cmdat all k))) eqn:E.
        * apply ikey_eqb_eq in E. inversion Hi; subst. split; [lia|]. split; [exact Kd|reflexivity].
        * destruct (A2 key i Hi) as [X1 X2]. split; [lia|exact X2].
      + intros j Hj Hkj. destruct (Nat.eq_dec j k) as [E|E].
        * subst j. exists k. split; [apply seen_get_cons_eq|]. split; [lia|left; reflexivity].
        * assert (Hj' : j < k) by lia. destruct (A3 j Hj' Hkj) as [i [I1 I2]].
          exists i. split; [|exact I2]. rewrite seen_get_cons_neq; [exact I1|].
          intro Ek. rewrite Ek in I1. congruence.
  Qed.

  Lemma stepB k st ow pos :
    InvB k st ow pos -> k < length all ->
    exists ow' pos', InvB (S k) (nb_step hashf all k (nth k all dflt_psend) st) ow' pos'.
  Proof.
    intros H Hk. pose proof H as H0. destruct st as [b seen].
    pose proof (ib_b_owners _ _ _ _ H) as B1. cbn [fst] in B1.
    unfold nb_step. fold (cmdat all k).
    destruct (keyed (cmdat all k)) eqn:Kd; cbn [negb].
    2:{ exists (ow ++ [length pos]), (pos ++ [k]).
        apply (push_inv k (b, seen) ow pos seen H Hk); cbn [snd]; auto.
        intro F. congruence. }
    change (c_uid (cmdat all k), c_cno (cmdat all k), hashf (c_pay (cmdat all k))) with (key_of (cmdat all k)).
    destruct (seen_get (key_of (cmdat all k)) seen) as [owner|] eqn:G.
    - destruct (ib_b_sound _ _ _ _ H _ _ G) as [p0 [P1 [P2 P3]]]. cbn [snd] in *.
      pose proof (nth_items _ _ _ _ _ _ H P1) as Hn. cbn [fst] in Hn. rewrite Hn. fold (cmdat all p0).
      destruct (sameLogicalSend (cmdat all p0) (cmdat all k)) eqn:S.
      + rewrite B1. exists (ow ++ [owner]), pos.
        apply (merge_inv k (b, seen) ow pos owner p0 H Hk P1 Kd S).
      + exists (ow ++ [length pos]), (pos ++ [k]).
        apply (push_inv k (b, seen) ow pos seen H Hk); cbn [snd]; auto.
        intros _. right. exists owner, p0. auto.
    - rewrite B1. pose proof (items_len _ _ _ _ H0) as HL. cbn [fst] in HL. rewrite HL.
      exists (ow ++ [length pos]), (pos ++ [k]).
      replace (nb_push b (nth k all dflt_psend)) with (nb_push (fst (b, seen)) (nth k all dflt_psend)) by reflexivity.
      apply (push_inv k (b, seen) ow pos _ H Hk); cbn [snd].
      + intros key o Ho. rewrite seen_get_cons in Ho. destruct (ikey_eqb key (key_of (cmdat all k))) eqn:E.
        * apply ikey_eqb_eq in E. inversion Ho; subst. left. auto.
        * right. exact Ho.
      + intros key o Ho. rewrite seen_get_cons_neq; [exact Ho|]. intro E. subst key. congruence.
      + intros _. left. apply seen_get_cons_eq.
  Qed.

  (* the whole pass, from any point *)
  Lemma loop_inv : forall rest k st,
    k + length rest = length all -> rest = skipn k all ->
    (InvA k st \/ exists ow pos, InvB k st ow pos) ->
    let st' := nb_loop hashf all k rest st in
    InvA (length all) st' \/ exists ow pos, InvB (length all) st' ow pos.
  Proof.
    induction rest as [|it rest IH]; intros k st Hlen Hrest Hinv; cbn [nb_loop].
    - cbn in Hlen. replace (length all) with k by lia. exact Hinv.
    - cbn [length] in Hlen.
      assert (Hk : k < length all) by lia.
      assert (Hit : it = nth k all dflt_psend /\ rest = skipn (S k) all).
      { clear -Hrest Hk. revert k Hrest Hk. induction all as [|x l IHl]; intros k Hrest Hk; [cbn in Hk; lia|].
        destruct k as [|k]; cbn [skipn nth] in *.
        - inversion Hrest. split; reflexivity.
        - apply IHl; [exact Hrest|cbn in Hk; lia]. }
      destruct Hit as [E1 E2]. subst it.
      apply IH; [lia|exact E2|].
      destruct Hinv as [HA|[ow [pos HB]]].
      + apply stepA; assumption.
      + right. apply stepB with (ow := ow) (pos := pos); assumption.
  Qed.

  Lemma InvA_init : InvA 0 (nb_trivial all, []).
  Proof.
    constructor; cbn [fst snd].
    - reflexivity.
    - intros key i H. discriminate.
    - intros j Hj. lia.
  Qed.

  Lemma pass_coalesced :
    exists pos, coalesced all (fst (nb_loop hashf all 0 all (nb_trivial all, []))) pos.
  Proof.
    destruct (loop_inv all 0 (nb_trivial all, []) eq_refl eq_refl (or_introl InvA_init)) as [HA|[ow [pos HB]]].
    - exists (seq 0 (length all)). rewrite (ia_batch _ _ HA). apply coalesced_trivial.
    - exists pos. destruct HB as [B1 B2 B3 B4 B5 B6 B7 B8 B9 B10].
      constructor; auto.
      + intros ow' E. rewrite B1 in E. inversion E; subst. auto.
      + intro E. rewrite B1 in E. discriminate.
      + intros q p Hq. unfold owner_of. rewrite B1. apply B7. exact Hq.
      + intros i Hi. unfold owner_of. rewrite B1. apply B8. exact Hi.
  Qed.

  (* ---- completeness: equal keyed sends share an owner when the payload hash
     separates the payloads that occur under one key ------------------------------------------ *)

  Definition hash_separates : Prop :=
    forall i j, i < length all -> j < length all ->
      c_uid (cmdat all i) = c_uid (cmdat all j) -> c_cno (cmdat all i) = c_cno (cmdat all j) ->
      hashf (c_pay (cmdat all i)) = hashf (c_pay (cmdat all j)) ->
      c_pay (cmdat all i) = c_pay (cmdat all j).

  Lemma key_eq_cmd i j :
    hash_separates -> i < length all -> j < length all ->
    key_of (cmdat all i) = key_of (cmdat all j) -> cmdat all i = cmdat all j.
  Proof.
    intros HS Hi Hj E. unfold key_of in E. inversion E as [[E1 E2 E3]].
    pose proof (HS i j Hi Hj E1 E2 E3) as E4.
    destruct (cmdat all i), (cmdat all j). cbn in *. congruence.
  Qed.

  Lemma complete_A st :
    hash_separates -> InvA (length all) st ->
    forall i j, i < j -> j < length all -> keyed (cmdat all i) = true -> cmdat all i = cmdat all j -> False.
  Proof.
    intros HS [A1 A2 A3] i j Hij Hj Ki E.
    assert (Kj : keyed (cmdat all j) = true) by (rewrite <- E; exact Ki).
    destruct (A3 i ltac:(lia) Ki) as [a [X1 [X2 X3]]].
    destruct (A3 j Hj Kj) as [b [Y1 [Y2 Y3]]].
    rewrite E in X1. rewrite X1 in Y1. inversion Y1; subst b.
    destruct Y3 as [Y3|Y3]; [lia|].
    destruct X3 as [X3|X3].
    - subst a. rewrite E, same_refl in Y3. discriminate.
    - destruct (A2 _ _ X1) as [Z1 [Z2 Z3]].
      assert (Ea : cmdat all a = cmdat all j) by (apply key_eq_cmd; auto; lia).
      rewrite Ea, same_refl in Y3. discriminate.
  Qed.

  Lemma complete_B st ow pos :
    hash_separates -> InvB (length all) st ow pos ->
    forall i j, i < j -> j < length all -> keyed (cmdat all i) = true -> cmdat all i = cmdat all j ->
    nth i ow 0 = nth j ow 0.
  Proof.
    intros HS I i j Hij Hj Ki E.
    assert (Kj : keyed (cmdat all j) = true) by (rewrite <- E; exact Ki).
    pose proof (ib_b_bound _ _ _ _ I) as Hb. rewrite Forall_forall in Hb.
    (* the slot of an item is the first slot recorded under the item's key *)
    assert (Hslot : forall x, x < length all -> keyed (cmdat all x) = true ->
              seen_get (key_of (cmdat all x)) (snd st) = Some (nth x ow 0)).
    { intros x Hx Kx. destruct (ib_b_owner _ _ _ _ I x Hx) as [p [P1 [P2 P3]]].
      assert (Ep : cmdat all p = cmdat all x).
      { destruct P3 as [P3|[_ P3]]; [subst; reflexivity|apply same_eq; exact P3]. }
      assert (Kp : keyed (cmdat all p) = true) by (rewrite Ep; exact Kx).
      destruct (ib_b_first _ _ _ _ I _ _ P1 Kp) as [o [O1 [O2 O3]]].
      rewrite Ep in O1. rewrite O1. f_equal.
      destruct O3 as [O3|[p0 [O3 O4]]]; [exact O3|]. exfalso.
      destruct (ib_b_sound _ _ _ _ I _ _ O1) as [p0' [Q1 [Q2 Q3]]].
      rewrite O3 in Q1. inversion Q1; subst p0'.
      assert (Hp0 : p0 < length all) by (apply Hb; eapply nth_error_In; eauto).
      assert (E0 : cmdat all p0 = cmdat all x) by (apply key_eq_cmd; auto).
      rewrite Ep, E0, same_refl in O4. discriminate. }
    pose proof (Hslot i ltac:(lia) Ki) as S1. pose proof (Hslot j Hj Kj) as S2.
    rewrite E in S1. rewrite S1 in S2. inversion S2. reflexivity.
  Qed.

  Lemma pass_complete :
    hash_separates ->
    forall i j, i < j -> j < length all -> keyed (cmdat all i) = true -> cmdat all i = cmdat all j ->
    let b := fst (nb_loop hashf all 0 all (nb_trivial all, [])) in
    owner_of b i = owner_of b j.
  Proof.
    intros HS i j Hij Hj Ki E b.
    destruct (loop_inv all 0 (nb_trivial all, []) eq_refl eq_refl (or_introl InvA_init)) as [HA|[ow [pos HB]]].
    - exfalso. exact (complete_A _ HS HA i j Hij Hj Ki E).
    - unfold owner_of, b. rewrite (ib_b_owners _ _ _ _ HB). exact (complete_B _ ow pos HS HB i j Hij Hj Ki E).
  Qed.
End Pass.

(* ---- newIdempotentAppendBatch ------------------------------------------------------------- *)

Theorem nb_coalesced : forall hashf fp items,
  exists pos, coalesced items (newIdempotentAppendBatch hashf fp items) pos.
Proof.
  intros hashf fp items. unfold newIdempotentAppendBatch.
  destruct (length items <? 2).
  { exists (seq 0 (length items)). apply coalesced_trivial. }
  destruct ((N.of_nat (length items) <=? c29_stack_item_limit)%N
            && match hasCoalescibleIdempotentItems fp items with Some false => true | _ => false end).
  { exists (seq 0 (length items)). apply coalesced_trivial. }
  apply pass_coalesced.
Qed.

(* soundness: whatever the hash functions, two items share an owner only if they
   are the same logical send and the later one (hence both) carries the two keys *)
Theorem nb_sound : forall hashf fp items i j,
  i < j -> j < length items ->
  let b := newIdempotentAppendBatch hashf fp items in
  owner_of b i = owner_of b j ->
  cmdat items i = cmdat items j /\ keyed (cmdat items i) = true /\ keyed (cmdat items j) = true.
Proof.
  intros hashf fp items i j Hij Hj b Ho.
  destruct (nb_coalesced hashf fp items) as [pos C]. fold b in C.
  destruct (cz_owner _ _ _ C i ltac:(lia)) as [p [P1 [P2 P3]]].
  destruct (cz_owner _ _ _ C j Hj) as [p' [Q1 [Q2 Q3]]].
  rewrite Ho in P1. rewrite P1 in Q1. inversion Q1; subst p'.
  destruct Q3 as [Q3|[Q3 Q4]]; [lia|].
  apply same_eq in Q4.
  destruct P3 as [P3|[P3 P4]].
  - subst p. rewrite Q4. auto.
  - apply same_eq in P4. rewrite <- P4, Q4. split; [reflexivity|]. split; [|exact Q3]. rewrite <- Q4, P4. exact P3.
Qed.
