(* Proof/CtrlFSM_C18.v — the frame theorems of Proof/CtrlFSM_frame.v instantiated with the
   transcribed state and applyMutation, the handler contract being discharged by
   Proof/CtrlFSM_handlers.v.  state.Checksum stays a section variable [ck]: any function of
   the state that ignores the checksum field. *)
From WK Require Import Base.Base.
From WK Require Import Gen.Consts_C18 Model.CtrlFSM Model.CtrlFSM_C18.
From WK Require Import Proof.CtrlFSM_norm Proof.CtrlFSM_getset Proof.CtrlFSM_handlers Proof.CtrlFSM_frame.
From Coq Require Import ZifyBool ZifyN ZifyNat Sorting.Sorted.
Open Scope N_scope.

Definition dflt_entry : N * N * Command :=
  (0, 0, Cmd [] 0 None None None [] None None None None None None None None None None None).

Section Concrete.
  Variable ck : CState -> bytes.
  Hypothesis ck_blind : forall s x, ck (set_checksum s x) = ck s.

  (* the checksum field holds the checksum of the state *)
  Definition ckokS (s : CState) : bool := bytes_eqb (s_checksum s) (ck s).

  (* ---- the hypotheses of the frame ---- *)
  Lemma H_rev_set_ck : forall s x, s_rev (set_checksum s x) = s_rev s. Proof. reflexivity. Qed.
  Lemma H_app_set_ck : forall s x, s_applied (set_checksum s x) = s_applied s. Proof. reflexivity. Qed.
  Lemma H_rev_set_app : forall s v, s_rev (set_applied s v) = s_rev s. Proof. reflexivity. Qed.
  Lemma H_app_set_app : forall s v, s_applied (set_applied s v) = v. Proof. reflexivity. Qed.
  Lemma H_set_ck_set_ck : forall s a b, set_checksum (set_checksum s a) b = set_checksum s b. Proof. reflexivity. Qed.
  Lemma H_set_ck_set_app : forall s v x, set_checksum (set_applied s v) x = set_applied (set_checksum s x) v.
  Proof. reflexivity. Qed.
  Lemma H_rev_empty : s_rev empty_state = 0. Proof. reflexivity. Qed.
  Lemma H_app_empty : s_applied empty_state = 0. Proof. reflexivity. Qed.
  Lemma H_body_eq_refl : forall s, body_eq s s = true. Proof. intro s. apply CState_body_eqb_refl. Qed.
  Lemma H_body_eq_set_app : forall a b v, body_eq (set_applied a v) b = body_eq a b. Proof. reflexivity. Qed.
  Lemma H_body_eq_set_ck : forall a b x, body_eq (set_checksum a x) b = body_eq a b. Proof. reflexivity. Qed.
  Lemma H_logical_eq_set_app : forall a b v, logical_eq (set_applied a v) b = logical_eq a b. Proof. reflexivity. Qed.
  Lemma H_logical_eq_set_ck : forall a b x, logical_eq (set_checksum a x) b = logical_eq a b. Proof. reflexivity. Qed.
  Lemma H_ckok_saved : forall s, ckokS (set_checksum s (ck s)) = true.
  Proof. intro s. unfold ckokS. rewrite ck_blind. cbn [s_checksum set_checksum]. apply bytes_eqb_refl. Qed.
  Lemma H_Good_valid : forall s, Good s -> Validate s = true. Proof. intros s (V & _). exact V. Qed.
  Lemma H_Good_set_app : forall s v, Good s -> Good (set_applied s v).
  Proof.
    intros s v (V & Hn & Hl). split; [rewrite Validate_set_applied; exact V|].
    split; [rewrite Normalize_set_applied, Hn; reflexivity|exact Hl].
  Qed.
  Lemma H_Good_set_ck : forall s x, Good (set_checksum s x) <-> Good s.
  Proof.
    intros s x. unfold Good. rewrite Validate_set_checksum, Normalize_set_checksum. cbn [s_rev set_checksum].
    split; intros (V & Hn & Hl); (split; [exact V|split; [|exact Hl]]).
    - rewrite <- (set_checksum_id s), <- (set_checksum_set_checksum s x (s_checksum s)).
      rewrite <- Hn at 2. rewrite set_checksum_set_checksum, <- Normalize_set_checksum, set_checksum_id. reflexivity.
    - rewrite Hn. reflexivity.
  Qed.

  Lemma applyMutation_init s i t cmd :
    bytes_eqb (k_kind cmd) KindInitClusterState = true -> applyMutation s i t cmd = applyInit s i cmd.
  Proof. intro Hk. unfold applyMutation. rewrite Hk. reflexivity. Qed.

  Lemma H_HC_pre : forall i t c,
      let s' := fst (applyMutation empty_state i t c) in
      let r := snd (applyMutation empty_state i t c) in
      (s_rev s' = 0 -> s' = empty_state /\ (r_class r = cNoop \/ r_class r = cRejected))
      /\ (s_rev s' <> 0 -> r_class r = cChanged /\ s_rev s' = 1 /\ s_applied s' <= i /\ Good s').
  Proof.
    intros i t c. cbv zeta.
    destruct (bytes_eqb (k_kind c) KindInitClusterState) eqn:Hk.
    - rewrite applyMutation_init by exact Hk. apply applyInit_pre.
    - destruct (applyMutation_ok empty_state i t c Hk) as [Hpre _].
      destruct (Hpre eq_refl) as [He Hc]. rewrite He.
      split; [intros _; split; [reflexivity|exact Hc]|intro H; exfalso; apply H; reflexivity].
  Qed.

  Lemma H_HC_post : forall s i t c,
      Good s ->
      let s' := fst (applyMutation s i t c) in
      let r := snd (applyMutation s i t c) in
      Good s' /\ s_applied s' = s_applied s
      /\ (((r_class r = cNoop \/ r_class r = cRejected) /\ s' = s)
          \/ (r_class r = cChanged /\ s_rev s' = s_rev s + 1)
          \/ (r_class r = cUpdated /\ s_rev s' = s_rev s /\ logical_eq s' s = true)).
  Proof.
    intros s i t c Hg. cbv zeta.
    destruct (bytes_eqb (k_kind c) KindInitClusterState) eqn:Hk.
    - rewrite applyMutation_init by exact Hk. apply applyInit_post. exact Hg.
    - destruct (applyMutation_ok s i t c Hk) as [_ Hpost]. exact (Hpost Hg).
  Qed.

  Ltac frame_hyp :=
    first [ exact H_rev_set_ck | exact H_app_set_ck | exact H_rev_set_app | exact H_app_set_app
          | exact H_set_ck_set_ck | exact H_set_ck_set_app | exact ck_blind | exact H_rev_empty | exact H_app_empty
          | exact CState_eqb_refl | exact H_body_eq_refl | exact H_body_eq_set_app | exact H_body_eq_set_ck
          | exact H_logical_eq_set_app | exact H_logical_eq_set_ck | exact H_ckok_saved
          | exact Good_rev | exact H_Good_valid | exact H_Good_set_app | exact H_Good_set_ck
          | exact applyMutation_blind | exact H_HC_pre | exact H_HC_post ].

  (* ---- the log ---- *)
  Variable log : list Entry.
  Hypothesis sorted : StronglySorted N.lt (map e_idx log).

  Definition tlog : list (N * N * Command) := map entry_tuple log.

  Lemma sorted_nth (l : list N) d : StronglySorted N.lt l ->
    forall i j, (i < j)%nat -> (j < length l)%nat -> nth i l d < nth j l d.
  Proof.
    induction 1 as [|x l Hs IH Hx]; intros i j Hij Hj; [cbn in Hj; lia|].
    destruct j as [|j]; [lia|]. cbn [length] in Hj. destruct i as [|i]; cbn [nth].
    - rewrite Forall_forall in Hx. apply Hx. apply nth_In. lia.
    - apply IH; lia.
  Qed.

  Lemma increasing_tlog : forall i j, (i < j)%nat -> (j < length tlog)%nat ->
                                      idx tlog dflt_entry i < idx tlog dflt_entry j.
  Proof.
    intros i j Hij Hj. unfold idx, ent, tlog in *. rewrite map_length in Hj.
    assert (E : forall k, fst (fst (nth k (map entry_tuple log) dflt_entry)) = nth k (map e_idx log) 0).
    { intro k. rewrite <- (map_nth (fun e => fst (fst e)) (map entry_tuple log) dflt_entry k).
      rewrite map_map. reflexivity. }
    rewrite !E. apply sorted_nth; [exact sorted|exact Hij|rewrite map_length; exact Hj].
  Qed.

  (* the reference states and results of the log applied one entry at a time *)
  Definition S_ref (k : nat) : CState :=
    Sref s_rev s_applied set_applied set_checksum applyMutation ck empty_state tlog dflt_entry k.
  Definition R_ref (k : nat) : Result :=
    Rref s_rev s_applied set_applied set_checksum applyMutation ck empty_state tlog dflt_entry k.
  Definition M_ref (k : nat) : Machine CState :=
    refM s_rev s_applied set_applied set_checksum applyMutation ck empty_state tlog dflt_entry k.

  Definition c_run (cmds : list cmdstep) : list (Step CState) :=
    run_cmds s_rev s_applied set_applied set_checksum applyMutation ck empty_state tlog (fresh empty_state) 0 cmds.
  Definition c_wf (cmds : list cmdstep) : Prop :=
    scen_wf s_rev s_applied set_applied set_checksum applyMutation ck empty_state tlog dflt_entry cmds.
  Definition c_parts (parts : list (list Entry)) : Machine CState * list Result :=
    apply_parts s_rev s_applied set_applied set_checksum applyMutation ck (fresh empty_state) (map (map entry_tuple) parts).

  (* the monitor holds on every observation the model can produce *)
  Theorem model_monitor (scens : list (list cmdstep)) :
    Forall c_wf scens ->
    monitor_gen s_rev s_applied Validate ckokS CState_eqb body_eq logical_eq empty_state
                (map e_idx log) (c_run (repeat (CBatch 1 0) (length log))) (map c_run scens) = true.
  Proof.
    intro Hwf.
    replace (map e_idx log) with (map (fun e : N * N * Command => fst (fst e)) tlog)
      by (unfold tlog; rewrite map_map; reflexivity).
    replace (length log) with (length tlog) by (unfold tlog; apply map_length).
    unfold c_run.
    eapply (@frame_monitor CState Command s_rev s_applied set_applied set_checksum applyMutation ck empty_state
                           Validate ckokS CState_eqb body_eq logical_eq Good); try frame_hyp.
    - exact increasing_tlog.
    - exact Hwf.
  Qed.

  Theorem model_partition (parts : list (list Entry)) :
    concat parts = log -> c_parts parts = c_parts (map (fun e => [e]) log).
  Proof.
    intro Hcat. unfold c_parts.
    assert (Hc : concat (map (map entry_tuple) parts) = tlog).
    { unfold tlog. rewrite <- Hcat. rewrite concat_map. reflexivity. }
    assert (Hmain : apply_parts s_rev s_applied set_applied set_checksum applyMutation ck (fresh empty_state)
                                (map (map entry_tuple) parts)
                    = apply_parts s_rev s_applied set_applied set_checksum applyMutation ck (fresh empty_state)
                                  (map (fun e => [e]) tlog)).
    { eapply (@partition_invariant CState Command s_rev s_applied set_applied set_checksum applyMutation ck
                                   empty_state Validate ckokS CState_eqb body_eq logical_eq Good); try frame_hyp;
        [exact increasing_tlog|exact Hc]. }
    rewrite Hmain.
    unfold tlog. rewrite !map_map. reflexivity.
  Qed.

  Definition entry_at (k : nat) : N * N * Command := ent tlog dflt_entry k.

  (* re-applying already applied entries after a restart from a persisted state *)
  Theorem model_replay_noop h c cnt :
    (h <= length log)%nat -> (c + cnt <= h)%nat -> s_rev (S_ref h) <> 0 ->
    ApplyBatch s_rev s_applied set_applied set_checksum applyMutation ck (restart empty_state (M_ref h)) 0
               (map entry_at (seq c cnt))
    = (M_ref h, BO (repeat (Rs cNoop ReasonAlreadyApplied (s_rev (S_ref h)) (s_applied (S_ref h)) [] 0) cnt)
                   false (Some (S_ref h)) (Some (S_ref h))).
  Proof.
    intros Hh Hc E. unfold M_ref, S_ref, entry_at.
    eapply (@replay_noop CState Command s_rev s_applied set_applied set_checksum applyMutation ck
                         empty_state Validate ckokS CState_eqb body_eq logical_eq Good); try frame_hyp;
      try exact increasing_tlog; try assumption.
    unfold tlog. rewrite map_length. exact Hh.
  Qed.

  Theorem model_replay_preinit h c cnt :
    (h <= length log)%nat -> (c + cnt <= h)%nat -> s_rev (S_ref h) = 0 ->
    ApplyBatch s_rev s_applied set_applied set_checksum applyMutation ck (restart empty_state (M_ref h)) 0
               (map entry_at (seq c cnt))
    = (M_ref h, BO (map R_ref (seq c cnt)) false (Some empty_state) None).
  Proof.
    intros Hh Hc E. unfold M_ref, S_ref, R_ref, entry_at.
    eapply (@replay_preinit CState Command s_rev s_applied set_applied set_checksum applyMutation ck
                            empty_state Validate ckokS CState_eqb body_eq logical_eq Good); try frame_hyp;
      try exact increasing_tlog; try assumption.
    unfold tlog. rewrite map_length. exact Hh.
  Qed.

  (* the per-entry contract on the reference run *)
  Theorem model_step_contract k : (k < length log)%nat ->
    let pre := S_ref k in let post := S_ref (S k) in let r := R_ref k in
    (r_class r = cChanged \/ r_class r = cUpdated \/ r_class r = cNoop \/ r_class r = cRejected)
    /\ (r_class r = cChanged -> s_rev post = s_rev pre + 1)
    /\ (r_class r = cUpdated -> s_rev post = s_rev pre /\ logical_eq post pre = true)
    /\ (r_class r = cNoop \/ r_class r = cRejected -> body_eq post pre = true)
    /\ (s_rev post = 0 -> post = empty_state)
    /\ (s_rev post <> 0 -> Validate post = true /\ ckokS post = true /\ r_rev r = s_rev post
                            /\ s_applied post = fst (fst (entry_at k)) /\ r_applied r = s_applied post).
  Proof.
    intro Hk. cbv zeta.
    assert (Hk' : (k < length tlog)%nat) by (unfold tlog; rewrite map_length; exact Hk).
    assert (H := @ref_step_facts CState Command s_rev s_applied set_applied set_checksum applyMutation ck
                                 empty_state Validate ckokS CState_eqb body_eq logical_eq Good).
    repeat match type of H with
           | (?A -> _) => let a := fresh in assert (a : A) by frame_hyp; specialize (H a); clear a
           end.
    specialize (H tlog dflt_entry increasing_tlog k Hk').
    cbv zeta in H. fold (S_ref k) (S_ref (S k)) (R_ref k) in H. unfold entry_at.
    change (idx tlog dflt_entry k) with (fst (fst (ent tlog dflt_entry k))) in H.
    destruct H as [(E & Hpre & Hpost & Hrr & Hc & Hra)|(E & Hg & Hck & Hrr & Hra & Hap & Hle & Hcl)].
    - rewrite Hpre, Hpost.
      split; [destruct Hc; auto|].
      split; [intro X; destruct Hc as [Hc|Hc]; rewrite Hc in X; discriminate X|].
      split; [intro X; destruct Hc as [Hc|Hc]; rewrite Hc in X; discriminate X|].
      split; [intros _; apply H_body_eq_refl|].
      split; [reflexivity|]. intro X. exfalso. apply X. reflexivity.
    - split; [destruct Hcl as [[[Hc|Hc] _]|[[Hc _]|[Hc _]]]; auto|].
      split.
      { intro X. destruct Hcl as [[[Hc|Hc] _]|[[_ Hrv]|[Hc _]]]; try exact Hrv; rewrite Hc in X; discriminate X. }
      split.
      { intro X. destruct Hcl as [[[Hc|Hc] _]|[[Hc _]|(_ & Hrv & Hl)]]; try (split; assumption); rewrite Hc in X; discriminate X. }
      split.
      { intro X. destruct Hcl as [[_ Hb]|[[Hc _]|[Hc _]]]; try exact Hb; destruct X as [X|X]; rewrite Hc in X; discriminate X. }
      split; [intro X; contradiction|].
      intros _. split; [apply H_Good_valid; exact Hg|]. split; [exact Hck|]. split; [exact Hrr|].
      split; [exact Hap|]. rewrite Hra, Hap. reflexivity.
  Qed.
End Concrete.

(* ---- the clauses of the property, one by one (projections of [model_step_contract]) ---- *)

Section Clauses.
  Variable ck : CState -> bytes.
  Hypothesis ck_blind : forall s x, ck (set_checksum s x) = ck s.
  Variable log : list Entry.
  Hypothesis sorted : StronglySorted N.lt (map e_idx log).
  Variable k : nat.
  Hypothesis Hk : (k < length log)%nat.

  Lemma model_revision_plus_one :
    r_class (R_ref ck log k) = cChanged -> s_rev (S_ref ck log (S k)) = s_rev (S_ref ck log k) + 1.
  Proof. exact (proj1 (proj2 (model_step_contract ck ck_blind log sorted k Hk))). Qed.

  Lemma model_updated_keeps_revision :
    r_class (R_ref ck log k) = cUpdated ->
    s_rev (S_ref ck log (S k)) = s_rev (S_ref ck log k) /\ logical_eq (S_ref ck log (S k)) (S_ref ck log k) = true.
  Proof. exact (proj1 (proj2 (proj2 (model_step_contract ck ck_blind log sorted k Hk)))). Qed.

  Lemma model_rejected_untouched :
    r_class (R_ref ck log k) = cNoop \/ r_class (R_ref ck log k) = cRejected ->
    body_eq (S_ref ck log (S k)) (S_ref ck log k) = true.
  Proof. exact (proj1 (proj2 (proj2 (proj2 (model_step_contract ck ck_blind log sorted k Hk))))). Qed.

  Lemma model_result_class :
    r_class (R_ref ck log k) = cChanged \/ r_class (R_ref ck log k) = cUpdated
    \/ r_class (R_ref ck log k) = cNoop \/ r_class (R_ref ck log k) = cRejected.
  Proof. exact (proj1 (model_step_contract ck ck_blind log sorted k Hk)). Qed.

  Lemma model_persisted_valid :
    s_rev (S_ref ck log (S k)) <> 0 ->
    Validate (S_ref ck log (S k)) = true /\ ckokS ck (S_ref ck log (S k)) = true.
  Proof.
    intro E. destruct (proj2 (proj2 (proj2 (proj2 (proj2 (model_step_contract ck ck_blind log sorted k Hk))))) E) as (V & C & _).
    split; assumption.
  Qed.

  Lemma model_preinit_nothing :
    s_rev (S_ref ck log (S k)) = 0 -> S_ref ck log (S k) = empty_state.
  Proof. exact (proj1 (proj2 (proj2 (proj2 (proj2 (model_step_contract ck ck_blind log sorted k Hk)))))). Qed.
End Clauses.

(* ---- a concrete log (non-vacuity and the corner with non-increasing indices) ---- *)

Definition ex_node (status : bytes) : Node :=
  Nd 1 (hx "6e31") (hx "6e31") [NodeRoleControllerVoter; NodeRoleData] NodeJoinStateActive status 1.
Definition ex_cmd (kind : bytes) : Command :=
  Cmd kind 0 None None None [] None None None None None None None None None None None.
Definition ex_init : Command :=
  Cmd KindInitClusterState 0 None
      (Some (IC (hx "776b") (Cfg 2 8 1 0) [CV 1 (hx "6e31") ControllerRoleVoter] [ex_node NodeStatusAlive]))
      None [] None None None None None None None None None None None.
Definition ex_upsert (status : bytes) : Command :=
  Cmd KindUpsertNode 0 None None (Some (ex_node status)) [] None None None None None None None None None None None.
Definition ex_log : list Entry :=
  [En 3 1 (ex_upsert NodeStatusDown); En 5 1 ex_init; En 6 1 (ex_upsert NodeStatusSuspect);
   En 9 2 (ex_upsert NodeStatusSuspect)].
(* the same init and upsert with indices out of order: not a Raft log *)
Definition ex_unsorted : list Entry := [En 5 1 ex_init; En 3 1 (ex_upsert NodeStatusSuspect)].

Lemma ck0_blind : forall s x, ck0 (set_checksum s x) = ck0 s. Proof. reflexivity. Qed.

Lemma ex_log_sorted : StronglySorted N.lt (map e_idx ex_log).
Proof. cbn. repeat constructor; lia. Qed.

Lemma ex_run_classes :
  map r_class (snd (c_parts ck0 [[En 3 1 (ex_upsert NodeStatusDown); En 5 1 ex_init];
                                  [En 6 1 (ex_upsert NodeStatusSuspect); En 9 2 (ex_upsert NodeStatusSuspect)]]))
  = [cRejected; cChanged; cChanged; cNoop]
  /\ map r_rev (snd (c_parts ck0 (map (fun e => [e]) ex_log))) = [0; 1; 2; 2]
  /\ map r_applied (snd (c_parts ck0 (map (fun e => [e]) ex_log))) = [3; 5; 6; 9].
Proof. vm_compute. auto. Qed.

Lemma ex_scenario_wf :
  c_wf ck0 ex_log [CBatch 3 2; CRestart 1; CBatch 3 0; CRestart 0; CBatch 4 1; CRestart 2; CBatch 2 0].
Proof. vm_compute. repeat split; lia. Qed.

Lemma ex_unsorted_differs :
  snd (c_parts ck0 [ex_unsorted]) <> snd (c_parts ck0 (map (fun e => [e]) ex_unsorted)).
Proof. vm_compute. discriminate. Qed.

Lemma Good_unfold s : Good s -> Validate s = true /\ Normalize s = s /\ s_rev s <> 0.
Proof. intro G. split; [exact (proj1 G)|]. split; [exact (proj1 (proj2 G))|]. apply Good_rev. exact G. Qed.

Lemma monitor_is_gen c :
  C18_monitor c = 0 <->
  monitor_gen (fun r => s_rev (body_of c r)) sr_applied sr_valid sr_ckok (sref_eq c) (sref_body_eq c)
              (sref_logical_eq c) (c_init c) (map e_idx (c_log c)) (c_ref c) (c_scens c) = true.
Proof.
  unfold C18_monitor. destruct (monitor_gen _ _ _ _ _ _ _ _ _ _ _); split; intro H; try reflexivity; discriminate H.
Qed.
