(* Proof/ChanMigration_cmds.v — the per-command theorems of C17: what an accepted
   commit / promote / abort / fence command implies about the rows it was applied to.
   Statements are about the mutators and about stageChannelMigrationTaskAndMeta, i.e. they
   hold for the rows the command loads, in one-command and in multi-command batches alike. *)
From WK Require Import Base.Base.
From WK Require Import Gen.Consts_C15 Gen.Consts_C17 Model.RuntimeMeta Model.ChanMigration Model.ChanMigration_C17.
From WK Require Import Proof.RuntimeMeta Proof.ChanMigration.
Open Scope N_scope.

Ltac b2p :=
  repeat match goal with
  | H : negb _ = true |- _ => apply negb_true_iff in H
  | H : negb _ = false |- _ => apply negb_false_iff in H
  | H : (_ || _) = false |- _ => apply orb_false_iff in H; destruct H
  | H : (_ && _) = true |- _ => apply andb_prop in H; destruct H
  end.

(* ---- the three guards of a cutover ------------------------------------------------------- *)

Lemma requireMatchingFence_true m tok v now allow :
  requireMatchingFence m tok v now allow = true ->
  is_empty tok = false /\ (v =? 0) = false /\ bytes_eqb (rm_write_fence_token m) tok = true
  /\ (rm_write_fence_version m =? v) = true
  /\ (allow = false -> (now <=? rm_write_fence_until_ms m)%Z = true).
Proof.
  unfold requireMatchingFence.
  destruct (is_empty tok || (v =? 0) || negb (bytes_eqb (rm_write_fence_token m) tok)
            || negb (rm_write_fence_version m =? v)) eqn:E; [discriminate|].
  intro H. b2p. repeat split; auto.
  intro A. subst allow. simpl in H.
  apply Z.leb_le. apply Z.ltb_ge. exact H.
Qed.

Lemma requireActive_true t m v :
  requireActiveChannelMigrationTaskFence t m v = true ->
  is_empty (t_fence_token t) = false /\ bytes_eqb (t_fence_token t) (t_task_id t) = true
  /\ bytes_eqb (t_fence_token t) (rm_write_fence_token m) = true
  /\ (t_fence_version t =? rm_write_fence_version m) = true /\ (t_fence_version t =? v) = true.
Proof. unfold requireActiveChannelMigrationTaskFence. intro H. b2p. repeat split; auto. Qed.

Lemma requireProof_true t m v :
  requireChannelMigrationCutoverProof t m v = true ->
  (v =? 0) = false /\ proof_hasAny (t_proof t) = true /\ proof_hasPartial (t_proof t) = false
  /\ (pf_drained_fence_version (t_proof t) =? v) = true /\ (rm_write_fence_version m =? v) = true
  /\ (pf_drained_channel_epoch (t_proof t) =? rm_channel_epoch m) = true
  /\ (pf_drained_leader_epoch (t_proof t) =? rm_leader_epoch m) = true
  /\ (pf_drained_leader_node (t_proof t) =? rm_leader m) = true.
Proof.
  unfold requireChannelMigrationCutoverProof.
  destruct ((v =? 0) || negb (proof_hasAny (t_proof t)) || proof_hasPartial (t_proof t)) eqn:E; [discriminate|].
  intro H. b2p. repeat split; auto.
Qed.

Lemma is_empty_eqb a b : bytes_eqb a b = true -> is_empty a = is_empty b.
Proof. intro H. apply bytes_eqb_eq in H. subst. reflexivity. Qed.

(* the conjunction of the three guards is the monitor's predicate *)
Lemma guards_give_core t m g now :
  requireMatchingFence m (rg_expected_fence_token g) (rg_expected_fence_version g) now false = true ->
  requireActiveChannelMigrationTaskFence t m (rg_expected_fence_version g) = true ->
  requireChannelMigrationCutoverProof t m (rg_expected_fence_version g) = true ->
  cutover_proof_core t m g now = true.
Proof.
  intros H1 H2 H3.
  apply requireMatchingFence_true in H1. destruct H1 as (A1 & A2 & A3 & A4 & A5).
  apply requireActive_true in H2. destruct H2 as (B1 & B2 & B3 & B4 & B5).
  apply requireProof_true in H3. destruct H3 as (C1 & C2 & C3 & C4 & C5 & C6 & C7 & C8).
  unfold cutover_proof_core.
  rewrite C2, C3, A2, C5, C6, C7, C8, B2, B4, (A5 eq_refl). cbn [negb andb].
  apply N.eqb_eq in C4. apply N.eqb_eq in C5. rewrite C4, <- C5, N.eqb_refl. cbn [andb].
  rewrite <- (is_empty_eqb _ _ B3), B1. cbn [negb andb].
  apply bytes_eqb_eq in B3. apply bytes_eqb_eq in B2. rewrite <- B3, B2, bytes_eqb_refl. reflexivity.
Qed.

(* ---- C17 clause 1: commit / promote need a matching drain proof ------------------------------- *)

Lemma mutCommit_needs_proof t m h desired next_epoch lease now r :
  mutCommit t m h desired next_epoch lease now = Ok r ->
  cutover_proof_core t m (tr_rguard h) now = true
  /\ t_phase t = PhaseCommitLeaderMeta /\ tr_phase h = PhaseVerifyNewLeader
  /\ containsUint64 (rm_isr m) desired = true /\ rm_leader_epoch m < next_epoch.
Proof.
  unfold mutCommit. intro H. repeat if_inv H. b2p.
  split; [apply guards_give_core; assumption|].
  unfold requireChannelMigrationLeaderTransferTransition in E.
  destruct (negb (tr_status h =? StatusRunning) || negb (t_phase t =? PhaseCommitLeaderMeta)
            || negb (tr_phase h =? PhaseVerifyNewLeader)) eqn:E5; [discriminate|].
  b2p.
  repeat split.
  - apply N.eqb_eq; assumption.
  - apply N.eqb_eq; assumption.
  - assumption.
  - apply N.leb_gt. assumption.
Qed.

Lemma mutPromote_needs_proof t m h source target now r :
  mutPromote t m h source target now = Ok r ->
  cutover_proof_core t m (tr_rguard h) now = true
  /\ t_phase t = PhasePromoteAndRemove /\ tr_phase h = PhaseVerifyMembership.
Proof.
  unfold mutPromote. intro H. repeat if_inv H. b2p.
  split; [apply guards_give_core; assumption|].
  unfold requireChannelMigrationPromoteLearnerTransition in E. b2p.
  split; apply N.eqb_eq; assumption.
Qed.

(* an accepted commit / promote changes the phase, hence never takes the "guard mismatch but
   nothing to do" exit of stageChannelMigrationTaskAndMeta *)
Lemma phase_changed_neq t t' : t_phase t <> t_phase t' -> task_eqb t t' = false.
Proof.
  intro H. destruct (task_eqb t t') eqn:E; [|reflexivity].
  apply task_eqb_eq in E. subst. contradiction.
Qed.

Definition is_cutover (c : cmd) : bool :=
  match c with CCommit _ _ _ _ _ | CPromote _ _ _ _ => true | _ => false end.

Definition cutover_now (c : cmd) : Z :=
  match c with CCommit _ _ _ _ now | CPromote _ _ _ now => now | _ => 0%Z end.

(* THEOREM c17_commit_needs_proof: whenever the commit phase accepts a CommitChannelLeaderTransfer
   or PromoteLearnerAndRemoveReplica, the task and meta rows it loaded satisfy
   [cutover_proof_matches]: complete drain proof whose fence version, channel epoch, leader epoch
   and leader are the current ones of the meta row; fence token = task id, unexpired at NowMS;
   both optimistic guards match. *)
Theorem stage_cutover_needs_proof d cs c h cs' :
  is_cutover c = true -> cmd_trans c = Some h ->
  stageChannelMigrationTaskAndMeta d cs c = Ok cs' ->
  exists t m,
    loadChannelMigrationTask d cs (tguard_key (tr_guard h)) = Some t
    /\ loadRuntimeMeta d cs (rguard_chan (tr_rguard h)) = Some m
    /\ cutover_proof_matches t m h (cutover_now c) = true.
Proof.
  intros Hc Ht H. unfold stageChannelMigrationTaskAndMeta in H. rewrite Ht in H.
  destruct (loadChannelMigrationTask d cs (tguard_key (tr_guard h))) as [t|] eqn:Lt; [|discriminate].
  destruct (loadRuntimeMeta d cs (rguard_chan (tr_rguard h))) as [m|] eqn:Lm; [|discriminate].
  exists t, m. split; [reflexivity|]. split; [reflexivity|].
  destruct (mutate_task_meta c t m) as [[nt nm]|e] eqn:M; [|discriminate].
  assert (Hcore : cutover_proof_core t m (tr_rguard h) (cutover_now c) = true /\ t_phase t <> t_phase nt).
  { destruct c; try discriminate Hc; simpl in Ht; inversion Ht; subst h0; simpl in M; simpl.
    - pose proof (mutCommit_needs_proof _ _ _ _ _ _ _ _ M) as (P1 & P2 & P3 & _).
      split; [exact P1|].
      unfold mutCommit in M. repeat if_inv M. inversion M; subst. cbn [t_phase set_status_phase_updated].
      rewrite P2, P3. discriminate.
    - pose proof (mutPromote_needs_proof _ _ _ _ _ _ _ M) as (P1 & P2 & P3).
      split; [exact P1|].
      unfold mutPromote in M. repeat if_inv M; inversion M; subst; cbn [t_phase set_status_phase_updated];
        rewrite P2, P3; discriminate. }
  destruct Hcore as [Hcore Hph].
  rewrite (phase_changed_neq _ _ Hph) in H. cbn [andb] in H.
  unfold cutover_proof_matches. rewrite Hcore. cbn [andb].
  destruct (tguard_matches (tr_guard h) t); [|discriminate].
  destruct (rguard_matches (tr_rguard h) m); [reflexivity|discriminate].
Qed.

(* ---- C17 clause 3 (per command): abort is rejected after the cutover and on terminal tasks ------- *)

Lemma post_commit_not_abort_phase p :
  post_commit_phase p = true -> isLeaderTransferAbortPhase p = false /\ isReplicaReplaceAbortPhase p = false.
Proof.
  unfold post_commit_phase. intro H.
  apply orb_true_iff in H. destruct H as [H|H]; [apply orb_true_iff in H; destruct H as [H|H]|];
    apply N.eqb_eq in H; subst p; split; reflexivity.
Qed.

Theorem mutAbort_rejected_post_commit t m h completed last_error :
  isTerminal t || post_commit_phase (t_phase t) = true ->
  mutAbort t m h completed last_error = Err EConflict.
Proof.
  intro H. unfold mutAbort.
  destruct (isTerminal t); [reflexivity|]. cbn [orb] in H.
  apply post_commit_not_abort_phase in H. destruct H as [H1 H2].
  unfold requireChannelMigrationAbortTransition. rewrite H1, H2.
  destruct (isLeaderTransferTaskKind (t_kind t)); [reflexivity|].
  destruct (t_kind t =? KindReplicaReplace); [|reflexivity].
  destruct (t_embedded_leader_transfer t && isLeaderTransferPhase (t_phase t)); reflexivity.
Qed.

Lemma mutAbort_ok t m h completed last_error r :
  mutAbort t m h completed last_error = Ok r ->
  isTerminal t = false /\ post_commit_phase (t_phase t) = false.
Proof.
  intro H.
  destruct (isTerminal t || post_commit_phase (t_phase t)) eqn:E.
  - rewrite (mutAbort_rejected_post_commit _ _ _ _ _ E) in H. discriminate.
  - apply orb_false_iff in E. exact E.
Qed.

(* the stage function on such a task: an error, or the "nothing to do" exit that changes nothing *)
Theorem stage_abort_rejected_post_commit d cs h completed last_error t :
  loadChannelMigrationTask d cs (tguard_key (tr_guard h)) = Some t ->
  isTerminal t || post_commit_phase (t_phase t) = true ->
  exists e, stageChannelMigrationTaskAndMeta d cs (CAbort h completed last_error) = Err e
            /\ isStaleMetaCommitError e = true.
Proof.
  intros L H. unfold stageChannelMigrationTaskAndMeta. cbn [cmd_trans]. rewrite L.
  destruct (loadRuntimeMeta d cs (rguard_chan (tr_rguard h))) as [m|]; [|exists ENotFound; auto].
  cbn [mutate_task_meta]. rewrite (mutAbort_rejected_post_commit _ _ _ _ _ H).
  exists EConflict. auto.
Qed.

(* ---- C17 clause 4: fence ownership ------------------------------------------------------------------ *)

(* the write fence of [m] is free or held by task id [id] *)
Definition fence_free_or (m : runtime_meta) (id : bytes) : Prop :=
  rm_write_fence_token m = [] \/ rm_write_fence_token m = id.

Lemma fence_eqb_refl m : fence_eqb m m = true.
Proof. unfold fence_eqb. rewrite bytes_eqb_refl, !N.eqb_refl, Z.eqb_refl. reflexivity. Qed.

Lemma requireActive_owner t m v :
  requireActiveChannelMigrationTaskFence t m v = true -> rm_write_fence_token m = t_task_id t.
Proof.
  intro H. apply requireActive_true in H. destruct H as (_ & B2 & B3 & _).
  apply bytes_eqb_eq in B2. apply bytes_eqb_eq in B3. congruence.
Qed.

Lemma is_empty_true b : is_empty b = true -> b = [].
Proof. destruct b; [reflexivity|discriminate]. Qed.

Lemma requireNoForeign_owner t m :
  requireNoForeignChannelMigrationFence t m = true -> fence_free_or m (t_task_id t).
Proof.
  unfold requireNoForeignChannelMigrationFence, fence_free_or.
  destruct (negb (taskHasFence t) && negb (negb (is_empty (rm_write_fence_token m)))) eqn:E.
  - intros _. b2p. left. apply is_empty_true. assumption.
  - destruct (negb (taskHasFence t) || negb (negb (is_empty (rm_write_fence_token m)))); [discriminate|].
    intro H. right. eapply requireActive_owner. exact H.
Qed.

Lemma fence_eqb_set_membership m r i e : fence_eqb m (set_membership m r i e) = true.
Proof. unfold fence_eqb, set_membership; cbn [rm_write_fence_token rm_write_fence_version rm_write_fence_reason rm_write_fence_until_ms].
  rewrite bytes_eqb_refl, !N.eqb_refl, Z.eqb_refl. reflexivity. Qed.

Lemma fence_eqb_set_leader m l e z : fence_eqb m (set_leader m l e z) = true.
Proof. unfold fence_eqb, set_leader; cbn [rm_write_fence_token rm_write_fence_version rm_write_fence_reason rm_write_fence_until_ms].
  rewrite bytes_eqb_refl, !N.eqb_refl, Z.eqb_refl. reflexivity. Qed.

Lemma token_set_membership m r i e : rm_write_fence_token (set_membership m r i e) = rm_write_fence_token m.
Proof. reflexivity. Qed.

Lemma token_clear m : rm_write_fence_token (clearChannelRuntimeMetaFence m) = [].
Proof. reflexivity. Qed.

(* THEOREM c17_fence_ownership (mutator level): a guarded command on task [t] either leaves the
   four fence fields of the meta row alone, or the fence was free or held by t's id before and is
   free or held by t's id afterwards *)
Theorem mutate_fence_ownership c t m t' m' :
  mutate_task_meta c t m = Ok (t', m') ->
  fence_eqb m m' = true
  \/ (fence_free_or m (t_task_id t) /\ fence_free_or m' (t_task_id t)).
Proof.
  destruct c; cbn [mutate_task_meta]; try discriminate.
  - (* set fence *)
    unfold mutSetFence. intro H. repeat if_inv H. b2p. inversion H; subst. right.
    split; [apply requireNoForeign_owner; assumption|right; reflexivity].
  - (* reset *)
    unfold mutReset. intro H. repeat if_inv H. b2p. inversion H; subst. right.
    split; [right; eapply requireActive_owner; eassumption|left; reflexivity].
  - (* commit *)
    unfold mutCommit. intro H. repeat if_inv H. inversion H; subst. left. apply fence_eqb_set_leader.
  - (* add learner *)
    unfold mutAddLearner. intro H. repeat if_inv H. inversion H; subst. left.
    match goal with |- context [if ?c then _ else _] => destruct c end;
      [apply fence_eqb_set_membership|apply fence_eqb_refl].
  - (* promote *)
    unfold mutPromote. intro H. repeat if_inv H; inversion H; subst; left; apply fence_eqb_set_membership.
  - (* clear *)
    unfold mutClear. intro H. repeat if_inv H; inversion H; subst.
    + left. apply fence_eqb_refl.
    + b2p. right. split; [right; eapply requireActive_owner; eassumption|left; reflexivity].
  - (* abort *)
    unfold mutAbort. intro H. repeat if_inv H. inversion H; subst. clear H.
    destruct (negb (is_empty (rm_write_fence_token m))) eqn:F; cbv beta iota.
    + cbn [andb] in E1. b2p. right.
      split; [right; eapply requireActive_owner; eassumption|].
      left. match goal with |- context [if ?c then _ else _] => destruct c end; reflexivity.
    + left. match goal with |- context [if ?c then _ else _] => destruct c end;
        [apply fence_eqb_set_membership|apply fence_eqb_refl].
Qed.

(* normalizing and bumping the route generation do not touch the fence fields *)
Lemma fence_normalize m : fence_eqb m (normalizeChannelRuntimeMeta m) = true.
Proof.
  unfold normalizeChannelRuntimeMeta, fence_eqb.
  repeat match goal with |- context [if ?c then _ else _] => destruct c end;
    cbn [rm_write_fence_token rm_write_fence_version rm_write_fence_reason rm_write_fence_until_ms
         set_directory_generation set_route_generation set_replicas_isr];
    rewrite bytes_eqb_refl, !N.eqb_refl, Z.eqb_refl; reflexivity.
Qed.

Lemma fence_bump ex m had : fence_eqb m (bumpRuntimeRoute ex m had) = true.
Proof.
  unfold bumpRuntimeRoute, fence_eqb.
  repeat match goal with |- context [if ?c then _ else _] => destruct c end;
    cbn [rm_write_fence_token rm_write_fence_version rm_write_fence_reason rm_write_fence_until_ms
         set_route_generation];
    rewrite bytes_eqb_refl, !N.eqb_refl, Z.eqb_refl; reflexivity.
Qed.

Lemma fence_eqb_eq a b : fence_eqb a b = true ->
  rm_write_fence_token a = rm_write_fence_token b /\ rm_write_fence_version a = rm_write_fence_version b
  /\ rm_write_fence_reason a = rm_write_fence_reason b /\ rm_write_fence_until_ms a = rm_write_fence_until_ms b.
Proof.
  unfold fence_eqb. intro H. b2p.
  repeat split; [apply bytes_eqb_eq|apply N.eqb_eq|apply N.eqb_eq|apply Z.eqb_eq]; assumption.
Qed.

Lemma fence_eqb_trans a b c : fence_eqb a b = true -> fence_eqb b c = true -> fence_eqb a c = true.
Proof.
  intros H1 H2. apply fence_eqb_eq in H1. apply fence_eqb_eq in H2.
  destruct H1 as (A1 & A2 & A3 & A4), H2 as (B1 & B2 & B3 & B4).
  unfold fence_eqb. rewrite A1, A2, A3, A4, B1, B2, B3, B4.
  rewrite bytes_eqb_refl, !N.eqb_refl, Z.eqb_refl. reflexivity.
Qed.

Lemma fence_stored ex m : fence_eqb m (bumpRuntimeRoute ex (normalizeChannelRuntimeMeta m) true) = true.
Proof. eapply fence_eqb_trans; [apply fence_normalize|apply fence_bump]. Qed.

(* ---- C17 clause 5: every accepted task+meta step writes a valid meta row --------------------------- *)

(* what validateChannelRuntimeMeta says about a (normalized) row *)
Definition meta_wellformed (m : runtime_meta) : Prop :=
  rm_replicas m <> []
  /\ (0 < rm_min_isr m <= Z.of_nat (length (rm_replicas m)))%Z
  /\ (forall x, In x (rm_isr m) -> In x (rm_replicas m))
  /\ (rm_leader m = 0 \/ (In (rm_leader m) (rm_replicas m) /\ In (rm_leader m) (rm_isr m))).

Lemma containsUint64_In l x : containsUint64 l x = true <-> In x l.
Proof.
  unfold containsUint64. rewrite existsb_exists. split.
  - intros [y [H1 H2]]. apply N.eqb_eq in H2. subst. exact H1.
  - intro H. exists x. split; [exact H|apply N.eqb_refl].
Qed.

Theorem validate_meaning m :
  validateChannelRuntimeMeta m = true -> meta_wellformed (normalizeChannelRuntimeMeta m).
Proof.
  unfold validateChannelRuntimeMeta, meta_wellformed.
  destruct (negb (validateKeyString (rm_channel_id m))); [discriminate|].
  set (n := normalizeChannelRuntimeMeta m).
  destruct (rm_replicas n) as [|r0 rs] eqn:R; [discriminate|].
  destruct ((rm_min_isr n <=? 0)%Z || (Z.of_nat (length (r0 :: rs)) <? rm_min_isr n)%Z) eqn:E1; [discriminate|].
  destruct (negb (forallb (fun member => containsUint64 (r0 :: rs) member) (rm_isr n))) eqn:E2; [discriminate|].
  destruct (negb (rm_leader n =? 0)
            && negb (containsUint64 (r0 :: rs) (rm_leader n) && containsUint64 (rm_isr n) (rm_leader n))) eqn:E3;
    [discriminate|].
  intros _. b2p.
  split; [discriminate|]. split.
  - apply Z.leb_gt in H. apply Z.ltb_ge in H0. lia.
  - split.
    + intros x Hx. rewrite forallb_forall in E2. apply containsUint64_In. apply E2. exact Hx.
    + apply andb_false_iff in E3. destruct E3 as [E3|E3].
      * left. apply negb_false_iff in E3. apply N.eqb_eq. exact E3.
      * right. apply negb_false_iff in E3. apply andb_prop in E3. destruct E3 as [A B].
        split; apply containsUint64_In; assumption.
Qed.

(* THEOREM c17_meta_valid: whatever stageChannelMigrationTaskAndMeta writes passed
   validateChannelRuntimeMeta, and the task row passed validateChannelMigrationTask *)
Theorem stage_writes_valid d cs c cs' :
  stageChannelMigrationTaskAndMeta d cs c = Ok cs' ->
  cs' = cs
  \/ exists h t m, cmd_trans c = Some h
       /\ loadChannelMigrationTask d cs' (tguard_key (tr_guard h)) = Some t
       /\ loadRuntimeMeta d cs' (rguard_chan (tr_rguard h)) = Some m
       /\ validateChannelMigrationTask t = true /\ validateChannelRuntimeMeta m = true
       /\ meta_get (cs_pend cs') (rguard_chan (tr_rguard h)) = Some m.
Proof.
  unfold stageChannelMigrationTaskAndMeta.
  destruct (cmd_trans c) as [h|] eqn:Ht; [|discriminate].
  destruct (loadChannelMigrationTask d cs (tguard_key (tr_guard h))) as [t|] eqn:Lt; [|discriminate].
  destruct (loadRuntimeMeta d cs (rguard_chan (tr_rguard h))) as [m|] eqn:Lm; [|discriminate].
  destruct (mutate_task_meta c t m) as [[nt nm]|e] eqn:M; [|discriminate].
  destruct (negb (tguard_matches (tr_guard h) t) || negb (rguard_matches (tr_rguard h) m)) eqn:G.
  - destruct (task_eqb t nt && channelRuntimeMetaEqual m
                (bumpRuntimeRoute m (normalizeChannelRuntimeMeta nm) true)); [|discriminate].
    intro H. inversion H. left. reflexivity.
  - destruct (isTerminal t && negb (task_eqb t nt)); [discriminate|].
    destruct (negb (validateChannelMigrationTask nt)) eqn:V1; [discriminate|].
    destruct (negb (validateChannelRuntimeMeta (bumpRuntimeRoute m (normalizeChannelRuntimeMeta nm) true))) eqn:V2;
      [discriminate|].
    destruct (stageUpsertChannelMigrationTask d (cs_pend cs) nt) as [pend|e] eqn:U; [|discriminate].
    intro H. inversion H; subst cs'. clear H. right.
    exists h, nt, (bumpRuntimeRoute m (normalizeChannelRuntimeMeta nm) true).
    b2p.
    assert (K : task_key nt = tguard_key (tr_guard h)).
    { pose proof (mutate_task_meta_identity _ _ _ _ _ M) as (K & _). rewrite K. apply tguard_matches_key. assumption. }
    split; [reflexivity|]. split.
    { unfold loadChannelMigrationTask. cbn [cs_otasks].
      rewrite K, tkey_get_put, tkey_eqb_refl. reflexivity. }
    split.
    { unfold loadRuntimeMeta. cbn [cs_ometas]. rewrite chan_get_put, chan_key_eqb_refl. reflexivity. }
    split; [assumption|]. split; [assumption|].
    unfold meta_get, db_put_meta. cbn [cs_pend db_metas]. rewrite chan_get_put, chan_key_eqb_refl. reflexivity.
Qed.

(* ---- C17 clause: a terminal task is immutable by the task+meta commands ------------------------------ *)

Theorem stage_terminal_immutable d cs c cs' h t :
  cmd_trans c = Some h ->
  loadChannelMigrationTask d cs (tguard_key (tr_guard h)) = Some t ->
  isTerminal t = true ->
  stageChannelMigrationTaskAndMeta d cs c = Ok cs' ->
  loadChannelMigrationTask d cs' (tguard_key (tr_guard h)) = Some t.
Proof.
  intros Ht Lt T. unfold stageChannelMigrationTaskAndMeta. rewrite Ht, Lt.
  destruct (loadRuntimeMeta d cs (rguard_chan (tr_rguard h))) as [m|] eqn:Lm; [|discriminate].
  destruct (mutate_task_meta c t m) as [[nt nm]|e] eqn:M; [|discriminate].
  destruct (negb (tguard_matches (tr_guard h) t) || negb (rguard_matches (tr_rguard h) m)) eqn:G.
  - destruct (task_eqb t nt && channelRuntimeMetaEqual m
                (bumpRuntimeRoute m (normalizeChannelRuntimeMeta nm) true)); [|discriminate].
    intro H. inversion H; subst. exact Lt.
  - rewrite T. cbn [andb].
    destruct (task_eqb t nt) eqn:Eq; [|discriminate]. cbn [negb].
    apply task_eqb_eq in Eq. subst nt.
    destruct (negb (validateChannelMigrationTask t)); [discriminate|].
    destruct (negb (validateChannelRuntimeMeta (bumpRuntimeRoute m (normalizeChannelRuntimeMeta nm) true)));
      [discriminate|].
    destruct (stageUpsertChannelMigrationTask d (cs_pend cs) t) as [pend|e]; [|discriminate].
    intro H. inversion H; subst cs'. clear H.
    b2p. unfold loadChannelMigrationTask. cbn [cs_otasks].
    rewrite <- (tguard_matches_key _ _ H), tkey_get_put, tkey_eqb_refl. reflexivity.
Qed.
