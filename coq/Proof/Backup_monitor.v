(* Proof/Backup_monitor.v — C11: the rejection clauses of the case monitor are consequences of
   the theorems: on what the model answers, the monitor holds. *)
From WK Require Import Base.Base Base.Bytes Gen.Consts_C11 Model.Crc32 Model.Backup Model.Backup_C11.
From WK Require Import Proof.Backup Proof.Backup_import.
Open Scope N_scope.

Lemma kv_eqb_refl e : kv_eqb e e = true.
Proof. unfold kv_eqb. rewrite !(proj2 (bytes_eqb_eq _ _) eq_refl). reflexivity. Qed.
Lemma mdb_eqb_refl : forall db, mdb_eqb db db = true.
Proof. induction db as [|e r IH]; [reflexivity|]. unfold mdb_eqb in *. cbn [list_eqb]. rewrite kv_eqb_refl, IH. reflexivity. Qed.

(* message importer, empty target, no cancellation: whatever the stream and the tables are, if the
   model rejects then the rejection clause of the monitor holds on the model's answer *)
Theorem monitor_reject_msg orc stream tgt' e :
  import_reader crc None orc stream [] = (tgt', Err e) ->
  mstep_monitor (MImport true [] stream orc None (Err e) tgt') = 0.
Proof.
  intro H. destruct (import_all_or_nothing crc orc stream [] tgt' (Err e)) as [(e' & _ & Et)|(st & Es)].
  - intro key. reflexivity.
  - exact H.
  - subst tgt'. cbn [mstep_monitor all_empty forallb andb negb]. rewrite andb_false_r. reflexivity.
  - discriminate.
Qed.

(* metadata importer without token invalidation (modes 0, 1, 2), any target, no cancellation *)
Theorem monitor_reject_meta mode req stream before db' e :
  mode <= 2 ->
  import_meta crc None req (1 <=? mode) false stream before = (db', Err e) ->
  xstep_monitor (XImport mode before req stream None (Err e) db') = 0.
Proof.
  intros Hm H. cbn [xstep_monitor].
  destruct (e =? EOther) eqn:Ee; [reflexivity|]. cbn [orb].
  assert (db' = before).
  { eapply import_meta_rejected_untouched; [exact H|]. apply N.eqb_neq. exact Ee. }
  subst db'. rewrite mdb_eqb_refl. reflexivity.
Qed.

Theorem model_satisfies_monitor :
  (forall orc stream tgt' e,
     import_reader crc None orc stream [] = (tgt', Err e) ->
     mstep_monitor (MImport true [] stream orc None (Err e) tgt') = 0)
  /\ (forall mode req stream before db' e, mode <= 2 ->
        import_meta crc None req (1 <=? mode) false stream before = (db', Err e) ->
        xstep_monitor (XImport mode before req stream None (Err e) db') = 0).
Proof. split; [exact monitor_reject_msg|exact monitor_reject_meta]. Qed.
