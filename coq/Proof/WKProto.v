(* Proof/WKProto.v — lemmas about the WKProto codec model: primitives of the
   Encoder/Decoder, the remaining-length varint, the fixed header, and one
   round-trip lemma per frame type.  Composed in Proof/WKProto_frame.v. *)
From WK Require Import Base.Base Base.Bytes Gen.Consts_C22 Model.WKProto.
From Coq Require Import ZifyBool ZifyN ZifyNat.
Ltac Zify.zify_post_hook ::= Z.div_mod_to_equations.
Open Scope N_scope.

(* ---- lengths ----------------------------------------------------------------- *)

Lemma blen_nil : blen [] = 0.
Proof. reflexivity. Qed.

Lemma blen_app a b : blen (a ++ b) = blen a + blen b.
Proof. unfold blen. rewrite app_length. lia. Qed.

Lemma blen_cons x a : blen (x :: a) = 1 + blen a.
Proof. unfold blen. cbn [length]. lia. Qed.

Lemma blen_be_put w x : blen (be_put w x) = N.of_nat w.
Proof. unfold blen. rewrite be_put_length. reflexivity. Qed.

Lemma blen_put_u8 x : blen (put_u8 x) = 1.
Proof. apply blen_be_put. Qed.
Lemma blen_put_u16 x : blen (put_u16 x) = 2.
Proof. apply blen_be_put. Qed.
Lemma blen_put_u32 x : blen (put_u32 x) = 4.
Proof. apply blen_be_put. Qed.
Lemma blen_put_u64 x : blen (put_u64 x) = 8.
Proof. apply blen_be_put. Qed.

Lemma blen_zero_nil s : blen s = 0 -> s = [].
Proof. destruct s; [reflexivity|]. rewrite blen_cons. lia. Qed.

Lemma to_nat_blen s : N.to_nat (blen s) = length s.
Proof. unfold blen. apply Nnat.Nat2N.id. Qed.

(* ---- the writer --------------------------------------------------------------- *)

(* u16 length ‖ bytes *)
Definition enc_str (s : bytes) : bytes := put_u16 (blen s) ++ s.

Lemma blen_enc_str s : blen (enc_str s) = 2 + blen s.
Proof. unfold enc_str. rewrite blen_app, blen_put_u16. reflexivity. Qed.

Lemma wseq_W a b : W a +> W b = W (a ++ b).
Proof. reflexivity. Qed.

Lemma if_W (c : bool) a : (if c then W a else W []) = W (if c then a else []).
Proof. destruct c; reflexivity. Qed.

Lemma WriteString_ok s : str_ok s = true -> WriteString s = W (enc_str s).
Proof.
  unfold str_ok, WriteString, enc_str. intro H.
  destruct (blen s =? 0) eqn:Z.
  - apply N.eqb_eq in Z. rewrite (blen_zero_nil s Z). reflexivity.
  - assert (L : (MaxInt16 <? blen s) = false) by lia. rewrite L. reflexivity.
Qed.

Lemma WriteString_panics s : str_ok s = false -> WriteString s = WPanic.
Proof.
  unfold str_ok, WriteString. intro H.
  assert (Z : (blen s =? 0) = false) by (unfold MaxInt16 in *; lia). rewrite Z.
  assert (L : (MaxInt16 <? blen s) = true) by lia. rewrite L. reflexivity.
Qed.

Definition seq_bytes (v x : N) : bytes :=
  if v <=? LegacyMessageSeqVersion then put_u32 x else put_u64 x.

Lemma encodeMessageSeq_ok v x : seq_ok v x = true -> encodeMessageSeq v x = W (seq_bytes v x).
Proof.
  unfold seq_ok, encodeMessageSeq, seq_bytes, u32, u64.
  destruct (v <=? LegacyMessageSeqVersion); intro H; [|reflexivity].
  assert (L : (u32max <? x) = false) by lia. rewrite L. reflexivity.
Qed.

Lemma blen_seq_bytes v x : blen (seq_bytes v x) = messageSeqSize v.
Proof.
  unfold seq_bytes, messageSeqSize. destruct (v <=? LegacyMessageSeqVersion).
  - rewrite blen_put_u32. reflexivity.
  - rewrite blen_put_u64. reflexivity.
Qed.

(* ---- the reader ---------------------------------------------------------------- *)

Lemma dUint8_put x r : u8 x = true -> dUint8 (put_u8 x ++ r) = Some (x, r).
Proof.
  unfold u8. intro H. unfold put_u8, be_put. cbn [le_put rev app dUint8].
  rewrite N.mod_small by lia. reflexivity.
Qed.

Lemma dInt16_put x r : x < 65536 -> dInt16 (put_u16 x ++ r) = Some (x, r).
Proof. intro H. unfold dInt16, put_u16. apply get_be_put. exact H. Qed.

Lemma dUint32_put x r : u32 x = true -> dUint32 (put_u32 x ++ r) = Some (x, r).
Proof. unfold u32, u32max. intro H. unfold dUint32, put_u32. apply get_be_put. cbn. lia. Qed.

Lemma dUint64_put x r : u64 x = true -> dUint64 (put_u64 x ++ r) = Some (x, r).
Proof. unfold u64, u64max. intro H. unfold dUint64, put_u64. apply get_be_put. cbn. lia. Qed.

Lemma dString_enc s r : str_ok s = true -> dString (enc_str s ++ r) = Some (s, r).
Proof.
  unfold str_ok. intro H. unfold dString, dBinary, enc_str. rewrite <- app_assoc.
  assert (B : blen s <= 32767) by (unfold MaxInt16 in H; lia).
  rewrite dInt16_put by lia.
  assert (L : (int16_max <? blen s) = false) by (unfold int16_max; lia). rewrite L.
  rewrite to_nat_blen. apply take_app. reflexivity.
Qed.

Lemma decodeMessageSeq_bytes v x r :
  seq_ok v x = true -> decodeMessageSeq (seq_bytes v x ++ r) v = Some (x, r).
Proof.
  unfold seq_ok, decodeMessageSeq, seq_bytes.
  destruct (v <=? LegacyMessageSeqVersion); intro H.
  - apply dUint32_put. exact H.
  - apply dUint64_put. exact H.
Qed.

Lemma wrap32_small x : u32 x = true -> wrap32 x = x.
Proof. unfold u32, u32max, wrap32. intro H. apply N.mod_small. lia. Qed.

(* ---- remaining-length varint ---------------------------------------------------- *)

Lemma encodeVariable_aux_zero fuel : encodeVariable_aux fuel 0 = [].
Proof. destruct fuel; reflexivity. Qed.

Lemma decodeLength_aux_enc : forall k fuel n mult off acc r,
  (k <= fuel)%nat -> 0 < n -> n < 128 ^ N.of_nat k ->
  decodeLength_aux k (encodeVariable_aux fuel n ++ r) mult off acc
  = Some (acc + n * 2 ^ mult, off + blen (encodeVariable_aux fuel n)).
Proof.
  induction k as [|k IH]; intros fuel n mult off acc r Hk Hn Hlt.
  - cbn in Hlt. lia.
  - destruct fuel as [|fuel]; [lia|].
    cbn [encodeVariable_aux].
    assert (Z : (n =? 0) = false) by lia. rewrite Z.
    destruct (0 <? n / 128) eqn:Q.
    + (* continuation digit *)
      cbn [app decodeLength_aux].
      assert (C : cont_bit (n mod 128 + 128) = true).
      { unfold cont_bit. apply N.eqb_eq.
        replace (n mod 128 + 128) with (n mod 128 + 1 * 128) by lia.
        rewrite N.div_add by discriminate.
        rewrite (N.div_small (n mod 128) 128) by (apply N.mod_lt; discriminate). reflexivity. }
      rewrite C. cbn [negb].
      assert (M : (n mod 128 + 128) mod 128 = n mod 128).
      { replace (n mod 128 + 128) with (n mod 128 + 1 * 128) by lia.
        rewrite N.mod_add by discriminate. apply N.mod_small. apply N.mod_lt. discriminate. }
      rewrite M.
      assert (Hk' : (k <= fuel)%nat) by lia.
      assert (Hn' : 0 < n / 128) by lia.
      assert (Hlt' : n / 128 < 128 ^ N.of_nat k).
      { rewrite Nnat.Nat2N.inj_succ, N.pow_succ_r' in Hlt.
        apply N.div_lt_upper_bound; [discriminate|exact Hlt]. }
      rewrite (IH fuel (n / 128) (mult + 7) (off + 1) (acc + n mod 128 * 2 ^ mult) r Hk' Hn' Hlt').
      apply f_equal. apply f_equal2.
      * rewrite N.pow_add_r. change (2 ^ 7) with 128.
        pose proof (N.div_mod n 128). nia.
      * rewrite blen_cons. lia.
    + (* last digit *)
      assert (Q0 : n / 128 = 0) by lia.
      rewrite Q0, encodeVariable_aux_zero.
      cbn [app decodeLength_aux].
      assert (S : n < 128).
      { destruct (N.lt_ge_cases n 128) as [L|G]; [exact L|].
        assert (1 <= n / 128) by (apply N.div_le_lower_bound; [discriminate|lia]). lia. }
      assert (C : cont_bit (n mod 128) = false).
      { unfold cont_bit. rewrite (N.mod_small n 128 S), (N.div_small n 128 S). reflexivity. }
      rewrite C. cbn [negb].
      rewrite N.mod_mod by discriminate. rewrite (N.mod_small n 128 S).
      rewrite blen_cons, blen_nil. apply f_equal. apply f_equal2; lia.
Qed.

Lemma decodeLength_enc n r : 0 < n -> n < 268435456 ->
  decodeLength (encodeVariable2 n ++ r) = Some (n, blen (encodeVariable2 n)).
Proof.
  intros Hn Hlt. unfold decodeLength, encodeVariable2.
  rewrite (decodeLength_aux_enc 4 5 n 0 0 0 r); [|lia|exact Hn|exact Hlt].
  apply f_equal. apply f_equal2; [|lia]. change (2 ^ 0) with 1. lia.
Qed.

(* every digit but the last has the continuation bit: a strict prefix of the
   varint is always incomplete (used by C23) *)
Lemma encodeVariable2_nonempty n : 0 < n -> encodeVariable2 n <> [].
Proof.
  intro H. unfold encodeVariable2. cbn [encodeVariable_aux].
  assert (Z : (n =? 0) = false) by lia. rewrite Z. discriminate.
Qed.

(* ---- fixed header: finite ---------------------------------------------------------- *)

Definition all_flags : list flags :=
  flat_map (fun a => flat_map (fun b => flat_map (fun c => flat_map (fun d =>
    [Flags a b c d true; Flags a b c d false]) [true; false]) [true; false]) [true; false]) [true; false].

Lemma all_flags_complete fl : In fl all_flags.
Proof. destruct fl as [[] [] [] [] []]; vm_compute; tauto. Qed.

Definition frame_types : list N :=
  [CONNECT; CONNACK; SEND; SENDACK; RECV; RECVACK; PING; PONG; DISCONNECT; SUB; SUBACK; EVENT].

Lemma frame_type_in f : In (frame_type f) frame_types.
Proof. destruct f; vm_compute; tauto. Qed.

Definition framer_eqb (a b : N * flags) : bool := (fst a =? fst b) && flags_eqb (snd a) (snd b).

Lemma flags_eqb_eq a b : flags_eqb a b = true <-> a = b.
Proof.
  destruct a as [a1 a2 a3 a4 a5], b as [b1 b2 b3 b4 b5]. unfold flags_eqb. cbn [f_nopersist f_reddot f_synconce f_dup f_hsv].
  split.
  - intro H. repeat (apply andb_true_iff in H; destruct H as [H ?]).
    repeat match goal with E : Bool.eqb _ _ = true |- _ => apply Bool.eqb_prop in E end.
    subst. reflexivity.
  - intro H. inversion H; subst. rewrite !Bool.eqb_reflx. reflexivity.
Qed.

Lemma header_roundtrip_fin :
  forallb (fun ft => forallb (fun fl =>
     framer_eqb (FramerFromUint8 (fix_header ft fl)) (ft, normalize_flags ft fl)
     || (ft =? PING) || (ft =? PONG)) all_flags) frame_types = true.
Proof. vm_compute. reflexivity. Qed.

Lemma header_roundtrip f : is_pingpong f = false ->
  FramerFromUint8 (ToFixHeaderUint8 f) = (frame_type f, normalize_flags (frame_type f) (frame_flags f)).
Proof.
  intro NP. unfold ToFixHeaderUint8.
  pose proof header_roundtrip_fin as H. rewrite forallb_forall in H.
  specialize (H _ (frame_type_in f)). rewrite forallb_forall in H.
  specialize (H _ (all_flags_complete (frame_flags f))).
  unfold is_pingpong in NP. apply orb_false_iff in NP. destruct NP as [N1 N2].
  rewrite N1, N2, !orb_false_r in H.
  unfold framer_eqb in H. apply andb_true_iff in H. destruct H as [H1 H2].
  apply N.eqb_eq in H1. apply flags_eqb_eq in H2.
  destruct (FramerFromUint8 (fix_header (frame_type f) (frame_flags f))) as [a b].
  cbn [fst snd] in H1, H2. subst. reflexivity.
Qed.

(* every header byte: re-encoding the decoded framer gives the byte back, except
   that CONNACK only keeps bit 0 of the flag nibble *)
Lemma header_bytes_fin :
  forallb (fun i => let b := N.of_nat i in
     let '(ft, fl) := FramerFromUint8 b in
     fix_header ft fl =? (if ft =? CONNACK then b - b mod 16 + b mod 2 else b)) (seq 0 256) = true.
Proof. vm_compute. reflexivity. Qed.

Lemma header_bytes b : b < 256 ->
  fix_header (fst (FramerFromUint8 b)) (snd (FramerFromUint8 b))
  = if fst (FramerFromUint8 b) =? CONNACK then b - b mod 16 + b mod 2 else b.
Proof.
  intro H. pose proof header_bytes_fin as F. rewrite forallb_forall in F.
  specialize (F (N.to_nat b)). rewrite Nnat.N2Nat.id in F.
  assert (I : In (N.to_nat b) (seq 0 256)) by (apply in_seq; lia).
  specialize (F I). cbv zeta in F.
  destruct (FramerFromUint8 b) as [ft fl] eqn:E. cbn [fst snd].
  apply N.eqb_eq. exact F.
Qed.
