(* Proof/MsgStore_discard.v — the paged compat DiscardForRestore (C09).

   The call commits SEVERAL batches: one per page (the rows of the page with all
   their secondary index entries, stageDeleteMessage) and a terminal one (range
   delete of the channel partition + catalog row).  Each of them preserves the
   index invariant [IdxInv] = the monitor's per-binding check [chk_entry]: no
   index entry dangles, every stored row has its index entries (ids / pairs
   tainted by a trusted duplicate excepted).  Hence every store a crash inside
   the call can recover to satisfies it, and after the call no key of the
   channel is left. *)
From WK Require Import Base.Base Model.KV Gen.Consts_C07 Model.MsgStore Model.MsgStore_C07 Model.MsgStore_C09
     Proof.KV Proof.MsgStore_base.

Definition IdxInv (kv : kvs) (t : aspec) : Prop :=
  forall k v, kget k kv = Some v -> chk_entry kv t (k, v) = true.

Lemma IdxInv_forallb kv t : swf kv -> (IdxInv kv t <-> forallb (chk_entry kv t) kv = true).
Proof.
  intro W. rewrite forallb_forall. split.
  - intros H [k v] Hin. apply H. apply (kin_iff_get _ _ _ W). exact Hin.
  - intros H k v G. apply H. apply (kin_iff_get _ _ _ W). exact G.
Qed.

(* what the check of a stored row says *)
Record row_chk (kv : kvs) (t : aspec) (c q : N) (r : row) : Prop := {
  rk_seq : r_seq r = q;
  rk_ch : r_ch r = c;
  rk_id : r_id r <> 0;
  rk_static : (r_hash r =? hashPayload (r_payload r)) && (1 <=? q) && mem_N c all_chans = true;
  rk_gid : mem_N (r_id r) (as_tids t) = true \/ kget (KyGid (r_id r)) kv = Some (VGid c q);
  rk_cidx : (negb (is_nil (r_cno r)) && is_nil (r_uid r)) = true -> has_key kv (KyCidx c (r_cno r) q) = true;
  rk_idem : both_nonempty (r_uid r) (r_cno r) = true -> pair_tainted (as_log t c) (r_uid r) (r_cno r) = false ->
            exists i h, kget (KyIdem c (r_cno r) (r_uid r)) kv = Some (VIdem q i h) /\ i = r_id r /\ h = r_hash r;
  rk_sseq : (negb (is_nil (r_uid r)) && (N.land (r_flags r) syncOnceFlag =? 0)) = true -> has_key kv (KySseq c (r_uid r) q) = true;
  rk_ret : match loadRetentionState kv c with Some (_, p, _) => p <? q | None => true end = true }.

Lemma row_chk_iff kv t c q r : chk_entry kv t (KyRow c q, VRow r) = true <-> row_chk kv t c q r.
Proof.
  cbn [chk_entry]. split.
  - intro H.
    apply andb_true_iff in H. destruct H as [H Hret].
    apply andb_true_iff in H. destruct H as [H Hsseq].
    apply andb_true_iff in H. destruct H as [H Hidem].
    apply andb_true_iff in H. destruct H as [H Hcidx].
    apply andb_true_iff in H. destruct H as [H Hgid].
    apply andb_true_iff in H. destruct H as [H Hmem].
    apply andb_true_iff in H. destruct H as [H Hone].
    apply andb_true_iff in H. destruct H as [H Hhash].
    apply andb_true_iff in H. destruct H as [H Hid].
    apply andb_true_iff in H. destruct H as [Hseq Hch].
    constructor.
    + apply N.eqb_eq. exact Hseq.
    + apply N.eqb_eq. exact Hch.
    + apply negb_true_iff, N.eqb_neq in Hid. exact Hid.
    + rewrite Hhash, Hone, Hmem. reflexivity.
    + apply orb_true_iff in Hgid. destruct Hgid as [X|X]; [left; exact X|right].
      destruct (kget (KyGid (r_id r)) kv) as [[| c' q' | | | |]|]; try discriminate.
      apply andb_true_iff in X. destruct X as [A B]. apply N.eqb_eq in A, B. subst. reflexivity.
    + intro E. rewrite E in Hcidx. exact Hcidx.
    + intros E1 E2. rewrite E1, E2 in Hidem. cbn [negb orb] in Hidem.
      destruct (kget (KyIdem c (r_cno r) (r_uid r)) kv) as [[| | | q' i' h' | |]|]; try discriminate.
      apply andb_true_iff in Hidem. destruct Hidem as [X X3]. apply andb_true_iff in X. destruct X as [X1 X2].
      apply N.eqb_eq in X1, X2, X3. subst. eexists _, _. split; [reflexivity|split; reflexivity].
    + intro E. rewrite E in Hsseq. exact Hsseq.
    + exact Hret.
  - intros [H1 H2 H3 H4 H5 H6 H7 H8 H9].
    apply andb_true_iff in H4. destruct H4 as [H4 Hmem]. apply andb_true_iff in H4. destruct H4 as [Hhash Hone].
    rewrite (proj2 (N.eqb_eq _ _) H1), (proj2 (N.eqb_eq _ _) H2), (proj2 (N.eqb_neq _ _) H3), Hhash, Hone, Hmem, H9.
    cbn [negb andb]. rewrite !andb_true_r.
    repeat (apply andb_true_iff; split).
    + apply orb_true_iff. destruct H5 as [H5|H5]; [left; exact H5|right]. rewrite H5, !N.eqb_refl. reflexivity.
    + destruct (negb (is_nil (r_cno r)) && is_nil (r_uid r)); [cbn [negb orb]; apply H6; reflexivity|reflexivity].
    + destruct (both_nonempty (r_uid r) (r_cno r)); [cbn [negb orb]|reflexivity].
      destruct (pair_tainted (as_log t c) (r_uid r) (r_cno r)); [reflexivity|cbn [orb]].
      destruct (H7 eq_refl eq_refl) as [i [h [G [-> ->]]]]. rewrite G, !N.eqb_refl. reflexivity.
    + destruct (negb (is_nil (r_uid r)) && _); [cbn [negb orb]; apply H8; reflexivity|reflexivity].
Qed.

(* ---- removing bindings: when does the invariant survive? ------------------------------------------------ *)
Lemma IdxInv_shrink kv kv' t :
  (forall k v, kget k kv' = Some v -> kget k kv = Some v) ->
  (forall i c q, kget (KyGid i) kv' = Some (VGid c q) -> kget (KyRow c q) kv' = kget (KyRow c q) kv) ->
  (forall c n q v, kget (KyCidx c n q) kv' = Some v -> kget (KyRow c q) kv' = kget (KyRow c q) kv) ->
  (forall c n u q i h, kget (KyIdem c n u) kv' = Some (VIdem q i h) -> kget (KyRow c q) kv' = kget (KyRow c q) kv) ->
  (forall c u q v, kget (KySseq c u q) kv' = Some v -> kget (KyRow c q) kv' = kget (KyRow c q) kv) ->
  (forall c q r, kget (KyRow c q) kv' = Some (VRow r) ->
     (mem_N (r_id r) (as_tids t) = true \/ kget (KyGid (r_id r)) kv' = kget (KyGid (r_id r)) kv)
     /\ kget (KyCidx c (r_cno r) q) kv' = kget (KyCidx c (r_cno r) q) kv
     /\ (pair_tainted (as_log t c) (r_uid r) (r_cno r) = true
         \/ kget (KyIdem c (r_cno r) (r_uid r)) kv' = kget (KyIdem c (r_cno r) (r_uid r)) kv)
     /\ kget (KySseq c (r_uid r) q) kv' = kget (KySseq c (r_uid r) q) kv
     /\ kget (KyRet c) kv' = kget (KyRet c) kv) ->
  IdxInv kv t -> IdxInv kv' t.
Proof.
  intros Hsub Hg Hc Hi Hs Hr HI k v G'.
  pose proof (HI k v (Hsub k v G')) as Hk.
  destruct k as [c q|i|c n q|c n u|c u q|c|c|c o e|c|c x]; try exact Hk.
  - (* row *)
    destruct v as [r| | | | |]; try exact Hk.
    apply row_chk_iff. apply row_chk_iff in Hk. destruct Hk as [K1 K2 K3 K4 K5 K6 K7 K8 K9].
    destruct (Hr c q r G') as [Eg [Ec [Ei [Es Er]]]].
    constructor; try assumption.
    + destruct K5 as [K5|K5]; [left; exact K5|]. destruct Eg as [Eg|Eg]; [left; exact Eg|right]. rewrite Eg. exact K5.
    + intro E. unfold has_key. rewrite Ec. apply K6. exact E.
    + intros E1 E2. destruct Ei as [Ei|Ei]; [congruence|]. rewrite Ei. apply K7; assumption.
    + intro E. unfold has_key. rewrite Es. apply K8. exact E.
    + unfold loadRetentionState. rewrite Er. exact K9.
  - destruct v as [|c q| | | |]; try exact Hk. cbn [chk_entry] in *. rewrite (Hg i c q G'). exact Hk.
  - cbn [chk_entry] in *. rewrite (Hc c n q v G'). exact Hk.
  - destruct v as [| | |q i h| |]; try exact Hk. cbn [chk_entry] in *. rewrite (Hi c n u q i h G'). exact Hk.
  - cbn [chk_entry] in *. rewrite (Hs c u q v G'). exact Hk.
Qed.

(* ---- one row with all its index entries ------------------------------------------------------------------- *)
Lemma all_del_stage c r : all_del (stageDeleteMessage c r).
Proof.
  unfold stageDeleteMessage. repeat apply all_del_app;
    repeat match goal with |- context [if ?b then _ else _] => destruct b end; repeat constructor.
Qed.

Lemma in_stage_dels c r k :
  In k (del_keys (stageDeleteMessage c r)) <->
  k = KyRow c (r_seq r)
  \/ (r_id r <> 0 /\ k = KyGid (r_id r))
  \/ (r_cno r <> [] /\ r_uid r = [] /\ k = KyCidx c (r_cno r) (r_seq r))
  \/ (r_uid r <> [] /\ r_cno r <> [] /\ k = KyIdem c (r_cno r) (r_uid r))
  \/ (r_uid r <> [] /\ k = KySseq c (r_uid r) (r_seq r)).
Proof.
  unfold stageDeleteMessage. rewrite !del_keys_app, !in_app_iff.
  destruct (r_id r =? 0) eqn:Ei; [apply N.eqb_eq in Ei|apply N.eqb_neq in Ei];
  destruct (r_cno r) as [|cb cr] eqn:Ec; destruct (r_uid r) as [|ub ur] eqn:Eu; cbn;
  intuition (try congruence; try discriminate; auto).
Qed.

Lemma kget_after_dels (kv : kvs) b k : all_del b ->
  (In k (del_keys b) -> kget k (kapply kv b) = None) /\ (~ In k (del_keys b) -> kget k (kapply kv b) = kget k kv).
Proof.
  intro A. rewrite kget_apply, (keff_dels k b A). split; intro H.
  - apply existsb_key_in in H. rewrite H. reflexivity.
  - apply existsb_key_notin in H. rewrite H. reflexivity.
Qed.

Lemma IdxInv_row kv t c q r :
  IdxInv kv t -> kget (KyRow c q) kv = Some (VRow r) -> row_chk kv t c q r.
Proof. intros HI G. apply row_chk_iff. apply HI. exact G. Qed.

Lemma del_row_IdxInv kv t c q r :
  IdxInv kv t -> kget (KyRow c q) kv = Some (VRow r) ->
  IdxInv (kapply kv (stageDeleteMessage c r)) t.
Proof.
  intros HI G0. pose proof (IdxInv_row _ _ _ _ _ HI G0) as K0.
  assert (Eq : r_seq r = q) by apply K0.
  set (b := stageDeleteMessage c r).
  pose proof (fun k => kget_after_dels kv b k (all_del_stage c r)) as GD.
  assert (Hsub : forall k v, kget k (kapply kv b) = Some v -> ~ In k (del_keys b) /\ kget k kv = Some v).
  { intros k v G. destruct (existsb (key_eqb k) (del_keys b)) eqn:X; [apply existsb_key_in in X; rename X into Hin|apply existsb_key_notin in X; rename X into Hn].
    - rewrite (proj1 (GD k) Hin) in G. discriminate.
    - split; [exact Hn|]. rewrite <- (proj2 (GD k) Hn). exact G. }
  (* the only row key removed is (c, q) *)
  assert (Hrow : forall c' q', In (KyRow c' q') (del_keys b) -> c' = c /\ q' = q).
  { intros c' q' Hin. apply in_stage_dels in Hin.
    destruct Hin as [E|[[_ E]|[[_ [_ E]]|[[_ [_ E]]|[_ E]]]]]; try discriminate E. injection E as -> ->. split; [reflexivity|exact Eq]. }
  assert (Hrowkeep : forall c' q', (c', q') <> (c, q) -> kget (KyRow c' q') (kapply kv b) = kget (KyRow c' q') kv).
  { intros c' q' Hne. apply (GD (KyRow c' q')). intro Hin. apply Hrow in Hin. destruct Hin as [-> ->]. apply Hne. reflexivity. }
  apply (IdxInv_shrink kv); [| | | | | |exact HI].
  - intros k v G. apply (Hsub k v G).
  - (* gid *)
    intros i c' q' G. destruct (Hsub _ _ G) as [Hn G1]. apply Hrowkeep. intro E. injection E as -> ->.
    pose proof (HI _ _ G1) as Hk. cbn [chk_entry] in Hk. rewrite G0 in Hk. apply N.eqb_eq in Hk.
    apply Hn. apply in_stage_dels. right. left. split; [apply K0|rewrite Hk; reflexivity].
  - (* cidx *)
    intros c' n q' v G. destruct (Hsub _ _ G) as [Hn G1]. apply Hrowkeep. intro E. injection E as -> ->.
    pose proof (HI _ _ G1) as Hk. cbn [chk_entry] in Hk. rewrite G0 in Hk.
    apply andb_true_iff in Hk. destruct Hk as [Hk H3]. apply andb_true_iff in Hk. destruct Hk as [H1 H2].
    apply Hn. apply in_stage_dels. right. right. left.
    assert (E1 : r_cno r = n) by (destruct (bytes_eqb (r_cno r) n) eqn:X; [|discriminate]; destruct (list_eq_dec N.eq_dec (r_cno r) n) as [Y|Y]; [exact Y|rewrite (bytes_eqb_neq _ _ Y) in X; discriminate]).
    apply is_nil_true in H2. apply negb_true_iff, is_nil_false in H3.
    split; [rewrite E1; exact H3|]. split; [exact H2|]. rewrite E1, Eq. reflexivity.
  - (* idem *)
    intros c' n u q' i h G. destruct (Hsub _ _ G) as [Hn G1]. apply Hrowkeep. intro E. injection E as -> ->.
    pose proof (HI _ _ G1) as Hk. cbn [chk_entry] in Hk. rewrite G0 in Hk.
    repeat (apply andb_true_iff in Hk; destruct Hk as [Hk ?]).
    assert (E1 : r_cno r = n) by (destruct (list_eq_dec N.eq_dec (r_cno r) n) as [Y|Y]; [exact Y|rewrite (bytes_eqb_neq _ _ Y) in Hk; discriminate]).
    assert (E2 : r_uid r = u) by (destruct (list_eq_dec N.eq_dec (r_uid r) u) as [Y|Y]; [exact Y|rewrite (bytes_eqb_neq _ _ Y) in *; discriminate]).
    apply Hn. apply in_stage_dels. right. right. right. left.
    repeat match goal with X : negb (is_nil _) = true |- _ => apply negb_true_iff, is_nil_false in X end.
    subst n u. repeat split; assumption.
  - (* sseq *)
    intros c' u q' v G. destruct (Hsub _ _ G) as [Hn G1]. apply Hrowkeep. intro E. injection E as -> ->.
    pose proof (HI _ _ G1) as Hk. cbn [chk_entry] in Hk. rewrite G0 in Hk.
    repeat (apply andb_true_iff in Hk; destruct Hk as [Hk ?]).
    assert (E2 : r_uid r = u) by (destruct (list_eq_dec N.eq_dec (r_uid r) u) as [Y|Y]; [exact Y|rewrite (bytes_eqb_neq _ _ Y) in Hk; discriminate]).
    apply Hn. apply in_stage_dels. right. right. right. right.
    match goal with X : negb (is_nil _) = true |- _ => apply negb_true_iff, is_nil_false in X end.
    subst u. split; [assumption|rewrite Eq; reflexivity].
  - (* a surviving row keeps its entries *)
    intros c' q' r' G. destruct (Hsub _ _ G) as [Hn G1].
    pose proof (IdxInv_row _ _ _ _ _ HI G1) as K1.
    assert (Hne : (c', q') <> (c, q)).
    { intro E. injection E as -> ->. apply Hn. apply in_stage_dels. left. rewrite Eq. reflexivity. }
    assert (keep : forall k, (In k (del_keys b) -> False) -> kget k (kapply kv b) = kget k kv) by (intros k Hk; apply (GD k); exact Hk).
    split; [|split; [|split; [|split]]].
    + destruct (rk_gid _ _ _ _ _ K1) as [T|Gg]; [left; exact T|].
      destruct (rk_gid _ _ _ _ _ K0) as [T|Gg0].
      * destruct (N.eq_dec (r_id r') (r_id r)) as [E|E]; [left; rewrite E; exact T|].
        right. apply keep. intro Hin. apply in_stage_dels in Hin.
        destruct Hin as [X|[[_ X]|[[_ [_ X]]|[[_ [_ X]]|[_ X]]]]]; try discriminate X. injection X as X. contradiction.
      * right. apply keep. intro Hin. apply in_stage_dels in Hin.
        destruct Hin as [X|[[_ X]|[[_ [_ X]]|[[_ [_ X]]|[_ X]]]]]; try discriminate X. injection X as X.
        rewrite X, Gg0 in Gg. injection Gg as -> ->. apply Hne. reflexivity.
    + apply keep. intro Hin. apply in_stage_dels in Hin.
      destruct Hin as [X|[[_ X]|[[_ [_ X]]|[[_ [_ X]]|[_ X]]]]]; try discriminate X. injection X as -> _ ->.
      apply Hne. rewrite Eq. reflexivity.
    + destruct (pair_tainted (as_log t c') (r_uid r') (r_cno r')) eqn:T; [left; reflexivity|right].
      apply keep. intro Hin. apply in_stage_dels in Hin.
      destruct Hin as [X|[[_ X]|[[_ [_ X]]|[[Hu [Hc X]]|[_ X]]]]]; try discriminate X.
      * injection X as -> Ec Eu.
        assert (B : both_nonempty (r_uid r) (r_cno r) = true).
        { unfold both_nonempty. apply is_nil_false in Hu, Hc. rewrite Hu, Hc. reflexivity. }
        assert (B' : both_nonempty (r_uid r') (r_cno r') = true) by (rewrite Ec, Eu; exact B).
        rewrite Ec, Eu in T.
        destruct (rk_idem _ _ _ _ _ K0 B T) as [i0 [h0 [G2 _]]].
        rewrite <- Ec, <- Eu in T.
        destruct (rk_idem _ _ _ _ _ K1 B' T) as [i1 [h1 [G3 _]]].
        rewrite Ec, Eu, G2 in G3. injection G3 as -> _ _. apply Hne. reflexivity.
    + apply keep. intro Hin. apply in_stage_dels in Hin.
      destruct Hin as [X|[[_ X]|[[_ [_ X]]|[[_ [_ X]]|[_ X]]]]]; try discriminate X. injection X as -> _ ->.
      apply Hne. rewrite Eq. reflexivity.
    + apply keep. intro Hin. apply in_stage_dels in Hin.
      destruct Hin as [X|[[_ X]|[[_ [_ X]]|[[_ [_ X]]|[_ X]]]]]; discriminate X.
Qed.

(* ---- list facts --------------------------------------------------------------------------------------------- *)
From Coq Require Import Sorting.Permutation Sorting.Sorted.

Lemma read_loop_prefix lim mb l : forall acc tot res,
  read_loop l lim mb acc tot = ok res ->
  exists taken rest, l = taken ++ rest /\ res = rev acc ++ taken /\ (l <> [] -> acc = [] -> taken <> []).
Proof.
  induction l as [|r l IH]; intros acc tot res H; cbn [read_loop] in H.
  - injection H as <-. exists [], []. rewrite !app_nil_r. split; [reflexivity|]. split; [reflexivity|]. intro X. contradiction.
  - destruct (validateMaterializedMessageRow r); [|discriminate H].
    destruct ((0 <? mb)%Z && negb (is_nil_rows acc) && (mb <? tot + Z.of_nat (length (r_payload r)))%Z) eqn:Eb.
    { injection H as <-. exists [], (r :: l). rewrite !app_nil_r. split; [reflexivity|]. split; [reflexivity|]. intros _ ->.
      cbn in Eb. rewrite andb_false_r in Eb. discriminate. }
    destruct ((0 <? lim)%Z && (lim <=? Z.of_nat (length (r :: acc)))%Z).
    { injection H as <-. exists [r], l. cbn [rev]. split; [reflexivity|]. split; [reflexivity|]. intros _ _; discriminate. }
    destruct (IH _ _ _ H) as [taken [rest [E1 [E2 _]]]]. exists (r :: taken), rest.
    split; [rewrite E1; reflexivity|]. split; [rewrite E2; cbn [rev]; rewrite <- app_assoc; reflexivity|intros _ _; discriminate].
Qed.

Lemma sorted_le_filter {A} (f : A -> N) p l : sorted_le f l -> sorted_le f (filter p l).
Proof.
  unfold sorted_le. induction 1 as [|x l Hs IH Ha]; cbn [filter]; [constructor|].
  destruct (p x); [|exact IH]. constructor; [exact IH|].
  apply Forall_forall. intros y Hy. apply filter_In in Hy. eapply Forall_forall in Ha; [exact Ha|apply Hy].
Qed.

Lemma sorted_le_app {A} (f : A -> N) a : forall b, sorted_le f (a ++ b) -> forall x y, In x a -> In y b -> f x <= f y.
Proof.
  unfold sorted_le. induction a as [|h a IH]; intros b Hs x y Hx Hy; [destruct Hx|].
  cbn [app] in Hs. inversion Hs as [|? ? Hs' Ha]; subst. destruct Hx as [<-|Hx].
  - eapply Forall_forall in Ha; [exact Ha|apply in_or_app; right; exact Hy].
  - eapply IH; eassumption.
Qed.

Lemma NoDup_map_filter {A} (f : A -> N) p l : NoDup (map f l) -> NoDup (map f (filter p l)).
Proof.
  induction l as [|x l IH]; cbn [map filter]; intro H; [constructor|].
  inversion H as [|? ? Hn Hl]; subst. destruct (p x); [|apply IH; exact Hl].
  cbn [map]. constructor; [|apply IH; exact Hl].
  intro Hin. apply Hn. apply in_map_iff in Hin. destruct Hin as [y [E Hy]]. apply filter_In in Hy.
  apply in_map_iff. exists y. split; [exact E|apply Hy].
Qed.

(* rows of a store whose row values carry their key's sequence have pairwise different sequences *)
Lemma rows_unsorted_nodup (kv : kvs) c :
  swf kv -> (forall q r, In (KyRow c q, VRow r) kv -> r_seq r = q) -> NoDup (map r_seq (rows_unsorted kv c)).
Proof.
  unfold swf, wf, keys, rows_unsorted. induction kv as [|[k v] kv IH]; intros W Hq; cbn [flat_map map]; [constructor|].
  cbn [map fst] in W. inversion W as [|? ? Hn Wl]; subst.
  assert (IH' : NoDup (map r_seq (flat_map (fun kv0 : key * value =>
            match kv0 with (KyRow c' _, VRow r) => if c' =? c then [r] else [] | _ => [] end) kv))).
  { apply IH; [exact Wl|]. intros q r Hin. apply Hq. right. exact Hin. }
  destruct k as [c' q| | | | | | | | |]; try exact IH'. destruct v as [r| | | | |]; try exact IH'.
  destruct (c' =? c) eqn:E; [|exact IH']. apply N.eqb_eq in E. subst c'. cbn [app map].
  constructor; [|exact IH'].
  intro Hin. apply in_map_iff in Hin. destruct Hin as [r' [E' Hr']].
  apply in_flat_map in Hr'. destruct Hr' as [[k2 v2] [Hin2 Hr2]].
  destruct k2 as [c2 q2| | | | | | | | |]; try contradiction. destruct v2 as [r2| | | | |]; try contradiction.
  destruct (c2 =? c) eqn:E2; [|contradiction]. apply N.eqb_eq in E2. subst c2. destruct Hr2 as [<-|[]].
  assert (r_seq r2 = q2) by (apply Hq; right; exact Hin2).
  assert (r_seq r = q) by (apply Hq; left; reflexivity).
  apply Hn. apply in_map_iff. exists (KyRow c q2, VRow r2). split; [cbn [fst]; f_equal; congruence|exact Hin2].
Qed.

(* ---- a page: several stored rows -------------------------------------------------------------------------------- *)
Lemma del_rows_IdxInv t c : forall rows kv,
  IdxInv kv t -> NoDup (map r_seq rows) ->
  (forall r, In r rows -> kget (KyRow c (r_seq r)) kv = Some (VRow r)) ->
  IdxInv (kapply kv (flat_map (stageDeleteMessage c) rows)) t.
Proof.
  induction rows as [|r rows IH]; intros kv HI Hn Hst; [exact HI|].
  cbn [flat_map]. unfold kapply. rewrite apply_batch_app. fold (kapply kv (stageDeleteMessage c r)).
  fold (kapply (kapply kv (stageDeleteMessage c r)) (flat_map (stageDeleteMessage c) rows)).
  cbn [map] in Hn. inversion Hn as [|? ? Hnr Hn']; subst.
  apply IH; [|exact Hn'|].
  - apply (del_row_IdxInv kv t c (r_seq r) r HI). apply Hst. left. reflexivity.
  - intros r' Hr'. rewrite (proj2 (kget_after_dels kv _ _ (all_del_stage c r))); [apply Hst; right; exact Hr'|].
    intro Hin. apply in_stage_dels in Hin.
    destruct Hin as [X|[[_ X]|[[_ [_ X]]|[[_ [_ X]]|[_ X]]]]]; try discriminate X. injection X as X.
    apply Hnr. rewrite <- X. apply in_map. exact Hr'.
Qed.

Definition seq_filter (next : N) (r : row) : bool := (next <=? r_seq r) && ((0 =? 0) || (r_seq r <=? 0)).

(* what a page read returns: a non-empty prefix of the stored rows from [next] on *)
Lemma page_read kv t c next lim mb rows :
  swf kv -> IdxInv kv t -> readForward kv c next 0 lim mb = ok rows ->
  exists rest,
    filter (seq_filter next) (rows_of kv c) = rows ++ rest
    /\ (filter (seq_filter next) (rows_of kv c) <> [] -> rows <> [])
    /\ NoDup (map r_seq (rows ++ rest))
    /\ (forall r, In r (rows ++ rest) -> kget (KyRow c (r_seq r)) kv = Some (VRow r) /\ next <= r_seq r)
    /\ (forall x y, In x rows -> In y rest -> r_seq x < r_seq y).
Proof.
  intros W HI H. unfold readForward in H. change (fun r : row => (next <=? r_seq r) && ((0 =? 0) || (r_seq r <=? 0))) with (seq_filter next) in H.
  destruct (read_loop_prefix _ _ _ _ _ _ H) as [taken [rest [E1 [E2 E3]]]]. cbn [rev app] in E2. subst taken.
  assert (Hst : forall r, In r (rows_of kv c) -> kget (KyRow c (r_seq r)) kv = Some (VRow r)).
  { intros r Hr. apply (in_rows_of _ _ _ W) in Hr. destruct Hr as [q G].
    pose proof (IdxInv_row _ _ _ _ _ HI G) as K. rewrite (rk_seq _ _ _ _ _ K). exact G. }
  assert (Hnd : NoDup (map r_seq (rows_of kv c))).
  { unfold rows_of. eapply Permutation_NoDup; [apply Permutation_map; apply Permutation_sym; apply sort_by_perm|].
    apply rows_unsorted_nodup; [exact W|]. intros q r Hin. apply (kin_iff_get _ _ _ W) in Hin.
    apply (IdxInv_row _ _ _ _ _ HI Hin). }
  assert (Hnd2 : NoDup (map r_seq (rows ++ rest))) by (rewrite <- E1; apply NoDup_map_filter; exact Hnd).
  exists rest. split; [exact E1|]. split; [intro X; apply E3; [exact X|reflexivity]|]. split; [exact Hnd2|]. split.
  - intros r Hr. rewrite <- E1 in Hr. apply filter_In in Hr. destruct Hr as [Hr Hf]. split; [apply Hst; exact Hr|].
    unfold seq_filter in Hf. apply andb_true_iff in Hf. destruct Hf as [Hf _]. apply N.leb_le. exact Hf.
  - intros x y Hx Hy.
    assert (Hle : r_seq x <= r_seq y).
    { apply (sorted_le_app r_seq rows rest); [|exact Hx|exact Hy]. rewrite <- E1. apply sorted_le_filter. apply rows_of_sorted. }
    assert (Hne : r_seq x <> r_seq y).
    { intro E. rewrite map_app in Hnd2. revert Hnd2. apply in_split in Hx. destruct Hx as [l1 [l2 ->]].
      rewrite map_app. cbn [map]. rewrite <- !app_assoc. cbn [app]. intro Hnd2. apply NoDup_remove_2 in Hnd2.
      apply Hnd2. apply in_or_app. right. apply in_or_app. right. rewrite E. apply in_map. exact Hy. }
    lia.
Qed.

(* ---- the terminal batch: partition range delete + catalog row ------------------------------------------------ *)
Definition terminal_batch (c : N) : kbatch := [DelRange (in_partition c); Del (KyCat c)].

Lemma kget_terminal (kv : kvs) c k :
  kget k (kapply kv (terminal_batch c)) =
  if in_partition c k then None else if key_eqb k (KyCat c) then None else kget k kv.
Proof.
  rewrite kget_apply. unfold terminal_batch. rewrite !keff_cons, keff_nil. cbn [op_effect].
  destruct (in_partition c k); destruct (key_eqb k (KyCat c)); reflexivity.
Qed.

Lemma terminal_IdxInv kv t c :
  IdxInv kv t -> (forall q r, kget (KyRow c q) kv <> Some (VRow r)) ->
  IdxInv (kapply kv (terminal_batch c)) t.
Proof.
  intros HI Hno.
  assert (Hsub : forall k v, kget k (kapply kv (terminal_batch c)) = Some v ->
                             in_partition c k = false /\ kget k kv = Some v).
  { intros k v G. rewrite kget_terminal in G. destruct (in_partition c k); [discriminate|].
    destruct (key_eqb k (KyCat c)); [discriminate|]. split; [reflexivity|exact G]. }
  assert (Hkeep : forall k, in_partition c k = false -> (forall c', k <> KyCat c') ->
                            kget k (kapply kv (terminal_batch c)) = kget k kv).
  { intros k Hp Hc. rewrite kget_terminal, Hp. destruct (key_eqb k (KyCat c)) eqn:E; [|reflexivity].
    apply key_eqb_eq in E. exfalso. eapply Hc. exact E. }
  (* a row some surviving index entry points at is a row of another channel *)
  assert (Hrow : forall c' q' (r' : row), kget (KyRow c' q') kv = Some (VRow r') ->
                   kget (KyRow c' q') (kapply kv (terminal_batch c)) = kget (KyRow c' q') kv).
  { intros c' q' r' G. apply Hkeep; [|intros; discriminate]. cbn [in_partition].
    apply N.eqb_neq. intro E. subst c'. exact (Hno _ _ G). }
  apply (IdxInv_shrink kv); [| | | | | |exact HI].
  - intros k v G. apply (Hsub k v G).
  - intros i c' q' G. destruct (Hsub _ _ G) as [_ G1]. pose proof (HI _ _ G1) as Hk. cbn [chk_entry] in Hk.
    destruct (kget (KyRow c' q') kv) as [[r'| | | | |]|] eqn:Gr; try discriminate Hk. rewrite <- Gr. apply (Hrow c' q' r' Gr).
  - intros c' n q' v G. destruct (Hsub _ _ G) as [_ G1]. pose proof (HI _ _ G1) as Hk. cbn [chk_entry] in Hk.
    destruct (kget (KyRow c' q') kv) as [[r'| | | | |]|] eqn:Gr; try discriminate Hk. rewrite <- Gr. apply (Hrow c' q' r' Gr).
  - intros c' n u q' i h G. destruct (Hsub _ _ G) as [_ G1]. pose proof (HI _ _ G1) as Hk. cbn [chk_entry] in Hk.
    destruct (kget (KyRow c' q') kv) as [[r'| | | | |]|] eqn:Gr; try discriminate Hk. rewrite <- Gr. apply (Hrow c' q' r' Gr).
  - intros c' u q' v G. destruct (Hsub _ _ G) as [_ G1]. pose proof (HI _ _ G1) as Hk. cbn [chk_entry] in Hk.
    destruct (kget (KyRow c' q') kv) as [[r'| | | | |]|] eqn:Gr; try discriminate Hk. rewrite <- Gr. apply (Hrow c' q' r' Gr).
  - intros c' q' r' G. destruct (Hsub _ _ G) as [Hp _]. cbn [in_partition] in Hp.
    split; [right; apply Hkeep; [reflexivity|intros; discriminate]|].
    split; [apply Hkeep; [exact Hp|intros; discriminate]|].
    split; [right; apply Hkeep; [exact Hp|intros; discriminate]|].
    split; apply Hkeep; try exact Hp; intros; discriminate.
Qed.

(* after it nothing of the channel is left *)
Lemma terminal_wipes kv c k : in_partition c k = true \/ k = KyCat c -> kget k (kapply kv (terminal_batch c)) = None.
Proof.
  intros [H| ->]; rewrite kget_terminal; [rewrite H; reflexivity|].
  cbn [in_partition]. rewrite key_eqb_refl. reflexivity.
Qed.

Lemma NoDup_app_l {A} (a b : list A) : NoDup (a ++ b) -> NoDup a.
Proof.
  induction a as [|x a IH]; intro H; [constructor|]. cbn [app] in H. inversion H as [|? ? Hn Hr]; subst.
  constructor; [intro Hx; apply Hn; apply in_or_app; left; exact Hx|apply IH; exact Hr].
Qed.

(* ---- the page loop and the whole call ---------------------------------------------------------------------------- *)
Section Discard.
  Variable F : Type.

  Notation mstate := (mstate F).
  Notation st_kv := (st_kv F).
  Notation st_log := (st_log F).
  Notation st_cache := (st_cache F).

  Definition LowBound (kv : kvs) (c next : N) : Prop :=
    forall q r, kget (KyRow c q) kv = Some (VRow r) -> next <= q.

  Definition NoRows (kv : kvs) (c : N) : Prop := forall q r, kget (KyRow c q) kv <> Some (VRow r).

  Lemma last_seq_in (rows : list row) : rows <> [] -> exists r, In r rows /\ last_seq rows = r_seq r.
  Proof.
    intro H. unfold last_seq. destruct (rev rows) as [|r l] eqn:E.
    - exfalso. apply H. rewrite <- (rev_involutive rows), E. reflexivity.
    - exists r. split; [|reflexivity]. apply in_rev. rewrite E. left. reflexivity.
  Qed.

  Lemma discard_pages_inv t c fuel : forall (st : mstate) next,
    swf (st_kv st) -> IdxInv (st_kv st) t -> LowBound (st_kv st) c next ->
    exists bs,
      st_log (fst (discard_pages F fuel st c next)) = st_log st ++ bs
      /\ st_kv (fst (discard_pages F fuel st c next)) = run_batches key_eqb (st_kv st) bs
      /\ st_cache (fst (discard_pages F fuel st c next)) = st_cache st
      /\ (forall k, IdxInv (run_batches key_eqb (st_kv st) (firstn k bs)) t
                    /\ swf (run_batches key_eqb (st_kv st) (firstn k bs)))
      /\ (snd (discard_pages F fuel st c next) = ok tt -> NoRows (st_kv (fst (discard_pages F fuel st c next))) c).
  Proof.
    induction fuel as [|fuel IH]; intros st next W HI HL; cbn [discard_pages].
    - exists []. rewrite app_nil_r. cbn [fst snd]. repeat split; try (destruct k; assumption). discriminate.
    - destruct (readForward (st_kv st) c next 0 restoreDiscardBatchMessages restoreDiscardBatchBytes) as [rows|e] eqn:Er.
      2:{ exists []. rewrite app_nil_r. cbn [fst snd]. repeat split; try (destruct k; assumption). discriminate. }
      destruct (page_read _ t _ _ _ _ _ W HI Er) as [rest [E1 [E2 [Hnd [Hst Hlt]]]]].
      destruct rows as [|r0 rows'].
      + exists []. rewrite app_nil_r. cbn [fst snd]. repeat split; try (destruct k; assumption).
        intros _ q r G.
        assert (Hin : In r (filter (seq_filter next) (rows_of (st_kv st) c))).
        { pose proof (IdxInv_row _ _ _ _ _ HI G) as K. apply filter_In. split.
          - apply (in_rows_of _ _ _ W). exists q. exact G.
          - unfold seq_filter. rewrite (rk_seq _ _ _ _ _ K). cbn [N.eqb orb]. rewrite andb_true_r. apply N.leb_le. apply (HL q r G). }
        destruct (filter (seq_filter next) (rows_of (st_kv st) c)) as [|x l] eqn:Ef; [destruct Hin|].
        apply E2; [discriminate|reflexivity].
      + set (rows := r0 :: rows') in *. set (b := flat_map (stageDeleteMessage c) rows).
        assert (Ab : all_del b) by (apply all_del_flat_map; intro; apply all_del_stage).
        assert (Hnd1 : NoDup (map r_seq rows)) by (rewrite map_app in Hnd; apply NoDup_app_l in Hnd; exact Hnd).
        assert (HI1 : IdxInv (kapply (st_kv st) b) t).
        { apply del_rows_IdxInv; [exact HI|exact Hnd1|]. intros r Hr. apply Hst. apply in_or_app. left. exact Hr. }
        assert (W1 : swf (kapply (st_kv st) b)) by (apply swf_apply; exact W).
        assert (Hdel : forall r, In r rows -> In (KyRow c (r_seq r)) (del_keys b)).
        { intros r Hr. unfold b. rewrite del_keys_flat_map. apply in_flat_map. exists r. split; [exact Hr|].
          apply in_stage_dels. left. reflexivity. }
        destruct (last_seq rows <? next) eqn:Elt.
        * exists [b]. cbn [fst snd commit MsgStore.st_log MsgStore.st_kv MsgStore.st_cache]. split; [reflexivity|]. split; [reflexivity|].
          split; [reflexivity|]. split; [|discriminate].
          intros [|k]; cbn [firstn]; [split; assumption|]. destruct k; cbn [firstn run_batches fold_left]; split; assumption.
        * assert (HL1 : LowBound (kapply (st_kv st) b) c (last_seq rows + 1)).
          { intros q r G.
            destruct (existsb (key_eqb (KyRow c q)) (del_keys b)) eqn:X.
            { apply existsb_key_in in X. rewrite (proj1 (kget_after_dels (st_kv st) b _ Ab) X) in G. discriminate. }
            apply existsb_key_notin in X. rewrite (proj2 (kget_after_dels (st_kv st) b _ Ab) X) in G.
            pose proof (IdxInv_row _ _ _ _ _ HI G) as K. pose proof (rk_seq _ _ _ _ _ K) as Eq.
            assert (Hin : In r (rows ++ rest)).
            { rewrite <- E1. apply filter_In. split; [apply (in_rows_of _ _ _ W); exists q; exact G|].
              unfold seq_filter. rewrite Eq. cbn [N.eqb orb]. rewrite andb_true_r. apply N.leb_le. apply (HL q r G). }
            apply in_app_or in Hin. destruct Hin as [Hin|Hin].
            - exfalso. apply X. rewrite <- Eq. apply Hdel. exact Hin.
            - destruct (last_seq_in rows ltac:(discriminate)) as [rl [Hrl El]]. rewrite El.
              pose proof (Hlt rl r Hrl Hin). lia. }
          destruct (IH (commit F st b) (last_seq rows + 1) W1 HI1 HL1) as [bs [L1 [L2 [L3 [L4 L5]]]]].
          exists (b :: bs). split; [rewrite L1; cbn [commit MsgStore.st_log]; rewrite <- app_assoc; reflexivity|].
          split; [rewrite L2; reflexivity|]. split; [rewrite L3; reflexivity|]. split; [|exact L5].
          intros [|k]; cbn [firstn]; [split; assumption|]. apply (L4 k).
  Qed.

  (* DiscardForRestore = pages, then the terminal batch; every store a stop inside
     the call can leave satisfies the index invariant, and after the call no key
     of the channel is left *)
  Theorem discard_batches t (st : mstate) c :
    swf (st_kv st) -> IdxInv (st_kv st) t ->
    exists bs,
      st_log (fst (DiscardForRestore F st c)) = st_log st ++ bs
      /\ st_kv (fst (DiscardForRestore F st c)) = run_batches key_eqb (st_kv st) bs
      /\ (forall k, IdxInv (run_batches key_eqb (st_kv st) (firstn k bs)) t)
      /\ (snd (DiscardForRestore F st c) = ok tt ->
          forall k, in_partition c k = true \/ k = KyCat c -> kget k (st_kv (fst (DiscardForRestore F st c))) = None).
  Proof.
    intros W HI. unfold DiscardForRestore.
    assert (HL : LowBound (st_kv st) c 1).
    { intros q r G. pose proof (IdxInv_row _ _ _ _ _ HI G) as K. destruct K as [_ _ _ K _ _ _ _ _].
      apply andb_true_iff in K. destruct K as [K _]. apply andb_true_iff in K. destruct K as [_ K]. apply N.leb_le. exact K. }
    destruct (discard_pages_inv t c (S (length (rows_unsorted (st_kv st) c))) st 1 W HI HL) as [bs [L1 [L2 [L3 [L4 L5]]]]].
    destruct (discard_pages F (S (length (rows_unsorted (st_kv st) c))) st c 1) as [st1 [u|e]]; cbn [fst snd] in *.
    - exists (bs ++ [terminal_batch c]).
      cbn [fst snd set_cache commit MsgStore.st_log MsgStore.st_kv]. fold (terminal_batch c).
      split; [rewrite L1, <- app_assoc; reflexivity|].
      split; [rewrite L2; transitivity (run_batches key_eqb (run_batches key_eqb (st_kv st) bs) [terminal_batch c]); [reflexivity|symmetry; apply run_batches_app]|].
      assert (Hfin : IdxInv (run_batches key_eqb (st_kv st) (bs ++ [terminal_batch c])) t).
      { unfold kbatch. rewrite run_batches_app. cbn [run_batches fold_left]. rewrite <- L2.
        apply terminal_IdxInv; [|destruct u; apply L5; reflexivity].
        rewrite L2. rewrite <- (firstn_all bs). apply (L4 (length bs)). }
      split.
      + intro k. destruct (Nat.le_gt_cases k (length bs)) as [Hk|Hk].
        * rewrite firstn_app. replace (k - length bs)%nat with 0%nat by lia. cbn [firstn]. rewrite app_nil_r. apply (L4 k).
        * rewrite firstn_all2 by (rewrite app_length; cbn [length]; lia). exact Hfin.
      + intros _ k Hk. apply terminal_wipes. exact Hk.
    - exists bs. split; [exact L1|]. split; [exact L2|]. split; [intro k; apply (L4 k)|discriminate].
  Qed.

  (* the same structure without any assumption on the store: the call changes the
     store only through the batches it commits *)
  Lemma discard_pages_log c fuel : forall (st : mstate) next,
    exists bs, st_log (fst (discard_pages F fuel st c next)) = st_log st ++ bs
               /\ st_kv (fst (discard_pages F fuel st c next)) = run_batches key_eqb (st_kv st) bs.
  Proof.
    induction fuel as [|fuel IH]; intros st next; cbn [discard_pages].
    - exists []. rewrite app_nil_r. split; reflexivity.
    - destruct (readForward (st_kv st) c next 0 _ _) as [[|r rows]|e]; try (exists []; rewrite app_nil_r; split; reflexivity).
      set (b := flat_map (stageDeleteMessage c) (r :: rows)).
      destruct (last_seq (r :: rows) <? next).
      + exists [b]. split; reflexivity.
      + destruct (IH (commit F st b) (last_seq (r :: rows) + 1)) as [bs [L1 L2]].
        exists (b :: bs). split; [rewrite L1; cbn [commit MsgStore.st_log]; rewrite <- app_assoc; reflexivity|rewrite L2; reflexivity].
  Qed.

  Theorem discard_log (st : mstate) c :
    exists bs, st_log (fst (DiscardForRestore F st c)) = st_log st ++ bs
               /\ st_kv (fst (DiscardForRestore F st c)) = run_batches key_eqb (st_kv st) bs.
  Proof.
    unfold DiscardForRestore.
    destruct (discard_pages_log c (S (length (rows_unsorted (st_kv st) c))) st 1) as [bs [L1 L2]].
    destruct (discard_pages F _ st c 1) as [st1 [u|e]]; cbn [fst] in *.
    - exists (bs ++ [terminal_batch c]). cbn [set_cache commit MsgStore.st_log MsgStore.st_kv]. fold (terminal_batch c).
      split; [rewrite L1, <- app_assoc; reflexivity|].
      rewrite L2. transitivity (run_batches key_eqb (run_batches key_eqb (st_kv st) bs) [terminal_batch c]); [reflexivity|symmetry; apply run_batches_app].
    - exists bs. split; assumption.
  Qed.
End Discard.
