(* Proof/ChanMigration_meta.v — what an accepted one-command batch does to the runtime-meta
   rows; stored rows stay normalized; migration commands keep MinISR and never shrink the ISR. *)
From WK Require Import Base.Base.
From WK Require Import Gen.Consts_C15 Gen.Consts_C17 Model.RuntimeMeta Model.ChanMigration Model.ChanMigration_C17.
From WK Require Import Proof.RuntimeMeta Proof.ChanMigration Proof.ChanMigration_cmds Proof.ChanMigration_inv
                       Proof.ChanMigration_step.
Open Scope N_scope.

(* ---- normalizeUint64Set on duplicate-free lists ---------------------------------------------------- *)

Lemma in_insert_uniq x l y : In y (insert_uniq x l) <-> y = x \/ In y l.
Proof.
  induction l as [|z r IH]; cbn [insert_uniq In].
  - split; [intros [H|[]]; auto|intros [H|[]]; auto].
  - destruct (x <? z); [cbn [In]; split; [intros [H|H]; auto|intros [H|H]; auto]|].
    destruct (x =? z) eqn:E.
    + apply N.eqb_eq in E. subst z. cbn [In]. split; [auto|intros [H|H]; auto].
    + cbn [In]. rewrite IH. split; [intros [H|[H|H]]; auto|intros [H|[H|H]]; auto].
Qed.

Lemma in_normalize l y : In y (normalizeUint64Set l) <-> In y l.
Proof.
  unfold normalizeUint64Set. induction l as [|x r IH]; cbn [fold_right In]; [tauto|].
  rewrite in_insert_uniq, IH. split; [intros [H|H]; auto|intros [H|H]; auto].
Qed.

Lemma length_insert_uniq x l : ~ In x l -> length (insert_uniq x l) = S (length l).
Proof.
  induction l as [|z r IH]; cbn [insert_uniq In length]; intro H; [reflexivity|].
  destruct (x <? z); [reflexivity|].
  destruct (x =? z) eqn:E; [apply N.eqb_eq in E; subst; exfalso; apply H; auto|].
  cbn [length]. rewrite IH; [reflexivity|]. intro K. apply H. auto.
Qed.

Lemma length_normalize_nodup l : NoDup l -> length (normalizeUint64Set l) = length l.
Proof.
  unfold normalizeUint64Set. induction 1 as [|x r Hx N IH]; cbn [fold_right length]; [reflexivity|].
  rewrite length_insert_uniq; [rewrite IH; reflexivity|].
  intro K. apply Hx. apply (in_normalize r x). exact K.
Qed.

Lemma ssorted_lt_head x l : ssorted (x :: l) -> forall y, In y l -> x < y.
Proof.
  revert x. induction l as [|z r IH]; intros x S y Hy; [destruct Hy|].
  cbn [ssorted] in S. destruct S as [S1 S2]. destruct Hy as [Hy|Hy].
  - subst. exact S1.
  - assert (z < y) by (apply (IH z S2 y Hy)). lia.
Qed.

Lemma ssorted_tail x l : ssorted (x :: l) -> ssorted l.
Proof. destruct l as [|z r]; cbn [ssorted]; [trivial|intros [_ S]; exact S]. Qed.

Lemma ssorted_nodup l : ssorted l -> NoDup l.
Proof.
  induction l as [|x r IH]; intro S; [constructor|].
  constructor; [|apply IH; eapply ssorted_tail; eauto].
  intro H. pose proof (ssorted_lt_head _ _ S x H). lia.
Qed.

Lemma nodup_map_replace l a b :
  NoDup l -> ~ In b l -> NoDup (map (fun v => if v =? a then b else v) l).
Proof.
  induction 1 as [|x r Hx N IH]; cbn [map]; intro Hb; [constructor|].
  constructor; [|apply IH; intro K; apply Hb; right; exact K].
  intro K. apply in_map_iff in K. destruct K as [y [E Hy]].
  destruct (x =? a) eqn:Ex.
  - apply N.eqb_eq in Ex. subst x.
    destruct (y =? a) eqn:Ey; [apply N.eqb_eq in Ey; subst y; contradiction|].
    subst y. apply Hb. right. exact Hy.
  - destruct (y =? a) eqn:Ey.
    + subst x. apply Hb. left. reflexivity.
    + subst y. contradiction.
Qed.

Lemma nodup_snoc (l : list N) x : NoDup l -> ~ In x l -> NoDup (l ++ [x]).
Proof.
  induction 1 as [|y r Hy N IH]; cbn [app]; intro Hx; [constructor; [intros []|constructor]|].
  constructor.
  - intro K. apply in_app_or in K. destruct K as [K|[K|[]]]; [contradiction|].
    subst. apply Hx. left. reflexivity.
  - apply IH. intro K. apply Hx. right. exact K.
Qed.

(* ---- the ISR under the seven task+meta commands ------------------------------------------------------------ *)

Lemma containsUint64_false_notin l x : containsUint64 l x = false -> ~ In x l.
Proof. intros H K. apply containsUint64_In in K. congruence. Qed.

Theorem mutate_isr c t m t' m' :
  ssorted (rm_isr m) ->
  mutate_task_meta c t m = Ok (t', m') ->
  rm_min_isr m' = rm_min_isr m
  /\ (length (rm_isr m) <= length (normalizeUint64Set (rm_isr m')))%nat.
Proof.
  intros S.
  assert (Same : forall x, rm_isr x = rm_isr m -> (length (rm_isr m) <= length (normalizeUint64Set (rm_isr x)))%nat).
  { intros x E. rewrite E, (normalizeUint64Set_fixed _ S). apply Nat.le_refl. }
  destruct c; cbn [mutate_task_meta]; try discriminate.
  - unfold mutSetFence. intro H. repeat if_inv H. inversion H; subst. split; [reflexivity|apply Same; reflexivity].
  - unfold mutReset. intro H. repeat if_inv H. inversion H; subst. split; [reflexivity|apply Same; reflexivity].
  - unfold mutCommit. intro H. repeat if_inv H. inversion H; subst. split; [reflexivity|apply Same; reflexivity].
  - unfold mutAddLearner. intro H. repeat if_inv H. inversion H; subst.
    match goal with |- context [if ?c then _ else _] => destruct c end;
      (split; [reflexivity|apply Same; reflexivity]).
  - unfold mutPromote. intro H. repeat if_inv H. inversion H; subst. clear H.
    split; [reflexivity|]. cbn [set_membership rm_isr].
    b2p.
    match goal with Hc : containsUint64 (rm_isr m) target = false |- _ =>
      pose proof (containsUint64_false_notin _ _ Hc) as Nt end.
    destruct (containsUint64 (rm_isr m) source) eqn:Cs.
    + unfold replaceUint64Member. rewrite normalizeUint64Set_idem.
      rewrite length_normalize_nodup.
      * rewrite map_length. apply Nat.le_refl.
      * apply nodup_map_replace; [apply ssorted_nodup; exact S|exact Nt].
    + rewrite normalizeUint64Set_idem. rewrite length_normalize_nodup.
      * rewrite app_length. cbn [length]. lia.
      * apply nodup_snoc; [apply ssorted_nodup; exact S|exact Nt].
  - unfold mutClear. intro H. repeat if_inv H; inversion H; subst; (split; [reflexivity|apply Same; reflexivity]).
  - unfold mutAbort. intro H. repeat if_inv H. inversion H; subst. clear H.
    destruct (negb (is_empty (rm_write_fence_token m))); cbv beta iota;
      match goal with |- context [if ?c then _ else _] => destruct c end;
      (split; [reflexivity|apply Same; reflexivity]).
Qed.

(* ---- the row the stage function stores ------------------------------------------------------------------ *)

Lemma stored_isr ex nm :
  rm_isr (bumpRuntimeRoute ex (normalizeChannelRuntimeMeta nm) true) = normalizeUint64Set (rm_isr nm)
  /\ rm_min_isr (bumpRuntimeRoute ex (normalizeChannelRuntimeMeta nm) true) = rm_min_isr nm.
Proof.
  unfold bumpRuntimeRoute, normalizeChannelRuntimeMeta. cbn [negb andb].
  repeat match goal with |- context [if ?c then _ else _] => destruct c end; rm_cbn; split; reflexivity.
Qed.

Lemma next_rg_nonzero x : nextChannelRouteGeneration x <> 0.
Proof.
  unfold nextChannelRouteGeneration. destruct (x =? u64max) eqn:E.
  - apply N.eqb_eq in E. subst. discriminate.
  - lia.
Qed.

Lemma bump_normalized ex c : rm_normalized c -> rm_normalized (bumpRuntimeRoute ex c true).
Proof.
  intros (A & B & C & D). unfold bumpRuntimeRoute. cbn [negb andb].
  destruct (runtimeRouteChanged ex c && (rm_route_generation c <=? rm_route_generation ex)).
  - unfold rm_normalized. rm_cbn. repeat split; auto. apply next_rg_nonzero.
  - repeat split; auto.
Qed.

Lemma stored_normalized ex nm : rm_normalized (bumpRuntimeRoute ex (normalizeChannelRuntimeMeta nm) true).
Proof. apply bump_normalized, normalize_normalized. Qed.

Definition metas_normalized (d : db) : Prop := forall ch m, meta_get d ch = Some m -> rm_normalized m.

Lemma metas_normalized_empty : metas_normalized db_empty.
Proof. intros ch m H. discriminate. Qed.

(* ---- the meta row of channel [ch] after an accepted command ------------------------------------------------ *)

Inductive meta_change (d : db) (c : cmd) (ch : chan_key) (d' : db) : Prop :=
| MC_same : meta_get d' ch = meta_get d ch -> meta_change d c ch d'
| MC_upsert m next : c = CUpsertMeta m -> ch = meta_chan (upsert_wire m) ->
    meta_get d' ch = Some next -> rm_normalized next -> meta_change d c ch d'
| MC_taskmeta h t m nt nm : cmd_trans c = Some h -> ch = rguard_chan (tr_rguard h) ->
    task_get (db_tasks d) (tguard_key (tr_guard h)) = Some t -> meta_get d ch = Some m ->
    tguard_matches (tr_guard h) t = true -> mutate_task_meta c t m = Ok (nt, nm) ->
    validateChannelRuntimeMeta (bumpRuntimeRoute m (normalizeChannelRuntimeMeta nm) true) = true ->
    meta_get d' ch = Some (bumpRuntimeRoute m (normalizeChannelRuntimeMeta nm) true) ->
    meta_change d c ch d'.

Ltac taskmeta_meta_case I R h ch :=
  match type of R with match ?x with _ => _ end = _ =>
    let cs1 := fresh "cs1" in let e := fresh "e" in let E := fresh "E" in
    destruct x as [cs1|e] eqn:E; [|discriminate];
    inversion R; subst cs1;
    let t := fresh "t" in let m := fresh "m" in let nt := fresh "nt" in let nm := fresh "nm" in
    let G := fresh "G" in let Gm := fresh "Gm" in let Mu := fresh "Mu" in let Hs := fresh "Hs" in
    let Mg := fresh "Mg" in let Mr := fresh "Mr" in let Tm := fresh "Tm" in let V := fresh "V" in
    let pend := fresh "pend" in let U := fresh "U" in let Hp := fresh "Hp" in
    destruct (taskmeta_accepted _ _ h _ E eq_refl)
      as (t & m & nt & nm & G & Gm & Mu & [Hs|(Mg & Mr & Tm & V & pend & U & Hp)]);
    [subst; apply MC_same; reflexivity|];
    rewrite Hp;
    let K := fresh "K" in
    destruct (chan_key_eqb (rguard_chan (tr_rguard h)) ch) eqn:K;
    [apply chan_key_eqb_eq in K; eapply (MC_taskmeta _ _ ch _ h t m nt nm); eauto;
     [rewrite <- K; exact Gm
     |rewrite meta_get_put_meta, K, chan_key_eqb_refl; reflexivity]
    |apply MC_same; rewrite meta_get_put_meta, K; apply (stageUpsert_metas _ _ _ _ I U)]
  end.

Theorem step_meta_change d c d' ch :
  db_inv d -> metas_normalized d -> apply_one d c = (d', Ok 0) -> meta_change d c ch d'.
Proof.
  intros I Nm A. destruct (accepted_run _ _ _ A) as (_ & cs & R & Hd). subst d'.
  destruct c; cbn [ops_of run_ops run_op] in R;
    try (taskmeta_meta_case I R h ch; fail).
  - (* upsert meta *)
    destruct (opUpsertMeta d (CState d [] []) (upsert_wire m)) as [cs1|e] eqn:E; [|discriminate].
    inversion R; subst cs1. unfold opUpsertMeta, loadRuntimeMeta in E. cbn [cs_ometas assoc_get cs_pend cs_otasks] in E.
    destruct (resolveMonotonicChannelRuntimeMeta
                match meta_get d (meta_chan (upsert_wire m)) with Some e => e | None => runtime_meta_zero end
                match meta_get d (meta_chan (upsert_wire m)) with Some _ => true | None => false end
                (upsert_wire m)) as [next result] eqn:Rs.
    destruct (result =? MonotonicIgnoredStale) eqn:S1; [inversion E; apply MC_same; reflexivity|].
    destruct (result =? MonotonicConflict) eqn:S2; [discriminate|].
    inversion E; subst cs. cbn [cs_pend].
    destruct (chan_key_eqb (meta_chan (upsert_wire m)) ch) eqn:K.
    + apply chan_key_eqb_eq in K. eapply MC_upsert; eauto.
      * rewrite meta_get_put_meta, K, chan_key_eqb_refl. reflexivity.
      * destruct (meta_get d (meta_chan (upsert_wire m))) as [ex|] eqn:Gx.
        -- destruct (resolve_rejected _ _ _ _ Rs) as [Ap|[[St|Cf] _]].
           ++ subst result. eapply resolve_applied; [eapply Nm; eauto|exact Rs].
           ++ subst result. rewrite N.eqb_refl in S1. discriminate.
           ++ subst result. rewrite N.eqb_refl in S2. discriminate.
        -- rewrite resolve_absent in Rs. inversion Rs. apply normalize_normalized.
    + apply MC_same. rewrite meta_get_put_meta, K. reflexivity.
  - (* create *)
    destruct (opCreate d (CState d [] []) t) as [cs1|e] eqn:E; [|discriminate].
    inversion R; subst cs1.
    destruct (create_accepted _ _ _ E) as [[G Hcs]|[G [pend [U Hp]]]].
    + subst cs. apply MC_same. reflexivity.
    + rewrite Hp. apply MC_same. apply (stageUpsert_metas _ _ _ _ I U).
  - (* guarded create *)
    destruct (opGuardCheck d (CState d [] []) t g) as [cs0|e0] eqn:E0; [|discriminate].
    apply opGuardCheck_same in E0. subst cs0.
    destruct (opCreate d (CState d [] []) t) as [cs1|e] eqn:E; [|discriminate].
    inversion R; subst cs1.
    destruct (create_accepted _ _ _ E) as [[G Hcs]|[G [pend [U Hp]]]].
    + subst cs. apply MC_same. reflexivity.
    + rewrite Hp. apply MC_same. apply (stageUpsert_metas _ _ _ _ I U).
  - (* claim *)
    match type of R with match ?x with _ => _ end = _ => destruct x as [cs1|e] eqn:E; [|discriminate] end.
    inversion R; subst cs1.
    destruct (task_accepted _ _ g _ E eq_refl) as (t & next & G & Mg & Mu & pend & U & Hp).
    rewrite Hp. apply MC_same. apply (stageUpsert_metas _ _ _ _ I U).
  - (* advance *)
    match type of R with match ?x with _ => _ end = _ => destruct x as [cs1|e] eqn:E; [|discriminate] end.
    inversion R; subst cs1.
    destruct (task_accepted _ _ g _ E eq_refl) as (t & next & G & Mg & Mu & pend & U & Hp).
    rewrite Hp. apply MC_same. apply (stageUpsert_metas _ _ _ _ I U).
  - (* gc *)
    unfold opGC in R. inversion R; subst cs. cbn [cs_pend].
    destruct (gc_scan_spec (db_tasks d) d before limit 0%Z) as (_ & G2 & _).
    apply MC_same. unfold meta_get. rewrite G2. reflexivity.
Qed.

Theorem apply_one_normalized d c d' r :
  db_inv d -> metas_normalized d -> apply_one d c = (d', r) -> metas_normalized d'.
Proof.
  intros I Nm A.
  destruct r as [n|e]; [destruct n as [|p]|];
    try (rewrite (apply_one_rejected _ _ _ _ A) by discriminate; exact Nm).
  intros ch m G.
  destruct (step_meta_change d c d' ch I Nm A) as [S|m0 next _ _ Gn Nn|h t m0 nt nm _ _ _ _ _ _ _ Gn].
  - rewrite S in G. eapply Nm; eauto.
  - rewrite Gn in G. inversion G; subst. exact Nn.
  - rewrite Gn in G. inversion G; subst. apply stored_normalized.
Qed.
