(* Proof/MsgStore_C08.v — C08: a (sender, client msg no) pair maps to at most one
   message; a message id is stored at most once (strict mode).

   1. the concrete two-layer Bloom filter is sound for arbitrary hash functions;
   2. for every sound filter the loaded filter covers the durable idempotency
      keys in every reachable state ([Cov], an invariant of all histories);
   3. under [R] and [Cov], a batch the plain log must reject ([must_reject]) is
      rejected by the model -- same batch, later batch, after release / reopen /
      truncation / trim, in strict and server-allocated-id mode;
   4. hence the C08 monitor accepts every trace of the model. *)
From WK Require Import Base.Base Model.KV Gen.Consts_C07 Model.MsgStore Model.MsgStore_C07 Model.MsgStore_C08
     Proof.KV Proof.MsgStore_base Proof.MsgStore_rel Proof.MsgStore_reads Proof.MsgStore_frame
     Proof.MsgStore_mut Proof.MsgStore_step Proof.MsgStore_ops Proof.MsgStore_C07.
From Coq Require Import Sorting.Permutation Sorting.Sorted.

(* ---- 1. the Bloom filter ------------------------------------------------------------------------------ *)
Section BloomSound.
  Variables h1 h2 : bytes * bytes -> N.

  Lemma mem_N_in x l : mem_N x l = true <-> In x l.
  Proof.
    unfold mem_N. rewrite existsb_exists. split.
    - intros [y [Hy E]]. apply N.eqb_eq in E. subst. exact Hy.
    - intro H. exists x. split; [exact H|apply N.eqb_refl].
  Qed.

  Lemma layer_may_add l w k : layer_may h1 h2 (layer_add h1 h2 l w k) w k = true.
  Proof.
    unfold layer_may, layer_add. apply forallb_forall. intros b Hb. apply mem_N_in. apply in_or_app. left. exact Hb.
  Qed.

  Lemma layer_may_mono l w k k' : layer_may h1 h2 l w k' = true -> layer_may h1 h2 (layer_add h1 h2 l w k) w k' = true.
  Proof.
    unfold layer_may, layer_add. destruct l as [bits|]; [|discriminate].
    intro H. apply forallb_forall. intros b Hb. eapply forallb_forall in H; [|exact Hb].
    apply mem_N_in. apply in_or_app. right. apply mem_N_in. exact H.
  Qed.

  (* once added, always possibly contained *)
  Theorem bloom_add_sound f k : bloom_may h1 h2 (bloom_add h1 h2 f k) k = true.
  Proof.
    unfold bloom_add. destruct (bloom_may h1 h2 f k) eqn:E; [exact E|].
    destruct (b_adds f <? idempotencyMembershipPrimaryCapacity); unfold bloom_may; cbn [b_prim b_over].
    - rewrite layer_may_add. reflexivity.
    - rewrite layer_may_add. apply orb_true_r.
  Qed.

  Theorem bloom_add_mono f k k' : bloom_may h1 h2 f k' = true -> bloom_may h1 h2 (bloom_add h1 h2 f k) k' = true.
  Proof.
    intro H. unfold bloom_add. destruct (bloom_may h1 h2 f k); [exact H|].
    unfold bloom_may in *. apply orb_true_iff in H.
    destruct (b_adds f <? idempotencyMembershipPrimaryCapacity); cbn [b_prim b_over]; apply orb_true_iff;
      destruct H as [H|H]; try (left; exact H); try (right; exact H).
    - left. apply layer_may_mono. exact H.
    - right. apply layer_may_mono. exact H.
  Qed.

  (* the empty filter contains nothing: the first lookup of a key skips the read *)
  Lemma bloom_empty_none k : bloom_may h1 h2 bloom_empty k = false.
  Proof. reflexivity. Qed.
End BloomSound.

Lemma row_eq_dec (a b : row) : {a = b} + {a <> b}.
Proof.
  decide equality; try apply N.eq_dec; try apply Z.eq_dec; apply (list_eq_dec N.eq_dec).
Qed.

(* ---- 2. coverage ------------------------------------------------------------------------------------------ *)
Section Cov.
  Variable F : Type.
  Variable f_empty : F.
  Variable f_may : F -> bytes * bytes -> bool.
  Variable f_add : F -> bytes * bytes -> F.
  Hypothesis f_sound : forall f k, f_may (f_add f k) k = true.
  Hypothesis f_mono : forall f k k', f_may f k' = true -> f_may (f_add f k) k' = true.

  Notation mstate := (mstate F).
  Notation st_kv := (st_kv F).
  Notation st_cache := (st_cache F).
  Notation validateAppendRow := (validateAppendRow F f_may f_add).
  Notation validate_rows := (validate_rows F f_may f_add).

  Definition covers (st : mstate) (c : N) (n u : bytes) : Prop :=
    cc_floaded F (st_cache st c) = true -> f_may (cc_filter F (st_cache st c)) (n, u) = true.

  (* a loaded filter answers "maybe" for every durable idempotency key of its channel *)
  Definition Cov (st : mstate) : Prop :=
    forall c n u q i h, kget (KyIdem c n u) (st_kv st) = Some (VIdem q i h) -> covers st c n u.

  (* the filter of a channel only grows and is never unloaded *)
  Definition grows (st st' : mstate) : Prop :=
    st_kv st' = st_kv st
    /\ forall c, (cc_floaded F (st_cache st c) = true -> cc_floaded F (st_cache st' c) = true)
                 /\ forall k, cc_floaded F (st_cache st c) = true -> f_may (cc_filter F (st_cache st c)) k = true ->
                              f_may (cc_filter F (st_cache st' c)) k = true.

  Lemma grows_refl st : grows st st.
  Proof. split; [reflexivity|]. intro c. split; auto. Qed.

  Lemma grows_trans a b c : grows a b -> grows b c -> grows a c.
  Proof.
    intros [H1 H2] [H3 H4]. split; [congruence|]. intro x. destruct (H2 x) as [A B], (H4 x) as [C D].
    split; [auto|]. intros k Hl Hm. apply D; [auto|]. apply B; assumption.
  Qed.

  Lemma grows_covers st st' c n u : grows st st' -> covers st c n u -> cc_floaded F (st_cache st c) = true -> covers st' c n u.
  Proof. intros [_ H] Hc Hl _. destruct (H c) as [_ B]. apply B; [exact Hl|]. apply Hc. exact Hl. Qed.

  (* adding one key to the filter of channel c *)
  Lemma set_filter_add_grows st c k :
    grows st (set_filter F st c (f_add (cc_filter F (st_cache st c)) k) true).
  Proof.
    split; [reflexivity|]. intro c'. unfold set_filter, set_cache. cbn [MsgStore.st_cache].
    destruct (c' =? c) eqn:E; [|split; auto]. apply N.eqb_eq in E. subst c'. cbn [cc_floaded cc_filter].
    split; [reflexivity|]. intros k' _ H. apply f_mono. exact H.
  Qed.

  Lemma fold_add_mono (l : list (bytes * bytes * (N * N * N))) : forall f k,
    f_may f k = true -> f_may (fold_left (fun f e => f_add f (fst (fst e), snd (fst e))) l f) k = true.
  Proof. induction l as [|e l IH]; intros f k H; cbn [fold_left]; [exact H|]. apply IH. apply f_mono. exact H. Qed.

  Lemma fold_add_in (l : list (bytes * bytes * (N * N * N))) : forall f e,
    In e l -> f_may (fold_left (fun f e => f_add f (fst (fst e), snd (fst e))) l f) (fst (fst e), snd (fst e)) = true.
  Proof.
    induction l as [|x l IH]; intros f e []; cbn [fold_left].
    - subst. apply fold_add_mono. apply f_sound.
    - apply IH. assumption.
  Qed.

  (* ensureIdempotencyMembershipLoaded establishes coverage of its channel *)
  Lemma ensure_grows st c : grows st (ensureIdempotencyMembershipLoaded F f_add st c).
  Proof.
    unfold ensureIdempotencyMembershipLoaded. destruct (cc_floaded F (st_cache st c)) eqn:E; [apply grows_refl|].
    split; [reflexivity|]. intro c'. unfold set_filter, set_cache. cbn [MsgStore.st_cache].
    destruct (c' =? c) eqn:Ec; [|split; auto]. apply N.eqb_eq in Ec. subst c'. cbn [cc_floaded cc_filter].
    split; [reflexivity|]. intros k Hl. rewrite E in Hl. discriminate.
  Qed.

  Lemma ensure_loaded st c :
    swf (st_kv st) -> Cov st ->
    let st' := ensureIdempotencyMembershipLoaded F f_add st c in
    cc_floaded F (st_cache st' c) = true
    /\ forall n u q i h, kget (KyIdem c n u) (st_kv st) = Some (VIdem q i h) -> f_may (cc_filter F (st_cache st' c)) (n, u) = true.
  Proof.
    intros W HC. unfold ensureIdempotencyMembershipLoaded.
    destruct (cc_floaded F (st_cache st c)) eqn:E.
    - split; [exact E|]. intros n u q i h G. apply (HC c n u q i h G). exact E.
    - unfold set_filter, set_cache. cbn [MsgStore.st_cache]. rewrite N.eqb_refl. cbn [cc_floaded cc_filter].
      split; [reflexivity|]. intros n u q i h G.
      apply (in_idem_entries _ _ _ _ _ _ _ W) in G.
      apply (fold_add_in _ (cc_filter F (st_cache st c)) (n, u, (q, i, h))). exact G.
  Qed.

  Lemma grows_Cov st st' : grows st st' -> Cov st -> 
    (forall c, cc_floaded F (st_cache st c) = false -> cc_floaded F (st_cache st' c) = true ->
               forall n u q i h, kget (KyIdem c n u) (st_kv st) = Some (VIdem q i h) -> f_may (cc_filter F (st_cache st' c)) (n, u) = true) ->
    Cov st'.
  Proof.
    intros [Hk Hg] HC Hnew c n u q i h G Hl. rewrite Hk in G.
    destruct (cc_floaded F (st_cache st c)) eqn:E.
    - destruct (Hg c) as [_ B]. apply B; [exact E|]. apply (HC c n u q i h G). exact E.
    - eapply Hnew; eassumption.
  Qed.

  (* validateAppendRow: the filters grow, coverage is kept, and an accepted row's key is covered *)
  Lemma validateAppendRow_cov st c r sn mode :
    swf (st_kv st) -> Cov st ->
    let st' := fst (validateAppendRow st c r sn mode) in
    grows st st' /\ Cov st'
    /\ (forall sn', snd (validateAppendRow st c r sn mode) = inl sn' -> idem_cond r = true -> covers st' c (r_cno r) (r_uid r)).
  Proof.
    intros W HC. unfold MsgStore.validateAppendRow.
    destruct (r_id r =? 0); [cbn [fst snd]; split; [apply grows_refl|split; [exact HC|intros; discriminate]]|].
    destruct (mem_N (r_id r) (sn_ids sn)); [cbn [fst snd]; split; [apply grows_refl|split; [exact HC|intros; discriminate]]|].
    destruct (if mode =? AppendStrict then _ else false); [cbn [fst snd]; split; [apply grows_refl|split; [exact HC|intros; discriminate]]|].
    destruct (is_nil (r_uid r) || is_nil (r_cno r)) eqn:En.
    { cbn [fst snd]. split; [apply grows_refl|]. split; [exact HC|]. intros sn' _ Hi. exfalso.
      unfold idem_cond in Hi. apply andb_true_iff in Hi. destruct Hi as [H1 H2].
      apply negb_true_iff in H1, H2. rewrite H1, H2 in En. discriminate. }
    destruct (mem_pair _ _); [cbn [fst snd]; split; [apply grows_refl|split; [exact HC|intros; discriminate]]|].
    destruct (mode =? AppendTrustedContiguous).
    - (* trusted: add only to a loaded filter *)
      destruct (cc_floaded F (st_cache st c)) eqn:El; cbn [fst snd].
      + pose proof (set_filter_add_grows st c (r_cno r, r_uid r)) as Hg.
        split; [exact Hg|]. split.
        * apply (grows_Cov st); [exact Hg|exact HC|]. intros c' Hf Ht. exfalso.
          unfold set_filter, set_cache in Ht. cbn [MsgStore.st_cache] in Ht. destruct (c' =? c) eqn:Ec; [apply N.eqb_eq in Ec; subst; congruence|congruence].
        * intros sn' _ _ _. unfold set_filter, set_cache. cbn [MsgStore.st_cache]. rewrite N.eqb_refl. cbn [cc_filter]. apply f_sound.
      + split; [apply grows_refl|]. split; [exact HC|]. intros sn' _ _ Hl. congruence.
    - (* strict / server-allocated: load, then probe *)
      set (st1 := ensureIdempotencyMembershipLoaded F f_add st c).
      destruct (ensure_loaded st c W HC) as [Hl1 Hcov1]. fold st1 in Hl1, Hcov1.
      assert (Hg1 : grows st st1) by apply ensure_grows.
      assert (HC1 : Cov st1).
      { apply (grows_Cov st); [exact Hg1|exact HC|]. intros c' Hf Ht n u q i h G.
        assert (c' = c).
        { unfold st1, ensureIdempotencyMembershipLoaded in Ht. destruct (cc_floaded F (st_cache st c)); [congruence|].
          unfold set_filter, set_cache in Ht. cbn [MsgStore.st_cache] in Ht. destruct (c' =? c) eqn:Ec; [apply N.eqb_eq; exact Ec|congruence]. }
        subst c'. eapply Hcov1. exact G. }
      assert (Hadd : let st2 := set_filter F st1 c (f_add (cc_filter F (st_cache st1 c)) (r_cno r, r_uid r)) true in
                     grows st st2 /\ Cov st2 /\ covers st2 c (r_cno r) (r_uid r)).
      { cbv zeta. pose proof (set_filter_add_grows st1 c (r_cno r, r_uid r)) as Hg2. split; [eapply grows_trans; eassumption|]. split.
        - apply (grows_Cov st1); [exact Hg2|exact HC1|]. intros c' Hf Ht. exfalso.
          unfold set_filter, set_cache in Ht. cbn [MsgStore.st_cache] in Ht. destruct (c' =? c) eqn:Ec; [apply N.eqb_eq in Ec; subst; congruence|congruence].
        - intros _. unfold set_filter, set_cache. cbn [MsgStore.st_cache]. rewrite N.eqb_refl. cbn [cc_filter]. apply f_sound. }
      cbv zeta in Hadd. destruct Hadd as [Ha1 [Ha2 Ha3]].
      destruct (negb (f_may (cc_filter F (st_cache st1 c)) (r_cno r, r_uid r))); cbn [fst snd].
      + split; [exact Ha1|]. split; [exact Ha2|]. intros; exact Ha3.
      + destruct (lookupIdempotencyByKey (MsgStore.st_kv F st1) c (r_uid r) (r_cno r)) as [[[[q i] h]|]|e]; cbn [fst snd].
        * destruct (negb (q =? r_seq r)); cbn [fst snd].
          -- split; [exact Hg1|]. split; [exact HC1|]. intros; discriminate.
          -- split; [exact Ha1|]. split; [exact Ha2|]. intros; exact Ha3.
        * split; [exact Ha1|]. split; [exact Ha2|]. intros; exact Ha3.
        * split; [exact Hg1|]. split; [exact HC1|]. intros; discriminate.
  Qed.

  (* the loaded flag: trusted validation never touches it; an accepted strict / server row leaves it set *)
  Lemma validateAppendRow_floaded st c r sn mode :
    let st' := fst (validateAppendRow st c r sn mode) in
    ((mode =? AppendTrustedContiguous) = true -> forall c', cc_floaded F (st_cache st' c') = cc_floaded F (st_cache st c'))
    /\ ((mode =? AppendTrustedContiguous) = false -> forall sn', snd (validateAppendRow st c r sn mode) = inl sn' ->
         idem_cond r = true -> cc_floaded F (st_cache st' c) = true).
  Proof.
    unfold MsgStore.validateAppendRow.
    destruct (r_id r =? 0); [cbn [fst snd]; split; [reflexivity|intros; discriminate]|].
    destruct (mem_N (r_id r) (sn_ids sn)); [cbn [fst snd]; split; [reflexivity|intros; discriminate]|].
    destruct (if mode =? AppendStrict then _ else false); [cbn [fst snd]; split; [reflexivity|intros; discriminate]|].
    destruct (is_nil (r_uid r) || is_nil (r_cno r)) eqn:En.
    { cbn [fst snd]. split; [reflexivity|]. intros _ sn' _ Hi. exfalso.
      unfold idem_cond in Hi. apply andb_true_iff in Hi. destruct Hi as [H1 H2].
      apply negb_true_iff in H1, H2. rewrite H1, H2 in En. discriminate. }
    destruct (mem_pair _ _); [cbn [fst snd]; split; [reflexivity|intros; discriminate]|].
    destruct (mode =? AppendTrustedContiguous) eqn:Em.
    - split; [|intro; discriminate]. intros _ c'.
      destruct (cc_floaded F (st_cache st c)) eqn:El; cbn [fst]; [|reflexivity].
      unfold set_filter, set_cache. cbn [MsgStore.st_cache]. destruct (c' =? c) eqn:Ec; [|reflexivity].
      apply N.eqb_eq in Ec. subst. cbn [cc_floaded]. symmetry. exact El.
    - split; [intro; discriminate|]. intros _ sn'.
      assert (Hsf : forall s0 f, cc_floaded F (st_cache (set_filter F s0 c f true) c) = true).
      { intros. unfold set_filter, set_cache. cbn [MsgStore.st_cache]. rewrite N.eqb_refl. reflexivity. }
      destruct (negb (f_may _ _)); cbn [fst snd]; [intros; apply Hsf|].
      destruct (lookupIdempotencyByKey _ c (r_uid r) (r_cno r)) as [[[[q i] h]|]|e]; cbn [fst snd].
      + destruct (negb (q =? r_seq r)); cbn [fst snd]; [intros; discriminate|intros; apply Hsf].
      + intros; apply Hsf.
      + intros; discriminate.
  Qed.

  Lemma validate_rows_cov rows : forall st c sn mode,
    swf (st_kv st) -> Cov st ->
    let st' := fst (validate_rows st c rows sn mode) in
    grows st st' /\ Cov st'
    /\ (forall sn', snd (validate_rows st c rows sn mode) = inl sn' ->
         forall r, In r rows -> idem_cond r = true -> covers st' c (r_cno r) (r_uid r))
    /\ ((mode =? AppendTrustedContiguous) = true -> forall c', cc_floaded F (st_cache st' c') = cc_floaded F (st_cache st c')).
  Proof.
    induction rows as [|r rows IH]; intros st c sn mode W HC; cbn [MsgStore.validate_rows].
    - cbn [fst snd]. split; [apply grows_refl|]. split; [exact HC|]. split; [intros sn' _ r []|reflexivity].
    - destruct (validateAppendRow_cov st c r sn mode W HC) as [Hg1 [HC1 Hcov1]].
      destruct (validateAppendRow_floaded st c r sn mode) as [Hf1 Hf2].
      destruct (validateAppendRow st c r sn mode) as [st1 [sn1|e]] eqn:Ev; cbn [fst snd] in *.
      2:{ split; [exact Hg1|]. split; [exact HC1|]. split; [intros; discriminate|exact Hf1]. }
      assert (W1 : swf (st_kv st1)) by (destruct Hg1 as [Hk _]; rewrite Hk; exact W).
      destruct (IH st1 c sn1 mode W1 HC1) as [Hg2 [HC2 [Hcov2 Hf3]]].
      destruct (validate_rows st1 c rows sn1 mode) as [st2 res] eqn:Ev2. cbn [fst snd] in *.
      split; [eapply grows_trans; eassumption|]. split; [exact HC2|]. split.
      + intros sn' Hres r0 [<-|Hin] Hi; [|eapply Hcov2; eassumption].
        intro Hl2.
        assert (Hl1 : cc_floaded F (st_cache st1 c) = true).
        { destruct (mode =? AppendTrustedContiguous) eqn:Em.
          - rewrite <- (Hf3 eq_refl c). exact Hl2.
          - eapply Hf2; [reflexivity|reflexivity|exact Hi]. }
        destruct Hg2 as [_ Hg2]. destruct (Hg2 c) as [_ B]. apply B; [exact Hl1|].
        apply (Hcov1 sn1 eq_refl Hi). exact Hl1.
      + intros Em c'. rewrite (Hf3 Em c'). apply Hf1. exact Em.
  Qed.

  (* ---- committing batches ----------------------------------------------------------------------------------------- *)

  Definition no_idem_put (b : kbatch) : Prop :=
    Forall (fun o => match o with Put (KyIdem _ _ _) _ => False | _ => True end) b.

  Lemma keff_no_idem_put c n u b : no_idem_put b -> forall cur v,
    keff (KyIdem c n u) b cur = Some v -> cur = Some v.
  Proof.
    induction 1 as [|o b Ho Hb IH]; intros cur v; [cbn; auto|].
    rewrite keff_cons. intro H. apply IH in H. destruct o as [k v0|k|p]; cbn [op_effect] in H.
    - destruct k; try contradiction; cbn [key_eqb] in H; exact H.
    - destruct (key_eqb (KyIdem c n u) k); [discriminate|exact H].
    - destruct (p (KyIdem c n u)); [discriminate|exact H].
  Qed.

  Lemma no_idem_put_app b1 b2 : no_idem_put b1 -> no_idem_put b2 -> no_idem_put (b1 ++ b2).
  Proof. intros. apply Forall_app. split; assumption. Qed.

  Lemma same_cache_Cov (st st' : mstate) :
    (forall c, cc_filter F (st_cache st' c) = cc_filter F (st_cache st c) /\ cc_floaded F (st_cache st' c) = cc_floaded F (st_cache st c)) ->
    (forall c n u q i h, kget (KyIdem c n u) (st_kv st') = Some (VIdem q i h) ->
                         (exists q' i' h', kget (KyIdem c n u) (st_kv st) = Some (VIdem q' i' h')) \/ covers st c n u) ->
    Cov st -> Cov st'.
  Proof.
    intros Hc Hk HC c n u q i h G Hl. destruct (Hc c) as [E1 E2]. rewrite E1. rewrite E2 in Hl.
    destruct (Hk c n u q i h G) as [[q' [i' [h' G']]]|Hcov]; [apply (HC c n u q' i' h' G'); exact Hl|apply Hcov; exact Hl].
  Qed.

  Lemma Cov_commit_other st b : no_idem_put b -> Cov st -> Cov (commit F st b).
  Proof.
    intros Hb HC. apply (same_cache_Cov st); [intro; split; reflexivity| |exact HC].
    intros c n u q i h G. left. cbn [MsgStore.st_kv commit] in G. rewrite kget_apply in G.
    apply keff_no_idem_put in G; [|exact Hb]. eauto.
  Qed.

  Lemma keff_rows_idem c' n u c rows : forall cur v,
    keff (KyIdem c' n u) (stageMessageRows c rows) cur = Some v ->
    cur = Some v \/ (c' = c /\ exists r, In r rows /\ idem_cond r = true /\ n = r_cno r /\ u = r_uid r).
  Proof.
    induction rows as [|r rows IH]; intros cur v; [cbn; auto|].
    unfold stageMessageRows. cbn [flat_map]. fold (stageMessageRows c rows). rewrite keff_app. intro H.
    apply IH in H. destruct H as [H|[Hc [r0 [Hr0 H0]]]].
    - rewrite keff_stage_row in H.
      destruct (idem_cond r && ((c' =? c) && bytes_eqb n (r_cno r) && bytes_eqb u (r_uid r))) eqn:E; [|left; exact H].
      right. apply andb_true_iff in E. destruct E as [E1 E2]. beq. subst. split; [reflexivity|].
      exists r. split; [left; reflexivity|]. repeat split. exact E1.
    - right. split; [exact Hc|]. exists r0. split; [right; exact Hr0|exact H0].
  Qed.

  Lemma Cov_commit_rows st c rows rest :
    no_idem_put rest -> Cov st ->
    (forall r, In r rows -> idem_cond r = true -> covers st c (r_cno r) (r_uid r)) ->
    Cov (commit F st (stageMessageRows c rows ++ rest)).
  Proof.
    intros Hb HC Hrows. apply (same_cache_Cov st); [intro; split; reflexivity| |exact HC].
    intros c' n u q i h G. cbn [MsgStore.st_kv commit] in G. rewrite kget_apply, keff_app in G.
    apply keff_no_idem_put in G; [|exact Hb]. apply keff_rows_idem in G.
    destruct G as [G|[-> [r [Hr [Hi [-> ->]]]]]].
    - destruct (kget (KyIdem c' n u) (st_kv st)) as [v|] eqn:Gv; [|discriminate]. injection G as ->. left. eauto.
    - right. apply Hrows; assumption.
  Qed.

  Lemma set_leo_Cov st c leo : Cov st -> Cov (set_leo F st c leo).
  Proof.
    intro HC. apply (same_cache_Cov st); [| |exact HC].
    - intro c'. unfold set_leo, set_cache. cbn [MsgStore.st_cache]. destruct (c' =? c) eqn:E; [|split; reflexivity].
      apply N.eqb_eq in E. subst. split; reflexivity.
    - intros c' n u q i h G. left. eauto.
  Qed.

  Lemma loadLEO_Cov st c : Cov st -> Cov (fst (loadLEOLocked F st c)).
  Proof.
    intro HC. unfold MsgStore.loadLEOLocked. destruct (cc_loaded F (st_cache st c)); cbn [fst]; [exact HC|].
    apply (same_cache_Cov st); [| |exact HC].
    - intro c'. unfold set_cache. cbn [MsgStore.st_cache]. destruct (c' =? c) eqn:E; [|split; reflexivity].
      apply N.eqb_eq in E. subst. split; reflexivity.
    - intros c' n u q i h G. left. eauto.
  Qed.

  Lemma loadLEO_kv st c : st_kv (fst (loadLEOLocked F st c)) = st_kv st.
  Proof. unfold MsgStore.loadLEOLocked. destruct (cc_loaded F (st_cache st c)); reflexivity. Qed.

  (* ---- every step keeps the store well formed and the filters covering ---------------------------------------- *)

  Definition Inv (st : mstate) : Prop := swf (st_kv st) /\ Cov st.

  Lemma no_idem_catalog c : no_idem_put (stageCatalog c).
  Proof. repeat constructor. Qed.
  Lemma no_idem_catalog_app c b : no_idem_put (stageCatalogForAppend c b).
  Proof. unfold stageCatalogForAppend. destruct (1 <? b); [constructor|apply no_idem_catalog]. Qed.
  Lemma no_idem_ckpt c ck : no_idem_put (ckpt_put c ck).
  Proof. destruct ck as [[e l] h]. repeat constructor. Qed.
  Lemma no_idem_props c t : no_idem_put (stageTruncateDurableProposals c t).
  Proof. repeat constructor. Qed.
  Lemma no_idem_deletes c rows : no_idem_put (flat_map (stageDeleteMessage c) rows).
  Proof.
    induction rows as [|r rows IH]; cbn [flat_map]; [constructor|]. apply no_idem_put_app; [|exact IH].
    unfold stageDeleteMessage. repeat (apply no_idem_put_app);
      repeat match goal with |- context [if ?b then _ else _] => destruct b end; repeat constructor.
  Qed.

  Lemma Inv_commit_other st b : no_idem_put b -> Inv st -> Inv (commit F st b).
  Proof. intros Hb [W HC]. split; [apply swf_apply; exact W|apply Cov_commit_other; assumption]. Qed.

  Lemma Inv_loadLEO st c : Inv st -> Inv (fst (loadLEOLocked F st c)).
  Proof. intros [W HC]. split; [rewrite loadLEO_kv; exact W|apply loadLEO_Cov; exact HC]. Qed.

  Lemma Inv_set_leo st c leo : Inv st -> Inv (set_leo F st c leo).
  Proof. intros [W HC]. split; [exact W|apply set_leo_Cov; exact HC]. Qed.

  Lemma Inv_validated st c rows sn mode rest leo :
    Inv st -> no_idem_put rest ->
    match validate_rows st c rows sn mode with
    | (st2, inl _) => Inv st2 /\ Inv (set_leo F (commit F st2 (stageMessageRows c rows ++ rest)) c leo)
    | (st2, inr _) => Inv st2
    end.
  Proof.
    intros [W HC] Hrest. destruct (validate_rows_cov rows st c sn mode W HC) as [Hg [HC2 [Hcov _]]].
    destruct (validate_rows st c rows sn mode) as [st2 [sn2|e]]; cbn [fst snd] in *.
    - assert (W2 : swf (st_kv st2)) by (destruct Hg as [Hk _]; rewrite Hk; exact W).
      split; [split; assumption|]. apply Inv_set_leo. split; [apply swf_apply; exact W2|].
      apply Cov_commit_rows; [exact Hrest|exact HC2|]. intros r Hr Hi. eapply Hcov; [reflexivity|exact Hr|exact Hi].
    - split; [destruct Hg as [Hk _]; rewrite Hk; exact W|exact HC2].
  Qed.

  Lemma Inv_walk st c recs mode base :
    Inv st ->
    match walkAppendRowsLocked F f_may f_add st c recs mode base with
    | (st1, inl rows) => Inv st1 /\ forall rest leo, no_idem_put rest ->
                          Inv (set_leo F (commit F st1 (stageMessageRows c rows ++ rest)) c leo)
                          /\ Inv (commit F st1 (stageMessageRows c rows ++ rest))
    | (st1, inr _) => Inv st1
    end.
  Proof.
    intro HI. unfold walkAppendRowsLocked.
    destruct (negb (valid_mode mode)); [exact HI|].
    pose proof (Inv_loadLEO st c HI) as HI1. destruct (loadLEOLocked F st c) as [st1 leo]. cbn [fst] in HI1.
    destruct (negb (base =? 0) && negb (base =? leo + 1)); [exact HI1|].
    destruct recs as [|x recs].
    - split; [exact HI1|]. intros rest leo' Hrest. cbn [stageMessageRows flat_map app].
      split; [apply Inv_set_leo|]; apply Inv_commit_other; assumption.
    - pose proof (fun rest leo' => Inv_validated st1 c (rows_from c (leo + 1) (x :: recs)) (Seen [] []) mode rest leo' HI1) as H.
      destruct (validate_rows st1 c (rows_from c (leo + 1) (x :: recs)) (Seen [] []) mode) as [st2 [sn2|e]].
      + split; [apply (H [] 0); constructor|]. intros rest leo' Hrest. destruct (H rest leo' Hrest) as [_ H2].
        split; [exact H2|]. destruct H2 as [W2 C2]. split; [exact W2|].
        (* without the final set_leo the caches are the same *)
        apply (same_cache_Cov (set_leo F (commit F st2 (stageMessageRows c (rows_from c (leo + 1) (x :: recs)) ++ rest)) c leo')); [| |exact C2].
        * intro c'. unfold set_leo, set_cache. cbn [MsgStore.st_cache]. destruct (c' =? c) eqn:E; [|split; reflexivity].
          apply N.eqb_eq in E. subst. split; reflexivity.
        * intros c' n u q i h G. left. eauto.
      + apply (H [] 0). constructor.
  Qed.

  (* the paged DiscardForRestore stages no idempotency entry and keeps the filter *)
  Lemma Inv_discard_pages fuel : forall st c next, Inv st -> Inv (fst (discard_pages F fuel st c next)).
  Proof.
    induction fuel as [|fuel IH]; intros st c next HI; cbn [discard_pages]; [exact HI|].
    destruct (readForward (st_kv st) c next 0 _ _) as [[|r rows]|e]; [exact HI| |exact HI].
    assert (H1 : Inv (commit F st (flat_map (stageDeleteMessage c) (r :: rows)))) by (apply Inv_commit_other; [apply no_idem_deletes|exact HI]).
    destruct (last_seq (r :: rows) <? next); [exact H1|]. apply IH. exact H1.
  Qed.

  Lemma Inv_drop_leo st c : Inv st ->
    Inv (set_cache F st c (CC F 0 false (cc_filter F (st_cache st c)) (cc_floaded F (st_cache st c)))).
  Proof.
    intros [W HC]. split; [exact W|].
    apply (same_cache_Cov st); [| |exact HC].
    - intro c'. unfold set_cache. cbn [MsgStore.st_cache]. destruct (c' =? c) eqn:E; [|split; reflexivity].
      apply N.eqb_eq in E. subst. split; reflexivity.
    - intros c' n u q i h G. left. eauto.
  Qed.

  Lemma Inv_discard st c : Inv st -> Inv (fst (DiscardForRestore F st c)).
  Proof.
    intro HI. unfold DiscardForRestore.
    pose proof (Inv_discard_pages (S (length (rows_unsorted (st_kv st) c))) st c 1 HI) as H1.
    destruct (discard_pages F _ st c 1) as [st1 [u|e]]; cbn [fst] in *; [|exact H1].
    apply Inv_drop_leo. apply Inv_commit_other; [repeat constructor|exact H1].
  Qed.

  Lemma Inv_step compact st o : Inv st -> (forall items, o <> OCBatch items) -> Inv (fst (fst (step_dump F f_empty f_may f_add compact st o))).
  Proof.
    intros HI Hnb.
    assert (Hdump : forall st1 c nr, Inv st1 -> Inv (fst (dump_chan F st1 c nr))).
    { intros st1 c nr H1. unfold dump_chan. pose proof (Inv_loadLEO st1 c H1) as H2.
      destruct (loadLEOLocked F st1 c) as [st2 leo]. exact H2. }
    assert (Hdumps : forall cs st1, Inv st1 -> Inv (fst (dump_chans F st1 cs))).
    { induction cs as [|c cs IH]; intros st1 H1; cbn [dump_chans fst]; [exact H1|].
      pose proof (Hdump st1 c None H1) as H2. destruct (dump_chan F st1 c None) as [st2 d]. cbn [fst] in H2.
      pose proof (IH st2 H2) as H3. destruct (dump_chans F st2 cs) as [st3 ds]. exact H3. }
    assert (Hstep : Inv (fst (MsgStore.step F f_empty f_may f_add st o))).
    { destruct o; cbn [MsgStore.step]; try (exfalso; eapply Hnb; reflexivity); try exact HI.
      - (* Append *)
        unfold Append. pose proof (Inv_walk st c recs mode base HI) as H.
        destruct (walkAppendRowsLocked F f_may f_add st c recs mode base) as [st1 [rows|e]]; [|exact H].
        destruct H as [H1 H2]. destruct rows as [|r rows]; [exact H1|]. cbn [fst].
        apply (H2 _ _ (no_idem_catalog_app c _)).
      - (* ApplyFetch *)
        unfold ApplyFetch. pose proof (Inv_walk st c recs AppendTrustedContiguous base HI) as H.
        destruct (walkAppendRowsLocked F f_may f_add st c recs AppendTrustedContiguous base) as [st1 [rows|e]]; [|exact H].
        destruct H as [H1 H2].
        destruct (match ck with Some k => validateCheckpointMonotonicLocked _ c k _ _ | None => ok tt end); [|exact H1].
        destruct (match ep with Some (epoch, off) => shouldAppendHistoryPoint _ epoch off | None => ok false end) as [we|e]; [|exact H1].
        assert (Hrest : no_idem_put ((match ck with Some k => ckpt_put c k | None => [] end)
                          ++ (match ep with Some (epoch, off) => if we then [Put (KyHist c off epoch) VUnit] else [] | None => [] end)
                          ++ (match rows with [] => stageCatalog c | _ => stageCatalogForAppend c (first_seq rows) end))).
        { apply no_idem_put_app; [destruct ck; [apply no_idem_ckpt|constructor]|].
          apply no_idem_put_app; [destruct ep as [[? ?]|]; [destruct we; repeat constructor|constructor]|].
          destruct rows; [apply no_idem_catalog|apply no_idem_catalog_app]. }
        destruct (H2 _ (last_seq rows) Hrest) as [H3 H4].
        destruct rows as [|r rows]; [destruct ck; [exact H4|destruct we; [exact H4|exact H1]]|].
        destruct ck; [exact H3|destruct we; exact H3].
      - (* CAppend *)
        unfold CAppend. pose proof (Inv_loadLEO st c HI) as HI1. destruct (loadLEOLocked F st c) as [st1 base]. cbn [fst] in HI1.
        destruct recs as [|x recs]; [exact HI1|].
        destruct (compatibilityRowsFromRecords c (base + 1) (x :: recs)) as [rows|e]; [|exact HI1].
        pose proof (Inv_validated st1 c rows (Seen [] []) mode (stageCatalogForAppend c (first_seq rows))
                      (base + N.of_nat (length (x :: recs))) HI1 (no_idem_catalog_app c _)) as H.
        destruct (validate_rows st1 c rows (Seen [] []) mode) as [st2 [sn2|e]]; [apply H|exact H].
      - (* TruncateFrom *)
        unfold TruncateFrom. pose proof (Inv_loadLEO st c HI) as HI1. destruct (loadLEOLocked F st c) as [st1 leo]. cbn [fst] in HI1.
        destruct (leo <? _); [exact HI1|].
        destruct (retentionStateAfterTruncate _ c _) as [retb|e] eqn:Er; [|exact HI1].
        destruct (readForward _ c _ 0 0 0) as [msgs|e]; [|exact HI1]. cbn [fst].
        apply Inv_set_leo. apply Inv_commit_other; [|exact HI1].
        apply no_idem_put_app; [apply no_idem_props|]. apply no_idem_put_app; [apply no_idem_deletes|].
        apply no_idem_put_app; [|apply no_idem_catalog].
        unfold retentionStateAfterTruncate in Er. destruct (loadRetentionState _ c) as [[[l p] rm]|]; [|injection Er as <-; constructor].
        destruct (_ <? l); [discriminate|]. destruct (_ <? rm); injection Er as <-; repeat constructor.
      - (* CTruncate *)
        unfold CTruncate. pose proof (Inv_loadLEO st c HI) as HI1. destruct (loadLEOLocked F st c) as [st1 leo]. cbn [fst] in HI1.
        destruct (leo <? to); [exact HI1|]. destruct (to =? leo); [exact HI1|].
        destruct (retentionStateAfterTruncate _ c to) as [retb|e] eqn:Er; [|exact HI1].
        destruct (readForward _ c _ 0 0 0) as [msgs|e]; [|exact HI1]. cbn [fst].
        apply Inv_set_leo. apply Inv_commit_other; [|exact HI1].
        apply no_idem_put_app; [apply no_idem_props|]. apply no_idem_put_app; [apply no_idem_deletes|].
        apply no_idem_put_app; [|apply no_idem_catalog].
        unfold retentionStateAfterTruncate in Er. destruct (loadRetentionState _ c) as [[[l p] rm]|]; [|injection Er as <-; constructor].
        destruct (to <? l); [discriminate|]. destruct (to <? rm); injection Er as <-; repeat constructor.
      - (* Trim *)
        unfold TrimPrefixThroughLimit. destruct (through =? 0); [exact HI|].
        pose proof (Inv_loadLEO st c HI) as HI1. destruct (loadLEOLocked F st c) as [st1 leo]. cbn [fst] in HI1.
        destruct (match loadRetentionState _ c with Some x => x | None => (0, 0, 0) end) as [[l0 p0] r0].
        destruct (readForward _ c _ through _ _) as [rows|e]; [|exact HI1]. cbn [fst].
        apply Inv_set_leo. apply Inv_commit_other; [|exact HI1].
        apply no_idem_put_app; [apply no_idem_deletes|]. apply no_idem_put_app; [repeat constructor|apply no_idem_catalog].
      - (* StoreCheckpoint *)
        unfold StoreCheckpoint. destruct (validateCheckpoint _); [|exact HI]. cbn [fst].
        apply Inv_commit_other; [|exact HI]. apply no_idem_put_app; [apply no_idem_ckpt|apply no_idem_catalog].
      - unfold StoreCheckpointMonotonic. destruct (validateCheckpointMonotonicLocked _ c _ _ _); [|exact HI].
        unfold StoreCheckpoint. destruct (validateCheckpoint _); [|exact HI]. cbn [fst].
        apply Inv_commit_other; [|exact HI]. apply no_idem_put_app; [apply no_idem_ckpt|apply no_idem_catalog].
      - (* reopen *)
        destruct HI as [W _]. split; [exact W|]. intros c n u q i h _ Hl. discriminate Hl.
      - (* ReadReverse *)
        unfold ReadReverse. destruct (fromSeq =? 0).
        + pose proof (Inv_loadLEO st c HI) as HI1. destruct (loadLEOLocked F st c) as [st1 leo]. cbn [fst] in HI1.
          destruct (readForward _ c 1 leo 0 0); exact HI1.
        + destruct (readForward _ c 1 fromSeq 0 0); exact HI.
      - (* LEO *)
        pose proof (Inv_loadLEO st c HI) as HI1. destruct (loadLEOLocked F st c) as [st1 leo]. exact HI1.
      - (* DiscardForRestore *)
        pose proof (Inv_discard st c HI) as H1. destruct (DiscardForRestore F st c) as [st1 r]. exact H1. }
    unfold MsgStore.step_dump. destruct (MsgStore.step F f_empty f_may f_add st o) as [st1 x]. cbn [fst] in Hstep.
    destruct o; try (exfalso; eapply Hnb; reflexivity);
      try (cbn [is_mutation andb]; destruct compact; cbn [negb fst];
           [exact Hstep|]);
      try (match goal with |- context [dump_chan F st1 ?c ?nr] =>
             pose proof (Hdump st1 c nr Hstep) as H2; destruct (dump_chan F st1 c nr) as [st2 d]; exact H2 end);
      try exact Hstep.
    all: try (pose proof (Hdumps all_chans st1 Hstep) as H2; destruct (dump_chans F st1 all_chans) as [st2 ds]; exact H2).
  Qed.

  (* ---- 3. what must be rejected is rejected ------------------------------------------------------------------------ *)

  Fixpoint ids_dup (rows : list row) (seen : list N) : bool :=
    match rows with
    | [] => false
    | r :: rest => if mem_N (r_id r) seen then true else ids_dup rest (r_id r :: seen)
    end.

  Fixpoint pairs_dup (rows : list row) (seen : list (bytes * bytes)) : bool :=
    match rows with
    | [] => false
    | r :: rest =>
      if both_nonempty (r_uid r) (r_cno r)
      then if mem_pair (r_uid r, r_cno r) seen then true else pairs_dup rest ((r_uid r, r_cno r) :: seen)
      else pairs_dup rest seen
    end.

  Definition row_must (s : aspec) (c mode : N) (r : row) : Prop :=
    ((mode =? AppendTrustedContiguous) = false /\ both_nonempty (r_uid r) (r_cno r) = true
     /\ pair_stored (as_log s c) (r_uid r) (r_cno r) = true /\ pair_tainted (as_log s c) (r_uid r) (r_cno r) = false)
    \/ ((mode =? AppendStrict) = true /\ id_stored s (r_id r) = true /\ ~ In (r_id r) (as_tids s)).

  Lemma both_nonempty_nil u n : both_nonempty u n = negb (is_nil u || is_nil n).
  Proof. unfold both_nonempty. destruct (is_nil u), (is_nil n); reflexivity. Qed.

  (* the seen sets after an accepted row *)
  Lemma validateAppendRow_seen st c r sn mode st' sn' :
    validateAppendRow st c r sn mode = (st', inl sn') ->
    mem_N (r_id r) (sn_ids sn) = false /\ sn_ids sn' = r_id r :: sn_ids sn
    /\ (if both_nonempty (r_uid r) (r_cno r)
        then mem_pair (r_uid r, r_cno r) (sn_keys sn) = false /\ sn_keys sn' = (r_uid r, r_cno r) :: sn_keys sn
        else sn_keys sn' = sn_keys sn).
  Proof.
    unfold MsgStore.validateAppendRow. rewrite both_nonempty_nil.
    destruct (r_id r =? 0); [intro H; discriminate H|].
    destruct (mem_N (r_id r) (sn_ids sn)) eqn:Em; [intro H; discriminate H|].
    destruct (if mode =? AppendStrict then _ else false); [intro H; discriminate H|].
    destruct (is_nil (r_uid r) || is_nil (r_cno r)); cbn [negb].
    - intro H. injection H as _ <-. cbn [sn_ids sn_keys]. repeat split.
    - cbn [sn_keys sn_ids]. destruct (mem_pair (r_uid r, r_cno r) (sn_keys sn)) eqn:Ep; [intro H; discriminate H|].
      destruct (mode =? AppendTrustedContiguous).
      + intro H. injection H as _ <-. cbn [sn_ids sn_keys]. repeat split.
      + destruct (negb (f_may _ _)); [intro H; injection H as _ <-; cbn [sn_ids sn_keys]; repeat split|].
        destruct (lookupIdempotencyByKey _ c (r_uid r) (r_cno r)) as [[[[q i] h]|]|e];
          [destruct (negb (q =? r_seq r)); [intro H; discriminate H|]| |intro H; discriminate H];
          intro H; injection H as _ <-; cbn [sn_ids sn_keys]; repeat split.
  Qed.

  (* a row the plain log must reject is rejected when validation reaches it *)
  Lemma validateAppendRow_must st s c r sn mode :
    Rkv (st_kv st) s -> Inv st -> al_leo (as_log s c) < r_seq r -> row_must s c mode r ->
    exists e, snd (validateAppendRow st c r sn mode) = inr e.
  Proof.
    intros HR [W HC] Hseq Hm. unfold MsgStore.validateAppendRow.
    destruct (r_id r =? 0); [eexists; reflexivity|].
    destruct (mem_N (r_id r) (sn_ids sn)); [eexists; reflexivity|].
    destruct Hm as [[Em [Hbn [Hps Hpt]]]|[Em [Hid Hnt]]].
    - (* a stored, untainted pair *)
      destruct (if mode =? AppendStrict then _ else false); [eexists; reflexivity|].
      rewrite both_nonempty_nil in Hbn. apply negb_true_iff in Hbn. rewrite Hbn.
      destruct (mem_pair _ _); [eexists; reflexivity|]. rewrite Em.
      (* the stored row *)
      destruct (rk_chan _ _ HR c) as [rows Rc].
      unfold pair_stored in Hps. apply existsb_exists in Hps. destruct Hps as [a [Ha Hp]].
      rewrite (rc_rows _ _ _ _ Rc) in Ha. apply in_map_iff in Ha. destruct Ha as [r0 [<- Hr0]].
      cbn [arow_of a_msg m_uid m_cno messageFromRow] in Hp. beq.
      assert (Hu0 : r_uid r0 <> []) by (apply orb_false_iff in Hbn; destruct Hbn as [Hbn _]; apply is_nil_false in Hbn; congruence).
      assert (Hn0 : r_cno r0 <> []) by (apply orb_false_iff in Hbn; destruct Hbn as [_ Hbn]; apply is_nil_false in Hbn; congruence).
      assert (Hpt0 : pair_tainted (as_log s c) (r_uid r0) (r_cno r0) = false) by congruence.
      pose proof (rc_idem_complete _ _ _ _ Rc r0 Hr0 Hu0 Hn0 Hpt0) as G. rewrite H, H0 in G.
      set (st1 := ensureIdempotencyMembershipLoaded F f_add st c).
      destruct (ensure_loaded st c W HC) as [Hl1 Hcov1]. fold st1 in Hl1, Hcov1.
      rewrite (Hcov1 _ _ _ _ _ G). cbn [negb].
      assert (Hkv1 : MsgStore.st_kv F st1 = st_kv st) by (apply (ensure_grows st c)).
      rewrite Hkv1.
      destruct (lookupIdem_spec _ _ _ _ (r_uid r) (r_cno r) Rc) as [[r1 [Hr1 [Hu1 [Hn1 E]]]]|[E Hno]].
      + rewrite E. unfold ok. cbv beta iota. assert (Hle : r_seq r1 <= al_leo (as_log s c)).
        { pose proof (rc_le_leo _ _ _ _ Rc) as Hle. eapply Forall_forall in Hle; eassumption. }
        assert (Eq : (r_seq r1 =? r_seq r) = false) by (apply N.eqb_neq; lia). rewrite Eq. cbn [negb].
        eexists; reflexivity.
      + exfalso. eapply Hno. exact G.
    - (* a stored, untainted id, strict mode *)
      rewrite Em.
      unfold id_stored in Hid. apply existsb_exists in Hid. destruct Hid as [c0 [Hc0 Hex]].
      apply existsb_exists in Hex. destruct Hex as [a [Ha Hi]].
      destruct (rk_chan _ _ HR c0) as [rows0 Rc0].
      rewrite (rc_rows _ _ _ _ Rc0) in Ha. apply in_map_iff in Ha. destruct Ha as [r0 [<- Hr0]].
      cbn [arow_of a_msg m_id messageFromRow] in Hi. apply N.eqb_eq in Hi.
      assert (G0 : kget (KyRow c0 (r_seq r0)) (st_kv st) = Some (VRow r0)) by (apply Rc0; split; [exact Hr0|reflexivity]).
      assert (Gg : kget (KyGid (r_id r0)) (st_kv st) = Some (VGid c0 (r_seq r0))).
      { apply (rk_gc _ _ HR _ _ _ G0). rewrite Hi. exact Hnt. }
      rewrite Hi in Gg. rewrite Gg.
      assert (Hneg : negb ((c0 =? c) && (r_seq r0 =? r_seq r)) = true).
      { apply negb_true_iff. destruct (c0 =? c) eqn:Ec; [|reflexivity]. apply N.eqb_eq in Ec. subst c0.
        pose proof (rc_le_leo _ _ _ _ Rc0) as Hle. eapply Forall_forall in Hle; [|exact Hr0].
        cbn [andb]. apply N.eqb_neq. lia. }
      rewrite Hneg. eexists; reflexivity.
  Qed.

  Lemma validate_rows_rejects s c mode rows : forall st sn,
    Rkv (st_kv st) s -> Inv st -> Forall (fun r => al_leo (as_log s c) < r_seq r) rows ->
    (ids_dup rows (sn_ids sn) = true \/ pairs_dup rows (sn_keys sn) = true \/ exists r, In r rows /\ row_must s c mode r) ->
    exists e, snd (validate_rows st c rows sn mode) = inr e.
  Proof.
    induction rows as [|r rows IH]; intros st sn HR HI Hseq Hm.
    - exfalso. destruct Hm as [H|[H|[r [[] _]]]]; discriminate H.
    - cbn [MsgStore.validate_rows]. inversion Hseq as [|? ? Hs1 Hs2]; subst.
      destruct (validateAppendRow st c r sn mode) as [st1 [sn1|e]] eqn:Ev; [|eexists; reflexivity].
      destruct (validateAppendRow_seen _ _ _ _ _ _ _ Ev) as [Hm1 [Hids Hkeys]].
      destruct HI as [W HC].
      destruct (validateAppendRow_cov st c r sn mode W HC) as [Hg [HC1 _]]. rewrite Ev in Hg, HC1. cbn [fst] in Hg, HC1.
      assert (Hkv : st_kv st1 = st_kv st) by apply Hg.
      apply IH; [rewrite Hkv; exact HR|split; [rewrite Hkv; exact W|exact HC1]|exact Hs2|].
      destruct Hm as [H|[H|[r0 [[<-|Hin] Hmust]]]].
      + left. cbn [ids_dup] in H. rewrite Hm1 in H. rewrite Hids. exact H.
      + right. left. cbn [pairs_dup] in H. destruct (both_nonempty (r_uid r) (r_cno r)).
        * destruct Hkeys as [Hk1 Hk2]. rewrite Hk1 in H. rewrite Hk2. exact H.
        * rewrite Hkeys. exact H.
      + exfalso. destruct (validateAppendRow_must st s c r sn mode HR (conj W HC) Hs1 Hmust) as [e He].
        rewrite Ev in He. discriminate He.
      + right. right. exists r0. split; assumption.
  Qed.

  (* ---- from records to rows ------------------------------------------------------------------------------------------- *)

  Fixpoint rec_ids_dup (l : list rec) (seen : list N) : bool :=
    match l with
    | [] => false
    | x :: r => if mem_N (i_id x) seen then true else rec_ids_dup r (i_id x :: seen)
    end.

  Fixpoint rec_pairs_dup (l : list rec) (seen : list (bytes * bytes)) : bool :=
    match l with
    | [] => false
    | x :: r =>
      if both_nonempty (i_uid x) (i_cno x)
      then if mem_pair (i_uid x, i_cno x) seen then true else rec_pairs_dup r ((i_uid x, i_cno x) :: seen)
      else rec_pairs_dup r seen
    end.

  Lemma rec_id_dup_eq recs : rec_id_dup_in_batch recs = rec_ids_dup recs [].
  Proof. reflexivity. Qed.

  Lemma rec_pair_dup_eq recs : rec_pair_dup_in_batch recs = rec_pairs_dup recs [].
  Proof. reflexivity. Qed.

  (* rows carrying the ids / pairs of the records *)
  Definition same_keys (r : row) (x : rec) : Prop := r_id r = i_id x /\ r_uid r = i_uid x /\ r_cno r = i_cno x.

  Lemma ids_dup_same rows recs : Forall2 same_keys rows recs -> forall seen, ids_dup rows seen = rec_ids_dup recs seen.
  Proof.
    induction 1 as [|r x rows recs [Hi _] _ IH]; intro seen; cbn [ids_dup rec_ids_dup]; [reflexivity|].
    rewrite Hi, IH. reflexivity.
  Qed.

  Lemma pairs_dup_same rows recs : Forall2 same_keys rows recs -> forall seen, pairs_dup rows seen = rec_pairs_dup recs seen.
  Proof.
    induction 1 as [|r x rows recs [_ [Hu Hn]] _ IH]; intro seen; cbn [pairs_dup rec_pairs_dup]; [reflexivity|].
    rewrite Hu, Hn, !IH. reflexivity.
  Qed.

  Lemma rows_from_same c recs : forall q, Forall2 same_keys (rows_from c q recs) recs.
  Proof.
    induction recs as [|x recs IH]; intro q; cbn [rows_from]; constructor; [|apply IH].
    unfold same_keys, recordToRow. cbn. repeat split.
  Qed.

  Lemma compat_same c recs : forall q rows, compatibilityRowsFromRecords c q recs = ok rows -> Forall2 same_keys rows recs.
  Proof.
    induction recs as [|x recs IH]; intros q rows H; cbn [compatibilityRowsFromRecords] in H.
    - injection H as <-. constructor.
    - destruct (negb (i_ridx x =? 0) && negb (i_ridx x =? q)); [discriminate|].
      destruct (i_id x =? 0); [discriminate|].
      destruct (negb (i_rid x =? 0) && negb (i_rid x =? i_id x)); [discriminate|].
      destruct (compatibilityRowsFromRecords c (q + 1) recs) as [rs|e] eqn:E; [|discriminate].
      cbn [bind ok] in H. injection H as <-. constructor; [|eapply IH; exact E].
      unfold same_keys. cbn. repeat split.
  Qed.

  Lemma must_reject_rows s c mode rows recs :
    Forall2 same_keys rows recs -> must_reject s c mode recs = true ->
    ids_dup rows [] = true \/ pairs_dup rows [] = true \/ exists r, In r rows /\ row_must s c mode r.
  Proof.
    intros Hsame Hm. unfold must_reject in Hm.
    rewrite rec_id_dup_eq, rec_pair_dup_eq in Hm.
    apply orb_true_iff in Hm. destruct Hm as [Hm|Hm].
    apply orb_true_iff in Hm. destruct Hm as [Hm|Hm].
    apply orb_true_iff in Hm. destruct Hm as [Hm|Hm].
    - left. rewrite (ids_dup_same _ _ Hsame). exact Hm.
    - right. left. rewrite (pairs_dup_same _ _ Hsame). exact Hm.
    - right. right. apply andb_true_iff in Hm. destruct Hm as [Hmode Hex]. apply negb_true_iff in Hmode.
      apply existsb_exists in Hex. destruct Hex as [x [Hx Hp]].
      apply andb_true_iff in Hp. destruct Hp as [Hp Ht]. apply andb_true_iff in Hp. destruct Hp as [Hbn Hps]. apply negb_true_iff in Ht.
      clear - Hsame Hx Hmode Hbn Hps Ht. induction Hsame as [|r y rows recs [_ [Hu Hn]] _ IH]; [destruct Hx|].
      destruct Hx as [->|Hx].
      + exists r. split; [left; reflexivity|]. left. rewrite Hu, Hn. repeat split; assumption.
      + destruct (IH Hx) as [r0 [H1 H2]]. exists r0. split; [right; exact H1|exact H2].
    - right. right. apply andb_true_iff in Hm. destruct Hm as [Hmode Hex].
      apply existsb_exists in Hex. destruct Hex as [x [Hx Hp]].
      apply andb_true_iff in Hp. destruct Hp as [Hid Ht]. apply negb_true_iff in Ht.
      assert (Hnt : ~ In (i_id x) (as_tids s)).
      { intro Hin. apply existsb_Neqb_in in Hin. rewrite Hin in Ht. discriminate. }
      clear Ht. clear - Hsame Hx Hmode Hid Hnt. induction Hsame as [|r y rows recs [Hi _] _ IH]; [destruct Hx|].
      destruct Hx as [->|Hx].
      + exists r. split; [left; reflexivity|]. right. rewrite Hi. repeat split; assumption.
      + destruct (IH Hx) as [r0 [H1 H2]]. exists r0. split; [right; exact H1|exact H2].
  Qed.

  Lemma rows_from_above c recs : forall q leo, leo < q -> Forall (fun r => leo < r_seq r) (rows_from c q recs).
  Proof. induction recs as [|x recs IH]; intros q leo H; cbn [rows_from]; constructor; [cbn; exact H|apply IH; lia]. Qed.

  Lemma consec_above q rows leo : leo < q -> consec q rows -> Forall (fun r => leo < r_seq r) rows.
  Proof.
    revert q. induction rows as [|r rows IH]; intros q H Hc; constructor; destruct Hc as [Hs Hc]; [lia|apply (IH (q + 1)); [lia|exact Hc]].
  Qed.

  Lemma must_reject_nil s c mode : must_reject s c mode [] = false.
  Proof. unfold must_reject. cbn. rewrite !andb_false_r. reflexivity. Qed.

  (* ---- the three append APIs reject what must be rejected ---------------------------------------------------------------- *)

  Notation R := (MsgStore_reads.R F).

  Theorem append_rejects st s c mode base recs :
    R st s -> Inv st -> must_reject s c mode recs = true ->
    exists e, snd (Append F f_may f_add st c recs mode base) = inr e.
  Proof.
    intros HR HI Hm. unfold Append, walkAppendRowsLocked.
    destruct (negb (valid_mode mode)); [eexists; reflexivity|].
    destruct (loadLEO_R F st s c HR) as [H1 [H2 [H3 _]]]. pose proof (Inv_loadLEO st c HI) as HI1.
    destruct (loadLEOLocked F st c) as [st1 leo]. cbn [fst snd] in *. subst leo.
    destruct (negb (base =? 0) && negb (base =? al_leo (as_log s c) + 1)); [eexists; reflexivity|].
    destruct recs as [|x recs]; [rewrite must_reject_nil in Hm; discriminate Hm|].
    set (rows := rows_from c (al_leo (as_log s c) + 1) (x :: recs)).
    destruct (validate_rows_rejects s c mode rows st1 (Seen [] []) (proj1 H2) HI1) as [e He].
    - apply rows_from_above. lia.
    - apply (must_reject_rows s c mode rows (x :: recs)); [apply rows_from_same|exact Hm].
    - destruct (validate_rows st1 c rows (Seen [] []) mode) as [st2 [sn|e']]; [discriminate He|]. eexists; reflexivity.
  Qed.

  Theorem apply_rejects st s c base recs ck ep :
    R st s -> Inv st -> must_reject s c AppendTrustedContiguous recs = true ->
    exists e, snd (ApplyFetch F f_may f_add st c base recs ck ep) = inr e.
  Proof.
    intros HR HI Hm. unfold ApplyFetch, walkAppendRowsLocked.
    assert (Hv : negb (valid_mode AppendTrustedContiguous) = false) by reflexivity. rewrite Hv.
    destruct (loadLEO_R F st s c HR) as [H1 [H2 [H3 _]]]. pose proof (Inv_loadLEO st c HI) as HI1.
    destruct (loadLEOLocked F st c) as [st1 leo]. cbn [fst snd] in *. subst leo.
    destruct (negb (base =? 0) && negb (base =? al_leo (as_log s c) + 1)); [eexists; reflexivity|].
    destruct recs as [|x recs]; [rewrite must_reject_nil in Hm; discriminate Hm|].
    set (rows := rows_from c (al_leo (as_log s c) + 1) (x :: recs)).
    destruct (validate_rows_rejects s c AppendTrustedContiguous rows st1 (Seen [] []) (proj1 H2) HI1) as [e He].
    - apply rows_from_above. lia.
    - apply (must_reject_rows s c _ rows (x :: recs)); [apply rows_from_same|exact Hm].
    - destruct (validate_rows st1 c rows (Seen [] []) AppendTrustedContiguous) as [st2 [sn|e']]; [discriminate He|]. eexists; reflexivity.
  Qed.

  Theorem capp_rejects st s c mode recs :
    R st s -> Inv st -> must_reject s c mode recs = true ->
    exists e, snd (CAppend F f_may f_add st c recs mode) = inr e.
  Proof.
    intros HR HI Hm. unfold CAppend.
    destruct (loadLEO_R F st s c HR) as [H1 [H2 [H3 _]]]. pose proof (Inv_loadLEO st c HI) as HI1.
    destruct (loadLEOLocked F st c) as [st1 leo]. cbn [fst snd] in *. subst leo.
    destruct recs as [|x recs]; [rewrite must_reject_nil in Hm; discriminate Hm|].
    destruct (compatibilityRowsFromRecords c (al_leo (as_log s c) + 1) (x :: recs)) as [rows|e] eqn:Ec; [|eexists; reflexivity].
    destruct (compat_rows _ _ _ _ Ec) as [Hcs _].
    destruct (validate_rows_rejects s c mode rows st1 (Seen [] []) (proj1 H2) HI1) as [e He].
    - eapply consec_above; [|exact Hcs]. lia.
    - apply (must_reject_rows s c mode rows (x :: recs)); [eapply compat_same; exact Ec|exact Hm].
    - destruct (validate_rows st1 c rows (Seen [] []) mode) as [st2 [sn|e']]; [discriminate He|]. eexists; reflexivity.
  Qed.

  (* ---- 4. the C08 monitor accepts every trace of the model ------------------------------------------------------------- *)

  Notation step := (MsgStore.step F f_empty f_may f_add).
  Notation step_dump := (MsgStore.step_dump F f_empty f_may f_add).
  Notation run := (MsgStore.run F f_empty f_may f_add).

  Lemma step_code_zero st s o ds :
    R st s -> Inv st -> op_ok o -> c08_step_code s (E o (snd (step st o)) ds) = 0.
  Proof.
    intros HR HI [_ Hb]. destruct o; try contradiction; cbn [c08_step_code MsgStore.step]; try reflexivity.
    - destruct (must_reject s c mode recs) eqn:Em; [|rewrite andb_false_r; reflexivity].
      destruct (append_rejects st s c mode base recs HR HI Em) as [e He].
      destruct (Append F f_may f_add st c recs mode base) as [st' r]. cbn [snd] in *. subst r. reflexivity.
    - destruct (must_reject s c AppendTrustedContiguous recs) eqn:Em; [|rewrite andb_false_r; reflexivity].
      destruct (apply_rejects st s c base recs ck ep HR HI Em) as [e He].
      destruct (ApplyFetch F f_may f_add st c base recs ck ep) as [st' r]. cbn [snd] in *. subst r. reflexivity.
    - destruct (must_reject s c mode recs) eqn:Em; [|rewrite andb_false_r; reflexivity].
      destruct (capp_rejects st s c mode recs HR HI Em) as [e He].
      destruct (CAppend F f_may f_add st c recs mode) as [st' r]. cbn [snd] in *. subst r. reflexivity.
  Qed.

  Lemma Inv_init : Inv (st_init F f_empty).
  Proof. split; [constructor|]. intros c n u q i h H. discriminate H. Qed.

  Lemma run_c08 compact ops : forall st s,
    R st s -> Inv st -> Forall op_ok ops ->
    c08_run s (entries ops (snd (run compact st ops))) = 0.
  Proof.
    induction ops as [|o ops IH]; intros st s HR HI Hok; cbn [MsgStore.run entries snd c08_run]; [reflexivity|].
    inversion Hok as [|? ? Ho Hrest]; subst.
    pose proof (step_sim F f_empty f_may f_add compact st s o HR (op_ok_b o Ho)) as Hs.
    pose proof (Inv_step compact st o HI) as HI1.
    pose proof (step_code_zero st s o) as Hc.
    unfold MsgStore.step_dump in *.
    destruct (step st o) as [st1 x] eqn:Es. cbn [snd] in Hc.
    destruct (match o with
              | OReopen => dump_chans F st1 all_chans
              | OCBatch _ => if compact then (st1, []) else dump_chans F st1 all_chans
              | _ => if is_mutation o && negb compact
                     then let '(st2, d) := dump_chan F st1 (op_chan o) (new_range o x) in (st2, [d])
                     else (st1, [])
              end) as [st2 ds] eqn:Ed.
    destruct Hs as [s' [H1 H2]]. cbn [fst] in HI1.
    assert (Hnb : forall items, o <> OCBatch items) by (destruct Ho as [_ Hb]; destruct o; try contradiction; intros; discriminate).
    specialize (HI1 Hnb). specialize (IH st2 s' H2 HI1 Hrest).
    destruct (run compact st2 ops) as [st3 tr]. cbn [fst snd entries c08_run] in *.
    rewrite H1, (Hc ds HR HI Ho), IH. reflexivity.
  Qed.

  Theorem c08_model_ok compact ops :
    Forall op_ok ops -> c08_run as_init (entries ops (snd (run compact (st_init F f_empty) ops))) = 0.
  Proof. intro H. apply run_c08; [apply R_init|apply Inv_init|exact H]. Qed.

  (* ---- uniqueness ----------------------------------------------------------------------------------------------------------- *)

  (* two different rows of a channel with the same non-empty (sender, client msg no)
     pair exist only if that pair was tainted by a trusted duplicate *)
  Theorem unique_pair st s c r1 r2 :
    R st s -> In r1 (rows_of (st_kv st) c) -> In r2 (rows_of (st_kv st) c) -> r1 <> r2 ->
    r_uid r1 = r_uid r2 -> r_cno r1 = r_cno r2 -> r_uid r1 <> [] -> r_cno r1 <> [] ->
    pair_tainted (as_log s c) (r_uid r1) (r_cno r1) = true.
  Proof.
    intros [Hk _] H1 H2 Hne Hu Hn Hun Hnn. destruct (rk_chan _ _ Hk c) as [rows Rc].
    rewrite (Rchan_rows_of _ _ _ _ (rk_wf _ _ Hk) Rc) in H1, H2.
    destruct (pair_tainted (as_log s c) (r_uid r1) (r_cno r1)) eqn:T; [reflexivity|]. exfalso.
    pose proof (rc_idem_complete _ _ _ _ Rc r1 H1 Hun Hnn T) as G1.
    assert (T2 : pair_tainted (as_log s c) (r_uid r2) (r_cno r2) = false) by (rewrite <- Hu, <- Hn; exact T).
    pose proof (rc_idem_complete _ _ _ _ Rc r2 H2 ltac:(congruence) ltac:(congruence) T2) as G2.
    rewrite <- Hu, <- Hn, G1 in G2. injection G2 as Hq _ _.
    apply Hne. apply (sorted_lt_inj rows); [apply Rc|assumption|assumption|exact Hq].
  Qed.

  (* two different stored rows (any channels) with the same message id exist only if the id is tainted *)
  Theorem unique_id st s c1 q1 r1 c2 q2 r2 :
    R st s -> kget (KyRow c1 q1) (st_kv st) = Some (VRow r1) -> kget (KyRow c2 q2) (st_kv st) = Some (VRow r2) ->
    (c1, q1) <> (c2, q2) -> r_id r1 = r_id r2 -> In (r_id r1) (as_tids s).
  Proof.
    intros [Hk _] G1 G2 Hne Hid.
    destruct (in_dec N.eq_dec (r_id r1) (as_tids s)) as [H|H]; [exact H|]. exfalso.
    pose proof (rk_gc _ _ Hk _ _ _ G1 H) as X1.
    assert (H' : ~ In (r_id r2) (as_tids s)) by (rewrite <- Hid; exact H).
    pose proof (rk_gc _ _ Hk _ _ _ G2 H') as X2. rewrite <- Hid, X1 in X2. injection X2 as -> ->. apply Hne. reflexivity.
  Qed.

  (* ---- without trusted appends nothing is ever tainted: uniqueness is absolute ------------------------------------------ *)

  Lemma pair_stored_snoc l a u n :
    pair_stored (AL (al_rows l ++ [a]) (m_seq (a_msg a)) (al_ck l) (al_hist l) (al_tpairs l)) u n
    = pair_stored l u n || (bytes_eqb (m_uid (a_msg a)) u && bytes_eqb (m_cno (a_msg a)) n).
  Proof. unfold pair_stored. cbn [al_rows]. rewrite existsb_app. cbn [existsb]. rewrite orb_false_r. reflexivity. Qed.

  Lemma mem_pair_cons x y l : mem_pair x (y :: l) = pair_eqb x y || mem_pair x l.
  Proof. reflexivity. Qed.

  (* appending records none of whose pairs is stored or repeated adds no pair taint *)
  Lemma spec_append_no_ptaint c recs : forall s q seen,
    al_tpairs (as_log s c) = [] ->
    (forall u n, both_nonempty u n = true -> mem_pair (u, n) seen = true -> pair_stored (as_log s c) u n = true) ->
    rec_pairs_dup recs seen = false ->
    (forall x, In x recs -> both_nonempty (i_uid x) (i_cno x) = true ->
               pair_stored (as_log s c) (i_uid x) (i_cno x) = true -> mem_pair (i_uid x, i_cno x) seen = true) ->
    al_tpairs (as_log (spec_append s c (msgs_from c q recs)) c) = [].
  Proof.
    induction recs as [|x recs IH]; intros s q seen Ht Hseen Hdup Hst; [exact Ht|].
    cbn [msgs_from]. rewrite spec_append_cons. cbn [rec_pairs_dup] in Hdup.
    assert (Hx : both_nonempty (i_uid x) (i_cno x) = true -> pair_stored (as_log s c) (i_uid x) (i_cno x) = false).
    { intro Hb. rewrite Hb in Hdup. destruct (pair_stored (as_log s c) (i_uid x) (i_cno x)) eqn:Ep; [|reflexivity].
      rewrite (Hst x (or_introl eq_refl) Hb Ep) in Hdup. discriminate. }
    set (s1 := spec_append s c [msg_of_rec c q x]).
    assert (Hl1 : as_log s1 c = AL (al_rows (as_log s c) ++ [msg_of_rec c q x]) q (al_ck (as_log s c)) (al_hist (as_log s c)) []).
    { unfold s1. rewrite spec_append_one. cbn [as_log]. rewrite N.eqb_refl. cbn [msg_of_rec a_msg m_seq m_uid m_cno].
      destruct (both_nonempty (i_uid x) (i_cno x)) eqn:Hb; cbn [andb]; [rewrite (Hx eq_refl)|]; rewrite Ht; reflexivity. }
    set (seen1 := if both_nonempty (i_uid x) (i_cno x) then (i_uid x, i_cno x) :: seen else seen).
    apply (IH s1 (q + 1) seen1).
    - rewrite Hl1. reflexivity.
    - intros u n Hb Hm. rewrite Hl1.
      assert (E : pair_stored (AL (al_rows (as_log s c) ++ [msg_of_rec c q x]) q (al_ck (as_log s c)) (al_hist (as_log s c)) []) u n
                  = pair_stored (as_log s c) u n || (bytes_eqb (i_uid x) u && bytes_eqb (i_cno x) n)).
      { unfold pair_stored. cbn [al_rows]. rewrite existsb_app. cbn [existsb msg_of_rec a_msg m_uid m_cno]. rewrite orb_false_r. reflexivity. }
      rewrite E. unfold seen1 in Hm. destruct (both_nonempty (i_uid x) (i_cno x)).
      + rewrite mem_pair_cons in Hm. apply orb_true_iff in Hm. destruct Hm as [Hm|Hm].
        * unfold pair_eqb in Hm. cbn [fst snd] in Hm. apply andb_true_iff in Hm. destruct Hm as [H1 H2].
          apply bytes_eqb_eq in H1, H2. subst. rewrite !bytes_eqb_refl. apply orb_true_r.
        * rewrite (Hseen u n Hb Hm). reflexivity.
      + rewrite (Hseen u n Hb Hm). reflexivity.
    - unfold seen1. destruct (both_nonempty (i_uid x) (i_cno x)); [|exact Hdup].
      destruct (mem_pair (i_uid x, i_cno x) seen); [discriminate|exact Hdup].
    - intros y Hy Hb Hp. rewrite Hl1 in Hp.
      assert (E : pair_stored (AL (al_rows (as_log s c) ++ [msg_of_rec c q x]) q (al_ck (as_log s c)) (al_hist (as_log s c)) []) (i_uid y) (i_cno y)
                  = pair_stored (as_log s c) (i_uid y) (i_cno y) || (bytes_eqb (i_uid x) (i_uid y) && bytes_eqb (i_cno x) (i_cno y))).
      { unfold pair_stored. cbn [al_rows]. rewrite existsb_app. cbn [existsb msg_of_rec a_msg m_uid m_cno]. rewrite orb_false_r. reflexivity. }
      rewrite E in Hp. apply orb_true_iff in Hp. unfold seen1. destruct Hp as [Hp|Hp].
      + pose proof (Hst y (or_intror Hy) Hb Hp) as Hm. destruct (both_nonempty (i_uid x) (i_cno x)); [|exact Hm].
        rewrite mem_pair_cons, Hm. apply orb_true_r.
      + apply andb_true_iff in Hp. destruct Hp as [H1 H2]. apply bytes_eqb_eq in H1, H2.
        rewrite <- H1, <- H2 in Hb |- *. rewrite Hb. rewrite mem_pair_cons. unfold pair_eqb. cbn [fst snd]. rewrite !bytes_eqb_refl. reflexivity.
  Qed.

  Definition no_trusted (o : op) : Prop :=
    match o with
    | OAppend _ m _ _ | OCApp _ m _ => (m =? AppendTrustedContiguous) = false
    | OApply _ _ _ _ _ | OCBatch _ => False
    | _ => True
    end.

  Definition NoPT (s : aspec) : Prop := forall c, al_tpairs (as_log s c) = [].

  Lemma spec_append_other_tp s c l c' : c' <> c -> al_tpairs (as_log (spec_append s c l) c') = al_tpairs (as_log s c').
  Proof. intro H. rewrite spec_append_other by exact H. reflexivity. Qed.

  Lemma typed_keys recs : forall seen, rec_pairs_dup (map typed recs) seen = rec_pairs_dup recs seen.
  Proof. induction recs as [|x recs IH]; intro seen; cbn [map rec_pairs_dup typed i_uid i_cno]; [reflexivity|]. rewrite !IH. reflexivity. Qed.

  (* an accepted strict / server append of records: no pair taint is added *)
  Lemma accepted_no_ptaint s c mode recs recs' q :
    NoPT s -> (mode =? AppendTrustedContiguous) = false -> must_reject s c mode recs = false ->
    rec_pairs_dup recs' [] = rec_pairs_dup recs [] ->
    (forall x', In x' recs' -> exists x, In x recs /\ i_uid x' = i_uid x /\ i_cno x' = i_cno x) ->
    NoPT (spec_append s c (msgs_from c q recs')).
  Proof.
    intros Hn Hmode Hm Hdup Hsub c'. destruct (N.eq_dec c' c) as [->|Hne]; [|rewrite spec_append_other_tp by exact Hne; apply Hn].
    unfold must_reject in Hm. rewrite rec_pair_dup_eq in Hm.
    apply orb_false_iff in Hm. destruct Hm as [Hm _]. apply orb_false_iff in Hm. destruct Hm as [Hm Hc].
    apply orb_false_iff in Hm. destruct Hm as [_ Hp]. rewrite Hmode in Hc. cbn [negb andb] in Hc.
    apply (spec_append_no_ptaint c recs' s q []); [apply Hn|intros u n _ H; discriminate H|rewrite Hdup; exact Hp|].
    intros x' Hx' Hb Hst. exfalso. destruct (Hsub x' Hx') as [x [Hx [Hu Hn']]].
    assert (E : existsb (fun x0 => both_nonempty (i_uid x0) (i_cno x0) && pair_stored (as_log s c) (i_uid x0) (i_cno x0)
                                  && negb (pair_tainted (as_log s c) (i_uid x0) (i_cno x0))) recs = true).
    { apply existsb_exists. exists x. split; [exact Hx|]. rewrite <- Hu, <- Hn', Hb, Hst. cbn [andb].
      unfold pair_tainted. rewrite (Hn c). reflexivity. }
    rewrite E in Hc. discriminate.
  Qed.

  Lemma keep_rows_tp p l leo : al_tpairs (keep_rows p l leo) = al_tpairs l.
  Proof. reflexivity. Qed.

  Lemma NoPT_set_log s c l : NoPT s -> al_tpairs l = [] -> NoPT (set_log s c l).
  Proof.
    intros Hn Hl c'. unfold set_log. cbn [as_log]. destruct (c' =? c); [exact Hl|apply Hn].
  Qed.

  (* one step of a history without trusted appends keeps every channel free of pair taints *)
  Lemma step_no_ptaint st s o s' ds :
    R st s -> Inv st -> op_ok o -> no_trusted o -> NoPT s ->
    spec_step s (E o (snd (step st o)) ds) = Some s' -> NoPT s'.
  Proof.
    intros HR HI Hok Hnt Hn Hs. cbn [spec_step] in Hs.
    destruct (is_read o) eqn:Hr.
    { destruct (spec_check_read s o _); [injection Hs as <-; exact Hn|discriminate]. }
    destruct (spec_mutate s o (snd (step st o))) as [s1|] eqn:Hm; [|discriminate].
    destruct (forallb _ ds); [|discriminate]. injection Hs as <-.
    destruct o; cbn [no_trusted] in Hnt; try contradiction; cbn [MsgStore.step] in Hm; try discriminate Hr.
    - (* Append *)
      destruct (must_reject s c mode recs) eqn:Em.
      { destruct (append_rejects st s c mode base recs HR HI Em) as [e He].
        destruct (Append F f_may f_add st c recs mode base) as [st' r]. cbn [snd] in *. subst r.
        cbn [out_of spec_mutate] in Hm. injection Hm as <-. exact Hn. }
      destruct (Append F f_may f_add st c recs mode base) as [st' [[[b l] n]|e]]; cbn [snd out_of spec_mutate] in Hm.
      2:{ injection Hm as <-. exact Hn. }
      destruct recs as [|x recs]; [destruct (_ && _ && _); [injection Hm as <-; exact Hn|discriminate]|].
      destruct (_ && _ && _ && _); [|discriminate]. injection Hm as <-.
      change (NoPT (spec_append s c (msgs_from c b (map typed (x :: recs))))).
      apply (accepted_no_ptaint s c mode (x :: recs)); [exact Hn|exact Hnt|exact Em|apply typed_keys|].
      intros x' Hx'. apply in_map_iff in Hx'. destruct Hx' as [y [<- Hy]]. exists y. split; [exact Hy|split; reflexivity].
    - (* CAppend *)
      destruct (must_reject s c mode recs) eqn:Em.
      { destruct (capp_rejects st s c mode recs HR HI Em) as [e He].
        destruct (CAppend F f_may f_add st c recs mode) as [st' r]. cbn [snd] in *. subst r.
        cbn [out_of spec_mutate] in Hm. injection Hm as <-. exact Hn. }
      destruct (CAppend F f_may f_add st c recs mode) as [st' [base|e]]; cbn [snd out_of spec_mutate] in Hm.
      2:{ injection Hm as <-. exact Hn. }
      destruct (base =? al_leo (as_log s c)); [|discriminate]. injection Hm as <-.
      apply (accepted_no_ptaint s c mode recs); [exact Hn|exact Hnt|exact Em|reflexivity|].
      intros x' Hx'. exists x'. split; [exact Hx'|split; reflexivity].
    - (* TruncateFrom *)
      destruct (TruncateFrom F st c fromSeq) as [st' [u|e]]; cbn [snd out_of spec_mutate] in Hm; [|injection Hm as <-; exact Hn].
      cbv zeta in Hm. destruct (al_leo (as_log s c) <? _); injection Hm as <-; [exact Hn|]. apply NoPT_set_log; [exact Hn|apply Hn].
    - destruct (CTruncate F st c to) as [st' [u|e]]; cbn [snd out_of spec_mutate] in Hm; [|injection Hm as <-; exact Hn].
      cbv zeta in Hm. destruct (al_leo (as_log s c) <=? to); injection Hm as <-; [exact Hn|]. apply NoPT_set_log; [exact Hn|apply Hn].
    - destruct (TrimPrefixThroughLimit F st c through maxMessages maxBytes) as [st' [[[d n] m]|e]]; cbn [snd out_of spec_mutate] in Hm;
        [|injection Hm as <-; exact Hn].
      cbv zeta in Hm. destruct (through =? 0); [destruct (_ && _ && _); [injection Hm as <-; exact Hn|discriminate]|].
      destruct (_ && _ && _ && _ && _); [|discriminate]. injection Hm as <-. apply NoPT_set_log; [exact Hn|apply Hn].
    - destruct (StoreCheckpoint F st c (e, lso, hw)) as [st' [u|er]]; cbn [snd out_of spec_mutate] in Hm; injection Hm as <-;
        [apply NoPT_set_log; [exact Hn|apply Hn]|exact Hn].
    - destruct (StoreCheckpointMonotonic F st c (e, lso, hw) visibleHW leo) as [st' [u|er]]; cbn [snd out_of spec_mutate] in Hm; injection Hm as <-;
        [apply NoPT_set_log; [exact Hn|apply Hn]|exact Hn].
    - cbn [snd spec_mutate] in Hm. injection Hm as <-. exact Hn.
    - cbn [snd spec_mutate] in Hm. injection Hm as <-. exact Hn.
    - destruct Hok as [_ []].
  Qed.

  Lemma run_no_ptaint compact ops : forall st s,
    R st s -> Inv st -> NoPT s -> Forall op_ok ops -> Forall no_trusted ops ->
    exists s', R (fst (run compact st ops)) s' /\ NoPT s'.
  Proof.
    induction ops as [|o ops IH]; intros st s HR HI Hn Hok Hnt; cbn [MsgStore.run fst]; [exists s; split; assumption|].
    inversion Hok as [|? ? Ho Hrest]; subst. inversion Hnt as [|? ? Ht Htrest]; subst.
    pose proof (step_sim F f_empty f_may f_add compact st s o HR (op_ok_b o Ho)) as Hs.
    pose proof (Inv_step compact st o HI) as HI1.
    pose proof (fun s' ds => step_no_ptaint st s o s' ds HR HI Ho Ht Hn) as Hp.
    unfold MsgStore.step_dump in *.
    destruct (step st o) as [st1 x] eqn:Es. cbn [snd] in Hp.
    destruct (match o with
              | OReopen => dump_chans F st1 all_chans
              | OCBatch _ => if compact then (st1, []) else dump_chans F st1 all_chans
              | _ => if is_mutation o && negb compact
                     then let '(st2, d) := dump_chan F st1 (op_chan o) (new_range o x) in (st2, [d])
                     else (st1, [])
              end) as [st2 ds] eqn:Ed.
    destruct Hs as [s' [H1 H2]]. cbn [fst] in HI1.
    assert (Hnb : forall items, o <> OCBatch items) by (destruct Ho as [_ Hb]; destruct o; try contradiction; intros; discriminate).
    specialize (HI1 Hnb).
    destruct (IH st2 s' H2 HI1 (Hp s' ds H1) Hrest Htrest) as [s'' [H3 H4]].
    destruct (run compact st2 ops) as [st3 tr]. cbn [fst] in *. exists s''. split; assumption.
  Qed.

  (* C08, first half, absolute form: in a history whose appends are all strict or
     server-allocated-id mode, no two different rows of a channel ever share a
     non-empty (sender, client msg no) pair -- for every sound filter *)
  Theorem unique_pair_strict compact ops c r1 r2 :
    Forall op_ok ops -> Forall no_trusted ops ->
    let kv := st_kv (fst (run compact (st_init F f_empty) ops)) in
    In r1 (rows_of kv c) -> In r2 (rows_of kv c) ->
    r_uid r1 = r_uid r2 -> r_cno r1 = r_cno r2 -> r_uid r1 <> [] -> r_cno r1 <> [] -> r1 = r2.
  Proof.
    intros Hok Hnt kv H1 H2 Hu Hn Hun Hnn.
    destruct (run_no_ptaint compact ops _ _ (R_init F f_empty) Inv_init (fun _ => eq_refl) Hok Hnt) as [s [HR Hp]].
    destruct (row_eq_dec r1 r2) as [E|Hne]; [exact E|]. exfalso.
    pose proof (unique_pair _ s c r1 r2 HR H1 H2 Hne Hu Hn Hun Hnn) as T.
    unfold pair_tainted in T. rewrite (Hp c) in T. discriminate T.
  Qed.

  (* ---- message ids, strict mode only ------------------------------------------------------------------------------------- *)

  Definition strict_only (o : op) : Prop :=
    match o with
    | OAppend _ m _ _ | OCApp _ m _ => (m =? AppendStrict) = true
    | OApply _ _ _ _ _ | OCBatch _ => False
    | _ => True
    end.

  Lemma id_stored_append_one s c a i : In c all_chans ->
    id_stored (spec_append s c [a]) i = id_stored s i || (m_id (a_msg a) =? i).
  Proof.
    intro Hc. rewrite spec_append_one. unfold id_stored. cbn [as_log].
    unfold all_chans in *. cbn [existsb In] in *.
    destruct Hc as [<-|[<-|[<-|[]]]]; cbn [N.eqb Pos.eqb existsb al_rows]; rewrite ?existsb_app; cbn [existsb];
      rewrite ?orb_false_r; destruct (existsb _ (al_rows (as_log s 0))), (existsb _ (al_rows (as_log s 1))), (existsb _ (al_rows (as_log s 2))),
        (m_id (a_msg a) =? i); reflexivity.
  Qed.

  Lemma spec_append_no_itaint c recs : forall s q seen,
    In c all_chans -> as_tids s = [] ->
    (forall i, mem_N i seen = true -> id_stored s i = true) ->
    rec_ids_dup recs seen = false ->
    (forall x, In x recs -> id_stored s (i_id x) = true -> mem_N (i_id x) seen = true) ->
    as_tids (spec_append s c (msgs_from c q recs)) = [].
  Proof.
    induction recs as [|x recs IH]; intros s q seen Hc Ht Hseen Hdup Hst; [exact Ht|].
    cbn [msgs_from]. rewrite spec_append_cons. cbn [rec_ids_dup] in Hdup.
    destruct (mem_N (i_id x) seen) eqn:Em; [discriminate|].
    assert (Hx : id_stored s (i_id x) = false).
    { destruct (id_stored s (i_id x)) eqn:E; [|reflexivity]. rewrite (Hst x (or_introl eq_refl) E) in Em. discriminate. }
    set (s1 := spec_append s c [msg_of_rec c q x]).
    assert (Ht1 : as_tids s1 = []).
    { unfold s1. rewrite spec_append_one. cbn [as_tids msg_of_rec a_msg m_id]. rewrite Hx. exact Ht. }
    assert (Hid1 : forall i, id_stored s1 i = id_stored s i || (i_id x =? i)).
    { intro i. unfold s1. rewrite (id_stored_append_one s c _ i Hc). reflexivity. }
    apply (IH s1 (q + 1) (i_id x :: seen)); [exact Hc|exact Ht1| |exact Hdup|].
    - intros i Hm. rewrite Hid1. unfold mem_N in Hm. cbn [existsb] in Hm. apply orb_true_iff in Hm. destruct Hm as [Hm|Hm].
      + apply N.eqb_eq in Hm. subst. rewrite N.eqb_refl. apply orb_true_r.
      + rewrite (Hseen i Hm). reflexivity.
    - intros y Hy Hs1. rewrite Hid1 in Hs1. unfold mem_N. cbn [existsb]. apply orb_true_iff in Hs1. destruct Hs1 as [Hs1|Hs1].
      + pose proof (Hst y (or_intror Hy) Hs1) as X. unfold mem_N in X. rewrite X. apply orb_true_r.
      + apply N.eqb_eq in Hs1. rewrite Hs1, N.eqb_refl. reflexivity.
  Qed.

  Definition NoIT (s : aspec) : Prop := as_tids s = [].

  Lemma typed_ids recs : forall seen, rec_ids_dup (map typed recs) seen = rec_ids_dup recs seen.
  Proof. induction recs as [|x recs IH]; intro seen; cbn [map rec_ids_dup typed i_id]; [reflexivity|]. rewrite !IH. reflexivity. Qed.

  Lemma accepted_no_itaint s c recs recs' q :
    In c all_chans -> NoIT s -> must_reject s c AppendStrict recs = false ->
    rec_ids_dup recs' [] = rec_ids_dup recs [] ->
    (forall x', In x' recs' -> exists x, In x recs /\ i_id x' = i_id x) ->
    NoIT (spec_append s c (msgs_from c q recs')).
  Proof.
    intros Hc Hn Hm Hdup Hsub. unfold must_reject in Hm. rewrite rec_id_dup_eq in Hm.
    apply orb_false_iff in Hm. destruct Hm as [Hm Hd]. apply orb_false_iff in Hm. destruct Hm as [Hm _].
    apply orb_false_iff in Hm. destruct Hm as [Hi _]. rewrite N.eqb_refl in Hd. cbn [andb] in Hd.
    apply (spec_append_no_itaint c recs' s q []); [exact Hc|exact Hn|intros i H; discriminate H|rewrite Hdup; exact Hi|].
    intros x' Hx' Hst. exfalso. destruct (Hsub x' Hx') as [x [Hx Hid]].
    assert (E : existsb (fun x0 => id_stored s (i_id x0) && negb (existsb (N.eqb (i_id x0)) (as_tids s))) recs = true).
    { apply existsb_exists. exists x. split; [exact Hx|]. rewrite <- Hid, Hst. unfold NoIT in Hn. rewrite Hn. reflexivity. }
    rewrite E in Hd. discriminate.
  Qed.

  Lemma step_no_itaint st s o s' ds :
    R st s -> Inv st -> op_ok o -> strict_only o -> NoIT s ->
    spec_step s (E o (snd (step st o)) ds) = Some s' -> NoIT s'.
  Proof.
    intros HR HI Hok Hnt Hn Hs. cbn [spec_step] in Hs.
    destruct (is_read o) eqn:Hr.
    { destruct (spec_check_read s o _); [injection Hs as <-; exact Hn|discriminate]. }
    destruct (spec_mutate s o (snd (step st o))) as [s1|] eqn:Hm; [|discriminate].
    destruct (forallb _ ds); [|discriminate]. injection Hs as <-.
    destruct Hok as [Hc Hnd].
    destruct o; cbn [strict_only] in Hnt; try contradiction; cbn [MsgStore.step] in Hm; try discriminate Hr; cbn [op_chan] in Hc.
    - apply N.eqb_eq in Hnt. subst mode.
      destruct (must_reject s c AppendStrict recs) eqn:Em.
      { destruct (append_rejects st s c AppendStrict base recs HR HI Em) as [e He].
        destruct (Append F f_may f_add st c recs AppendStrict base) as [st' r]. cbn [snd] in *. subst r.
        cbn [out_of spec_mutate] in Hm. injection Hm as <-. exact Hn. }
      destruct (Append F f_may f_add st c recs AppendStrict base) as [st' [[[b l] n]|e]]; cbn [snd out_of spec_mutate] in Hm.
      2:{ injection Hm as <-. exact Hn. }
      destruct recs as [|x recs]; [destruct (_ && _ && _); [injection Hm as <-; exact Hn|discriminate]|].
      destruct (_ && _ && _ && _); [|discriminate]. injection Hm as <-.
      change (NoIT (spec_append s c (msgs_from c b (map typed (x :: recs))))).
      apply (accepted_no_itaint s c (x :: recs)); [exact Hc|exact Hn|exact Em|apply typed_ids|].
      intros x' Hx'. apply in_map_iff in Hx'. destruct Hx' as [y [<- Hy]]. exists y. split; [exact Hy|reflexivity].
    - apply N.eqb_eq in Hnt. subst mode.
      destruct (must_reject s c AppendStrict recs) eqn:Em.
      { destruct (capp_rejects st s c AppendStrict recs HR HI Em) as [e He].
        destruct (CAppend F f_may f_add st c recs AppendStrict) as [st' r]. cbn [snd] in *. subst r.
        cbn [out_of spec_mutate] in Hm. injection Hm as <-. exact Hn. }
      destruct (CAppend F f_may f_add st c recs AppendStrict) as [st' [base|e]]; cbn [snd out_of spec_mutate] in Hm.
      2:{ injection Hm as <-. exact Hn. }
      destruct (base =? al_leo (as_log s c)); [|discriminate]. injection Hm as <-.
      apply (accepted_no_itaint s c recs); [exact Hc|exact Hn|exact Em|reflexivity|].
      intros x' Hx'. exists x'. split; [exact Hx'|reflexivity].
    - destruct (TruncateFrom F st c fromSeq) as [st' [u|e]]; cbn [snd out_of spec_mutate] in Hm; [|injection Hm as <-; exact Hn].
      cbv zeta in Hm. destruct (al_leo (as_log s c) <? _); injection Hm as <-; exact Hn.
    - destruct (CTruncate F st c to) as [st' [u|e]]; cbn [snd out_of spec_mutate] in Hm; [|injection Hm as <-; exact Hn].
      cbv zeta in Hm. destruct (al_leo (as_log s c) <=? to); injection Hm as <-; exact Hn.
    - destruct (TrimPrefixThroughLimit F st c through maxMessages maxBytes) as [st' [[[d n] m]|e]]; cbn [snd out_of spec_mutate] in Hm;
        [|injection Hm as <-; exact Hn].
      cbv zeta in Hm. destruct (through =? 0); [destruct (_ && _ && _); [injection Hm as <-; exact Hn|discriminate]|].
      destruct (_ && _ && _ && _ && _); [|discriminate]. injection Hm as <-. exact Hn.
    - destruct (StoreCheckpoint F st c (e, lso, hw)) as [st' [u|er]]; cbn [snd out_of spec_mutate] in Hm; injection Hm as <-; exact Hn.
    - destruct (StoreCheckpointMonotonic F st c (e, lso, hw) visibleHW leo) as [st' [u|er]]; cbn [snd out_of spec_mutate] in Hm; injection Hm as <-; exact Hn.
    - cbn [snd spec_mutate] in Hm. injection Hm as <-. exact Hn.
    - cbn [snd spec_mutate] in Hm. injection Hm as <-. exact Hn.
  Qed.

  Lemma run_no_itaint compact ops : forall st s,
    R st s -> Inv st -> NoIT s -> Forall op_ok ops -> Forall strict_only ops ->
    exists s', R (fst (run compact st ops)) s' /\ NoIT s'.
  Proof.
    induction ops as [|o ops IH]; intros st s HR HI Hn Hok Hnt; cbn [MsgStore.run fst]; [exists s; split; assumption|].
    inversion Hok as [|? ? Ho Hrest]; subst. inversion Hnt as [|? ? Ht Htrest]; subst.
    pose proof (step_sim F f_empty f_may f_add compact st s o HR (op_ok_b o Ho)) as Hs.
    pose proof (Inv_step compact st o HI) as HI1.
    pose proof (fun s' ds => step_no_itaint st s o s' ds HR HI Ho Ht Hn) as Hp.
    unfold MsgStore.step_dump in *.
    destruct (step st o) as [st1 x] eqn:Es. cbn [snd] in Hp.
    destruct (match o with
              | OReopen => dump_chans F st1 all_chans
              | OCBatch _ => if compact then (st1, []) else dump_chans F st1 all_chans
              | _ => if is_mutation o && negb compact
                     then let '(st2, d) := dump_chan F st1 (op_chan o) (new_range o x) in (st2, [d])
                     else (st1, [])
              end) as [st2 ds] eqn:Ed.
    destruct Hs as [s' [H1 H2]]. cbn [fst] in HI1.
    assert (Hnb : forall items, o <> OCBatch items) by (destruct Ho as [_ Hb]; destruct o; try contradiction; intros; discriminate).
    specialize (HI1 Hnb).
    destruct (IH st2 s' H2 HI1 (Hp s' ds H1) Hrest Htrest) as [s'' [H3 H4]].
    destruct (run compact st2 ops) as [st3 tr]. cbn [fst] in *. exists s''. split; assumption.
  Qed.

  (* C08, second half: in a history whose appends are all strict, a message id is
     stored at most once across all channels *)
  Theorem unique_id_strict compact ops c1 q1 r1 c2 q2 r2 :
    Forall op_ok ops -> Forall strict_only ops ->
    let kv := st_kv (fst (run compact (st_init F f_empty) ops)) in
    kget (KyRow c1 q1) kv = Some (VRow r1) -> kget (KyRow c2 q2) kv = Some (VRow r2) ->
    r_id r1 = r_id r2 -> (c1, q1) = (c2, q2).
  Proof.
    intros Hok Hnt kv G1 G2 Hid.
    destruct (run_no_itaint compact ops _ _ (R_init F f_empty) Inv_init eq_refl Hok Hnt) as [s [HR Hp]].
    destruct (N.eq_dec c1 c2) as [->|Hc]; [destruct (N.eq_dec q1 q2) as [->|Hq]; [reflexivity|]|];
      exfalso; [assert (Hne : (c2, q1) <> (c2, q2)) by congruence|assert (Hne : (c1, q1) <> (c2, q2)) by congruence];
      pose proof (unique_id _ s _ _ _ _ _ _ HR G1 G2 Hne Hid) as T; unfold NoIT in Hp; rewrite Hp in T; destruct T.
  Qed.
End Cov.

(* ---- instances ---------------------------------------------------------------------------------------------------------- *)

Lemma x_add_sound f k : x_may (x_add f k) k = true.
Proof.
  unfold x_add. destruct (x_may f k) eqn:E; [exact E|]. unfold x_may. cbn [existsb]. rewrite !bytes_eqb_refl. reflexivity.
Qed.

Lemma x_add_mono f k k' : x_may f k' = true -> x_may (x_add f k) k' = true.
Proof.
  intro H. unfold x_add. destruct (x_may f k); [exact H|]. unfold x_may in *. cbn [existsb]. rewrite H. apply orb_true_r.
Qed.

(* the executable model (exact filter) passes the C08 monitor *)
Lemma c08_monitor_zero_on_model (compact : bool) (ops : list op) (kv : list kvent) :
  Forall op_ok ops -> C08_monitor (C07Case compact (entries ops (snd (xrun compact ops))) kv) = 0.
Proof.
  intro H. unfold C08_monitor. cbn [c_steps]. unfold xrun, xinit.
  apply (c08_model_ok xfilter [] x_may x_add x_add_sound x_add_mono compact ops H).
Qed.

(* ... hence also the whole C07 monitor: refinement + no accepted retry of a stored pair *)
Lemma worst_zero a b : worst a b = 0 -> a = 0 /\ b = 0.
Proof.
  unfold worst. destruct (a =? 1) eqn:Ea; [discriminate|]. destruct (b =? 1) eqn:Eb; [discriminate|]. cbn [orb]. lia.
Qed.

Lemma c08_zero_no_retry tr : forall s, c08_run s tr = 0 -> retry_run s tr = false.
Proof.
  induction tr as [|e tr IH]; intros s H; cbn [c08_run retry_run] in *; [reflexivity|].
  destruct (spec_step s e) as [s'|]; [|discriminate H].
  apply worst_zero in H. destruct H as [H1 H2]. rewrite (IH s' H2), orb_false_r.
  assert (Hm : forall c mode recs, stored_pair_retry s c mode recs = true -> must_reject s c mode recs = true).
  { intros c mode recs Hs. unfold stored_pair_retry in Hs. unfold must_reject.
    rewrite Hs. rewrite !orb_true_r. reflexivity. }
  destruct e as [o x ds]. destruct o; cbn [retry_accepted c08_step_code] in *; try reflexivity.
  - destruct (out_accepted x) eqn:Ea; [|reflexivity]. cbn [andb].
    destruct (stored_pair_retry s c mode recs) eqn:Es; [|reflexivity].
    change (accepted x) with (out_accepted x) in H1. rewrite Ea, (Hm _ _ _ Es) in H1. discriminate H1.
  - destruct (out_accepted x) eqn:Ea; [|reflexivity]. cbn [andb].
    destruct (stored_pair_retry s c mode recs) eqn:Es; [|reflexivity].
    change (accepted x) with (out_accepted x) in H1. rewrite Ea, (Hm _ _ _ Es) in H1. discriminate H1.
Qed.

Lemma c07_monitor_zero_on_model (compact : bool) (ops : list op) (kv : list kvent) :
  Forall op_ok ops -> C07_monitor (C07Case compact (entries ops (snd (xrun compact ops))) kv) = 0.
Proof.
  intro H. unfold C07_monitor. cbn [c_steps].
  rewrite (spec_run_on_model compact ops (Forall_impl _ op_ok_b H)).
  pose proof (c08_monitor_zero_on_model compact ops kv H) as H8. unfold C08_monitor in H8. cbn [c_steps] in H8.
  rewrite (c08_zero_no_retry _ _ H8). reflexivity.
Qed.

(* the production filter: two Bloom layers over arbitrary hash functions *)
Lemma c08_bloom_model_ok (h1 h2 : bytes * bytes -> N) (compact : bool) (ops : list op) :
  Forall op_ok ops ->
  c08_run as_init (entries ops (snd (run (bloom) (bloom_empty) (bloom_may h1 h2) (bloom_add h1 h2) compact
                                         (st_init bloom bloom_empty) ops))) = 0.
Proof.
  intro H. apply (c08_model_ok bloom bloom_empty (bloom_may h1 h2) (bloom_add h1 h2) (bloom_add_sound h1 h2) (bloom_add_mono h1 h2) compact ops H).
Qed.

(* finding C08-K1: one StoreAppendBatch, the same message id in the strict items
   of two channels: both are stored (witness replayed on /repo: corpus/C08/k1_*.json) *)
Definition k1_ops : list op :=
  [ OCBatch [(0, 0, [MsgStore.R 14 [] [] [120] 1%Z 0 0 0]); (2, 0, [MsgStore.R 14 [] [] [121] 1%Z 0 0 0])];
    OById 0 14; OById 2 14;
    OAppend 1 0 0 [MsgStore.R 14 [] [] [122] 1%Z 0 0 0] ].

Lemma k1_refuted :
  (* the model accepts both strict items ... *)
  map fst (snd (xrun false k1_ops))
  = [ XBatch [(0, 0, 1); (0, 0, 1)]; XMsgO None;
      XMsgO (Some (M 1 14 2 [] [] (hashPayload [121]) [121] 1%Z)); XErr EConflict ]
  (* ... the id is stored in two channels ... *)
  /\ (exists r0 r2, kget (KyRow 0 1) (st_kv _ (fst (xrun false k1_ops))) = Some (VRow r0)
                    /\ kget (KyRow 2 1) (st_kv _ (fst (xrun false k1_ops))) = Some (VRow r2)
                    /\ r_id r0 = 14 /\ r_id r2 = 14)
  (* ... and the monitor classifies exactly this as known finding number 1 (code 2) *)
  /\ C08_monitor (C07Case false (entries k1_ops (snd (xrun false k1_ops))) []) = 2.
Proof.
  split; [vm_compute; reflexivity|]. split; [|vm_compute; reflexivity].
  eexists. eexists. split; [vm_compute; reflexivity|]. split; [vm_compute; reflexivity|]. split; reflexivity.
Qed.
