(* Proof/Pending_conn.v — every conn script the acceptor [crun]/[cfinal_ok] of
   Model/Pending.v accepts satisfies the conn monitor [mon_conn]: a call only
   ever returns a peer-originated result (payload / remote error) that the peer
   wrote for the request id that carried that call's request. *)
From WK Require Import Base.Base Base.Bytes Gen.Consts_C26 Model.Wire Model.Pending Model.C26Case Proof.Pending.
Open Scope N_scope.

Lemma outcome_eqb_true a b : outcome_eqb a b = true -> a = b.
Proof.
  unfold outcome_eqb. intro H. apply andb_true_iff in H. destruct H as [H1 H2].
  apply bytes_eqb_eq in H1. apply N.eqb_eq in H2. destruct a, b. cbn in *. congruence.
Qed.

Lemma outcome_eqb_refl a : outcome_eqb a a = true.
Proof. unfold outcome_eqb. rewrite N.eqb_refl, andb_true_r. apply bytes_eqb_eq. reflexivity. Qed.

Lemma allowed_in o l : allowed o l = true -> In o l.
Proof.
  unfold allowed. intro H. apply existsb_exists in H. destruct H as (x & I & E).
  apply outcome_eqb_true in E. subst. exact I.
Qed.

(* error codes a local Close may carry: anything that is not a peer-originated class *)
Definition close_code (e : N) : N := if e =? 0 then E_stopped else e.
Definition op_local (o : cop) : bool :=
  match o with CClose e => negb (peer_originated ([], close_code e)) | _ => true end.
Definition closes_local (script : list (cop * cobs)) : bool := forallb (fun oo => op_local (fst oo)) script.

Section ConnInv.
  Variable rd : list (N * N).          (* call -> request id, as read by the peer *)
  Variable wr : list (N * outcome).    (* request id -> result the peer wrote for it *)

  Definition own_ex (k : N) (o : outcome) : Prop :=
    peer_originated o = true -> exists id, In (k, id) rd /\ In (id, o) wr.

  Definition Q (c : N) (m : msg) : Prop := own_ex c (msg_outcome m).

  Definition AllMsgs (p : pstate) : Prop := forall c m, In (c, m) (ps_inflight p ++ ps_bufs p) -> Q c m.
  Definition AllEntries (p : pstate) : Prop := forall id c, In (id, c) (ps_entries p) -> In (c, id) rd.
  Definition ClosedLocal (p : pstate) : Prop := ps_closed p = true -> peer_originated ([], ps_close_err p) = false.
  Definition FinOk (fin : list (N * list outcome)) : Prop :=
    forall k al o, In (k, al) fin -> In o al -> own_ex k o.

  Record PInv (p : pstate) : Prop := MkPInv {
    pi_msgs : AllMsgs p; pi_entries : AllEntries p; pi_closed : ClosedLocal p }.

  Lemma local_Q c e : peer_originated ([], e) = false -> Q c (Msg None [] e).
  Proof.
    intro L. unfold Q, own_ex. intro P.
    assert (X : msg_outcome (Msg None [] e) = ([], e)) by reflexivity. rewrite X in P. congruence.
  Qed.

  (* ---- the table's steps preserve PInv ------------------------------------------- *)

  Lemma send_pinv cap k p : PInv p -> PInv (fst (send cap k p)).
  Proof.
    intros [M E C]. unfold send. destruct (nth_error (ps_inflight p) k) as [[c m]|] eqn:NE; [|constructor; assumption].
    assert (INm : In (c, m) (ps_inflight p)) by exact (nth_error_In _ _ NE).
    destruct (count_chan c (ps_bufs p) <? cap c); cbn [fst]; constructor;
      unfold AllMsgs, AllEntries, ClosedLocal in *;
      cbn [ps_entries ps_closed ps_close_err ps_inflight ps_bufs]; try assumption.
    - intros c' m' H. apply in_app_or in H. destruct H as [H|H].
      + apply M. apply in_or_app. left. exact (in_remove_nth _ _ _ H).
      + apply in_app_or in H. destruct H as [H|[H|[]]].
        * apply M. apply in_or_app. right. exact H.
        * inversion H; subst. apply M. apply in_or_app. left. exact INm.
    - intros c' m' H. apply in_app_or in H. destruct H as [H|H].
      + apply M. apply in_or_app. left. exact (in_remove_nth _ _ _ H).
      + apply M. apply in_or_app. right. exact H.
  Qed.

  Lemma send_all_pinv cap : forall f p, PInv p -> PInv (send_all cap f p).
  Proof.
    induction f as [|f IH]; intros p I; cbn [send_all]; [exact I|].
    destruct (ps_inflight p); [exact I|]. apply IH. apply send_pinv. exact I.
  Qed.

  Lemma flush_pinv cap p : PInv p -> PInv (flush cap p).
  Proof. apply send_all_pinv. Qed.

  Lemma delete_pinv id p : PInv p -> PInv (delete id p).
  Proof.
    intros [M E C]. constructor; unfold AllMsgs, AllEntries, ClosedLocal in *;
      cbn [delete ps_entries ps_closed ps_close_err ps_inflight ps_bufs]; try assumption.
    intros i c H. apply in_remove_id in H. destruct H as [H _]. exact (E i c H).
  Qed.

  Lemma insert_pinv id c p : PInv p -> In (c, id) rd -> PInv (insert id c p).
  Proof.
    intros [M E C] R. constructor; unfold AllMsgs, AllEntries, ClosedLocal in *;
      cbn [insert ps_entries ps_closed ps_close_err ps_inflight ps_bufs]; try assumption.
    intros i c' [H|H].
    - inversion H; subst. exact R.
    - apply in_remove_id in H. destruct H as [H _]. exact (E i c' H).
  Qed.

  Lemma remove_pinv id m p : PInv p -> (forall c, In (c, id) rd -> Q c m) -> PInv (fst (remove id m p)).
  Proof.
    intros [M E C] HQ. unfold remove. destruct (lookup id (ps_entries p)) as [c|] eqn:L; cbn [fst]; [|constructor; assumption].
    pose proof (E _ _ (lookup_some_in _ _ _ L)) as R.
    constructor; unfold AllMsgs, AllEntries, ClosedLocal in *;
      cbn [ps_entries ps_closed ps_close_err ps_inflight ps_bufs]; try assumption.
    - intros c' m' H. rewrite <- app_assoc in H. apply in_app_or in H. destruct H as [H|H].
      + apply M. apply in_or_app. left. exact H.
      + cbn [app] in H. destruct H as [H|H].
        * inversion H; subst. exact (HQ _ R).
        * apply M. apply in_or_app. right. exact H.
    - intros i c' H. apply in_remove_id in H. destruct H as [H _]. exact (E i c' H).
  Qed.

  Lemma store_closed_pinv c p : PInv p -> ps_closed p = true -> PInv (store_closed c p).
  Proof.
    intros [M E C] CL. constructor; unfold AllMsgs, AllEntries, ClosedLocal in *;
      cbn [store_closed ps_entries ps_closed ps_close_err ps_inflight ps_bufs]; try assumption.
    intros c' m' H. rewrite <- app_assoc in H. apply in_app_or in H. destruct H as [H|H].
    - apply M. apply in_or_app. left. exact H.
    - cbn [app] in H. destruct H as [H|H].
      + inversion H; subst. apply local_Q. exact (C CL).
      + apply M. apply in_or_app. right. exact H.
  Qed.

  Lemma store_pinv cap id c p : PInv p -> In (c, id) rd -> PInv (store cap id c p).
  Proof.
    intros I R. unfold store. destruct (ps_closed p) eqn:CL.
    - apply flush_pinv. apply store_closed_pinv; assumption.
    - apply insert_pinv; assumption.
  Qed.

  (* a call that never reaches the wire: Store, failed Send, Delete *)
  Lemma delete_store_pinv cap id c p : PInv p -> PInv (delete id (store cap id c p)).
  Proof.
    intro I. unfold store. destruct (ps_closed p) eqn:CL.
    - apply delete_pinv, flush_pinv, store_closed_pinv; assumption.
    - destruct I as [M E C]. constructor; unfold AllMsgs, AllEntries, ClosedLocal in *;
        cbn [delete insert ps_entries ps_closed ps_close_err ps_inflight ps_bufs]; try assumption.
      intros i c' H. apply in_remove_id in H. destruct H as [[H|H] NE].
      + inversion H; subst. contradiction.
      + apply in_remove_id in H. destruct H as [H _]. exact (E i c' H).
  Qed.

  Lemma complete_pinv cap id pl e p : PInv p -> In (id, (pl, e)) wr -> PInv (fst (complete cap id pl e p)).
  Proof.
    intros I W. unfold complete.
    pose proof (remove_pinv id (Msg (Some id) pl e) p I) as R.
    destruct (remove id (Msg (Some id) pl e) p) as [p1 ok]. cbn [fst] in *.
    assert (I1 : PInv p1).
    { apply R. intros c Rc _. exists id. split; [exact Rc|exact W]. }
    destruct ok; [apply flush_pinv; exact I1|exact I1].
  Qed.

  Lemma close_pinv e p : PInv p -> peer_originated ([], e) = false -> PInv (close e p).
  Proof.
    intros [M E C] L. unfold close. destruct (ps_closed p) eqn:CL; [constructor; assumption|].
    constructor; unfold AllMsgs, AllEntries, ClosedLocal in *;
      cbn [ps_entries ps_closed ps_close_err ps_inflight ps_bufs]; try assumption. intros _. exact L.
  Qed.

  Lemma fail_one_pinv id e p : PInv p -> peer_originated ([], e) = false -> PInv (fail_one id e p).
  Proof. intros I L. unfold fail_one. apply remove_pinv; [exact I|]. intros c _. apply local_Q. exact L. Qed.

  Lemma fold_fail_pinv e : forall l p, PInv p -> peer_originated ([], e) = false ->
    PInv (fold_left (fun st id => fail_one id e st) l p).
  Proof.
    induction l as [|id l IH]; intros p I L; cbn [fold_left]; [exact I|].
    apply IH; [apply fail_one_pinv; assumption|exact L].
  Qed.

  Lemma fail_all_pinv cap e p : PInv p -> peer_originated ([], e) = false -> PInv (fail_all cap e p).
  Proof.
    intros I L. unfold fail_all. cbv zeta. apply flush_pinv. apply fold_fail_pinv; [|exact L].
    apply close_pinv; assumption.
  Qed.

  Lemma take_first_in c : forall b m r, take_first c b = (Some m, r) -> In (c, m) b /\ forall y, In y r -> In y b.
  Proof. intros b m r T. destruct (take_first_some c b m r T) as (A & B & _). split; assumption. Qed.

  Lemma recv_pinv c p : PInv p ->
    PInv (fst (recv c p)) /\ forall x, snd (recv c p) = Some x -> Q c x.
  Proof.
    intros [M E C]. unfold recv. destruct (take_first c (ps_bufs p)) as [m r] eqn:T. cbn [fst snd].
    destruct m as [x|].
    - destruct (take_first_in _ _ _ _ T) as [IN SUB]. split.
      + constructor; unfold AllMsgs, AllEntries, ClosedLocal in *;
          cbn [ps_entries ps_closed ps_close_err ps_inflight ps_bufs]; try assumption.
        intros c' m' H. apply M. apply in_app_or in H. apply in_or_app. destruct H as [H|H]; [left; exact H|right; exact (SUB _ H)].
      + intros y Hy. inversion Hy; subst. apply M. apply in_or_app. right. exact IN.
    - apply take_first_none in T. subst r. split; [|discriminate].
      destruct p; constructor; assumption.
  Qed.

  (* ---- the conn layer ---------------------------------------------------------------- *)

  Record CInv (s : cstate) : Prop := MkCInv { ci_p : PInv (cs_p s); ci_fin : FinOk (cs_fin s) }.

  Lemma finok_filter k fin : FinOk fin -> FinOk (filter (fun e => negb (fst e =? k)) fin).
  Proof. intros F k' al o I. apply filter_In in I. destruct I as [I _]. exact (F k' al o I). Qed.

  Lemma lookup_fin_in k fin al : lookup_fin k fin = Some al -> In (k, al) fin.
  Proof.
    unfold lookup_fin. destruct (find (fun e => fst e =? k) fin) as [[k' al']|] eqn:F; [|discriminate].
    intro E. inversion E; subst. apply find_some in F. destruct F as [F1 F2]. apply N.eqb_eq in F2. cbn in F2. subst. exact F1.
  Qed.

  Lemma shutdown_cinv e s : CInv s -> peer_originated ([], e) = false -> CInv (shutdown e s).
  Proof.
    intros [P F] L. unfold shutdown. destruct (cs_down s); [constructor; assumption|].
    constructor; cbn [cs_p cs_fin].
    - apply fail_all_pinv; assumption.
    - intros k al o I IO. apply in_app_or in I. destruct I as [I|I]; [|exact (F k al o I IO)].
      apply in_map_iff in I. destruct I as ([k' id] & EQ & _).
      destruct (fst (take_first k' (ps_bufs (cs_p s)))) as [m|] eqn:T.
      + inversion EQ; subst. destruct IO as [<-|[]].
        destruct (take_first k (ps_bufs (cs_p s))) as [m' r] eqn:T2. cbn [fst] in T. subst m'.
        destruct (take_first_in _ _ _ _ T2) as [IN _].
        apply (pi_msgs _ P). apply in_or_app. right. exact IN.
      + inversion EQ; subst. intro PO. destruct IO as [<-|[<-|[]]].
        * congruence.
        * discriminate.
  Qed.
End ConnInv.

(* the invariants only get easier when more reads / writes are known *)
Lemma own_ex_mono rd wr rd' wr' k o : incl rd rd' -> incl wr wr' -> own_ex rd wr k o -> own_ex rd' wr' k o.
Proof. intros I1 I2 H P. destruct (H P) as (id & A & B). exists id. split; [apply I1|apply I2]; assumption. Qed.

Lemma cinv_mono rd wr rd' wr' s : incl rd rd' -> incl wr wr' -> CInv rd wr s -> CInv rd' wr' s.
Proof.
  intros I1 I2 [[M E C] F]. constructor; [constructor|].
  - intros c m H. exact (own_ex_mono _ _ _ _ _ _ I1 I2 (M c m H)).
  - intros id c H. apply I1. exact (E id c H).
  - exact C.
  - intros k al o A B. exact (own_ex_mono _ _ _ _ _ _ I1 I2 (F k al o A B)).
Qed.

Lemma stopped_local : peer_originated ([], E_stopped) = false. Proof. reflexivity. Qed.
Lemma canceled_local : peer_originated ([], E_canceled) = false. Proof. reflexivity. Qed.
Lemma read_local : peer_originated ([], E_read) = false. Proof. reflexivity. Qed.
Lemma invalid_local : peer_originated ([], E_invalid_frame) = false. Proof. reflexivity. Qed.

Lemma own_ex_local rd wr k o : peer_originated o = false -> own_ex rd wr k o.
Proof. intros L P. congruence. Qed.

Ltac split_st ST :=
  pose proof (f_equal fst ST) as S1; pose proof (f_equal snd ST) as OK; cbn [fst snd] in S1, OK; clear ST.

(* one accepted script op *)
Lemma cstep_inv rd wr s o ob s1 :
  CInv rd wr s -> op_local o = true -> cstep s o ob = (s1, true) ->
  let rd1 := rd ++ reads_of [(o, ob)] in
  let wr1 := wr ++ writes_of [(o, ob)] in
  CInv rd1 wr1 s1 /\ forall k out, In (k, out) (results_of [(o, ob)]) -> own_ex rd1 wr1 k out.
Proof.
  intros I OL ST. cbv zeta.
  assert (MONO : forall x y, CInv rd wr s -> CInv (rd ++ x) (wr ++ y) s).
  { intros x y. apply cinv_mono; apply incl_appl; apply incl_refl. }
  destruct o as [k payload|k payload|reqid status payload|reqid|k|k| | |e]; cbn [cstep] in ST.
  - (* CStart *)
    destruct (cs_down s) eqn:DN.
    + destruct ob as [|r q|b|p e]; split_st ST; try discriminate; subst s1.
      apply outcome_eqb_true in OK. inversion OK; subst p e.
      cbn [reads_of writes_of results_of]. rewrite !app_nil_r. split.
      * destruct I as [P F]. constructor; cbn [cs_p cs_fin]; [apply delete_store_pinv; exact P|exact F].
      * intros k' out [H|[]]. inversion H; subst. apply own_ex_local. reflexivity.
    + destruct ob as [|r q|b|p e]; split_st ST; try discriminate; subst s1.
      apply andb_true_iff in OK. destruct OK as [OK1 OK2]. apply N.eqb_eq in OK1. subst r.
      cbn [reads_of writes_of results_of]. rewrite app_nil_r. split; [|intros k' out []].
      pose proof (MONO [(k, cs_next s + 1)] [] I) as I'. rewrite app_nil_r in I'. destruct I' as [P F].
      constructor; cbn [cs_p cs_fin]; [|exact F].
      apply store_pinv; [exact P|]. apply in_or_app. right. left. reflexivity.
  - (* CStartCanceled *)
    destruct ob as [|r q|b|p e]; split_st ST; try discriminate; subst s1.
    apply outcome_eqb_true in OK. inversion OK; subst p e.
    cbn [reads_of writes_of results_of]. rewrite !app_nil_r. split.
    + destruct I as [P F]. constructor; cbn [cs_p cs_fin]; [apply delete_store_pinv; exact P|exact F].
    + intros k' out [H|[]]. inversion H; subst. apply own_ex_local. reflexivity.
  - (* CRespond *)
    destruct (cs_down s) eqn:DN.
    + destruct ob as [|r q|[|]|p e]; split_st ST; try discriminate; subst s1.
      cbn [reads_of writes_of results_of]. rewrite !app_nil_r. split; [exact I|intros k' out []].
    + destruct (response_msg reqid (Some (status, payload))) as [p e] eqn:RM.
      destruct ob as [|r q|[|]|p' e']; split_st ST; try discriminate; subst s1.
      cbn [reads_of writes_of results_of]. rewrite app_nil_r, RM. split; [|intros k' out []].
      pose proof (MONO [] [(reqid, (p, e))] I) as I'. rewrite app_nil_r in I'. destruct I' as [P F].
      constructor; cbn [cs_p cs_fin]; [|exact F].
      apply complete_pinv; [exact P|]. apply in_or_app. right. left. reflexivity.
  - (* CRespondEmpty *)
    destruct (cs_down s) eqn:DN.
    + destruct ob as [|r q|[|]|p e]; split_st ST; try discriminate; subst s1.
      cbn [reads_of writes_of results_of]. rewrite !app_nil_r. split; [exact I|intros k' out []].
    + destruct ob as [|r q|[|]|p' e']; split_st ST; try discriminate; subst s1.
      cbn [reads_of writes_of results_of response_msg]. rewrite app_nil_r. split; [|intros k' out []].
      pose proof (MONO [] [(reqid, ([], 0))] I) as I'. rewrite app_nil_r in I'. destruct I' as [P F].
      constructor; cbn [cs_p cs_fin]; [|exact F].
      apply complete_pinv; [exact P|]. apply in_or_app. right. left. reflexivity.
  - (* CCancel *)
    destruct (lookup_fin k (cs_fin s)) as [al|] eqn:LF.
    + destruct ob as [|r q|b|p e]; split_st ST; try discriminate; subst s1.
      cbn [reads_of writes_of results_of]. rewrite !app_nil_r. destruct I as [P F]. split.
      * constructor; cbn [cs_p cs_fin]; [exact P|apply finok_filter; exact F].
      * intros k' out [H|[]]. inversion H; subst k' out. apply allowed_in in OK. destruct OK as [<-|IO].
        -- apply own_ex_local. reflexivity.
        -- exact (F k al (p, e) (lookup_fin_in _ _ _ LF) IO).
    + destruct (lookup k (cs_calls s)) as [id|] eqn:LC.
      * destruct (recv k (cs_p s)) as [p1 m] eqn:RC.
        destruct ob as [|r q|b|p e]; split_st ST; try discriminate; subst s1.
        cbn [reads_of writes_of results_of]. rewrite !app_nil_r. destruct I as [P F].
        destruct (recv_pinv rd wr k (cs_p s) P) as [P1 QX]. rewrite RC in P1, QX. cbn [fst snd] in P1, QX. split.
        -- constructor; cbn [cs_p cs_fin]; [apply delete_pinv; exact P1|exact F].
        -- intros k' out [H|[]]. inversion H; subst k' out. apply allowed_in in OK. destruct OK as [<-|IO].
           ++ apply own_ex_local. reflexivity.
           ++ destruct m as [x|]; [|contradiction]. destruct IO as [<-|[]]. exact (QX x eq_refl).
      * destruct ob as [|r q|b|p e]; split_st ST; try discriminate; subst s1.
        cbn [reads_of writes_of results_of]. rewrite !app_nil_r. split; [exact I|intros k' out []].
  - (* CAwait *)
    destruct (lookup_fin k (cs_fin s)) as [al|] eqn:LF.
    + destruct ob as [|r q|b|p e]; split_st ST; try discriminate; subst s1.
      cbn [reads_of writes_of results_of]. rewrite !app_nil_r. destruct I as [P F]. split.
      * constructor; cbn [cs_p cs_fin]; [exact P|apply finok_filter; exact F].
      * intros k' out [H|[]]. inversion H; subst k' out. apply allowed_in in OK.
        exact (F k al (p, e) (lookup_fin_in _ _ _ LF) OK).
    + destruct (lookup k (cs_calls s)) as [id|] eqn:LC.
      * destruct (recv k (cs_p s)) as [p1 m] eqn:RC. destruct m as [x|].
        -- destruct ob as [|r q|b|p e]; split_st ST; try discriminate; subst s1.
           cbn [reads_of writes_of results_of]. rewrite !app_nil_r. destruct I as [P F].
           destruct (recv_pinv rd wr k (cs_p s) P) as [P1 QX]. rewrite RC in P1, QX. cbn [fst snd] in P1, QX. split.
           ++ constructor; cbn [cs_p cs_fin]; [exact P1|exact F].
           ++ intros k' out [H|[]]. inversion H; subst k' out. apply outcome_eqb_true in OK. rewrite OK. exact (QX x eq_refl).
        -- split_st ST. discriminate.
      * destruct ob as [|r q|b|p e]; split_st ST; try discriminate; subst s1.
        cbn [reads_of writes_of results_of]. rewrite !app_nil_r. split; [exact I|intros k' out []].
  - (* CReset *)
    destruct ob as [|r q|b|p e]; split_st ST; try discriminate; subst s1.
    cbn [reads_of writes_of results_of]. rewrite !app_nil_r. split; [|intros k' out []].
    apply shutdown_cinv; [exact I|reflexivity].
  - (* CGarbage *)
    destruct ob as [|r q|b|p e]; split_st ST; try discriminate; subst s1.
    cbn [reads_of writes_of results_of]. rewrite !app_nil_r. split; [|intros k' out []].
    apply shutdown_cinv; [exact I|reflexivity].
  - (* CClose *)
    destruct ob as [|r q|b|p e']; split_st ST; try discriminate; subst s1.
    cbn [reads_of writes_of results_of]. rewrite !app_nil_r. split; [|intros k' out []].
    apply shutdown_cinv; [exact I|]. cbn [op_local] in OL. apply negb_true_iff in OL. exact OL.
Qed.

(* the projections of a script distribute over cons *)
Lemma reads_cons x l : reads_of (x :: l) = reads_of [x] ++ reads_of l.
Proof. destruct x as [[] []]; reflexivity. Qed.
Lemma writes_cons x l : writes_of (x :: l) = writes_of [x] ++ writes_of l.
Proof. destruct x as [[] [| |[|]|]]; reflexivity. Qed.
Lemma results_cons x l : results_of (x :: l) = results_of [x] ++ results_of l.
Proof. destruct x as [[] []]; reflexivity. Qed.

Lemma crun_inv : forall script rd wr s s',
  CInv rd wr s -> closes_local script = true -> crun s script = (s', true) ->
  let rd' := rd ++ reads_of script in
  let wr' := wr ++ writes_of script in
  CInv rd' wr' s' /\ forall k out, In (k, out) (results_of script) -> own_ex rd' wr' k out.
Proof.
  induction script as [|[o ob] script IH]; intros rd wr s s' I CL R; cbv zeta.
  - cbn in R. inversion R; subst. cbn [reads_of writes_of results_of]. rewrite !app_nil_r.
    split; [exact I|intros k out []].
  - cbn [crun] in R. destruct (cstep s o ob) as [s1 ok1] eqn:ST.
    destruct (crun s1 script) as [s2 ok2] eqn:R2. inversion R; subst s2. clear R.
    apply andb_true_iff in H1. destruct H1 as [-> ->].
    cbn [closes_local forallb fst] in CL. apply andb_true_iff in CL. destruct CL as [OL CL].
    destruct (cstep_inv rd wr s o ob s1 I OL ST) as [I1 RS1].
    destruct (IH _ _ s1 s' I1 CL R2) as [I2 RS2].
    rewrite (reads_cons (o, ob)), (writes_cons (o, ob)), (results_cons (o, ob)), !app_assoc.
    split; [exact I2|].
    intros k out H. apply in_app_or in H. destruct H as [H|H]; [|exact (RS2 k out H)].
    apply (own_ex_mono (rd ++ reads_of [(o, ob)]) (wr ++ writes_of [(o, ob)])); try (apply incl_appl; apply incl_refl).
    exact (RS1 k out H).
Qed.

(* request ids on the wire: strictly increasing, hence pairwise distinct *)
Lemma cstep_next s o ob s1 ok : cstep s o ob = (s1, ok) -> cs_next s <= cs_next s1.
Proof.
  destruct o; cbn [cstep]; intro H;
    repeat match type of H with
           | (if ?c then _ else _) = _ => destruct c
           | (let '(_, _) := ?x in _) = _ => destruct x
           | (let (_, _) := ?x in _) = _ => destruct x
           | match ?x with _ => _ end = _ => destruct x
           end; inversion H; subst; cbn [cs_next shutdown]; try lia;
    try (unfold shutdown; destruct (cs_down s); cbn [cs_next]; lia).
Qed.

Lemma crun_reads : forall script s s' , crun s script = (s', true) ->
  (forall kr, In kr (reads_of script) -> cs_next s < snd kr) /\ nodup_N (map snd (reads_of script)) = true
  /\ request_echo_ok script = true.
Proof.
  induction script as [|[o ob] script IH]; intros s s' R.
  - split; [intros kr []|]. split; reflexivity.
  - cbn [crun] in R. destruct (cstep s o ob) as [s1 ok1] eqn:ST.
    destruct (crun s1 script) as [s2 ok2] eqn:R2. inversion R; subst s2. clear R.
    apply andb_true_iff in H1. destruct H1 as [-> ->].
    destruct (IH s1 s' R2) as (A & B & C). pose proof (cstep_next _ _ _ _ _ ST) as NX.
    destruct o as [k payload| | | | | | | |]; destruct ob as [|rr qq|bb|pp ee];
      try (cbn [reads_of request_echo_ok]; split; [intros kr H; specialize (A kr H); lia|split; assumption]).
    (* CStart with CoRead *)
    cbn [cstep] in ST. destruct (cs_down s); [split_st ST; discriminate|].
    split_st ST. apply andb_true_iff in OK. destruct OK as [OK1 OK2]. apply N.eqb_eq in OK1. subst rr.
    assert (N1 : cs_next s1 = cs_next s + 1) by (rewrite <- S1; reflexivity).
    cbn [reads_of request_echo_ok map snd nodup_N]. split; [|split].
    + intros kr [<-|H]; [cbn; lia|]. specialize (A kr H). lia.
    + rewrite B, andb_true_r. apply negb_true_iff. destruct (existsb (N.eqb (cs_next s + 1)) (map snd (reads_of script))) eqn:EX; [|reflexivity].
      apply existsb_exists in EX. destruct EX as (x & IX & EQ). apply N.eqb_eq in EQ. subst x.
      apply in_map_iff in IX. destruct IX as (kr & E & IK). specialize (A kr IK). lia.
    + apply bytes_eqb_eq in OK2. subst qq. rewrite C.
      assert (X : bytes_eqb payload payload = true) by (apply bytes_eqb_eq; reflexivity). rewrite X. reflexivity.
Qed.

Lemma own_response_of_ex rd wr k o : own_ex rd wr k o -> C26Case.own_response rd wr (k, o) = true.
Proof.
  intro H. unfold C26Case.own_response. cbn [fst snd]. destruct (peer_originated o) eqn:P; [|reflexivity].
  destruct (H P) as (id & A & B).
  apply existsb_exists. exists (k, id). split; [exact A|]. cbn [fst snd]. rewrite N.eqb_refl. cbn [andb].
  apply existsb_exists. exists (id, o). split; [exact B|]. cbn [fst snd]. rewrite N.eqb_refl, outcome_eqb_refl. reflexivity.
Qed.

(* C26 (b), conn level: accepted by the model => the monitor holds *)
Lemma conn_accept_monitor script final s :
  closes_local script = true -> crun cinit script = (s, true) -> cfinal_ok s final = true ->
  mon_conn script final = true.
Proof.
  intros CL R FO.
  assert (I0 : CInv [] [] cinit).
  { constructor; [constructor|]; cbn.
    - intros c m [].
    - intros id c [].
    - intro H. discriminate.
    - intros k al o []. }
  destruct (crun_inv script [] [] cinit s I0 CL R) as [I RS]. cbn [app] in I, RS.
  destruct (crun_reads script cinit s R) as (_ & ND & EC).
  unfold mon_conn. rewrite ND, EC. cbn [andb].
  apply forallb_forall. intros [k o] IN. apply own_response_of_ex.
  apply in_app_or in IN. destruct IN as [IN|IN]; [exact (RS k o IN)|].
  unfold cfinal_ok in FO. apply andb_true_iff in FO. destruct FO as [_ FO].
  rewrite forallb_forall in FO. specialize (FO (k, o) IN). cbn [fst snd] in FO.
  destruct (lookup_fin k (cs_fin (shutdown E_stopped s))) as [al|] eqn:LF; [|discriminate].
  pose proof (shutdown_cinv _ _ E_stopped s I stopped_local) as [_ F].
  exact (F k al o (lookup_fin_in _ _ _ LF) (allowed_in _ _ FO)).
Qed.

(* in terms of the case file: no mismatch on a conn case => its monitor is 0 *)
Lemma conn_case_monitor script final : closes_local script = true ->
  C26_mismatch (C26Conn script final) = false -> C26_monitor (C26Conn script final) = 0.
Proof.
  intros CL MM. cbn [C26_mismatch C26_monitor] in *.
  destruct (crun cinit script) as [s ok] eqn:R. apply negb_false_iff, andb_true_iff in MM. destruct MM as [-> FO].
  rewrite (conn_accept_monitor script final s CL R FO). reflexivity.
Qed.
