(* Proof/Membership_order.v — the key order of the activation index
   (entry_compare) is a strict total order inside one (slot, uid) prefix;
   insertion sort yields the unique strictly sorted arrangement; filtering a
   sorted list by "strictly after e" returns the part behind e. *)
From WK Require Import Base.Base.
From Coq Require Import Sorting.Sorted.
From WK Require Import Gen.Consts_C16 Model.Membership Proof.Membership.
Open Scope N_scope.

Lemma N_cmp_lt x y : (x ?= y) = Lt -> x < y.
Proof. intro H. exact H. Qed.
Lemma Nat_cmp_lt x y : Nat.compare x y = Lt -> (x < y)%nat.
Proof. apply Nat.compare_lt_iff. Qed.
Lemma Z_cmp_lt x y : (x ?= y)%Z = Lt -> (x < y)%Z.
Proof. intro H. exact H. Qed.

(* ---- comparisons ------------------------------------------------------------------- *)

Lemma lex_compare_refl a : lex_compare a a = Eq.
Proof. induction a as [|x a IH]; [reflexivity|]. cbn [lex_compare]. rewrite N.compare_refl. exact IH. Qed.

Lemma lex_compare_eq : forall a b, lex_compare a b = Eq -> a = b.
Proof.
  induction a as [|x a IH]; destruct b as [|y b]; cbn [lex_compare]; intro H; try discriminate; [reflexivity|].
  destruct (N.compare x y) eqn:C; try discriminate.
  apply N.compare_eq_iff in C. subst. f_equal. apply IH. exact H.
Qed.

Lemma lex_compare_antisym : forall a b, lex_compare b a = CompOpp (lex_compare a b).
Proof.
  induction a as [|x a IH]; destruct b as [|y b]; cbn [lex_compare]; try reflexivity.
  rewrite (N.compare_antisym x y). destruct (N.compare x y); cbn [CompOpp]; [apply IH|reflexivity|reflexivity].
Qed.

Lemma lex_compare_trans : forall a b c, lex_compare a b = Lt -> lex_compare b c = Lt -> lex_compare a c = Lt.
Proof.
  induction a as [|x a IH]; destruct b as [|y b]; destruct c as [|z c]; cbn [lex_compare];
    intros H1 H2; try discriminate; try reflexivity.
  destruct (N.compare x y) eqn:C1; try discriminate;
    destruct (N.compare y z) eqn:C2; try discriminate.
  - apply N.compare_eq_iff in C1. apply N.compare_eq_iff in C2. subst.
    rewrite N.compare_refl. eapply IH; eassumption.
  - apply N.compare_eq_iff in C1. subst. rewrite C2. reflexivity.
  - apply N.compare_eq_iff in C2. subst. rewrite C1. reflexivity.
  - apply N_cmp_lt in C1. apply N_cmp_lt in C2.
    assert (x < z) as L by lia. unfold N.lt in L. rewrite L. reflexivity.
Qed.

Lemma keystring_compare_refl a : keystring_compare a a = Eq.
Proof. unfold keystring_compare. rewrite Nat.compare_refl. apply lex_compare_refl. Qed.

Lemma keystring_compare_eq a b : keystring_compare a b = Eq -> a = b.
Proof.
  unfold keystring_compare. destruct (Nat.compare (length a) (length b)); try discriminate.
  apply lex_compare_eq.
Qed.

Lemma keystring_compare_antisym a b : keystring_compare b a = CompOpp (keystring_compare a b).
Proof.
  unfold keystring_compare. rewrite (Nat.compare_antisym (length a) (length b)).
  destruct (Nat.compare (length a) (length b)); cbn [CompOpp]; [apply lex_compare_antisym|reflexivity|reflexivity].
Qed.

Lemma keystring_compare_trans a b c :
  keystring_compare a b = Lt -> keystring_compare b c = Lt -> keystring_compare a c = Lt.
Proof.
  unfold keystring_compare.
  destruct (Nat.compare (length a) (length b)) eqn:C1; try discriminate;
    destruct (Nat.compare (length b) (length c)) eqn:C2; try discriminate; intros H1 H2.
  - apply Nat.compare_eq_iff in C1. apply Nat.compare_eq_iff in C2.
    rewrite C1, C2, Nat.compare_refl. eapply lex_compare_trans; eassumption.
  - apply Nat.compare_eq_iff in C1. rewrite C1, C2. reflexivity.
  - apply Nat.compare_eq_iff in C2. rewrite <- C2, C1. reflexivity.
  - apply Nat_cmp_lt in C1. apply Nat_cmp_lt in C2.
    assert (length a < length c)%nat as L by lia. apply Nat.compare_lt_iff in L. rewrite L. reflexivity.
Qed.

Lemma entry_compare_refl a : entry_compare a a = Eq.
Proof. unfold entry_compare. rewrite Z.compare_refl, keystring_compare_refl, Z.compare_refl. reflexivity. Qed.

Definition same_prefix (slot : N) (uid : bytes) (e : idx_entry) : Prop :=
  ie_slot e = slot /\ ie_uid e = uid.

Lemma entry_compare_eq slot uid a b :
  same_prefix slot uid a -> same_prefix slot uid b -> entry_compare a b = Eq -> a = b.
Proof.
  intros [Sa Ua] [Sb Ub]. unfold entry_compare.
  destruct (Z.compare (ie_activated_at b) (ie_activated_at a)) eqn:C1; try discriminate.
  destruct (keystring_compare (ie_channel_id a) (ie_channel_id b)) eqn:C2; try discriminate.
  intro C3. apply Z.compare_eq_iff in C1. apply keystring_compare_eq in C2. apply Z.compare_eq_iff in C3.
  destruct a, b. cbn in *. subst. reflexivity.
Qed.

Lemma entry_compare_antisym a b : entry_compare b a = CompOpp (entry_compare a b).
Proof.
  unfold entry_compare.
  rewrite (Z.compare_antisym (ie_activated_at b) (ie_activated_at a)).
  destruct (Z.compare (ie_activated_at b) (ie_activated_at a)); cbn [CompOpp]; try reflexivity.
  rewrite (keystring_compare_antisym (ie_channel_id a) (ie_channel_id b)).
  destruct (keystring_compare (ie_channel_id a) (ie_channel_id b)); cbn [CompOpp]; try reflexivity.
  apply Z.compare_antisym.
Qed.

Definition elt (a b : idx_entry) : Prop := entry_compare a b = Lt.

Lemma elt_trans a b c : elt a b -> elt b c -> elt a c.
Proof.
  unfold elt, entry_compare.
  destruct (Z.compare (ie_activated_at b) (ie_activated_at a)) eqn:C1; try discriminate;
    destruct (Z.compare (ie_activated_at c) (ie_activated_at b)) eqn:C2; try discriminate; intros H1 H2.
  - apply Z.compare_eq_iff in C1. apply Z.compare_eq_iff in C2.
    rewrite C2, C1, Z.compare_refl.
    destruct (keystring_compare (ie_channel_id a) (ie_channel_id b)) eqn:K1; try discriminate;
      destruct (keystring_compare (ie_channel_id b) (ie_channel_id c)) eqn:K2; try discriminate.
    + apply keystring_compare_eq in K1. apply keystring_compare_eq in K2.
      rewrite K1, K2, keystring_compare_refl.
      apply Z_cmp_lt in H1. apply Z_cmp_lt in H2. apply Z.compare_lt_iff. lia.
    + apply keystring_compare_eq in K1. rewrite K1, K2. reflexivity.
    + apply keystring_compare_eq in K2. rewrite <- K2, K1. reflexivity.
    + rewrite (keystring_compare_trans _ _ _ K1 K2). reflexivity.
  - apply Z.compare_eq_iff in C1. rewrite <- C1, C2. reflexivity.
  - apply Z.compare_eq_iff in C2. rewrite C2, C1. reflexivity.
  - apply Z_cmp_lt in C1. apply Z_cmp_lt in C2.
    assert (ie_activated_at c < ie_activated_at a)%Z as L by lia.
    unfold Z.lt in L. rewrite L. reflexivity.
Qed.

Lemma elt_irrefl a : ~ elt a a.
Proof. unfold elt. rewrite entry_compare_refl. discriminate. Qed.

Lemma elt_asym a b : elt a b -> ~ elt b a.
Proof. intros H1 H2. exact (elt_irrefl a (elt_trans _ _ _ H1 H2)). Qed.

Lemma entry_ltb_true a b : entry_ltb a b = true <-> elt a b.
Proof. unfold entry_ltb, elt. destruct (entry_compare a b); split; intro H; try reflexivity; discriminate. Qed.

Lemma entry_ltb_false_elt a b : elt a b -> entry_ltb b a = false.
Proof.
  intro H. destruct (entry_ltb b a) eqn:E; [|reflexivity].
  apply entry_ltb_true in E. exfalso. exact (elt_asym _ _ H E).
Qed.

Lemma entry_ltb_irrefl a : entry_ltb a a = false.
Proof. unfold entry_ltb. rewrite entry_compare_refl. reflexivity. Qed.

(* not less and not equal: greater *)
Lemma not_ltb_elt slot uid a b :
  same_prefix slot uid a -> same_prefix slot uid b -> a <> b -> entry_ltb a b = false -> elt b a.
Proof.
  intros Pa Pb Hne Hlt. unfold elt. rewrite entry_compare_antisym.
  unfold entry_ltb in Hlt. destruct (entry_compare a b) eqn:C; try discriminate.
  - exfalso. apply Hne. eapply entry_compare_eq; eassumption.
  - reflexivity.
Qed.

(* ---- insertion sort -------------------------------------------------------------------- *)

Lemma entry_insert_In e : forall l x, In x (entry_insert e l) <-> x = e \/ In x l.
Proof.
  induction l as [|y r IH]; intro x; cbn [entry_insert].
  - cbn. intuition.
  - destruct (entry_ltb y e); cbn [In].
    + rewrite IH. intuition.
    + intuition.
Qed.

Lemma entry_sort_In : forall l x, In x (entry_sort l) <-> In x l.
Proof.
  induction l as [|e r IH]; intro x; [reflexivity|].
  cbn [entry_sort fold_right]. fold (entry_sort r). rewrite entry_insert_In, IH. cbn. intuition.
Qed.

Lemma entry_insert_sorted slot uid e : forall l,
  same_prefix slot uid e -> Forall (same_prefix slot uid) l -> ~ In e l ->
  StronglySorted elt l -> StronglySorted elt (entry_insert e l).
Proof.
  induction l as [|y r IH]; intros Pe Pl Hnin Hs; cbn [entry_insert].
  - constructor; constructor.
  - inversion Hs as [|? ? Hsr Hall]; subst. inversion Pl as [|? ? Py Pr]; subst.
    destruct (entry_ltb y e) eqn:Hlt.
    + constructor.
      * apply IH; auto. intro C. apply Hnin. right. exact C.
      * apply Forall_forall. intros x Hx. apply entry_insert_In in Hx. destruct Hx as [->|Hx].
        -- apply entry_ltb_true. exact Hlt.
        -- rewrite Forall_forall in Hall. apply Hall. exact Hx.
    + assert (elt e y) as Hey.
      { eapply not_ltb_elt; eauto. intro C. apply Hnin. left. exact C. }
      constructor; [exact Hs|]. constructor; [exact Hey|].
      apply Forall_forall. intros x Hx. rewrite Forall_forall in Hall.
      eapply elt_trans; [exact Hey|apply Hall; exact Hx].
Qed.

Lemma entry_sort_sorted slot uid : forall l,
  Forall (same_prefix slot uid) l -> NoDup l -> StronglySorted elt (entry_sort l).
Proof.
  induction l as [|e r IH]; intros Pl Hnd; [constructor|].
  cbn [entry_sort fold_right]. fold (entry_sort r).
  inversion Pl as [|? ? Pe Pr]; subst. inversion Hnd as [|? ? Hnin Hndr]; subst.
  apply (entry_insert_sorted slot uid e (entry_sort r) Pe).
  - apply Forall_forall. intros x Hx. apply (proj1 (entry_sort_In r x)) in Hx. rewrite Forall_forall in Pr. apply Pr. exact Hx.
  - intro C. apply (proj1 (entry_sort_In r e)) in C. contradiction.
  - apply IH; assumption.
Qed.

(* a strictly sorted list is determined by its elements *)
Lemma sorted_unique : forall l1 l2,
  StronglySorted elt l1 -> StronglySorted elt l2 -> (forall x, In x l1 <-> In x l2) -> l1 = l2.
Proof.
  induction l1 as [|h1 t1 IH]; intros l2 S1 S2 Hin.
  - destruct l2 as [|h2 t2]; [reflexivity|]. exfalso. apply (proj2 (Hin h2)). left. reflexivity.
  - destruct l2 as [|h2 t2]; [exfalso; apply (proj1 (Hin h1)); left; reflexivity|].
    inversion S1 as [|? ? S1t F1]; subst. inversion S2 as [|? ? S2t F2]; subst.
    rewrite Forall_forall in F1, F2.
    assert (h1 = h2) as ->.
    { destruct (proj1 (Hin h1) (or_introl eq_refl)) as [E|E]; [symmetry; exact E|].
      destruct (proj2 (Hin h2) (or_introl eq_refl)) as [E'|E']; [exact E'|].
      exfalso. exact (elt_asym _ _ (F1 _ E') (F2 _ E)). }
    f_equal. apply IH; auto. intro x. split; intro Hx.
    + destruct (proj1 (Hin x) (or_intror Hx)) as [E|E]; [|exact E].
      subst x. exfalso. exact (elt_irrefl _ (F1 _ Hx)).
    + destruct (proj2 (Hin x) (or_intror Hx)) as [E|E]; [|exact E].
      subst x. exfalso. exact (elt_irrefl _ (F2 _ Hx)).
Qed.

(* ---- the cursor filter ------------------------------------------------------------------- *)

Lemma sorted_app_inv : forall P e S,
  StronglySorted elt (P ++ e :: S) ->
  Forall (fun p => elt p e) P /\ Forall (elt e) S /\ StronglySorted elt S.
Proof.
  induction P as [|p P IH]; intros e S H; cbn [app] in H.
  - inversion H; subst. split; [constructor|]. split; assumption.
  - inversion H as [|? ? Hs Hall]; subst. destruct (IH _ _ Hs) as (F1 & F2 & S2).
    split; [|split; assumption]. constructor; [|exact F1].
    rewrite Forall_forall in Hall. apply Hall. apply in_or_app. right. left. reflexivity.
Qed.

Lemma filter_after_last P e S :
  StronglySorted elt (P ++ e :: S) -> filter (entry_ltb e) (P ++ e :: S) = S.
Proof.
  intro H. destruct (sorted_app_inv _ _ _ H) as (F1 & F2 & _).
  rewrite filter_app. cbn [filter]. rewrite entry_ltb_irrefl.
  assert (filter (entry_ltb e) P = []) as ->.
  { clear H F2. induction P as [|p P IH]; [reflexivity|].
    inversion F1; subst. cbn [filter]. rewrite (entry_ltb_false_elt _ _ H1). apply IH. assumption. }
  cbn [app]. clear H F1. induction S as [|s S IH]; [reflexivity|].
  inversion F2; subst. cbn [filter].
  assert (entry_ltb e s = true) as -> by (apply entry_ltb_true; assumption).
  f_equal. apply IH. assumption.
Qed.
