(* Proof/MsgStore_ops.v — the mutations of the model, one by one: each result the
   model reports is a result the plain sequential log accepts ([spec_mutate]), and
   the relation [R] holds again afterwards. *)
From WK Require Import Base.Base Model.KV Gen.Consts_C07 Model.MsgStore Model.MsgStore_C07
     Proof.KV Proof.MsgStore_base Proof.MsgStore_rel Proof.MsgStore_reads Proof.MsgStore_frame
     Proof.MsgStore_mut Proof.MsgStore_step.
From Coq Require Import Sorting.Permutation Sorting.Sorted.

Section Ops.
  Variable F : Type.
  Variable f_empty : F.
  Variable f_may : F -> bytes * bytes -> bool.
  Variable f_add : F -> bytes * bytes -> F.

  Notation mstate := (mstate F).
  Notation R := (R F).
  Notation st_kv := (st_kv F).
  Notation st_cache := (st_cache F).
  Notation loadLEOLocked := (loadLEOLocked F).
  Notation validate_rows := (validate_rows F f_may f_add).
  Notation volatile_only := (volatile_only F).

  Definition sim (s : aspec) (o : op) (st' : mstate) (x : out) : Prop :=
    exists s', spec_mutate s o x = Some s' /\ R st' s'.

  (* ---- appending validated rows ------------------------------------------------------------------------ *)

  Lemma append_commit st s c rows extra leo :
    R st s -> In c all_chans -> rows <> [] ->
    al_leo (as_log s c) = leo -> consec (leo + 1) rows -> Forall (row_ok c) rows ->
    irrelevant_batch extra ->
    R (set_leo F (commit F st (stageMessageRows c rows ++ extra)) c (last_seq rows))
      (spec_append s c (map arow_of rows)).
  Proof.
    intros HR Hc Hne Hl Hcs Hok Hex.
    apply (R_commit_set_leo F st s); [exact HR| | |].
    - rewrite kapply_app. apply Rkv_irrelevant; [exact Hex|].
      apply add_rows_Rkv; [apply HR|exact Hc|exact Hok|rewrite Hl; exact Hcs].
    - apply spec_append_leo. exact Hne.
    - intros c' Hne'. rewrite spec_append_other by exact Hne'. reflexivity.
  Qed.

  Lemma walk_cases st s c recs mode base :
    R st s ->
    let '(st1, r) := walkAppendRowsLocked F f_may f_add st c recs mode base in
    match r with
    | inr _ => R st1 s
    | inl rows =>
      R st1 s /\ ((base =? 0) || (base =? al_leo (as_log s c) + 1)) = true
      /\ match recs with
         | [] => rows = []
         | _ => rows = rows_from c (al_leo (as_log s c) + 1) recs /\ Forall (row_ok c) rows
         end
    end.
  Proof.
    intro HR. unfold walkAppendRowsLocked.
    destruct (negb (valid_mode mode)); [exact HR|].
    destruct (loadLEO_R F st s c HR) as [H1 [H2 _]].
    destruct (loadLEOLocked st c) as [st1 leo]. cbn [fst snd] in H1, H2. subst leo.
    destruct (negb (base =? 0) && negb (base =? al_leo (as_log s c) + 1)) eqn:Eb; [exact H2|].
    assert (Hb : ((base =? 0) || (base =? al_leo (as_log s c) + 1)) = true).
    { destruct (base =? 0); [reflexivity|]. destruct (base =? al_leo (as_log s c) + 1); [reflexivity|discriminate]. }
    destruct recs as [|x recs]; [split; [exact H2|split; [exact Hb|reflexivity]]|].
    set (rows := rows_from c (al_leo (as_log s c) + 1) (x :: recs)).
    pose proof (validate_rows_volatile F f_may f_add rows st1 c (Seen [] []) mode) as Hv.
    destruct (validate_rows st1 c rows (Seen [] []) mode) as [st2 [sn|e]] eqn:Ev; cbn [fst] in Hv.
    - split; [eapply volatile_R; eassumption|]. split; [exact Hb|]. split; [reflexivity|].
      apply rows_from_ok; [lia|]. eapply validate_rows_ids. exact Ev.
    - eapply volatile_R; eassumption.
  Qed.

  Lemma step_append st s c mode base recs :
    R st s -> In c all_chans ->
    let '(st', r) := Append F f_may f_add st c recs mode base in
    sim s (OAppend c mode base recs) st' (out_of r (fun x => let '(b, l, n) := x in XApp b l n)).
  Proof.
    intros HR Hc. unfold Append.
    pose proof (walk_cases st s c recs mode base HR) as Hw.
    destruct (walkAppendRowsLocked F f_may f_add st c recs mode base) as [st1 [rows|e]].
    2:{ exists s. split; [reflexivity|exact Hw]. }
    destruct Hw as [HR1 [Hb Hrows]].
    destruct recs as [|x recs].
    - subst rows. exists s. split; [reflexivity|exact HR1].
    - destruct Hrows as [Er Hok].
      assert (Hne : rows <> []) by (rewrite Er; discriminate).
      assert (Hcs : consec (al_leo (as_log s c) + 1) rows) by (rewrite Er; apply rows_from_consec).
      destruct rows as [|r0 rows0] eqn:Erows; [contradiction|]. rewrite <- Erows in *.
      exists (spec_append s c (map arow_of rows)). split.
      + cbn [out_of ok spec_mutate].
        rewrite (consec_first _ _ Hcs Hne), N.eqb_refl, Hb. cbn [andb].
        pose proof (consec_last _ _ Hcs Hne) as Hl.
        assert (Hlen : length rows = length (x :: recs)) by (rewrite Er; apply rows_from_length).
        rewrite Hlen in Hl. rewrite Hl, N.eqb_refl, Hlen, N.eqb_refl. cbn [andb].
        rewrite Er, rows_from_arows. reflexivity.
      + apply (append_commit st1 s c rows _ (al_leo (as_log s c))); try assumption; [reflexivity|apply irrelevant_catalog_app].
  Qed.

  (* ---- compat append ------------------------------------------------------------------------------------------ *)

  Lemma step_capp st s c mode recs :
    R st s -> In c all_chans ->
    let '(st', r) := CAppend F f_may f_add st c recs mode in
    sim s (OCApp c mode recs) st' (out_of r XN).
  Proof.
    intros HR Hc. unfold CAppend.
    destruct (loadLEO_R F st s c HR) as [H1 [H2 _]].
    destruct (loadLEOLocked st c) as [st1 base]. cbn [fst snd] in H1, H2. subst base.
    destruct recs as [|x recs].
    - exists s. split; [|exact H2]. cbn [out_of ok spec_mutate]. rewrite N.eqb_refl. reflexivity.
    - destruct (compatibilityRowsFromRecords c (al_leo (as_log s c) + 1) (x :: recs)) as [rows|e] eqn:Ec.
      2:{ exists s. split; [reflexivity|exact H2]. }
      destruct (compat_rows _ _ _ _ Ec) as [Hcs [Har [Hlen Hf]]].
      pose proof (validate_rows_volatile F f_may f_add rows st1 c (Seen [] []) mode) as Hv.
      destruct (validate_rows st1 c rows (Seen [] []) mode) as [st2 [sn|e]] eqn:Ev; cbn [fst] in Hv.
      2:{ exists s. split; [reflexivity|eapply volatile_R; eassumption]. }
      assert (Hne : rows <> []) by (intro X; subst rows; discriminate Hlen).
      exists (spec_append s c (map arow_of rows)). split.
      + cbn [out_of ok spec_mutate]. rewrite N.eqb_refl, Har. reflexivity.
      + assert (Hok : Forall (row_ok c) rows) by (eapply consec_ok; [|exact Hcs|exact Hf]; lia).
        assert (El : al_leo (as_log s c) + N.of_nat (length (x :: recs)) = last_seq rows).
        { pose proof (consec_last _ _ Hcs Hne) as Hl. rewrite Hlen in Hl. lia. }
        rewrite El. apply (append_commit st2 s c rows _ (al_leo (as_log s c))); try assumption; [eapply volatile_R; eassumption|reflexivity|apply irrelevant_catalog_app].
  Qed.

  (* ---- checkpoints ----------------------------------------------------------------------------------------------- *)

  Lemma set_log_other s c l c' : c' <> c -> as_log (set_log s c l) c' = as_log s c'.
  Proof. intro H. unfold set_log. cbn [as_log]. apply N.eqb_neq in H. rewrite H. reflexivity. Qed.

  Lemma set_log_same s c l : as_log (set_log s c l) c = l.
  Proof. unfold set_log. cbn [as_log]. rewrite N.eqb_refl. reflexivity. Qed.

  Lemma sys_ckpt c ck extra : irrelevant_batch extra -> sys_batch (ckpt_put c ck ++ extra).
  Proof.
    intros He k Hk. rewrite forallb_app. apply andb_true_iff. split.
    - destruct ck as [[e l] h]. destruct k; cbn in Hk |- *; try reflexivity; discriminate.
    - apply He. destruct k; cbn in Hk |- *; try reflexivity; discriminate.
  Qed.

  Lemma keff_ckpt k c e l h extra cur :
    irrelevant_batch extra -> irrelevant k = false ->
    keff k (ckpt_put c (e, l, h) ++ extra) cur = if key_eqb k (KyCkpt c) then Some (VTriple e l h) else cur.
  Proof.
    intros He Hk. rewrite keff_app, keff_irrelevant by assumption.
    cbn [ckpt_put keff batch_effect fold_left op_effect]. reflexivity.
  Qed.

  Lemma ckpt_Rkv kv s c ck extra :
    irrelevant_batch extra -> Rkv kv s ->
    Rkv (kapply kv (ckpt_put c ck ++ extra)) (set_log s c (set_ck (as_log s c) ck)).
  Proof.
    intros He HR. destruct ck as [[e l] h].
    assert (W' : swf (kapply kv (ckpt_put c (e, l, h) ++ extra))) by (apply swf_apply; apply HR).
    apply (Rkv_sys kv s); [apply sys_ckpt; exact He|exact HR|reflexivity|].
    intro c0.
    assert (Hh : loadHistory (kapply kv (ckpt_put c (e, l, h) ++ extra)) c0 = loadHistory kv c0).
    { apply (loadHistory_ext kv _ c0 (rk_wf _ _ HR) W'). intros o ep. rewrite kget_apply, keff_ckpt by (exact He || reflexivity).
      reflexivity. }
    destruct (rk_chan _ _ HR c0) as [rows Rc].
    destruct (N.eq_dec c0 c) as [->|Hne].
    - rewrite set_log_same. cbn [set_ck al_rows al_leo al_tpairs al_ck al_hist].
      repeat split.
      + unfold loadCheckpoint. rewrite kget_apply, keff_ckpt by (exact He || reflexivity).
        rewrite key_eqb_refl. reflexivity.
      + rewrite Hh. apply Rc.
    - rewrite set_log_other by exact Hne. repeat split.
      + rewrite (loadCk_ext kv); [apply Rc|]. rewrite kget_apply, keff_ckpt by (exact He || reflexivity).
        cbn [key_eqb]. apply N.eqb_neq in Hne. rewrite Hne. reflexivity.
      + rewrite Hh. apply Rc.
  Qed.

  Lemma set_ck_leo s c ck c' : al_leo (as_log (set_log s c (set_ck (as_log s c) ck)) c') = al_leo (as_log s c').
  Proof.
    destruct (N.eq_dec c' c) as [->|Hne]; [rewrite set_log_same; reflexivity|rewrite set_log_other by exact Hne; reflexivity].
  Qed.

  Lemma step_ckpt st s c e l h :
    R st s ->
    let '(st', r) := StoreCheckpoint F st c (e, l, h) in
    sim s (OCkpt c e l h) st' (out_of r (fun _ => XOk)).
  Proof.
    intro HR. unfold StoreCheckpoint. destruct (validateCheckpoint (e, l, h)) as [u|err].
    - exists (set_log s c (set_ck (as_log s c) (e, l, h))). split; [reflexivity|].
      apply (R_commit_same_leo F st s); [exact HR| |intro; apply set_ck_leo].
      apply ckpt_Rkv; [apply irrelevant_catalog|apply HR].
    - exists s. split; [reflexivity|exact HR].
  Qed.

  Lemma step_ckptm st s c e l h v leo :
    R st s ->
    let '(st', r) := StoreCheckpointMonotonic F st c (e, l, h) v leo in
    sim s (OCkptM c e l h v leo) st' (out_of r (fun _ => XOk)).
  Proof.
    intro HR. unfold StoreCheckpointMonotonic.
    destruct (validateCheckpointMonotonicLocked (st_kv st) c (e, l, h) v leo) as [u|err].
    - pose proof (step_ckpt st s c e l h HR) as H. destruct (StoreCheckpoint F st c (e, l, h)) as [st' r].
      destruct H as [s' [H1 H2]]. exists s'. split; [|exact H2].
      destruct r; cbn [out_of] in H1 |- *; exact H1.
    - exists s. split; [reflexivity|exact HR].
  Qed.

  (* ---- equal specifications ----------------------------------------------------------------------------------- *)

  Lemma Rkv_ext kv s s' :
    (forall c, as_log s' c = as_log s c) -> as_tids s' = as_tids s -> Rkv kv s -> Rkv kv s'.
  Proof.
    intros Hl Ht HR. constructor.
    - apply HR.
    - intro c. destruct (rk_chan _ _ HR c) as [rows Rc]. exists rows.
      apply (Rchan_frame kv kv s s' c rows (rk_wf _ _ HR) (rk_wf _ _ HR)); [reflexivity|apply Hl|exact Rc].
    - apply HR.
    - intros c q r G Hn. rewrite Ht in Hn. apply (rk_gc _ _ HR); assumption.
    - apply HR.
  Qed.

  Lemma R_ext st s s' :
    (forall c, as_log s' c = as_log s c) -> as_tids s' = as_tids s -> R st s -> R st s'.
  Proof.
    intros Hl Ht [HR Hc]. split; [eapply Rkv_ext; eassumption|]. intros c Hld. rewrite Hl. apply Hc. exact Hld.
  Qed.

  (* ---- epoch history -------------------------------------------------------------------------------------------- *)

  Lemma npair_eqb_eq a b : npair_eqb a b = true <-> a = b.
  Proof.
    destruct a, b. unfold npair_eqb. cbn [fst snd]. rewrite andb_true_iff, !N.eqb_eq. split; [intros []; subst; reflexivity|intro H; injection H; auto].
  Qed.

  Lemma existsb_npair p l : existsb (npair_eqb p) l = true <-> In p l.
  Proof.
    rewrite existsb_exists. split.
    - intros [x [Hx E]]. apply npair_eqb_eq in E. subst. exact Hx.
    - intro H. exists p. split; [exact H|apply npair_eqb_eq; reflexivity].
  Qed.

  Lemma add_hist_in l p : In p (al_hist l) -> add_hist l p = l.
  Proof.
    intro H. unfold add_hist. apply existsb_npair in H. rewrite H. destruct l; reflexivity.
  Qed.

  Lemma sys_hist c o e : sys_batch [Put (KyHist c o e) VUnit].
  Proof. intros k Hk. destruct k; cbn in Hk |- *; try reflexivity; discriminate. Qed.

  Lemma hist_Rkv kv s c off ep :
    Rkv kv s ->
    Rkv (kapply kv [Put (KyHist c off ep) VUnit]) (set_log s c (add_hist (as_log s c) (off, ep))).
  Proof.
    intro HR. set (kv' := kapply kv [Put (KyHist c off ep) VUnit]).
    assert (W' : swf kv') by (apply swf_apply; apply HR).
    assert (G : forall k, kget k kv' = if key_eqb k (KyHist c off ep) then Some VUnit else kget k kv).
    { intro k. unfold kv'. rewrite kget_apply. reflexivity. }
    apply (Rkv_sys kv s); [apply sys_hist|exact HR|reflexivity|].
    intro c0. fold kv'. destruct (rk_chan _ _ HR c0) as [rows Rc].
    assert (Hck : loadCheckpoint kv' c0 = loadCheckpoint kv c0) by (apply loadCk_ext; rewrite G; reflexivity).
    destruct (N.eq_dec c0 c) as [->|Hne].
    - rewrite set_log_same. unfold add_hist. cbn [al_rows al_leo al_tpairs al_ck al_hist].
      repeat split; [rewrite Hck; apply Rc|].
      apply psorted_unique.
      + apply loadHistory_sorted. exact W'.
      + destruct (existsb (npair_eqb (off, ep)) (al_hist (as_log s c))) eqn:Ex.
        * rewrite <- (rc_hist _ _ _ _ Rc). apply loadHistory_sorted. apply HR.
        * apply insert_pair_sorted; [rewrite <- (rc_hist _ _ _ _ Rc); apply loadHistory_sorted; apply HR|].
          intro Hin. apply existsb_npair in Hin. rewrite Hin in Ex. discriminate.
      + intros [o e]. rewrite (in_loadHistory _ _ _ _ W'). unfold has. rewrite G.
        assert (Hold : In (o, e) (al_hist (as_log s c)) <-> kget (KyHist c o e) kv <> None).
        { rewrite <- (rc_hist _ _ _ _ Rc). apply (in_loadHistory _ _ _ _ (rk_wf _ _ HR)). }
        destruct (key_eqb (KyHist c o e) (KyHist c off ep)) eqn:Ek.
        * apply key_eqb_eq in Ek. injection Ek as -> ->. split; [intros _|intros _; discriminate].
          destruct (existsb (npair_eqb (off, ep)) (al_hist (as_log s c))) eqn:Ex;
            [apply existsb_npair; exact Ex|apply insert_pair_in; left; reflexivity].
        * assert (Hne : (o, e) <> (off, ep)) by (intro X; injection X as -> ->; rewrite key_eqb_refl in Ek; discriminate).
          rewrite <- Hold. destruct (existsb (npair_eqb (off, ep)) (al_hist (as_log s c))); [tauto|].
          rewrite insert_pair_in. split; [intro H; right; exact H|intros [H|H]; [contradiction|exact H]].
    - rewrite set_log_other by exact Hne. repeat split; [rewrite Hck; apply Rc|].
      rewrite (loadHistory_ext kv kv' c0 (rk_wf _ _ HR) W'); [apply Rc|].
      intros o e. rewrite G. cbn [key_eqb]. apply N.eqb_neq in Hne. rewrite Hne. reflexivity.
  Qed.

  Lemma add_hist_leo s c p c' : al_leo (as_log (set_log s c (add_hist (as_log s c) p)) c') = al_leo (as_log s c').
  Proof.
    destruct (N.eq_dec c' c) as [->|Hne]; [rewrite set_log_same; reflexivity|rewrite set_log_other by exact Hne; reflexivity].
  Qed.

  Lemma should_false_in points epoch off :
    shouldAppendHistoryPoint points epoch off = ok false -> In (off, epoch) points.
  Proof.
    unfold shouldAppendHistoryPoint. destruct (epoch =? 0); [discriminate|].
    destruct (rev points) as [|[loff lep] rest] eqn:Er; [discriminate|].
    destruct (lep <? epoch); [destruct (off <? loff); discriminate|].
    destruct ((epoch =? lep) && (off =? loff)) eqn:E; [|discriminate].
    intros _. beq. subst. apply in_rev. rewrite Er. left. reflexivity.
  Qed.

  (* ---- ApplyFetch ---------------------------------------------------------------------------------------------------- *)

  Definition apply_lg (lg1 : alog) (ck : option (N * N * N)) (ep : option (N * N)) : alog :=
    let lg2 := match ck with Some k => set_ck lg1 k | None => lg1 end in
    match ep with Some (epoch, off) => add_hist lg2 (off, epoch) | None => lg2 end.

  Lemma apply_lg_leo lg ck ep : al_leo (apply_lg lg ck ep) = al_leo lg.
  Proof. unfold apply_lg. destruct ck, ep as [[? ?]|]; reflexivity. Qed.

  Lemma set_log_twice s c l1 l2 c' : as_log (set_log (set_log s c l1) c l2) c' = as_log (set_log s c l2) c'.
  Proof.
    destruct (N.eq_dec c' c) as [->|Hne]; [rewrite !set_log_same; reflexivity|rewrite !set_log_other by exact Hne; reflexivity].
  Qed.

  Lemma set_log_id s c c' : as_log (set_log s c (as_log s c)) c' = as_log s c'.
  Proof.
    destruct (N.eq_dec c' c) as [->|Hne]; [rewrite set_log_same; reflexivity|rewrite set_log_other by exact Hne; reflexivity].
  Qed.

  Lemma Rkv_tail kv s c ck ep writeEpoch catb :
    Rkv kv s -> irrelevant_batch catb ->
    (forall epoch off, ep = Some (epoch, off) -> writeEpoch = false -> In (off, epoch) (al_hist (as_log s c))) ->
    (ep = None -> writeEpoch = false) ->
    Rkv (kapply kv ((match ck with Some k => ckpt_put c k | None => [] end)
                    ++ (match ep with
                        | Some (epoch, off) => if writeEpoch then [Put (KyHist c off epoch) VUnit] else []
                        | None => []
                        end)
                    ++ catb))
        (set_log s c (apply_lg (as_log s c) ck ep)).
  Proof.
    intros HR Hcat Hep Hnone.
    rewrite !kapply_app. apply Rkv_irrelevant; [exact Hcat|].
    (* checkpoint *)
    set (s2 := match ck with Some k => set_log s c (set_ck (as_log s c) k) | None => s end).
    assert (H2 : Rkv (kapply kv (match ck with Some k => ckpt_put c k | None => [] end)) s2).
    { unfold s2. destruct ck as [k|]; [|exact HR].
      pose proof (ckpt_Rkv kv s c k [] (fun _ _ => eq_refl) HR) as H. rewrite app_nil_r in H. exact H. }
    assert (Hl2 : as_log s2 c = match ck with Some k => set_ck (as_log s c) k | None => as_log s c end).
    { unfold s2. destruct ck; [apply set_log_same|reflexivity]. }
    assert (Ht2 : as_tids s2 = as_tids s) by (unfold s2; destruct ck; reflexivity).
    assert (Ho2 : forall c', c' <> c -> as_log s2 c' = as_log s c').
    { intros c' Hne. unfold s2. destruct ck; [apply set_log_other; exact Hne|reflexivity]. }
    assert (Hh2 : al_hist (as_log s2 c) = al_hist (as_log s c)) by (rewrite Hl2; destruct ck; reflexivity).
    (* epoch point *)
    destruct ep as [[epoch off]|].
    - destruct writeEpoch.
      + eapply Rkv_ext; [| |apply (hist_Rkv _ s2 c off epoch H2)].
        * intro c'. destruct (N.eq_dec c' c) as [->|Hne].
          -- rewrite !set_log_same. unfold apply_lg. rewrite Hl2. reflexivity.
          -- rewrite !set_log_other by exact Hne. symmetry. apply Ho2. exact Hne.
        * cbn [set_log as_tids]. symmetry. exact Ht2.
      + cbn [kapply apply_batch fold_left]. eapply Rkv_ext; [| |exact H2].
        * intro c'. destruct (N.eq_dec c' c) as [->|Hne].
          -- rewrite set_log_same. unfold apply_lg. rewrite <- Hl2. apply add_hist_in.
             rewrite Hh2. apply (Hep epoch off); reflexivity.
          -- rewrite set_log_other by exact Hne. symmetry. apply Ho2. exact Hne.
        * cbn [set_log as_tids]. symmetry. exact Ht2.
    - cbn [kapply apply_batch fold_left]. eapply Rkv_ext; [| |exact H2].
      + intro c'. destruct (N.eq_dec c' c) as [->|Hne].
        * rewrite set_log_same. unfold apply_lg. symmetry. exact Hl2.
        * rewrite set_log_other by exact Hne. symmetry. apply Ho2. exact Hne.
      + cbn [set_log as_tids]. symmetry. exact Ht2.
  Qed.

  Lemma spec_append_hist s c l : al_hist (as_log (spec_append s c l) c) = al_hist (as_log s c).
  Proof.
    revert s. induction l as [|a l IH]; intro s; [reflexivity|].
    rewrite spec_append_cons, IH, spec_append_one. cbn [as_log]. rewrite N.eqb_refl. reflexivity.
  Qed.

  Lemma step_apply st s c base recs ck ep :
    R st s -> In c all_chans ->
    let '(st', r) := ApplyFetch F f_may f_add st c base recs ck ep in
    sim s (OApply c base recs ck ep) st' (out_of r (fun x => let '(b, l, n) := x in XApp b l n)).
  Proof.
    intros HR Hc. unfold ApplyFetch.
    pose proof (walk_cases st s c recs AppendTrustedContiguous base HR) as Hw.
    destruct (walkAppendRowsLocked F f_may f_add st c recs AppendTrustedContiguous base) as [st1 [rows|e]].
    2:{ exists s. split; [reflexivity|exact Hw]. }
    destruct Hw as [HR1 [Hb Hrows]].
    destruct (match ck with
              | Some k => validateCheckpointMonotonicLocked (st_kv st1) c k _ _
              | None => ok tt
              end) as [u|e].
    2:{ exists s. split; [reflexivity|exact HR1]. }
    destruct (match ep with
              | Some (epoch, off) => shouldAppendHistoryPoint (loadHistory (st_kv st1) c) epoch off
              | None => ok false
              end) as [we|e] eqn:Eep.
    2:{ exists s. split; [reflexivity|exact HR1]. }
    destruct HR1 as [Hk1 Hc1]. destruct (rk_chan _ _ Hk1 c) as [rows0 Rc0].
    assert (Hep : forall epoch off, ep = Some (epoch, off) -> we = false -> In (off, epoch) (al_hist (as_log s c))).
    { intros epoch off -> ->. rewrite <- (rc_hist _ _ _ _ Rc0). apply should_false_in. exact Eep. }
    assert (Hnone : ep = None -> we = false) by (intros ->; injection Eep as <-; reflexivity).
    destruct recs as [|x recs].
    - subst rows.
      assert (HRt : forall catb, irrelevant_batch catb ->
                Rkv (kapply (st_kv st1) ([] ++ (match ck with Some k => ckpt_put c k | None => [] end)
                       ++ (match ep with
                           | Some (epoch, off) => if we then [Put (KyHist c off epoch) VUnit] else []
                           | None => [] end) ++ catb))
                    (set_log s c (apply_lg (as_log s c) ck ep))).
      { intros catb Hcat. cbn [app]. apply Rkv_tail; assumption. }
      assert (Hspec : spec_mutate s (OApply c base [] ck ep) (XApp 0 0 0)
                      = Some (set_log s c (apply_lg (as_log s c) ck ep))) by reflexivity.
      assert (Hleo : forall c', al_leo (as_log (set_log s c (apply_lg (as_log s c) ck ep)) c') = al_leo (as_log s c')).
      { intro c'. destruct (N.eq_dec c' c) as [->|Hne]; [rewrite set_log_same; apply apply_lg_leo|rewrite set_log_other by exact Hne; reflexivity]. }
      destruct ck as [k|]; [|destruct we].
      + exists (set_log s c (apply_lg (as_log s c) (Some k) ep)). split; [exact Hspec|].
        apply (R_commit_same_leo F st1 s); [split; assumption|apply HRt; apply irrelevant_catalog|exact Hleo].
      + exists (set_log s c (apply_lg (as_log s c) None ep)). split; [exact Hspec|].
        apply (R_commit_same_leo F st1 s); [split; assumption|apply HRt; apply irrelevant_catalog|exact Hleo].
      + exists (set_log s c (apply_lg (as_log s c) None ep)). split; [exact Hspec|].
        (* nothing to write *)
        apply (R_ext st1 s); [| reflexivity |split; assumption].
        intro c'. destruct (N.eq_dec c' c) as [->|Hne]; [|rewrite set_log_other by exact Hne; reflexivity].
        rewrite set_log_same. unfold apply_lg. destruct ep as [[epoch off]|]; [|reflexivity].
        apply add_hist_in. apply (Hep epoch off); reflexivity.
    - destruct Hrows as [Er Hok].
      assert (Hne : rows <> []) by (rewrite Er; discriminate).
      assert (Hcs : consec (al_leo (as_log s c) + 1) rows) by (rewrite Er; apply rows_from_consec).
      destruct rows as [|rw0 rows1] eqn:Erows; [contradiction|]. rewrite <- Erows in *.
      set (s1 := spec_append s c (map arow_of rows)).
      assert (HR1 : Rkv (kapply (st_kv st1) (stageMessageRows c rows)) s1)
        by (apply add_rows_Rkv; [exact Hk1|exact Hc|exact Hok|exact Hcs]).
      assert (Hep1 : forall epoch off, ep = Some (epoch, off) -> we = false -> In (off, epoch) (al_hist (as_log s1 c))).
      { intros epoch off H1 H2. unfold s1. rewrite spec_append_hist. eapply Hep; eassumption. }
      exists (set_log s1 c (apply_lg (as_log s1 c) ck ep)). split.
      + cbn [out_of ok spec_mutate].
        rewrite (consec_first _ _ Hcs Hne), N.eqb_refl, Hb. cbn [andb].
        pose proof (consec_last _ _ Hcs Hne) as Hl.
        assert (Hlen : length rows = length (x :: recs)) by (rewrite Er; apply rows_from_length).
        rewrite Hlen in Hl. rewrite Hl, N.eqb_refl, Hlen, N.eqb_refl. cbn [andb].
        rewrite <- rows_from_arows, <- Er. reflexivity.
      + assert (Hfin : Rkv (kapply (st_kv st1)
                         (stageMessageRows c rows ++ (match ck with Some k => ckpt_put c k | None => [] end)
                          ++ (match ep with
                              | Some (epoch, off) => if we then [Put (KyHist c off epoch) VUnit] else []
                              | None => [] end) ++ stageCatalogForAppend c (first_seq rows)))
                        (set_log s1 c (apply_lg (as_log s1 c) ck ep))).
        { rewrite kapply_app. apply Rkv_tail; [exact HR1|apply irrelevant_catalog_app|exact Hep1|exact Hnone]. }
        assert (Hgoal : R (set_leo F (commit F st1 (stageMessageRows c rows ++ (match ck with Some k => ckpt_put c k | None => [] end)
                          ++ (match ep with
                              | Some (epoch, off) => if we then [Put (KyHist c off epoch) VUnit] else []
                              | None => [] end) ++ stageCatalogForAppend c (first_seq rows))) c (last_seq rows))
                          (set_log s1 c (apply_lg (as_log s1 c) ck ep))).
        { apply (R_commit_set_leo F st1 s); [split; assumption|exact Hfin| |].
          - rewrite set_log_same, apply_lg_leo. unfold s1. apply spec_append_leo. exact Hne.
          - intros c' Hne'. rewrite set_log_other by exact Hne'. unfold s1. rewrite spec_append_other by exact Hne'. reflexivity. }
        rewrite Erows in Hgoal |- *. destruct ck as [k|]; [|destruct we]; exact Hgoal.
  Qed.
End Ops.
