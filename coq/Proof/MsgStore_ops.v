(* Proof/MsgStore_ops.v — the mutations of the model, one by one: each result the
   model reports is a result the plain sequential log accepts ([spec_mutate]), and
   the relation [R] holds again afterwards. *)
From WK Require Import Base.Base Model.KV Gen.Consts_C07 Model.MsgStore Model.MsgStore_C07
     Proof.KV Proof.MsgStore_base Proof.MsgStore_rel Proof.MsgStore_reads Proof.MsgStore_frame
     Proof.MsgStore_mut Proof.MsgStore_step.
From Coq Require Import Sorting.Permutation Sorting.Sorted.

Section Ops.
  Variable F : Type.
  Variable f_empty : F.
  Variable f_may : F -> bytes * bytes -> bool.
  Variable f_add : F -> bytes * bytes -> F.

  Notation mstate := (mstate F).
  Notation R := (R F).
  Notation st_kv := (st_kv F).
  Notation st_cache := (st_cache F).
  Notation loadLEOLocked := (loadLEOLocked F).
  Notation validate_rows := (validate_rows F f_may f_add).
  Notation volatile_only := (volatile_only F).

  Definition sim (s : aspec) (o : op) (st' : mstate) (x : out) : Prop :=
    exists s', spec_mutate s o x = Some s' /\ R st' s'.

  (* ---- appending validated rows ------------------------------------------------------------------------ *)

  Lemma append_commit st s c rows extra leo :
    R st s -> In c all_chans -> rows <> [] ->
    al_leo (as_log s c) = leo -> consec (leo + 1) rows -> Forall (row_ok c) rows ->
    irrelevant_batch extra ->
    R (set_leo F (commit F st (stageMessageRows c rows ++ extra)) c (last_seq rows))
      (spec_append s c (map arow_of rows)).
  Proof.
    intros HR Hc Hne Hl Hcs Hok Hex.
    apply (R_commit_set_leo F st s); [exact HR| | |].
    - rewrite kapply_app. apply Rkv_irrelevant; [exact Hex|].
      apply add_rows_Rkv; [apply HR|exact Hc|exact Hok|rewrite Hl; exact Hcs].
    - apply spec_append_leo. exact Hne.
    - intros c' Hne'. rewrite spec_append_other by exact Hne'. reflexivity.
  Qed.

  Lemma walk_cases st s c recs mode base :
    R st s ->
    let '(st1, r) := walkAppendRowsLocked F f_may f_add st c recs mode base in
    match r with
    | inr _ => R st1 s
    | inl rows =>
      R st1 s /\ ((base =? 0) || (base =? al_leo (as_log s c) + 1)) = true
      /\ match recs with
         | [] => rows = []
         | _ => rows = rows_from c (al_leo (as_log s c) + 1) recs /\ Forall (row_ok c) rows
         end
    end.
  Proof.
    intro HR. unfold walkAppendRowsLocked.
    destruct (negb (valid_mode mode)); [exact HR|].
    destruct (loadLEO_R F st s c HR) as [H1 [H2 _]].
    destruct (loadLEOLocked st c) as [st1 leo]. cbn [fst snd] in H1, H2. subst leo.
    destruct (negb (base =? 0) && negb (base =? al_leo (as_log s c) + 1)) eqn:Eb; [exact H2|].
    assert (Hb : ((base =? 0) || (base =? al_leo (as_log s c) + 1)) = true).
    { destruct (base =? 0); [reflexivity|]. destruct (base =? al_leo (as_log s c) + 1); [reflexivity|discriminate]. }
    destruct recs as [|x recs]; [split; [exact H2|split; [exact Hb|reflexivity]]|].
    set (rows := rows_from c (al_leo (as_log s c) + 1) (x :: recs)).
    pose proof (validate_rows_volatile F f_may f_add rows st1 c (Seen [] []) mode) as Hv.
    destruct (validate_rows st1 c rows (Seen [] []) mode) as [st2 [sn|e]] eqn:Ev; cbn [fst] in Hv.
    - split; [eapply volatile_R; eassumption|]. split; [exact Hb|]. split; [reflexivity|].
      apply rows_from_ok; [lia|]. eapply validate_rows_ids. exact Ev.
    - eapply volatile_R; eassumption.
  Qed.

  Lemma step_append st s c mode base recs :
    R st s -> In c all_chans ->
    let '(st', r) := Append F f_may f_add st c recs mode base in
    sim s (OAppend c mode base recs) st' (out_of r (fun x => let '(b, l, n) := x in XApp b l n)).
  Proof.
    intros HR Hc. unfold Append.
    pose proof (walk_cases st s c recs mode base HR) as Hw.
    destruct (walkAppendRowsLocked F f_may f_add st c recs mode base) as [st1 [rows|e]].
    2:{ exists s. split; [reflexivity|exact Hw]. }
    destruct Hw as [HR1 [Hb Hrows]].
    destruct recs as [|x recs].
    - subst rows. exists s. split; [reflexivity|exact HR1].
    - destruct Hrows as [Er Hok].
      assert (Hne : rows <> []) by (rewrite Er; discriminate).
      assert (Hcs : consec (al_leo (as_log s c) + 1) rows) by (rewrite Er; apply rows_from_consec).
      destruct rows as [|r0 rows0] eqn:Erows; [contradiction|]. rewrite <- Erows in *.
      exists (spec_append s c (map arow_of rows)). split.
      + cbn [out_of ok spec_mutate].
        rewrite (consec_first _ _ Hcs Hne), N.eqb_refl, Hb. cbn [andb].
        pose proof (consec_last _ _ Hcs Hne) as Hl.
        assert (Hlen : length rows = length (x :: recs)) by (rewrite Er; apply rows_from_length).
        rewrite Hlen in Hl. rewrite Hl, N.eqb_refl, Hlen, N.eqb_refl. cbn [andb].
        rewrite Er, rows_from_arows. reflexivity.
      + apply (append_commit st1 s c rows _ (al_leo (as_log s c))); try assumption; [reflexivity|apply irrelevant_catalog_app].
  Qed.

  (* ---- compat append ------------------------------------------------------------------------------------------ *)

  Lemma step_capp st s c mode recs :
    R st s -> In c all_chans ->
    let '(st', r) := CAppend F f_may f_add st c recs mode in
    sim s (OCApp c mode recs) st' (out_of r XN).
  Proof.
    intros HR Hc. unfold CAppend.
    destruct (loadLEO_R F st s c HR) as [H1 [H2 _]].
    destruct (loadLEOLocked st c) as [st1 base]. cbn [fst snd] in H1, H2. subst base.
    destruct recs as [|x recs].
    - exists s. split; [|exact H2]. cbn [out_of ok spec_mutate]. rewrite N.eqb_refl. reflexivity.
    - destruct (compatibilityRowsFromRecords c (al_leo (as_log s c) + 1) (x :: recs)) as [rows|e] eqn:Ec.
      2:{ exists s. split; [reflexivity|exact H2]. }
      destruct (compat_rows _ _ _ _ Ec) as [Hcs [Har [Hlen Hf]]].
      pose proof (validate_rows_volatile F f_may f_add rows st1 c (Seen [] []) mode) as Hv.
      destruct (validate_rows st1 c rows (Seen [] []) mode) as [st2 [sn|e]] eqn:Ev; cbn [fst] in Hv.
      2:{ exists s. split; [reflexivity|eapply volatile_R; eassumption]. }
      assert (Hne : rows <> []) by (intro X; subst rows; discriminate Hlen).
      exists (spec_append s c (map arow_of rows)). split.
      + cbn [out_of ok spec_mutate]. rewrite N.eqb_refl, Har. reflexivity.
      + assert (Hok : Forall (row_ok c) rows) by (eapply consec_ok; [|exact Hcs|exact Hf]; lia).
        assert (El : al_leo (as_log s c) + N.of_nat (length (x :: recs)) = last_seq rows).
        { pose proof (consec_last _ _ Hcs Hne) as Hl. rewrite Hlen in Hl. lia. }
        rewrite El. apply (append_commit st2 s c rows _ (al_leo (as_log s c))); try assumption; [eapply volatile_R; eassumption|reflexivity|apply irrelevant_catalog_app].
  Qed.

  (* ---- checkpoints ----------------------------------------------------------------------------------------------- *)

  Lemma set_log_other s c l c' : c' <> c -> as_log (set_log s c l) c' = as_log s c'.
  Proof. intro H. unfold set_log. cbn [as_log]. apply N.eqb_neq in H. rewrite H. reflexivity. Qed.

  Lemma set_log_same s c l : as_log (set_log s c l) c = l.
  Proof. unfold set_log. cbn [as_log]. rewrite N.eqb_refl. reflexivity. Qed.

  Lemma sys_ckpt c ck extra : irrelevant_batch extra -> sys_batch (ckpt_put c ck ++ extra).
  Proof.
    intros He k Hk. rewrite forallb_app. apply andb_true_iff. split.
    - destruct ck as [[e l] h]. destruct k; cbn in Hk |- *; try reflexivity; discriminate.
    - apply He. destruct k; cbn in Hk |- *; try reflexivity; discriminate.
  Qed.

  Lemma keff_ckpt k c e l h extra cur :
    irrelevant_batch extra -> irrelevant k = false ->
    keff k (ckpt_put c (e, l, h) ++ extra) cur = if key_eqb k (KyCkpt c) then Some (VTriple e l h) else cur.
  Proof.
    intros He Hk. rewrite keff_app, keff_irrelevant by assumption.
    cbn [ckpt_put keff batch_effect fold_left op_effect]. reflexivity.
  Qed.

  Lemma ckpt_Rkv kv s c ck extra :
    irrelevant_batch extra -> Rkv kv s ->
    Rkv (kapply kv (ckpt_put c ck ++ extra)) (set_log s c (set_ck (as_log s c) ck)).
  Proof.
    intros He HR. destruct ck as [[e l] h].
    assert (W' : swf (kapply kv (ckpt_put c (e, l, h) ++ extra))) by (apply swf_apply; apply HR).
    apply (Rkv_sys kv s); [apply sys_ckpt; exact He|exact HR|reflexivity|].
    intro c0.
    assert (Hh : loadHistory (kapply kv (ckpt_put c (e, l, h) ++ extra)) c0 = loadHistory kv c0).
    { apply (loadHistory_ext kv _ c0 (rk_wf _ _ HR) W'). intros o ep. rewrite kget_apply, keff_ckpt by (exact He || reflexivity).
      reflexivity. }
    destruct (rk_chan _ _ HR c0) as [rows Rc].
    destruct (N.eq_dec c0 c) as [->|Hne].
    - rewrite set_log_same. cbn [set_ck al_rows al_leo al_tpairs al_ck al_hist].
      repeat split.
      + unfold loadCheckpoint. rewrite kget_apply, keff_ckpt by (exact He || reflexivity).
        rewrite key_eqb_refl. reflexivity.
      + rewrite Hh. apply Rc.
    - rewrite set_log_other by exact Hne. repeat split.
      + rewrite (loadCk_ext kv); [apply Rc|]. rewrite kget_apply, keff_ckpt by (exact He || reflexivity).
        cbn [key_eqb]. apply N.eqb_neq in Hne. rewrite Hne. reflexivity.
      + rewrite Hh. apply Rc.
  Qed.

  Lemma set_ck_leo s c ck c' : al_leo (as_log (set_log s c (set_ck (as_log s c) ck)) c') = al_leo (as_log s c').
  Proof.
    destruct (N.eq_dec c' c) as [->|Hne]; [rewrite set_log_same; reflexivity|rewrite set_log_other by exact Hne; reflexivity].
  Qed.

  Lemma step_ckpt st s c e l h :
    R st s ->
    let '(st', r) := StoreCheckpoint F st c (e, l, h) in
    sim s (OCkpt c e l h) st' (out_of r (fun _ => XOk)).
  Proof.
    intro HR. unfold StoreCheckpoint. destruct (validateCheckpoint (e, l, h)) as [u|err].
    - exists (set_log s c (set_ck (as_log s c) (e, l, h))). split; [reflexivity|].
      apply (R_commit_same_leo F st s); [exact HR| |intro; apply set_ck_leo].
      apply ckpt_Rkv; [apply irrelevant_catalog|apply HR].
    - exists s. split; [reflexivity|exact HR].
  Qed.

  Lemma step_ckptm st s c e l h v leo :
    R st s ->
    let '(st', r) := StoreCheckpointMonotonic F st c (e, l, h) v leo in
    sim s (OCkptM c e l h v leo) st' (out_of r (fun _ => XOk)).
  Proof.
    intro HR. unfold StoreCheckpointMonotonic.
    destruct (validateCheckpointMonotonicLocked (st_kv st) c (e, l, h) v leo) as [u|err].
    - pose proof (step_ckpt st s c e l h HR) as H. destruct (StoreCheckpoint F st c (e, l, h)) as [st' r].
      destruct H as [s' [H1 H2]]. exists s'. split; [|exact H2].
      destruct r; cbn [out_of] in H1 |- *; exact H1.
    - exists s. split; [reflexivity|exact HR].
  Qed.

  (* ---- equal specifications ----------------------------------------------------------------------------------- *)

  Lemma Rkv_ext kv s s' :
    (forall c, as_log s' c = as_log s c) -> as_tids s' = as_tids s -> Rkv kv s -> Rkv kv s'.
  Proof.
    intros Hl Ht HR. constructor.
    - apply HR.
    - intro c. destruct (rk_chan _ _ HR c) as [rows Rc]. exists rows.
      apply (Rchan_frame kv kv s s' c rows (rk_wf _ _ HR) (rk_wf _ _ HR)); [reflexivity|apply Hl|exact Rc].
    - apply HR.
    - intros c q r G Hn. rewrite Ht in Hn. apply (rk_gc _ _ HR); assumption.
    - apply HR.
  Qed.

  Lemma R_ext st s s' :
    (forall c, as_log s' c = as_log s c) -> as_tids s' = as_tids s -> R st s -> R st s'.
  Proof.
    intros Hl Ht [HR Hc]. split; [eapply Rkv_ext; eassumption|]. intros c Hld. rewrite Hl. apply Hc. exact Hld.
  Qed.

  (* ---- epoch history -------------------------------------------------------------------------------------------- *)

  Lemma npair_eqb_eq a b : npair_eqb a b = true <-> a = b.
  Proof.
    destruct a, b. unfold npair_eqb. cbn [fst snd]. rewrite andb_true_iff, !N.eqb_eq. split; [intros []; subst; reflexivity|intro H; injection H; auto].
  Qed.

  Lemma existsb_npair p l : existsb (npair_eqb p) l = true <-> In p l.
  Proof.
    rewrite existsb_exists. split.
    - intros [x [Hx E]]. apply npair_eqb_eq in E. subst. exact Hx.
    - intro H. exists p. split; [exact H|apply npair_eqb_eq; reflexivity].
  Qed.

  Lemma add_hist_in l p : In p (al_hist l) -> add_hist l p = l.
  Proof.
    intro H. unfold add_hist. apply existsb_npair in H. rewrite H. destruct l; reflexivity.
  Qed.

  Lemma sys_hist c o e : sys_batch [Put (KyHist c o e) VUnit].
  Proof. intros k Hk. destruct k; cbn in Hk |- *; try reflexivity; discriminate. Qed.

  Lemma hist_Rkv kv s c off ep :
    Rkv kv s ->
    Rkv (kapply kv [Put (KyHist c off ep) VUnit]) (set_log s c (add_hist (as_log s c) (off, ep))).
  Proof.
    intro HR. set (kv' := kapply kv [Put (KyHist c off ep) VUnit]).
    assert (W' : swf kv') by (apply swf_apply; apply HR).
    assert (G : forall k, kget k kv' = if key_eqb k (KyHist c off ep) then Some VUnit else kget k kv).
    { intro k. unfold kv'. rewrite kget_apply. reflexivity. }
    apply (Rkv_sys kv s); [apply sys_hist|exact HR|reflexivity|].
    intro c0. fold kv'. destruct (rk_chan _ _ HR c0) as [rows Rc].
    assert (Hck : loadCheckpoint kv' c0 = loadCheckpoint kv c0) by (apply loadCk_ext; rewrite G; reflexivity).
    destruct (N.eq_dec c0 c) as [->|Hne].
    - rewrite set_log_same. unfold add_hist. cbn [al_rows al_leo al_tpairs al_ck al_hist].
      repeat split; [rewrite Hck; apply Rc|].
      apply psorted_unique.
      + apply loadHistory_sorted. exact W'.
      + destruct (existsb (npair_eqb (off, ep)) (al_hist (as_log s c))) eqn:Ex.
        * rewrite <- (rc_hist _ _ _ _ Rc). apply loadHistory_sorted. apply HR.
        * apply insert_pair_sorted; [rewrite <- (rc_hist _ _ _ _ Rc); apply loadHistory_sorted; apply HR|].
          intro Hin. apply existsb_npair in Hin. rewrite Hin in Ex. discriminate.
      + intros [o e]. rewrite (in_loadHistory _ _ _ _ W'). unfold has. rewrite G.
        assert (Hold : In (o, e) (al_hist (as_log s c)) <-> kget (KyHist c o e) kv <> None).
        { rewrite <- (rc_hist _ _ _ _ Rc). apply (in_loadHistory _ _ _ _ (rk_wf _ _ HR)). }
        destruct (key_eqb (KyHist c o e) (KyHist c off ep)) eqn:Ek.
        * apply key_eqb_eq in Ek. injection Ek as -> ->. split; [intros _|intros _; discriminate].
          destruct (existsb (npair_eqb (off, ep)) (al_hist (as_log s c))) eqn:Ex;
            [apply existsb_npair; exact Ex|apply insert_pair_in; left; reflexivity].
        * assert (Hne : (o, e) <> (off, ep)) by (intro X; injection X as -> ->; rewrite key_eqb_refl in Ek; discriminate).
          rewrite <- Hold. destruct (existsb (npair_eqb (off, ep)) (al_hist (as_log s c))); [tauto|].
          rewrite insert_pair_in. split; [intro H; right; exact H|intros [H|H]; [contradiction|exact H]].
    - rewrite set_log_other by exact Hne. repeat split; [rewrite Hck; apply Rc|].
      rewrite (loadHistory_ext kv kv' c0 (rk_wf _ _ HR) W'); [apply Rc|].
      intros o e. rewrite G. cbn [key_eqb]. apply N.eqb_neq in Hne. rewrite Hne. reflexivity.
  Qed.

  Lemma add_hist_leo s c p c' : al_leo (as_log (set_log s c (add_hist (as_log s c) p)) c') = al_leo (as_log s c').
  Proof.
    destruct (N.eq_dec c' c) as [->|Hne]; [rewrite set_log_same; reflexivity|rewrite set_log_other by exact Hne; reflexivity].
  Qed.

  Lemma should_false_in points epoch off :
    shouldAppendHistoryPoint points epoch off = ok false -> In (off, epoch) points.
  Proof.
    unfold shouldAppendHistoryPoint. destruct (epoch =? 0); [discriminate|].
    destruct (rev points) as [|[loff lep] rest] eqn:Er; [discriminate|].
    destruct (lep <? epoch); [destruct (off <? loff); discriminate|].
    destruct ((epoch =? lep) && (off =? loff)) eqn:E; [|discriminate].
    intros _. beq. subst. apply in_rev. rewrite Er. left. reflexivity.
  Qed.

  (* ---- ApplyFetch ---------------------------------------------------------------------------------------------------- *)

  Definition apply_lg (lg1 : alog) (ck : option (N * N * N)) (ep : option (N * N)) : alog :=
    let lg2 := match ck with Some k => set_ck lg1 k | None => lg1 end in
    match ep with Some (epoch, off) => add_hist lg2 (off, epoch) | None => lg2 end.

  Lemma apply_lg_leo lg ck ep : al_leo (apply_lg lg ck ep) = al_leo lg.
  Proof. unfold apply_lg. destruct ck, ep as [[? ?]|]; reflexivity. Qed.

  Lemma set_log_twice s c l1 l2 c' : as_log (set_log (set_log s c l1) c l2) c' = as_log (set_log s c l2) c'.
  Proof.
    destruct (N.eq_dec c' c) as [->|Hne]; [rewrite !set_log_same; reflexivity|rewrite !set_log_other by exact Hne; reflexivity].
  Qed.

  Lemma set_log_id s c c' : as_log (set_log s c (as_log s c)) c' = as_log s c'.
  Proof.
    destruct (N.eq_dec c' c) as [->|Hne]; [rewrite set_log_same; reflexivity|rewrite set_log_other by exact Hne; reflexivity].
  Qed.

  Lemma Rkv_tail kv s c ck ep writeEpoch catb :
    Rkv kv s -> irrelevant_batch catb ->
    (forall epoch off, ep = Some (epoch, off) -> writeEpoch = false -> In (off, epoch) (al_hist (as_log s c))) ->
    (ep = None -> writeEpoch = false) ->
    Rkv (kapply kv ((match ck with Some k => ckpt_put c k | None => [] end)
                    ++ (match ep with
                        | Some (epoch, off) => if writeEpoch then [Put (KyHist c off epoch) VUnit] else []
                        | None => []
                        end)
                    ++ catb))
        (set_log s c (apply_lg (as_log s c) ck ep)).
  Proof.
    intros HR Hcat Hep Hnone.
    rewrite !kapply_app. apply Rkv_irrelevant; [exact Hcat|].
    (* checkpoint *)
    set (s2 := match ck with Some k => set_log s c (set_ck (as_log s c) k) | None => s end).
    assert (H2 : Rkv (kapply kv (match ck with Some k => ckpt_put c k | None => [] end)) s2).
    { unfold s2. destruct ck as [k|]; [|exact HR].
      pose proof (ckpt_Rkv kv s c k [] (fun _ _ => eq_refl) HR) as H. rewrite app_nil_r in H. exact H. }
    assert (Hl2 : as_log s2 c = match ck with Some k => set_ck (as_log s c) k | None => as_log s c end).
    { unfold s2. destruct ck; [apply set_log_same|reflexivity]. }
    assert (Ht2 : as_tids s2 = as_tids s) by (unfold s2; destruct ck; reflexivity).
    assert (Ho2 : forall c', c' <> c -> as_log s2 c' = as_log s c').
    { intros c' Hne. unfold s2. destruct ck; [apply set_log_other; exact Hne|reflexivity]. }
    assert (Hh2 : al_hist (as_log s2 c) = al_hist (as_log s c)) by (rewrite Hl2; destruct ck; reflexivity).
    (* epoch point *)
    destruct ep as [[epoch off]|].
    - destruct writeEpoch.
      + eapply Rkv_ext; [| |apply (hist_Rkv _ s2 c off epoch H2)].
        * intro c'. destruct (N.eq_dec c' c) as [->|Hne].
          -- rewrite !set_log_same. unfold apply_lg. rewrite Hl2. reflexivity.
          -- rewrite !set_log_other by exact Hne. symmetry. apply Ho2. exact Hne.
        * cbn [set_log as_tids]. symmetry. exact Ht2.
      + cbn [kapply apply_batch fold_left]. eapply Rkv_ext; [| |exact H2].
        * intro c'. destruct (N.eq_dec c' c) as [->|Hne].
          -- rewrite set_log_same. unfold apply_lg. rewrite <- Hl2. apply add_hist_in.
             rewrite Hh2. apply (Hep epoch off); reflexivity.
          -- rewrite set_log_other by exact Hne. symmetry. apply Ho2. exact Hne.
        * cbn [set_log as_tids]. symmetry. exact Ht2.
    - cbn [kapply apply_batch fold_left]. eapply Rkv_ext; [| |exact H2].
      + intro c'. destruct (N.eq_dec c' c) as [->|Hne].
        * rewrite set_log_same. unfold apply_lg. symmetry. exact Hl2.
        * rewrite set_log_other by exact Hne. symmetry. apply Ho2. exact Hne.
      + cbn [set_log as_tids]. symmetry. exact Ht2.
  Qed.

  Lemma spec_append_hist s c l : al_hist (as_log (spec_append s c l) c) = al_hist (as_log s c).
  Proof.
    revert s. induction l as [|a l IH]; intro s; [reflexivity|].
    rewrite spec_append_cons, IH, spec_append_one. cbn [as_log]. rewrite N.eqb_refl. reflexivity.
  Qed.

  Lemma step_apply st s c base recs ck ep :
    R st s -> In c all_chans ->
    let '(st', r) := ApplyFetch F f_may f_add st c base recs ck ep in
    sim s (OApply c base recs ck ep) st' (out_of r (fun x => let '(b, l, n) := x in XApp b l n)).
  Proof.
    intros HR Hc. unfold ApplyFetch.
    pose proof (walk_cases st s c recs AppendTrustedContiguous base HR) as Hw.
    destruct (walkAppendRowsLocked F f_may f_add st c recs AppendTrustedContiguous base) as [st1 [rows|e]].
    2:{ exists s. split; [reflexivity|exact Hw]. }
    destruct Hw as [HR1 [Hb Hrows]].
    destruct (match ck with
              | Some k => validateCheckpointMonotonicLocked (st_kv st1) c k _ _
              | None => ok tt
              end) as [u|e].
    2:{ exists s. split; [reflexivity|exact HR1]. }
    destruct (match ep with
              | Some (epoch, off) => shouldAppendHistoryPoint (loadHistory (st_kv st1) c) epoch off
              | None => ok false
              end) as [we|e] eqn:Eep.
    2:{ exists s. split; [reflexivity|exact HR1]. }
    destruct HR1 as [Hk1 Hc1]. destruct (rk_chan _ _ Hk1 c) as [rows0 Rc0].
    assert (Hep : forall epoch off, ep = Some (epoch, off) -> we = false -> In (off, epoch) (al_hist (as_log s c))).
    { intros epoch off -> ->. rewrite <- (rc_hist _ _ _ _ Rc0). apply should_false_in. exact Eep. }
    assert (Hnone : ep = None -> we = false) by (intros ->; injection Eep as <-; reflexivity).
    destruct recs as [|x recs].
    - subst rows.
      assert (HRt : forall catb, irrelevant_batch catb ->
                Rkv (kapply (st_kv st1) ([] ++ (match ck with Some k => ckpt_put c k | None => [] end)
                       ++ (match ep with
                           | Some (epoch, off) => if we then [Put (KyHist c off epoch) VUnit] else []
                           | None => [] end) ++ catb))
                    (set_log s c (apply_lg (as_log s c) ck ep))).
      { intros catb Hcat. cbn [app]. apply Rkv_tail; assumption. }
      assert (Hspec : spec_mutate s (OApply c base [] ck ep) (XApp 0 0 0)
                      = Some (set_log s c (apply_lg (as_log s c) ck ep))) by reflexivity.
      assert (Hleo : forall c', al_leo (as_log (set_log s c (apply_lg (as_log s c) ck ep)) c') = al_leo (as_log s c')).
      { intro c'. destruct (N.eq_dec c' c) as [->|Hne]; [rewrite set_log_same; apply apply_lg_leo|rewrite set_log_other by exact Hne; reflexivity]. }
      destruct ck as [k|]; [|destruct we].
      + exists (set_log s c (apply_lg (as_log s c) (Some k) ep)). split; [exact Hspec|].
        apply (R_commit_same_leo F st1 s); [split; assumption|apply HRt; apply irrelevant_catalog|exact Hleo].
      + exists (set_log s c (apply_lg (as_log s c) None ep)). split; [exact Hspec|].
        apply (R_commit_same_leo F st1 s); [split; assumption|apply HRt; apply irrelevant_catalog|exact Hleo].
      + exists (set_log s c (apply_lg (as_log s c) None ep)). split; [exact Hspec|].
        (* nothing to write *)
        apply (R_ext st1 s); [| reflexivity |split; assumption].
        intro c'. destruct (N.eq_dec c' c) as [->|Hne]; [|rewrite set_log_other by exact Hne; reflexivity].
        rewrite set_log_same. unfold apply_lg. destruct ep as [[epoch off]|]; [|reflexivity].
        apply add_hist_in. apply (Hep epoch off); reflexivity.
    - destruct Hrows as [Er Hok].
      assert (Hne : rows <> []) by (rewrite Er; discriminate).
      assert (Hcs : consec (al_leo (as_log s c) + 1) rows) by (rewrite Er; apply rows_from_consec).
      destruct rows as [|rw0 rows1] eqn:Erows; [contradiction|]. rewrite <- Erows in *.
      set (s1 := spec_append s c (map arow_of rows)).
      assert (HR1 : Rkv (kapply (st_kv st1) (stageMessageRows c rows)) s1)
        by (apply add_rows_Rkv; [exact Hk1|exact Hc|exact Hok|exact Hcs]).
      assert (Hep1 : forall epoch off, ep = Some (epoch, off) -> we = false -> In (off, epoch) (al_hist (as_log s1 c))).
      { intros epoch off H1 H2. unfold s1. rewrite spec_append_hist. eapply Hep; eassumption. }
      exists (set_log s1 c (apply_lg (as_log s1 c) ck ep)). split.
      + cbn [out_of ok spec_mutate].
        rewrite (consec_first _ _ Hcs Hne), N.eqb_refl, Hb. cbn [andb].
        pose proof (consec_last _ _ Hcs Hne) as Hl.
        assert (Hlen : length rows = length (x :: recs)) by (rewrite Er; apply rows_from_length).
        rewrite Hlen in Hl. rewrite Hl, N.eqb_refl, Hlen, N.eqb_refl. cbn [andb].
        rewrite <- rows_from_arows, <- Er. reflexivity.
      + assert (Hfin : Rkv (kapply (st_kv st1)
                         (stageMessageRows c rows ++ (match ck with Some k => ckpt_put c k | None => [] end)
                          ++ (match ep with
                              | Some (epoch, off) => if we then [Put (KyHist c off epoch) VUnit] else []
                              | None => [] end) ++ stageCatalogForAppend c (first_seq rows)))
                        (set_log s1 c (apply_lg (as_log s1 c) ck ep))).
        { rewrite kapply_app. apply Rkv_tail; [exact HR1|apply irrelevant_catalog_app|exact Hep1|exact Hnone]. }
        assert (Hgoal : R (set_leo F (commit F st1 (stageMessageRows c rows ++ (match ck with Some k => ckpt_put c k | None => [] end)
                          ++ (match ep with
                              | Some (epoch, off) => if we then [Put (KyHist c off epoch) VUnit] else []
                              | None => [] end) ++ stageCatalogForAppend c (first_seq rows))) c (last_seq rows))
                          (set_log s1 c (apply_lg (as_log s1 c) ck ep))).
        { apply (R_commit_set_leo F st1 s); [split; assumption|exact Hfin| |].
          - rewrite set_log_same, apply_lg_leo. unfold s1. apply spec_append_leo. exact Hne.
          - intros c' Hne'. rewrite set_log_other by exact Hne'. unfold s1. rewrite spec_append_other by exact Hne'. reflexivity. }
        rewrite Erows in Hgoal |- *. destruct ck as [k|]; [|destruct we]; exact Hgoal.
  Qed.

  (* ---- truncation ---------------------------------------------------------------------------------------------------- *)

  Lemma filter_map_arow (p : N -> bool) rows :
    filter (fun a => p (m_seq (a_msg a))) (map arow_of rows) = map arow_of (filter (fun r => p (r_seq r)) rows).
  Proof.
    induction rows as [|r rows IH]; cbn [map filter]; [reflexivity|].
    cbn [arow_of a_msg m_seq messageFromRow]. destruct (p (r_seq r)); cbn [map]; rewrite IH; reflexivity.
  Qed.

  Lemma max_seq_filter_le rows to : max_seq (filter (fun r => r_seq r <=? to) rows) <= to.
  Proof.
    apply max_seq_le. apply Forall_forall. intros r Hr. apply filter_In in Hr. apply N.leb_le. apply Hr.
  Qed.

  Lemma kr_rows p l leo : al_rows (keep_rows p l leo) = filter (fun a => p (m_seq (a_msg a))) (al_rows l).
  Proof. reflexivity. Qed.
  Lemma kr_leo p l leo : al_leo (keep_rows p l leo) = leo.
  Proof. reflexivity. Qed.
  Lemma kr_ck p l leo : al_ck (keep_rows p l leo) = al_ck l.
  Proof. reflexivity. Qed.
  Lemma kr_hist p l leo : al_hist (keep_rows p l leo) = al_hist l.
  Proof. reflexivity. Qed.
  Lemma kr_tp p l leo : al_tpairs (keep_rows p l leo) = al_tpairs l.
  Proof. reflexivity. Qed.

  Lemma trunc_Rkv kv s c rows to retb propb catb :
    Rkv kv s -> Rchan kv s c rows -> to <= al_leo (as_log s c) ->
    retentionStateAfterTruncate kv c to = ok retb ->
    irrelevant_batch propb -> irrelevant_batch catb ->
    Rkv (kapply kv (propb ++ flat_map (stageDeleteMessage c) (filter (fun r => negb (r_seq r <=? to)) rows) ++ retb ++ catb))
        (set_log s c (keep_rows (fun q => q <=? to) (as_log s c) to)).
  Proof.
    intros HR Rc Hto Hret Hprop Hcat.
    set (keep := fun r : row => r_seq r <=? to).
    set (D := filter (fun r => negb (keep r)) rows).
    set (rows' := filter keep rows).
    set (s' := set_log s c (keep_rows (fun q => q <=? to) (as_log s c) to)).
    set (kv1 := kapply kv (flat_map (stageDeleteMessage c) D)).
    set (kv2 := kapply kv (propb ++ flat_map (stageDeleteMessage c) D ++ retb ++ catb)).
    change (Rkv kv2 s').
    assert (W2 : swf kv2) by (apply swf_apply; apply HR).
    assert (W1 : swf kv1) by (apply swf_apply; apply HR).
    assert (Hs_tids : as_tids s' = as_tids s) by reflexivity.
    assert (Hs_other : forall c', c' <> c -> as_log s' c' = as_log s c') by (intros; apply set_log_other; assumption).
    assert (Hs_c : as_log s' c = keep_rows (fun q => q <=? to) (as_log s c) to) by apply set_log_same.
    assert (Hs_tp : al_tpairs (as_log s' c) = al_tpairs (as_log s c)) by (rewrite Hs_c; reflexivity).
    (* the retention state *)
    pose proof (rc_ret _ _ _ _ Rc) as Hrt. unfold retentionStateAfterTruncate in Hret.
    set (ret' := match loadRetentionState kv c with
                 | Some (l, p, rm) => Some (l, p, N.min rm to)
                 | None => None
                 end).
    assert (Hretb : forall k cur, irrelevant k = false ->
              keff k retb cur = match k with
                                | KyRet c' => if c' =? c
                                              then match ret' with Some (l, p, rm) => if to <? match loadRetentionState kv c with Some (_, _, r0) => r0 | None => 0 end then Some (VTriple l p rm) else cur | None => cur end
                                              else cur
                                | _ => cur
                                end).
    { intros k cur Hk. unfold ret'. destruct (loadRetentionState kv c) as [[[l p] rm]|].
      - destruct (to <? l); [discriminate|]. destruct (to <? rm) eqn:E.
        + injection Hret as <-. cbn [keff batch_effect fold_left op_effect].
          destruct k; cbn [key_eqb]; try reflexivity. destruct (c0 =? c); [|reflexivity].
          apply N.ltb_lt in E. rewrite N.min_r by lia. reflexivity.
        + injection Hret as <-. destruct k; try reflexivity. destruct (c0 =? c); reflexivity.
      - injection Hret as <-. destruct k; try reflexivity. destruct (c0 =? c); reflexivity. }
    assert (G : forall k, irrelevant k = false -> kget k kv2 = keff k retb (kget k kv1)).
    { intros k Hk. unfold kv2, kv1. rewrite !kget_apply, !keff_app.
      rewrite (keff_irrelevant k propb) by assumption. rewrite (keff_irrelevant k catb) by assumption. reflexivity. }
    assert (Gn : forall k, irrelevant k = false -> (forall c', k <> KyRet c') -> kget k kv2 = kget k kv1).
    { intros k Hk Hn. rewrite G, Hretb by exact Hk. destruct k; try reflexivity. exfalso. apply (Hn c0). reflexivity. }
    assert (Hret2 : loadRetentionState kv2 c = ret').
    { unfold loadRetentionState at 1. rewrite G, Hretb by reflexivity. rewrite N.eqb_refl.
      assert (Hs1 : kget (KyRet c) kv1 = kget (KyRet c) kv) by (apply (del_sys kv c rows keep); reflexivity). rewrite Hs1.
      unfold ret'. unfold loadRetentionState.
      destruct (kget (KyRet c) kv) as [v|] eqn:Gr; [|reflexivity].
      destruct v as [| | | |l p rm|]; try reflexivity.
      destruct (to <? rm) eqn:E; [reflexivity|]. apply N.ltb_ge in E. rewrite N.min_l by lia. reflexivity. }
    assert (Hlt : forall r, In r rows' <-> In r rows /\ r_seq r <= to).
    { intro r. unfold rows'. rewrite filter_In. unfold keep. rewrite N.leb_le. tauto. }
    assert (Hget2 : forall q r, kget (KyRow c q) kv2 = Some (VRow r) <-> In r rows' /\ r_seq r = q).
    { intros q r. rewrite Gn by (reflexivity || discriminate). apply (del_rc_get kv s c rows keep Rc). }
    constructor.
    - exact W2.
    - intro c0. destruct (N.eq_dec c0 c) as [->|Hne].
      + exists rows'. constructor; rewrite ?Hs_c, ?kr_rows, ?kr_leo, ?kr_ck, ?kr_hist, ?kr_tp.
        * rewrite (rc_rows _ _ _ _ Rc). apply (filter_map_arow (fun q => q <=? to)).
        * apply sorted_lt_filter. apply Rc.
        * exact Hget2.
        * apply Forall_filter. apply Rc.
        * (* the recovered log end is [to] *)
          rewrite (recoverLEO_char _ _ _ W2 Hget2), Hret2. unfold ret'.
          pose proof (max_seq_filter_le rows to) as Hm. fold keep rows' in Hm.
          assert (Hex : local_of kv c < to -> max_seq rows' = to).
          { intro Hl. destruct (rc_contig _ _ _ _ Rc to) as [r [Hr Hs]]; [lia|].
            apply N.le_antisymm; [exact Hm|]. rewrite <- Hs. apply max_seq_in. apply Hlt. split; [exact Hr|lia]. }
          unfold local_of in Hex.
          destruct (loadRetentionState kv c) as [[[l p] rm]|].
          -- destruct (to <? l) eqn:El; [discriminate|]. apply N.ltb_ge in El.
             destruct Hrt as [_ [Hlrm _]].
             destruct (max_seq rows' <? N.min rm to) eqn:E.
             ++ apply N.ltb_lt in E. destruct (N.eq_dec l to) as [->|Hn]; [lia|].
                rewrite Hex in E by lia. lia.
             ++ apply N.ltb_ge in E. destruct (N.eq_dec l to) as [->|Hn]; [lia|]. apply Hex. lia.
          -- destruct (N.eq_dec to 0) as [->|Hn]; [lia|]. apply Hex. lia.
        * apply Forall_forall. intros r Hr. apply Hlt in Hr. apply Hr.
        * rewrite Hret2. unfold ret'. destruct (loadRetentionState kv c) as [[[l p] rm]|]; [|exact I].
          destruct (to <? l) eqn:El; [discriminate|]. apply N.ltb_ge in El.
          destruct Hrt as [H1 [H2 [H3 [H4 H5]]]]. repeat split; try assumption; try lia.
          apply Forall_filter. exact H5.
        * unfold local_of. rewrite Hret2. intros q Hq.
          assert (Hl : local_of kv c < q).
          { unfold local_of, ret' in *. destruct (loadRetentionState kv c) as [[[l p] rm]|]; apply Hq. }
          destruct (rc_contig _ _ _ _ Rc q) as [r [Hr Hs]]; [lia|].
          exists r. split; [apply Hlt; split; [exact Hr|lia]|exact Hs].
        * intros n q. unfold has. rewrite Gn by (reflexivity || discriminate).
          apply (del_cidx kv s c rows keep Rc).
        * intros u q. unfold has. rewrite Gn by (reflexivity || discriminate).
          apply (del_sseq kv s c rows keep Rc).
        * intros n u q i h. rewrite Gn by (reflexivity || discriminate).
          apply (del_idem_sound kv s c rows keep Rc).
        * intros r Hr Hu Hn Ht. rewrite Gn by (reflexivity || discriminate).
          apply (del_idem_complete kv s s' c rows keep Rc Hs_tp r Hr Hu Hn).
          rewrite Hs_c. exact Ht.
        * rewrite (loadCk_ext kv kv2); [apply Rc|]. rewrite Gn by (reflexivity || discriminate).
          apply (del_sys kv c rows keep). reflexivity.
        * rewrite (loadHistory_ext kv kv2 c (rk_wf _ _ HR) W2); [apply Rc|].
          intros o e. rewrite Gn by (reflexivity || discriminate). apply (del_sys kv c rows keep). reflexivity.
      + destruct (del_Rchan_other kv s s' c rows keep HR Hs_other c0 Hne) as [rows0 Rc0].
        exists rows0. apply (Rchan_frame kv1 kv2 s' s' c0 rows0 W1 W2); [|reflexivity|exact Rc0].
        intros k Hk. rewrite G, Hretb by (destruct k; cbn in Hk |- *; try reflexivity; discriminate).
        destruct k; try reflexivity. cbn [key_of_chan] in Hk. apply N.eqb_eq in Hk. subst.
        apply N.eqb_neq in Hne. rewrite Hne. reflexivity.
    - intros i c0 q0 Gg. rewrite Gn in Gg by (reflexivity || discriminate).
      destruct (del_gid_sound kv s c rows keep HR Rc _ _ _ Gg) as [r [Gr Hi]].
      exists r. split; [rewrite Gn by (reflexivity || discriminate); exact Gr|exact Hi].
    - intros c0 q0 r Gr Ht. rewrite Gn in Gr by (reflexivity || discriminate). rewrite Gn by (reflexivity || discriminate).
      apply (del_gid_complete kv s s' c rows keep HR Rc Hs_tids _ _ _ Gr Ht).
    - intros c0 q0 v Gr. rewrite Gn in Gr by (reflexivity || discriminate).
      eapply (del_chans_only kv s c rows keep HR). exact Gr.
  Qed.

  Lemma trunc_R st s c to retb msgs rows :
    R st s -> Rchan (st_kv st) s c rows -> to < al_leo (as_log s c) ->
    retentionStateAfterTruncate (st_kv st) c to = ok retb ->
    msgs = filter (fun r => negb (r_seq r <=? to)) rows ->
    R (set_leo F (commit F st (stageTruncateDurableProposals c to ++ flat_map (stageDeleteMessage c) msgs ++ retb ++ stageCatalog c)) c to)
      (set_log s c (keep_rows (fun q => q <=? to) (as_log s c) to)).
  Proof.
    intros HR Rc Hto Hret ->.
    apply (R_commit_set_leo F st s); [exact HR| | |].
    - apply trunc_Rkv; [apply HR|exact Rc|lia|exact Hret|apply irrelevant_proposals|apply irrelevant_catalog].
    - rewrite set_log_same. reflexivity.
    - intros c' Hne. rewrite set_log_other by exact Hne. reflexivity.
  Qed.

  Lemma step_trunc st s c f :
    R st s ->
    let '(st', r) := TruncateFrom F st c f in
    sim s (OTrunc c f) st' (out_of r (fun _ => XOk)).
  Proof.
    intro HR. unfold TruncateFrom.
    set (f' := if f =? 0 then 1 else f).
    assert (Hf : 1 <= f') by (unfold f'; destruct (f =? 0) eqn:E; [lia|apply N.eqb_neq in E; lia]).
    destruct (loadLEO_R F st s c HR) as [H1 [H2 _]].
    destruct (loadLEOLocked st c) as [st1 leo]. cbn [fst snd] in H1, H2. subst leo.
    destruct (al_leo (as_log s c) <? f') eqn:El.
    - exists s. split; [|exact H2]. cbn [out_of ok spec_mutate]. fold f'. rewrite El. reflexivity.
    - apply N.ltb_ge in El.
      destruct (retentionStateAfterTruncate (st_kv st1) c (f' - 1)) as [retb|e] eqn:Eret.
      2:{ exists s. split; [reflexivity|exact H2]. }
      destruct H2 as [Hk Hc]. destruct (rk_chan _ _ Hk c) as [rows Rc].
      rewrite (readForward_all _ _ _ _ f' 0 (rk_wf _ _ Hk) Rc).
      exists (set_log s c (keep_rows (fun q => q <? f') (as_log s c) (f' - 1))). split.
      + cbn [out_of ok spec_mutate]. fold f'. apply N.ltb_ge in El. rewrite El. reflexivity.
      + apply (R_ext _ (set_log s c (keep_rows (fun q => q <=? f' - 1) (as_log s c) (f' - 1)))).
        * intro c'. destruct (N.eq_dec c' c) as [->|Hne]; [|rewrite !set_log_other by exact Hne; reflexivity].
          rewrite !set_log_same. unfold keep_rows. f_equal. apply filter_ext. intro a.
          destruct (m_seq (a_msg a) <? f') eqn:E1; destruct (m_seq (a_msg a) <=? f' - 1) eqn:E2; try reflexivity;
            [apply N.ltb_lt in E1; apply N.leb_gt in E2; lia|apply N.ltb_ge in E1; apply N.leb_le in E2; lia].
        * reflexivity.
        * apply (trunc_R st1 s c (f' - 1) retb _ rows); [split; assumption|exact Rc|lia|exact Eret|].
          apply filter_ext. intro r. cbn. rewrite ?andb_true_r.
          destruct (f' <=? r_seq r) eqn:E1; destruct (r_seq r <=? f' - 1) eqn:E2; try reflexivity;
            [apply N.leb_le in E1; apply N.leb_le in E2; lia|apply N.leb_gt in E1; apply N.leb_gt in E2; lia].
  Qed.

  Lemma step_ctrunc st s c t :
    R st s ->
    let '(st', r) := CTruncate F st c t in
    sim s (OCTrunc c t) st' (out_of r (fun _ => XOk)).
  Proof.
    intro HR. unfold CTruncate.
    destruct (loadLEO_R F st s c HR) as [H1 [H2 _]].
    destruct (loadLEOLocked st c) as [st1 leo]. cbn [fst snd] in H1, H2. subst leo.
    destruct (al_leo (as_log s c) <? t) eqn:El.
    { exists s. split; [reflexivity|exact H2]. }
    apply N.ltb_ge in El.
    destruct (t =? al_leo (as_log s c)) eqn:Ee.
    { apply N.eqb_eq in Ee. exists s. split; [|exact H2]. cbn [out_of ok spec_mutate].
      assert (X : (al_leo (as_log s c) <=? t) = true) by (apply N.leb_le; lia). rewrite X. reflexivity. }
    apply N.eqb_neq in Ee.
    destruct (retentionStateAfterTruncate (st_kv st1) c t) as [retb|e] eqn:Eret.
    2:{ exists s. split; [reflexivity|exact H2]. }
    destruct H2 as [Hk Hc]. destruct (rk_chan _ _ Hk c) as [rows Rc].
    rewrite (readForward_all _ _ _ _ (t + 1) 0 (rk_wf _ _ Hk) Rc).
    exists (set_log s c (keep_rows (fun q => q <=? t) (as_log s c) t)). split.
    - cbn [out_of ok spec_mutate].
      assert (X : (al_leo (as_log s c) <=? t) = false) by (apply N.leb_gt; lia). rewrite X. reflexivity.
    - apply (trunc_R st1 s c t retb _ rows); [split; assumption|exact Rc|lia|exact Eret|].
      apply filter_ext. intro r. cbn. rewrite ?andb_true_r.
      destruct (t + 1 <=? r_seq r) eqn:E1; destruct (r_seq r <=? t) eqn:E2; try reflexivity;
        [apply N.leb_le in E1; apply N.leb_le in E2; lia|apply N.leb_gt in E1; apply N.leb_gt in E2; lia].
  Qed.

  (* ---- deleting rows and rewriting the retention state, in general ------------------------------------------ *)

  Lemma del_Rkv_gen kv s c rows (keep : row -> bool) b newret leo' :
    Rkv kv s -> Rchan kv s c rows ->
    let kv1 := kapply kv (flat_map (stageDeleteMessage c) (filter (fun r => negb (keep r)) rows)) in
    let rows' := filter keep rows in
    let s' := set_log s c (AL (map arow_of rows') leo' (al_ck (as_log s c)) (al_hist (as_log s c)) (al_tpairs (as_log s c))) in
    (forall k, irrelevant k = false -> (forall c', k <> KyRet c') -> kget k (kapply kv b) = kget k kv1) ->
    (forall c', c' <> c -> kget (KyRet c') (kapply kv b) = kget (KyRet c') kv) ->
    loadRetentionState (kapply kv b) c = newret ->
    (match newret with
     | Some (_, _, rm) => if max_seq rows' <? rm then rm else max_seq rows'
     | None => max_seq rows'
     end) = leo' ->
    Forall (fun r => r_seq r <= leo') rows' ->
    match newret with
    | Some (l, p, rm) => p <= l /\ l <= rm /\ rm <= leo' /\ l <> 0 /\ Forall (fun r => p < r_seq r) rows'
    | None => True
    end ->
    (forall q, match newret with Some (l, _, _) => l | None => 0 end < q <= leo' -> exists r, In r rows' /\ r_seq r = q) ->
    Rkv (kapply kv b) s'.
  Proof.
    intros HR Rc kv1 rows' s' Gn Gret Hret2 Hleo Hle Hrt Hcontig.
    set (kv2 := kapply kv b).
    assert (W2 : swf kv2) by (apply swf_apply; apply HR).
    assert (W1 : swf kv1) by (apply swf_apply; apply HR).
    assert (Hs_tids : as_tids s' = as_tids s) by reflexivity.
    assert (Hs_other : forall c', c' <> c -> as_log s' c' = as_log s c') by (intros; apply set_log_other; assumption).
    assert (Hs_c : as_log s' c = AL (map arow_of rows') leo' (al_ck (as_log s c)) (al_hist (as_log s c)) (al_tpairs (as_log s c)))
      by apply set_log_same.
    assert (Hs_tp : al_tpairs (as_log s' c) = al_tpairs (as_log s c)) by (rewrite Hs_c; reflexivity).
    assert (Hget2 : forall q r, kget (KyRow c q) kv2 = Some (VRow r) <-> In r rows' /\ r_seq r = q).
    { intros q r. unfold kv2. rewrite Gn by (reflexivity || discriminate). apply (del_rc_get kv s c rows keep Rc). }
    constructor.
    - exact W2.
    - intro c0. destruct (N.eq_dec c0 c) as [->|Hne].
      + exists rows'. constructor; rewrite ?Hs_c; cbn [al_rows al_leo al_ck al_hist al_tpairs].
        * reflexivity.
        * apply sorted_lt_filter. apply Rc.
        * exact Hget2.
        * apply Forall_filter. apply Rc.
        * rewrite (recoverLEO_char _ _ _ W2 Hget2). fold kv2 in Hret2. rewrite Hret2. exact Hleo.
        * exact Hle.
        * fold kv2 in Hret2. rewrite Hret2. exact Hrt.
        * unfold local_of. fold kv2 in Hret2. rewrite Hret2. exact Hcontig.
        * intros n q. unfold has, kv2. rewrite Gn by (reflexivity || discriminate). apply (del_cidx kv s c rows keep Rc).
        * intros u q. unfold has, kv2. rewrite Gn by (reflexivity || discriminate). apply (del_sseq kv s c rows keep Rc).
        * intros n u q i h. unfold kv2. rewrite Gn by (reflexivity || discriminate). apply (del_idem_sound kv s c rows keep Rc).
        * intros r Hr Hu Hn Ht. unfold kv2. rewrite Gn by (reflexivity || discriminate).
          apply (del_idem_complete kv s s' c rows keep Rc Hs_tp r Hr Hu Hn). rewrite Hs_c. exact Ht.
        * rewrite (loadCk_ext kv kv2); [apply Rc|]. unfold kv2. rewrite Gn by (reflexivity || discriminate).
          apply (del_sys kv c rows keep). reflexivity.
        * rewrite (loadHistory_ext kv kv2 c (rk_wf _ _ HR) W2); [apply Rc|].
          intros o e. unfold kv2. rewrite Gn by (reflexivity || discriminate). apply (del_sys kv c rows keep). reflexivity.
      + destruct (del_Rchan_other kv s s' c rows keep HR Hs_other c0 Hne) as [rows0 Rc0].
        exists rows0. apply (Rchan_frame kv1 kv2 s' s' c0 rows0 W1 W2); [|reflexivity|exact Rc0].
        intros k Hk. destruct k; cbn [key_of_chan] in Hk; try discriminate; apply N.eqb_eq in Hk; subst;
          try (unfold kv2; apply Gn; [reflexivity|discriminate]).
        unfold kv2. rewrite Gret by exact Hne. symmetry. apply (del_sys kv c rows keep). reflexivity.
    - intros i c0 q0 Gg. unfold kv2 in Gg. rewrite Gn in Gg by (reflexivity || discriminate).
      destruct (del_gid_sound kv s c rows keep HR Rc _ _ _ Gg) as [r [Gr Hi]].
      exists r. split; [unfold kv2; rewrite Gn by (reflexivity || discriminate); exact Gr|exact Hi].
    - intros c0 q0 r Gr Ht. unfold kv2 in *. rewrite Gn in Gr by (reflexivity || discriminate). rewrite Gn by (reflexivity || discriminate).
      apply (del_gid_complete kv s s' c rows keep HR Rc Hs_tids _ _ _ Gr Ht).
    - intros c0 q0 v Gr. unfold kv2 in Gr. rewrite Gn in Gr by (reflexivity || discriminate).
      eapply (del_chans_only kv s c rows keep HR). exact Gr.
  Qed.

  (* ---- prefix trim ------------------------------------------------------------------------------------------------ *)

  (* what the read loop returns is a prefix; if something is left, a budget stopped it *)
  Lemma read_loop_prefix c l : Forall (row_ok c) l -> forall lim mb acc total X,
    read_loop l lim mb acc total = ok X ->
    exists X' Y, X = rev acc ++ X' /\ l = X' ++ Y
      /\ (Y <> [] -> ((0 < lim)%Z /\ (lim <= Z.of_nat (length acc + length X'))%Z)
                     \/ ((0 < mb)%Z /\ (acc <> [] \/ X' <> []))).
  Proof.
    induction 1 as [|r l Hr Hl IH]; intros lim mb acc total X HX; cbn [read_loop] in HX.
    - injection HX as <-. exists [], []. rewrite app_nil_r. split; [reflexivity|]. split; [reflexivity|]. intro H; contradiction.
    - rewrite (row_ok_valid _ _ Hr) in HX.
      destruct ((0 <? mb)%Z && negb (is_nil_rows acc) && (mb <? total + Z.of_nat (length (r_payload r)))%Z) eqn:E1.
      + injection HX as <-. exists [], (r :: l). rewrite app_nil_r. split; [reflexivity|]. split; [reflexivity|].
        intros _. right. apply andb_true_iff in E1. destruct E1 as [E1 _]. apply andb_true_iff in E1. destruct E1 as [E1 E2].
        split; [apply Z.ltb_lt; exact E1|]. left. destruct acc; [discriminate|discriminate].
      + destruct ((0 <? lim)%Z && (lim <=? Z.of_nat (length (r :: acc)))%Z) eqn:E2.
        * injection HX as <-. exists [r], l. cbn [rev]. split; [reflexivity|]. split; [reflexivity|].
          intros _. left. apply andb_true_iff in E2. destruct E2 as [E2 E3]. apply Z.ltb_lt in E2. apply Z.leb_le in E3.
          split; [exact E2|]. cbn [length] in E3 |- *. lia.
        * destruct (IH _ _ _ _ _ HX) as [X' [Y [H1 [H2 H3]]]].
          exists (r :: X'), Y. cbn [rev] in H1. rewrite <- app_assoc in H1. split; [exact H1|]. split; [cbn [app]; rewrite H2; reflexivity|].
          intro Hy. destruct (H3 Hy) as [[Ha Hb]|[Ha Hb]].
          -- left. split; [exact Ha|]. cbn [length] in Hb |- *. lia.
          -- right. split; [exact Ha|]. right. discriminate.
  Qed.

  Lemma filter_none {A} (p : A -> bool) l : (forall x, In x l -> p x = false) -> filter p l = [].
  Proof.
    induction l as [|x l IH]; intro H; cbn [filter]; [reflexivity|].
    rewrite (H x (or_introl eq_refl)). apply IH. intros y Hy. apply H. right. exact Hy.
  Qed.

  (* a sorted log split at a prefix *)
  Lemma sorted_split (P S : list row) dt :
    sorted_lt r_seq (P ++ S) -> Forall (fun r => 1 <= r_seq r) (P ++ S) -> dt = last_seq P ->
    filter (fun r => negb (dt <? r_seq r)) (P ++ S) = P /\ filter (fun r => dt <? r_seq r) (P ++ S) = S.
  Proof.
    intros Hs Hpos ->.
    assert (HP : forall r, In r P -> r_seq r <= last_seq P).
    { intros r Hr. unfold last_seq. destruct (rev P) as [|z zs] eqn:Er.
      - apply in_rev in Hr. rewrite Er in Hr. destruct Hr.
      - apply in_rev in Hr. rewrite Er in Hr. destruct Hr as [<-|Hr]; [lia|].
        (* r is before z in P *)
        assert (HPz : P = rev zs ++ [z]) by (rewrite <- (rev_involutive P), Er; reflexivity).
        rewrite HPz in Hs. rewrite <- app_assoc in Hs. apply in_rev in Hr.
        clear - Hs Hr. unfold sorted_lt in Hs. induction (rev zs) as [|y ys IH]; [destruct Hr|].
        cbn [app] in Hs. inversion Hs as [|? ? Hs' Ha]; subst. destruct Hr as [<-|Hr].
        + assert (In z (ys ++ [z] ++ S)) by (apply in_or_app; right; left; reflexivity).
          eapply Forall_forall in Ha; [|eassumption]. lia.
        + apply IH; assumption. }
    assert (HS : forall r, In r S -> last_seq P < r_seq r).
    { intros r Hr. unfold last_seq. destruct (rev P) as [|z zs] eqn:Er.
      - eapply Forall_forall in Hpos; [|apply in_or_app; right; exact Hr]. lia.
      - assert (HPz : P = rev zs ++ [z]) by (rewrite <- (rev_involutive P), Er; reflexivity).
        rewrite HPz in Hs. rewrite <- app_assoc in Hs.
        clear - Hs Hr. unfold sorted_lt in Hs. induction (rev zs) as [|y ys IH].
        + cbn [app] in Hs. inversion Hs as [|? ? _ Ha]; subst. eapply Forall_forall in Ha; [|exact Hr]. exact Ha.
        + cbn [app] in Hs. inversion Hs; subst. apply IH. assumption. }
    rewrite !filter_app. split.
    - rewrite (forallb_filter_id _ P), (filter_none _ S); [apply app_nil_r| |].
      + intros r Hr. apply negb_false_iff. apply N.ltb_lt. apply HS. exact Hr.
      + apply forallb_forall. intros r Hr. apply negb_true_iff. apply N.ltb_ge. apply HP. exact Hr.
    - rewrite (filter_none _ P), (forallb_filter_id _ S); [reflexivity| |].
      + apply forallb_forall. intros r Hr. apply N.ltb_lt. apply HS. exact Hr.
      + intros r Hr. apply N.ltb_ge. apply HP. exact Hr.
  Qed.

  Lemma sorted_filter_split rows t : sorted_lt r_seq rows ->
    rows = filter (fun r => r_seq r <=? t) rows ++ filter (fun r => negb (r_seq r <=? t)) rows.
  Proof.
    unfold sorted_lt. induction 1 as [|x l Hs IH Ha]; [reflexivity|]. cbn [filter].
    destruct (r_seq x <=? t) eqn:E; cbn [negb app].
    - f_equal. exact IH.
    - (* everything after x is larger *)
      apply N.leb_gt in E.
      rewrite (filter_none (fun r => r_seq r <=? t) l), (forallb_filter_id _ l); [reflexivity| |].
      + apply forallb_forall. intros y Hy. eapply Forall_forall in Ha; [|exact Hy]. apply negb_true_iff. apply N.leb_gt. lia.
      + intros y Hy. eapply Forall_forall in Ha; [|exact Hy]. apply N.leb_gt. lia.
  Qed.

  Lemma last_seq_in P : P <> [] -> exists r, In r P /\ r_seq r = last_seq P.
  Proof.
    intro H. unfold last_seq. destruct (rev P) as [|z zs] eqn:E.
    - exfalso. apply H. rewrite <- (rev_involutive P), E. reflexivity.
    - exists z. split; [apply in_rev; rewrite E; left; reflexivity|reflexivity].
  Qed.

  Lemma last_seq_map P : match rev (map arow_of P) with a :: _ => m_seq (a_msg a) | [] => 0 end = last_seq P.
  Proof. unfold last_seq. rewrite <- map_rev. destruct (rev P); reflexivity. Qed.

  Lemma firstn_len_app {A} (l1 l2 : list A) : firstn (length l1) (l1 ++ l2) = l1.
  Proof. induction l1 as [|x l1 IH]; cbn [length firstn app]; [reflexivity|]. rewrite IH. reflexivity. Qed.

  Lemma skipn_len_app {A} (l1 l2 : list A) : skipn (length l1) (l1 ++ l2) = l2.
  Proof. induction l1 as [|x l1 IH]; cbn [length skipn app]; [reflexivity|]. exact IH. Qed.

  Lemma step_trim st s c t mm mb :
    R st s ->
    let '(st', r) := TrimPrefixThroughLimit F st c t mm mb in
    sim s (OTrim c t mm mb) st' (out_of r (fun x => let '(d, n, m) := x in XTrim d n m)).
  Proof.
    intro HR. unfold TrimPrefixThroughLimit.
    destruct (t =? 0) eqn:Et.
    { exists s. split; [cbn [out_of ok spec_mutate]; rewrite Et; reflexivity|exact HR]. }
    apply N.eqb_neq in Et.
    destruct (loadLEO_R F st s c HR) as [H1 [H2 _]].
    destruct (loadLEOLocked st c) as [st1 leo]. cbn [fst snd] in H1, H2. subst leo.
    destruct H2 as [Hk Hc]. destruct (rk_chan _ _ Hk c) as [rows Rc].
    set (leo := al_leo (as_log s c)).
    (* the retention state, absent = zeros *)
    pose proof (rc_ret _ _ _ _ Rc) as Hrt. fold leo in Hrt.
    set (ret3 := match loadRetentionState (st_kv st1) c with Some x => x | None => (0, 0, 0) end).
    assert (Hret3 : exists l0 p0 r0, ret3 = (l0, p0, r0) /\ p0 <= l0 /\ l0 <= r0 /\ r0 <= leo
                    /\ Forall (fun r => p0 < r_seq r) rows /\ local_of (st_kv st1) c = l0).
    { unfold ret3, local_of. destruct (loadRetentionState (st_kv st1) c) as [[[l p] rm]|].
      - exists l, p, rm. destruct Hrt as [A [B [C [_ D]]]]. repeat split; assumption.
      - exists 0, 0, 0. repeat split; try lia.
        eapply Forall_impl; [|apply (rc_ok _ _ _ _ Rc)]. intros r [_ [_ [_ H]]]. lia. }
    destruct Hret3 as [l0 [p0 [r0 [Er3 [Hpl [Hlr [Hrl [Hp0 Hloc]]]]]]]]. rewrite Er3.
    (* what is read: a prefix of the rows at or below [t] *)
    set (A := filter (fun r => r_seq r <=? t) rows).
    set (B := filter (fun r => negb (r_seq r <=? t)) rows).
    assert (HAB : rows = A ++ B) by (apply sorted_filter_split; apply Rc).
    set (limit := if (0 <? mm)%Z then (mm + 1)%Z else 0%Z).
    assert (Hrd : readForward (st_kv st1) c (p0 + 1) t limit mb = read_loop A limit mb [] 0%Z).
    { unfold readForward. rewrite (Rchan_rows_of _ _ _ _ (rk_wf _ _ Hk) Rc). f_equal. unfold A.
      apply filter_ext_in. intros r Hr. eapply Forall_forall in Hp0; [|exact Hr].
      assert (E1 : (p0 + 1 <=? r_seq r) = true) by (apply N.leb_le; lia).
      assert (E2 : (t =? 0) = false) by (apply N.eqb_neq; exact Et). rewrite E1, E2. reflexivity. }
    rewrite Hrd.
    assert (HokA : Forall (row_ok c) A) by (apply Forall_filter; apply Rc).
    destruct (read_loop_take c A HokA limit mb [] 0%Z) as [X [HX _]]. cbn [rev app] in HX. rewrite HX.
    destruct (read_loop_prefix c A HokA limit mb [] 0%Z X HX) as [X' [Y [EX [EA Hstop]]]].
    cbn [rev app] in EX. subst X'. cbn [length Nat.add] in Hstop.
    (* the deleted rows *)
    set (more1 := (0 <? mm)%Z && (mm <? Z.of_nat (length X))%Z).
    set (P := if more1 then firstn_rows mm X else X).
    assert (HPX : exists X2, X = P ++ X2).
    { unfold P. destruct more1; [exists (skipn (Z.to_nat mm) X); unfold firstn_rows; symmetry; apply firstn_skipn|exists []; symmetry; apply app_nil_r]. }
    destruct HPX as [X2 EXP].
    set (S := X2 ++ Y ++ B).
    assert (Hrows : rows = P ++ S) by (unfold S; rewrite HAB, EA, EXP, <- !app_assoc; reflexivity).
    set (more2 := (0 <? mb)%Z && match rev P with r :: _ => r_seq r <? t | [] => false end).
    set (more := more1 || more2).
    set (dt := last_seq P).
    set (l1 := N.max l0 t). set (r1 := N.max (N.max r0 t) leo).
    set (p1 := if negb more && (p0 <? t) then t else if p0 <? dt then dt else p0).
    assert (Hpos : Forall (fun r => 1 <= r_seq r) rows).
    { eapply Forall_impl; [|apply (rc_ok _ _ _ _ Rc)]. intros r [_ [_ [_ H]]]. exact H. }
    assert (Hsrt : sorted_lt r_seq (P ++ S)) by (rewrite <- Hrows; apply Rc).
    destruct (sorted_split P S dt Hsrt ltac:(rewrite <- Hrows; exact Hpos) eq_refl) as [HfP HfS].
    rewrite <- Hrows in HfP, HfS.
    assert (HinA : forall r, In r A -> In r rows /\ r_seq r <= t).
    { intros r Hr. unfold A in Hr. apply filter_In in Hr. destruct Hr as [Hr Hle]. apply N.leb_le in Hle. split; assumption. }
    assert (HPA : forall r, In r P -> In r rows /\ r_seq r <= t).
    { intros r Hr. apply HinA. rewrite EA, EXP. apply in_or_app. left. apply in_or_app. left. exact Hr. }
    assert (HB : forall r, In r B -> t < r_seq r).
    { intros r Hr. unfold B in Hr. apply filter_In in Hr. destruct Hr as [_ Hr]. apply negb_true_iff in Hr. apply N.leb_gt. exact Hr. }
    assert (Hdt : dt <= t).
    { unfold dt. destruct P as [|z zs] eqn:EP; [unfold last_seq; cbn; lia|].
      destruct (last_seq_in (z :: zs)) as [r [Hr Hs]]; [discriminate|]. rewrite <- Hs. apply HPA. exact Hr. }
    (* no budget stopped the read: everything at or below [t] is deleted *)
    assert (Hnomore : more = false -> X2 = [] /\ Y = []).
    { intro Hm. unfold more in Hm. apply orb_false_iff in Hm. destruct Hm as [Hm1 Hm2].
      assert (EP : P = X) by (unfold P; rewrite Hm1; reflexivity).
      assert (EX2 : X2 = []).
      { rewrite EP in EXP. destruct X2; [reflexivity|]. exfalso.
        assert (L : length X = length (X ++ r :: X2)) by (rewrite <- EXP; reflexivity).
        rewrite app_length in L. cbn [length] in L. lia. }
      split; [exact EX2|]. destruct Y as [|y Y']; [reflexivity|]. exfalso.
      destruct Hstop as [[Ha Hb]|[Ha Hb]]; [discriminate| |].
      - (* count budget: then more1 *)
        unfold limit in Ha, Hb. destruct (0 <? mm)%Z eqn:E0; [|lia].
        unfold more1 in Hm1. rewrite ?E0 in Hm1. cbn [andb] in Hm1. apply Z.ltb_ge in Hm1. lia.
      - (* byte budget: then more2 *)
        destruct Hb as [Hb|Hb]; [contradiction|].
        unfold more2 in Hm2. apply Z.ltb_lt in Ha. rewrite Ha in Hm2. cbn [andb] in Hm2. rewrite EP in Hm2.
        destruct (rev X) as [|z zs] eqn:Er.
        + apply Hb. rewrite <- (rev_involutive X), Er. reflexivity.
        + apply N.ltb_ge in Hm2.
          (* z is the last row of X, y the next row of A *)
          assert (HXz : X = rev zs ++ [z]) by (rewrite <- (rev_involutive X), Er; reflexivity).
          assert (Hy : In y A) by (rewrite EA; apply in_or_app; right; left; reflexivity).
          assert (Hzy : r_seq z < r_seq y).
          { assert (HsA : sorted_lt r_seq A) by (apply sorted_lt_filter; apply Rc).
            rewrite EA, HXz, <- app_assoc in HsA. clear - HsA. unfold sorted_lt in HsA.
            induction (rev zs) as [|w ws IH]; cbn [app] in HsA.
            - inversion HsA as [|? ? _ Ha]; subst. inversion Ha; subst. assumption.
            - inversion HsA; subst. apply IH. assumption. }
          apply HinA in Hy. lia. }
    (* the new log *)
    cbv zeta.
    change (if (0 <? mm)%Z && (mm <? Z.of_nat (length X))%Z then firstn_rows mm X else X) with P.
    change ((0 <? mm)%Z && (mm <? Z.of_nat (length X))%Z) with more1.
    change ((0 <? mb)%Z && match rev P with r :: _ => r_seq r <? t | [] => false end) with more2.
    change (more1 || more2) with more.
    change (last_seq P) with dt.
    change (N.max l0 t) with l1. change (N.max (N.max r0 t) (al_leo (as_log s c))) with r1.
    change (if negb more && (p0 <? t) then t else if p0 <? dt then dt else p0) with p1.
    exists (set_log s c (AL (map arow_of S) (N.max leo t) (al_ck (as_log s c)) (al_hist (as_log s c)) (al_tpairs (as_log s c)))).
    split.
    - cbn [out_of ok spec_mutate].
      assert (E0 : (t =? 0) = false) by (apply N.eqb_neq; exact Et). rewrite E0.
      change (if (0 <? mm)%Z && (mm <? Z.of_nat (length X))%Z then firstn_rows mm X else X) with P.
      change ((0 <? mm)%Z && (mm <? Z.of_nat (length X))%Z) with more1.
      change ((0 <? mb)%Z && match rev P with r :: _ => r_seq r <? t | [] => false end) with more2.
      change (more1 || more2) with more.
      rewrite (rc_rows _ _ _ _ Rc), Hrows, map_app, Nat2N.id.
      rewrite <- (map_length arow_of P). rewrite firstn_len_app, skipn_len_app.
      rewrite map_length, Nat.eqb_refl, last_seq_map, N.eqb_refl. cbn [andb].
      assert (C1 : all_le t (map arow_of P) = true).
      { unfold all_le. apply forallb_forall. intros a Ha. apply in_map_iff in Ha. destruct Ha as [r [<- Hr]].
        cbn. apply N.leb_le. apply HPA. exact Hr. }
      assert (C2 : (more || none_le t (map arow_of S)) = true).
      { destruct more eqn:Em; [reflexivity|]. destruct (Hnomore eq_refl) as [-> ->]. cbn [orb].
        unfold none_le. apply forallb_forall. intros a Ha. apply in_map_iff in Ha. destruct Ha as [r [<- Hr]].
        cbn. apply negb_true_iff. apply N.leb_gt. apply HB. exact Hr. }
      assert (C3 : (negb (0 <? mm)%Z || (Z.of_N (N.of_nat (length P)) <=? mm)%Z) = true).
      { destruct (0 <? mm)%Z eqn:E1; [|reflexivity]. cbn [negb orb]. apply Z.leb_le. rewrite nat_N_Z.
        unfold P. destruct more1 eqn:Em1.
        - unfold firstn_rows. rewrite firstn_length. lia.
        - unfold more1 in Em1. rewrite ?E1 in Em1. cbn [andb] in Em1. apply Z.ltb_ge in Em1. exact Em1. }
      fold more. rewrite C1, C2, C3. reflexivity.
    - (* the relation *)
      set (b := flat_map (stageDeleteMessage c) P ++ [Put (KyRet c) (VTriple l1 p1 r1)] ++ stageCatalog c).
      apply (R_commit_set_leo F st1 s _ c b (N.max leo r1)); [split; assumption| | |].
      + pose proof (del_Rkv_gen (st_kv st1) s c rows (fun r => dt <? r_seq r) b (Some (l1, p1, r1)) (N.max leo t) Hk Rc) as G.
        cbv beta zeta in G. rewrite HfP, HfS in G. apply G; clear G.
        * intros k Hk0 Hn. unfold b. rewrite !kget_apply, !keff_app.
          rewrite (keff_irrelevant k (stageCatalog c)) by (apply irrelevant_catalog || exact Hk0).
          cbn [keff batch_effect fold_left op_effect].
          destruct (key_eqb k (KyRet c)) eqn:Ek; [apply key_eqb_eq in Ek; exfalso; apply (Hn c); exact Ek|reflexivity].
        * intros c' Hne. unfold b. rewrite !kget_apply, !keff_app.
          rewrite (keff_irrelevant _ (stageCatalog c)) by (apply irrelevant_catalog || reflexivity).
          cbn [keff batch_effect fold_left op_effect key_eqb]. apply N.eqb_neq in Hne. rewrite Hne.
          rewrite keff_delete_rows. destruct (existsb _ _) eqn:Ex; [|reflexivity].
          exfalso. apply existsb_key_in in Ex. apply in_deleted_keys in Ex. destruct Ex as [d [_ Hkd]].
          apply in_row_del_keys in Hkd. exact Hkd.
        * unfold loadRetentionState, b. rewrite !kget_apply, !keff_app.
          rewrite (keff_irrelevant _ (stageCatalog c)) by (apply irrelevant_catalog || reflexivity).
          cbn [keff batch_effect fold_left op_effect]. rewrite key_eqb_refl. reflexivity.
        * assert (HmS : max_seq S <= leo).
          { apply max_seq_le. apply Forall_forall. intros r Hr.
            pose proof (rc_le_leo _ _ _ _ Rc) as Hle. eapply Forall_forall in Hle; [exact Hle|]. rewrite Hrows. apply in_or_app. right. exact Hr. }
          unfold r1. destruct (max_seq S <? N.max (N.max r0 t) leo) eqn:E; [lia|]. apply N.ltb_ge in E. lia.
        * apply Forall_forall. intros r Hr.
          pose proof (rc_le_leo _ _ _ _ Rc) as Hle. eapply Forall_forall in Hle; [|rewrite Hrows; apply in_or_app; right; exact Hr].
          fold leo in Hle. lia.
        * unfold l1, r1, p1. repeat split; try lia.
          -- destruct (negb more && (p0 <? t)); [lia|]. destruct (p0 <? dt) eqn:E; [|lia]. lia.
          -- apply Forall_forall. intros r Hr.
             assert (Hrs : dt < r_seq r).
             { assert (X0 : In r (filter (fun r => dt <? r_seq r) rows)) by (rewrite HfS; exact Hr).
               apply filter_In in X0. apply N.ltb_lt. apply X0. }
             assert (Hrp : p0 < r_seq r).
             { eapply Forall_forall in Hp0; [exact Hp0|]. rewrite Hrows. apply in_or_app. right. exact Hr. }
             destruct (negb more && (p0 <? t)) eqn:E.
             ++ apply andb_true_iff in E. destruct E as [E _]. apply negb_true_iff in E.
                destruct (Hnomore E) as [EX2 EY]. unfold S in Hr. rewrite EX2, EY in Hr. cbn [app] in Hr. apply HB. exact Hr.
             ++ destruct (p0 <? dt); lia.
        * intros q Hq. unfold l1 in Hq.
          destruct (rc_contig _ _ _ _ Rc q) as [r [Hr Hs]]; [rewrite Hloc; fold leo; lia|].
          exists r. split; [|exact Hs]. rewrite Hrows in Hr. apply in_app_or in Hr. destruct Hr as [Hr|Hr]; [|exact Hr].
          exfalso. apply HPA in Hr. lia.
      + rewrite set_log_same. cbn [al_leo]. unfold r1. lia.
      + intros c' Hne. rewrite set_log_other by exact Hne. reflexivity.
  Qed.
End Ops.
