(* Proof/ReplicaLog.v — basic facts about Model/ReplicaLog.v shared by the proofs
   of C01..C03: boolean equalities reflect Leibniz equality, the entry chain built by
   DeriveProposalEntries, the structural digest is injective in the records, and a case
   analysis of the exact append (sync) of both store back ends. *)
From WK Require Import Base.Base.
From WK Require Import Model.ReplicaLog.
Open Scope N_scope.

(* ---- boolean equalities ------------------------------------------------------------------------ *)

Lemma tag_eqb_eq a b : tag_eqb a b = true <-> a = b.
Proof.
  destruct a as [x | e t f l], b as [y | e' t' f' l']; cbn; split; intro H; try discriminate.
  - apply N.eqb_eq in H. congruence.
  - inversion H. apply N.eqb_refl.
  - rewrite !andb_true_iff, !N.eqb_eq in H. destruct H as [[[-> ->] ->] ->]. reflexivity.
  - inversion H. rewrite !N.eqb_refl. reflexivity.
Qed.

Lemma tag_eqb_refl a : tag_eqb a a = true.
Proof. apply tag_eqb_eq. reflexivity. Qed.

Lemma tag_eqb_sym a b : tag_eqb a b = tag_eqb b a.
Proof.
  destruct (tag_eqb a b) eqn:E.
  - apply tag_eqb_eq in E. subst. symmetry. apply tag_eqb_refl.
  - destruct (tag_eqb b a) eqn:E2; [|reflexivity]. apply tag_eqb_eq in E2. subst. rewrite tag_eqb_refl in E. discriminate.
Qed.

Lemma record_eqb_eq a b : record_eqb a b = true <-> a = b.
Proof.
  destruct a, b. unfold record_eqb. cbn.
  rewrite !andb_true_iff, !N.eqb_eq, tag_eqb_eq, Bool.eqb_true_iff. split.
  - intros [[[[[[-> ->] ->] ->] ->] ->] ->]. reflexivity.
  - intro H. inversion H. repeat split; reflexivity.
Qed.

Lemma record_eqb_refl a : record_eqb a a = true.
Proof. apply record_eqb_eq. reflexivity. Qed.

Lemma digest_eqb_eq : forall a b, digest_eqb a b = true <-> a = b.
Proof.
  induction a as [| e t f i pt pi c pd IH r]; destruct b as [| e' t' f' i' pt' pi' c' pd' r']; cbn;
    split; intro H; try discriminate; try reflexivity.
  - rewrite !andb_true_iff, !N.eqb_eq, tag_eqb_eq, record_eqb_eq, IH in H.
    destruct H as [[[[[[[[-> ->] ->] ->] ->] ->] ->] ->] ->]. reflexivity.
  - inversion H; subst. rewrite !N.eqb_refl, tag_eqb_refl, record_eqb_refl. cbn.
    apply IH. reflexivity.
Qed.

Lemma digest_eqb_refl a : digest_eqb a a = true.
Proof. apply digest_eqb_eq. reflexivity. Qed.

Lemma ident_eqb_eq a b : ident_eqb a b = true <-> a = b.
Proof.
  destruct a, b. unfold ident_eqb. cbn.
  rewrite !andb_true_iff, !N.eqb_eq, tag_eqb_eq, !digest_eqb_eq. split.
  - intros [[[[[[[[-> ->] ->] ->] ->] ->] ->] ->] ->]. reflexivity.
  - intro H. inversion H. repeat split; reflexivity.
Qed.

Lemma ident_eqb_refl a : ident_eqb a a = true.
Proof. apply ident_eqb_eq. reflexivity. Qed.

Lemma manifest_eqb_eq a b : manifest_eqb a b = true <-> a = b.
Proof.
  destruct a, b. unfold manifest_eqb. cbn.
  rewrite !andb_true_iff, !N.eqb_eq, tag_eqb_eq, !digest_eqb_eq. split.
  - intros [[[[[[[[[-> ->] ->] ->] ->] ->] ->] ->] ->] ->]. reflexivity.
  - intro H. inversion H. repeat split; reflexivity.
Qed.

Lemma manifest_eqb_refl a : manifest_eqb a a = true.
Proof. apply manifest_eqb_eq. reflexivity. Qed.

Lemma rstate_eqb_eq a b : rstate_eqb a b = true <-> a = b.
Proof.
  destruct a, b. unfold rstate_eqb. cbn.
  rewrite !andb_true_iff, !N.eqb_eq, manifest_eqb_eq, ident_eqb_eq. split.
  - intros [[[-> ->] ->] ->]. reflexivity.
  - intro H. inversion H. repeat split; reflexivity.
Qed.

Lemma list_record_eqb_eq (a b : list record) : list_eqb record_eqb a b = true <-> a = b.
Proof. apply list_eqb_spec. intros. apply record_eqb_eq. Qed.

Lemma lenN_app {A} (a b : list A) : lenN (a ++ b) = lenN a + lenN b.
Proof. unfold lenN. rewrite app_length. lia. Qed.

Lemma lenN_cons {A} (x : A) (l : list A) : lenN (x :: l) = lenN l + 1.
Proof. unfold lenN. cbn [length]. lia. Qed.

(* ---- the entry chain of one proposal ------------------------------------------------------------ *)

Lemma derive_loop_length m : forall recs idx pt pidx pd es,
  derive_loop m idx pt pidx pd recs = Some es -> length es = length recs.
Proof.
  induction recs as [|r rest IH]; intros idx pt pidx pd es H; cbn in H.
  - inversion H. reflexivity.
  - destruct (tag_is_zero (r_id r) || negb (r_epoch r =? m_e m) || (r_ts r =? 0)); [discriminate|].
    destruct (derive_loop m (idx + 1) (m_t m) idx _ rest) as [es'|] eqn:E; [|discriminate].
    inversion H; subst. cbn. f_equal. eapply IH. exact E.
Qed.

(* the k-th entry of the chain sits at index idx + k and carries the proposal's authority
   and command *)
Lemma derive_loop_entries m : forall recs idx pt pidx pd es,
  derive_loop m idx pt pidx pd recs = Some es ->
  forall k e, nth_error es k = Some e ->
    i_idx e = idx + N.of_nat k /\ i_e e = m_e m /\ i_t e = m_t m /\ i_f e = m_f m /\ i_cmd e = m_cmd m.
Proof.
  induction recs as [|r rest IH]; intros idx pt pidx pd es H k e Hk; cbn in H.
  - inversion H; subst. destruct k; discriminate.
  - destruct (tag_is_zero (r_id r) || negb (r_epoch r =? m_e m) || (r_ts r =? 0)); [discriminate|].
    destruct (derive_loop m (idx + 1) (m_t m) idx _ rest) as [es'|] eqn:E; [|discriminate].
    inversion H; subst. destruct k as [|k]; cbn in Hk.
    + inversion Hk; subst. cbn. repeat split; lia.
    + destruct (IH _ _ _ _ _ E k e Hk) as (H1 & H2). split; [lia | exact H2].
Qed.

(* digests are injective: chain digests embed the predecessor digest and the record, so two
   chains of the same length ending in the same digest started from the same digest and the
   same records *)
Lemma derive_loop_inj_gen m : forall q1 q2 i p pi d1 d2 u1 u2,
  derive_loop m i p pi d1 q1 = Some u1 -> derive_loop m i p pi d2 q2 = Some u2 ->
  length q1 = length q2 -> q1 <> [] ->
  i_dg (last u1 ident_zero) = i_dg (last u2 ident_zero) -> d1 = d2 /\ q1 = q2.
Proof.
  induction q1 as [|a q1 IHq]; intros q2 i p pi d1 d2 u1 u2 G1 G2 L NE D; [congruence|].
  destruct q2 as [|b q2]; [discriminate|]. cbn in G1, G2.
  destruct (tag_is_zero (r_id a) || negb (r_epoch a =? m_e m) || (r_ts a =? 0)); [discriminate|].
  destruct (tag_is_zero (r_id b) || negb (r_epoch b =? m_e m) || (r_ts b =? 0)); [discriminate|].
  destruct (derive_loop m (i + 1) (m_t m) i _ q1) as [v1|] eqn:F1; [|discriminate].
  destruct (derive_loop m (i + 1) (m_t m) i _ q2) as [v2|] eqn:F2; [|discriminate].
  inversion G1; subst u1. inversion G2; subst u2. cbn [length] in L. injection L as L.
  destruct q1 as [|a' q1'].
  - destruct q2; [|discriminate]. cbn in F1, F2. inversion F1; inversion F2; subst.
    cbn in D. inversion D. auto.
  - destruct q2 as [|b' q2']; [discriminate|].
    pose proof (derive_loop_length _ _ _ _ _ _ _ F1) as L1.
    pose proof (derive_loop_length _ _ _ _ _ _ _ F2) as L2.
    destruct v1 as [|y1 v1]; [discriminate|]. destruct v2 as [|y2 v2]; [discriminate|].
    cbn [last] in D.
    assert (NE2 : a' :: q1' <> []) by discriminate.
    destruct (IHq _ _ _ _ _ _ _ _ F1 F2 L NE2 D) as [Hdd Hqq].
    inversion Hdd. subst. rewrite Hqq. auto.
Qed.

Lemma derive_loop_inj m recs1 recs2 idx pt pidx pd es1 es2 :
  derive_loop m idx pt pidx pd recs1 = Some es1 ->
  derive_loop m idx pt pidx pd recs2 = Some es2 ->
  length recs1 = length recs2 ->
  i_dg (last es1 ident_zero) = i_dg (last es2 ident_zero) -> recs1 = recs2.
Proof.
  intros H1 H2 Hlen Hd. destruct recs1 as [|r1 rest1].
  - destruct recs2; [reflexivity | discriminate].
  - assert (NE : r1 :: rest1 <> []) by discriminate.
    exact (proj2 (derive_loop_inj_gen m _ _ _ _ _ _ _ _ _ H1 H2 Hlen NE Hd)).
Qed.

Lemma set_m_dg_fields m d :
  m_e (set_m_dg m d) = m_e m /\ m_t (set_m_dg m d) = m_t m /\ m_f (set_m_dg m d) = m_f m /\
  m_cmd (set_m_dg m d) = m_cmd m /\ m_base (set_m_dg m d) = m_base m /\ m_last (set_m_dg m d) = m_last m /\
  m_pt (set_m_dg m d) = m_pt m /\ m_pidx (set_m_dg m d) = m_pidx m /\ m_pd (set_m_dg m d) = m_pd m /\
  m_dg (set_m_dg m d) = d.
Proof. repeat split. Qed.

(* derive_loop only reads the authority, command and epoch of the manifest *)
Lemma derive_loop_ext m m' : m_e m = m_e m' -> m_t m = m_t m' -> m_f m = m_f m' -> m_cmd m = m_cmd m' ->
  forall recs idx pt pidx pd, derive_loop m idx pt pidx pd recs = derive_loop m' idx pt pidx pd recs.
Proof.
  intros He Ht Hf Hc. induction recs as [|r rest IH]; intros idx pt pidx pd; cbn; [reflexivity|].
  rewrite He, Ht, Hf, Hc. rewrite IH. reflexivity.
Qed.

(* sameProposalContent: resealing other records under a sealed manifest reproduces the
   manifest only if the records are the same *)
Lemma seal_same_manifest_same_records m recs1 recs2 m1 es1 es2 :
  SealProposalManifest m recs1 = Some (m1, es1) -> SealProposalManifest m recs2 = Some (m1, es2) ->
  length recs1 = length recs2 -> recs1 = recs2.
Proof.
  unfold SealProposalManifest, DeriveProposalEntries. intros H1 H2 Hlen.
  destruct (_ || _ || _ || _ || _ || _ || _) in H1; [discriminate|].
  destruct (_ || _ || _ || _ || _ || _ || _) in H2; [discriminate|].
  destruct (if m_base (set_m_dg m D0) =? 0 then _ else _); [discriminate|].
  destruct (derive_loop _ _ _ _ _ recs1) as [e1|] eqn:E1; [|discriminate].
  destruct (derive_loop _ _ _ _ _ recs2) as [e2|] eqn:E2; [|discriminate].
  inversion H1 as [[Hm1 He1]]. inversion H2 as [[Hm2 He2]]. rewrite <- Hm1 in Hm2.
  apply (f_equal m_dg) in Hm2. cbn in Hm2.
  eapply derive_loop_inj; eauto.
Qed.

(* ---- the exact append of one mutation --------------------------------------------------------------- *)

From Coq Require Import ZifyBool ZifyN.

Ltac break_if H :=
  match type of H with
  | context[if ?c then _ else _] => destruct c eqn:?
  end.
Ltac break_match H :=
  match type of H with
  | context[match ?c with _ => _ end] => destruct c eqn:?
  end.

(* what one Sync can do to a replica, for both store back ends:
   Durable     the log end was exactly the proposal's base and the derived entries / rows were
               appended, both proposal indexes now bind the manifest;
   Already     log and indexes are untouched (only the committed watermark may rise);
   otherwise   the replica is unchanged. *)
Definition sync_effect (rp : replica) (mu : mutation) (rp' : replica) (o : outcome) : Prop :=
  match o with
  | ODurable =>
      rp_leo rp = m_base (mu_manifest mu) /\
      exists es, DeriveProposalEntries (mu_manifest mu) (mu_records mu) = Some es /\
                 rp_log rp' = rp_log rp ++ combine es (mu_records mu) /\
                 rp_bycmd rp' = set_cmd (rp_bycmd rp) (m_cmd (mu_manifest mu)) (mu_manifest mu) /\
                 rp_bylast rp' = set_last (rp_bylast rp) (m_last (mu_manifest mu)) (mu_manifest mu)
  | OAlready =>
      rp_log rp' = rp_log rp /\ rp_bycmd rp' = rp_bycmd rp /\ rp_bylast rp' = rp_bylast rp /\
      by_cmd (rp_bycmd rp) (m_cmd (mu_manifest mu)) = Some (mu_manifest mu)
  | _ => rp' = rp
  end.

Ltac finish3 H :=
  match type of H with
  | (_, _, _) = (_, _, _) => inversion H; subst; clear H
  end.

Lemma appendLeaderExactLocked_effect rp m recs rp' o nf :
  appendLeaderExactLocked rp m recs = (rp', o, nf) ->
  sync_effect rp (Mutation m recs 0 false) rp' o.
Proof.
  unfold appendLeaderExactLocked, sync_effect. cbn [mu_manifest mu_records]. intro H.
  repeat (first [break_if H | break_match H]; try (finish3 H; try reflexivity)).
  - (* Already *)
    repeat split; try reflexivity.
    match goal with Hm : manifest_eqb ?x m && _ && _ && _ = true |- _ =>
      rewrite !andb_true_iff in Hm; destruct Hm as [[[Hm _] _] _]; apply manifest_eqb_eq in Hm; subst x end.
    first [assumption | reflexivity | congruence].
  - (* Durable *)
    split; [unfold rp_leo in *; lia|]. eexists. split; [reflexivity|]. cbn. auto.
Qed.

Lemma set_hw_fields rp hw :
  rp_log (set_hw rp hw) = rp_log rp /\ rp_bycmd (set_hw rp hw) = rp_bycmd rp /\
  rp_bylast (set_hw rp hw) = rp_bylast rp /\ rp_hw (set_hw rp hw) = hw.
Proof. repeat split. Qed.

Lemma prepareExactAppendRecordsLocked_effect rp mu rp' o nf :
  prepareExactAppendRecordsLocked rp mu = (rp', o, nf) ->
  match o with
  | ODurable =>
      rp_leo rp = m_base (mu_manifest mu) /\
      exists es, DeriveProposalEntries (mu_manifest mu) (mu_records mu) = Some es /\
                 rp_log rp' = rp_log rp ++ combine es (mu_records mu) /\
                 rp_bycmd rp' = set_cmd (rp_bycmd rp) (m_cmd (mu_manifest mu)) (mu_manifest mu) /\
                 rp_bylast rp' = set_last (rp_bylast rp) (m_last (mu_manifest mu)) (mu_manifest mu)
  | OAlready =>
      rp_log rp' = rp_log rp /\ rp_bycmd rp' = rp_bycmd rp /\ rp_bylast rp' = rp_bylast rp /\
      by_cmd (rp_bycmd rp) (m_cmd (mu_manifest mu)) = Some (mu_manifest mu)
  | _ => rp' = rp
  end.
Proof.
  unfold prepareExactAppendRecordsLocked. cbv zeta. intro H.
  repeat (first [break_if H | break_match H]; try (finish3 H; try reflexivity)).
  all: try (split; [unfold rp_leo in *; lia|]; eexists; split; [reflexivity|]; cbn; auto).
  all: cbn; repeat split; try reflexivity.
  all: destruct (by_cmd (rp_bycmd rp) (m_cmd (mu_manifest mu))) as [c|] eqn:Hbc; try discriminate.
  all: match goal with
       | Hn : negb (manifest_eqb _ _ && manifest_eqb _ _ && _) = false |- _ =>
           apply negb_false_iff in Hn; rewrite !andb_true_iff in Hn; destruct Hn as [[Hc Hm] _];
           apply manifest_eqb_eq in Hc; apply manifest_eqb_eq in Hm; subst; reflexivity
       end.
Qed.

(* ReplicaStore.Sync of one mutation, both back ends *)
Lemma sync_effect_holds k rp mu rp' o nf :
  sync k rp mu = (rp', o, nf) -> sync_effect rp mu rp' o.
Proof.
  unfold sync. destruct (negb (validMutation mu)); [intro H; inversion H; subst; reflexivity|].
  destruct k.
  - destruct (appendLeaderExactLocked rp (mu_manifest mu) (mu_records mu)) as [[rp1 o1] nf1] eqn:E.
    apply appendLeaderExactLocked_effect in E. unfold sync_effect in *. cbn [mu_manifest mu_records] in E.
    destruct (outcome_durable o1) eqn:Hd.
    + intro H. inversion H; subst. destruct o; try discriminate;
        destruct (rp_hw rp1 <? mu_committed mu); cbn; exact E.
    + intro H. inversion H; subst. exact E.
  - intro H. apply prepareExactAppendRecordsLocked_effect in H. exact H.
Qed.

(* consequences used everywhere: a non-durable outcome never changes the replica, and no
   outcome ever changes or removes an existing log entry *)
Lemma sync_not_durable_unchanged k rp mu rp' o nf :
  sync k rp mu = (rp', o, nf) -> outcome_durable o = false -> rp' = rp.
Proof.
  intros H Hd. apply sync_effect_holds in H. destruct o; try discriminate; exact H.
Qed.

Lemma sync_log_prefix k rp mu rp' o nf :
  sync k rp mu = (rp', o, nf) -> exists ext, rp_log rp' = rp_log rp ++ ext.
Proof.
  intro H. apply sync_effect_holds in H. destruct o; cbn in H.
  - destruct H as (_ & es & _ & Hl & _). eexists. exact Hl.
  - destruct H as (Hl & _). exists []. rewrite app_nil_r. exact Hl.
  - subst. exists []. rewrite app_nil_r. reflexivity.
  - subst. exists []. rewrite app_nil_r. reflexivity.
  - subst. exists []. rewrite app_nil_r. reflexivity.
Qed.
