(* Proof/RaftDriver_lists.v — C12: list lemmas about the committed log seen as a
   function of the index, and about slot.applyCommittedEntries (which state-machine
   calls are made for a contiguous range of committed entries). *)
From WK Require Import Base.Base Model.RaftDriver.
From Coq Require Import Sorted ZifyBool ZifyN ZifyNat.
Open Scope N_scope.

Section CLog.

(* SMS, first half: one committed log for everybody.  Every replica that learns
   a committed entry at index i learns [clog i]. *)
Variable clog : N -> entry.
Hypothesis clog_idx : forall i, e_idx (clog i) = i.

(* the committed entries a+1 .. a+n *)
Definition centries (a : N) (n : nat) : list entry :=
  map (fun j => clog (a + N.of_nat j)) (seq 1 n).

(* no command strictly after p up to q *)
Definition clean (p q : N) : Prop :=
  forall i, p < i <= q -> is_normal (clog i) = false.

Definition sorted (h : list entry) : Prop := StronglySorted (fun a b => e_idx a < e_idx b) h.

(* every element is THE committed entry of its index, is a command, and lies in (lo, hi] *)
Definition sound (h : list entry) (lo hi : N) : Prop :=
  forall e, In e h -> e = clog (e_idx e) /\ is_normal e = true /\ lo < e_idx e <= hi.

(* every command of (lo, hi] is there *)
Definition complete (h : list entry) (lo hi : N) : Prop :=
  forall i, lo < i <= hi -> is_normal (clog i) = true -> In (clog i) h.

Lemma centries_length a n : length (centries a n) = n.
Proof. unfold centries. rewrite map_length, seq_length. reflexivity. Qed.

Lemma centries_0 a : centries a 0 = [].
Proof. reflexivity. Qed.

Lemma centries_S a n : centries a (S n) = clog (a + 1) :: centries (a + 1) n.
Proof.
  unfold centries. cbn [seq map]. f_equal.
  rewrite <- seq_shift, map_map. apply map_ext. intro j.
  f_equal. lia.
Qed.

Lemma centries_app a n m :
  centries a (n + m) = centries a n ++ centries (a + N.of_nat n) m.
Proof.
  revert a. induction n as [|n IH]; intro a.
  - cbn [Nat.add]. rewrite centries_0. cbn [app]. replace (a + N.of_nat 0) with a by lia. reflexivity.
  - cbn [Nat.add]. rewrite !centries_S, IH. cbn [app]. f_equal. f_equal.
    replace (a + 1 + N.of_nat n) with (a + N.of_nat (S n)) by lia. reflexivity.
Qed.

Lemma centries_snoc a n : centries a (S n) = centries a n ++ [clog (a + N.of_nat (S n))].
Proof.
  replace (S n) with (n + 1)%nat at 1 by lia. rewrite centries_app.
  rewrite centries_S, centries_0. replace (a + N.of_nat n + 1) with (a + N.of_nat (S n)) by lia. reflexivity.
Qed.

Lemma In_centries a n e :
  In e (centries a n) <-> exists i, a < i <= a + N.of_nat n /\ e = clog i.
Proof.
  unfold centries. rewrite in_map_iff. split.
  - intros (j & <- & Hj). apply in_seq in Hj. exists (a + N.of_nat j). split; [lia | reflexivity].
  - intros (i & Hi & ->). exists (N.to_nat (i - a)). split.
    + f_equal. lia.
    + apply in_seq. lia.
Qed.

Lemma app_eq_len {A} (l1 l1' l2 l2' : list A) :
  l1 ++ l2 = l1' ++ l2' -> length l1 = length l1' -> l1 = l1' /\ l2 = l2'.
Proof.
  revert l1'. induction l1 as [|x l1 IH]; intros [|y l1'] H L; cbn in *; try discriminate.
  - split; [reflexivity | exact H].
  - inversion H; subst. destruct (IH l1') as [-> ->]; [assumption | lia |]. split; reflexivity.
Qed.

Lemma centries_split l1 l2 a n :
  l1 ++ l2 = centries a n ->
  l1 = centries a (length l1) /\ l2 = centries (a + N.of_nat (length l1)) (n - length l1).
Proof.
  intro H.
  assert (Hl : (length l1 <= n)%nat).
  { apply (f_equal (@length _)) in H. rewrite app_length, centries_length in H. lia. }
  replace n with (length l1 + (n - length l1))%nat in H by lia.
  rewrite centries_app in H.
  apply app_eq_len in H; [exact H|].
  rewrite centries_length. reflexivity.
Qed.

(* ---- lastApplied ------------------------------------------------------------------- *)

Lemma lastApplied_nil d : lastApplied [] d = d.
Proof. reflexivity. Qed.

Lemma lastApplied_snoc l e d : lastApplied (l ++ [e]) d = e_idx e.
Proof. unfold lastApplied. rewrite map_app. cbn [map]. apply last_last. Qed.

Lemma lastApplied_cons_ne e l d : l <> [] -> lastApplied (e :: l) d = lastApplied l d.
Proof.
  unfold lastApplied. destruct l as [|x l]; [congruence|]. intros _. reflexivity.
Qed.

Lemma lastApplied_default l d d' : l <> [] -> lastApplied l d = lastApplied l d'.
Proof.
  intro H. destruct (exists_last H) as (l' & e & ->). rewrite !lastApplied_snoc. reflexivity.
Qed.

Lemma lastApplied_centries a n d : (0 < n)%nat -> lastApplied (centries a n) d = a + N.of_nat n.
Proof.
  destruct n as [|n]; [lia|]. intros _. rewrite centries_snoc, lastApplied_snoc. apply clog_idx.
Qed.

Lemma lastApplied_centries_le a n d : d <= a -> lastApplied (centries a n) d <= a + N.of_nat n.
Proof.
  destruct n as [|n]; intro H.
  - rewrite centries_0, lastApplied_nil. lia.
  - rewrite lastApplied_centries by lia. lia.
Qed.

(* ---- sortedness ------------------------------------------------------------------------- *)

Lemma sorted_nil : sorted [].
Proof. constructor. Qed.

Lemma sorted_app l1 l2 :
  sorted l1 -> sorted l2 -> (forall a b, In a l1 -> In b l2 -> e_idx a < e_idx b) -> sorted (l1 ++ l2).
Proof.
  unfold sorted. induction l1 as [|x l1 IH]; intros H1 H2 H; cbn [app]; [exact H2|].
  inversion H1 as [|? ? Hs Hf]; subst. constructor.
  - apply IH; [exact Hs | exact H2 | intros; apply H; [right|]; assumption].
  - apply Forall_app. split; [exact Hf|]. apply Forall_forall. intros b Hb. apply H; [left; reflexivity | exact Hb].
Qed.

Lemma sorted_single e : sorted [e].
Proof. repeat constructor. Qed.

Lemma sorted_le_last l d e : sorted l -> In e l -> e_idx e <= lastApplied l d.
Proof.
  unfold sorted. revert e. induction l as [|x l IH]; intros e Hs Hin; [destruct Hin|].
  inversion Hs as [|? ? Hs' Hf]; subst.
  destruct l as [|y l].
  - destruct Hin as [->|[]]. unfold lastApplied. cbn [map last]. lia.
  - rewrite lastApplied_cons_ne by congruence. destruct Hin as [->|Hin].
    + assert (e_idx e < e_idx y) by (rewrite Forall_forall in Hf; apply Hf; left; reflexivity).
      specialize (IH y Hs' (or_introl eq_refl)). lia.
    + apply IH; assumption.
Qed.

Lemma sorted_app_inv l1 l2 : sorted (l1 ++ l2) -> sorted l1 /\ sorted l2.
Proof.
  unfold sorted. induction l1 as [|x l1 IH]; cbn [app]; intro H.
  - split; [constructor | exact H].
  - inversion H as [|? ? Hs Hf]; subst. destruct (IH Hs) as [A B]. split; [|exact B].
    constructor; [exact A|]. apply Forall_app in Hf. apply Hf.
Qed.

(* ---- the calls of applyCommittedEntries over a contiguous committed range ------------------ *)

Definition call_ok (p : N) (c : list entry) : Prop :=
  c <> [] /\ sorted c /\ sound c p (lastApplied c p) /\ complete c p (lastApplied c p).

Fixpoint calls_ok (p : N) (calls : list (list entry)) : Prop :=
  match calls with
  | [] => True
  | c :: r => call_ok p c /\ calls_ok (lastApplied c p) r
  end.

Fixpoint calls_end (p : N) (calls : list (list entry)) : N :=
  match calls with
  | [] => p
  | c :: r => calls_end (lastApplied c p) r
  end.

Lemma calls_ok_app p c1 c2 :
  calls_ok p (c1 ++ c2) <-> calls_ok p c1 /\ calls_ok (calls_end p c1) c2.
Proof.
  revert p. induction c1 as [|c c1 IH]; intro p; cbn [app calls_ok calls_end].
  - tauto.
  - rewrite IH. tauto.
Qed.

Lemma calls_end_app p c1 c2 : calls_end p (c1 ++ c2) = calls_end (calls_end p c1) c2.
Proof. revert p. induction c1 as [|c c1 IH]; intro p; cbn [app calls_end]; [reflexivity | apply IH]. Qed.

Lemma call_ok_last_gt p c : call_ok p c -> p < lastApplied c p.
Proof.
  intros (Hne & Hs & Hsd & _). destruct (exists_last Hne) as (l & e & ->).
  rewrite lastApplied_snoc. destruct (Hsd e) as (_ & _ & H); [apply in_or_app; right; left; reflexivity|].
  lia.
Qed.

(* the accumulator holds exactly the commands of (p, a] *)
Definition acc_ok (p a : N) (acc : list entry) : Prop :=
  p <= a /\ sorted acc /\ sound acc p a /\ complete acc p a.

Lemma acc_ok_flush p a acc :
  acc_ok p a acc ->
  calls_ok p (flushBatch acc)
  /\ p <= calls_end p (flushBatch acc) <= a
  /\ clean (calls_end p (flushBatch acc)) a.
Proof.
  intros (Hpa & Hs & Hsd & Hc). destruct acc as [|x acc'] eqn:E.
  - cbn. split; [exact I|]. split; [lia|]. intros i Hi.
    destruct (is_normal (clog i)) eqn:Hn; [|reflexivity]. destruct (Hc i Hi Hn).
  - rewrite <- E in *. assert (Hne : acc <> []) by (rewrite E; congruence).
    replace (flushBatch acc) with [acc] by (rewrite E; reflexivity).
    cbn [calls_ok calls_end].
    assert (Hle : forall e, In e acc -> e_idx e <= lastApplied acc p) by (intros; apply sorted_le_last; assumption).
    assert (Hlast : p < lastApplied acc p <= a).
    { destruct (exists_last Hne) as (l & e & El). rewrite El, lastApplied_snoc.
      destruct (Hsd e) as (_ & _ & H); [rewrite El; apply in_or_app; right; left; reflexivity|]. lia. }
    split; [split; [|exact I]|split; [lia|]].
    + split; [exact Hne|]. split; [exact Hs|]. split.
      * intros e He. destruct (Hsd e He) as (A & B & C). split; [exact A|]. split; [exact B|].
        specialize (Hle e He). lia.
      * intros i Hi Hn. apply Hc; [lia | exact Hn].
    + intros i Hi. destruct (is_normal (clog i)) eqn:Hn; [|reflexivity].
      assert (In (clog i) acc) by (apply Hc; [lia | exact Hn]).
      specialize (Hle _ H). rewrite clog_idx in Hle. lia.
Qed.

Lemma ace_from_ok n : forall a acc p,
  acc_ok p a acc ->
  let calls := applyCommittedEntries_from (centries a n) acc in
  calls_ok p calls
  /\ p <= calls_end p calls <= a + N.of_nat n
  /\ clean (calls_end p calls) (a + N.of_nat n).
Proof.
  induction n as [|n IH]; intros a acc p Hacc; cbn zeta.
  - rewrite centries_0. cbn [applyCommittedEntries_from].
    replace (a + N.of_nat 0) with a by lia. apply acc_ok_flush. exact Hacc.
  - rewrite centries_S. cbn [applyCommittedEntries_from].
    replace (a + N.of_nat (S n)) with ((a + 1) + N.of_nat n) by lia.
    destruct Hacc as (Hpa & Hs & Hsd & Hc).
    destruct (e_kind (clog (a + 1))) eqn:K.
    + (* a command: joins the batch *)
      apply IH. split; [lia|]. split; [|split].
      * apply sorted_app; [exact Hs | apply sorted_single|].
        intros x y Hx [<-|[]]. destruct (Hsd x Hx) as (_ & _ & H). rewrite clog_idx. lia.
      * intros e He. apply in_app_or in He. destruct He as [He|[<-|[]]].
        -- destruct (Hsd e He) as (A & B & C). split; [exact A|]. split; [exact B|]. lia.
        -- rewrite clog_idx. split; [reflexivity|]. split; [unfold is_normal; rewrite K; reflexivity|]. lia.
      * intros i Hi Hn. destruct (N.eq_dec i (a + 1)) as [->|Hne].
        -- apply in_or_app. right. left. reflexivity.
        -- apply in_or_app. left. apply Hc; [lia | exact Hn].
    + (* an empty entry: skipped, the batch stays open *)
      apply IH. split; [lia|]. split; [exact Hs|]. split.
      * intros e He. destruct (Hsd e He) as (A & B & C). split; [exact A|]. split; [exact B|]. lia.
      * intros i Hi Hn. destruct (N.eq_dec i (a + 1)) as [->|Hne].
        -- unfold is_normal in Hn. rewrite K in Hn. discriminate.
        -- apply Hc; [lia | exact Hn].
    + (* a configuration change: flush, then start again *)
      destruct (acc_ok_flush p a acc) as (F1 & F2 & F3); [exact (conj Hpa (conj Hs (conj Hsd Hc)))|].
      set (q := calls_end p (flushBatch acc)) in *.
      destruct (IH (a + 1) [] q) as (G1 & G2 & G3).
      { split; [lia|]. split; [apply sorted_nil|]. split; [intros e []|].
        intros i Hi Hn. exfalso. destruct (N.eq_dec i (a + 1)) as [->|Hne].
        - unfold is_normal in Hn. rewrite K in Hn. discriminate.
        - rewrite F3 in Hn; [discriminate | lia]. }
      rewrite calls_ok_app, calls_end_app. fold q.
      split; [split; assumption|]. split; [lia | exact G3].
Qed.

Lemma ace_ok a n p :
  p <= a -> clean p a ->
  let calls := applyCommittedEntries (centries a n) in
  calls_ok p calls
  /\ p <= calls_end p calls <= a + N.of_nat n
  /\ clean (calls_end p calls) (a + N.of_nat n).
Proof.
  intros Hpa Hcl. unfold applyCommittedEntries. apply ace_from_ok.
  split; [exact Hpa|]. split; [apply sorted_nil|]. split; [intros e []|].
  intros i Hi Hn. rewrite Hcl in Hn; [discriminate | exact Hi].
Qed.

(* what goes through the calls is exactly the commands, in order *)
Lemma ace_from_concat l : forall acc,
  concat (applyCommittedEntries_from l acc) = acc ++ filter is_normal l.
Proof.
  induction l as [|e l IH]; intro acc; cbn [applyCommittedEntries_from filter].
  - destruct acc; cbn; [reflexivity | rewrite !app_nil_r; reflexivity].
  - unfold is_normal at 1. destruct (e_kind e).
    + rewrite IH, <- app_assoc. reflexivity.
    + apply IH.
    + rewrite concat_app, IH. destruct acc; cbn; [reflexivity | rewrite app_nil_r; reflexivity].
Qed.

Lemma ace_concat l : concat (applyCommittedEntries l) = filter is_normal l.
Proof. unfold applyCommittedEntries. rewrite ace_from_concat. reflexivity. Qed.

Lemma clean_trans p q r : clean p q -> clean q r -> clean p r.
Proof.
  intros A B i Hi. destruct (N.le_gt_cases i q); [apply A | apply B]; lia.
Qed.

Lemma clean_refl p q : q <= p -> clean p q.
Proof. intros H i Hi. lia. Qed.

Lemma clean_weaken p q p' q' : clean p q -> p <= p' -> q' <= q -> clean p' q'.
Proof. intros H A B i Hi. apply H. lia. Qed.

Lemma complete_extend h lo p q : complete h lo p -> clean p q -> complete h lo q.
Proof.
  intros Hc Hcl i Hi Hn. destruct (N.le_gt_cases i p).
  - apply Hc; [lia | exact Hn].
  - rewrite Hcl in Hn; [discriminate | lia].
Qed.

Lemma complete_weaken h lo p q : complete h lo p -> q <= p -> complete h lo q.
Proof. intros Hc Hle i Hi Hn. apply Hc; [lia | exact Hn]. Qed.

(* a complete, sound history with bound b has no command in (b, p] *)
Lemma sound_complete_clean h b p : sound h 0 b -> complete h 0 p -> clean b p.
Proof.
  intros Hs Hc i Hi. destruct (is_normal (clog i)) eqn:Hn; [|reflexivity].
  assert (In (clog i) h) by (apply Hc; [lia | exact Hn]).
  destruct (Hs _ H) as (_ & _ & B). rewrite clog_idx in B. lia.
Qed.

End CLog.
