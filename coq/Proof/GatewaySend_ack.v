(* Proof/GatewaySend_ack.v — with CloseOnHandlerError and a handler that does not
   panic: for every session, handled = acked ++ r where r (handled without a
   SENDACK) is non-empty only if the session is closed. *)
From Coq Require Import Sorting.Sorted.
From WK Require Import Base.Base Model.GatewaySend Proof.GatewaySend_lib Proof.GatewaySend_split
  Proof.GatewaySend_acct Proof.GatewaySend_order.
Open Scope N_scope.

Definition nopanic (e : ev) : Prop := match e with EWork _ CPanic => False | _ => True end.

Record Strict (st : state) : Prop := {
  s_ack : forall s, exists r, finq (disps st) s = ackq (wire st) s ++ r /\ (r <> [] -> sclosed st s = true);
  s_werr : forall k n tc cur rest, wpcs st k = WErr n tc cur rest ->
           forall x, In x cur -> In (t_s x) tc \/ sclosed st (t_s x) = true }.

Lemma strict_init : Strict init.
Proof. constructor; cbn; intros; [exists []; split; [reflexivity|congruence] | discriminate]. Qed.

Lemma strict_tick st : Strict st -> Strict (tick st).
Proof. intros [? ?]. constructor; assumption. Qed.

Lemma strict_frame st st' :
  Strict st -> disps st' = disps st -> (forall s, ackq (wire st') s = ackq (wire st) s) ->
  (forall s, sclosed st s = true -> sclosed st' s = true) ->
  (forall k n tc cur rest, wpcs st' k = WErr n tc cur rest -> wpcs st k = WErr n tc cur rest) ->
  Strict st'.
Proof.
  intros [Ha Hw] Hd Hq Hc Hp. constructor.
  - intro s. destruct (Ha s) as [r [H1 H2]]. exists r. rewrite Hd, Hq. split; [exact H1|]. intro Hr. apply Hc. apply H2. exact Hr.
  - intros k n tc cur rest Hk x Hx. destruct (Hw k n tc cur rest (Hp _ _ _ _ _ Hk) x Hx) as [H|H]; [left; exact H|right; apply Hc; exact H].
Qed.

(* handled items whose sessions are all closed *)
Lemma strict_drop st st' items t :
  Strict st -> disps st' = disps st ++ map (fun x => HDisp (t_s x) (t_q x) t) items ->
  (forall s, ackq (wire st') s = ackq (wire st) s) ->
  (forall s, sclosed st s = true -> sclosed st' s = true) ->
  (forall x, In x items -> sclosed st (t_s x) = true) ->
  (forall k n tc cur rest, wpcs st' k = WErr n tc cur rest -> wpcs st k = WErr n tc cur rest) ->
  Strict st'.
Proof.
  intros [Ha Hw] Hd Hq Hc Hit Hp. constructor.
  - intro s. destruct (Ha s) as [r [H1 H2]]. exists (r ++ qs_of s items).
    rewrite Hd, Hq, finq_app, finq_drop, H1, app_assoc. split; [reflexivity|]. intro Hr. apply Hc.
    destruct r as [|q0 r'].
    + cbn [app] in Hr. destruct (qs_of_nonempty s items Hr) as [x [Hin Hx]]. rewrite <- Hx. apply Hit. exact Hin.
    + apply H2. discriminate.
  - intros k n tc cur rest Hk x Hx. destruct (Hw k n tc cur rest (Hp _ _ _ _ _ Hk) x Hx) as [H|H]; [left; exact H|right; apply Hc; exact H].
Qed.

Ltac closed_mono s :=
  let s0 := fresh "s0" in let H := fresh "H" in
  sp; intros s0 H; try (destruct (Nat.eq_dec s0 s) as [->|?]; [rewrite ?upd_same|rewrite ?upd_other by assumption]);
  auto.

Ltac werr_pres k :=
  let k0 := fresh "k0" in let H := fresh "H" in
  sp; intros k0 ? ? ? ? H; try (destruct (Nat.eq_dec k0 k) as [->|?];
    [rewrite ?upd_same in H|rewrite ?upd_other in H by assumption]); try discriminate; auto.

Lemma strict_sub c st s : Strict st -> Strict (sub_step c s st).
Proof.
  intro S. unfold sub_step. set (k := shard_of c s).
  destruct (spcs st s) eqn:Hpc; try exact S.
  - destruct (closed st); apply (strict_frame st _ S); try reflexivity; auto.
  - destruct (c_cap c <=? queued st); apply (strict_frame st _ S); try reflexivity; auto.
  - destruct (c_shardcap c <=? shq st k); apply (strict_frame st _ S); try reflexivity; auto.
  - destruct (mclosed st || (c_shardcap c <=? len (mbox st k))); apply (strict_frame st _ S); try reflexivity; auto.
    sp. intros k0 ? ? ? ? H. destruct (Nat.eq_dec k0 k) as [->|?];
      [rewrite upd_same in H; destruct (wpcs st k); cbn [is_widle] in H; try discriminate; exact H
      | rewrite upd_other in H by assumption; exact H].
  - apply (strict_frame st _ S); try reflexivity; auto.
  - apply (strict_frame st _ S); try reflexivity; auto.
  - apply (strict_frame st _ S); try reflexivity; auto.
  - apply (strict_frame st _ S); try reflexivity; auto. closed_mono s.
Qed.

Lemma advance_sclosed st k n rest : sclosed (advance k n rest st) = sclosed st.
Proof. unfold advance. destruct rest; reflexivity. Qed.

Lemma advance_werr st k n rest k0 n0 tc cur rest0 :
  wpcs (advance k n rest st) k0 = WErr n0 tc cur rest0 -> k0 <> k /\ wpcs st k0 = WErr n0 tc cur rest0.
Proof.
  unfold advance. destruct rest; sp; intro H; destruct (Nat.eq_dec k0 k) as [->|Hne];
    rewrite ?upd_same in H; try discriminate; rewrite upd_other in H by assumption; auto.
Qed.

Lemma strict_work c st k ch :
  c_closeonerr c = true -> ch <> CPanic -> Order c st -> Strict st -> Strict (work_step c k ch st).
Proof.
  intros Hce Hnp O S. unfold work_step.
  destruct (wpcs st k) eqn:Hw; try exact S.
  - apply (strict_frame st _ S); try reflexivity; auto. werr_pres k.
  - destruct (mbox st k); apply (strict_frame st _ S); try reflexivity; auto; werr_pres k.
  - destruct (eff_maxrec (c_maxrec c) <=? length items)%nat.
    + apply (strict_frame st _ S); try reflexivity; auto. werr_pres k.
    + destruct ch; destruct (mbox st k); try exact S; apply (strict_frame st _ S); try reflexivity; auto; werr_pres k.
  - apply (strict_frame st _ S); try reflexivity; auto. werr_pres k.
  - (* WConsume *)
    apply (strict_frame st _ S).
    + rewrite advance_disps. reflexivity.
    + intro s. rewrite advance_wire. reflexivity.
    + intros s Hs. rewrite advance_sclosed. exact Hs.
    + intros k0 n0 tc cur rest0 H. apply advance_werr in H. destruct H as [_ H]. exact H.
  - (* WDisp *)
    pose proof (o_cursub c st O k _ _ _ _ Hw) as Hsub.
    assert (Hdef : Strict match cur with
                          | [] => advance k n rest st
                          | x :: cur' => set_wpc k (WDisp n cur' curall rest)
                              (drop_items [x] (if sclosed st (t_s x) then st
                                 else set_wire (wire st ++ [HWire (t_s x) 0 (t_q x) (now st)]) st))
                          end).
    { destruct cur as [|x cur'].
      - apply (strict_frame st _ S).
        + rewrite advance_disps. reflexivity.
        + intro s. rewrite advance_wire. reflexivity.
        + intros s Hs. rewrite advance_sclosed. exact Hs.
        + intros k0 n0 tc cur rest0 H. apply advance_werr in H. destruct H as [_ H]. exact H.
      - destruct (sclosed st (t_s x)) eqn:Hcl.
        + apply (strict_drop st _ [x] (now st) S); try reflexivity; auto.
          * intros y [<-|[]]. exact Hcl.
          * werr_pres k.
        + (* the SENDACK is written *)
          destruct S as [Ha Hwe]. constructor.
          * intro s. sp. destruct (Ha s) as [r [H1 H2]].
            rewrite ackq_app, finq_app, ackq_one. unfold finq at 2. cbn [map filter hd_s].
            destruct (Nat.eqb (t_s x) s) eqn:E; cbn [andb N.eqb map hd_q].
            -- apply Nat.eqb_eq in E. subst s.
               assert (r = []) as ->.
               { destruct r; [reflexivity|]. rewrite H2 in Hcl by discriminate. discriminate. }
               exists []. rewrite H1, !app_nil_r. split; [reflexivity|congruence].
            -- exists r. rewrite !app_nil_r. split; assumption.
          * werr_pres k. eapply Hwe; eassumption. }
    destruct ch; try exact Hdef; [|congruence].
    (* CFail: handleHandlerError will close every session of the unit *)
    rewrite Hce. destruct S as [Ha Hwe]. constructor.
    + exact Ha.
    + sp. intros k0 n0 tc cur0 rest0 H x Hx. destruct (Nat.eq_dec k0 k) as [->|Hne].
      * rewrite upd_same in H. inversion H; subst. left. apply in_dedup. apply in_map. apply Hsub. exact Hx.
      * rewrite upd_other in H by assumption. eapply Hwe; eassumption.
  - (* WErr *)
    destruct toclose as [|s0 tc].
    + apply (strict_drop st _ cur (now st) S).
      * rewrite advance_disps. reflexivity.
      * intro s. rewrite advance_wire. reflexivity.
      * intros s Hs. rewrite advance_sclosed. exact Hs.
      * intros x Hx. destruct (s_werr st S k _ _ _ _ Hw x Hx) as [[]|H]. exact H.
      * intros k0 n0 tc cur0 rest0 H. apply advance_werr in H. destruct H as [_ H]. exact H.
    + destruct S as [Ha Hwe]. constructor.
      * intro s. sp. destruct (Ha s) as [r [H1 H2]]. exists r. split; [exact H1|].
        intro Hr. destruct (Nat.eq_dec s s0) as [->|Hne]; [apply upd_same|]. rewrite upd_other by assumption. auto.
      * sp. intros k0 n0 tc0 cur0 rest0 H x Hx. destruct (Nat.eq_dec k0 k) as [->|Hne].
        -- rewrite upd_same in H. inversion H; subst.
           destruct (Hwe k _ _ _ _ Hw x Hx) as [[<-|Hin]|Hc].
           ++ right. apply upd_same.
           ++ left. exact Hin.
           ++ right. destruct (Nat.eq_dec (t_s x) s0) as [->|Hne]; [apply upd_same|]. rewrite upd_other by assumption. exact Hc.
        -- rewrite upd_other in H by assumption.
           destruct (Hwe k0 _ _ _ _ H x Hx) as [Hin|Hc]; [left; exact Hin|].
           right. destruct (Nat.eq_dec (t_s x) s0) as [->|Hne']; [apply upd_same|]. rewrite upd_other by assumption. exact Hc.
  - destruct (r =? 0); apply (strict_frame st _ S); try reflexivity; auto; werr_pres k.
  - destruct (mbox st k); [|destruct (mclosed st)]; apply (strict_frame st _ S); try reflexivity; auto; werr_pres k.
Qed.

Lemma strict_stepT c st e :
  c_closeonerr c = true -> nopanic e -> Order c st -> Strict st -> Strict (stepT c st e).
Proof.
  intros Hce Hnp O S. destruct e; cbn [stepT].
  - destruct (spcs st s); try exact S.
    destruct ((s <? c_nsess c)%nat && negb (sclosed st s)); [|exact S].
    apply (strict_frame st _ S); try reflexivity; auto.
  - destruct (s <? c_nsess c)%nat; [|exact S]. apply strict_sub. exact S.
  - destruct (k <? c_shards c)%nat; [|exact S]. apply strict_work; try assumption.
    intros ->. exact Hnp.
  - destruct (dpcs st d); try exact S. apply (strict_frame st _ S); try reflexivity; auto.
  - unfold drain_step. destruct (dpcs st d); try exact S.
    + apply (strict_frame st _ S); try reflexivity; auto.
    + apply (strict_frame st _ S); try reflexivity; auto.
    + destruct (drained st); [apply (strict_frame st _ S); try reflexivity; auto|].
      destruct timeout; [apply (strict_frame st _ S); try reflexivity; auto | exact S].
  - destruct (dstarted st && negb (drained st) && (admitted st =? 0)); [|exact S].
    apply (strict_frame st _ S); try reflexivity; auto.
  - destruct (cstarted st && drained st && negb (mclosed st)); [|exact S].
    apply (strict_frame st _ S); try reflexivity; auto.
  - destruct (s <? c_nsess c)%nat; [|exact S]. apply (strict_frame st _ S); try reflexivity; auto.
    closed_mono s.
  - destruct ((s <? c_nsess c)%nat && negb (w =? 0)) eqn:Hg; [|exact S]. ltb_hyp.
    destruct (sclosed st s); apply (strict_frame st _ S); try reflexivity; auto.
    intro s0. sp. apply ackq_push. assumption.
Qed.

Lemma strict_run c evs :
  cfg_ok c -> c_closeonerr c = true -> Forall nopanic evs -> Strict (run c evs).
Proof.
  intros Hc Hce Hnp. unfold run.
  assert (H : forall st, Order c st -> Strict st -> Strict (fold_left (step c) evs st)).
  { induction evs as [|e l IH]; intros st O S; cbn [fold_left]; [exact S|].
    inversion Hnp; subst. apply IH; [assumption | apply order_step; assumption |].
    rewrite step_eq. apply strict_stepT; try assumption.
    - apply order_tick. exact O.
    - apply strict_tick. exact S. }
  apply H; [apply order_init | apply strict_init].
Qed.
