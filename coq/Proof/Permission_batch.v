(* Proof/Permission_batch.v — full-level theorems of C36: the read list, addRead
   de-duplication and index plans of permission_batch.go are transparent (every plan
   evaluates on the answers of exactly its own reads, for batches of any length and
   content), request coalescing is transparent, and a SendBatch item is decided as Send()
   decides it — except on the two known divergences C36-K1 / C36-K2. *)
From WK Require Import Base.Base Model.ChannelId Proof.ChannelId Model.Permission Proof.Permission.
From WK Require Import Gen.Consts_C35 Gen.Consts_C36.
Open Scope N_scope.

(* ---- equality tests ------------------------------------------------------------------------ *)

Lemma pread_eqb_eq a b : pread_eqb a b = true -> a = b.
Proof.
  destruct a as [a1 a2 a3 a4 a5 a6], b as [b1 b2 b3 b4 b5 b6]. unfold pread_eqb.
  cbn [rd_kind rd_list rd_ltype rd_id rd_type rd_uid].
  intro H. repeat (apply andb_true_iff in H; destruct H as [H ?]).
  repeat match goal with
         | E : (_ =? _) = true |- _ => apply N.eqb_eq in E
         | E : bytes_eqb _ _ = true |- _ => apply bytes_eqb_eq in E
         end.
  subst. reflexivity.
Qed.

Lemma pcmd_eqb_eq a b : pcmd_eqb a b = true -> a = b.
Proof.
  destruct a as [a1 a2 a3 a4 a5 a6 a7], b as [b1 b2 b3 b4 b5 b6 b7]. unfold pcmd_eqb.
  cbn [c_from c_dev c_chan c_type c_norm c_req c_scoped].
  intro H. repeat (apply andb_true_iff in H; destruct H as [H ?]).
  repeat match goal with
         | E : (_ =? _) = true |- _ => apply N.eqb_eq in E
         | E : bytes_eqb _ _ = true |- _ => apply bytes_eqb_eq in E
         | E : Bool.eqb _ _ = true |- _ => apply eqb_prop in E
         end.
  subst. reflexivity.
Qed.

Lemma pcmd_eqb_refl a : pcmd_eqb a a = true.
Proof.
  destruct a as [a1 a2 a3 a4 a5 a6 a7]. unfold pcmd_eqb.
  cbn [c_from c_dev c_chan c_type c_norm c_req c_scoped].
  rewrite !bytes_eqb_refl, !N.eqb_refl, !eqb_reflx. reflexivity.
Qed.

(* ---- addRead --------------------------------------------------------------------------------- *)

Definition has (reads : list pread) (i : nat) (r : pread) : Prop := nth_error reads i = Some r.

Lemma has_ext reads i r ext : has reads i r -> has (reads ++ ext) i r.
Proof.
  unfold has. intro H. rewrite nth_error_app1; [exact H|].
  apply nth_error_Some. rewrite H. discriminate.
Qed.

Lemma index_of_has r : forall l i, index_of r l = Some i -> has l i r.
Proof.
  induction l as [|x t IH]; intros i H; cbn in H; [discriminate|].
  destruct (pread_eqb x r) eqn:E.
  - inversion H. subst. apply pread_eqb_eq in E. subst. reflexivity.
  - destruct (index_of r t) as [j|] eqn:Ej; [|discriminate]. inversion H. subst.
    cbn. apply IH. reflexivity.
Qed.

Lemma addRead_has reads r reads' i : addRead reads r = (reads', i) ->
  exists ext, reads' = reads ++ ext /\ has reads' i r.
Proof.
  unfold addRead. destruct (index_of r reads) as [j|] eqn:E; intro H; inversion H; subst.
  - exists []. rewrite app_nil_r. split; [reflexivity|]. apply index_of_has. exact E.
  - exists [r]. split; [reflexivity|]. unfold has.
    rewrite nth_error_app2 by lia. rewrite Nat.sub_diag. reflexivity.
Qed.

(* results[index] is the answer of the read the index was handed out for *)
Lemma slot_has (rd : reader) reads i r : has reads i r ->
  slot (map rd reads) (Some i) = Some (rd r).
Proof.
  unfold has, slot. intro H. f_equal.
  apply nth_error_nth. apply map_nth_error. exact H.
Qed.

(* ---- group plans ------------------------------------------------------------------------------- *)

Ltac step_add E :=
  apply addRead_has in E; destruct E as [? [-> E]].

Lemma classify_group : classify channelTypeGroup = TGroup.
Proof. reflexivity. Qed.
Lemma classify_person : classify channelTypePerson = TPerson.
Proof. reflexivity. Qed.

Lemma planGroup_correct (rd : reader) (cfg : pcfg) reads cmd reads' p :
  c_type cmd = channelTypeGroup ->
  planGroup cfg reads cmd = (reads', p) ->
  gp_command p = cmd /\ (exists ext, reads' = reads ++ ext) /\
  forall ext', groupSlotsOfPlan p (map rd (reads' ++ ext'))
               = groupSlotsOf (facts_at rd cfg cmd false (group_id cmd)).
Proof.
  intros Ht. unfold planGroup, group_id.
  set (src := fst (FromCommandChannel (c_chan cmd))).
  destruct (addRead reads (chanRead src (c_type cmd))) as [r1 gi] eqn:E1.
  unfold groupSlotsOf, facts_at.
  cbn [f_sender_sys f_device_sys f_sender f_target f_denied f_sub f_hasallow f_allowentry f_type].
  rewrite Ht, classify_group. cbn [is_person]. rewrite <- Ht. fold src.
  destruct (IsSystemUID cfg (c_from cmd)) eqn:Es.
  { intro H. inversion H. subst. clear H. step_add E1.
    split; [reflexivity|]. split; [eexists; reflexivity|]. intro ext'.
    unfold groupSlotsOfPlan. cbn [gp_trusted gp_senderChannel gp_groupChannel gp_denied gp_subscriber
                                  gp_hasAllowlist gp_allowlistEntry].
    rewrite (slot_has rd _ _ _ (has_ext _ _ _ ext' E1)). reflexivity. }
  destruct (addRead r1 (chanRead (c_from cmd) channelTypePerson)) as [r2 si] eqn:E2.
  destruct (is_system_device cfg cmd) eqn:Ed.
  { intro H. inversion H. subst. clear H. step_add E1. step_add E2.
    split; [reflexivity|]. split; [eexists; rewrite <- app_assoc; reflexivity|]. intro ext'.
    unfold groupSlotsOfPlan. cbn [gp_trusted gp_senderChannel gp_groupChannel gp_denied gp_subscriber
                                  gp_hasAllowlist gp_allowlistEntry].
    rewrite (slot_has rd _ _ _ (has_ext _ _ _ ext' E2)).
    rewrite (slot_has rd _ _ _ (has_ext _ _ _ ext' (has_ext _ _ _ _ E1))). reflexivity. }
  destruct (addRead r2 (containsRead 1 (c_type cmd) src (c_type cmd) (c_from cmd))) as [r3 di] eqn:E3.
  destruct (addRead r3 (containsRead 0 0 src (c_type cmd) (c_from cmd))) as [r4 ui] eqn:E4.
  destruct (addRead r4 (hasAnyRead 2 (c_type cmd) src (c_type cmd))) as [r5 hi] eqn:E5.
  destruct (addRead r5 (containsRead 2 (c_type cmd) src (c_type cmd) (c_from cmd))) as [r6 ai] eqn:E6.
  intro H. inversion H. subst. clear H.
  step_add E1. step_add E2. step_add E3. step_add E4. step_add E5. step_add E6.
  split; [reflexivity|]. split; [eexists; rewrite <- !app_assoc; reflexivity|]. intro ext'.
  unfold groupSlotsOfPlan. cbn [gp_trusted gp_senderChannel gp_groupChannel gp_denied gp_subscriber
                                gp_hasAllowlist gp_allowlistEntry].
  rewrite (slot_has rd _ _ _ (has_ext _ _ _ ext' E6)).
  rewrite (slot_has rd _ _ _ (has_ext _ _ _ ext' (has_ext _ _ _ _ E5))).
  rewrite (slot_has rd _ _ _ (has_ext _ _ _ ext' (has_ext _ _ _ _ (has_ext _ _ _ _ E4)))).
  rewrite (slot_has rd _ _ _ (has_ext _ _ _ ext' (has_ext _ _ _ _ (has_ext _ _ _ _ (has_ext _ _ _ _ E3))))).
  rewrite (slot_has rd _ _ _ (has_ext _ _ _ ext' (has_ext _ _ _ _ (has_ext _ _ _ _ (has_ext _ _ _ _ (has_ext _ _ _ _ E2)))))).
  rewrite (slot_has rd _ _ _ (has_ext _ _ _ ext' (has_ext _ _ _ _ (has_ext _ _ _ _ (has_ext _ _ _ _ (has_ext _ _ _ _ (has_ext _ _ _ _ E1))))))).
  reflexivity.
Qed.

Definition group_outcome (rd : reader) (cfg : pcfg) (cmd : pcmd) : outcome :=
  (c_chan cmd, evaluateGroupPermissionReadPlan (groupSlotsOf (facts_at rd cfg cmd false (group_id cmd)))).

Lemma planGroups_correct (rd : reader) (cfg : pcfg) : forall cmds reads reads' plans,
  Forall (fun c => c_type c = channelTypeGroup) cmds ->
  planGroups cfg reads cmds = (reads', plans) ->
  (exists ext, reads' = reads ++ ext) /\
  forall ext',
    map (fun p => (c_chan (gp_command p),
                   evaluateGroupPermissionReadPlan (groupSlotsOfPlan p (map rd (reads' ++ ext'))))) plans
    = map (group_outcome rd cfg) cmds.
Proof.
  induction cmds as [|cmd rest IH]; intros reads reads' plans HF H; cbn in H.
  - inversion H. subst. split; [exists []; rewrite app_nil_r; reflexivity|]. reflexivity.
  - destruct (planGroup cfg reads cmd) as [reads1 p] eqn:E1.
    destruct (planGroups cfg reads1 rest) as [reads2 ps] eqn:E2.
    inversion H. subst. clear H. inversion HF as [|? ? Hc Hrest]. subst.
    destruct (planGroup_correct rd cfg _ _ _ _ Hc E1) as [Hcmd [[e1 ->] Hp]].
    destruct (IH _ _ _ Hrest E2) as [[e2 ->] Hps].
    split; [exists (e1 ++ e2); rewrite app_assoc; reflexivity|].
    intro ext'. cbn [map]. f_equal.
    + unfold group_outcome. rewrite Hcmd. f_equal. f_equal.
      rewrite <- app_assoc. apply Hp.
    + apply Hps.
Qed.

Lemma checkGroupSendPermissionsBatch_correct (rd : reader) (cfg : pcfg) cmds :
  Forall (fun c => c_type c = channelTypeGroup) cmds ->
  checkGroupSendPermissionsBatch rd cfg cmds = map (group_outcome rd cfg) cmds.
Proof.
  intro HF. unfold checkGroupSendPermissionsBatch.
  destruct (planGroups cfg [] cmds) as [reads plans] eqn:E.
  destruct (planGroups_correct rd cfg _ _ _ _ HF E) as [_ H].
  specialize (H []). rewrite app_nil_r in H. exact H.
Qed.

(* ---- person plans ----------------------------------------------------------------------------- *)

Definition person_outcome (rd : reader) (cfg : pcfg) (cmd : pcmd) : outcome :=
  (batch_out cmd,
   evaluatePersonPermissionReadPlan
     (personSlotsOf (facts_at rd cfg cmd (is_none (person_batch_id cmd)) (id_or_nil (person_batch_id cmd))))).

Ltac pp_cbn :=
  unfold personSlotsOfPlan;
  cbn [pp_channel pp_planErr pp_trusted pp_systemDevice pp_receiverTrusted pp_senderChannel
       pp_terminalChannel pp_denied pp_allowlistEntry pp_receiverChannel].

Lemma planPerson_correct (rd : reader) (cfg : pcfg) reads cmd reads' p :
  c_type cmd = channelTypePerson ->
  planPerson cfg reads cmd = (reads', p) ->
  pp_channel p = batch_out cmd /\ (exists ext, reads' = reads ++ ext) /\
  forall ext', personSlotsOfPlan p (map rd (reads' ++ ext'))
               = personSlotsOf (facts_at rd cfg cmd (is_none (person_batch_id cmd))
                                         (id_or_nil (person_batch_id cmd))).
Proof.
  intros Ht. unfold planPerson, batch_out, person_batch_id, person_batch_normalized, person_batch_cid.
  rewrite Ht, N.eqb_refl.
  destruct (FromCommandChannel (c_chan cmd)) as [src cc] eqn:Efrom. cbn [fst snd].
  unfold personSlotsOf, facts_at.
  cbn [f_norm f_norm_err f_sender_sys f_device_sys f_decode_err f_recv_sys f_whitelist
       f_sender f_target f_recv f_denied f_allowentry f_type].
  rewrite Ht, classify_person. cbn [is_person].
  destruct (if c_norm cmd then NormalizePersonChannel (c_from cmd) src else Some src) as [nid|] eqn:En.
  2:{ intro H. inversion H. subst. clear H.
      assert (Hn : c_norm cmd = true) by (destruct (c_norm cmd); [reflexivity|discriminate]).
      rewrite Hn. cbn [is_none andb].
      split; [reflexivity|]. split; [exists []; rewrite app_nil_r; reflexivity|].
      intro ext'. pp_cbn. reflexivity. }
  cbn [is_none id_or_nil]. rewrite andb_false_r.
  set (cid := if cc then ToCommandChannel nid else nid).
  set (pid := fst (FromCommandChannel cid)).
  destruct (addRead reads (chanRead pid channelTypePerson)) as [r1 ti] eqn:E1.
  destruct (IsSystemUID cfg (c_from cmd)) eqn:Es.
  { intro H. inversion H. subst. clear H. step_add E1.
    split; [reflexivity|]. split; [eexists; reflexivity|]. intro ext'. pp_cbn.
    rewrite (slot_has rd _ _ _ (has_ext _ _ _ ext' E1)). reflexivity. }
  destruct (addRead r1 (chanRead (c_from cmd) channelTypePerson)) as [r2 si] eqn:E2.
  destruct (is_system_device cfg cmd) eqn:Ed.
  { intro H. inversion H. subst. clear H. step_add E1. step_add E2.
    split; [reflexivity|]. split; [eexists; rewrite <- app_assoc; reflexivity|]. intro ext'. pp_cbn.
    rewrite (slot_has rd _ _ _ (has_ext _ _ _ ext' E2)).
    rewrite (slot_has rd _ _ _ (has_ext _ _ _ ext' (has_ext _ _ _ _ E1))). reflexivity. }
  destruct (person_receiver (c_from cmd) pid) as [receiver|] eqn:Er.
  2:{ intro H. inversion H. subst. clear H. step_add E1. step_add E2.
      split; [reflexivity|]. split; [eexists; rewrite <- app_assoc; reflexivity|]. intro ext'. pp_cbn.
      rewrite (slot_has rd _ _ _ (has_ext _ _ _ ext' E2)).
      rewrite (slot_has rd _ _ _ (has_ext _ _ _ ext' (has_ext _ _ _ _ E1))). reflexivity. }
  destruct (IsSystemUID cfg receiver) eqn:Ers.
  { intro H. inversion H. subst. clear H. step_add E1. step_add E2.
    split; [reflexivity|]. split; [eexists; rewrite <- app_assoc; reflexivity|]. intro ext'. pp_cbn.
    rewrite (slot_has rd _ _ _ (has_ext _ _ _ ext' E2)).
    rewrite (slot_has rd _ _ _ (has_ext _ _ _ ext' (has_ext _ _ _ _ E1))). reflexivity. }
  destruct (addRead r2 (containsRead 1 channelTypePerson receiver channelTypePerson (c_from cmd)))
    as [r3 di] eqn:E3.
  destruct (cfg_wl cfg) eqn:Ew.
  - destruct (addRead r3 (containsRead 2 channelTypePerson receiver channelTypePerson (c_from cmd)))
      as [r4 ai] eqn:E4.
    destruct (addRead r4 (chanRead receiver channelTypePerson)) as [r5 ri] eqn:E5.
    intro H. inversion H. subst. clear H.
    step_add E1. step_add E2. step_add E3. step_add E4. step_add E5.
    split; [reflexivity|]. split; [eexists; rewrite <- !app_assoc; reflexivity|]. intro ext'. pp_cbn.
    rewrite (slot_has rd _ _ _ (has_ext _ _ _ ext' E5)).
    rewrite (slot_has rd _ _ _ (has_ext _ _ _ ext' (has_ext _ _ _ _ E4))).
    rewrite (slot_has rd _ _ _ (has_ext _ _ _ ext' (has_ext _ _ _ _ (has_ext _ _ _ _ E3)))).
    rewrite (slot_has rd _ _ _ (has_ext _ _ _ ext' (has_ext _ _ _ _ (has_ext _ _ _ _ (has_ext _ _ _ _ E2))))).
    rewrite (slot_has rd _ _ _ (has_ext _ _ _ ext' (has_ext _ _ _ _ (has_ext _ _ _ _ (has_ext _ _ _ _ (has_ext _ _ _ _ E1)))))).
    reflexivity.
  - intro H. inversion H. subst. clear H.
    step_add E1. step_add E2. step_add E3.
    split; [reflexivity|]. split; [eexists; rewrite <- !app_assoc; reflexivity|]. intro ext'. pp_cbn.
    rewrite (slot_has rd _ _ _ (has_ext _ _ _ ext' E3)).
    rewrite (slot_has rd _ _ _ (has_ext _ _ _ ext' (has_ext _ _ _ _ E2))).
    rewrite (slot_has rd _ _ _ (has_ext _ _ _ ext' (has_ext _ _ _ _ (has_ext _ _ _ _ E1)))).
    reflexivity.
Qed.

Lemma planPersons_correct (rd : reader) (cfg : pcfg) : forall cmds reads reads' plans,
  Forall (fun c => c_type c = channelTypePerson) cmds ->
  planPersons cfg reads cmds = (reads', plans) ->
  (exists ext, reads' = reads ++ ext) /\
  forall ext',
    map (fun p => (pp_channel p,
                   evaluatePersonPermissionReadPlan (personSlotsOfPlan p (map rd (reads' ++ ext'))))) plans
    = map (person_outcome rd cfg) cmds.
Proof.
  induction cmds as [|cmd rest IH]; intros reads reads' plans HF H; cbn in H.
  - inversion H. subst. split; [exists []; rewrite app_nil_r; reflexivity|]. reflexivity.
  - destruct (planPerson cfg reads cmd) as [reads1 p] eqn:E1.
    destruct (planPersons cfg reads1 rest) as [reads2 ps] eqn:E2.
    inversion H. subst. clear H. inversion HF as [|? ? Hc Hrest]. subst.
    destruct (planPerson_correct rd cfg _ _ _ _ Hc E1) as [Hch [[e1 ->] Hp]].
    destruct (IH _ _ _ Hrest E2) as [[e2 ->] Hps].
    split; [exists (e1 ++ e2); rewrite app_assoc; reflexivity|].
    intro ext'. cbn [map]. f_equal.
    + unfold person_outcome. rewrite Hch. f_equal. f_equal.
      rewrite <- app_assoc. apply Hp.
    + apply Hps.
Qed.

Lemma checkPersonSendPermissionsBatch_correct (rd : reader) (cfg : pcfg) cmds :
  Forall (fun c => c_type c = channelTypePerson) cmds ->
  checkPersonSendPermissionsBatch rd cfg cmds = map (person_outcome rd cfg) cmds.
Proof.
  intro HF. unfold checkPersonSendPermissionsBatch.
  destruct (planPersons cfg [] cmds) as [reads plans] eqn:E.
  destruct (planPersons_correct rd cfg _ _ _ _ HF E) as [_ H].
  specialize (H []). rewrite app_nil_r in H. exact H.
Qed.

(* ---- coalescing ---------------------------------------------------------------------------------- *)

Lemma existsb_pcmd_In c seen : existsb (pcmd_eqb c) seen = true <-> In c seen.
Proof.
  rewrite existsb_exists. split.
  - intros [x [Hin E]]. apply pcmd_eqb_eq in E. subst. exact Hin.
  - intro H. exists c. split; [exact H|apply pcmd_eqb_refl].
Qed.

Lemma representatives_complete : forall items seen c,
  In c items -> In c seen \/ In c (representatives seen items).
Proof.
  induction items as [|x rest IH]; intros seen c H; [destruct H|].
  cbn [representatives]. destruct (existsb (pcmd_eqb x) seen) eqn:E.
  - destruct H as [->|H]; [left; apply existsb_pcmd_In; exact E|apply IH; exact H].
  - destruct H as [->|H]; [right; left; reflexivity|].
    destruct (IH (x :: seen) c H) as [[->|Hs]|Hr].
    + right. left. reflexivity.
    + left. exact Hs.
    + right. right. exact Hr.
Qed.

Lemma lookup_map (g : pcmd -> outcome) c : forall reps,
  In c reps -> lookup_outcome c reps (map g reps) = Some (g c).
Proof.
  induction reps as [|r reps IH]; intro H; [destruct H|]. cbn [map lookup_outcome].
  destruct (pcmd_eqb r c) eqn:E.
  - apply pcmd_eqb_eq in E. subst. reflexivity.
  - destruct H as [->|H]; [rewrite pcmd_eqb_refl in E; discriminate|apply IH; exact H].
Qed.

Lemma batched_group_type c : batched_group c = true -> c_type c = channelTypeGroup.
Proof. unfold batched_group. intro H. apply andb_true_iff in H. apply N.eqb_eq. apply H. Qed.
Lemma batched_person_type c : batched_person c = true -> c_type c = channelTypePerson.
Proof. unfold batched_person. intro H. apply andb_true_iff in H. apply N.eqb_eq. apply H. Qed.

Lemma batched_exclusive c : batched_group c = true -> batched_person c = false.
Proof.
  intro H. unfold batched_person. rewrite (batched_group_type c H). cbv. apply andb_false_r.
Qed.

Lemma batchable_facts_at rd cfg cmd nerr id :
  batchable (facts_at rd cfg cmd nerr id) = cmd_batchable cmd.
Proof.
  unfold batchable, facts_at, cmd_batchable. cbn [f_request_scoped f_scoped_uids].
  f_equal. destruct (c_scoped cmd); reflexivity.
Qed.

Lemma f_type_facts_at rd cfg cmd nerr id : f_type (facts_at rd cfg cmd nerr id) = classify (c_type cmd).
Proof. reflexivity. Qed.

Lemma group_outcome_is_batch1 rd cfg c : batched_group c = true ->
  group_outcome rd cfg c = batch_outcome1 rd cfg c.
Proof.
  intro H. unfold batch_outcome1, group_outcome. rewrite H. cbn [orb].
  pose proof (batched_group_type c H) as Ht.
  unfold batch_out, facts_batch. rewrite Ht. change (channelTypeGroup =? channelTypePerson) with false.
  cbv iota. f_equal. unfold decide_batch. rewrite batchable_facts_at.
  unfold batched_group in H. apply andb_true_iff in H. destruct H as [-> _].
  rewrite f_type_facts_at, Ht, classify_group. reflexivity.
Qed.

Lemma person_outcome_is_batch1 rd cfg c : batched_person c = true ->
  person_outcome rd cfg c = batch_outcome1 rd cfg c.
Proof.
  intro H. unfold batch_outcome1, person_outcome. rewrite H, orb_true_r.
  pose proof (batched_person_type c H) as Ht.
  unfold facts_batch. rewrite Ht, N.eqb_refl. f_equal.
  unfold decide_batch. rewrite batchable_facts_at.
  unfold batched_person in H. apply andb_true_iff in H. destruct H as [-> _].
  rewrite f_type_facts_at, Ht, classify_person. reflexivity.
Qed.

(* a SendBatch of any length and content decides every item as if it were alone *)
Lemma batch_outcomes_itemwise (rd : reader) (cfg : pcfg) (items : list pcmd) :
  batch_outcomes rd cfg items = map (batch_outcome1 rd cfg) items.
Proof.
  unfold batch_outcomes.
  set (reps := representatives [] items).
  rewrite checkGroupSendPermissionsBatch_correct
    by (apply Forall_forall; intros x Hx; apply filter_In in Hx; apply batched_group_type, Hx).
  rewrite checkPersonSendPermissionsBatch_correct
    by (apply Forall_forall; intros x Hx; apply filter_In in Hx; apply batched_person_type, Hx).
  apply map_ext_in. intros c Hc.
  assert (Hrep : In c reps).
  { destruct (representatives_complete items [] c Hc) as [[]|H]. exact H. }
  destruct (batched_group c) eqn:Eg.
  - rewrite lookup_map by (apply filter_In; split; assumption).
    apply group_outcome_is_batch1. exact Eg.
  - destruct (batched_person c) eqn:Ep.
    + rewrite lookup_map by (apply filter_In; split; assumption).
      apply person_outcome_is_batch1. exact Ep.
    + unfold batch_outcome1. rewrite Eg, Ep. reflexivity.
Qed.

(* ---- the key derivations coincide unless the permission id is itself a command channel ------------ *)

Lemma from_command_not x : IsCommandChannel x = false -> FromCommandChannel x = (x, false).
Proof. intro H. unfold FromCommandChannel. rewrite H. reflexivity. Qed.

(* group: same keys always; the channel id handed on differs only under C36-K1 *)
Lemma group_out_agree c : c_type c = channelTypeGroup -> cmd_permission_free c = false ->
  IsCommandChannel (group_id c) = false -> single_out c = c_chan c.
Proof.
  intros Ht Hf Hk. unfold single_out, single_id. rewrite Hf, Ht.
  change (channelTypeGroup =? channelTypePerson) with false. cbn [andb id_or_nil].
  unfold group_id in Hk.
  destruct (from_command_spec (c_chan c)) as [[_ E]|[_ [y [E Hx]]]]; rewrite E in *; cbn [fst snd] in *.
  - reflexivity.
  - unfold ToCommandChannel. rewrite Hk. symmetry. exact Hx.
Qed.

Lemma person_ids_agree c : c_type c = channelTypePerson ->
  match single_id c with Some id => IsCommandChannel id | None => false end = false ->
  person_batch_id c = single_id c.
Proof.
  intros Ht Hk. unfold person_batch_id, person_batch_normalized, person_batch_cid, single_id in *.
  rewrite Ht, N.eqb_refl in *. cbn [andb] in *.
  destruct (if c_norm c then NormalizePersonChannel (c_from c) (fst (FromCommandChannel (c_chan c)))
            else Some (fst (FromCommandChannel (c_chan c)))) as [nid|]; [|reflexivity].
  destruct (snd (FromCommandChannel (c_chan c))).
  - rewrite (from_to_command nid Hk). reflexivity.
  - rewrite (from_command_not nid Hk). reflexivity.
Qed.

Lemma person_out_agree c : c_type c = channelTypePerson -> cmd_permission_free c = false ->
  is_none (single_id c) = false -> batch_out c = single_out c.
Proof.
  intros Ht Hf Hn. unfold batch_out, single_out, person_batch_normalized, person_batch_cid, single_id in *.
  rewrite Hf. rewrite Ht, N.eqb_refl in *. cbn [andb] in *.
  destruct (if c_norm c then NormalizePersonChannel (c_from c) (fst (FromCommandChannel (c_chan c)))
            else Some (fst (FromCommandChannel (c_chan c)))) as [nid|]; [reflexivity|discriminate].
Qed.

Lemma cmd_batchable_not_free c : cmd_batchable c = true -> cmd_permission_free c = false.
Proof.
  unfold cmd_batchable, cmd_permission_free. intro H. apply andb_true_iff in H. destruct H as [H1 H2].
  apply negb_true_iff in H1. apply N.eqb_eq in H2. rewrite H1, H2. reflexivity.
Qed.

(* an outcome whose decision is not ok carries no channel *)
Lemma obs_of_not_ok ch ch' r : ok r = false -> obs_of (ch, r) = obs_of (ch', r).
Proof. intro H. unfold obs_of. rewrite H. reflexivity. Qed.

(* one item: SendBatch reports what Send reports, outside the two known divergences *)
Lemma batch1_agrees_single (rd : reader) (cfg : pcfg) (c : pcmd) :
  sig_k1 c = false -> k2_cond (facts_single rd cfg c) = false ->
  obs_of (batch_outcome1 rd cfg c) = obs_of (single_outcome rd cfg c).
Proof.
  intros Hk1 Hk2. unfold batch_outcome1.
  destruct (batched_group c) eqn:Eg; [|destruct (batched_person c) eqn:Ep]; cbn [orb]; [| |reflexivity].
  - (* group *)
    pose proof (batched_group_type c Eg) as Ht.
    assert (Hb : cmd_batchable c = true) by (unfold batched_group in Eg; apply andb_true_iff in Eg; apply Eg).
    assert (Hfacts : facts_batch rd cfg c = facts_single rd cfg c).
    { unfold facts_batch, facts_single, single_id, group_id. rewrite Ht.
      change (channelTypeGroup =? channelTypePerson) with false. reflexivity. }
    rewrite Hfacts. unfold single_outcome.
    rewrite (paths_agree _ Hk2). fold (decide_single (facts_single rd cfg c)).
    assert (Hid : IsCommandChannel (group_id c) = false).
    { unfold sig_k1 in Hk1. rewrite Hb, Ht in Hk1.
      change ((channelTypeGroup =? channelTypeGroup) || (channelTypeGroup =? channelTypePerson)) with true in Hk1.
      cbn [andb] in Hk1. unfold single_id in Hk1. rewrite Ht in Hk1.
      change (channelTypeGroup =? channelTypePerson) with false in Hk1. exact Hk1. }
    unfold batch_out. rewrite Ht. change (channelTypeGroup =? channelTypePerson) with false. cbv iota.
    rewrite (group_out_agree c Ht (cmd_batchable_not_free c Hb) Hid). reflexivity.
  - (* person *)
    pose proof (batched_person_type c Ep) as Ht.
    assert (Hb : cmd_batchable c = true) by (unfold batched_person in Ep; apply andb_true_iff in Ep; apply Ep).
    assert (Hid : match single_id c with Some id => IsCommandChannel id | None => false end = false).
    { unfold sig_k1 in Hk1. rewrite Hb, Ht in Hk1.
      change ((channelTypePerson =? channelTypeGroup) || (channelTypePerson =? channelTypePerson)) with true in Hk1.
      exact Hk1. }
    assert (Hfacts : facts_batch rd cfg c = facts_single rd cfg c).
    { unfold facts_batch, facts_single. rewrite Ht, N.eqb_refl.
      rewrite (person_ids_agree c Ht Hid). reflexivity. }
    rewrite Hfacts. unfold single_outcome.
    rewrite (paths_agree _ Hk2). fold (decide_single (facts_single rd cfg c)).
    destruct (is_none (single_id c)) eqn:En.
    + (* normalisation failed: no channel is reported *)
      apply obs_of_not_ok.
      unfold decide_single, checkSendPermission, permission_free, facts_single, facts_at.
      cbn [f_request_scoped f_scoped_uids f_chan_empty f_type f_norm f_norm_err].
      unfold cmd_batchable in Hb. apply andb_true_iff in Hb. destruct Hb as [H1 H2].
      apply negb_true_iff in H1. apply N.eqb_eq in H2. rewrite H1, H2, En.
      rewrite Ht, classify_person.
      assert (Hn : c_norm c = true).
      { unfold single_id in En. rewrite Ht, N.eqb_refl in En. destruct (c_norm c); [reflexivity|discriminate]. }
      rewrite Hn. reflexivity.
    + rewrite (person_out_agree c Ht (cmd_batchable_not_free c Hb) En). reflexivity.
Qed.

(* every item of every batch *)
Lemma batch_agrees_single (rd : reader) (cfg : pcfg) (items : list pcmd) :
  (forall c, In c items -> sig_k1 c = false /\ k2_cond (facts_single rd cfg c) = false) ->
  map obs_of (batch_outcomes rd cfg items) = map (fun c => obs_of (single_outcome rd cfg c)) items.
Proof.
  intro H. rewrite batch_outcomes_itemwise, map_map.
  apply map_ext_in. intros c Hc. destruct (H c Hc) as [H1 H2].
  apply batch1_agrees_single; assumption.
Qed.

(* ---- the two divergences are real (witnesses replayed on the code: corpus/C36/k*.json) ----------- *)

Definition hs (s : string) : bytes := map (fun a => N_of_ascii a) (list_ascii_of_string s).

(* C36-K1, person: a@b____cmd____cmd sent by a; b has a in its denylist, b____cmd has not *)
Definition k1_cmd : pcmd := PCmd (hs "a") (hs "d") (hs "a@b____cmd____cmd") channelTypePerson false false 0.
Definition k1_reader : reader :=
  fun r => if pread_eqb r (containsRead 1 channelTypePerson (hs "b") channelTypePerson (hs "a"))
           then RR false false false false false true false else zero_result.
Definition k1_cfg : pcfg := PCfg [] [] false.

Lemma k1_refuted :
  sig_k1 k1_cmd = true
  /\ obs_of (single_outcome k1_reader k1_cfg k1_cmd) = Obs ReasonSuccess 0 (Some (hs "a@b____cmd"))
  /\ map obs_of (batch_outcomes k1_reader k1_cfg [k1_cmd]) = [Obs ReasonInBlacklist 0 None].
Proof. vm_compute. repeat split. Qed.

(* C36-K1, group: g____cmd____cmd is handed on as g____cmd by Send, unchanged by SendBatch *)
Definition k1g_cmd : pcmd := PCmd (hs "a") (hs "d") (hs "g____cmd____cmd") channelTypeGroup false false 0.
Definition k1g_reader : reader := fun r => RR true false false false false (negb (rd_list r =? 1)) false.

Lemma k1_group_refuted :
  sig_k1 k1g_cmd = true
  /\ obs_of (single_outcome k1g_reader k1_cfg k1g_cmd) = Obs ReasonSuccess 0 (Some (hs "g____cmd"))
  /\ map obs_of (batch_outcomes k1g_reader k1_cfg [k1g_cmd]) = [Obs ReasonSuccess 0 (Some (hs "g____cmd____cmd"))].
Proof. vm_compute. repeat split. Qed.

(* C36-K2: undecodable person id "peer", sender send-banned *)
Definition k2_cmd : pcmd := PCmd (hs "a") (hs "d") (hs "peer") channelTypePerson false false 0.
Definition k2_reader : reader :=
  fun r => if pread_eqb r (chanRead (hs "a") channelTypePerson)
           then RR true true false false false false false else zero_result.

Lemma k2_refuted :
  sig_k1 k2_cmd = false /\ k2_cond (facts_single k2_reader k1_cfg k2_cmd) = true
  /\ obs_of (single_outcome k2_reader k1_cfg k2_cmd) = Obs ReasonSendBan 0 None
  /\ map obs_of (batch_outcomes k2_reader k1_cfg [k2_cmd]) = [Obs ReasonSuccess 2 None].
Proof. vm_compute. repeat split. Qed.
