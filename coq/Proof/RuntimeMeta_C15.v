(* Proof/RuntimeMeta_C15.v — the operations of Model/RuntimeMeta_C15.v keep every
   stored row normalized, replace a row only by one that advances it (unless the
   op deletes the key), leave the store untouched when they report a rejection,
   and never accept a regressing candidate; hence the model's traces satisfy
   C15_monitor and the advance relation holds between any two points of a
   history without a delete of the row. *)
From WK Require Import Base.Base.
From WK Require Import Gen.Consts_C15 Model.RuntimeMeta Model.RuntimeMeta_C15 Proof.RuntimeMeta.
Open Scope N_scope.

(* ---- invariant and row relation ------------------------------------------------ *)

Definition store_normalized (s : rm_store) : Prop :=
  forall k m, store_get s k = Some m -> rm_normalized m.

Lemma store_normalized_nil : store_normalized [].
Proof. intros k m H. discriminate. Qed.

Lemma store_normalized_put s k m :
  store_normalized s -> rm_normalized m -> store_normalized (store_put s k m).
Proof.
  intros Hs Hm k' m' H. rewrite store_get_put in H.
  destruct (rm_key_eqb k k'); [inversion H; subst; exact Hm|exact (Hs _ _ H)].
Qed.

Lemma store_normalized_del s k : store_normalized s -> store_normalized (store_del s k).
Proof.
  intros Hs k' m' H. rewrite store_get_del in H.
  destruct (rm_key_eqb k k'); [discriminate|exact (Hs _ _ H)].
Qed.

(* a row before and after a step that does not delete its key *)
Definition row_rel (a b : option runtime_meta) : Prop :=
  match a, b with
  | Some a, Some b => advances a b
  | Some _, None => False
  | None, _ => True
  end.

Lemma row_step_ok_iff a b : row_step_ok false a b = true <-> row_rel a b.
Proof.
  unfold row_step_ok, row_rel. destruct a as [a|], b as [b|]; try tauto.
  - apply runtime_meta_advances_iff.
  - split; [discriminate|contradiction].
Qed.

Lemma row_rel_refl a : row_rel a a.
Proof. destruct a as [a|]; cbn; [apply advances_refl|exact I]. Qed.

Lemma row_rel_trans a b c : row_rel a b -> row_rel b c -> row_rel a c.
Proof.
  destruct a as [a|], b as [b|], c as [c|]; cbn; try tauto.
  apply advances_trans.
Qed.

(* [put] seen from every key *)
Lemma row_rel_put s k0 next :
  row_rel (store_get s k0) (Some next) ->
  forall k, row_rel (store_get s k) (store_get (store_put s k0 next) k).
Proof.
  intros H k. rewrite store_get_put. destruct (rm_key_eqb k0 k) eqn:E.
  - apply rm_key_eqb_eq in E. subst k. exact H.
  - apply row_rel_refl.
Qed.

(* ---- the shared upsert core ------------------------------------------------------ *)

Definition resolve_at (w : rm_store) (k : rm_key) (m : runtime_meta) : runtime_meta * N :=
  match store_get w k with
  | Some existing => resolveMonotonicChannelRuntimeMeta existing true m
  | None => resolveMonotonicChannelRuntimeMeta runtime_meta_zero false m
  end.

Lemma resolve_at_accept w k m next result :
  store_normalized w ->
  resolve_at w k m = (next, result) ->
  (result =? MonotonicIgnoredStale) = false -> (result =? MonotonicConflict) = false ->
  rm_normalized next /\ row_rel (store_get w k) (Some next)
  /\ (forall stored, store_get w k = Some stored -> candidate_not_regressing stored m = true).
Proof.
  intros Hw Hres Hs Hc. unfold resolve_at in Hres.
  apply N.eqb_neq in Hs. apply N.eqb_neq in Hc.
  destruct (store_get w k) as [ex|] eqn:Hget.
  - destruct (resolve_rejected _ _ _ _ Hres) as [-> | [[-> | ->] _]]; try contradiction.
    destruct (resolve_applied ex m next (Hw _ _ Hget) Hres) as (Hadv & Hcnr & Hn & _).
    split; [exact Hn|]. split; [exact Hadv|].
    intros stored E. inversion E; subst. exact Hcnr.
  - rewrite resolve_absent in Hres. inversion Hres; subst.
    split; [apply normalize_normalized|]. split; [exact I|]. intros stored E. discriminate.
Qed.

(* ---- retention advance ------------------------------------------------------------ *)

Lemma advance_retention_facts w hash_slot req e w' :
  store_normalized w -> advance_retention w hash_slot req = (e, w') ->
  store_normalized w' /\ (forall k, row_rel (store_get w k) (store_get w' k))
  /\ (e <> ENone -> w' = w).
Proof.
  intros Hw. unfold advance_retention.
  destruct (store_get w (advance_key hash_slot req)) as [ex|] eqn:Hget.
  2:{ intro H. inversion H; subst. split; [exact Hw|]. split; [intro k; apply row_rel_refl|reflexivity]. }
  destruct (negb (retentionAdvanceMatches ex req)).
  { intro H. inversion H; subst. split; [exact Hw|]. split; [intro k; apply row_rel_refl|reflexivity]. }
  destruct (ra_retention_through_seq req <=? rm_retention_through_seq ex) eqn:Hle.
  { intro H. inversion H; subst. split; [exact Hw|]. split; [intro k; apply row_rel_refl|reflexivity]. }
  apply N.leb_gt in Hle. intro H. inversion H; subst.
  destruct (advanceRetentionRow_advances ex req (Hw _ _ Hget) Hle) as [Hadv Hn].
  split; [apply store_normalized_put; assumption|]. split.
  - apply row_rel_put. rewrite Hget. exact Hadv.
  - intro C. contradiction.
Qed.

(* ---- one staged op ------------------------------------------------------------------ *)

Lemma bop_apply_facts w b w1 created :
  store_normalized w -> bop_apply w b = (ENone, w1, created) ->
  store_normalized w1 /\ (forall k, bop_deletes k b = false -> row_rel (store_get w k) (store_get w1 k)).
Proof.
  intros Hw. destruct b as [hs m|hs m|k0|hs req]; cbn [bop_apply bop_deletes].
  - fold (resolve_at w (meta_key hs m) m).
    destruct (resolve_at w (meta_key hs m) m) as [next result] eqn:Hres.
    destruct (result =? MonotonicIgnoredStale) eqn:Hs.
    { intro H. inversion H; subst. split; [exact Hw|]. intros k _. apply row_rel_refl. }
    destruct (result =? MonotonicConflict) eqn:Hc; [discriminate|].
    intro H. inversion H; subst.
    destruct (resolve_at_accept _ _ _ _ _ Hw Hres Hs Hc) as (Hn & Hrel & _).
    split; [apply store_normalized_put; assumption|]. intros k _. apply row_rel_put. exact Hrel.
  - destruct (store_get w (meta_key hs (normalizeChannelRuntimeMeta m))) eqn:Hget.
    { intro H. inversion H; subst. split; [exact Hw|]. intros k _. apply row_rel_refl. }
    intro H. inversion H; subst.
    split; [apply store_normalized_put; [exact Hw|apply normalize_normalized]|].
    intros k _. apply row_rel_put. rewrite Hget. exact I.
  - intro H. inversion H; subst. split; [apply store_normalized_del; exact Hw|].
    intros k Hk. rewrite store_get_del, Hk. apply row_rel_refl.
  - destruct (advance_retention w hs req) as [e w'] eqn:Hadv.
    intro H. inversion H; subst.
    destruct (advance_retention_facts _ _ _ _ _ Hw Hadv) as (Hn & Hrel & _).
    split; [exact Hn|]. intros k _. apply Hrel.
Qed.

(* ---- the Build loop --------------------------------------------------------------------- *)

Lemma batch_build_facts : forall ops w w' cs,
  store_normalized w -> batch_build w ops = (ENone, w', cs) ->
  store_normalized w'
  /\ (forall k, existsb (bop_deletes k) ops = false -> row_rel (store_get w k) (store_get w' k)).
Proof.
  induction ops as [|b r IH]; intros w w' cs Hw.
  - cbn [batch_build]. intro H. inversion H; subst. split; [exact Hw|]. intros k _. apply row_rel_refl.
  - cbn [batch_build existsb].
    destruct (negb (db_err_eqb (bop_stage_err b) ENone)).
    + destruct (batch_build w r) as [[e w2] cs2] eqn:Hr. intro H. inversion H; subst.
      destruct (IH _ _ _ Hw Hr) as [Hn Hrel]. split; [exact Hn|].
      intros k Hk. apply orb_false_iff in Hk. destruct Hk as [_ Hk]. apply Hrel. exact Hk.
    + destruct (bop_apply w b) as [[e w1] created] eqn:Hb.
      destruct e; cbn [db_err_eqb negb]; try (intro H; inversion H; fail).
      destruct (batch_build w1 r) as [[e' w2] cs2] eqn:Hr. intro H. inversion H; subst.
      destruct (bop_apply_facts _ _ _ _ Hw Hb) as [Hn1 Hrel1].
      destruct (IH _ _ _ Hn1 Hr) as [Hn2 Hrel2]. split; [exact Hn2|].
      intros k Hk. apply orb_false_iff in Hk. destruct Hk as [Hk1 Hk2].
      eapply row_rel_trans; [apply Hrel1; exact Hk1|apply Hrel2; exact Hk2].
Qed.

(* ---- one public operation ------------------------------------------------------------------ *)

Record step_facts (s : rm_store) (op : c15_op) (o : c15_obs) (s' : rm_store) : Prop := StepFacts {
  sf_normalized : store_normalized s';
  sf_rows : forall k, op_deletes op k = false -> row_rel (store_get s k) (store_get s' k);
  sf_rejected : obs_rejected o = true -> s' = s;
  sf_applied : forall hash_slot m stored,
      op = OpUpsert hash_slot m -> o = ObsUpsert MonotonicApplied ENone ->
      store_get s (meta_key hash_slot m) = Some stored -> candidate_not_regressing stored m = true }.

Lemma unchanged_facts s op o :
  store_normalized s ->
  (forall hash_slot m, op = OpUpsert hash_slot m -> o <> ObsUpsert MonotonicApplied ENone) ->
  step_facts s op o s.
Proof.
  intros Hs Hno. constructor; auto.
  - intros k _. apply row_rel_refl.
  - intros hs m stored E1 E2. exfalso. exact (Hno _ _ E1 E2).
Qed.

Lemma c15_step_facts s op o s' :
  store_normalized s -> c15_step s op = (o, s') -> step_facts s op o s'.
Proof.
  pose proof monotonic_results_distinct as (D1 & D2 & D3 & D4).
  intros Hs. destruct op as [hs m|k0|hs req|ops]; cbn [c15_step].
  - (* Shard.UpsertChannelRuntimeMeta *)
    unfold shard_upsert.
    destruct (negb (validateChannelRuntimeMeta m)).
    { intro H. inversion H; subst. apply unchanged_facts; [exact Hs|].
      intros ? ? _ C; inversion C; congruence. }
    fold (resolve_at s (meta_key hs m) m).
    destruct (resolve_at s (meta_key hs m) m) as [next result] eqn:Hres.
    destruct (result =? MonotonicIgnoredStale) eqn:Hst.
    { apply N.eqb_eq in Hst. intro H. inversion H; subst. apply unchanged_facts; [exact Hs|].
      intros ? ? _ C; inversion C; congruence. }
    destruct (result =? MonotonicConflict) eqn:Hc.
    { intro H. inversion H; subst. apply unchanged_facts; [exact Hs|].
      intros ? ? _ C; inversion C. }
    intro H. inversion H; subst.
    destruct (resolve_at_accept _ _ _ _ _ Hs Hres Hst Hc) as (Hn & Hrel & Hcnr).
    constructor.
    + apply store_normalized_put; assumption.
    + intros k _. apply row_rel_put. exact Hrel.
    + cbn [obs_rejected db_err_eqb negb]. rewrite N.eqb_refl. discriminate.
    + intros hs' m' stored E _ Hget. inversion E; subst. apply Hcnr. exact Hget.
  - (* Shard.DeleteChannelRuntimeMeta *)
    unfold shard_delete.
    destruct (negb (validateKeyString (k_channel_id k0))).
    { intro H. inversion H; subst. apply unchanged_facts; [exact Hs|]. intros; discriminate. }
    destruct (store_get s k0) eqn:Hget.
    2:{ intro H. inversion H; subst. apply unchanged_facts; [exact Hs|]. intros; discriminate. }
    intro H. inversion H; subst. constructor.
    + apply store_normalized_del. exact Hs.
    + cbn [op_deletes]. intros k Hk. rewrite store_get_del, Hk. apply row_rel_refl.
    + cbn. discriminate.
    + intros; discriminate.
  - (* Shard.AdvanceChannelRetentionThroughSeq *)
    unfold shard_advance.
    destruct (negb (validateKeyString (ra_channel_id req))).
    { intro H. inversion H; subst. apply unchanged_facts; [exact Hs|]. intros; discriminate. }
    destruct (advance_retention s hs req) as [e w'] eqn:Hadv.
    intro H. inversion H; subst.
    destruct (advance_retention_facts _ _ _ _ _ Hs Hadv) as (Hn & Hrel & Hrej).
    constructor; auto.
    + cbn [obs_rejected]. intro C. apply Hrej. intro E. subst e. discriminate.
    + intros; discriminate.
  - (* WriteBatch *)
    unfold write_batch.
    destruct (batch_build s ops) as [[e w] created] eqn:Hb.
    destruct e; cbn [db_err_eqb];
      try (intro H; inversion H; subst; apply unchanged_facts; [exact Hs|intros; discriminate]).
    intro H. inversion H; subst.
    destruct (batch_build_facts _ _ _ _ Hs Hb) as [Hn Hrel].
    constructor; auto.
    + cbn. discriminate.
    + intros; discriminate.
Qed.

(* ---- snapshots --------------------------------------------------------------------------------- *)

Lemma snapshot_get_snapshot keys s k stored :
  snapshot_get keys (snapshot keys s) k = Some stored -> store_get s k = Some stored.
Proof.
  induction keys as [|k' r IH]; cbn [snapshot snapshot_get map]; [discriminate|].
  destruct (rm_key_eqb k' k) eqn:E.
  - apply rm_key_eqb_eq in E. subst k'. auto.
  - exact IH.
Qed.

Lemma snapshot_eqb_refl l : snapshot_eqb l l = true.
Proof.
  induction l as [|a r IH]; [reflexivity|].
  unfold snapshot_eqb in *. cbn [list_eqb]. rewrite IH.
  destruct a as [a|]; cbn [option_eqb]; [rewrite runtime_meta_eqb_refl|]; reflexivity.
Qed.

Lemma rows_step_ok_snapshot op s s' :
  (forall k, op_deletes op k = false -> row_rel (store_get s k) (store_get s' k)) ->
  forall keys, rows_step_ok op keys (snapshot keys s) (snapshot keys s') = true.
Proof.
  intros Hrel. induction keys as [|k r IH]; [reflexivity|].
  cbn [snapshot map rows_step_ok]. fold (snapshot r s). fold (snapshot r s'). rewrite IH.
  rewrite andb_true_r. unfold row_step_ok at 1.
  destruct (op_deletes op k) eqn:Hd; [reflexivity|].
  apply (row_step_ok_iff (store_get s k) (store_get s' k)). apply Hrel. exact Hd.
Qed.

Lemma step_ok_model keys s op o s' :
  step_facts s op o s' -> step_ok keys (snapshot keys s) (op, o, snapshot keys s') = true.
Proof.
  intros [Hn Hrows Hrej Happ]. unfold step_ok.
  apply andb_true_iff. split; [apply andb_true_iff; split|].
  - apply rows_step_ok_snapshot. exact Hrows.
  - destruct (obs_rejected o) eqn:Hr; [|reflexivity].
    cbn [negb orb]. rewrite (Hrej eq_refl). apply snapshot_eqb_refl.
  - unfold applied_upsert_ok. destruct op as [hs m| | |]; try reflexivity.
    destruct o as [r e| |]; try reflexivity.
    destruct ((r =? MonotonicApplied) && db_err_eqb e ENone) eqn:Hok; [|reflexivity].
    apply andb_true_iff in Hok. destruct Hok as [Hr He]. apply N.eqb_eq in Hr. subst r.
    destruct e; try discriminate.
    destruct (snapshot_get keys (snapshot keys s) (meta_key hs m)) as [stored|] eqn:Hg; [|reflexivity].
    apply snapshot_get_snapshot in Hg. apply (Happ hs m stored eq_refl eq_refl Hg).
Qed.

Lemma history_ok_model keys : forall ops s,
  store_normalized s -> history_ok keys (snapshot keys s) (c15_run keys s ops) = true.
Proof.
  induction ops as [|op r IH]; intros s Hs; [reflexivity|].
  cbn [c15_run]. destruct (c15_step s op) as [o s'] eqn:Hstep.
  pose proof (c15_step_facts _ _ _ _ Hs Hstep) as Hf.
  cbn [history_ok snd]. rewrite (step_ok_model keys _ _ _ _ Hf). cbn [andb].
  apply IH. exact (sf_normalized _ _ _ _ Hf).
Qed.

Lemma snapshot_nil keys : snapshot keys [] = map (fun _ => None) keys.
Proof. unfold snapshot. apply map_ext. intro k. reflexivity. Qed.

(* ---- monitor on model traces --------------------------------------------------------------------- *)

Lemma history_model_satisfies_monitor keys ops :
  C15_monitor (C15History keys (c15_run keys [] ops)) = 0.
Proof.
  cbn [C15_monitor]. rewrite <- snapshot_nil.
  rewrite (history_ok_model keys ops [] store_normalized_nil). reflexivity.
Qed.

Lemma resolve_normalizes_existing ex c :
  resolveMonotonicChannelRuntimeMeta ex true c
  = resolveMonotonicChannelRuntimeMeta (normalizeChannelRuntimeMeta ex) true c.
Proof. unfold resolveMonotonicChannelRuntimeMeta. rewrite normalize_idem. reflexivity. Qed.

Lemma resolve_model_satisfies_monitor ex exists_ c :
  C15_monitor (C15Resolve ex exists_ c (normalizeChannelRuntimeMeta ex) (normalizeChannelRuntimeMeta c)
                 (fst (resolveMonotonicChannelRuntimeMeta ex exists_ c))
                 (snd (resolveMonotonicChannelRuntimeMeta ex exists_ c))
                 (validateChannelRuntimeMeta c)) = 0.
Proof.
  pose proof monotonic_results_distinct as (D1 & D2 & D3 & D4).
  cbn [C15_monitor]. unfold resolve_ok.
  destruct exists_; cbn [negb].
  2:{ rewrite resolve_absent. cbn [snd]. rewrite N.eqb_refl. reflexivity. }
  rewrite resolve_normalizes_existing.
  destruct (resolveMonotonicChannelRuntimeMeta (normalizeChannelRuntimeMeta ex) true c)
    as [next result] eqn:Hres.
  cbn [fst snd].
  destruct (resolve_rejected _ _ _ _ Hres) as [-> | [Hr Hnext]].
  - rewrite N.eqb_refl.
    destruct (resolve_applied _ c next (normalize_normalized ex) Hres) as (Hadv & Hcnr & _).
    apply runtime_meta_advances_iff in Hadv. rewrite Hadv, Hcnr. reflexivity.
  - rewrite normalize_idem in Hnext. subst next.
    assert (E : (result =? MonotonicApplied) = false).
    { apply N.eqb_neq. destruct Hr as [-> | ->]; congruence. }
    rewrite E.
    assert (E2 : (result =? MonotonicIgnoredStale) || (result =? MonotonicConflict) = true).
    { destruct Hr as [-> | ->]; rewrite N.eqb_refl; [reflexivity|apply orb_true_r]. }
    rewrite E2, runtime_meta_eqb_refl. reflexivity.
Qed.

(* ---- arbitrary histories ----------------------------------------------------------------------------- *)

Lemma c15_exec_normalized : forall ops s, store_normalized s -> store_normalized (c15_exec s ops).
Proof.
  induction ops as [|op r IH]; intros s Hs; [exact Hs|].
  cbn [c15_exec]. destruct (c15_step s op) as [o s'] eqn:Hstep. cbn [snd].
  apply IH. exact (sf_normalized _ _ _ _ (c15_step_facts _ _ _ _ Hs Hstep)).
Qed.

Lemma c15_exec_app : forall a b s, c15_exec s (a ++ b) = c15_exec (c15_exec s a) b.
Proof. induction a as [|op r IH]; intros b s; [reflexivity|]. cbn [app c15_exec]. apply IH. Qed.

(* between two points of a history that does not delete key k in between, the
   row of k stays present and advances *)
Lemma history_advances_from : forall ops s k a,
  store_normalized s -> store_get s k = Some a ->
  (forall op, In op ops -> op_deletes op k = false) ->
  exists b, store_get (c15_exec s ops) k = Some b /\ advances a b.
Proof.
  induction ops as [|op r IH]; intros s k a Hs Hget Hnd.
  - exists a. split; [exact Hget|apply advances_refl].
  - cbn [c15_exec]. destruct (c15_step s op) as [o s'] eqn:Hstep. cbn [snd].
    pose proof (c15_step_facts _ _ _ _ Hs Hstep) as Hf.
    pose proof (sf_rows _ _ _ _ Hf k (Hnd op (or_introl eq_refl))) as Hrel.
    rewrite Hget in Hrel. destruct (store_get s' k) as [b1|] eqn:Hget'; [|contradiction].
    cbn [row_rel] in Hrel.
    destruct (IH s' k b1 (sf_normalized _ _ _ _ Hf) Hget'
                 (fun op' Hin => Hnd op' (or_intror Hin))) as (b & Hb & Hadv).
    exists b. split; [exact Hb|]. eapply advances_trans; eassumption.
Qed.

Lemma history_advances pre ops k a b :
  store_get (c15_exec [] pre) k = Some a ->
  (forall op, In op ops -> op_deletes op k = false) ->
  store_get (c15_exec [] (pre ++ ops)) k = Some b ->
  advances a b.
Proof.
  intros Ha Hnd Hb. rewrite c15_exec_app in Hb.
  destruct (history_advances_from ops (c15_exec [] pre) k a
              (c15_exec_normalized pre [] store_normalized_nil) Ha Hnd) as (b' & Hb' & Hadv).
  rewrite Hb' in Hb. inversion Hb; subst. exact Hadv.
Qed.

(* a rejected operation changes nothing (any store, normalized or not) *)
Lemma rejected_unchanged s op o s' :
  c15_step s op = (o, s') -> obs_rejected o = true -> s' = s.
Proof.
  pose proof monotonic_results_distinct as (D1 & D2 & D3 & D4).
  destruct op as [hs m|k0|hs req|ops]; cbn [c15_step].
  - unfold shard_upsert. destruct (negb (validateChannelRuntimeMeta m)).
    { intro H. inversion H; subst. reflexivity. }
    destruct (match store_get s (meta_key hs m) with
              | Some existing => resolveMonotonicChannelRuntimeMeta existing true m
              | None => resolveMonotonicChannelRuntimeMeta runtime_meta_zero false m
              end) as [next result].
    destruct (result =? MonotonicIgnoredStale); [intro H; inversion H; subst; reflexivity|].
    destruct (result =? MonotonicConflict); [intro H; inversion H; subst; reflexivity|].
    intro H. inversion H; subst. cbn [obs_rejected db_err_eqb negb]. rewrite N.eqb_refl. discriminate.
  - unfold shard_delete. destruct (negb (validateKeyString (k_channel_id k0))).
    { intro H. inversion H; subst. reflexivity. }
    destruct (store_get s k0); intro H; inversion H; subst; [cbn; discriminate|reflexivity].
  - unfold shard_advance. destruct (negb (validateKeyString (ra_channel_id req))).
    { intro H. inversion H; subst. reflexivity. }
    unfold advance_retention.
    destruct (store_get s (advance_key hs req)) as [ex|].
    2:{ intro H. inversion H; subst. reflexivity. }
    destruct (negb (retentionAdvanceMatches ex req)); [intro H; inversion H; subst; reflexivity|].
    destruct (ra_retention_through_seq req <=? rm_retention_through_seq ex);
      intro H; inversion H; subst; [reflexivity|cbn; discriminate].
  - unfold write_batch. destruct (batch_build s ops) as [[e w] created].
    destruct e; cbn [db_err_eqb]; intro H; inversion H; subst; try reflexivity.
    cbn. discriminate.
Qed.

(* a direct upsert whose candidate regresses against the stored row is rejected *)
Lemma regressing_upsert_rejected pre hash_slot m stored :
  let s := c15_exec [] pre in
  store_get s (meta_key hash_slot m) = Some stored ->
  candidate_not_regressing stored m = false ->
  obs_rejected (fst (shard_upsert s hash_slot m)) = true /\ snd (shard_upsert s hash_slot m) = s.
Proof.
  intros s Hget Hreg.
  destruct (shard_upsert s hash_slot m) as [o s'] eqn:Hstep. cbn [fst snd].
  assert (Hs : store_normalized s) by (apply c15_exec_normalized, store_normalized_nil).
  pose proof (c15_step_facts s (OpUpsert hash_slot m) o s' Hs Hstep) as Hf.
  destruct (obs_rejected o) eqn:Hr.
  - split; [reflexivity|]. apply (sf_rejected _ _ _ _ Hf Hr).
  - exfalso. destruct o as [r e| |]; cbn [obs_rejected] in Hr.
    + apply orb_false_iff in Hr. destruct Hr as [Hr1 Hr2].
      apply negb_false_iff in Hr1. apply N.eqb_eq in Hr1. subst r.
      apply negb_false_iff in Hr2. destruct e; try discriminate.
      rewrite (sf_applied _ _ _ _ Hf hash_slot m stored eq_refl eq_refl Hget) in Hreg. discriminate.
    + unfold shard_upsert in Hstep.
      destruct (negb (validateChannelRuntimeMeta m)); [discriminate|].
      destruct (match store_get s (meta_key hash_slot m) with
                | Some existing => resolveMonotonicChannelRuntimeMeta existing true m
                | None => resolveMonotonicChannelRuntimeMeta runtime_meta_zero false m
                end) as [next result].
      destruct (result =? MonotonicIgnoredStale); [discriminate|].
      destruct (result =? MonotonicConflict); discriminate.
    + unfold shard_upsert in Hstep.
      destruct (negb (validateChannelRuntimeMeta m)); [discriminate|].
      destruct (match store_get s (meta_key hash_slot m) with
                | Some existing => resolveMonotonicChannelRuntimeMeta existing true m
                | None => resolveMonotonicChannelRuntimeMeta runtime_meta_zero false m
                end) as [next result].
      destruct (result =? MonotonicIgnoredStale); [discriminate|].
      destruct (result =? MonotonicConflict); discriminate.
Qed.

(* ---- the clauses of the property, over arbitrary histories ------------------------------------------ *)

Section Clauses.
  (* row [a] of key k after the history [pre]; row [b] of k after [pre ++ ops];
     no op of [ops] deletes k *)
  Variables (pre ops : list c15_op) (k : rm_key) (a b : runtime_meta).
  Hypothesis Ha : store_get (c15_exec [] pre) k = Some a.
  Hypothesis Hnd : forall op, In op ops -> op_deletes op k = false.
  Hypothesis Hb : store_get (c15_exec [] (pre ++ ops)) k = Some b.

  Lemma clause_advances : runtime_meta_advances a b = true.
  Proof. apply runtime_meta_advances_iff. exact (history_advances pre ops k a b Ha Hnd Hb). Qed.

  Lemma clause_epochs :
    rm_channel_epoch a < rm_channel_epoch b
    \/ (rm_channel_epoch a = rm_channel_epoch b /\ rm_leader_epoch a <= rm_leader_epoch b).
  Proof. exact (adv_epochs _ _ (history_advances pre ops k a b Ha Hnd Hb)). Qed.

  Lemma clause_same_epochs :
    rm_channel_epoch a = rm_channel_epoch b -> rm_leader_epoch a = rm_leader_epoch b ->
    rm_leader a = rm_leader b /\ (rm_lease_until_ms a <= rm_lease_until_ms b)%Z.
  Proof. exact (adv_same_epochs _ _ (history_advances pre ops k a b Ha Hnd Hb)). Qed.

  Lemma clause_retention_fence :
    rm_retention_through_seq a <= rm_retention_through_seq b
    /\ rm_write_fence_version a <= rm_write_fence_version b.
  Proof.
    pose proof (history_advances pre ops k a b Ha Hnd Hb) as H.
    split; [exact (adv_retention _ _ H)|exact (adv_fence _ _ H)].
  Qed.

  Lemma clause_route_generation :
    rm_route_generation a <= rm_route_generation b
    /\ (runtimeRouteChanged a b = true -> rm_route_generation a <> u64max ->
        rm_route_generation a < rm_route_generation b).
  Proof.
    pose proof (history_advances pre ops k a b Ha Hnd Hb) as H.
    split; [exact (adv_route_generation _ _ H)|].
    intros Hch Hmax. destruct (adv_route_strict _ _ H Hch) as [Hlt|Heq]; [exact Hlt|contradiction].
  Qed.
End Clauses.

(* pure-function level, no hypothesis on the stored row *)
Lemma resolve_applied_advances ex c next :
  resolveMonotonicChannelRuntimeMeta ex true c = (next, MonotonicApplied) ->
  runtime_meta_advances (normalizeChannelRuntimeMeta ex) next = true
  /\ candidate_not_regressing (normalizeChannelRuntimeMeta ex) c = true.
Proof.
  rewrite resolve_normalizes_existing. intro H.
  destruct (resolve_applied _ c next (normalize_normalized ex) H) as (Hadv & Hcnr & _).
  split; [apply runtime_meta_advances_iff; exact Hadv|exact Hcnr].
Qed.

Lemma resolve_rejected_returns_stored ex c next result :
  resolveMonotonicChannelRuntimeMeta ex true c = (next, result) -> result <> MonotonicApplied ->
  (result = MonotonicIgnoredStale \/ result = MonotonicConflict)
  /\ next = normalizeChannelRuntimeMeta ex.
Proof.
  intros H Hne. destruct (resolve_rejected _ _ _ _ H) as [E|E]; [contradiction|exact E].
Qed.

Lemma reachable_rows_normalized pre k m :
  store_get (c15_exec [] pre) k = Some m -> normalizeChannelRuntimeMeta m = m.
Proof.
  intro H. apply normalized_fixed.
  exact (c15_exec_normalized pre [] store_normalized_nil k m H).
Qed.

(* ---- concrete rows for the Examples of Properties/C15.v ------------------------------------------------ *)

(* channel "g1" type 2, epochs (ce, le), route generation rg, leader ldr, lease *)
Definition example_row (ce le rg ldr : N) (lease : Z) : runtime_meta :=
  RuntimeMeta (hx "6731") 2%Z ce le rg [1; 2; 3] [1; 2] ldr 1%Z 0 0 lease 5 0%Z [] 0 0 0%Z 0.
Definition example_key : rm_key := RmKey 3 (hx "6731") 2%Z.
