(* Proof/ChanAppend_monitor_pure.v — the property monitor of the "coal" cases accepts
   whatever the model computes for ANY batch whose items are indexed by position
   (the shape the harness builds): the boolean evaluated on the implementation's
   answers is implied by the coalescer theorems. *)
From WK Require Import Base.Base Gen.Consts_C29 Model.ChanAppend Model.ChanAppend_C29
     Proof.ChanAppend_coalesce Proof.ChanAppend_expand.
From Coq Require Import Sorted.
Open Scope N_scope.

Lemma list_eqb_refl {A} (eqb : A -> A -> bool) (l : list A) :
  (forall x, eqb x x = true) -> list_eqb eqb l l = true.
Proof. intro H. induction l as [|x l IH]; cbn [list_eqb]; [reflexivity|]. rewrite H, IH. reflexivity. Qed.

Lemma nlist_eqb_refl l : nlist_eqb l l = true.
Proof. apply list_eqb_refl. apply N.eqb_refl. Qed.

Lemma ocomp_eqb_refl c : ocomp_eqb c c = true.
Proof. unfold ocomp_eqb. rewrite !N.eqb_refl, eqb_reflx. reflexivity. Qed.

Lemma of_nat_eqb a b : (N.of_nat a =? N.of_nat b) = Nat.eqb a b.
Proof.
  destruct (Nat.eqb a b) eqn:E.
  - apply Nat.eqb_eq in E. subst. apply N.eqb_refl.
  - apply Nat.eqb_neq in E. apply N.eqb_neq. lia.
Qed.

Lemma nth_map_of_nat (l : list nat) i : nth i (map N.of_nat l) 0 = N.of_nat (nth i l 0%nat).
Proof. change 0 with (N.of_nat 0). apply map_nth. Qed.

Lemma nth_map_seq {B} (f : nat -> B) n i d : (i < n)%nat -> nth i (map f (seq 0 n)) d = f i.
Proof.
  intro H. rewrite (nth_indep _ d (f 0%nat)) by (rewrite map_length, seq_length; exact H).
  rewrite map_nth, seq_nth by exact H. reflexivity.
Qed.

Lemma strictly_increasing_of_nat pos : StronglySorted lt pos -> strictly_increasing (map N.of_nat pos) = true.
Proof.
  induction 1 as [|x l Hs IH Hall]; [reflexivity|].
  destruct l as [|y l]; [reflexivity|]. cbn [map strictly_increasing] in *.
  rewrite IH. rewrite Forall_forall in Hall. specialize (Hall y (or_introl eq_refl)).
  replace (N.of_nat x <? N.of_nat y) with true; [reflexivity|]. symmetry. apply N.ltb_lt. lia.
Qed.

Lemma script_comps_items us : forall items k, map cp_item (script_comps us k items) = items.
Proof. induction items as [|it r IH]; intro k; cbn [script_comps map]; [reflexivity|]. rewrite IH. reflexivity. Qed.

Lemma script_comps_nth us : forall items k i,
  (i < length items)%nat ->
  nth i (script_comps us k items) dflt_comp = script_comp us (k + i) (nth i items dflt_psend).
Proof.
  induction items as [|it r IH]; intros k i H; [cbn in H; lia|].
  destruct i as [|i]; cbn [script_comps nth].
  - rewrite Nat.add_0_r. reflexivity.
  - rewrite IH by (cbn in H; lia). f_equal. lia.
Qed.

Fixpoint expected_list (us : list uscript) (uniq : list N) (j : nat) (ows : list N) : list ocomp :=
  match ows with
  | [] => []
  | o :: r => expected_expanded us uniq j o :: expected_list us uniq (S j) r
  end.

Lemma expanded_ok_expected us uniq : forall ows j, expanded_ok us uniq j ows (expected_list us uniq j ows) = true.
Proof.
  induction ows as [|o r IH]; intro j; cbn [expected_list expanded_ok]; [reflexivity|].
  rewrite ocomp_eqb_refl, IH. reflexivity.
Qed.

Lemma expected_list_length us uniq : forall ows j, length (expected_list us uniq j ows) = length ows.
Proof. induction ows as [|o r IH]; intro j; cbn [expected_list length]; [reflexivity|]. rewrite IH. reflexivity. Qed.

Lemma expected_list_nth us uniq d : forall ows j i,
  (i < length ows)%nat ->
  nth i (expected_list us uniq j ows) d = expected_expanded us uniq (j + i) (nth i ows 0).
Proof.
  induction ows as [|o r IH]; intros j i H; [cbn in H; lia|].
  destruct i as [|i]; cbn [expected_list nth].
  - rewrite Nat.add_0_r. reflexivity.
  - rewrite IH by (cbn in H; lia). f_equal. lia.
Qed.

Lemma owners_ok_all items uniq : forall ows j,
  (forall i, (i < length ows)%nat -> owner_ok items uniq (j + i) (nth i ows 0) = true) ->
  owners_ok items uniq j ows = true.
Proof.
  induction ows as [|o r IH]; intros j H; cbn [owners_ok]; [reflexivity|].
  pose proof (H 0%nat ltac:(cbn; lia)) as H0. cbn [nth] in H0. rewrite Nat.add_0_r in H0. rewrite H0.
  apply IH. intros i Hi. specialize (H (S i) ltac:(cbn; lia)). cbn [nth] in H.
  replace (S j + i)%nat with (j + S i)%nat by lia. exact H.
Qed.

Section Coal.
  Variable items : list psend.
  Variable us : list uscript.
  Variable rs : list ares.
  (* the harness builds the batch with Index = position *)
  Hypothesis Hidx : map ps_index items = nseq (length items).

  Let n := length items.
  Let b := newIdempotentAppendBatch idempotencyPayloadHash logicalSendFingerprint items.

  Lemma index_at p : (p < n)%nat -> ps_index (nth p items dflt_psend) = N.of_nat p.
  Proof.
    intro H.
    assert (E : nth p (map ps_index items) 0 = N.of_nat p).
    { rewrite Hidx. unfold nseq. apply nth_map_seq. exact H. }
    rewrite <- E. change 0 with (ps_index dflt_psend). rewrite map_nth. reflexivity.
  Qed.

  Lemma item_at_nat p : item_at items (N.of_nat p) = nth p items dflt_psend.
  Proof. unfold item_at. rewrite Nnat.Nat2N.id. reflexivity. Qed.

  Theorem model_coal_monitor : C29_monitor (C29Coalesce items us rs (coal_model items us rs)) = 0.
  Proof.
    destruct (nb_coalesced idempotencyPayloadHash logicalSendFingerprint items) as [pos C]. fold b in C.
    pose proof (cz_bound _ _ _ C) as Hb. rewrite Forall_forall in Hb. fold n in Hb.
    (* the observation the model produces *)
    assert (Euniq : map ps_index (ib_items b) = map N.of_nat pos).
    { rewrite (cz_items _ _ _ C), map_map. apply map_ext_in. intros p Hp. apply index_at. apply Hb. exact Hp. }
    set (OW := fun j => N.of_nat (owner_of b j)).
    assert (Eows : match option_map (map N.of_nat) (ib_owners b) with Some o => o | None => nseq n end
                   = map OW (seq 0 n)).
    { unfold OW, owner_of. destruct (ib_owners b) as [ow|] eqn:O; cbn [option_map].
      - destruct (cz_owners _ _ _ C ow O) as [L _]. fold n in L.
        apply nth_ext with (d := 0) (d' := 0); [rewrite !map_length, seq_length; exact L|].
        intros i Hi. rewrite map_length in Hi.
        rewrite nth_map_of_nat, nth_map_seq by lia. reflexivity.
      - unfold nseq. reflexivity. }
    assert (Hown : forall j, (j < n)%nat -> owner_ok items (map N.of_nat pos) j (OW j) = true).
    { intros j Hj. unfold owner_ok, OW. rewrite Nnat.Nat2N.id.
      destruct (cz_owner _ _ _ C j Hj) as [p [P1 [P2 P3]]].
      rewrite nth_error_map, P1. cbn [option_map]. rewrite !item_at_nat.
      replace (N.of_nat p <=? N.of_nat j) with true by (symmetry; apply N.leb_le; lia).
      rewrite of_nat_eqb. cbn [andb]. destruct P3 as [P3|[P3 P4]].
      - subst p. rewrite same_refl, Nat.eqb_refl. reflexivity.
      - unfold cmdat in *. rewrite P4, P3, orb_true_r. reflexivity. }
    assert (Hlen : length pos = length (ib_items b)) by (rewrite (cz_items _ _ _ C), map_length; reflexivity).
    set (U := script_comps us 0 (ib_items b)).
    destruct (expand_aligned _ _ _ _ C (script_comps_items us (ib_items b) 0)) as [EL EN]. fold U in EL, EN. fold n in EL, EN.
    assert (Eexp : map ocomp_of (expandCompletions b U) = expected_list us (map N.of_nat pos) 0 (map OW (seq 0 n))).
    { apply nth_ext with (d := ocomp_of dflt_comp) (d' := ocomp_of dflt_comp);
        [rewrite map_length, expected_list_length, map_length, seq_length; exact EL|].
      intros j Hj. rewrite map_length, EL in Hj.
      rewrite map_nth, EN by exact Hj.
      rewrite expected_list_nth by (rewrite map_length, seq_length; exact Hj). cbn [plus].
      rewrite nth_map_seq by exact Hj.
      unfold expected_expanded, expanded_at, ocomp_of, OW. cbn [cp_item cp_res cp_app cp_committed cp_trace].
      rewrite Nnat.Nat2N.id.
      destruct (cz_owner _ _ _ C j Hj) as [p [P1 _]].
      assert (Ho : (owner_of b j < length (ib_items b))%nat) by (rewrite <- Hlen; apply nth_error_Some; congruence).
      unfold U. rewrite script_comps_nth by exact Ho. cbn [plus]. unfold script_comp.
      cbn [cp_res cp_app cp_committed cp_trace r_id r_seq r_reason r_err fst snd].
      rewrite index_at by exact Hj.
      rewrite nth_map_of_nat, of_nat_eqb. reflexivity. }
    (* the monitor *)
    cbn [C29_monitor]. unfold coal_monitor, active_monitor, coal_model, obs_owners.
    cbn [co_uniq co_owners co_expanded co_arc co_active co_inactive].
    fold b. fold n. rewrite Euniq, Eows. fold U. rewrite Eexp.
    rewrite strictly_increasing_of_nat by apply (cz_sorted _ _ _ C).
    replace (forallb (fun p => p <? N.of_nat n) (map N.of_nat pos)) with true.
    2:{ symmetry. apply forallb_forall. intros x Hx. apply in_map_iff in Hx. destruct Hx as [p [E Hp]]. subst x.
        apply N.ltb_lt. specialize (Hb p Hp). lia. }
    replace (match option_map (map N.of_nat) (ib_owners b) with
             | Some _ => true | None => nlist_eqb (map N.of_nat pos) (nseq n) end) with true.
    2:{ symmetry. destruct (ib_owners b) eqn:O; cbn [option_map]; [reflexivity|].
        rewrite (cz_none _ _ _ C O). apply nlist_eqb_refl. }
    rewrite map_length, seq_length, Nat.eqb_refl.
    rewrite owners_ok_all.
    2:{ intros i Hi. rewrite map_length, seq_length in Hi. cbn [plus].
        rewrite nth_map_seq by exact Hi. apply Hown. exact Hi. }
    replace (forallb _ (seq 0 (length (map N.of_nat pos)))) with true.
    2:{ symmetry. apply forallb_forall. intros k Hk. apply in_seq in Hk. rewrite map_length in Hk.
        rewrite nth_map_of_nat, Nnat.Nat2N.id.
        assert (Hp : nth_error pos k = Some (nth k pos 0%nat)) by (apply nth_error_nth'; lia).
        pose proof (cz_slot _ _ _ C _ _ Hp) as S.
        assert (Hpn : (nth k pos 0%nat < n)%nat) by (apply Hb; apply nth_In; lia).
        rewrite nth_map_seq by exact Hpn. unfold OW. rewrite S. apply N.eqb_refl. }
    rewrite expanded_ok_expected.
    rewrite (list_eqb_refl ocomp_eqb _ ocomp_eqb_refl).
    rewrite activeAppendItems_correct.
    rewrite (list_eqb_refl ocomp_eqb _ ocomp_eqb_refl), nlist_eqb_refl. reflexivity.
  Qed.
End Coal.

(* ---- the "writer" cases ------------------------------------------------------------------------ *)
From WK Require Import Proof.ChanAppend_writer Proof.ChanAppend_run Proof.ChanAppend_pipeline.

Lemma consecutive_from_app k l1 l2 :
  consecutive_from k (l1 ++ l2) = consecutive_from k l1 && consecutive_from (k + N.of_nat (length l1)) l2.
Proof.
  revert k. induction l1 as [|x l1 IH]; intro k; cbn [app consecutive_from length].
  - replace (k + N.of_nat 0) with k by lia. reflexivity.
  - rewrite IH. replace (k + 1 + N.of_nat (length l1)) with (k + N.of_nat (S (length l1))) by lia.
    rewrite andb_assoc. reflexivity.
Qed.

Lemma consec_bool k l : consec k l -> consecutive_from k l = true.
Proof.
  revert k. induction l as [|x l IH]; intros k H; cbn [consecutive_from]; [reflexivity|].
  destruct H as [E H]. subst x. rewrite N.eqb_refl. apply IH. exact H.
Qed.

Lemma wpop_eqb_refl p : wpop_eqb p p = true.
Proof. unfold wpop_eqb. rewrite !N.eqb_refl. reflexivity. Qed.

Lemma idx_items_index base : forall n k,
  map ps_index (map (fun i => PSend 0 (base + N.of_nat i) dflt_cmd 0 false 0 0) (seq k n))
  = map (fun i => base + N.of_nat i) (seq k n).
Proof. intros n k. rewrite map_map. reflexivity. Qed.

Lemma consecutive_seq base : forall n k,
  consecutive_from (base + N.of_nat k) (map (fun i => base + N.of_nat i) (seq k n)) = true.
Proof.
  induction n as [|n IH]; intro k; cbn [seq map consecutive_from]; [reflexivity|].
  rewrite N.eqb_refl. replace (base + N.of_nat k + 1) with (base + N.of_nat (S k)) by lia. apply IH.
Qed.

(* the state of a writer-case replay: buffered events were recorded, the pending
   items carry consecutive indexes ending at the next fresh index *)
Record WMInv (s : wstate) (base : N) (recorded : list wpop) : Prop := {
  wm_entries : entries_ok s;
  wm_recorded : forall e, In e (buffered s) -> In (wpop_of e) recorded;
  wm_pending : consecutive_from (base - N.of_nat (length (ws_pending s))) (map ps_index (ws_pending s)) = true;
  wm_base : N.of_nat (length (ws_pending s)) <= base }.

Lemma next_none s s' : nextAppendBatch s = (None, s') -> s' = s.
Proof.
  unfold nextAppendBatch. destruct (is_nil (ws_pending s)); [intro H; inversion H; reflexivity|].
  destruct (negb (canStartAppend s)); intro H; inversion H; reflexivity.
Qed.

Lemma next_some s sq items s' :
  nextAppendBatch s = (Some (sq, items), s') ->
  sq = ws_next s /\ items = ws_pending s /\ ws_pending s' = [] /\ ws_next s' = ws_next s + 1
  /\ ws_drain s' = ws_drain s /\ buffered s' = buffered s /\ (entries_ok s -> entries_ok s').
Proof.
  unfold nextAppendBatch. destruct (is_nil (ws_pending s)); [discriminate|].
  destruct (negb (canStartAppend s)); [discriminate|].
  intro H. inversion H; subst. cbn. repeat split; auto.
Qed.

Lemma writer_replay_ok : forall ops s base i recorded,
  WMInv s base recorded ->
  let obs := wrun (s, base) i ops in
  length obs = length ops
  /\ consecutive_from (ws_next s) (map fst (issued ops obs)) = true
  /\ consecutive_from (base - N.of_nat (length (ws_pending s))) (flat_map snd (issued ops obs)) = true
  /\ consecutive_from (ws_drain s) (map (fun p => wp_seq (fst p)) (w_events i ops obs recorded)) = true
  /\ forallb (fun p => existsb (wpop_eqb (fst p)) (snd p)) (w_events i ops obs recorded) = true.
Proof.
  induction ops as [|o r IH]; intros s base i recorded I; cbn [wrun].
  { cbn. auto. }
  destruct I as [I1 I2 I3 I4].
  destruct o as [n|n| |sq n| |sq n|n]; cbn [wstep].
  - (* WEnq *)
    set (s' := enqueuePrepared s (idx_items base (N.to_nat n))).
    assert (I' : WMInv s' (base + n) recorded).
    { constructor; auto.
      - unfold s'. cbn [enqueuePrepared ws_pending]. rewrite app_length, map_app.
        unfold idx_items. rewrite map_length, seq_length.
        replace (base + n - N.of_nat (length (ws_pending s) + N.to_nat n))
          with (base - N.of_nat (length (ws_pending s))) by lia.
        rewrite consecutive_from_app, I3, map_length. cbn [andb].
        replace (base - N.of_nat (length (ws_pending s)) + N.of_nat (length (ws_pending s))) with base by lia.
        rewrite idx_items_index. replace base with (base + N.of_nat 0) at 1 by lia. apply consecutive_seq.
      - unfold s'. cbn [enqueuePrepared ws_pending]. rewrite app_length. unfold idx_items.
        rewrite map_length, seq_length. lia. }
    destruct (IH s' (base + n) (i + 1) recorded I') as [L [A [B [C D]]]].
    cbn [length issued combine flat_map fst snd w_events app map].
    split; [f_equal; exact L|]. split; [exact A|]. split.
    + unfold s' in B. cbn [enqueuePrepared ws_pending] in B. rewrite app_length in B.
      unfold idx_items in B. rewrite map_length, seq_length in B.
      replace (base + n - N.of_nat (length (ws_pending s) + N.to_nat n))
        with (base - N.of_nat (length (ws_pending s))) in B by lia. exact B.
    + split; [exact C|exact D].
  - (* WAdmit *)
    destruct (IH s base (i + 1) recorded (Build_WMInv _ _ _ I1 I2 I3 I4)) as [L [A [B [C D]]]].
    cbn [length issued combine flat_map fst snd w_events app map].
    split; [f_equal; exact L|]. auto.
  - (* WNext *)
    destruct (nextAppendBatch s) as [[[sq items]|] s'] eqn:NB.
    + destruct (next_some _ _ _ _ NB) as [E1 [E2 [E3 [E4 [E5 [E6 E7]]]]]].
      assert (I' : WMInv s' base recorded).
      { constructor; [apply E7; exact I1|rewrite E6; exact I2|rewrite E3; reflexivity|rewrite E3; cbn; lia]. }
      destruct (IH s' base (i + 1) recorded I') as [L [A [B [C D]]]].
      cbn [length issued combine flat_map fst snd w_events app map wo_ok wo_seq wo_idx].
      split; [f_equal; exact L|]. subst sq items. split.
      * cbn [consecutive_from]. rewrite N.eqb_refl. rewrite E4 in A. exact A.
      * split.
        -- rewrite consecutive_from_app, I3. cbn [andb]. rewrite map_length.
           rewrite E3 in B. cbn [length] in B.
           replace (base - N.of_nat (length (ws_pending s)) + N.of_nat (length (ws_pending s))) with base by lia.
           replace (base - N.of_nat 0) with base in B by lia. exact B.
        -- rewrite E5 in C. split; [exact C|exact D].
    + pose proof (next_none _ _ NB). subst s'.
      destruct (IH s base (i + 1) recorded (Build_WMInv _ _ _ I1 I2 I3 I4)) as [L [A [B [C D]]]].
      cbn [length issued combine flat_map fst snd w_events app map wo_ok].
      split; [f_equal; exact L|]. auto.
  - (* WRec *)
    set (ev := Ev sq (repeat dflt_comp (N.to_nat n)) i).
    set (s' := recordAppendCompletion s ev).
    assert (Ew : wpop_of ev = WP sq n i).
    { unfold wpop_of, ev. cbn [ev_seq ev_items ev_tag]. rewrite repeat_length, Nnat.N2Nat.id. reflexivity. }
    assert (I' : WMInv s' base (WP sq n i :: recorded)).
    { destruct (record_fields s ev) as [F1 _]. constructor.
      - apply record_entries_ok. exact I1.
      - intros e He. apply record_buffered in He. destruct He as [He|He]; [subst e; rewrite Ew; left; reflexivity|].
        right. apply I2. exact He.
      - unfold s'. rewrite F1. exact I3.
      - unfold s'. rewrite F1. exact I4. }
    destruct (IH s' base (i + 1) (WP sq n i :: recorded) I') as [L [A [B [C D]]]].
    destruct (record_fields s ev) as [F1 [F2 _]].
    cbn [length issued combine flat_map fst snd w_events app map].
    split; [f_equal; exact L|]. unfold s' in A, B, C. rewrite F2 in A. rewrite F1 in B. rewrite record_drain in C. auto.
  - (* WPop *)
    destruct (popNextAppendCompletion s) as [[e|] s1] eqn:P.
    + destruct (pop_some _ _ _ I1 P) as [Hs [Hd [Hok [Hin [Hsub _]]]]].
      destruct (pop_fields _ _ _ P) as [F1 [F2 _]].
      set (s' := finishAppend s1 (N.of_nat (length (ev_items e)))).
      assert (I' : WMInv s' base recorded).
      { constructor; [apply finish_entries_ok; exact Hok| | |].
        - intros x Hx. unfold s' in Hx. rewrite finish_buffered in Hx. apply I2. apply Hsub. exact Hx.
        - unfold s'. cbn [finishAppend ws_pending]. rewrite F1. exact I3.
        - unfold s'. cbn [finishAppend ws_pending]. rewrite F1. exact I4. }
      destruct (IH s' base (i + 1) recorded I') as [L [A [B [C D]]]].
      cbn [length issued combine flat_map fst snd w_events app map wo_ok wo_seq wo_n wo_tag wp_seq forallb].
      split; [f_equal; exact L|]. unfold s' in A, B, C. cbn [finishAppend ws_next ws_pending ws_drain] in A, B, C.
      rewrite F2 in A. rewrite F1 in B. rewrite Hd in C.
      split; [exact A|]. split; [exact B|]. split.
      * cbn [consecutive_from]. rewrite Hs, N.eqb_refl. exact C.
      * rewrite D, andb_true_r. apply existsb_exists. exists (wpop_of e).
        split; [apply I2; exact Hin|]. unfold wpop_of. apply wpop_eqb_refl.
    + pose proof (pop_none_state _ _ P). subst s1.
      destruct (IH s base (i + 1) recorded (Build_WMInv _ _ _ I1 I2 I3 I4)) as [L [A [B [C D]]]].
      cbn [length issued combine flat_map fst snd w_events app map wo_ok].
      split; [f_equal; exact L|]. auto.
  - (* WApply *)
    set (ev := Ev sq (repeat dflt_comp (N.to_nat n)) i).
    assert (Ew : wpop_of ev = WP sq n i).
    { unfold wpop_of, ev. cbn [ev_seq ev_items ev_tag]. rewrite repeat_length, Nnat.N2Nat.id. reflexivity. }
    destruct (applyAppendCompletion s ev) as [evs s'] eqn:A0.
    destruct (apply_spec _ _ _ _ I1 A0) as [Hc [Hd [Hok [Hin [Hsub _]]]]].
    destruct (apply_fields _ _ _ _ A0) as [F1 [F2 _]].
    assert (I' : WMInv s' base (WP sq n i :: recorded)).
    { constructor; [exact Hok| | |].
      - intros e He. destruct (Hsub e He) as [E|E]; [subst e; rewrite Ew; left; reflexivity|right; apply I2; exact E].
      - rewrite F1. exact I3.
      - rewrite F1. exact I4. }
    destruct (IH s' base (i + 1) (WP sq n i :: recorded) I') as [L [A [B [C D]]]].
    cbn [length issued combine flat_map fst snd w_events app map wo_pops].
    split; [f_equal; exact L|]. rewrite F2 in A. rewrite F1 in B.
    split; [exact A|]. split; [exact B|]. rewrite map_app, forallb_app, map_map. cbn [fst].
    split.
    + rewrite consecutive_from_app, map_length, map_length. rewrite Hd in C. rewrite C, andb_true_r.
      apply consec_bool. rewrite map_map. exact Hc.
    + rewrite D, andb_true_r. apply forallb_forall. intros p Hp. apply in_map_iff in Hp.
      destruct Hp as [w [Ep Hw]]. subst p. cbn [fst snd]. apply in_map_iff in Hw. destruct Hw as [e [Ee He]]. subst w.
      apply existsb_exists. exists (wpop_of e). split; [|apply wpop_eqb_refl].
      destruct (Hin e He) as [E|E]; [subst e; rewrite Ew; left; reflexivity|right; apply I2; exact E].
  - (* WFin *)
    set (s' := finishAppend s n).
    assert (I' : WMInv s' base recorded) by (constructor; auto).
    destruct (IH s' base (i + 1) recorded I') as [L [A [B [C D]]]].
    cbn [length issued combine flat_map fst snd w_events app map].
    split; [f_equal; exact L|]. auto.
Qed.

Theorem model_writer_monitor : forall hw limit ops,
  C29_monitor (C29Writer hw limit ops (wrun (newChannelState hw limit, 0) 0 ops)) = 0.
Proof.
  intros hw limit ops. cbn [C29_monitor]. unfold writer_monitor.
  assert (I : WMInv (newChannelState hw limit) 0 []).
  { constructor; cbn; [apply entries_ok_init|intros e []|reflexivity|lia]. }
  destruct (writer_replay_ok ops _ 0 0 [] I) as [L [A [B [C D]]]].
  cbn [newChannelState ws_next ws_drain ws_pending length] in A, B, C.
  rewrite L, Nat.eqb_refl, A, C, D. replace (0 - N.of_nat 0) with 0 in B by lia. rewrite B. reflexivity.
Qed.
