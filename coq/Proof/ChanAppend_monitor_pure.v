(* Proof/ChanAppend_monitor_pure.v — the property monitor of the "coal" cases accepts
   whatever the model computes for ANY batch whose items are indexed by position
   (the shape the harness builds): the boolean evaluated on the implementation's
   answers is implied by the coalescer theorems. *)
From WK Require Import Base.Base Gen.Consts_C29 Model.ChanAppend Model.ChanAppend_C29
     Proof.ChanAppend_coalesce Proof.ChanAppend_expand.
From Coq Require Import Sorted.
Open Scope N_scope.

Lemma list_eqb_refl {A} (eqb : A -> A -> bool) (l : list A) :
  (forall x, eqb x x = true) -> list_eqb eqb l l = true.
Proof. intro H. induction l as [|x l IH]; cbn [list_eqb]; [reflexivity|]. rewrite H, IH. reflexivity. Qed.

Lemma nlist_eqb_refl l : nlist_eqb l l = true.
Proof. apply list_eqb_refl. apply N.eqb_refl. Qed.

Lemma ocomp_eqb_refl c : ocomp_eqb c c = true.
Proof. unfold ocomp_eqb. rewrite !N.eqb_refl, eqb_reflx. reflexivity. Qed.

Lemma of_nat_eqb a b : (N.of_nat a =? N.of_nat b) = Nat.eqb a b.
Proof.
  destruct (Nat.eqb a b) eqn:E.
  - apply Nat.eqb_eq in E. subst. apply N.eqb_refl.
  - apply Nat.eqb_neq in E. apply N.eqb_neq. lia.
Qed.

Lemma nth_map_of_nat (l : list nat) i : nth i (map N.of_nat l) 0 = N.of_nat (nth i l 0%nat).
Proof. change 0 with (N.of_nat 0). apply map_nth. Qed.

Lemma nth_map_seq {B} (f : nat -> B) n i d : (i < n)%nat -> nth i (map f (seq 0 n)) d = f i.
Proof.
  intro H. rewrite (nth_indep _ d (f 0%nat)) by (rewrite map_length, seq_length; exact H).
  rewrite map_nth, seq_nth by exact H. reflexivity.
Qed.

Lemma strictly_increasing_of_nat pos : StronglySorted lt pos -> strictly_increasing (map N.of_nat pos) = true.
Proof.
  induction 1 as [|x l Hs IH Hall]; [reflexivity|].
  destruct l as [|y l]; [reflexivity|]. cbn [map strictly_increasing] in *.
  rewrite IH. rewrite Forall_forall in Hall. specialize (Hall y (or_introl eq_refl)).
  replace (N.of_nat x <? N.of_nat y) with true; [reflexivity|]. symmetry. apply N.ltb_lt. lia.
Qed.

Lemma script_comps_items us : forall items k, map cp_item (script_comps us k items) = items.
Proof. induction items as [|it r IH]; intro k; cbn [script_comps map]; [reflexivity|]. rewrite IH. reflexivity. Qed.

Lemma script_comps_nth us : forall items k i,
  (i < length items)%nat ->
  nth i (script_comps us k items) dflt_comp = script_comp us (k + i) (nth i items dflt_psend).
Proof.
  induction items as [|it r IH]; intros k i H; [cbn in H; lia|].
  destruct i as [|i]; cbn [script_comps nth].
  - rewrite Nat.add_0_r. reflexivity.
  - rewrite IH by (cbn in H; lia). f_equal. lia.
Qed.

Fixpoint expected_list (us : list uscript) (uniq : list N) (j : nat) (ows : list N) : list ocomp :=
  match ows with
  | [] => []
  | o :: r => expected_expanded us uniq j o :: expected_list us uniq (S j) r
  end.

Lemma expanded_ok_expected us uniq : forall ows j, expanded_ok us uniq j ows (expected_list us uniq j ows) = true.
Proof.
  induction ows as [|o r IH]; intro j; cbn [expected_list expanded_ok]; [reflexivity|].
  rewrite ocomp_eqb_refl, IH. reflexivity.
Qed.

Lemma expected_list_length us uniq : forall ows j, length (expected_list us uniq j ows) = length ows.
Proof. induction ows as [|o r IH]; intro j; cbn [expected_list length]; [reflexivity|]. rewrite IH. reflexivity. Qed.

Lemma expected_list_nth us uniq d : forall ows j i,
  (i < length ows)%nat ->
  nth i (expected_list us uniq j ows) d = expected_expanded us uniq (j + i) (nth i ows 0).
Proof.
  induction ows as [|o r IH]; intros j i H; [cbn in H; lia|].
  destruct i as [|i]; cbn [expected_list nth].
  - rewrite Nat.add_0_r. reflexivity.
  - rewrite IH by (cbn in H; lia). f_equal. lia.
Qed.

Lemma owners_ok_all items uniq : forall ows j,
  (forall i, (i < length ows)%nat -> owner_ok items uniq (j + i) (nth i ows 0) = true) ->
  owners_ok items uniq j ows = true.
Proof.
  induction ows as [|o r IH]; intros j H; cbn [owners_ok]; [reflexivity|].
  pose proof (H 0%nat ltac:(cbn; lia)) as H0. cbn [nth] in H0. rewrite Nat.add_0_r in H0. rewrite H0.
  apply IH. intros i Hi. specialize (H (S i) ltac:(cbn; lia)). cbn [nth] in H.
  replace (S j + i)%nat with (j + S i)%nat by lia. exact H.
Qed.

Section Coal.
  Variable items : list psend.
  Variable us : list uscript.
  Variable rs : list ares.
  (* the harness builds the batch with Index = position *)
  Hypothesis Hidx : map ps_index items = nseq (length items).

  Let n := length items.
  Let b := newIdempotentAppendBatch idempotencyPayloadHash logicalSendFingerprint items.

  Lemma index_at p : (p < n)%nat -> ps_index (nth p items dflt_psend) = N.of_nat p.
  Proof.
    intro H.
    assert (E : nth p (map ps_index items) 0 = N.of_nat p).
    { rewrite Hidx. unfold nseq. apply nth_map_seq. exact H. }
    rewrite <- E. change 0 with (ps_index dflt_psend). rewrite map_nth. reflexivity.
  Qed.

  Lemma item_at_nat p : item_at items (N.of_nat p) = nth p items dflt_psend.
  Proof. unfold item_at. rewrite Nnat.Nat2N.id. reflexivity. Qed.

  Theorem model_coal_monitor : C29_monitor (C29Coalesce items us rs (coal_model items us rs)) = 0.
  Proof.
    destruct (nb_coalesced idempotencyPayloadHash logicalSendFingerprint items) as [pos C]. fold b in C.
    pose proof (cz_bound _ _ _ C) as Hb. rewrite Forall_forall in Hb. fold n in Hb.
    (* the observation the model produces *)
    assert (Euniq : map ps_index (ib_items b) = map N.of_nat pos).
    { rewrite (cz_items _ _ _ C), map_map. apply map_ext_in. intros p Hp. apply index_at. apply Hb. exact Hp. }
    set (OW := fun j => N.of_nat (owner_of b j)).
    assert (Eows : match option_map (map N.of_nat) (ib_owners b) with Some o => o | None => nseq n end
                   = map OW (seq 0 n)).
    { unfold OW, owner_of. destruct (ib_owners b) as [ow|] eqn:O; cbn [option_map].
      - destruct (cz_owners _ _ _ C ow O) as [L _]. fold n in L.
        apply nth_ext with (d := 0) (d' := 0); [rewrite !map_length, seq_length; exact L|].
        intros i Hi. rewrite map_length in Hi.
        rewrite nth_map_of_nat, nth_map_seq by lia. reflexivity.
      - unfold nseq. reflexivity. }
    assert (Hown : forall j, (j < n)%nat -> owner_ok items (map N.of_nat pos) j (OW j) = true).
    { intros j Hj. unfold owner_ok, OW. rewrite Nnat.Nat2N.id.
      destruct (cz_owner _ _ _ C j Hj) as [p [P1 [P2 P3]]].
      rewrite nth_error_map, P1. cbn [option_map]. rewrite !item_at_nat.
      replace (N.of_nat p <=? N.of_nat j) with true by (symmetry; apply N.leb_le; lia).
      rewrite of_nat_eqb. cbn [andb]. destruct P3 as [P3|[P3 P4]].
      - subst p. rewrite same_refl, Nat.eqb_refl. reflexivity.
      - unfold cmdat in *. rewrite P4, P3, orb_true_r. reflexivity. }
    assert (Hlen : length pos = length (ib_items b)) by (rewrite (cz_items _ _ _ C), map_length; reflexivity).
    set (U := script_comps us 0 (ib_items b)).
    destruct (expand_aligned _ _ _ _ C (script_comps_items us (ib_items b) 0)) as [EL EN]. fold U in EL, EN. fold n in EL, EN.
    assert (Eexp : map ocomp_of (expandCompletions b U) = expected_list us (map N.of_nat pos) 0 (map OW (seq 0 n))).
    { apply nth_ext with (d := ocomp_of dflt_comp) (d' := ocomp_of dflt_comp);
        [rewrite map_length, expected_list_length, map_length, seq_length; exact EL|].
      intros j Hj. rewrite map_length, EL in Hj.
      rewrite map_nth, EN by exact Hj.
      rewrite expected_list_nth by (rewrite map_length, seq_length; exact Hj). cbn [plus].
      rewrite nth_map_seq by exact Hj.
      unfold expected_expanded, expanded_at, ocomp_of, OW. cbn [cp_item cp_res cp_app cp_committed cp_trace].
      rewrite Nnat.Nat2N.id.
      destruct (cz_owner _ _ _ C j Hj) as [p [P1 _]].
      assert (Ho : (owner_of b j < length (ib_items b))%nat) by (rewrite <- Hlen; apply nth_error_Some; congruence).
      unfold U. rewrite script_comps_nth by exact Ho. cbn [plus]. unfold script_comp.
      cbn [cp_res cp_app cp_committed cp_trace r_id r_seq r_reason r_err fst snd].
      rewrite index_at by exact Hj.
      rewrite nth_map_of_nat, of_nat_eqb. reflexivity. }
    (* the monitor *)
    cbn [C29_monitor]. unfold coal_monitor, active_monitor, coal_model, obs_owners.
    cbn [co_uniq co_owners co_expanded co_arc co_active co_inactive].
    fold b. fold n. rewrite Euniq, Eows. fold U. rewrite Eexp.
    rewrite strictly_increasing_of_nat by apply (cz_sorted _ _ _ C).
    replace (forallb (fun p => p <? N.of_nat n) (map N.of_nat pos)) with true.
    2:{ symmetry. apply forallb_forall. intros x Hx. apply in_map_iff in Hx. destruct Hx as [p [E Hp]]. subst x.
        apply N.ltb_lt. specialize (Hb p Hp). lia. }
    replace (match option_map (map N.of_nat) (ib_owners b) with
             | Some _ => true | None => nlist_eqb (map N.of_nat pos) (nseq n) end) with true.
    2:{ symmetry. destruct (ib_owners b) eqn:O; cbn [option_map]; [reflexivity|].
        rewrite (cz_none _ _ _ C O). apply nlist_eqb_refl. }
    rewrite map_length, seq_length, Nat.eqb_refl.
    rewrite owners_ok_all.
    2:{ intros i Hi. rewrite map_length, seq_length in Hi. cbn [plus].
        rewrite nth_map_seq by exact Hi. apply Hown. exact Hi. }
    replace (forallb _ (seq 0 (length (map N.of_nat pos)))) with true.
    2:{ symmetry. apply forallb_forall. intros k Hk. apply in_seq in Hk. rewrite map_length in Hk.
        rewrite nth_map_of_nat, Nnat.Nat2N.id.
        assert (Hp : nth_error pos k = Some (nth k pos 0%nat)) by (apply nth_error_nth'; lia).
        pose proof (cz_slot _ _ _ C _ _ Hp) as S.
        assert (Hpn : (nth k pos 0%nat < n)%nat) by (apply Hb; apply nth_In; lia).
        rewrite nth_map_seq by exact Hpn. unfold OW. rewrite S. apply N.eqb_refl. }
    rewrite expanded_ok_expected.
    rewrite (list_eqb_refl ocomp_eqb _ ocomp_eqb_refl).
    rewrite activeAppendItems_correct.
    rewrite (list_eqb_refl ocomp_eqb _ ocomp_eqb_refl), nlist_eqb_refl. reflexivity.
  Qed.
End Coal.
