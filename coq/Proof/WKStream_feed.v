(* Proof/WKStream_feed.v — C23: the adapter loop and the gateway buffering. *)
From WK Require Import Base.Base Base.Bytes Gen.Consts_C22 Model.WKProto Model.WKStream.
From WK Require Import Proof.WKProto Proof.WKProto_types Proof.WKProto_frame Proof.WKStream.
From Coq Require Import ZifyBool ZifyN ZifyNat.
Open Scope N_scope.

(* ---- totality: never a panic, never more consumed than given ---------------------------- *)

Lemma blen_skipn n (l : bytes) : n <= blen l -> blen (skipn (N.to_nat n) l) = blen l - n.
Proof. intro H. unfold blen in *. rewrite skipn_length. lia. Qed.

Lemma adapter_loop_total : forall fuel rest v,
  adapter_loop fuel rest v <> APanic /\
  (forall fs c, adapter_loop fuel rest v = AOk fs c -> c <= blen rest).
Proof.
  induction fuel as [|k IH]; intros rest v.
  - cbn [adapter_loop]. split; [discriminate|]. intros fs c H. inversion H. lia.
  - cbn [adapter_loop]. destruct rest as [|b r].
    + split; [discriminate|]. intros fs c H. inversion H. lia.
    + destruct (DecodeFrame (b :: r) v) as [f m n| | |] eqn:D.
      * destruct (DecodeFrame_prefix _ _ _ _ _ D) as [N1 [N2 _]].
        destruct (n =? 0) eqn:Z; [split; [discriminate|]; intros fs c H; inversion H; lia|].
        destruct (IH (skipn (N.to_nat n) (b :: r)) v) as [P Q].
        destruct (adapter_loop k (skipn (N.to_nat n) (b :: r)) v) as [fs' c'| |] eqn:R.
        -- split; [discriminate|]. intros fs c H. inversion H; subst.
           specialize (Q fs' c' eq_refl). rewrite blen_skipn in Q by exact N2. lia.
        -- split; [discriminate|]. intros fs c H. discriminate.
        -- exfalso. apply P. reflexivity.
      * split; [discriminate|]. intros fs c H. inversion H. lia.
      * split; [discriminate|]. intros fs c H. discriminate.
      * exfalso. exact (DecodeFrame_no_panic b r v D).
Qed.

Lemma Adapter_Decode_total sv inp :
  Adapter_Decode sv inp <> APanic /\
  (forall fs c, Adapter_Decode sv inp = AOk fs c -> c <= blen inp).
Proof. unfold Adapter_Decode. apply adapter_loop_total. Qed.

(* ---- complete frames followed by an incomplete one ------------------------------------------ *)

Definition enc (v : N) (f : frame) : bytes := frame_bytes f v.
Definition stream_of (v : N) (fs : list frame) : bytes := concat (map (enc v) fs).

Definition needy (p : bytes) (v : N) : Prop := p = [] \/ DecodeFrame p v = DNeed.

(* what the adapter returns for the frames fs when tl more bytes follow them *)
Fixpoint decoded (v : N) (fs : list frame) (tl : N) : list (frame * meta) :=
  match fs with
  | [] => []
  | f :: r =>
    (normalize v f, Meta (frame_type f) (remlen_of f v) (blen (stream_of v (f :: r)) + tl) false)
    :: decoded v r tl
  end.

Lemma stream_of_cons v f r : stream_of v (f :: r) = enc v f ++ stream_of v r.
Proof. reflexivity. Qed.

Lemma map_fst_decoded v fs tl : map fst (decoded v fs tl) = map (normalize v) fs.
Proof. induction fs as [|f r IH]; [reflexivity|]. cbn [decoded map fst]. rewrite IH. reflexivity. Qed.

Lemma skipn_enc (a b : bytes) : skipn (N.to_nat (blen a)) (a ++ b) = b.
Proof. rewrite to_nat_blen, skipn_app, Nat.sub_diag, skipn_all. reflexivity. Qed.

Lemma blen_enc_pos v f : 1 <= blen (enc v f).
Proof.
  unfold enc. pose proof (frame_bytes_nonempty f v) as H.
  destruct (frame_bytes f v); [contradiction|]. rewrite blen_cons. lia.
Qed.

Lemma adapter_loop_frames : forall fs v p fuel,
  Forall (fun f => within_limits v f = true) fs -> needy p v ->
  (length (stream_of v fs ++ p) <= fuel)%nat ->
  adapter_loop fuel (stream_of v fs ++ p) v = AOk (decoded v fs (blen p)) (blen (stream_of v fs)).
Proof.
  induction fs as [|f r IH]; intros v p fuel W Np Hf.
  - cbn [stream_of map concat app decoded]. destruct fuel as [|k]; [reflexivity|].
    cbn [adapter_loop]. destruct p as [|b p']; [reflexivity|].
    destruct Np as [E|E]; [discriminate|]. rewrite E. reflexivity.
  - inversion W as [|? ? Wf Wr]; subst.
    rewrite stream_of_cons in *. rewrite <- app_assoc in *.
    pose proof (blen_enc_pos v f) as Pos.
    destruct fuel as [|k].
    { rewrite app_length in Hf. unfold blen in Pos. lia. }
    assert (HL : (length (stream_of v r ++ p) <= k)%nat).
    { rewrite app_length in Hf. unfold blen in Pos. lia. }
    cbn [adapter_loop].
    destruct (enc v f ++ stream_of v r ++ p) as [|b0 r0] eqn:EQ.
    { apply (f_equal (@length N)) in EQ. rewrite app_length in EQ. unfold blen in Pos. cbn [length] in EQ. lia. }
    rewrite <- EQ. unfold enc at 1. rewrite (DecodeFrame_ok v f (stream_of v r ++ p) Wf).
    fold (enc v f).
    assert (Z : (blen (enc v f) =? 0) = false) by lia. rewrite Z.
    rewrite skipn_enc.
    rewrite (IH v p k Wr Np HL).
    cbn [decoded]. rewrite stream_of_cons.
    rewrite !blen_app. f_equal. f_equal. f_equal. f_equal. lia.
Qed.

Lemma blen_stream_pos v f r : 1 <= blen (stream_of v (f :: r)).
Proof. unfold stream_of. cbn [map concat]. rewrite blen_app. pose proof (blen_enc_pos v f). lia. Qed.

Lemma over_limit_mono limit x y : over_limit limit x = false -> y <= x -> over_limit limit y = false.
Proof. unfold over_limit. intros H L. destruct (0 <? limit); [|reflexivity]. cbn [andb] in *. lia. Qed.

(* ---- cutting a stream of frames at an arbitrary point ---------------------------------------- *)

(* the rest p after the complete frames: empty, or a non-empty strict prefix of the next frame *)
Definition pending (v : N) (p : bytes) (rem : list frame) : Prop :=
  p = [] \/ exists f rem' q, rem = f :: rem' /\ p <> [] /\ q <> [] /\ p ++ q = enc v f.

Lemma split_stream v : forall fs a b, a ++ b = stream_of v fs ->
  exists mid rem p, fs = mid ++ rem /\ a = stream_of v mid ++ p /\ p ++ b = stream_of v rem
                    /\ pending v p rem.
Proof.
  induction fs as [|f r IH]; intros a b E.
  - cbn [stream_of map concat] in E. apply app_eq_nil in E. destruct E; subst.
    exists [], [], []. repeat split. left. reflexivity.
  - unfold stream_of in E. cbn [map concat] in E. fold (stream_of v r) in E.
    destruct (app_eq_app _ _ _ _ E) as [l [[Ea Eb]|[Ea Eb]]].
    + (* a = enc f ++ l *)
      destruct (IH l b (eq_sym Eb)) as [mid [rem [p [F [A [B P]]]]]].
      exists (f :: mid), rem, p. split; [cbn [app]; rewrite F; reflexivity|].
      split; [|split; [exact B|exact P]].
      rewrite Ea, A. unfold stream_of. cbn [map concat]. rewrite app_assoc. reflexivity.
    + (* enc f = a ++ l *)
      destruct l as [|x l].
      * rewrite app_nil_r in Ea. cbn [app] in Eb. subst a b.
        exists [f], r, []. split; [reflexivity|].
        split; [unfold stream_of; cbn [map concat]; rewrite !app_nil_r; reflexivity|].
        split; [reflexivity|left; reflexivity].
      * destruct a as [|y a].
        -- exists [], (f :: r), []. split; [reflexivity|]. split; [reflexivity|].
           split; [|left; reflexivity].
           cbn [app]. rewrite Eb. cbn [app] in Ea. unfold stream_of. cbn [map concat]. rewrite Ea. reflexivity.
        -- exists [], (f :: r), (y :: a). split; [reflexivity|]. split; [reflexivity|].
           split.
           ++ rewrite Eb. unfold stream_of. cbn [map concat]. rewrite Ea, <- app_assoc. reflexivity.
           ++ right. exists f, r, (x :: l). split; [reflexivity|]. split; [discriminate|].
              split; [discriminate|]. symmetry. exact Ea.
Qed.

Lemma pending_needy v p rem : Forall (fun f => within_limits v f = true) rem -> pending v p rem -> needy p v.
Proof.
  intros W [E|[f [rem' [q [R [Pn [Qn E]]]]]]]; [left; exact E|right].
  subst rem. inversion W; subst. apply (DecodeFrame_incomplete v f p q); assumption.
Qed.

(* a pending rest that is the whole remaining stream: nothing remains *)
Lemma pending_all v p rem : pending v p rem -> p = stream_of v rem -> p = [] /\ rem = [].
Proof.
  intros [E|[f [rem' [q [R [Pn [Qn E]]]]]]] S.
  - subst p. split; [reflexivity|]. destruct rem as [|f r]; [reflexivity|].
    pose proof (blen_stream_pos v f r) as H. rewrite <- S in H. cbn in H. lia.
  - exfalso. subst rem. unfold stream_of in S. cbn [map concat] in S. rewrite <- E in S.
    apply (f_equal (@length N)) in S. rewrite !app_length in S.
    destruct q; [contradiction|]. cbn [length] in S. lia.
Qed.

Lemma Forall_app_inv {A} (P : A -> Prop) l1 l2 : Forall P (l1 ++ l2) -> Forall P l1 /\ Forall P l2.
Proof. intro H. apply Forall_app in H. exact H. Qed.

Definition limit_ok (limit n : N) : Prop := limit = 0 \/ n <= limit.

Lemma limit_ok_over limit n m : limit_ok limit n -> m <= n -> over_limit limit m = false.
Proof. unfold limit_ok, over_limit. intros [H|H] L; [subst; reflexivity|]. destruct (0 <? limit); cbn [andb]; lia. Qed.

Lemma blen_concat_app (a : bytes) b : blen a <= blen (a ++ b).
Proof. rewrite blen_app. lia. Qed.

Section Feed.
Variable sv : option N.
Let v : N := sessionVersion_inbound sv.

Lemma Adapter_Decode_frames fs p :
  Forall (fun f => within_limits v f = true) fs -> needy p v ->
  Adapter_Decode sv (stream_of v fs ++ p) = AOk (decoded v fs (blen p)) (blen (stream_of v fs)).
Proof. intros W Np. unfold Adapter_Decode. fold v. apply adapter_loop_frames; [exact W|exact Np|lia]. Qed.

(* C23: never progress on an incomplete frame *)
Lemma Adapter_Decode_incomplete f p q :
  within_limits v f = true -> p ++ q = frame_bytes f v -> q <> [] ->
  Adapter_Decode sv p = AOk [] 0.
Proof.
  intros W E Q.
  assert (Np : needy p v).
  { destruct p as [|b p']; [left; reflexivity|right].
    apply (DecodeFrame_incomplete v f (b :: p') q W E); [discriminate|exact Q]. }
  pose proof (Adapter_Decode_frames [] p (Forall_nil _) Np) as H.
  cbn [stream_of map concat app decoded] in H. exact H.
Qed.

(* ---- decodeInboundFrames / onData on complete frames + incomplete rest ---------------------- *)

Lemma dif_frames fs p :
  Forall (fun f => within_limits v f = true) fs -> needy p v ->
  decodeInboundFrames sv (stream_of v fs ++ p)
  = match fs with
    | [] => DifNotOk
    | _ => DifOk (decoded v fs (blen p)) (blen (stream_of v fs))
    end.
Proof.
  intros W Np. unfold decodeInboundFrames.
  rewrite (Adapter_Decode_frames fs p W Np).
  assert (L : (blen (stream_of v fs ++ p) <? blen (stream_of v fs)) = false)
    by (rewrite blen_app; lia).
  rewrite L. destruct fs as [|f r].
  - reflexivity.
  - pose proof (blen_stream_pos v f r).
    assert (Z : (blen (stream_of v (f :: r)) =? 0) = false) by lia. rewrite Z. reflexivity.
Qed.

Lemma dif_needy p : needy p v -> decodeInboundFrames sv p = DifNotOk.
Proof.
  intro Np. pose proof (dif_frames [] p (Forall_nil _) Np) as H.
  cbn [stream_of map concat app] in H. exact H.
Qed.

Lemma onData_loop_frames fs p fuel acc :
  Forall (fun f => within_limits v f = true) fs -> needy p v -> (2 <= fuel)%nat ->
  onData_loop fuel sv (stream_of v fs ++ p) acc
  = (GW p false false, rev acc ++ match fs with [] => [] | _ => [decoded v fs (blen p)] end).
Proof.
  intros W Np Hf. destruct fuel as [|[|k]]; [lia|lia|].
  cbn [onData_loop]. rewrite (dif_frames fs p W Np).
  destruct fs as [|f r].
  - cbn [stream_of map concat app]. rewrite app_nil_r. reflexivity.
  - rewrite skipn_enc. destruct k as [|k].
    + cbn [onData_loop]. rewrite (dif_needy p Np). cbn [rev]. reflexivity.
    + cbn [onData_loop]. rewrite (dif_needy p Np). cbn [rev]. reflexivity.
Qed.

(* one chunk: the buffered bytes p0 plus the chunk c are the complete frames mid
   followed by an incomplete rest p *)
Lemma onData_frames limit p0 c mid p :
  Forall (fun f => within_limits v f = true) mid -> needy p v ->
  p0 ++ c = stream_of v mid ++ p ->
  over_limit limit (blen (p0 ++ c)) = false ->
  onData limit sv (GW p0 false false) c
  = (GW p false false, match mid with [] => [] | _ => [decoded v mid (blen p)] end).
Proof.
  intros W Np E OL. unfold onData. cbn [gw_closed gw_inbound].
  destruct p0 as [|b0 p0'].
  - cbn [app] in E, OL. rewrite OL. rewrite E.
    rewrite (dif_frames mid p W Np).
    destruct mid as [|f r].
    + cbn [stream_of map concat app]. reflexivity.
    + destruct (blen (stream_of v (f :: r)) =? blen (stream_of v (f :: r) ++ p)) eqn:Q.
      * assert (P0 : blen p = 0) by (rewrite blen_app in Q; lia).
        apply blen_zero_nil in P0. subst p. reflexivity.
      * rewrite skipn_enc.
        assert (OL2 : over_limit limit (blen p) = false).
        { apply (over_limit_mono limit (blen c)); [exact OL|]. rewrite E, blen_app. lia. }
        rewrite OL2.
        assert (Pn : p <> []) by (intro; subst p; rewrite app_nil_r in Q; lia).
        destruct p as [|pb pr]; [contradiction|].
        cbn [length onData_loop]. rewrite (dif_needy (pb :: pr) Np). reflexivity.
  - set (inb := (b0 :: p0') ++ c) in *.
    rewrite OL.
    assert (Hl : (2 <= S (length inb))%nat) by (unfold inb; cbn [app length]; lia).
    rewrite E. rewrite E in Hl.
    rewrite (onData_loop_frames mid p _ [] W Np Hl). reflexivity.
Qed.

(* ---- the whole connection ----------------------------------------------------------------------- *)

Theorem feed_stream limit : forall chunks rem p0,
  Forall (fun f => within_limits v f = true) rem ->
  pending v p0 rem ->
  p0 ++ concat chunks = stream_of v rem ->
  limit_ok limit (blen (stream_of v rem)) ->
  exists batches,
    feed limit sv (GW p0 false false) chunks = (GW [] false false, batches)
    /\ map fst (concat batches) = map (normalize v) rem.
Proof.
  induction chunks as [|c cs IH]; intros rem p0 W P E L.
  - cbn [concat] in E. rewrite app_nil_r in E.
    destruct (pending_all v p0 rem P E) as [-> ->]. exists []. split; reflexivity.
  - cbn [concat] in E. rewrite app_assoc in E.
    destruct (split_stream v rem (p0 ++ c) (concat cs) E) as [mid [rem2 [p [F [A [B P2]]]]]].
    subst rem. destruct (Forall_app_inv _ _ _ W) as [Wm Wr].
    assert (Np : needy p v) by (apply (pending_needy v p rem2 Wr P2)).
    assert (OL : over_limit limit (blen (p0 ++ c)) = false).
    { apply (limit_ok_over limit _ _ L). rewrite <- E. apply blen_concat_app. }
    pose proof (onData_frames limit p0 c mid p Wm Np A OL) as OD.
    assert (L2 : limit_ok limit (blen (stream_of v rem2))).
    { destruct L as [L|L]; [left; exact L|right].
      unfold stream_of in *. rewrite map_app, concat_app, blen_app in L. lia. }
    destruct (IH rem2 p Wr P2 B L2) as [bs [FD MF]].
    cbn [feed]. rewrite OD, FD.
    eexists. split; [reflexivity|].
    rewrite concat_app, map_app, MF, map_app. f_equal.
    destruct mid as [|f r]; [reflexivity|].
    cbn [concat]. rewrite app_nil_r. apply map_fst_decoded.
Qed.

(* any chunking of the encodings of fs yields exactly (the normalized) fs, nothing left over *)
Theorem feed_any_chunking limit fs chunks :
  Forall (fun f => within_limits v f = true) fs ->
  concat chunks = stream_of v fs ->
  limit_ok limit (blen (stream_of v fs)) ->
  exists batches,
    feed limit sv gw_init chunks = (GW [] false false, batches)
    /\ map fst (concat batches) = map (normalize v) fs.
Proof.
  intros W E L. apply (feed_stream limit chunks fs []); [exact W|left; reflexivity|exact E|exact L].
Qed.

End Feed.

(* ---- arbitrary bytes: the gateway never reaches the panic outcome -------------------------------- *)

Lemma dif_no_panic sv data : decodeInboundFrames sv data <> DifPanic.
Proof.
  unfold decodeInboundFrames. destruct (Adapter_Decode_total sv data) as [NP _].
  destruct (Adapter_Decode sv data) as [fs c| |]; [|discriminate|contradiction].
  destruct (blen data <? c); [discriminate|]. destruct (c =? 0); [destruct fs|]; discriminate.
Qed.

Lemma onData_loop_no_panic sv : forall fuel inbound acc,
  gw_panicked (fst (onData_loop fuel sv inbound acc)) = false.
Proof.
  induction fuel as [|k IH]; intros inbound acc; [reflexivity|].
  cbn [onData_loop]. pose proof (dif_no_panic sv inbound) as NP.
  destruct (decodeInboundFrames sv inbound); try reflexivity; [contradiction|apply IH].
Qed.

Lemma onData_no_panic limit sv st data : gw_panicked st = false ->
  gw_panicked (fst (onData limit sv st data)) = false.
Proof.
  intro H. unfold onData. destruct (gw_closed st); [exact H|].
  destruct (gw_inbound st) as [|b r].
  - destruct (over_limit limit (blen data)); [reflexivity|].
    pose proof (dif_no_panic sv data) as NP.
    destruct (decodeInboundFrames sv data) as [| | |fs c]; try reflexivity; [contradiction|].
    destruct (c =? blen data); [reflexivity|].
    destruct (over_limit limit (blen (skipn (N.to_nat c) data))); [reflexivity|].
    apply onData_loop_no_panic.
  - destruct (over_limit limit (blen ((b :: r) ++ data))); [reflexivity|].
    apply onData_loop_no_panic.
Qed.

Lemma feed_no_panic limit sv : forall chunks st, gw_panicked st = false ->
  gw_panicked (fst (feed limit sv st chunks)) = false.
Proof.
  induction chunks as [|c cs IH]; intros st H; [exact H|].
  cbn [feed]. pose proof (onData_no_panic limit sv st c H) as H1.
  destruct (onData limit sv st c) as [st1 b1]. cbn [fst] in H1.
  specialize (IH st1 H1). destruct (feed limit sv st1 cs) as [st2 b2]. exact IH.
Qed.
