(* Proof/LogMatching.v — entry digests are the structural hash of the entry's own fields, row and
   predecessor digest; hence two well-formed logs that hold the same identity at some index hold
   the same identities (and rows) at every smaller index ("log matching"). *)
From WK Require Import Base.Base.
From WK Require Import Model.ReplicaLog Proof.ReplicaLog Proof.ReplicaLog_WF.
From Coq Require Import ZifyBool ZifyN.
Open Scope N_scope.

Definition ent_digest_ok (x : ident * record) : Prop :=
  let e := fst x in
  i_dg e = DH (i_e e) (i_t e) (i_f e) (i_idx e) (i_pt e) (i_pidx e) (i_cmd e) (i_pd e) (snd x).

Definition digests_ok (rp : replica) : Prop := Forall ent_digest_ok (rp_log rp).

Lemma derive_loop_digests m : forall recs idx pt pidx pd es,
  derive_loop m idx pt pidx pd recs = Some es -> Forall ent_digest_ok (combine es recs).
Proof.
  induction recs as [|r rest IH]; intros idx pt pidx pd es H; cbn in H.
  - inversion H; subst. constructor.
  - destruct (tag_is_zero (r_id r) || negb (r_epoch r =? m_e m) || (r_ts r =? 0)); [discriminate|].
    destruct (derive_loop m (idx + 1) (m_t m) idx _ rest) as [es'|] eqn:E; [|discriminate].
    inversion H; subst. cbn. constructor; [reflexivity | eapply IH; eauto].
Qed.

Lemma Derive_digests m recs es : DeriveProposalEntries m recs = Some es -> Forall ent_digest_ok (combine es recs).
Proof.
  unfold DeriveProposalEntries. destruct (_ || _ || _ || _ || _ || _ || _); [discriminate|].
  destruct (if m_base m =? 0 then _ else _); [discriminate|]. apply derive_loop_digests.
Qed.

Lemma Forall_firstn {A} (P : A -> Prop) k : forall l, Forall P l -> Forall P (firstn k l).
Proof.
  induction k as [|k IH]; intros l H; cbn; [constructor|]. destruct l; [constructor|].
  inversion H; subst. constructor; auto.
Qed.

Lemma sync_digests k rp mu rp' o nf : digests_ok rp -> sync k rp mu = (rp', o, nf) -> digests_ok rp'.
Proof.
  intros Hd H. pose proof (sync_effect_holds _ _ _ _ _ _ H) as He. unfold sync_effect in He. unfold digests_ok in *.
  destruct o.
  - destruct He as (_ & es & Hes & Hlog & _). rewrite Hlog. apply Forall_app. split; [exact Hd | eapply Derive_digests; eauto].
  - destruct He as (Hlog & _). rewrite Hlog. exact Hd.
  - subst. exact Hd.
  - subst. exact Hd.
  - subst. exact Hd.
Qed.

Lemma replace_append_mem_digests : forall ps rp base rp' final,
  digests_ok rp -> replace_append_mem rp ps base = inr (rp', final) -> digests_ok rp'.
Proof.
  induction ps as [|[m recs] ps IH]; intros rp base rp' final Hd H; cbn in H; [inversion H; subst; exact Hd|].
  destruct (negb (m_base m =? base)); [discriminate|].
  destruct (appendLeaderExactLocked rp m recs) as [[rp1 o] nf] eqn:E.
  pose proof (appendLeaderExactLocked_effect _ _ _ _ _ _ E) as He. unfold sync_effect in He. cbn [mu_manifest mu_records] in He.
  destruct o; cbn [outcome_durable] in H; try discriminate.
  - destruct He as (_ & es & Hes & Hlog & _). eapply IH; [|exact H]. unfold digests_ok. rewrite Hlog.
    apply Forall_app. split; [exact Hd | eapply Derive_digests; eauto].
  - destruct He as (Hlog & _). eapply IH; [|exact H]. unfold digests_ok. rewrite Hlog. exact Hd.
Qed.

Lemma replace_prepare_pebble_digests : forall ps rp keep base previous sc sl sr staged final acc,
  replace_prepare_pebble rp keep ps base previous sc sl sr = Some (staged, final) -> digests_ok acc ->
  digests_ok (fold_left (fun a s => let '(m, es, recs) := s in put_proposal a m es recs) staged acc).
Proof.
  induction ps as [|[m recs] ps IH]; intros rp keep base previous sc sl sr staged final acc H Hd; cbn in H.
  - inversion H; subst. exact Hd.
  - repeat (first [break_if H | break_match H]; try discriminate).
    inversion H as [[Hs Hf]]. subst staged final. cbn [fold_left].
    match goal with Hr : replace_prepare_pebble _ _ ps _ _ _ _ _ = Some _ |- _ => eapply IH; [exact Hr|] end.
    unfold digests_ok, put_proposal. cbn [rp_log]. apply Forall_app. split; [exact Hd | eapply Derive_digests; eauto].
Qed.

Lemma replace_digests k rp q rp' lo : digests_ok rp -> replace k rp q = inr (rp', lo) -> digests_ok rp'.
Proof.
  intros Hd. unfold replace.
  destruct (negb (validateRecoveryReplacement q)); [discriminate|].
  destruct (loadExactState k rp) as [current|]; [|discriminate].
  destruct (_ || _ || _ || _); [discriminate|].
  destruct k.
  - destruct ((0 <? rq_keep q) && negb _); [discriminate|].
    destruct (replace_append_mem (truncate_to rp (rq_keep q)) (rq_proposals q) (rq_keep q)) as [e | [rp1 base]] eqn:E; [discriminate|].
    destruct (base <? rq_committed q); [discriminate|]. intro H. inversion H; subst.
    assert (Ht : digests_ok (truncate_to rp (rq_keep q))) by (unfold digests_ok, truncate_to; cbn; apply Forall_firstn; exact Hd).
    exact (replace_append_mem_digests _ _ _ _ _ Ht E).
  - destruct ((0 <? rq_keep q) && negb _); [discriminate|].
    destruct (if 0 <? rq_keep q then ent_at rp (rq_keep q) else Some ident_zero) as [pv|]; [|discriminate].
    destruct (replace_prepare_pebble rp (rq_keep q) (rq_proposals q) (rq_keep q) pv [] [] []) as [[staged final]|] eqn:Eprep; [|discriminate].
    destruct (final <? rq_committed q); [discriminate|].
    destruct (stageTruncateDurableProposals rp (rq_keep q)) as [cut|] eqn:Ecut; [|discriminate].
    intro H. inversion H; subst. unfold stageTruncateDurableProposals in Ecut.
    repeat (break_if Ecut; try discriminate). inversion Ecut; subst cut.
    unfold digests_ok, set_hw. cbn [rp_log].
    apply (replace_prepare_pebble_digests _ _ _ _ _ _ _ _ _ _ _ Eprep).
    unfold digests_ok. cbn. apply Forall_firstn. exact Hd.
Qed.

(* ---- log matching ---------------------------------------------------------------------------------------- *)

Lemma ent_at_nth rp idx e : ent_at rp idx = Some e ->
  idx <> 0 /\ exists r, nth_error (rp_log rp) (N.to_nat (idx - 1)) = Some (e, r).
Proof.
  unfold ent_at, log_at. destruct (idx =? 0) eqn:E; [discriminate|].
  destruct (nth_error (rp_log rp) (N.to_nat (idx - 1))) as [[e0 r]|] eqn:En; [|discriminate].
  cbn. intro H. inversion H; subst. split; [lia | eauto].
Qed.

(* in a chain, entry k+1 names entry k's digest *)
Lemma chain_raw_link : forall l idx pt pidx pd k e1 r1 e2 r2,
  chain_raw idx pt pidx pd l -> nth_error l k = Some (e1, r1) -> nth_error l (S k) = Some (e2, r2) ->
  i_pd e2 = i_dg e1.
Proof.
  induction l as [|[e0 r0] l IH]; intros idx pt pidx pd k e1 r1 e2 r2 H H1 H2; [destruct k; discriminate|].
  cbn in H. destruct H as (_ & _ & _ & _ & E). destruct k as [|k].
  - cbn in H1, H2. inversion H1; subst. destruct l as [|[e3 r3] l']; [discriminate|].
    cbn in H2. inversion H2; subst. cbn in E. tauto.
  - cbn in H1, H2. eapply IH; eauto.
Qed.

Lemma digest_ok_inj (x y : ident * record) :
  ent_digest_ok x -> ent_digest_ok y -> i_dg (fst x) = i_dg (fst y) -> x = y.
Proof.
  destruct x as [[e1 t1 f1 i1 pt1 pi1 c1 pd1 dg1] r1], y as [[e2 t2 f2 i2 pt2 pi2 c2 pd2 dg2] r2].
  unfold ent_digest_ok. cbn. intros XA XB H.
  assert (E : DH e1 t1 f1 i1 pt1 pi1 c1 pd1 r1 = DH e2 t2 f2 i2 pt2 pi2 c2 pd2 r2) by congruence.
  inversion E. subst. reflexivity.
Qed.

(* two well-formed logs with the same identity digest at position k have the same entry (identity and
   row) at k and at every position below *)
Lemma log_matching_nat : forall k (A B : replica) xA xB,
  WF A -> WF B -> digests_ok A -> digests_ok B ->
  nth_error (rp_log A) k = Some xA -> nth_error (rp_log B) k = Some xB -> i_dg (fst xA) = i_dg (fst xB) ->
  forall j, (j <= k)%nat -> nth_error (rp_log A) j = nth_error (rp_log B) j.
Proof.
  induction k as [|k IH]; intros A B xA xB WA WB DA DB HA HB Hdg j Hj.
  - assert (j = 0)%nat by lia. subst j. rewrite HA, HB. f_equal.
    apply digest_ok_inj; [exact (proj1 (Forall_forall _ _) DA _ (nth_error_In _ _ HA))
                         | exact (proj1 (Forall_forall _ _) DB _ (nth_error_In _ _ HB)) | exact Hdg].
  - assert (Hsame : xA = xB).
    { apply digest_ok_inj; [exact (proj1 (Forall_forall _ _) DA _ (nth_error_In _ _ HA))
                           | exact (proj1 (Forall_forall _ _) DB _ (nth_error_In _ _ HB)) | exact Hdg]. }
    destruct (Nat.eq_dec j (S k)) as [-> | Hne]; [rewrite HA, HB; f_equal; exact Hsame|].
    destruct (nth_error (rp_log A) k) as [[pA qA]|] eqn:PA.
    2:{ apply nth_error_None in PA. assert (S k < length (rp_log A))%nat by (apply nth_error_Some; congruence). lia. }
    destruct (nth_error (rp_log B) k) as [[pB qB]|] eqn:PB.
    2:{ apply nth_error_None in PB. assert (S k < length (rp_log B))%nat by (apply nth_error_Some; congruence). lia. }
    destruct xA as [eA rA], xB as [eB rB].
    pose proof (chain_raw_link _ _ _ _ _ _ _ _ _ _ (proj1 WA) PA HA) as LA.
    pose proof (chain_raw_link _ _ _ _ _ _ _ _ _ _ (proj1 WB) PB HB) as LB.
    apply (IH A B (pA, qA) (pB, qB) WA WB DA DB PA PB); [|lia].
    cbn [fst]. rewrite <- LA, <- LB. inversion Hsame. reflexivity.
Qed.

Lemma log_matching (A B : replica) k e :
  WF A -> WF B -> digests_ok A -> digests_ok B ->
  ent_at A k = Some e -> ent_at B k = Some e ->
  forall idx, idx <= k -> ent_at A idx = ent_at B idx.
Proof.
  intros WA WB DA DB HA HB idx Hi.
  destruct (ent_at_nth _ _ _ HA) as (Hk & rA & NA). destruct (ent_at_nth _ _ _ HB) as (_ & rB & NB).
  unfold ent_at, log_at. destruct (idx =? 0) eqn:E0; [reflexivity|].
  rewrite (log_matching_nat (N.to_nat (k - 1)) A B (e, rA) (e, rB) WA WB DA DB NA NB eq_refl (N.to_nat (idx - 1))) by lia.
  reflexivity.
Qed.
