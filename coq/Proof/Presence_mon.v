(* Proof/Presence_mon.v — the monitor of C33 accepts every trace of the model *)
From WK Require Import Base.Base Gen.Consts_C33 Model.Presence Proof.AckTracker_map Proof.Presence_map
     Proof.Presence_inv Proof.Presence_ops Proof.Presence_dir Proof.Presence.
From Coq Require Import Permutation Sorted.
Open Scope N_scope.

(* ---- list plumbing ------------------------------------------------------------------------------ *)
Lemma filter_flat_map {A B} (p : B -> bool) (f : A -> list B) l :
  filter p (flat_map f l) = flat_map (fun x => filter p (f x)) l.
Proof.
  induction l as [|a l IH]; simpl; [reflexivity|]. rewrite filter_app, IH. reflexivity.
Qed.

Lemma filter_map_comm {A B} (p : B -> bool) (g : A -> B) l :
  filter p (map g l) = map g (filter (fun x => p (g x)) l).
Proof.
  induction l as [|a l IH]; simpl; [reflexivity|]. destruct (p (g a)); simpl; rewrite IH; reflexivity.
Qed.

Lemma filter_none {A} (f : A -> bool) l : (forall x, In x l -> f x = false) -> filter f l = [].
Proof.
  induction l as [|a l IH]; simpl; [reflexivity|]. intro H.
  rewrite (H a) by (left; reflexivity). apply IH. intros x Hx. apply H. right. exact Hx.
Qed.

Lemma brief_eqb_refl x : brief_eqb x x = true.
Proof.
  destruct x as [[[h k] s] z]. unfold brief_eqb. rewrite !N.eqb_refl, ikey_eqb_refl, Z.eqb_refl. reflexivity.
Qed.

Lemma brief_eqb_eq x y : brief_eqb x y = true -> x = y.
Proof.
  destruct x as [[[h k] s] z]. destruct y as [[[h2 k2] s2] z2]. unfold brief_eqb.
  rewrite !andb_true_iff, !N.eqb_eq, Z.eqb_eq. intros [[[H1 H2] H3] H4]. apply ikey_eqb_spec in H2. subst. reflexivity.
Qed.

Lemma brief_mem_in x l : brief_mem x l = true <-> In x l.
Proof.
  unfold brief_mem. rewrite existsb_exists. split.
  - intros [y [H1 H2]]. apply brief_eqb_eq in H2. subst. exact H1.
  - intro H. exists x. split; [exact H|apply brief_eqb_refl].
Qed.

Lemma brief_same_refl l : brief_same l l = true.
Proof.
  unfold brief_same. rewrite Nat.eqb_refl. simpl.
  assert (X : forallb (fun x => brief_mem x l) l = true).
  { apply forallb_forall. intros x Hx. apply brief_mem_in. exact Hx. }
  rewrite X. reflexivity.
Qed.

(* ---- active_brief ----------------------------------------------------------------------------------- *)
Definition slot_brief (hs : N) (s : slot) : list brief :=
  map (fun kr : ikey * route => (hs, fst kr, r_oseq (snd kr), r_seen (snd kr))) (sl_active s).

Lemma active_brief_flat d : active_brief d = flat_map (fun hs_s => slot_brief (fst hs_s) (snd hs_s)) (d_slots d).
Proof. reflexivity. Qed.

Lemma in_active_brief d x :
  In x (active_brief d) <->
  exists hs s k r, In (hs, s) (d_slots d) /\ In (k, r) (sl_active s) /\ x = (hs, k, r_oseq r, r_seen r).
Proof.
  rewrite active_brief_flat, in_flat_map. split.
  - intros [[hs s] [H1 H2]]. unfold slot_brief in H2. simpl in H2. apply in_map_iff in H2.
    destruct H2 as [[k r] [E H3]]. exists hs, s, k, r. simpl in E. auto.
  - intros [hs [s [k [r [H1 [H2 E]]]]]]. exists (hs, s). split; [exact H1|].
    unfold slot_brief. simpl. apply in_map_iff. exists (k, r). auto.
Qed.

(* briefs of one hash slot come from that slot only *)
Lemma active_brief_of_slot d hs s (p : brief -> bool) :
  DInv d -> nget hs (d_slots d) = Some s ->
  (forall x, p x = true -> let '(h, _, _, _) := x in h = hs) ->
  filter p (active_brief d) = filter p (slot_brief hs s).
Proof.
  intros I G P. rewrite active_brief_flat, filter_flat_map.
  pose proof (di_nodup d I) as ND. revert G ND. generalize (d_slots d). intro l.
  induction l as [|[h s0] rest IH]; intros G ND; simpl in *; [discriminate|].
  inversion ND as [|? ? Hn ND']. subst.
  assert (OTHER : forall h' s', h' <> hs -> filter p (slot_brief h' s') = []).
  { intros h' s' Hne. apply (filter_none p). intros x Hx. unfold slot_brief in Hx. apply in_map_iff in Hx.
    destruct Hx as [[k r] [E _]]. simpl in E. subst x. destruct (p (h', k, r_oseq r, r_seen r)) eqn:PX; [|reflexivity].
    apply P in PX. congruence. }
  destruct (N.eqb_spec hs h) as [E|E].
  - subst h. inversion G. subst s0.
    assert (REST : flat_map (fun x : N * slot => filter p (slot_brief (fst x) (snd x))) rest = []).
    { clear IH G ND ND'. induction rest as [|[h2 s2] r2 IHr]; simpl; [reflexivity|].
      rewrite OTHER; [|intro X; subst; apply Hn; left; reflexivity]. simpl. apply IHr.
      intro X. apply Hn. right. exact X. }
    rewrite REST, app_nil_r. reflexivity.
  - rewrite (OTHER h s0) by congruence. simpl. apply IH; assumption.
Qed.

(* ---- the relation between the model state and what the monitor tracks ---------------------------- *)
Record MonRel (d : directory) (a : auth) (tb : tombs) : Prop := {
  mr_inv : DInv d;
  mr_auth : forall hs, nget hs a = match nget hs (d_slots d) with Some s => Some (sl_target s) | None => None end;
  mr_tomb : forall hs s, nget hs (d_slots d) = Some s -> forall k, iget k (tomb_of tb hs) = iget k (sl_tomb s) }.

Lemma MonRel_new l : MonRel (NewDirectory l) [] [].
Proof. constructor; [apply DInv_new|reflexivity|discriminate]. Qed.

Lemma accepted_validate d a tb g :
  MonRel d a tb -> accepted (d_local d) a g = match validateTargetLocked d g with Some _ => true | None => false end.
Proof.
  intros M. unfold accepted, validateTargetLocked. rewrite (mr_auth d a tb M).
  destruct (negb (d_local d =? 0) && negb (g_leader g =? d_local d)); [reflexivity|]. simpl.
  destruct (nget (g_hs g) (d_slots d)) as [s|]; [|reflexivity].
  destruct (sameAuthorityIdentity (sl_target s) g); reflexivity.
Qed.

Definition brief_id (x : brief) : N * ikey := let '(h, k, _, _) := x in (h, k).

Lemma NoDup_app_intro {A} (l1 l2 : list A) :
  NoDup l1 -> NoDup l2 -> (forall x, In x l1 -> ~ In x l2) -> NoDup (l1 ++ l2).
Proof.
  induction l1 as [|a l1 IH]; simpl; intros N1 N2 H; [exact N2|].
  inversion N1 as [|? ? Hn N1']. subst. constructor.
  - intro X. apply in_app_or in X. destruct X as [X|X]; [contradiction|]. apply (H a); [left; reflexivity|exact X].
  - apply IH; [exact N1'|exact N2|]. intros x Hx. apply H. right. exact Hx.
Qed.

Lemma brief_keys_nodup_of l : NoDup (map brief_id l) -> brief_keys_nodup l = true.
Proof.
  induction l as [|[[[h k] s] z] r IH]; simpl; intro ND; [reflexivity|].
  inversion ND as [|? ? Hn ND']. subst. rewrite IH by exact ND'. rewrite andb_true_r. apply negb_true_iff.
  match goal with |- existsb ?f r = false => destruct (existsb f r) eqn:E end; [|reflexivity].
  exfalso. apply existsb_exists in E.
  destruct E as [[[[h2 k2] s2] z2] [H1 H2]]. apply andb_true_iff in H2. destruct H2 as [H2 H3].
  apply N.eqb_eq in H2. apply ikey_eqb_spec in H3. subst. apply Hn.
  apply (in_map brief_id) in H1. exact H1.
Qed.

Lemma active_brief_nodup d : DInv d -> brief_keys_nodup (active_brief d) = true.
Proof.
  intro I. apply brief_keys_nodup_of. rewrite active_brief_flat.
  pose proof (di_nodup d I) as ND. pose proof (di_slots d I) as SL.
  assert (SL' : forall hs s, In (hs, s) (d_slots d) -> NoDup (al_keys (sl_active s))).
  { intros hs s Hin. apply (si_act_nodup s). apply (SL hs). apply (n_in_get _ _ _ ND Hin). }
  clear SL I. revert ND SL'. generalize (d_slots d). intro l.
  induction l as [|[h s] rest IH]; intros ND SL; simpl; [constructor|].
  inversion ND as [|? ? Hn ND']. subst. rewrite map_app. apply NoDup_app_intro.
  - unfold slot_brief. rewrite map_map. simpl.
    specialize (SL h s (or_introl eq_refl)). unfold al_keys in SL.
    rewrite <- (map_map fst (fun k : ikey => (h, k))). apply FinFun.Injective_map_NoDup; [|exact SL].
    intros a b E. inversion E. reflexivity.
  - apply IH; [exact ND'|]. intros hs s' Hin. apply (SL hs). right. exact Hin.
  - intros x Hx Hy. apply in_map_iff in Hx. destruct Hx as [b1 [E1 H1]]. unfold slot_brief in H1.
    apply in_map_iff in H1. destruct H1 as [[k r] [E2 _]]. subst b1. simpl in E1. subst x.
    apply in_map_iff in Hy. destruct Hy as [b2 [E3 H3]]. apply in_flat_map in H3. destruct H3 as [[h2 s2] [H4 H5]].
    unfold slot_brief in H5. apply in_map_iff in H5. destruct H5 as [[k2 r2] [E4 _]]. subst b2. simpl in E3. inversion E3. subst.
    apply Hn. apply (in_map fst) in H4. exact H4.
Qed.

Lemma tomb_respected_ok d a tb : MonRel d a tb -> tomb_respected a tb (active_brief d) = true.
Proof.
  intros M. pose proof (mr_inv d a tb M) as I. unfold tomb_respected. apply forallb_forall. intros x Hx.
  apply in_active_brief in Hx. destruct Hx as [hs [s [k [r [H1 [H2 E]]]]]]. subst x.
  pose proof (n_in_get _ _ _ (di_nodup d I) H1) as G. destruct (di_slots d I _ _ G) as [IS _].
  rewrite (mr_auth d a tb M), G. rewrite (mr_tomb d a tb M hs s G).
  pose proof (si_tomb s IS _ _ (i_in_get _ _ _ (si_act_nodup s IS) H2)) as T. unfold tombstoned in T.
  destruct (iget k (sl_tomb s)) as [t|]; [|reflexivity]. apply N.leb_gt in T. apply N.ltb_lt. exact T.
Qed.

(* ---- an accepted call is never answered "not leader" ------------------------------------------------- *)
Lemma registerLocked_err s r : snd (fst (fst (registerLocked s r))) <> ENotLeader.
Proof.
  unfold registerLocked. destruct (tombstoned _ _ _); [simpl; discriminate|].
  destruct (_ <? _); [simpl; discriminate|]. destruct (conflictsLocked _ _); simpl; discriminate.
Qed.

Lemma commitRouteLocked_err s tok : snd (commitRouteLocked s tok) <> ENotLeader.
Proof.
  unfold commitRouteLocked. destruct (nget tok (sl_pending s)) as [[r acked]|]; [|simpl; discriminate].
  destruct (tombstoned _ _ _); [simpl; discriminate|]. destruct (_ <? _); [simpl; discriminate|].
  destruct (negb _); simpl; discriminate.
Qed.

(* ---- lookups ------------------------------------------------------------------------------------------ *)
Lemma StronglySorted_map {A B} (f : A -> B) (R : B -> B -> Prop) l :
  StronglySorted (fun a b => R (f a) (f b)) l -> StronglySorted R (map f l).
Proof.
  induction 1 as [|a l HS IH HF]; simpl; constructor; [exact IH|].
  rewrite Forall_forall in *. intros y Hy. apply in_map_iff in Hy. destruct Hy as [x [E Hx]]. subst. apply HF. exact Hx.
Qed.

Lemma firstn_app_exact {A} (l1 l2 : list A) : firstn (length l1) (l1 ++ l2) = l1.
Proof. induction l1 as [|a l1 IH]; simpl; [reflexivity|]. rewrite IH. reflexivity. Qed.
Lemma skipn_app_exact {A} (l1 l2 : list A) : skipn (length l1) (l1 ++ l2) = l2.
Proof. induction l1 as [|a l1 IH]; simpl; [reflexivity|exact IH]. Qed.

Lemma lookup_ok_model d hs s uids :
  DInv d -> nget hs (d_slots d) = Some s ->
  lookup_ok hs (active_brief d) uids (flat_map (endpointsByUIDLocked s) uids) = true.
Proof.
  intros I G. destruct (di_slots d I _ _ G) as [IS _].
  induction uids as [|u rest IH]; [reflexivity|]. cbn [lookup_ok flat_map].
  set (p := fun x : brief => let '(h, k, _, _) := x in (h =? hs) && (let '(ku, _, _, _) := k in ku =? u)).
  destruct (endpoints_sorted s u IS) as [PERM SORT].
  assert (CNT : length (filter p (active_brief d)) = length (endpointsByUIDLocked s u)).
  { rewrite (active_brief_of_slot d hs s p I G).
    - rewrite (Permutation_length PERM), map_length. unfold slot_brief. rewrite filter_map_comm, map_length.
      f_equal. apply filter_ext_in. intros [k r] Hin. simpl. rewrite N.eqb_refl. simpl.
      destruct (si_act_key s IS _ _ (i_in_get _ _ _ (si_act_nodup s IS) Hin)) as [K _]. subst k. reflexivity.
    - intros [[[h k] q] z] PX. unfold p in PX. apply andb_true_iff in PX. apply N.eqb_eq. apply PX. }
  rewrite CNT, firstn_app_exact, skipn_app_exact, Nat.eqb_refl, IH. rewrite andb_true_r. cbn [andb].
  apply andb_true_iff. split.
  - apply forallb_forall. intros r Hr.
    eapply Permutation_in in Hr; [|exact PERM]. apply in_map_iff in Hr. destruct Hr as [[k r'] [E Hin]]. simpl in E. subst r'.
    apply filter_In in Hin. destruct Hin as [Hin U]. simpl in U. rewrite U. simpl.
    apply brief_mem_in. apply in_active_brief. exists hs, s, k, r.
    split; [apply (n_get_some_in _ _ _ G)|]. split; [exact Hin|].
    unfold brief_of_route. destruct (si_act_key s IS _ _ (i_in_get _ _ _ (si_act_nodup s IS) Hin)) as [K _]. rewrite K. reflexivity.
  - apply strictly_sorted_of_strong. apply StronglySorted_map. exact SORT.
Qed.

Lemma lookup_result_model d a tb g uids :
  MonRel d a tb ->
  lookup_result_ok (d_local d) a (active_brief d) g uids (fst (EndpointsByUIDs d g uids)) (snd (EndpointsByUIDs d g uids)) = true.
Proof.
  intros M. unfold lookup_result_ok. rewrite (accepted_validate d a tb g M). unfold EndpointsByUIDs.
  destruct (validateTargetLocked d g) as [s|] eqn:V; [|reflexivity]. simpl.
  apply lookup_ok_model; [apply (mr_inv d a tb M)|apply (validate_some _ _ _ V)].
Qed.

Lemma groups_model d a tb gs :
  MonRel d a tb -> groups_ok (d_local d) a (active_brief d) gs (EndpointsByTargets d gs) = true.
Proof.
  intros M. induction gs as [|g rest IH]; [reflexivity|]. cbn [groups_ok EndpointsByTargets map].
  fold (EndpointsByTargets d rest). rewrite IH, andb_true_r. apply (lookup_result_model d a tb (fst g) (snd g) M).
Qed.

(* ---- expiry ---------------------------------------------------------------------------------------------- *)
Definition exp1 (r : Z * Z * Z * Z * Z) : Z := let '(a, _, _, _, _) := r in a.

Lemma exp1_add5 a b : exp1 (add5 a b) = (exp1 a + exp1 b)%Z.
Proof. destruct a as [[[[a1 a2] a3] a4] a5]. destruct b as [[[[b1 b2] b3] b4] b5]. reflexivity. Qed.

Lemma brief_due_route nowS nowN ttl hs k r :
  brief_due nowS nowN ttl (hs, k, r_oseq r, r_seen r) = route_due nowS nowN ttl r.
Proof. reflexivity. Qed.

Lemma expire_slots_brief slots nowS nowN ttl :
  (forall hs s, In (hs, s) slots -> SInv s) ->
  flat_map (fun hs_s => slot_brief (fst hs_s) (snd hs_s)) (fst (expire_slots slots nowS nowN ttl))
  = filter (fun x => negb (brief_due nowS nowN ttl x)) (flat_map (fun hs_s => slot_brief (fst hs_s) (snd hs_s)) slots)
  /\ exp1 (snd (expire_slots slots nowS nowN ttl))
     = Z.of_nat (length (filter (brief_due nowS nowN ttl) (flat_map (fun hs_s => slot_brief (fst hs_s) (snd hs_s)) slots))).
Proof.
  induction slots as [|[hs s] rest IH]; intro H; [split; reflexivity|].
  cbn [expire_slots].
  pose proof (expireLocked_spec s nowS nowN ttl (H hs s (or_introl eq_refl))) as E.
  destruct (expireLocked s nowS nowN ttl) as [s' [[[[a1 b1] c1] e1] f1]].
  destruct E as [_ [E2 [E3 _]]].
  destruct (IH (fun h x Hin => H h x (or_intror Hin))) as [IH1 IH2].
  destruct (expire_slots rest nowS nowN ttl) as [rest' r2]. cbn [fst snd flat_map] in *.
  assert (SB : forall (q : brief -> bool) (g : route -> bool),
             (forall k r, q (hs, k, r_oseq r, r_seen r) = g r) ->
             filter q (slot_brief hs s) = map (fun kr : ikey * route => (hs, fst kr, r_oseq (snd kr), r_seen (snd kr)))
                                              (filter (fun kr : ikey * route => g (snd kr)) (sl_active s))).
  { intros q g Q. unfold slot_brief. rewrite filter_map_comm. f_equal. apply filter_ext. intros [k r]. apply Q. }
  split.
  - rewrite filter_app, <- IH1. f_equal. unfold slot_brief at 1. rewrite E2.
    symmetry. apply (SB (fun x => negb (brief_due nowS nowN ttl x)) (fun r => negb (route_due nowS nowN ttl r))).
    intros k r. reflexivity.
  - rewrite exp1_add5, IH2, filter_app, app_length, Nat2Z.inj_add. f_equal. cbn [exp1]. rewrite E3.
    rewrite (SB (brief_due nowS nowN ttl) (route_due nowS nowN ttl)) by (intros; reflexivity).
    rewrite map_length. reflexivity.
Qed.

(* ---- snapshot ------------------------------------------------------------------------------------------------ *)
Lemma fold_add_lengths {A B} (f : A -> list B) l : forall acc,
  fold_left Z.add (map (fun x => Z.of_nat (length (f x))) l) acc = (acc + Z.of_nat (length (flat_map f l)))%Z.
Proof.
  induction l as [|a l IH]; intro acc; simpl; [lia|]. rewrite IH, app_length, Nat2Z.inj_add. lia.
Qed.

Lemma snapshot_active d :
  (let '(a, _, _, _, _, _) := Snapshot d in a) = Z.of_nat (length (active_brief d)).
Proof.
  unfold Snapshot. cbv zeta. rewrite map_map. rewrite active_brief_flat.
  rewrite (map_ext _ (fun x : N * slot => Z.of_nat (length (slot_brief (fst x) (snd x))))).
  - rewrite (fold_add_lengths (fun hs_s : N * slot => slot_brief (fst hs_s) (snd hs_s)) (d_slots d) 0%Z). reflexivity.
  - intros [hs s]. unfold slot_brief. rewrite map_length. reflexivity.
Qed.

(* ---- the tracked authorities and fences follow the model --------------------------------------------------- *)
Lemma tomb_of_set tb hs m hs' : tomb_of (al_set N.eqb hs m tb) hs' = if hs' =? hs then m else tomb_of tb hs'.
Proof.
  unfold tomb_of. destruct (N.eqb_spec hs' hs) as [E|E].
  - subst. rewrite n_get_set_same. reflexivity.
  - rewrite n_get_set_other by congruence. reflexivity.
Qed.

Lemma tomb_of_del tb hs hs' : tomb_of (al_del N.eqb hs tb) hs' = if hs' =? hs then [] else tomb_of tb hs'.
Proof.
  unfold tomb_of. destruct (N.eqb_spec hs' hs) as [E|E].
  - subst. rewrite n_get_del_same. reflexivity.
  - rewrite n_get_del_other by congruence. reflexivity.
Qed.

Lemma MonRel_put d a tb tb' g s s' :
  MonRel d a tb -> validateTargetLocked d g = Some s -> sl_target s' = sl_target s -> SInv s' ->
  (forall k, iget k (tomb_of tb' (g_hs g)) = iget k (sl_tomb s')) ->
  (forall hs', hs' <> g_hs g -> tomb_of tb' hs' = tomb_of tb hs') ->
  MonRel (put_slot d (g_hs g) s') a tb'.
Proof.
  intros M V T IS TB OTH. apply validate_some in V. destruct V as [V _].
  pose proof (mr_inv d a tb M) as I. destruct (di_slots d I _ _ V) as [_ GH].
  constructor.
  - apply put_slot_inv; [exact I|exact IS|congruence].
  - intro hs. rewrite put_slot_get, (mr_auth d a tb M). destruct (N.eqb_spec hs (g_hs g)) as [E|E]; [|reflexivity].
    subst hs. rewrite V, T. reflexivity.
  - intros hs s0. rewrite put_slot_get. destruct (N.eqb_spec hs (g_hs g)) as [E|E].
    + subst hs. intro X. inversion X. subst s0. exact TB.
    + intros G k. rewrite (OTH hs E). apply (mr_tomb d a tb M hs s0 G).
Qed.

Lemma MonRel_step d a tb o :
  MonRel d a tb ->
  MonRel (fst (step d o)) (auth_step a o) (tomb_step (d_local d) a tb o) /\ d_local (fst (step d o)) = d_local d.
Proof.
  intro M. pose proof (mr_inv d a tb M) as I.
  assert (SAME : forall g, validateTargetLocked d g = None -> accepted (d_local d) a g = false).
  { intros g V. rewrite (accepted_validate d a tb g M), V. reflexivity. }
  assert (ACC : forall g s, validateTargetLocked d g = Some s -> accepted (d_local d) a g = true).
  { intros g s V. rewrite (accepted_validate d a tb g M), V. reflexivity. }
  destruct o; cbn [step auth_step tomb_step].
  - (* become *)
    simpl fst. unfold BecomeAuthority. rewrite (mr_auth d a tb M).
    assert (FRESH : MonRel (put_slot d (g_hs g) (newAuthoritySlot g)) (al_set N.eqb (g_hs g) g a) (al_del N.eqb (g_hs g) tb)).
    { constructor.
      - apply put_slot_inv; [exact I|apply SInv_new|reflexivity].
      - intro hs. rewrite put_slot_get. destruct (N.eqb_spec hs (g_hs g)) as [E|E].
        + subst. rewrite n_get_set_same. reflexivity.
        + rewrite n_get_set_other by congruence. apply (mr_auth d a tb M).
      - intros hs s0. rewrite put_slot_get, tomb_of_del. destruct (N.eqb_spec hs (g_hs g)) as [E|E].
        + intro X. inversion X. reflexivity.
        + apply (mr_tomb d a tb M). }
    destruct (nget (g_hs g) (d_slots d)) as [cur|] eqn:G; [|split; [exact FRESH|reflexivity]].
    destruct (sameAuthorityIdentity (sl_target cur) g); [|split; [exact FRESH|reflexivity]].
    destruct (g_rev (sl_target cur) <=? g_rev g); [|split; [exact M|reflexivity]].
    split; [|reflexivity]. destruct (di_slots d I _ _ G) as [IS _]. constructor.
    + apply put_slot_inv; [exact I| |reflexivity]. apply (SInv_ext cur); try reflexivity. exact IS.
    + intro hs. rewrite put_slot_get. destruct (N.eqb_spec hs (g_hs g)) as [E|E].
      * subst. rewrite n_get_set_same. reflexivity.
      * rewrite n_get_set_other by congruence. apply (mr_auth d a tb M).
    + intros hs s0. rewrite put_slot_get. destruct (N.eqb_spec hs (g_hs g)) as [E|E].
      * subst hs. intro X. inversion X. subst s0. apply (mr_tomb d a tb M _ _ G).
      * apply (mr_tomb d a tb M).
  - (* lose *)
    split; [|reflexivity]. simpl fst. constructor.
    + apply (step_inv d (OLose hs) I).
    + intro h. simpl. destruct (N.eq_dec hs h) as [E|E].
      * subst. rewrite !n_get_del_same. reflexivity.
      * rewrite !n_get_del_other by exact E. apply (mr_auth d a tb M).
    + intros h s0. simpl. rewrite tomb_of_del. destruct (N.eqb_spec h hs) as [E|E].
      * subst. rewrite n_get_del_same. discriminate.
      * rewrite n_get_del_other by congruence. apply (mr_tomb d a tb M).
  - (* register *)
    unfold RegisterRoute. destruct (validateTargetLocked d g) as [s|] eqn:V; [|split; [exact M|reflexivity]].
    destruct (di_slots d I _ _ (proj1 (validate_some _ _ _ V))) as [IS _].
    pose proof (registerLocked_inv s r IS) as R. destruct (registerLocked s r) as [[[s' e] tok] acts].
    destruct R as [R1 [R2 R3]]. split; [|reflexivity]. simpl fst.
    apply (MonRel_put d a tb tb g s s' M V R3 R1); [|auto].
    intro k. rewrite R2. apply (mr_tomb d a tb M _ _ (proj1 (validate_some _ _ _ V))).
  - (* commit *)
    unfold CommitRoute. destruct (validateTargetLocked d g) as [s|] eqn:V; [|split; [exact M|reflexivity]].
    destruct (di_slots d I _ _ (proj1 (validate_some _ _ _ V))) as [IS _].
    pose proof (commitRouteLocked_inv s tok IS) as R. destruct (commitRouteLocked s tok) as [s' e].
    destruct R as [R1 [R2 R3]]. split; [|reflexivity]. simpl fst.
    apply (MonRel_put d a tb tb g s s' M V R3 R1); [|auto].
    intro k. rewrite R2. apply (mr_tomb d a tb M _ _ (proj1 (validate_some _ _ _ V))).
  - (* abort *)
    unfold AbortRoute. destruct (validateTargetLocked d g) as [s|] eqn:V; [|split; [exact M|reflexivity]].
    destruct (di_slots d I _ _ (proj1 (validate_some _ _ _ V))) as [IS _].
    destruct (nget tok (sl_pending s)); [|split; [exact M|reflexivity]]. split; [|reflexivity]. simpl fst.
    apply (MonRel_put d a tb tb g s _ M V); [reflexivity| | |auto].
    + apply (SInv_ext s); try reflexivity. exact IS.
    + intro k. apply (mr_tomb d a tb M _ _ (proj1 (validate_some _ _ _ V))).
  - (* unregister *)
    unfold UnregisterRoute. destruct (validateTargetLocked d g) as [s|] eqn:V.
    2:{ rewrite (SAME g V). split; [exact M|reflexivity]. }
    rewrite (ACC g s V).
    destruct (di_slots d I _ _ (proj1 (validate_some _ _ _ V))) as [IS _].
    destruct (unregisterLocked_inv s k oseq IS) as [R1 [R2 R3]]. split; [|reflexivity]. simpl fst.
    apply (MonRel_put d a tb _ g s _ M V R2 R1).
    + intro k'. rewrite tomb_of_set, N.eqb_refl, R3, !raise_fence_get.
      rewrite !(mr_tomb d a tb M _ _ (proj1 (validate_some _ _ _ V))). reflexivity.
    + intros hs' Hne. rewrite tomb_of_set. destruct (N.eqb_spec hs' (g_hs g)); [contradiction|reflexivity].
  - (* touch *)
    unfold TouchRoutes. destruct (validateTargetLocked d g) as [s|] eqn:V; [|split; [exact M|reflexivity]].
    destruct (di_slots d I _ _ (proj1 (validate_some _ _ _ V))) as [IS _].
    destruct (fold_touch_inv rs s IS) as [R1 [R2 R3]]. split; [|reflexivity]. cbn [fst].
    pose proof (MonRel_put d a tb tb g s _ M V R3 R1) as P.
    assert (P' : MonRel (put_slot d (g_hs g) (fold_left touchLocked rs s)) a tb).
    { apply P; [|auto]. intro k. rewrite R2. apply (mr_tomb d a tb M _ _ (proj1 (validate_some _ _ _ V))). }
    destruct P' as [[P1 P2] P3 P4]. constructor; [constructor; [exact P1|exact P2]|exact P3|exact P4].
  - (* expire *)
    unfold ExpireRoutesDetailed.
    pose proof (expire_slots_get (d_slots d) nowS nowN ttl) as EG.
    pose proof (step_inv d (OExpire nowS nowN ttl) I) as I'. cbn [step] in I'. unfold ExpireRoutesDetailed in I'.
    destruct (expire_slots (d_slots d) nowS nowN ttl) as [slots' [[[[e1 e2] e3] e4] e5]]. cbn [fst snd] in *.
    split; [|reflexivity]. constructor; cbn [d_slots].
    + exact I'.
    + intro hs. rewrite EG, (mr_auth d a tb M). destruct (nget hs (d_slots d)) as [s|] eqn:G; [|reflexivity].
      destruct (di_slots d I _ _ G) as [IS _]. destruct (expireLocked_inv s nowS nowN ttl IS) as [_ [R2 _]]. rewrite R2. reflexivity.
    + intros hs s'. rewrite EG. destruct (nget hs (d_slots d)) as [s|] eqn:G; [|discriminate].
      intro X. inversion X. subst s'. intro k. destruct (di_slots d I _ _ G) as [IS _].
      destruct (expireLocked_inv s nowS nowN ttl IS) as [_ [_ R3]]. rewrite R3. apply (mr_tomb d a tb M _ _ G).
  - simpl. destruct (EndpointsByUIDs d g uids). split; [exact M|reflexivity].
  - simpl. destruct (EndpointsByUID d g uid). split; [exact M|reflexivity].
  - split; [exact M|reflexivity].
  - simpl. destruct (Snapshot d) as [[[[[x1 x2] x3] x4] x5] x6]. split; [exact M|reflexivity].
Qed.

(* ---- every step of the model is accepted by the monitor ------------------------------------------------------ *)
Lemma err_eqb_nl e : e <> ENotLeader -> negb (err_eqb e ENotLeader) = true.
Proof. destruct e; simpl; congruence. Qed.

Lemma mon_step_ok d a tb o :
  MonRel d a tb ->
  mon_step (d_local d) a tb (active_brief d) o (snd (step d o)) (active_brief (fst (step d o))) = true.
Proof.
  intro M. destruct (MonRel_step d a tb o M) as [M1 L1].
  pose proof (active_brief_nodup _ (mr_inv _ _ _ M1)) as ND.
  pose proof (tomb_respected_ok _ _ _ M1) as TR.
  unfold mon_step. rewrite ND, TR. cbn [andb]. clear ND TR M1 L1.
  pose proof (accepted_validate d a tb) as AV.
  destruct o; cbn [op_target step].
  - reflexivity.
  - reflexivity.
  - (* register *)
    rewrite (AV g M). unfold RegisterRoute. destruct (validateTargetLocked d g) as [s|] eqn:V.
    + pose proof (registerLocked_err s r) as E. destruct (registerLocked s r) as [[[s' e] tok] acts]. simpl in *.
      rewrite (err_eqb_nl e E). reflexivity.
    + simpl. rewrite brief_same_refl. reflexivity.
  - (* commit *)
    rewrite (AV g M). unfold CommitRoute. destruct (validateTargetLocked d g) as [s|] eqn:V.
    + pose proof (commitRouteLocked_err s tok) as E. destruct (commitRouteLocked s tok) as [s' e]. simpl in *.
      rewrite (err_eqb_nl e E). reflexivity.
    + simpl. rewrite brief_same_refl. reflexivity.
  - (* abort *)
    rewrite (AV g M). unfold AbortRoute. destruct (validateTargetLocked d g) as [s|] eqn:V.
    + destruct (nget tok (sl_pending s)); reflexivity.
    + simpl. rewrite brief_same_refl. reflexivity.
  - (* unregister *)
    rewrite (AV g M). unfold UnregisterRoute. destruct (validateTargetLocked d g) as [s|] eqn:V.
    + reflexivity.
    + simpl. rewrite brief_same_refl. reflexivity.
  - (* touch *)
    rewrite (AV g M). unfold TouchRoutes. destruct (validateTargetLocked d g) as [s|] eqn:V.
    + reflexivity.
    + simpl. rewrite brief_same_refl. reflexivity.
  - (* expire *)
    unfold ExpireRoutesDetailed.
    pose proof (expire_slots_brief (d_slots d) nowS nowN ttl) as EB.
    destruct (expire_slots (d_slots d) nowS nowN ttl) as [slots' [[[[e1 e2] e3] e4] e5]]. cbn [fst snd exp1] in *.
    destruct EB as [EB1 EB2].
    { intros hs s Hin. apply (di_slots d (mr_inv d a tb M) hs).
      apply (n_in_get _ _ _ (di_nodup d (mr_inv d a tb M)) Hin). }
    rewrite !active_brief_flat. cbn [d_slots]. rewrite EB1, EB2, brief_same_refl, Z.eqb_refl. reflexivity.
  - (* lookup *)
    rewrite (AV g M).
    pose proof (lookup_result_model d a tb g uids M) as L. unfold lookup_result_ok in L. rewrite (AV g M) in L.
    unfold lookup_result_ok. rewrite (AV g M).
    destruct (EndpointsByUIDs d g uids) as [e rs] eqn:EE. cbn [fst snd out_err] in *.
    rewrite brief_same_refl, andb_true_r.
    destruct (validateTargetLocked d g) as [s|] eqn:V.
    + rewrite L. apply andb_true_iff in L. destruct L as [L _]. destruct e; try discriminate. reflexivity.
    + rewrite L. apply andb_true_iff in L. destruct L as [L _]. rewrite L. reflexivity.
  - (* lookup1 *)
    rewrite (AV g M).
    pose proof (lookup_result_model d a tb g [uid] M) as L. unfold lookup_result_ok in L. rewrite (AV g M) in L.
    unfold lookup_result_ok. rewrite (AV g M).
    assert (EQ : EndpointsByUID d g uid = EndpointsByUIDs d g [uid]).
    { unfold EndpointsByUID, EndpointsByUIDs. destruct (validateTargetLocked d g); [|reflexivity].
      simpl. rewrite app_nil_r. reflexivity. }
    rewrite EQ. destruct (EndpointsByUIDs d g [uid]) as [e rs] eqn:EE. cbn [fst snd out_err] in *.
    rewrite brief_same_refl, andb_true_r.
    destruct (validateTargetLocked d g) as [s|] eqn:V.
    + rewrite L. apply andb_true_iff in L. destruct L as [L _]. destruct e; try discriminate. reflexivity.
    + rewrite L. apply andb_true_iff in L. destruct L as [L _]. rewrite L. reflexivity.
  - (* lookup by targets *)
    cbn [fst snd]. rewrite (groups_model d a tb groups M), brief_same_refl. reflexivity.
  - (* snapshot *)
    pose proof (snapshot_active d) as S. destruct (Snapshot d) as [[[[[x1 x2] x3] x4] x5] x6]. cbn [fst snd].
    rewrite S, Z.eqb_refl, brief_same_refl. reflexivity.
Qed.

Lemma mon_run_ok ops : forall d a tb,
  MonRel d a tb -> mon_run (d_local d) a tb (active_brief d) (snd (run d ops)) = true.
Proof.
  induction ops as [|o rest IH]; intros d a tb M; [reflexivity|].
  cbn [run]. pose proof (mon_step_ok d a tb o M) as S. destruct (MonRel_step d a tb o M) as [M1 L1].
  destruct (step d o) as [d1 r]. cbn [fst snd] in *.
  specialize (IH d1 _ _ M1). destruct (run d1 rest) as [d' tr]. cbn [snd mon_run] in *.
  rewrite S. rewrite L1 in IH. exact IH.
Qed.

(* the encoding of a model trace as a case ("Some": the active routes are given explicitly) *)
Definition encode_steps (tr : list (op * out * list brief)) : list (op * out * option (list brief)) :=
  map (fun s => (fst (fst s), snd (fst s), Some (snd s))) tr.

Lemma expand_encode tr : forall prev, expand_steps prev (encode_steps tr) = tr.
Proof.
  induction tr as [|[[o r] b] rest IH]; intro prev; simpl; [reflexivity|]. rewrite IH. reflexivity.
Qed.

Lemma model_satisfies_monitor localNode shards ops final :
  C33_monitor (C33Case localNode shards (encode_steps (snd (run (NewDirectory localNode) ops))) final) = 0.
Proof.
  unfold C33_monitor. cbn [c_local c_steps]. rewrite expand_encode.
  pose proof (mon_run_ok ops (NewDirectory localNode) [] [] (MonRel_new localNode)) as R.
  change (active_brief (NewDirectory localNode)) with (@nil brief) in R.
  change (d_local (NewDirectory localNode)) with localNode in R. rewrite R. reflexivity.
Qed.
