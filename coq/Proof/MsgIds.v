(* Proof/MsgIds.v — invariant of the allocator transition system over ALL
   interleavings of its atomic steps and ALL generator outputs. *)
From WK Require Import Base.Base Model.MsgIds.
Open Scope N_scope.

Definition ret_val (r : ret) : N :=
  match r with RNext id => id | RSetOk f => f | RSetErr _ => 0 end.

Fixpoint bound (l : list done) : N :=
  match l with [] => 0 | d :: r => N.max (ret_val (d_ret d)) (bound r) end.

Fixpoint log_wf (l : list done) : Prop :=
  match l with
  | [] => True
  | d :: r =>
      (match d_ret d with RNext id => bound r < id | _ => True end)
      /\ (forall d', In d' r -> d_end d' <= d_end d)
      /\ d_start d <= d_end d
      /\ log_wf r
  end.

Definition pc_ok (fl nw : N) (gs : list N) (p : pc) : Prop :=
  match p with
  | Idle => True
  | NextGen st => st <= nw
  | NextLoad st raw => st <= nw /\ In raw gs
  | NextCas st raw f0 => st <= nw /\ In raw gs /\ f0 < raw /\ f0 <= fl
  | SfLoad0 st f => st <= nw
  | SfGen st f => st <= nw
  | SfLoad st f probe => st <= nw /\ In probe gs /\ f < probe
  | SfCas st f probe cur => st <= nw /\ In probe gs /\ f < probe /\ cur < probe /\ cur <= fl
  end.

Record Inv (s : state) : Prop := {
  inv_wf : log_wf (log s);
  inv_bound : bound (log s) <= floor s;
  inv_end : forall d, In d (log s) -> d_end d <= now s;
  inv_pcs : Forall (pc_ok (floor s) (now s) (gens s)) (pcs s);
  inv_stored : incl (stored s) (gens s);
  inv_floor_gen : floor s = 0 \/ In (floor s) (gens s) }.

Lemma pc_ok_mono fl fl' nw nw' gs gs' p :
  fl <= fl' -> nw <= nw' -> incl gs gs' -> pc_ok fl nw gs p -> pc_ok fl' nw' gs' p.
Proof.
  intros Hf Hn Hg. destruct p; cbn [pc_ok]; intros H;
    repeat match goal with H : _ /\ _ |- _ => destruct H end;
    repeat split; try (apply Hg; assumption); try lia.
Qed.

Lemma Forall_pc_mono fl fl' nw nw' gs gs' l :
  fl <= fl' -> nw <= nw' -> incl gs gs' ->
  Forall (pc_ok fl nw gs) l -> Forall (pc_ok fl' nw' gs') l.
Proof.
  intros Hf Hn Hg H. eapply Forall_impl; [|exact H].
  intros p Hp. eapply pc_ok_mono; eassumption.
Qed.

Lemma Forall_set_nth {A} (P : A -> Prop) d x : P d -> P x ->
  forall t l, Forall P l -> Forall P (set_nth t x d l).
Proof.
  intros Hd Hx. induction t as [|t IH]; intros [|y r] H; cbn [set_nth].
  - constructor; [exact Hx|constructor].
  - inversion H; subst. constructor; assumption.
  - constructor; [exact Hd|]. apply IH. constructor.
  - inversion H; subst. constructor; [assumption|]. apply IH. assumption.
Qed.

Lemma get_pc_ok s t : Forall (pc_ok (floor s) (now s) (gens s)) (pcs s) ->
  pc_ok (floor s) (now s) (gens s) (get_pc s t).
Proof.
  intro H. unfold get_pc. destruct (nth_in_or_default t (pcs s) Idle) as [Hin | ->].
  - rewrite Forall_forall in H. apply H. exact Hin.
  - exact I.
Qed.

Lemma bound_ge l d : In d l -> ret_val (d_ret d) <= bound l.
Proof.
  induction l as [|x r IH]; intros Hin; [destruct Hin|].
  cbn [bound]. destruct Hin as [-> | Hin]; [lia|]. specialize (IH Hin). lia.
Qed.

(* ---- preservation ------------------------------------------------------------ *)

Lemma inv_init : Inv init.
Proof.
  constructor; cbn; auto; try lia; try (intros ? []).
Qed.

Lemma inv_tick s : Inv s -> Inv (tick s).
Proof.
  intros [H1 H2 H3 H4 H5 H6]. constructor; cbn; auto.
  - intros d Hd. specialize (H3 d Hd). lia.
  - eapply Forall_pc_mono; [| | |exact H4]; try lia. apply incl_refl.
Qed.

Lemma inv_with_pc s t p : Inv s -> pc_ok (floor s) (now s) (gens s) p -> Inv (with_pc s t p).
Proof.
  intros [H1 H2 H3 H4 H5 H6] Hp. constructor; cbn; auto.
  apply Forall_set_nth; [exact I|exact Hp|exact H4].
Qed.

(* finishing a call whose result value is covered by the floor *)
Lemma inv_finish s t st r :
  Inv s -> st <= now s ->
  (match r with RNext id => bound (log s) < id | _ => True end) ->
  ret_val r <= floor s ->
  Inv (finish s t st r).
Proof.
  intros [H1 H2 H3 H4 H5 H6] Hst Hr Hv.
  constructor; cbn [finish log floor now pcs gens stored]; auto.
  - cbn [log_wf d_ret d_end d_start]. repeat split; auto.
  - cbn [bound d_ret]. lia.
  - intros d [<- | Hd]; cbn [d_end]; [lia|apply H3; exact Hd].
  - apply Forall_set_nth; [exact I|exact I|exact H4].
Qed.

(* adding a generated value *)
Lemma inv_gen s g : Inv s -> Inv (St (floor s) (now s) (pcs s) (log s) (g :: gens s) (stored s)).
Proof.
  intros [H1 H2 H3 H4 H5 H6]. constructor; cbn; auto.
  - eapply Forall_pc_mono; [| | |exact H4]; try lia. apply incl_tl, incl_refl.
  - apply incl_tl. exact H5.
  - destruct H6 as [H6|H6]; [left|right; right]; exact H6.
Qed.

(* a successful CAS: floor := v where v was generated and v > floor *)
Lemma inv_cas s v : Inv s -> floor s < v -> In v (gens s) ->
  Inv (St v (now s) (pcs s) (log s) (gens s) (v :: stored s)).
Proof.
  intros [H1 H2 H3 H4 H5 H6] Hv Hg. constructor; cbn; auto.
  - lia.
  - eapply Forall_pc_mono; [| | |exact H4]; try lia. apply incl_refl.
  - intros x [<- | Hx]; [exact Hg|apply H5; exact Hx].
Qed.

Lemma inv_thread_step s t g : Inv s -> Inv (thread_step s t g).
Proof.
  intros HI. pose proof (get_pc_ok s t (inv_pcs s HI)) as Hp.
  unfold thread_step. destruct (get_pc s t) as [|st|st raw|st raw f0|st f|st f|st f probe|st f probe cur];
    cbn [pc_ok] in Hp.
  - exact HI.
  - (* NextGen *)
    apply inv_with_pc; [apply inv_gen; exact HI|]. cbn. split; [exact Hp|left; reflexivity].
  - (* NextLoad *)
    destruct Hp as [Hst Hin]. destruct (N.leb_spec raw (floor s)) as [Hle|Hgt].
    + apply inv_with_pc; [exact HI|]. cbn. exact Hst.
    + apply inv_with_pc; [exact HI|]. cbn. repeat split; try assumption; lia.
  - (* NextCas *)
    destruct Hp as (Hst & Hin & Hlt & Hle). destruct (N.eqb_spec (floor s) f0) as [He|Hne].
    + assert (HI' : Inv (St raw (now s) (pcs s) (log s) (gens s) (raw :: stored s))).
      { apply inv_cas; [exact HI| lia |exact Hin]. }
      apply inv_finish; [exact HI'| exact Hst | | ].
      * cbn [log]. pose proof (inv_bound s HI). lia.
      * cbn. lia.
    + apply inv_with_pc; [exact HI|]. cbn. exact Hst.
  - (* SfLoad0 *)
    destruct (N.leb_spec f (floor s)) as [Hle|Hgt].
    + apply inv_finish; [exact HI|exact Hp|exact I|cbn; exact Hle].
    + apply inv_with_pc; [exact HI|]. cbn. exact Hp.
  - (* SfGen *)
    pose proof (inv_gen s g HI) as HI'.
    destruct (N.leb_spec g f) as [Hle|Hgt].
    + apply inv_finish; [exact HI'|exact Hp|exact I|cbn; lia].
    + apply inv_with_pc; [exact HI'|]. cbn. repeat split; [exact Hp|left; reflexivity|exact Hgt].
  - (* SfLoad *)
    destruct Hp as (Hst & Hin & Hlt). destruct (N.leb_spec probe (floor s)) as [Hle|Hgt].
    + apply inv_finish; [exact HI|exact Hst|exact I|cbn; lia].
    + apply inv_with_pc; [exact HI|]. cbn. repeat split; try assumption; lia.
  - (* SfCas *)
    destruct Hp as (Hst & Hin & Hf & Hc & Hle). destruct (N.eqb_spec (floor s) cur) as [He|Hne].
    + assert (HI' : Inv (St probe (now s) (pcs s) (log s) (gens s) (probe :: stored s))).
      { apply inv_cas; [exact HI|lia|exact Hin]. }
      apply inv_finish; [exact HI'|exact Hst|exact I|cbn; lia].
    + apply inv_with_pc; [exact HI|]. cbn. repeat split; assumption.
Qed.

Lemma inv_step s e : Inv s -> Inv (step s e).
Proof.
  intro HI. unfold step. pose proof (inv_tick s HI) as HT.
  destruct e as [t|t f|t g].
  - destruct (get_pc (tick s) t); try exact HT. apply inv_with_pc; [exact HT|]. cbn. lia.
  - destruct (get_pc (tick s) t); try exact HT. apply inv_with_pc; [exact HT|]. cbn. lia.
  - apply inv_thread_step. exact HT.
Qed.

Lemma inv_fold evs : forall s, Inv s -> Inv (fold_left step evs s).
Proof.
  induction evs as [|e evs IH]; intros s HI; [exact HI|].
  cbn [fold_left]. apply IH. apply inv_step. exact HI.
Qed.

Theorem inv_run evs : Inv (run evs).
Proof. apply inv_fold. exact inv_init. Qed.

(* ---- floor never decreases; every change is a strict increase ------------------- *)

Lemma floor_with_pc s t p : floor (with_pc s t p) = floor s.  Proof. reflexivity. Qed.
Lemma floor_finish s t st r : floor (finish s t st r) = floor s.  Proof. reflexivity. Qed.

Lemma floor_thread_step s t g : Inv s ->
  floor (thread_step s t g) = floor s \/ floor s < floor (thread_step s t g).
Proof.
  intros HI. pose proof (get_pc_ok s t (inv_pcs s HI)) as Hp.
  unfold thread_step. destruct (get_pc s t) as [|st|st raw|st raw f0|st f|st f|st f probe|st f probe cur];
    cbn [pc_ok] in Hp; try (left; reflexivity).
  - destruct (raw <=? floor s); left; reflexivity.
  - destruct Hp as (_ & _ & Hlt & _). destruct (N.eqb_spec (floor s) f0) as [He|Hne];
      [right; cbn; lia|left; reflexivity].
  - destruct (f <=? floor s); left; reflexivity.
  - destruct (g <=? f); left; reflexivity.
  - destruct (probe <=? floor s); left; reflexivity.
  - destruct Hp as (_ & _ & _ & Hc & _). destruct (N.eqb_spec (floor s) cur) as [He|Hne];
      [right; cbn; lia|left; reflexivity].
Qed.

Lemma floor_step s e : Inv s -> floor (step s e) = floor s \/ floor s < floor (step s e).
Proof.
  intro HI. unfold step. destruct e as [t|t f|t g].
  - destruct (get_pc (tick s) t); left; reflexivity.
  - destruct (get_pc (tick s) t); left; reflexivity.
  - change (floor s) with (floor (tick s)). apply floor_thread_step. apply inv_tick. exact HI.
Qed.

(* ---- consequences for the history ---------------------------------------------------- *)

Lemma log_wf_pairs l : log_wf l -> all_pairs_ok l = true.
Proof.
  induction l as [|d r IH]; intro H; [reflexivity|].
  cbn [log_wf] in H. destruct H as (Hnew & Hends & Hse & Hr).
  cbn [all_pairs_ok]. apply andb_true_iff. split; [|apply IH; exact Hr].
  apply forallb_forall. intros b Hb.
  pose proof (bound_ge r b Hb) as Hbb. specialize (Hends b Hb).
  assert (Hsb : d_start b <= d_end b).
  { clear - Hr Hb. induction r as [|x r IH]; [destruct Hb|].
    cbn [log_wf] in Hr. destruct Hr as (_ & _ & Hx & Hr). destruct Hb as [-> | Hb]; [exact Hx|].
    apply IH; assumption. }
  apply andb_true_iff. split.
  - (* d newest first, b older second: d cannot be before b *)
    unfold pair_ok, before.
    assert (Hnb : (d_end d <? d_start b) = false) by (apply N.ltb_ge; lia).
    rewrite Hnb.
    destruct (d_ret b) as [idb| |] eqn:Eb; try reflexivity.
    destruct (d_ret d) as [idd|f|f] eqn:Ed; try reflexivity.
    cbn [ret_val] in Hbb. rewrite andb_true_r. apply negb_true_iff. apply N.eqb_neq. lia.
  - (* b older first, d newest second *)
    unfold pair_ok.
    destruct (d_ret d) as [idd| |] eqn:Ed; try reflexivity.
    destruct (d_ret b) as [idb|f|f] eqn:Eb; cbn [ret_val] in Hbb.
    + apply andb_true_iff. split.
      * apply negb_true_iff. apply N.eqb_neq. lia.
      * destruct (before b d); [apply N.ltb_lt; lia|reflexivity].
    + destruct (before b d); [apply N.ltb_lt; lia|reflexivity].
    + reflexivity.
Qed.

Theorem all_pairs_ok_run evs : all_pairs_ok (log (run evs)) = true.
Proof. apply log_wf_pairs. apply inv_wf. apply inv_run. Qed.

(* completion order: ids strictly increase; an accepted floor is below every later id *)
Lemma log_wf_order l1 b l2 a :
  log_wf (l1 ++ b :: l2) -> In a l2 ->
  match d_ret b with
  | RNext idb => match d_ret a with
                 | RNext ida => ida < idb
                 | RSetOk f => f < idb
                 | RSetErr _ => True
                 end
  | _ => True
  end.
Proof.
  induction l1 as [|x l1 IH]; intros H Ha.
  - cbn [app log_wf] in H. destruct H as (Hnew & _).
    pose proof (bound_ge l2 a Ha) as Hb.
    destruct (d_ret b); try exact I. destruct (d_ret a); cbn [ret_val] in Hb; try exact I; lia.
  - cbn [app log_wf] in H. destruct H as (_ & _ & _ & H). apply IH; assumption.
Qed.

(* real-time order: if call a returned before call b started, a is older in the log *)
Lemma pairs_ok_spec l : all_pairs_ok l = true ->
  forall i j a b, i <> j -> nth_error l i = Some a -> nth_error l j = Some b -> pair_ok a b = true.
Proof.
  induction l as [|x r IH]; intros H i j a b Hij Hi Hj.
  - destruct i; discriminate.
  - cbn [all_pairs_ok] in H. apply andb_true_iff in H. destruct H as [Hx Hr].
    rewrite forallb_forall in Hx.
    destruct i as [|i], j as [|j]; cbn [nth_error] in Hi, Hj.
    + congruence.
    + inversion Hi; subst. apply nth_error_In in Hj. specialize (Hx b Hj).
      apply andb_true_iff in Hx. apply Hx.
    + inversion Hj; subst. apply nth_error_In in Hi. specialize (Hx a Hi).
      apply andb_true_iff in Hx. apply Hx.
    + apply (IH Hr i j a b); [intro E; apply Hij; rewrite E; reflexivity|exact Hi|exact Hj].
Qed.

Lemma model_satisfies_monitor evs sq fls : C30_monitor (C30Case sq (log (run evs)) fls) = 0.
Proof. unfold C30_monitor. cbn [c30_ops]. rewrite all_pairs_ok_run. reflexivity. Qed.

(* ---- statements in the form used by Properties/C30.v ------------------------------ *)

Lemma unique_increasing evs l1 b l2 a ida idb :
  log (run evs) = l1 ++ b :: l2 -> In a l2 ->
  d_ret a = RNext ida -> d_ret b = RNext idb -> ida < idb.
Proof.
  intros E Ha Ea Eb. pose proof (inv_wf _ (inv_run evs)) as H. rewrite E in H.
  pose proof (log_wf_order l1 b l2 a H Ha) as P. rewrite Ea, Eb in P. exact P.
Qed.

Lemma floor_respected evs l1 b l2 a f idb :
  log (run evs) = l1 ++ b :: l2 -> In a l2 ->
  d_ret a = RSetOk f -> d_ret b = RNext idb -> f < idb.
Proof.
  intros E Ha Ea Eb. pose proof (inv_wf _ (inv_run evs)) as H. rewrite E in H.
  pose proof (log_wf_order l1 b l2 a H Ha) as P. rewrite Ea, Eb in P. exact P.
Qed.

Lemma realtime evs i j a b :
  i <> j -> nth_error (log (run evs)) i = Some a -> nth_error (log (run evs)) j = Some b ->
  pair_ok a b = true.
Proof. intros. eapply pairs_ok_spec; eauto. apply all_pairs_ok_run. Qed.

Lemma realtime_next evs i j a b ida idb :
  i <> j -> nth_error (log (run evs)) i = Some a -> nth_error (log (run evs)) j = Some b ->
  d_ret a = RNext ida -> d_ret b = RNext idb ->
  ida <> idb /\ (d_end a < d_start b -> ida < idb).
Proof.
  intros Hij Hi Hj Ea Eb. pose proof (realtime evs i j a b Hij Hi Hj) as P.
  unfold pair_ok in P. rewrite Ea, Eb in P. apply andb_true_iff in P. destruct P as [P1 P2].
  apply negb_true_iff in P1. apply N.eqb_neq in P1. split; [exact P1|].
  intro Hlt. unfold before in P2. apply N.ltb_lt in Hlt. rewrite Hlt in P2. apply N.ltb_lt. exact P2.
Qed.

Lemma realtime_floor evs i j a b f idb :
  i <> j -> nth_error (log (run evs)) i = Some a -> nth_error (log (run evs)) j = Some b ->
  d_ret a = RSetOk f -> d_ret b = RNext idb -> d_end a < d_start b -> f < idb.
Proof.
  intros Hij Hi Hj Ea Eb Hlt. pose proof (realtime evs i j a b Hij Hi Hj) as P.
  unfold pair_ok in P. rewrite Ea, Eb in P. unfold before in P. apply N.ltb_lt in Hlt.
  rewrite Hlt in P. apply N.ltb_lt. exact P.
Qed.

Lemma run_snoc evs e : run (evs ++ [e]) = step (run evs) e.
Proof. unfold run. rewrite fold_left_app. reflexivity. Qed.

Lemma floor_strict evs e :
  floor (run (evs ++ [e])) = floor (run evs) \/ floor (run evs) < floor (run (evs ++ [e])).
Proof. rewrite run_snoc. apply floor_step. apply inv_run. Qed.

Lemma never_synthesises evs :
  incl (stored (run evs)) (gens (run evs)) /\ (floor (run evs) = 0 \/ In (floor (run evs)) (gens (run evs))).
Proof. pose proof (inv_run evs) as H. split; [apply inv_stored; exact H|apply inv_floor_gen; exact H]. Qed.
