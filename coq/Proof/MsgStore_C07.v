(* Proof/MsgStore_C07.v — C07: the model refines the plain sequential logs.  Every
   step of the model, with the observations the harness takes after it, is
   accepted by the specification step [spec_step] and re-establishes the
   relation [R]; hence the monitor accepts every trace the model can produce. *)
From WK Require Import Base.Base Model.KV Gen.Consts_C07 Model.MsgStore Model.MsgStore_C07
     Proof.KV Proof.MsgStore_base Proof.MsgStore_rel Proof.MsgStore_reads Proof.MsgStore_frame
     Proof.MsgStore_mut Proof.MsgStore_step Proof.MsgStore_ops Proof.MsgStore_batch.
From Coq Require Import Sorting.Permutation Sorting.Sorted.

Section C07.
  Variable F : Type.
  Variable f_empty : F.
  Variable f_may : F -> bytes * bytes -> bool.
  Variable f_add : F -> bytes * bytes -> F.

  Notation mstate := (mstate F).
  Notation R := (R F).
  Notation step := (step F f_empty f_may f_add).
  Notation step_dump := (step_dump F f_empty f_may f_add).
  Notation run := (run F f_empty f_may f_add).

  (* the histories the refinement theorems talk about: every channel an op (or an
     item of a multi-channel StoreAppendBatch) names is in the harness' table *)
  Definition op_okb (o : op) : Prop :=
    match o with
    | OCBatch items => Forall (fun it : item => In (fst (fst it)) all_chans) items
    | ODiscard _ => False      (* the paged DiscardForRestore: Proof/MsgStore_discard.v *)
    | _ => In (op_chan o) all_chans
    end.

  (* the same without the multi-channel StoreAppendBatch (the C08 uniqueness
     theorems exclude it: C08-K1) *)
  Definition op_ok (o : op) : Prop :=
    In (op_chan o) all_chans /\ match o with OCBatch _ | ODiscard _ => False | _ => True end.

  Lemma op_ok_b o : op_ok o -> op_okb o.
  Proof. intros [H1 H2]. destruct o; try contradiction; exact H1. Qed.

  (* ---- the initial state ----------------------------------------------------------------------------------- *)

  Lemma Rchan_init c : Rchan [] as_init c [].
  Proof.
    constructor.
    - reflexivity.
    - constructor.
    - intros q r. split; [intro H; discriminate H|intros [[] _]].
    - constructor.
    - reflexivity.
    - constructor.
    - exact I.
    - intros q Hq. cbn in Hq. lia.
    - intros n q. split; [intro H; exfalso; apply H; reflexivity|intros [r [[] _]]].
    - intros u q. split; [intro H; exfalso; apply H; reflexivity|intros [r [[] _]]].
    - intros n u q i h H. discriminate H.
    - intros r [].
    - reflexivity.
    - reflexivity.
  Qed.

  Lemma R_init : R (st_init F f_empty) as_init.
  Proof.
    split.
    - constructor.
      + constructor.
      + intro c. exists []. apply Rchan_init.
      + intros i c q H. discriminate H.
      + intros c q r H. discriminate H.
      + intros c q v H. discriminate H.
    - intros c H. discriminate H.
  Qed.

  (* ---- reads ---------------------------------------------------------------------------------------------------- *)

  Lemma step_read st s o :
    R st s -> is_read o = true ->
    R (fst (step st o)) s /\ spec_check_read s o (snd (step st o)) = true.
  Proof.
    intros HR Hr. destruct o; try discriminate Hr; cbn [MsgStore.step fst snd].
    - split; [exact HR|apply check_read; exact HR].
    - pose proof (check_rread F st s c fromSeq limit maxb HR) as H.
      destruct (ReadReverse F st c fromSeq limit maxb) as [st' r]. destruct H as [H1 [_ [_ H2]]].
      split; assumption.
    - split; [exact HR|apply check_get; exact HR].
    - split; [exact HR|apply check_byid; exact HR].
    - split; [exact HR|]. pose proof (check_bycno F st s c cno before limit HR) as H.
      destruct (ListByClientMsgNo F st c cno before limit) as [[[rs more] nb]|e]; exact H.
    - split; [exact HR|apply check_idem; exact HR].
    - split; [exact HR|apply check_lasts; exact HR].
    - destruct (loadLEO_R F st s c HR) as [H1 [H2 _]].
      destruct (loadLEOLocked F st c) as [st' leo]. cbn [fst snd] in *. split; [exact H2|].
      cbn [spec_check_read]. rewrite H1. apply N.eqb_refl.
    - split; [exact HR|reflexivity].
    - split; [exact HR|apply check_lck; exact HR].
    - split; [exact HR|apply check_hist; exact HR].
  Qed.

  (* ---- mutations ------------------------------------------------------------------------------------------------- *)

  Lemma R_reopen st s : R st s -> R (reopen F f_empty st) s.
  Proof. intros [Hk _]. split; [exact Hk|]. intros c H. discriminate. Qed.

  Lemma step_mut st s o :
    R st s -> op_okb o -> is_read o = false ->
    exists s', spec_mutate s o (snd (step st o)) = Some s' /\ R (fst (step st o)) s'.
  Proof.
    intros HR Hc Hr. destruct o; try discriminate Hr; cbn [op_okb op_chan] in Hc; cbn [MsgStore.step].
    - pose proof (step_append F f_may f_add st s c mode base recs HR Hc) as H.
      destruct (Append F f_may f_add st c recs mode base) as [st' r]. exact H.
    - pose proof (step_apply F f_empty f_may f_add st s c base recs ck ep HR Hc) as H.
      destruct (ApplyFetch F f_may f_add st c base recs ck ep) as [st' r]. exact H.
    - pose proof (step_capp F f_may f_add st s c mode recs HR Hc) as H.
      destruct (CAppend F f_may f_add st c recs mode) as [st' r]. exact H.
    - pose proof (step_cbatch F f_may f_add st s items HR Hc) as H.
      destruct (CBatch F f_may f_add st items) as [st' rs]. exact H.
    - pose proof (step_trunc F f_empty f_may f_add st s c fromSeq HR) as H.
      destruct (TruncateFrom F st c fromSeq) as [st' r]. exact H.
    - pose proof (step_ctrunc F f_empty f_may f_add st s c to HR) as H.
      destruct (CTruncate F st c to) as [st' r]. exact H.
    - pose proof (step_trim F st s c through maxMessages maxBytes HR) as H.
      destruct (TrimPrefixThroughLimit F st c through maxMessages maxBytes) as [st' r]. exact H.
    - pose proof (step_ckpt F st s c e lso hw HR) as H.
      destruct (StoreCheckpoint F st c (e, lso, hw)) as [st' r]. exact H.
    - pose proof (step_ckptm F st s c e lso hw visibleHW leo HR) as H.
      destruct (StoreCheckpointMonotonic F st c (e, lso, hw) visibleHW leo) as [st' r]. exact H.
    - exists s. split; [reflexivity|exact HR].
    - exists s. split; [reflexivity|apply R_reopen; exact HR].
    - contradiction.
  Qed.

  (* ---- dumps ------------------------------------------------------------------------------------------------------- *)

  Lemma dump_chans_ok cs : forall st s, R st s ->
    R (fst (dump_chans F st cs)) s /\ forallb (spec_check_dump s None) (snd (dump_chans F st cs)) = true.
  Proof.
    induction cs as [|c cs IH]; intros st s HR; cbn [dump_chans fst snd]; [split; [exact HR|reflexivity]|].
    destruct (dump_chan_ok F st s c None HR) as [H1 [_ [_ H2]]].
    destruct (dump_chan F st c None) as [st1 d]. cbn [fst snd] in *.
    destruct (IH st1 s H1) as [H3 H4]. destruct (dump_chans F st1 cs) as [st2 ds]. cbn [fst snd] in *.
    split; [exact H3|]. cbn [forallb]. rewrite H2, H4. reflexivity.
  Qed.

  (* ---- one step with its observations ------------------------------------------------------------------------------- *)

  Lemma spec_step_read s o x ds :
    is_read o = true -> spec_check_read s o x = true -> spec_step s (E o x ds) = Some s.
  Proof. intros H1 H2. cbn [spec_step]. rewrite H1, H2. reflexivity. Qed.

  Lemma spec_step_mut s s' o x ds :
    is_read o = false -> spec_mutate s o x = Some s' ->
    forallb (spec_check_dump s' (new_range o x)) ds = true -> spec_step s (E o x ds) = Some s'.
  Proof. intros H1 H2 H3. cbn [spec_step]. rewrite H1, H2, H3. reflexivity. Qed.

  Theorem step_sim compact st s o :
    R st s -> op_okb o ->
    let '(st', x, ds) := step_dump compact st o in
    exists s', spec_step s (E o x ds) = Some s' /\ R st' s'.
  Proof.
    intros HR Hok. unfold MsgStore.step_dump.
    destruct (is_read o) eqn:Hr.
    - destruct (step_read st s o HR Hr) as [H1 H2].
      destruct (step st o) as [st1 x]. cbn [fst snd] in *.
      assert (Hds : (match o with
                     | OReopen => dump_chans F st1 all_chans
                     | OCBatch _ => if compact then (st1, []) else dump_chans F st1 all_chans
                     | _ => if is_mutation o && negb compact
                            then let '(st2, d) := dump_chan F st1 (op_chan o) (new_range o x) in (st2, [d])
                            else (st1, [])
                     end) = (st1, [])).
      { unfold is_read in Hr. destruct o; cbn in Hr |- *; try discriminate; reflexivity. }
      rewrite Hds. exists s. split; [apply spec_step_read; assumption|exact H1].
    - destruct (step_mut st s o HR Hok Hr) as [s' [H1 H2]].
      destruct (step st o) as [st1 x]. cbn [fst snd] in *.
      assert (Hcase : (o = OReopen) \/ (exists items, o = OCBatch items)
                      \/ (o <> OReopen /\ (forall items, o <> OCBatch items) /\ is_mutation o = true)).
      { unfold is_read in Hr. destruct o; cbn in Hr |- *; try discriminate;
          try (right; right; split; [discriminate|]; split; [intros; discriminate|reflexivity]).
        - right. left. eexists. reflexivity.
        - left. reflexivity. }
      destruct Hcase as [->|[[items ->]|[Hn1 [Hn2 Hm]]]].
      + destruct (dump_chans_ok all_chans st1 s' H2) as [H3 H4].
        destruct (dump_chans F st1 all_chans) as [st2 ds]. cbn [fst snd] in *.
        exists s'. split; [apply spec_step_mut; [reflexivity|exact H1|exact H4]|exact H3].
      + destruct compact.
        * exists s'. split; [apply spec_step_mut; [reflexivity|exact H1|reflexivity]|exact H2].
        * destruct (dump_chans_ok all_chans st1 s' H2) as [H3 H4].
          destruct (dump_chans F st1 all_chans) as [st2 ds]. cbn [fst snd] in *.
          exists s'. split; [apply spec_step_mut; [reflexivity|exact H1|]|exact H3].
          destruct x; exact H4.
      + assert (Hds : (match o with
                       | OReopen => dump_chans F st1 all_chans
                       | OCBatch _ => if compact then (st1, []) else dump_chans F st1 all_chans
                       | _ => if is_mutation o && negb compact
                              then let '(st2, d) := dump_chan F st1 (op_chan o) (new_range o x) in (st2, [d])
                              else (st1, [])
                       end) = (if negb compact
                               then let '(st2, d) := dump_chan F st1 (op_chan o) (new_range o x) in (st2, [d])
                               else (st1, []))).
        { destruct o; try (exfalso; apply Hn1; reflexivity); try (exfalso; eapply Hn2; reflexivity);
            cbn [is_mutation] in Hm |- *; try discriminate Hm; reflexivity. }
        rewrite Hds. destruct compact; cbn [negb].
        * exists s'. split; [apply spec_step_mut; [exact Hr|exact H1|reflexivity]|exact H2].
        * destruct (dump_chan_ok F st1 s' (op_chan o) (new_range o x) H2) as [H3 [_ [_ H4]]].
          destruct (dump_chan F st1 (op_chan o) (new_range o x)) as [st2 d]. cbn [fst snd] in *.
          exists s'. split; [apply spec_step_mut; [exact Hr|exact H1|cbn [forallb]; rewrite H4; reflexivity]|exact H3].
  Qed.

  (* ---- whole histories ---------------------------------------------------------------------------------------------- *)

  Fixpoint entries (ops : list op) (tr : list (out * list dump)) : list entry :=
    match ops, tr with
    | o :: ops', (x, ds) :: tr' => E o x ds :: entries ops' tr'
    | _, _ => []
    end.

  Lemma run_sim compact ops : forall st s,
    R st s -> Forall op_okb ops ->
    spec_run s (entries ops (snd (run compact st ops))) = true
    /\ exists s', R (fst (run compact st ops)) s'.
  Proof.
    induction ops as [|o ops IH]; intros st s HR Hok; cbn [MsgStore.run entries snd fst spec_run].
    - split; [reflexivity|exists s; exact HR].
    - inversion Hok as [|? ? Ho Hrest]; subst.
      pose proof (step_sim compact st s o HR Ho) as H.
      destruct (step_dump compact st o) as [[st1 x] ds]. destruct H as [s' [H1 H2]].
      destruct (IH st1 s' H2 Hrest) as [H3 H4].
      destruct (run compact st1 ops) as [st2 tr]. cbn [fst snd entries spec_run] in *.
      rewrite H1. split; [exact H3|exact H4].
  Qed.

  (* C07: the monitor accepts every trace of the model *)
  Theorem model_satisfies_monitor compact ops :
    Forall op_okb ops ->
    spec_run as_init (entries ops (snd (run compact (st_init F f_empty) ops))) = true.
  Proof. intro H. apply (run_sim compact ops _ _ R_init H). Qed.

  (* every reachable state is related to some state of the plain logs *)
  Theorem reachable_R compact ops :
    Forall op_okb ops -> exists s, R (fst (run compact (st_init F f_empty) ops)) s.
  Proof. intro H. apply (run_sim compact ops _ _ R_init H). Qed.

  (* ---- corollaries ------------------------------------------------------------------------------------------------------ *)

  (* contiguity: in every reachable state the rows of a channel are strictly
     ascending, lie between 1 and the log end, and every sequence above the
     logical retention boundary up to the log end is present *)
  Theorem contiguous st s c :
    R st s ->
    let rows := rows_of (st_kv F st) c in
    let leo := snd (loadLEOLocked F st c) in
    sorted_lt r_seq rows
    /\ Forall (fun r => 1 <= r_seq r <= leo) rows
    /\ (forall q, local_of (st_kv F st) c < q <= leo -> exists r, In r rows /\ r_seq r = q)
    /\ leo = recoverLEO (st_kv F st) c.
  Proof.
    intros HR. destruct (loadLEO_R F st s c HR) as [H1 _]. cbv zeta. rewrite H1.
    destruct HR as [Hk _]. destruct (rk_chan _ _ Hk c) as [rows Rc].
    rewrite (Rchan_rows_of _ _ _ _ (rk_wf _ _ Hk) Rc).
    split; [apply Rc|]. split; [|split; [apply Rc|symmetry; apply Rc]].
    apply Forall_forall. intros r Hr.
    assert (Hok : row_ok c r) by (eapply Forall_forall; [apply Rc|exact Hr]).
    pose proof (rc_le_leo _ _ _ _ Rc) as Hle. eapply Forall_forall in Hle; [|exact Hr].
    destruct Hok as [_ [_ [_ H]]]. split; assumption.
  Qed.

  (* closing and reopening the whole database changes nothing the API can see:
     same store, same recovered log end *)
  Theorem reopen_identity st s c :
    R st s ->
    R (reopen F f_empty st) s
    /\ st_kv F (reopen F f_empty st) = st_kv F st
    /\ snd (loadLEOLocked F (reopen F f_empty st) c) = snd (loadLEOLocked F st c).
  Proof.
    intro HR. split; [apply R_reopen; exact HR|]. split; [reflexivity|].
    destruct (loadLEO_R F st s c HR) as [H1 _].
    destruct (loadLEO_R F _ s c (R_reopen st s HR)) as [H2 _]. congruence.
  Qed.

  (* reads never fail on a reachable state *)
  Theorem reads_total st s c f lim mb :
    R st s -> exists rs, Read F st c f lim mb = ok rs.
  Proof.
    intros [Hk _]. destruct (rk_chan _ _ Hk c) as [rows Rc]. unfold Read.
    destruct (readForward_spec _ _ _ _ (if f =? 0 then 1 else f) 0 lim mb (rk_wf _ _ Hk) Rc) as [X [E _]].
    exists X. exact E.
  Qed.
End C07.

(* ---- what acceptance by the monitor means for the lookups (strength of the specification) ------- *)

Lemma accepted_byid_sound s c i m :
  spec_check_read s (OById c i) (XMsgO (Some m)) = true -> In m (amsgs (as_log s c)) /\ m_id m = i.
Proof.
  cbn [spec_check_read]. destruct (existsb (N.eqb i) (as_tids s)).
  - intro H. apply andb_true_iff in H. destruct H as [H1 H2]. apply N.eqb_eq in H2. split; [|exact H2].
    unfold in_msgs in H1. apply existsb_exists in H1. destruct H1 as [m' [Hm' E]]. apply msg_eqb_eq in E. subst. exact Hm'.
  - destruct (find (fun m0 => m_id m0 =? i) (amsgs (as_log s c))) as [m'|] eqn:Fd; cbn [option_eqb]; [|discriminate].
    intro E. apply msg_eqb_eq in E. subst m'. apply find_some in Fd. destruct Fd as [H1 H2]. apply N.eqb_eq in H2. split; assumption.
Qed.

Lemma accepted_idem_sound s c uid cno q i off h :
  spec_check_read s (OIdem c uid cno) (XHit (Some (q, i, off, h))) = true ->
  exists m, In m (amsgs (as_log s c)) /\ m_seq m = q /\ m_id m = i /\ m_hash m = h /\ m_uid m = uid /\ m_cno m = cno.
Proof.
  cbn [spec_check_read]. intro H. apply andb_true_iff in H. destruct H as [_ H].
  apply existsb_exists in H. destruct H as [m [Hm E]]. exists m. split; [exact Hm|].
  repeat (apply andb_true_iff in E; destruct E as [E ?]).
  repeat match goal with
         | H : (_ =? _) = true |- _ => apply N.eqb_eq in H
         | H : bytes_eqb _ _ = true |- _ => apply bytes_eqb_eq in H
         end. repeat split; assumption.
Qed.

Lemma accepted_dump_exact s nr c leo rows news :
  spec_check_dump s nr (D c (inl leo) (inl rows) (inl news)) = true ->
  leo = al_leo (as_log s c) /\ rows = map mcompact (amsgs (as_log s c)).
Proof.
  cbn [spec_check_dump]. intro H. apply andb_true_iff in H. destruct H as [H _].
  apply andb_true_iff in H. destruct H as [H1 H2]. apply N.eqb_eq in H1. split; [exact H1|].
  apply (list_eqb_spec triple_eqb); [|exact H2].
  intros [[a1 a2] a3] [[b1 b2] b3]. cbn. rewrite !andb_true_iff, !N.eqb_eq. split; [intros [[-> ->] ->]; reflexivity|intro E; injection E as -> -> ->; repeat split].
Qed.

(* the executable instance used by the correspondence check: the refinement part
   of the monitor (the retry clause needs the soundness of the filter: Proof/MsgStore_C08.v) *)
Lemma spec_run_on_model (compact : bool) (ops : list op) :
  Forall op_okb ops ->
  spec_run as_init (entries ops (snd (xrun compact ops))) = true.
Proof.
  intro H. unfold xrun, xinit. apply (model_satisfies_monitor xfilter [] x_may x_add compact ops H).
Qed.
