(* Proof/SlotFSM_tlv.v — the command decoder of pkg/slot/fsm is a total, length-respecting
   function of the byte string; unknown tags are skipped; the four migration commands
   round-trip through their encoders.  (Model/SlotFSM_tlv.v.) *)
From WK Require Import Base.Base Base.Bytes.
From WK Require Import Gen.Consts_C13 Model.SlotFSM_tlv.
From Coq Require Import ZifyBool ZifyN ZifyNat.
Open Scope N_scope.

(* ---- readTLV ---------------------------------------------------------------------------- *)

(* a field consumes at least its 5-byte header and never more than there is *)
Lemma readTLV_consumed data tag v n :
  readTLV data = Some (tag, v, n) ->
  (5 <= n <= length data)%nat /\ length v = (n - 5)%nat /\ v = firstn (n - 5) (skipn 5 data).
Proof.
  unfold readTLV. destruct data as [|t [|l3 [|l2 [|l1 [|l0 rest]]]]]; try discriminate.
  destruct (be_get [l3; l2; l1; l0] <=? N.of_nat (length rest)) eqn:E; [|discriminate].
  intro H. inversion H; subst; clear H. apply N.leb_le in E.
  set (L := N.to_nat (be_get [l3; l2; l1; l0])) in *.
  assert (Hl : (L <= length rest)%nat) by (subst L; lia).
  assert (Hs : (S (S (S (S (S L)))) - 5 = L)%nat) by lia. rewrite Hs.
  change (skipn 5 (tag :: l3 :: l2 :: l1 :: l0 :: rest)) with rest.
  change (length (tag :: l3 :: l2 :: l1 :: l0 :: rest)) with (S (S (S (S (S (length rest)))))).
  split; [lia|]. split; [|reflexivity]. rewrite firstn_length. lia.
Qed.

Lemma readTLV_tlv tag v rest :
  N.of_nat (length v) < 4294967296 ->
  readTLV (tlv tag v ++ rest) = Some (tag, v, (5 + length v)%nat).
Proof.
  intro Hl. unfold tlv, put_u32.
  pose proof (be_put_length 4 (N.of_nat (length v))) as L4.
  destruct (be_put 4 (N.of_nat (length v))) as [|l3 [|l2 [|l1 [|l0 [|x r]]]]] eqn:P; cbn in L4; try discriminate.
  cbn [app]. unfold readTLV.
  assert (G : be_get [l3; l2; l1; l0] = N.of_nat (length v)).
  { rewrite <- P. apply be_get_put. cbn. exact Hl. }
  rewrite G. rewrite app_length.
  assert (E : (N.of_nat (length v) <=? N.of_nat (length v + length rest)) = true) by (apply N.leb_le; lia).
  rewrite E. rewrite Nat2N.id. rewrite firstn_app, firstn_all, Nat.sub_diag. cbn [firstn]. rewrite app_nil_r. reflexivity.
Qed.

(* ---- the field loop: the fuel [length data] is always enough ---------------------------------- *)

Lemma tlv_fields_fuel fuel : forall data extra,
    (length data <= fuel)%nat -> tlv_fields (fuel + extra) data = tlv_fields fuel data.
Proof.
  induction fuel as [|f IH]; intros data extra Hl.
  - destruct data; [|cbn in Hl; lia]. destruct extra; reflexivity.
  - destruct data as [|b data']; [reflexivity|].
    cbn [Nat.add tlv_fields].
    destruct (readTLV (b :: data')) as [[[tag v] n]|] eqn:R; [|reflexivity].
    destruct (readTLV_consumed _ _ _ _ R) as ((Hn5 & Hn) & _).
    rewrite IH; [reflexivity|]. rewrite skipn_length. lia.
Qed.

(* the loop never stops for lack of fuel: a failure is a truncated field *)
Theorem tlv_fields_total data fuel :
  (length data <= fuel)%nat -> tlv_fields fuel data = fields_of data.
Proof.
  intro H. unfold fields_of. replace fuel with (length data + (fuel - length data))%nat by lia.
  apply tlv_fields_fuel. lia.
Qed.

Lemma fields_of_cons tag v rest :
  N.of_nat (length v) < 4294967296 ->
  fields_of (tlv tag v ++ rest) = match fields_of rest with Some r => Some ((tag, v) :: r) | None => None end.
Proof.
  intro Hl. unfold fields_of at 1.
  assert (Hlen : length (tlv tag v ++ rest) = S (4 + length v + length rest)).
  { unfold tlv. cbn [length app]. rewrite !app_length. unfold put_u32. rewrite be_put_length. lia. }
  rewrite Hlen.
  change (tlv tag v ++ rest) with (tag :: (put_u32 (N.of_nat (length v)) ++ v) ++ rest).
  cbn [tlv_fields].
  change (tag :: (put_u32 (N.of_nat (length v)) ++ v) ++ rest) with (tlv tag v ++ rest).
  rewrite (readTLV_tlv tag v rest Hl).
  assert (Hs : skipn (5 + length v) (tlv tag v ++ rest) = rest).
  { unfold tlv. cbn [app]. unfold put_u32.
    pose proof (be_put_length 4 (N.of_nat (length v))) as L4.
    destruct (be_put 4 (N.of_nat (length v))) as [|l3 [|l2 [|l1 [|l0 [|x r]]]]]; cbn in L4; try discriminate.
    cbn [app skipn Nat.add]. rewrite skipn_app, skipn_all, Nat.sub_diag. reflexivity. }
  rewrite Hs. rewrite (tlv_fields_total rest (4 + length v + length rest)) by lia. reflexivity.
Qed.

Lemma fields_of_nil : fields_of [] = Some [].
Proof. reflexivity. Qed.

(* ---- unknown tags are skipped ---------------------------------------------------------------------- *)

Lemma delta_step_unknown a tag v :
  negb (existsb (N.eqb tag) [tagApplyDeltaSourceSlotID; tagApplyDeltaSourceIndex; tagApplyDeltaHashSlot;
                              tagApplyDeltaOriginalCmd]) = true ->
  delta_step a (tag, v) = Some a.
Proof.
  cbn [existsb]. rewrite !negb_orb. intro H. repeat (apply andb_true_iff in H; destruct H as (? & H)).
  unfold delta_step.
  repeat match goal with E : negb (?t =? ?k) = true |- _ => apply negb_true_iff in E; rewrite E; clear E end.
  reflexivity.
Qed.

Lemma fence_step_unknown a tag v :
  negb (existsb (N.eqb tag) [tagEnterFenceHashSlot; tagEnterFenceTarget]) = true -> fence_step a (tag, v) = Some a.
Proof.
  cbn [existsb]. rewrite !negb_orb. intro H. repeat (apply andb_true_iff in H; destruct H as (? & H)).
  unfold fence_step.
  repeat match goal with E : negb (?t =? ?k) = true |- _ => apply negb_true_iff in E; rewrite E; clear E end.
  reflexivity.
Qed.

(* ---- round trips --------------------------------------------------------------------------------------- *)

Definition u64_ok (x : N) : Prop := x < 18446744073709551616.

Lemma u64_field_put x : u64_ok x -> u64_field (put_u64 x) = Some x.
Proof.
  intro H. unfold u64_field, put_u64. rewrite be_put_length. cbn [Nat.eqb]. rewrite be_get_put; [reflexivity|exact H].
Qed.

Lemma put_u64_len x : N.of_nat (length (put_u64 x)) < 4294967296.
Proof. unfold put_u64. rewrite be_put_length. cbn. lia. Qed.

Theorem decode_encode_apply_delta s i h orig :
  u64_ok s -> u64_ok i -> h <= 65535 -> N.of_nat (length orig) < 4294967296 ->
  decodeCommand (encodeApplyDelta s i h orig) = DecDelta s i h orig.
Proof.
  intros Hs Hi Hh Ho. unfold encodeApplyDelta. cbn [app decodeCommand].
  vm_compute (negb (commandVersion =? commandVersion)). cbn iota.
  vm_compute (negb (existsb (N.eqb cmdTypeApplyDelta) commandTypes)). cbn iota.
  vm_compute (cmdTypeApplyDelta =? cmdTypeApplyDelta). cbn iota.
  unfold decodeApplyDelta, tlv_u64.
  rewrite (fields_of_cons _ _ _ (put_u64_len s)), (fields_of_cons _ _ _ (put_u64_len i)),
          (fields_of_cons _ _ _ (put_u64_len h)).
  replace (tlv tagApplyDeltaOriginalCmd orig) with (tlv tagApplyDeltaOriginalCmd orig ++ []) by apply app_nil_r.
  rewrite (fields_of_cons _ _ _ Ho), fields_of_nil.
  cbn [fold_opt]. unfold delta_step at 1.
  vm_compute (tagApplyDeltaSourceSlotID =? tagApplyDeltaSourceSlotID). cbn iota. rewrite (u64_field_put s Hs).
  cbn [fold_opt]. unfold delta_step at 1.
  vm_compute (tagApplyDeltaSourceIndex =? tagApplyDeltaSourceSlotID).
  vm_compute (tagApplyDeltaSourceIndex =? tagApplyDeltaSourceIndex). cbn iota. rewrite (u64_field_put i Hi).
  cbn [fold_opt da_src da_idx da_hs da_orig]. unfold delta_step at 1.
  vm_compute (tagApplyDeltaHashSlot =? tagApplyDeltaSourceSlotID).
  vm_compute (tagApplyDeltaHashSlot =? tagApplyDeltaSourceIndex).
  vm_compute (tagApplyDeltaHashSlot =? tagApplyDeltaHashSlot). cbn iota.
  assert (Hh64 : u64_ok h) by (unfold u64_ok; lia). rewrite (u64_field_put h Hh64).
  assert (Hc : (65535 <? h) = false) by (apply N.ltb_ge; exact Hh). rewrite Hc.
  cbn [fold_opt da_src da_idx da_hs da_orig]. unfold delta_step.
  vm_compute (tagApplyDeltaOriginalCmd =? tagApplyDeltaSourceSlotID).
  vm_compute (tagApplyDeltaOriginalCmd =? tagApplyDeltaSourceIndex).
  vm_compute (tagApplyDeltaOriginalCmd =? tagApplyDeltaHashSlot).
  vm_compute (tagApplyDeltaOriginalCmd =? tagApplyDeltaOriginalCmd). cbn iota.
  cbn [da_src da_idx da_hs da_orig]. reflexivity.
Qed.

Theorem decode_encode_outbox cleanup h s t i :
  h <= 65535 -> u64_ok s -> u64_ok t -> u64_ok i ->
  decodeCommand (encodeMigrationOutbox cleanup h s t i) = if cleanup then DecCleanup h s t i else DecAck h s t i.
Proof.
  intros Hh Hs Ht Hi. assert (Hh64 : u64_ok h) by (unfold u64_ok; lia).
  assert (Hc : (65535 <? h) = false) by (apply N.ltb_ge; exact Hh).
  unfold encodeMigrationOutbox. cbn [app decodeCommand].
  vm_compute (negb (commandVersion =? commandVersion)). cbn iota.
  assert (Hdec : decodeMigrationOutbox cleanup
                   (tlv_u64 tagMigrationOutboxHashSlot h ++ tlv_u64 tagMigrationOutboxSourceSlot s ++
                    tlv_u64 tagMigrationOutboxTargetSlot t ++ tlv_u64 tagMigrationOutboxSourceIndex i)
                 = if cleanup then DecCleanup h s t i else DecAck h s t i).
  { unfold decodeMigrationOutbox, tlv_u64.
    rewrite (fields_of_cons _ _ _ (put_u64_len h)), (fields_of_cons _ _ _ (put_u64_len s)),
            (fields_of_cons _ _ _ (put_u64_len t)).
    replace (tlv tagMigrationOutboxSourceIndex (put_u64 i)) with (tlv tagMigrationOutboxSourceIndex (put_u64 i) ++ [])
      by apply app_nil_r.
    rewrite (fields_of_cons _ _ _ (put_u64_len i)), fields_of_nil.
    cbn [fold_opt]. unfold outbox_step at 1. rewrite (u64_field_put h Hh64).
    vm_compute (tagMigrationOutboxHashSlot =? tagMigrationOutboxHashSlot). cbn iota. rewrite Hc.
    cbn [fold_opt]. unfold outbox_step at 1. rewrite (u64_field_put s Hs).
    vm_compute (tagMigrationOutboxSourceSlot =? tagMigrationOutboxHashSlot).
    vm_compute (tagMigrationOutboxSourceSlot =? tagMigrationOutboxSourceSlot). cbn iota.
    cbn [fold_opt oa_hs oa_src oa_tgt oa_idx]. unfold outbox_step at 1. rewrite (u64_field_put t Ht).
    vm_compute (tagMigrationOutboxTargetSlot =? tagMigrationOutboxHashSlot).
    vm_compute (tagMigrationOutboxTargetSlot =? tagMigrationOutboxSourceSlot).
    vm_compute (tagMigrationOutboxTargetSlot =? tagMigrationOutboxTargetSlot). cbn iota.
    cbn [fold_opt oa_hs oa_src oa_tgt oa_idx]. unfold outbox_step. rewrite (u64_field_put i Hi).
    vm_compute (tagMigrationOutboxSourceIndex =? tagMigrationOutboxHashSlot).
    vm_compute (tagMigrationOutboxSourceIndex =? tagMigrationOutboxSourceSlot).
    vm_compute (tagMigrationOutboxSourceIndex =? tagMigrationOutboxTargetSlot).
    vm_compute (tagMigrationOutboxSourceIndex =? tagMigrationOutboxSourceIndex). cbn iota.
    cbn [oa_hs oa_src oa_tgt oa_idx]. reflexivity. }
  destruct cleanup.
  - vm_compute (negb (existsb (N.eqb cmdTypeCleanupMigrationOutbox) commandTypes)). cbn iota.
    vm_compute (cmdTypeCleanupMigrationOutbox =? cmdTypeApplyDelta).
    vm_compute (cmdTypeCleanupMigrationOutbox =? cmdTypeEnterFence).
    vm_compute (cmdTypeCleanupMigrationOutbox =? cmdTypeAckMigrationOutbox).
    vm_compute (cmdTypeCleanupMigrationOutbox =? cmdTypeCleanupMigrationOutbox). cbn iota. exact Hdec.
  - vm_compute (negb (existsb (N.eqb cmdTypeAckMigrationOutbox) commandTypes)). cbn iota.
    vm_compute (cmdTypeAckMigrationOutbox =? cmdTypeApplyDelta).
    vm_compute (cmdTypeAckMigrationOutbox =? cmdTypeEnterFence).
    vm_compute (cmdTypeAckMigrationOutbox =? cmdTypeAckMigrationOutbox). cbn iota. exact Hdec.
Qed.

(* ---- header ---------------------------------------------------------------------------------------------- *)

(* decodeCommand answers every byte string: an error class or a value *)
Theorem decode_short data : (length data < 2)%nat -> decodeCommand data = DecErr DEC_CORRUPT.
Proof. destruct data as [|a [|b r]]; cbn [length]; intro H; try reflexivity. lia. Qed.

Theorem decode_bad_version v t payload : v <> commandVersion -> decodeCommand (v :: t :: payload) = DecErr DEC_CORRUPT.
Proof.
  intro H. cbn [decodeCommand]. assert (E : (v =? commandVersion) = false) by (apply N.eqb_neq; exact H).
  rewrite E. reflexivity.
Qed.

Theorem decode_unknown_type t payload :
  existsb (N.eqb t) commandTypes = false -> decodeCommand (commandVersion :: t :: payload) = DecErr DEC_INVALID.
Proof. intro H. cbn [decodeCommand]. rewrite N.eqb_refl, H. reflexivity. Qed.

Theorem decode_encode_fence h t :
  h <= 65535 -> u64_ok t ->
  decodeCommand (encodeEnterFence h t) = DecFence h t.
Proof.
  intros Hh Ht. assert (Hh64 : u64_ok h) by (unfold u64_ok; lia).
  assert (Hc : (65535 <? h) = false) by (apply N.ltb_ge; exact Hh).
  unfold encodeEnterFence. cbn [app decodeCommand].
  vm_compute (negb (commandVersion =? commandVersion)). cbn iota.
  vm_compute (negb (existsb (N.eqb cmdTypeEnterFence) commandTypes)). cbn iota.
  vm_compute (cmdTypeEnterFence =? cmdTypeApplyDelta).
  vm_compute (cmdTypeEnterFence =? cmdTypeEnterFence). cbn iota.
  unfold decodeEnterFence, tlv_u64.
  rewrite (fields_of_cons _ _ _ (put_u64_len h)).
  destruct (t =? 0) eqn:T0.
  - apply N.eqb_eq in T0. subst t. rewrite fields_of_nil.
    cbn [fold_opt]. unfold fence_step.
    vm_compute (tagEnterFenceHashSlot =? tagEnterFenceHashSlot). cbn iota.
    rewrite (u64_field_put h Hh64), Hc. reflexivity.
  - replace (tlv tagEnterFenceTarget (put_u64 t)) with (tlv tagEnterFenceTarget (put_u64 t) ++ []) by apply app_nil_r.
    rewrite (fields_of_cons _ _ _ (put_u64_len t)), fields_of_nil.
    cbn [fold_opt]. unfold fence_step at 1.
    vm_compute (tagEnterFenceHashSlot =? tagEnterFenceHashSlot). cbn iota.
    rewrite (u64_field_put h Hh64), Hc. cbn [fold_opt]. unfold fence_step.
    vm_compute (tagEnterFenceTarget =? tagEnterFenceHashSlot).
    vm_compute (tagEnterFenceTarget =? tagEnterFenceTarget). cbn iota.
    rewrite (u64_field_put t Ht). reflexivity.
Qed.
