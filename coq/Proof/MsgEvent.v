(* Proof/MsgEvent.v — the durable message event projection: reducer and tables.
   Lemmas behind c40_seq_strict, c40_terminal_once, c40_replay_noop. *)
From WK Require Import Base.Base.
From WK Require Import Gen.Consts_C40 Model.MsgEvent.
From Coq Require Import ZifyBool ZifyN ZifyNat.
Open Scope N_scope.

(* ---- facts about today's constants (re-checked when Gen/Consts_C40.v changes) ---- *)

Lemma terminal_open : isMessageEventTerminal EventStatusOpen = false.
Proof. vm_compute. reflexivity. Qed.
Lemma terminal_closed : isMessageEventTerminal EventStatusClosed = true.
Proof. vm_compute. reflexivity. Qed.
Lemma terminal_error : isMessageEventTerminal EventStatusError = true.
Proof. vm_compute. reflexivity. Qed.
Lemma terminal_cancelled : isMessageEventTerminal EventStatusCancelled = true.
Proof. vm_compute. reflexivity. Qed.

Lemma kind_finish : event_kind EventTypeStreamFinish = Some KFinish.
Proof. vm_compute. reflexivity. Qed.

Lemma finish_eqb_kind et : bytes_eqb et EventTypeStreamFinish = true -> event_kind et = Some KFinish.
Proof. intro H. apply bytes_eqb_eq in H. subst. exact kind_finish. Qed.

(* the seven type strings are pairwise distinct: a string is the finish type iff its kind is KFinish *)
Lemma kind_finish_eqb et : event_kind et = Some KFinish -> bytes_eqb et EventTypeStreamFinish = true.
Proof.
  unfold event_kind.
  destruct (bytes_eqb et EventTypeStreamOpen); [discriminate|].
  destruct (bytes_eqb et EventTypeStreamDelta); [discriminate|].
  destruct (bytes_eqb et EventTypeStreamClose); [discriminate|].
  destruct (bytes_eqb et EventTypeStreamError); [discriminate|].
  destruct (bytes_eqb et EventTypeStreamCancel); [discriminate|].
  destruct (bytes_eqb et EventTypeStreamSnapshot); [discriminate|].
  destruct (bytes_eqb et EventTypeStreamFinish); [reflexivity|discriminate].
Qed.

Lemma bytes_eqb_refl a : bytes_eqb a a = true.
Proof. apply bytes_eqb_eq. reflexivity. Qed.

Lemma bytes_eqb_neq a b : bytes_eqb a b = false -> a <> b.
Proof. intros H E. subst. rewrite bytes_eqb_refl in H. discriminate. Qed.

(* ---- the reducer ------------------------------------------------------------------- *)

Definition reduce_noop_cond (state : State) (stateExists : bool) (e : Event) : bool :=
  stateExists && (bytes_eqb (st_last_id state) (e_id e) || isMessageEventTerminal (st_status state)).

Lemma reduce_noop state ex cursor cex e :
  reduce_noop_cond state ex e = true ->
  reduceMessageEventAppend state ex cursor cex e = (state, cursor, false, messageEventAppendResult e state).
Proof. unfold reduce_noop_cond, reduceMessageEventAppend. intro H. rewrite H. reflexivity. Qed.

(* what an applying call returns *)
Record applied_shape (state : State) (ex : bool) (cursor : Cursor) (cex : bool) (e : Event)
       (st' : State) (cu' : Cursor) (res : Result) : Prop := {
  as_res : res = messageEventAppendResult e st';
  as_cursor : cu_seq cu' = wrap_succ (if cex then cu_seq cursor else 0);
  as_seq : st_seq st' = cu_seq cu';
  as_last_id : st_last_id st' = e_id e;
  as_key : st_key st' = (if ex then st_key state else e_key e);
  as_channel : st_channel st' = (if ex then st_channel state else e_channel e);
  as_ctype : st_ctype st' = (if ex then st_ctype state else e_ctype e);
  as_msgno : st_msgno st' = (if ex then st_msgno state else e_msgno e);
  as_cu_channel : cu_channel cu' = (if cex then cu_channel cursor else e_channel e);
  as_cu_ctype : cu_ctype cu' = (if cex then cu_ctype cursor else e_ctype e);
  as_cu_msgno : cu_msgno cu' = (if cex then cu_msgno cursor else e_msgno e);
  as_terminal : isMessageEventTerminal (st_status st') = isMessageEventTerminalEvent (e_etype e)
}.

Lemma reduce_apply state ex cursor cex e :
  reduce_noop_cond state ex e = false ->
  exists st' cu' res,
    reduceMessageEventAppend state ex cursor cex e = (st', cu', true, res)
    /\ applied_shape state ex cursor cex e st' cu' res.
Proof.
  unfold reduce_noop_cond, reduceMessageEventAppend. intro H. rewrite H.
  assert (Hnt : isMessageEventTerminal
                  (st_status (if ex then state
                              else mkState (e_channel e) (e_ctype e) (e_msgno e) (e_key e) EventStatusOpen 0 [] [] [] 0%Z snap_empty 0 [] 0%Z)) = false).
  { destruct ex; cbn [st_status].
    - cbn [andb] in H. apply orb_false_iff in H. tauto.
    - exact terminal_open. }
  unfold isMessageEventTerminalEvent.
  destruct (event_kind (e_etype e)) as [[| | | | | |]|] eqn:K.
  all: do 3 eexists; (split; [reflexivity|]).
  all: constructor; cbn [st_seq st_last_id st_key st_channel st_ctype st_msgno st_status cu_seq cu_channel cu_ctype cu_msgno]; cbv iota beta.
  all: try reflexivity.
  all: try (destruct ex; reflexivity).
  all: try (destruct cex; reflexivity).
  all: unfold isMessageEventTerminalEvent; rewrite K.
  all: try exact Hnt.
  all: try exact terminal_open.
  all: try exact terminal_closed.
  all: try exact terminal_error.
  all: try exact terminal_cancelled.
Qed.

Lemma reduce_terminal_iff state ex cursor cex e :
  reduce_noop_cond state ex e = false ->
  exists st' cu' res,
    reduceMessageEventAppend state ex cursor cex e = (st', cu', true, res)
    /\ isMessageEventTerminal (st_status st') = isMessageEventTerminalEvent (e_etype e).
Proof.
  intro H. destruct (reduce_apply state ex cursor cex e H) as (st' & cu' & res & E & S).
  exists st', cu', res. split; [exact E | exact (as_terminal _ _ _ _ _ _ _ _ S)].
Qed.

(* c40_seq_strict, reducer form *)
Lemma reduce_seq_strict state ex cursor cex e :
  let '(st', cu', did, res) := reduceMessageEventAppend state ex cursor cex e in
  let cur := if cex then cu_seq cursor else 0 in
  (did = true -> cu_seq cu' = wrap_succ cur /\ st_seq st' = cu_seq cu' /\ r_seq res = cu_seq cu')
  /\ (did = false -> cu' = cursor /\ st' = state /\ res = messageEventAppendResult e state).
Proof.
  destruct (reduce_noop_cond state ex e) eqn:C.
  - rewrite (reduce_noop _ _ cursor cex _ C). split; [discriminate|]. intros _. repeat split.
  - destruct (reduce_apply state ex cursor cex e C) as (st' & cu' & res & E & S). rewrite E.
    split; [|discriminate]. intros _. destruct S. subst res. cbn [r_seq messageEventAppendResult].
    repeat split; assumption.
Qed.

Lemma wrap_succ_lt x : x < u64max -> wrap_succ x = x + 1.
Proof. unfold wrap_succ, wrap64, u64max. intro H. apply N.mod_small. lia. Qed.

(* ---- association lists with upsert -------------------------------------------------- *)

Lemma find_upsert_same {A} (P : A -> bool) x l : P x = true -> find P (upsert P x l) = Some x.
Proof.
  intro Hx. induction l as [|y l IH]; cbn [upsert find].
  - rewrite Hx. reflexivity.
  - destruct (P y) eqn:Py; cbn [find]; [rewrite Hx; reflexivity | rewrite Py; exact IH].
Qed.

Lemma find_upsert_other {A} (P Q : A -> bool) x l :
  Q x = false -> (forall y, P y = true -> Q y = false) -> find Q (upsert P x l) = find Q l.
Proof.
  intros Hx Hd. induction l as [|y l IH]; cbn [upsert find].
  - rewrite Hx. reflexivity.
  - destruct (P y) eqn:Py; cbn [find].
    + rewrite Hx, (Hd y Py). reflexivity.
    + destruct (Q y); [reflexivity | exact IH].
Qed.

Lemma find_some_true {A} (P : A -> bool) l x : find P l = Some x -> P x = true.
Proof. intro H. apply find_some in H. tauto. Qed.

(* ---- keys of the three tables ------------------------------------------------------- *)

Lemma msg_eqb_iff c1 t1 m1 c2 t2 m2 : msg_eqb c1 t1 m1 c2 t2 m2 = true <-> c1 = c2 /\ t1 = t2 /\ m1 = m2.
Proof.
  unfold msg_eqb. rewrite !andb_true_iff, !bytes_eqb_eq, Z.eqb_eq. tauto.
Qed.

Lemma state_at_iff hs c t m key x :
  state_at hs c t m key x = true <->
  fst x = hs /\ st_channel (snd x) = c /\ st_ctype (snd x) = t /\ st_msgno (snd x) = m /\ st_key (snd x) = key.
Proof.
  unfold state_at. rewrite !andb_true_iff, msg_eqb_iff, bytes_eqb_eq, N.eqb_eq. tauto.
Qed.

Lemma cursor_at_iff hs c t m x :
  cursor_at hs c t m x = true <->
  fst x = hs /\ cu_channel (snd x) = c /\ cu_ctype (snd x) = t /\ cu_msgno (snd x) = m.
Proof.
  unfold cursor_at. rewrite !andb_true_iff, msg_eqb_iff, N.eqb_eq. tauto.
Qed.

Lemma applied_at_iff hs c t m id x :
  applied_at hs c t m id x = true <->
  fst x = hs /\ ap_channel (snd x) = c /\ ap_ctype (snd x) = t /\ ap_msgno (snd x) = m /\ ap_id (snd x) = id.
Proof.
  unfold applied_at. rewrite !andb_true_iff, msg_eqb_iff, bytes_eqb_eq, N.eqb_eq. tauto.
Qed.

Lemma state_at_self hs s : state_at hs (st_channel s) (st_ctype s) (st_msgno s) (st_key s) (hs, s) = true.
Proof. apply state_at_iff. cbn. tauto. Qed.
Lemma cursor_at_self hs c : cursor_at hs (cu_channel c) (cu_ctype c) (cu_msgno c) (hs, c) = true.
Proof. apply cursor_at_iff. cbn. tauto. Qed.
Lemma applied_at_self hs a : applied_at hs (ap_channel a) (ap_ctype a) (ap_msgno a) (ap_id a) (hs, a) = true.
Proof. apply applied_at_iff. cbn. tauto. Qed.

(* the row found under a key carries that key *)
Lemma get_state_key db hs c t m key s :
  get_state db hs c t m key = Some s ->
  st_channel s = c /\ st_ctype s = t /\ st_msgno s = m /\ st_key s = key.
Proof.
  unfold get_state. destruct (find _ _) as [x|] eqn:F; [|discriminate]. cbn. intro E. inversion E; subst.
  apply find_some_true in F. apply state_at_iff in F. tauto.
Qed.

Lemma get_cursor_key db hs c t m cu :
  get_cursor db hs c t m = Some cu -> cu_channel cu = c /\ cu_ctype cu = t /\ cu_msgno cu = m.
Proof.
  unfold get_cursor. destruct (find _ _) as [x|] eqn:F; [|discriminate]. cbn. intro E. inversion E; subst.
  apply find_some_true in F. apply cursor_at_iff in F. tauto.
Qed.

Lemma get_applied_key db hs c t m id a :
  get_applied db hs c t m id = Some a ->
  ap_channel a = c /\ ap_ctype a = t /\ ap_msgno a = m /\ ap_id a = id.
Proof.
  unfold get_applied. destruct (find _ _) as [x|] eqn:F; [|discriminate]. cbn. intro E. inversion E; subst.
  apply find_some_true in F. apply applied_at_iff in F. tauto.
Qed.

(* reading the tables after put_rows *)
Lemma get_state_put db hs s cu a hs' c t m key :
  get_state (put_rows db hs s cu a) hs' c t m key =
  if state_at hs' c t m key (hs, s) then Some s else get_state db hs' c t m key.
Proof.
  unfold get_state, put_rows. cbn [db_states].
  destruct (state_at hs' c t m key (hs, s)) eqn:Q.
  - apply state_at_iff in Q. cbn in Q. destruct Q as (-> & <- & <- & <- & <-).
    rewrite find_upsert_same by apply state_at_self. reflexivity.
  - rewrite find_upsert_other; [reflexivity | exact Q |].
    intros y Py. destruct (state_at hs' c t m key y) eqn:Qy; [|reflexivity].
    apply state_at_iff in Py. apply state_at_iff in Qy.
    assert (state_at hs' c t m key (hs, s) = true) as X; [|congruence].
    apply state_at_iff. cbn. destruct Py as (? & ? & ? & ? & ?), Qy as (? & ? & ? & ? & ?). repeat split; congruence.
Qed.

Lemma get_cursor_put db hs s cu a hs' c t m :
  get_cursor (put_rows db hs s cu a) hs' c t m =
  if cursor_at hs' c t m (hs, cu) then Some cu else get_cursor db hs' c t m.
Proof.
  unfold get_cursor, put_rows. cbn [db_cursors].
  destruct (cursor_at hs' c t m (hs, cu)) eqn:Q.
  - apply cursor_at_iff in Q. cbn in Q. destruct Q as (-> & <- & <- & <-).
    rewrite find_upsert_same by apply cursor_at_self. reflexivity.
  - rewrite find_upsert_other; [reflexivity | exact Q |].
    intros y Py. destruct (cursor_at hs' c t m y) eqn:Qy; [|reflexivity].
    apply cursor_at_iff in Py. apply cursor_at_iff in Qy.
    assert (cursor_at hs' c t m (hs, cu) = true) as X; [|congruence].
    apply cursor_at_iff. cbn. destruct Py as (? & ? & ? & ?), Qy as (? & ? & ? & ?). repeat split; congruence.
Qed.

Lemma get_applied_put db hs s cu a hs' c t m id :
  get_applied (put_rows db hs s cu a) hs' c t m id =
  if applied_at hs' c t m id (hs, a) then Some a else get_applied db hs' c t m id.
Proof.
  unfold get_applied, put_rows. cbn [db_applied].
  destruct (applied_at hs' c t m id (hs, a)) eqn:Q.
  - apply applied_at_iff in Q. cbn in Q. destruct Q as (-> & <- & <- & <- & <-).
    rewrite find_upsert_same by apply applied_at_self. reflexivity.
  - rewrite find_upsert_other; [reflexivity | exact Q |].
    intros y Py. destruct (applied_at hs' c t m id y) eqn:Qy; [|reflexivity].
    apply applied_at_iff in Py. apply applied_at_iff in Qy.
    assert (applied_at hs' c t m id (hs, a) = true) as X; [|congruence].
    apply applied_at_iff. cbn. destruct Py as (? & ? & ? & ? & ?), Qy as (? & ? & ? & ? & ?). repeat split; congruence.
Qed.

(* ---- one append, case by case -------------------------------------------------------- *)

Definition cursor_seq (db : DB) hs c t m : N :=
  match get_cursor db hs c t m with Some cu => cu_seq cu | None => 0 end.

Inductive append_case (db : DB) (hs : N) (e : Event) : (Err * option Result) * DB -> Prop :=
| AcInvalid :
    normalizeMessageEventAppend e = None ->
    append_case db hs e ((EInvalidArgument, None), db)
| AcReplay ne a :
    normalizeMessageEventAppend e = Some ne ->
    get_applied db hs (e_channel ne) (e_ctype ne) (e_msgno ne) (e_id ne) = Some a ->
    append_case db hs e
      ((ENone, Some (messageEventAppendResultFromApplied ne a
                      (opt_or (get_state db hs (e_channel ne) (e_ctype ne) (e_msgno ne) (ap_key a)) state_zero)
                      (is_some (get_state db hs (e_channel ne) (e_ctype ne) (e_msgno ne) (ap_key a))))), db)
| AcFinalized ne s :
    normalizeMessageEventAppend e = Some ne ->
    get_applied db hs (e_channel ne) (e_ctype ne) (e_msgno ne) (e_id ne) = None ->
    get_state db hs (e_channel ne) (e_ctype ne) (e_msgno ne) (e_key ne) = Some s ->
    (bytes_eqb (st_last_id s) (e_id ne) || isMessageEventTerminal (st_status s)) = true ->
    append_case db hs e ((ENone, Some (messageEventAppendResult ne s)), db)
| AcApplied ne st' cu' :
    normalizeMessageEventAppend e = Some ne ->
    get_applied db hs (e_channel ne) (e_ctype ne) (e_msgno ne) (e_id ne) = None ->
    (match get_state db hs (e_channel ne) (e_ctype ne) (e_msgno ne) (e_key ne) with
     | Some s => (bytes_eqb (st_last_id s) (e_id ne) || isMessageEventTerminal (st_status s)) = false
     | None => True end) ->
    st_channel st' = e_channel ne -> st_ctype st' = e_ctype ne -> st_msgno st' = e_msgno ne ->
    st_key st' = e_key ne -> st_last_id st' = e_id ne ->
    cu_channel cu' = e_channel ne -> cu_ctype cu' = e_ctype ne -> cu_msgno cu' = e_msgno ne ->
    cu_seq cu' = wrap_succ (cursor_seq db hs (e_channel ne) (e_ctype ne) (e_msgno ne)) ->
    st_seq st' = cu_seq cu' ->
    isMessageEventTerminal (st_status st') = isMessageEventTerminalEvent (e_etype ne) ->
    append_case db hs e
      ((ENone, Some (messageEventAppendResult ne st')),
       put_rows db hs st' cu' (messageEventAppliedFromResult ne (messageEventAppendResult ne st'))).

Lemma append_cases db hs e : append_case db hs e (AppendMessageEvent db hs e).
Proof.
  unfold AppendMessageEvent.
  destruct (normalizeMessageEventAppend e) as [ne|] eqn:Nm; [|apply AcInvalid; assumption].
  destruct (get_applied db hs (e_channel ne) (e_ctype ne) (e_msgno ne) (e_id ne)) as [a|] eqn:Ga.
  { eapply AcReplay; eassumption. }
  destruct (get_state db hs (e_channel ne) (e_ctype ne) (e_msgno ne) (e_key ne)) as [s|] eqn:Gs;
    cbn [opt_or is_some].
  - destruct (bytes_eqb (st_last_id s) (e_id ne) || isMessageEventTerminal (st_status s)) eqn:C.
    + rewrite reduce_noop by (unfold reduce_noop_cond; rewrite C; reflexivity).
      eapply AcFinalized; eassumption.
    + destruct (reduce_apply s true (opt_or (get_cursor db hs (e_channel ne) (e_ctype ne) (e_msgno ne)) cursor_zero)
                             (is_some (get_cursor db hs (e_channel ne) (e_ctype ne) (e_msgno ne))) ne)
        as (st' & cu' & res & E & S); [unfold reduce_noop_cond; rewrite C; reflexivity|].
      rewrite E. destruct S. subst res.
      destruct (get_state_key _ _ _ _ _ _ _ Gs) as (K1 & K2 & K3 & K4).
      eapply AcApplied; try eassumption; try congruence.
      * rewrite Gs. exact C.
      * rewrite as_cu_channel0. destruct (get_cursor db hs _ _ _) as [cu|] eqn:Gc; cbn; [|reflexivity].
        apply get_cursor_key in Gc. tauto.
      * rewrite as_cu_ctype0. destruct (get_cursor db hs _ _ _) as [cu|] eqn:Gc; cbn; [|reflexivity].
        apply get_cursor_key in Gc. tauto.
      * rewrite as_cu_msgno0. destruct (get_cursor db hs _ _ _) as [cu|] eqn:Gc; cbn; [|reflexivity].
        apply get_cursor_key in Gc. tauto.
      * rewrite as_cursor0. unfold cursor_seq. destruct (get_cursor db hs _ _ _); reflexivity.
  - destruct (reduce_apply state_zero false (opt_or (get_cursor db hs (e_channel ne) (e_ctype ne) (e_msgno ne)) cursor_zero)
                           (is_some (get_cursor db hs (e_channel ne) (e_ctype ne) (e_msgno ne))) ne)
      as (st' & cu' & res & E & S); [reflexivity|].
    rewrite E. destruct S. subst res.
    eapply AcApplied; try eassumption; try congruence.
    + rewrite Gs. exact I.
    + rewrite as_cu_channel0. destruct (get_cursor db hs _ _ _) as [cu|] eqn:Gc; cbn; [|reflexivity].
      apply get_cursor_key in Gc. tauto.
    + rewrite as_cu_ctype0. destruct (get_cursor db hs _ _ _) as [cu|] eqn:Gc; cbn; [|reflexivity].
      apply get_cursor_key in Gc. tauto.
    + rewrite as_cu_msgno0. destruct (get_cursor db hs _ _ _) as [cu|] eqn:Gc; cbn; [|reflexivity].
      apply get_cursor_key in Gc. tauto.
    + rewrite as_cursor0. unfold cursor_seq. destruct (get_cursor db hs _ _ _); reflexivity.
Qed.

(* ---- consequences: sequence numbers --------------------------------------------------- *)

Definition msg_of (e : Event) := (e_channel e, e_ctype e, e_msgno e).

Lemma cursor_seq_put db hs s cu a hs' c t m :
  cursor_seq (put_rows db hs s cu a) hs' c t m =
  if cursor_at hs' c t m (hs, cu) then cu_seq cu else cursor_seq db hs' c t m.
Proof. unfold cursor_seq. rewrite get_cursor_put. destruct (cursor_at hs' c t m (hs, cu)); reflexivity. Qed.

(* c40_seq_strict: one append either changes nothing, or advances exactly the
   cursor of the event's message to its successor, which is also the sequence
   of the result and of the lane; every other cursor is untouched *)
Lemma append_seq_strict db hs e out db' :
  AppendMessageEvent db hs e = (out, db') ->
  db' = db
  \/ exists ne r st',
      normalizeMessageEventAppend e = Some ne /\ out = (ENone, Some r)
      /\ get_applied db hs (e_channel ne) (e_ctype ne) (e_msgno ne) (e_id ne) = None
      /\ cursor_seq db' hs (e_channel ne) (e_ctype ne) (e_msgno ne)
         = wrap_succ (cursor_seq db hs (e_channel ne) (e_ctype ne) (e_msgno ne))
      /\ r_seq r = cursor_seq db' hs (e_channel ne) (e_ctype ne) (e_msgno ne)
      /\ get_state db' hs (e_channel ne) (e_ctype ne) (e_msgno ne) (e_key ne) = Some st'
      /\ st_seq st' = r_seq r /\ r_key r = e_key ne
      /\ (forall hs' c t m, cursor_at hs' c t m (hs, mkCursor (e_channel ne) (e_ctype ne) (e_msgno ne) 0 0%Z) = false ->
                            cursor_seq db' hs' c t m = cursor_seq db hs' c t m).
Proof.
  intro E. pose proof (append_cases db hs e) as C. rewrite E in C.
  inversion C as [ | | | ne st' cu' Nm Ga Gc Sc St Sm Sk Sl Cc Ct Cm Cs Ss Tm]; subst; try (left; reflexivity).
  right. exists ne, (messageEventAppendResult ne st'), st'.
  assert (Hat : cursor_at hs (e_channel ne) (e_ctype ne) (e_msgno ne) (hs, cu') = true).
  { apply cursor_at_iff. cbn. tauto. }
  repeat split; try assumption.
  - rewrite cursor_seq_put, Hat. assumption.
  - cbn [r_seq messageEventAppendResult]. rewrite cursor_seq_put, Hat. assumption.
  - rewrite get_state_put.
    assert (state_at hs (e_channel ne) (e_ctype ne) (e_msgno ne) (e_key ne) (hs, st') = true) as ->; [|reflexivity].
    apply state_at_iff. cbn. tauto.
  - intros hs' c t m Hne. rewrite cursor_seq_put.
    assert (cursor_at hs' c t m (hs, cu') = false) as ->; [|reflexivity].
    rewrite <- Hne. unfold cursor_at. cbn [fst snd cu_channel cu_ctype cu_msgno]. congruence.
Qed.

Lemma append_cursor_step db hs e hs' c t m :
  let db' := snd (AppendMessageEvent db hs e) in
  cursor_seq db' hs' c t m = cursor_seq db hs' c t m
  \/ cursor_seq db' hs' c t m = wrap_succ (cursor_seq db hs' c t m).
Proof.
  destruct (AppendMessageEvent db hs e) as [out db'] eqn:E. cbn [snd].
  destruct (append_seq_strict _ _ _ _ _ E) as [-> | (ne & r & st' & _ & _ & _ & Hc & _ & _ & _ & _ & Ho)]; [left; reflexivity|].
  destruct (cursor_at hs' c t m (hs, mkCursor (e_channel ne) (e_ctype ne) (e_msgno ne) 0 0%Z)) eqn:Q.
  - apply cursor_at_iff in Q. cbn in Q. destruct Q as (<- & <- & <- & <-). right. exact Hc.
  - left. apply Ho. exact Q.
Qed.

(* running a list of appends *)
Fixpoint run_appends (db : DB) (evs : list (N * Event)) : DB :=
  match evs with
  | [] => db
  | (hs, e) :: r => run_appends (snd (AppendMessageEvent db hs e)) r
  end.

Lemma batch_appends_run db evs : snd (batch_appends db evs) = run_appends db evs.
Proof.
  revert db. induction evs as [|[hs e] r IH]; intro db; cbn [batch_appends run_appends]; [reflexivity|].
  destruct (AppendMessageEvent db hs e) as [o db1]. cbn [snd].
  specialize (IH db1). destruct (batch_appends db1 r) as [os db2]. cbn [snd] in *. exact IH.
Qed.

(* c40_seq_strict over histories: below 2^64-1 events, a message's cursor never decreases
   and grows by at most one per event *)
Lemma run_cursor_monotone evs : forall db hs c t m,
  cursor_seq db hs c t m + N.of_nat (length evs) <= u64max ->
  cursor_seq db hs c t m <= cursor_seq (run_appends db evs) hs c t m
  /\ cursor_seq (run_appends db evs) hs c t m <= cursor_seq db hs c t m + N.of_nat (length evs).
Proof.
  induction evs as [|[hs0 e] r IH]; intros db hs c t m B; cbn [run_appends length] in *; [lia|].
  pose proof (append_cursor_step db hs0 e hs c t m) as S. cbn zeta in S.
  set (db1 := snd (AppendMessageEvent db hs0 e)) in *.
  assert (Hs : cursor_seq db1 hs c t m = cursor_seq db hs c t m \/ cursor_seq db1 hs c t m = cursor_seq db hs c t m + 1).
  { destruct S as [S|S]; [left; exact S|right]. rewrite S. apply wrap_succ_lt. unfold u64max in *. lia. }
  assert (B1 : cursor_seq db1 hs c t m + N.of_nat (length r) <= u64max) by lia.
  specialize (IH db1 hs c t m B1). lia.
Qed.

(* ---- consequences: a finalized lane never changes -------------------------------------- *)

Lemma append_preserves_terminal db hs' e hs c t m key s :
  get_state db hs c t m key = Some s -> isMessageEventTerminal (st_status s) = true ->
  get_state (snd (AppendMessageEvent db hs' e)) hs c t m key = Some s.
Proof.
  intros G T. pose proof (append_cases db hs' e) as C.
  destruct (AppendMessageEvent db hs' e) as [out db'] eqn:E. cbn [snd].
  inversion C as [ | | | ne st' cu' Nm Ga Gc Sc St Sm Sk Sl Cc Ct Cm Cs Ss Tm]; subst; try assumption.
  rewrite get_state_put. destruct (state_at hs c t m key (hs', st')) eqn:Q; [|exact G].
  exfalso. apply state_at_iff in Q. cbn in Q. destruct Q as (-> & Q1 & Q2 & Q3 & Q4).
  assert (G' : get_state db hs (e_channel ne) (e_ctype ne) (e_msgno ne) (e_key ne) = Some s) by congruence.
  rewrite G' in Gc. rewrite T, orb_true_r in Gc. discriminate.
Qed.

Lemma run_preserves_terminal evs : forall db hs c t m key s,
  get_state db hs c t m key = Some s -> isMessageEventTerminal (st_status s) = true ->
  get_state (run_appends db evs) hs c t m key = Some s.
Proof.
  induction evs as [|[hs0 e] r IH]; intros db hs c t m key s G T; cbn [run_appends]; [exact G|].
  apply IH; [|exact T]. apply append_preserves_terminal; assumption.
Qed.

(* an event addressed to a finalized lane (and not itself a replay) is a no-op that returns the stored lane *)
Lemma append_on_terminal db hs e ne s :
  normalizeMessageEventAppend e = Some ne ->
  get_applied db hs (e_channel ne) (e_ctype ne) (e_msgno ne) (e_id ne) = None ->
  get_state db hs (e_channel ne) (e_ctype ne) (e_msgno ne) (e_key ne) = Some s ->
  isMessageEventTerminal (st_status s) = true ->
  AppendMessageEvent db hs e = ((ENone, Some (messageEventAppendResult ne s)), db).
Proof.
  intros Nm Ga Gs T. unfold AppendMessageEvent. rewrite Nm, Ga, Gs. cbn [opt_or is_some].
  rewrite reduce_noop; [reflexivity|]. unfold reduce_noop_cond. rewrite T, orb_true_r. reflexivity.
Qed.

(* ---- consequences: replays ------------------------------------------------------------- *)

(* any recorded event id: nothing changes, the recorded lane / sequence / status come back *)
Lemma append_replay db hs e ne a :
  normalizeMessageEventAppend e = Some ne ->
  get_applied db hs (e_channel ne) (e_ctype ne) (e_msgno ne) (e_id ne) = Some a ->
  exists r, AppendMessageEvent db hs e = ((ENone, Some r), db)
            /\ r_key r = ap_key a /\ r_seq r = ap_seq a /\ r_status r = ap_status a /\ r_id r = e_id ne.
Proof.
  intros Nm Ga. unfold AppendMessageEvent. rewrite Nm, Ga. eexists. split; [reflexivity|].
  cbn. repeat split.
Qed.

(* applied rows are never overwritten *)
Lemma append_preserves_applied db hs' e hs c t m id a :
  get_applied db hs c t m id = Some a ->
  get_applied (snd (AppendMessageEvent db hs' e)) hs c t m id = Some a.
Proof.
  intro G. pose proof (append_cases db hs' e) as C.
  destruct (AppendMessageEvent db hs' e) as [out db'] eqn:E. cbn [snd].
  inversion C as [ | | | ne st' cu' Nm Ga Gc Sc St Sm Sk Sl Cc Ct Cm Cs Ss Tm]; subst; try assumption.
  rewrite get_applied_put.
  destruct (applied_at hs c t m id (hs', messageEventAppliedFromResult ne (messageEventAppendResult ne st'))) eqn:Q; [|exact G].
  exfalso. apply applied_at_iff in Q. cbn in Q. destruct Q as (-> & <- & <- & <- & <-). congruence.
Qed.

Lemma run_preserves_applied evs : forall db hs c t m id a,
  get_applied db hs c t m id = Some a -> get_applied (run_appends db evs) hs c t m id = Some a.
Proof.
  induction evs as [|[hs0 e] r IH]; intros db hs c t m id a G; cbn [run_appends]; [exact G|].
  apply IH. apply append_preserves_applied. exact G.
Qed.

(* idempotence: the same call again returns the same outcome and changes nothing *)
Lemma append_idempotent db hs e out db' :
  AppendMessageEvent db hs e = (out, db') -> AppendMessageEvent db' hs e = (out, db').
Proof.
  intro E. pose proof (append_cases db hs e) as C. rewrite E in C.
  inversion C as [ | | | ne st' cu' Nm Ga Gc Sc St Sm Sk Sl Cc Ct Cm Cs Ss Tm]; subst; try exact E.
  unfold AppendMessageEvent. rewrite Nm.
  set (res := messageEventAppendResult ne st').
  set (ap := messageEventAppliedFromResult ne res).
  rewrite get_applied_put.
  assert (applied_at hs (e_channel ne) (e_ctype ne) (e_msgno ne) (e_id ne) (hs, ap) = true) as ->.
  { apply applied_at_iff. cbn. tauto. }
  rewrite get_state_put.
  assert (state_at hs (e_channel ne) (e_ctype ne) (e_msgno ne) (ap_key ap) (hs, st') = true) as ->.
  { apply state_at_iff. cbn. tauto. }
  cbn [opt_or is_some]. f_equal. f_equal. f_equal.
  unfold messageEventAppendResultFromApplied, ap, res.
  cbn [messageEventAppliedFromResult messageEventAppendResult ap_seq ap_key ap_status r_seq r_key r_status].
  rewrite Sl, bytes_eqb_refl, N.eqb_refl. reflexivity.
Qed.

(* a later replay of an applied event, after any further history, still returns
   the recorded lane, sequence and status and changes nothing *)
Lemma replay_after_history db hs e out db1 evs ne r :
  AppendMessageEvent db hs e = (out, db1) -> db1 <> db ->
  normalizeMessageEventAppend e = Some ne -> out = (ENone, Some r) ->
  let db2 := run_appends db1 evs in
  exists r', AppendMessageEvent db2 hs e = ((ENone, Some r'), db2)
             /\ r_key r' = r_key r /\ r_seq r' = r_seq r /\ r_status r' = r_status r.
Proof.
  intros E Hne Nm0 Ho db2. subst out. pose proof (append_cases db hs e) as C. rewrite E in C.
  inversion C as [ | | | ne1 st' cu' Nm Ga Gc Sc St Sm Sk Sl Cc Ct Cm Cs Ss Tm]; subst; try congruence.
  assert (ne1 = ne) by congruence. subst ne1.
  set (res := messageEventAppendResult ne st') in *.
  set (ap := messageEventAppliedFromResult ne res) in *.
  assert (Ga' : get_applied (put_rows db hs st' cu' ap) hs (e_channel ne) (e_ctype ne) (e_msgno ne) (e_id ne) = Some ap).
  { rewrite get_applied_put.
    assert (applied_at hs (e_channel ne) (e_ctype ne) (e_msgno ne) (e_id ne) (hs, ap) = true) as ->; [|reflexivity].
    apply applied_at_iff. cbn. tauto. }
  apply (run_preserves_applied evs) in Ga'. fold db2 in Ga'.
  destruct (append_replay db2 hs e ne ap Nm0 Ga') as (r' & E' & K1 & K2 & K3 & _).
  exists r'. split; [exact E'|]. rewrite K1, K2, K3. cbn. tauto.
Qed.

(* ---- lane sequences stay below the message cursor --------------------------------------- *)

Definition lanes_below_cursor (db : DB) : Prop :=
  forall hs c t m key s, get_state db hs c t m key = Some s -> st_seq s <= cursor_seq db hs c t m.

Lemma lanes_below_empty : lanes_below_cursor db_empty.
Proof. intros hs c t m key s G. discriminate. Qed.

Lemma append_lanes_below db hs e :
  lanes_below_cursor db ->
  (forall ne, normalizeMessageEventAppend e = Some ne ->
              cursor_seq db hs (e_channel ne) (e_ctype ne) (e_msgno ne) < u64max) ->
  lanes_below_cursor (snd (AppendMessageEvent db hs e)).
Proof.
  intros I B. pose proof (append_cases db hs e) as C.
  destruct (AppendMessageEvent db hs e) as [out db'] eqn:E. cbn [snd].
  inversion C as [ | | | ne st' cu' Nm Ga Gc Sc St Sm Sk Sl Cc Ct Cm Cs Ss Tm]; subst; try exact I.
  intros hs' c t m key s G. rewrite get_state_put in G. rewrite cursor_seq_put.
  specialize (B ne Nm). rewrite (wrap_succ_lt _ B) in Cs.
  destruct (state_at hs' c t m key (hs, st')) eqn:Q.
  - inversion G; subst s. apply state_at_iff in Q. cbn in Q. destruct Q as (<- & Q1 & Q2 & Q3 & Q4).
    assert (cursor_at hs c t m (hs, cu') = true) as ->; [|lia].
    apply cursor_at_iff. cbn. repeat split; congruence.
  - specialize (I _ _ _ _ _ _ G).
    destruct (cursor_at hs' c t m (hs, cu')) eqn:Qc; [|exact I].
    apply cursor_at_iff in Qc. cbn in Qc. destruct Qc as (<- & Q1 & Q2 & Q3).
    assert (cursor_seq db hs c t m = cursor_seq db hs (e_channel ne) (e_ctype ne) (e_msgno ne)) by congruence.
    lia.
Qed.
