(* Proof/QuorumLog_C01.v — acknowledged appends: a receipt is backed by the leader and a write
   quorum of voters holding the identical entries; recovery fails closed when the local
   committed watermark exceeds the selected prefix; the F1 witness. *)
From WK Require Import Base.Base.
From WK Require Import Model.ReplicaLog Model.QuorumLog Model.Cluster Model.Monitor_C01.
From WK Require Import Proof.ReplicaLog Proof.QuorumLog_Commit Proof.QuorumLog_C04 Proof.QuorumLog_C03.
From Coq Require Import ZifyBool ZifyN Permutation.
Open Scope N_scope.

(* ---- a replica holds a proposal --------------------------------------------------------------------- *)

(* every entry the proposal derives is stored, identical, at its index *)
Definition holds_proposal (rp : replica) (m : manifest) (recs : list record) : bool :=
  match DeriveProposalEntries m recs with
  | Some es => entries_persisted rp es
  | None => false
  end.

Lemma ent_at_app_right {A} (rp_log0 ext : list A) k x :
  nth_error ext k = Some x ->
  nth_error (rp_log0 ++ ext) (length rp_log0 + k) = Some x.
Proof. intro H. rewrite nth_error_app2 by lia. replace (length rp_log0 + k - length rp_log0)%nat with k by lia. exact H. Qed.

Lemma combine_nth_error {A B} : forall (l1 : list A) (l2 : list B) k a,
  length l1 = length l2 -> nth_error l1 k = Some a -> exists b, nth_error (combine l1 l2) k = Some (a, b).
Proof.
  induction l1 as [|x l1 IH]; intros l2 k a Hl Hk; [destruct k; discriminate|].
  destruct l2 as [|y l2]; [discriminate|]. destruct k as [|k]; cbn in *.
  - inversion Hk; subst. eauto.
  - apply IH; [lia | exact Hk].
Qed.

(* appending the derived chain at the log end stores every derived entry at its index *)
Lemma appended_entries_persisted rp rp' m recs es :
  DeriveProposalEntries m recs = Some es -> rp_leo rp = m_base m ->
  rp_log rp' = rp_log rp ++ combine es recs -> entries_persisted rp' es = true.
Proof.
  intros Hd Hleo Hlog. unfold DeriveProposalEntries in Hd.
  destruct (_ || _ || _ || _ || _ || _ || _) in Hd; [discriminate|].
  destruct (if m_base m =? 0 then _ else _) in Hd; [discriminate|].
  pose proof (derive_loop_length _ _ _ _ _ _ _ Hd) as Hlen.
  pose proof (derive_loop_entries _ _ _ _ _ _ _ Hd) as Hent.
  unfold entries_persisted. apply forallb_forall. intros e Hin.
  apply In_nth_error in Hin. destruct Hin as [k Hk].
  destruct (Hent k e Hk) as (Hidx & _).
  destruct (combine_nth_error es recs k e Hlen Hk) as [r Hc].
  unfold ent_at, log_at. rewrite Hidx.
  replace (m_base m + 1 + N.of_nat k =? 0) with false by lia.
  replace (N.to_nat (m_base m + 1 + N.of_nat k - 1)) with (length (rp_log rp) + k)%nat
    by (unfold rp_leo, lenN in Hleo; lia).
  rewrite Hlog, (ent_at_app_right _ _ _ _ Hc). cbn. apply ident_eqb_refl.
Qed.

Lemma entries_persisted_same_log rp rp' es :
  rp_log rp' = rp_log rp -> entries_persisted rp' es = entries_persisted rp es.
Proof. intro H. unfold entries_persisted, ent_at, log_at. rewrite H. reflexivity. Qed.

(* an AlreadyDurable answer was given only after checking every derived entry *)
Lemma sync_already_checked k rp mu rp' nf :
  sync k rp mu = (rp', OAlready, nf) -> holds_proposal rp (mu_manifest mu) (mu_records mu) = true.
Proof.
  unfold sync, holds_proposal. destruct (negb (validMutation mu)); [discriminate|]. destruct k.
  - destruct (appendLeaderExactLocked rp (mu_manifest mu) (mu_records mu)) as [[rp1 o1] nf1] eqn:E.
    intro H. assert (o1 = OAlready) by (destruct (outcome_durable o1); inversion H; reflexivity). subst o1. clear H.
    unfold appendLeaderExactLocked in E.
    repeat (first [break_if E | break_match E]; try (finish3 E)).
    match goal with Hm : _ && _ && _ && entries_persisted _ _ = true |- _ =>
      rewrite !andb_true_iff in Hm; destruct Hm as [_ Hm]; exact Hm end.
  - unfold prepareExactAppendRecordsLocked. cbv zeta. intro H.
    repeat (first [break_if H | break_match H]; try (finish3 H)).
    all: destruct (by_cmd (rp_bycmd rp) (m_cmd (mu_manifest mu))) as [c|] eqn:Hbc; try discriminate.
    all: match goal with
         | Hn : negb (manifest_eqb _ _ && manifest_eqb _ _ && entries_persisted _ _) = false |- _ =>
             apply negb_false_iff in Hn; rewrite !andb_true_iff in Hn; destruct Hn as [_ Hn]; exact Hn
         end.
Qed.

(* a durable Sync leaves the replica holding the proposal *)
Lemma sync_durable_holds k rp mu rp' o nf :
  sync k rp mu = (rp', o, nf) -> outcome_durable o = true ->
  holds_proposal rp' (mu_manifest mu) (mu_records mu) = true.
Proof.
  intros H Hd. pose proof (sync_effect_holds _ _ _ _ _ _ H) as He. unfold sync_effect in He.
  destruct o; try discriminate.
  - destruct He as (Hleo & es & Hes & Hlog & _). unfold holds_proposal. rewrite Hes.
    eapply appended_entries_persisted; eauto.
  - destruct He as (Hlog & _). pose proof (sync_already_checked _ _ _ _ _ H) as Hc.
    unfold holds_proposal in *. destruct (DeriveProposalEntries _ _); [|discriminate].
    rewrite (entries_persisted_same_log _ _ _ Hlog). exact Hc.
Qed.

Lemma NoDup_app_l {A} (a b : list A) : NoDup (a ++ b) -> NoDup a.
Proof.
  induction a as [|x a IH]; cbn; intro H; [constructor|]. inversion H; subst.
  constructor; [intro X; apply H2; apply in_or_app; left; exact X | apply IH; exact H3].
Qed.
Lemma NoDup_app_r {A} (a b : list A) : NoDup (a ++ b) -> NoDup b.
Proof. induction a as [|x a IH]; cbn; intro H; [exact H|]. inversion H; subst. apply IH. exact H3. Qed.
Lemma NoDup_app_disjoint {A} (a b : list A) : NoDup (a ++ b) -> forall x, In x a -> ~ In x b.
Proof.
  induction a as [|y a IH]; cbn; intros H x Hx; [tauto|]. inversion H; subst.
  destruct Hx as [-> | Hx]; [intro Y; apply H2; apply in_or_app; right; exact Y | apply IH; assumption].
Qed.

(* ---- a successful round is backed by a write quorum of holders ------------------------------------------ *)

Section Round.
  Variables (local : N) (p : dproposal).

  Definition holdsP (n : net) (w : N) : bool :=
    holds_proposal (net_rep n w) (dp_manifest p) (dp_records p).
  Definition H_count (n : net) (S : list N) : N := countb (holdsP n) S.
  Definition durq (q : list (bool * outcome)) : N := countb (fun x => outcome_durable (snd x)) q.

  Lemma countb_cons {A} (f : A -> bool) x l : countb f (x :: l) = (if f x then 1 else 0) + countb f l.
  Proof. unfold countb. cbn. destruct (f x); unfold lenN; cbn [length]; lia. Qed.

  Lemma countb_app {A} (f : A -> bool) l1 l2 : countb f (l1 ++ l2) = countb f l1 + countb f l2.
  Proof. unfold countb. rewrite filter_app, lenN_app. reflexivity. Qed.

  Lemma H_count_ext n n' S : (forall w, In w S -> net_rep n' w = net_rep n w) -> H_count n' S = H_count n S.
  Proof.
    intro Hs. unfold H_count, countb.
    assert (E : filter (holdsP n') S = filter (holdsP n) S)
      by (apply filter_ext_in; intros w Hw; unfold holdsP; rewrite (Hs w Hw); reflexivity).
    rewrite E. reflexivity.
  Qed.

  Lemma submitReplica_holds n v n' o :
    submitReplica n local v p = (n', o) -> outcome_durable o = true -> holdsP n' v = true.
  Proof.
    unfold submitReplica, holdsP. intros H Hd.
    destruct (unreachable n local v); [inversion H; subst; discriminate|].
    destruct (negb (net_known n v) || negb (replicate_request_valid (dp_leader p) v p)); [inversion H; subst; discriminate|].
    destruct (sync (nt_kind n) (net_rep n v) (dp_mutation p)) as [[rp o1] nf] eqn:E.
    destruct (memN v (fl_lose (nt_flt n))); [inversion H; subst; discriminate|].
    assert (Ho : o = o1 /\ n' = net_set n v rp).
    { destruct o1; try (inversion H; subst; auto). destruct (0 <? nf); inversion H; subst; discriminate. }
    destruct Ho as [-> ->]. rewrite net_rep_set, N.eqb_refl.
    exact (sync_durable_holds _ _ _ _ _ _ E Hd).
  Qed.

  Lemma submit_all_inv : forall vs n q n' q' done votes,
    submit_all n local p vs q = (n', q') -> NoDup (done ++ vs) ->
    votes + durq q <= H_count n done ->
    votes + durq q' <= H_count n' (rev vs ++ done) /\
    (forall w, ~ In w vs -> net_rep n' w = net_rep n w).
  Proof.
    induction vs as [|v vs IH]; intros n q n' q' done votes H Hnd Hinv; cbn in H.
    - inversion H; subst. cbn. auto.
    - destruct (submitReplica n local v p) as [n1 o] eqn:E.
      assert (Hv : ~ In v done /\ NoDup (done ++ vs) /\ ~ In v vs).
      { apply NoDup_remove in Hnd. destruct Hnd as [Hnd1 Hnd2]. split; [|split]; auto;
          intro X; apply Hnd2; apply in_or_app; auto. }
      destruct Hv as (Hv1 & Hv2 & Hv3).
      assert (Hnd' : NoDup ((v :: done) ++ vs)).
      { cbn. constructor; [|exact Hv2]. intro X. apply in_app_or in X. tauto. }
      assert (Hinv' : votes + durq (q ++ [(false, o)]) <= H_count n1 (v :: done)).
      { unfold durq in *. rewrite countb_app, countb_cons. unfold H_count in *. rewrite countb_cons. cbn [snd].
        assert (Hd : countb (holdsP n1) done = countb (holdsP n) done).
        { apply (H_count_ext n n1 done). intros w Hw. eapply submitReplica_other; eauto. intro X; subst; contradiction. }
        rewrite Hd. unfold countb at 2. cbn.
        destruct (outcome_durable o) eqn:Ho.
        - rewrite (submitReplica_holds _ _ _ _ E Ho). lia.
        - destruct (holdsP n1 v); lia. }
      destruct (IH _ _ _ _ _ _ H Hnd' Hinv') as [I1 I2]. split.
      + cbn [rev]. rewrite <- app_assoc. cbn. exact I1.
      + intros w Hw. rewrite I2 by (intro X; apply Hw; right; exact X).
        eapply submitReplica_other; eauto. intro X. apply Hw. left. symmetry. exact X.
  Qed.

  Lemma round_loop_inv : forall fuel n wq queue next ld votes out cf lf n' res done,
    round_loop fuel n local wq p queue next ld votes out cf lf = (n', res) ->
    NoDup (done ++ next) -> votes + durq queue <= H_count n done ->
    rr_ok res = true -> exists S, NoDup S /\ incl S (done ++ next) /\ wq <= H_count n' S.
  Proof.
    induction fuel as [|fuel IH]; intros n wq queue next ld votes out cf lf n' res done H Hnd Hinv Hok; cbn in H.
    - inversion H; subst. discriminate.
    - destruct queue as [|[isLocal o] queue'].
      + inversion H; subst. discriminate.
      + set (votes' := if outcome_durable o then votes + 1 else votes) in *.
        assert (Hinv' : votes' + durq queue' <= H_count n done).
        { unfold durq in *. rewrite countb_cons in Hinv. cbn [snd] in Hinv. unfold votes'.
          destruct (outcome_durable o); lia. }
        destruct ((ld || outcome_durable o && isLocal) && (wq <=? votes')) eqn:Hq.
        * destruct (submit_all n local p next []) as [n1 q1] eqn:Hs. inversion H; subst.
          apply andb_true_iff in Hq. destruct Hq as [_ Hq].
          exists done. split; [eapply NoDup_app_l; eauto|]. split; [apply incl_appl, incl_refl|].
          assert (He : H_count n' done = H_count n done).
          { apply H_count_ext. intros w Hw. eapply submit_all_other; eauto.
            intro X. exact (NoDup_app_disjoint _ _ Hnd _ Hw X). }
          rewrite He. lia.
        * destruct (isLocal && negb (outcome_durable o)).
          -- destruct (submit_all n local p next queue') as [n1 q1] eqn:Hs.
             destruct (submit_all_inv _ _ _ _ _ _ _ Hs Hnd Hinv') as [I1 _].
             destruct (IH _ _ _ _ _ _ _ _ _ _ _ (rev next ++ done) H) as (S & S1 & S2 & S3); auto.
             ++ rewrite app_nil_r. apply (Permutation_NoDup (l := done ++ next)); [|exact Hnd].
                rewrite Permutation_app_comm. apply Permutation_app_tail. apply Permutation_rev.
             ++ exists S. split; [exact S1|]. split; [|exact S3].
                intros x Hx. specialize (S2 x Hx). rewrite app_nil_r in S2. apply in_app_or in S2.
                apply in_or_app. destruct S2 as [S2 | S2]; [right; apply in_rev; exact S2 | left; exact S2].
          -- destruct (negb lf && negb isLocal && negb (outcome_durable o)).
             ++ destruct next as [|v next'].
                ** eapply IH; eauto.
                ** destruct (submitReplica n local v p) as [n1 o1] eqn:Hs.
                   assert (Hsa : submit_all n local p [v] queue' = (n1, queue' ++ [(false, o1)])) by (cbn; rewrite Hs; reflexivity).
                   assert (Hnd1 : NoDup (done ++ [v])).
                   { apply (NoDup_app_l _ next'). rewrite <- app_assoc. exact Hnd. }
                   destruct (submit_all_inv _ _ _ _ _ _ _ Hsa Hnd1 Hinv') as [I1 _]. cbn [rev app] in I1.
                   destruct (IH _ _ _ _ _ _ _ _ _ _ _ (v :: done) H) as (S & S1 & S2 & S3); auto.
                   --- cbn. apply (Permutation_NoDup (l := done ++ v :: next')); [|exact Hnd].
                       symmetry. apply Permutation_middle.
                   --- exists S. split; [exact S1|]. split; [|exact S3].
                       intros x Hx. specialize (S2 x Hx). cbn in S2. apply in_or_app.
                       destruct S2 as [-> | S2]; [right; left; reflexivity|].
                       apply in_app_or in S2. destruct S2; [left | right; right]; assumption.
             ++ eapply IH; eauto.
  Qed.
End Round.

Lemma nodupN_NoDup l : nodupN l = true -> NoDup l.
Proof.
  induction l as [|x l IH]; cbn; [constructor|]. rewrite andb_true_iff. intros [H1 H2].
  constructor; [|auto]. intro Hin. apply negb_true_iff in H1.
  assert (existsb (N.eqb x) l = true) by (apply existsb_exists; exists x; split; [exact Hin | apply N.eqb_refl]).
  congruence.
Qed.

Lemma rotate_Permutation {A} : forall k (l : list A), Permutation (rotate l k) l.
Proof.
  induction k as [|k IH]; intro l; cbn; [reflexivity|].
  destruct l as [|x r]; [reflexivity|]. rewrite IH. symmetry. apply Permutation_cons_append.
Qed.

Lemma round_followers_NoDup voters local rot : NoDup voters -> NoDup (round_followers voters local rot).
Proof.
  intro H. unfold round_followers.
  assert (Hf : NoDup (filter (fun v => negb (v =? local)) voters)) by (apply NoDup_filter; exact H).
  destruct (1 <? lenN _); [|exact Hf].
  eapply Permutation_NoDup; [symmetry; apply rotate_Permutation | exact Hf].
Qed.

(* c01_receipt_implies_quorum, on one round: success means that the local node and at least wq
   distinct voters (local included) hold every entry of the proposal, identical, after the round *)
Lemma runDurableRound_quorum n local voters wq rot p n' res :
  NoDup voters -> runDurableRound n local voters wq rot p = (n', res) -> rr_ok res = true ->
  holdsP p n' local = true /\
  exists S, NoDup S /\ incl S (local :: round_followers voters local rot) /\ wq <= H_count p n' S.
Proof.
  intros Hnd H Hok.
  destruct (runDurableRound_local _ _ _ _ _ _ _ _ H) as (n1 & o1 & Hsl & Hrep & Hres & Hdur).
  destruct (Hres Hok) as (Hl & _). specialize (Hdur Hl).
  assert (Hlocal1 : holdsP p n1 local = true).
  { destruct (submitLocal_effect _ _ _ _ _ Hsl) as [[_ X] | (rp & o & nf & Hsync & Hrp & Ho)]; [congruence|].
    unfold holdsP. rewrite Hrp. specialize (Ho Hdur). subst o.
    exact (sync_durable_holds _ _ _ _ _ _ Hsync Hdur). }
  split; [unfold holdsP in *; rewrite Hrep; exact Hlocal1|].
  unfold runDurableRound in H. cbv zeta in H. rewrite Hsl in H.
  set (fs := round_followers voters local rot) in *.
  destruct (submit_all n1 local p (firstn (N.to_nat (wq - 1)) fs) [(true, o1)]) as [n2 queue] eqn:Hs.
  assert (Hfs : NoDup (local :: fs)).
  { constructor; [apply round_followers_not_local | apply round_followers_NoDup; exact Hnd]. }
  assert (Hsplit : fs = firstn (N.to_nat (wq - 1)) fs ++ skipn (N.to_nat (wq - 1)) fs) by (symmetry; apply firstn_skipn).
  assert (Hnd1 : NoDup ([local] ++ firstn (N.to_nat (wq - 1)) fs)).
  { cbn. apply (NoDup_app_l _ (skipn (N.to_nat (wq - 1)) fs)). cbn. rewrite <- Hsplit. exact Hfs. }
  assert (Hinv0 : 0 + durq [(true, o1)] <= H_count p n1 [local]).
  { unfold durq, H_count. rewrite !countb_cons. cbn [snd]. rewrite Hdur, Hlocal1. unfold countb. cbn. lia. }
  destruct (submit_all_inv local p _ _ _ _ _ _ _ Hs Hnd1 Hinv0) as [I1 _].
  assert (Hnd2 : NoDup ((rev (firstn (N.to_nat (wq - 1)) fs) ++ [local]) ++ skipn (N.to_nat (wq - 1)) fs)).
  { apply (Permutation_NoDup (l := local :: fs)); [|exact Hfs].
    rewrite Hsplit at 1.
    change (local :: firstn (N.to_nat (wq - 1)) fs ++ skipn (N.to_nat (wq - 1)) fs)
      with ((local :: firstn (N.to_nat (wq - 1)) fs) ++ skipn (N.to_nat (wq - 1)) fs).
    apply Permutation_app_tail.
    transitivity (local :: rev (firstn (N.to_nat (wq - 1)) fs));
      [constructor; apply Permutation_rev | apply Permutation_cons_append]. }
  destruct (round_loop_inv local p _ _ _ _ _ _ _ _ _ _ _ _ _ H Hnd2 I1 Hok) as (S & S1 & S2 & S3).
  exists S. split; [exact S1|]. split; [|exact S3].
  intros x Hx. specialize (S2 x Hx). apply in_app_or in S2. destruct S2 as [S2 | S2].
  - apply in_app_or in S2. destruct S2 as [S2 | [<- | []]]; [|left; reflexivity].
    right. apply in_rev in S2. eapply In_firstn_l; eauto.
  - right. eapply In_skipn_l; eauto.
Qed.

(* ---- recovery fails closed --------------------------------------------------------------------------- *)

(* whenever the local replica's persisted committed watermark exceeds the selected prefix, repair
   returns an error and writes nothing *)
Lemma repair_fails_closed n local voters q sel maxBytes s es :
  load (nt_kind n) (net_rep n local) [] = Some (s, es) -> sl_index sel < rs_committed s ->
  exists e, repairQuorumPrefix n local voters q sel maxBytes = (n, inl e).
Proof.
  intros Hload Hlt. unfold repairQuorumPrefix.
  destruct (negb (memN local voters) || negb (validRecoveryRepairSelection sel voters q)); [eauto|].
  unfold loadRecoveryReplicaState. rewrite Hload.
  destruct (validReplicaState s && listN_eqb (map pb_idx es) []); [|eauto].
  replace (sl_index sel <? rs_committed s) with true by lia. eauto.
Qed.

(* recovery itself never writes: recoverQuorumPrefix is a function of the network only *)
Lemma Install_fails_closed cfg n st local a s es sel :
  load (nt_kind n) (net_rep n local) [] = Some (s, es) ->
  recoverQuorumPrefix n local (a_voters a) (a_q a) = inr sel -> sl_index sel < rs_committed s ->
  forall n' st' r, Install cfg n st local a = (n', st', r) -> n' = n /\ exists e, r = IErr e \/
    (* or the call never reached recovery: idempotent success on an already ready owner *)
    (exists x leo hw, r = IOk x leo hw /\ st' = st /\ qc_ready st = true).
Proof.
  intros Hload Hrec Hlt n' st' r H.
  destruct (repair_fails_closed n local (a_voters a) (a_q a) sel (cf_pagebytes cfg) s es Hload Hlt) as [e He].
  unfold Install in H.
  destruct (negb (validAuthority a) || (cf_maxvoters <? lenN (a_voters a)) || negb (a_leader a =? local)).
  { inversion H; subst. split; [reflexivity|]. exists EInvalid. left. reflexivity. }
  assert (Htail : forall st1,
    (if a_wf a then (n, st1, IErr EFenced)
     else match recoverQuorumPrefix n local (a_voters a) (a_q a) with
          | inl e0 => (n, st1, IErr e0)
          | inr sel0 =>
              match repairQuorumPrefix n local (a_voters a) (a_q a) sel0 (cf_pagebytes cfg) with
              | (n1, inl e0) => (n1, st1, IErr e0)
              | (n1, inr recovered) =>
                  if negb (rstate_is_zero recovered) && negb (frontierUsesAuthority recovered (a_id a))
                  then match writeCurrentTermBarrier n1 a recovered (cf_rot cfg) with
                       | (n2, inl e0) => (n2, st1, IErr e0)
                       | (n2, inr bs) => (n2, QChan (qc_auth st1) bs (rs_leo bs) true None [] [], IOk (a_id a) (rs_leo bs) (rs_leo bs))
                       end
                  else (n1, QChan (qc_auth st1) recovered (rs_leo recovered) true None [] [],
                        IOk (a_id a) (rs_leo recovered) (rs_leo recovered))
              end
          end) = (n', st', r) -> n' = n /\ exists e0, r = IErr e0 \/ (exists x leo hw, r = IOk x leo hw /\ st' = st /\ qc_ready st = true)).
  { intros st1 Ht. destruct (a_wf a).
    - inversion Ht; subst. split; [reflexivity|]. exists EFenced. left. reflexivity.
    - rewrite Hrec, He in Ht. inversion Ht; subst. split; [reflexivity|]. exists e. left. reflexivity. }
  destruct (qc_auth st) as [cur|].
  - destruct (compareAuthorityID (a_id a) (a_id cur)).
    + destruct (negb (sameAuthority a cur)); [inversion H; subst; split; [reflexivity|]; exists EConflict; left; reflexivity|].
      destruct (a_wf a) eqn:Hwf; [inversion H; subst; split; [reflexivity|]; exists EFenced; left; reflexivity|].
      destruct (qc_ready st) eqn:Hrd.
      * inversion H; subst. split; [reflexivity|]. exists EOk. right. do 3 eexists.
        split; [reflexivity|]. split; [reflexivity | first [reflexivity | exact Hrd]].
      * apply (Htail st). exact H.
    + inversion H; subst. split; [reflexivity|]. exists EStale. left. reflexivity.
    + apply (Htail (fenceQuorumChannel a)). exact H.
  - apply (Htail (fenceQuorumChannel a)). exact H.
Qed.

(* ---- the F1 witness (DESIGN §0 F1, corpus/C01/f1_bare_quorum_then_failover.json) ---------------------- *)

Definition f1_cfg : qconfig := QCfg SMem 3 2 2 3 65536 0.
Definition f1_r1 : record := Rec (TUser 1) 1 1 11 1 false 1.
Definition f1_r2 : record := Rec (TUser 2) 1 2 22 1 false 1.
(* leader 1 commits with node 3 down: acknowledged on {1, 2}; node 1 goes down, node 3 (empty) is
   back; authority (1,2,2) is installed on node 2: every install reaches Q = 2 voters, never more
   than N - Q = 1 node is down *)
Definition f1_ops : list qop :=
  [ OInstall 1 (1, 1, 1) false 2 no_faults; ODown 3;
    OCommit 1 (1, 1, 1) (TUser 1) [f1_r1] false no_faults; ODown 1; OUp 3;
    OInstall 2 (1, 2, 2) false 2 no_faults ].
(* two commits: the replica-persisted watermark now protects the first, the install fails closed;
   once node 1 is back the install succeeds with a barrier at 3 *)
Definition f1_two_commits_ops : list qop :=
  [ OInstall 1 (1, 1, 1) false 2 no_faults; ODown 3;
    OCommit 1 (1, 1, 1) (TUser 1) [f1_r1] false no_faults;
    OCommit 1 (1, 1, 1) (TUser 2) [f1_r2] false no_faults; ODown 1; OUp 3;
    OInstall 2 (1, 2, 2) false 2 no_faults; OUp 1; OInstall 2 (1, 2, 2) false 2 no_faults ].

Lemma f1_acked_entry_lost :
  fst (run_model f1_cfg (cluster_init f1_cfg) f1_ops) =
    [ RInstalled (1, 1, 1) 0 0; RNone; RReceipt (1, 1, 1) (TUser 1) 1 1 1; RNone; RNone;
      RInstalled (1, 2, 2) 0 0 ] /\
  rp_leo (net_rep (cl_net (snd (run_model f1_cfg (cluster_init f1_cfg) f1_ops))) 2) = 0 /\
  C01_monitor (model_case f1_cfg f1_ops) = 2.
Proof. repeat split; vm_compute; reflexivity. Qed.

Lemma f1_two_commits_fail_closed :
  fst (run_model f1_cfg (cluster_init f1_cfg) f1_two_commits_ops) =
    [ RInstalled (1, 1, 1) 0 0; RNone; RReceipt (1, 1, 1) (TUser 1) 1 1 1; RReceipt (1, 1, 1) (TUser 2) 2 2 2;
      RNone; RNone; RErr EConflict; RNone; RInstalled (1, 2, 2) 3 3 ] /\
  C01_monitor (model_case f1_cfg f1_two_commits_ops) = 0.
Proof. repeat split; vm_compute; reflexivity. Qed.

(* ---- the K2 witness (C01-K2, corpus/C01/k2_shrunk_lost_page_reply_guard_holds.json) ------------------- *)

(* leader 3 (term 1) stores X locally only (both followers unreachable: never acknowledged); leader 1
   (term 2) is installed (quorum LEO 0: nothing to recover, no barrier) and commits Y: acknowledged at
   index 1, held by {1,2} (node 3 answers Conflict).  Authority (1,3,3) is installed on node 2: all three
   voters answer the frontier round (LEOs 1,1,1), the identity-page reply of node 1 is lost; the stable
   voters {2,3} still have quorum LEO 1 and quorum watermark 0, so the guard of recoverQuorumPrefix holds;
   at index 1 they differ (Y, X): selection 0, node 2 truncates Y and is writable at LEO 0 *)
Definition k2_ops : list qop :=
  [ OInstall 3 (1, 1, 1) false 2 no_faults;
    OCommit 3 (1, 1, 1) (TUser 1) [f1_r1] false (Flt [] [1; 2] None []);
    OInstall 1 (1, 2, 2) false 2 no_faults;
    OCommit 1 (1, 2, 2) (TUser 2) [f1_r2] false no_faults;
    OInstall 2 (1, 3, 3) false 2 (Flt [] [] None [1]) ].
(* without the divergent longer log on node 3 the stable voters {2,3} have quorum LEO 0 <> 1: the guard
   fails closed (ErrRecoveryProbeIncomplete) *)
Definition k2_closed_ops : list qop :=
  [ OInstall 3 (1, 1, 1) false 2 no_faults;
    OInstall 1 (1, 2, 2) false 2 no_faults;
    OCommit 1 (1, 2, 2) (TUser 2) [f1_r2] false (Flt [] [3] None []);
    OInstall 2 (1, 3, 3) false 2 (Flt [] [] None [1]) ].

Lemma k2_acked_entry_lost :
  fst (run_model f1_cfg (cluster_init f1_cfg) k2_ops) =
    [ RInstalled (1, 1, 1) 0 0; RErr EQuorumUnavailable; RInstalled (1, 2, 2) 0 0;
      RReceipt (1, 2, 2) (TUser 2) 1 1 1; RInstalled (1, 3, 3) 0 0 ] /\
  rp_leo (net_rep (cl_net (snd (run_model f1_cfg (cluster_init f1_cfg) k2_ops))) 2) = 0 /\
  C01_monitor (model_case f1_cfg k2_ops) = 3.
Proof. repeat split; vm_compute; reflexivity. Qed.

Lemma k2_guard_false_fails_closed :
  fst (run_model f1_cfg (cluster_init f1_cfg) k2_closed_ops) =
    [ RInstalled (1, 1, 1) 0 0; RInstalled (1, 2, 2) 0 0;
      RReceipt (1, 2, 2) (TUser 2) 1 1 1; RErr EProbeIncomplete ] /\
  rp_leo (net_rep (cl_net (snd (run_model f1_cfg (cluster_init f1_cfg) k2_closed_ops))) 2) = 1 /\
  C01_monitor (model_case f1_cfg k2_closed_ops) = 0.
Proof. repeat split; vm_compute; reflexivity. Qed.

Lemma round_followers_incl voters local rot : incl (round_followers voters local rot) voters.
Proof.
  unfold round_followers. intros x Hx.
  assert (X : In x (filter (fun v => negb (v =? local)) voters)).
  { destruct (1 <? lenN _); [apply rotate_In in Hx|]; exact Hx. }
  apply filter_In in X. tauto.
Qed.

(* c01_receipt_implies_quorum: whenever Commit takes the finish path (the only path that issues a
   NEW receipt), right after the call the leader and at least WriteQuorum distinct voters hold
   every entry of the acknowledged range, identical *)
Lemma Commit_fresh_receipt_quorum cfg n st local p a d n1 res :
  NoDup (a_voters a) -> In local (a_voters a) ->
  sealBusinessProposal a (qc_frontier st) (qc_hw st) (pr_cmd p) (pr_records p) (pr_sa p) = Some d ->
  runDurableRound n local (a_voters a) (a_q a) (cf_rot cfg) d = (n1, res) -> rr_ok res = true ->
  holdsP d n1 local = true /\
  exists S, NoDup S /\ incl S (a_voters a) /\ a_q a <= H_count d n1 S.
Proof.
  intros Hnd Hin Hseal Hr Hok.
  destruct (runDurableRound_quorum _ _ _ _ _ _ _ _ Hnd Hr Hok) as (Hl & S & S1 & S2 & S3).
  split; [exact Hl|]. exists S. split; [exact S1|]. split; [|exact S3].
  intros x Hx. destruct (S2 x Hx) as [<- | Hf]; [exact Hin | exact (round_followers_incl _ _ _ _ Hf)].
Qed.

(* ---- bounded exhaustive checks of the monitor on the model's own traces ------------------------------------ *)

Fixpoint schedules01 (alphabet : list qop) (len : nat) : list (list qop) :=
  match len with
  | O => [[]]
  | S k => [] :: flat_map (fun s => map (fun op => op :: s) alphabet) (schedules01 alphabet k)
  end.

Definition f1_r3 : record := Rec (TUser 3) 1 3 33 1 false 1.
(* failover alphabet, 3 voters, quorum 2: commits by leader 1 (one on the bare quorum {1,2}), nodes 1
   and 3 going down / coming back, the next authority installed on node 2, a commit by node 2 *)
Definition c01_alphabet (with_outages : bool) : list qop :=
  [ OCommit 1 (1, 1, 1) (TUser 1) [f1_r1] false (Flt [] [3] None []);
    OCommit 1 (1, 1, 1) (TUser 2) [f1_r2] false no_faults;
    OInstall 2 (1, 2, 2) false 2 no_faults;
    OCommit 2 (1, 2, 2) (TUser 3) [f1_r3] false no_faults;
    ORestart 2 ] ++
  (if with_outages then [ODown 1; OUp 1; ODown 3; OUp 3] else []).

Definition c01_codes_in (allowed : list N) (alphabet : list qop) (len : nat) : bool :=
  forallb (fun s => existsb (N.eqb (C01_monitor (model_case f1_cfg (OInstall 1 (1, 1, 1) false 2 no_faults :: s)))) allowed)
          (schedules01 alphabet len).

(* every voter answers every probe (no outages): all acknowledged entries survive, monitor 0 *)
Lemma c01_bounded_all_answer : c01_codes_in [0] (c01_alphabet false) 5 = true.
Proof. vm_compute. reflexivity. Qed.

(* with outages: only 0 or the known-finding code 2, never 1 *)
Lemma c01_bounded_with_outages : c01_codes_in [0; 2] (c01_alphabet true) 4 = true.
Proof. vm_compute. reflexivity. Qed.

(* lost identity-page replies: after leader 3's install, a local-only write X by leader 3, installs of
   (1,2,2) on node 1 and of (1,3,3) on node 2 (with and without node 1's page reply lost), commits by
   nodes 1 and 2, node 1 going down / coming back *)
Definition k2_alphabet : list qop :=
  [ OCommit 3 (1, 1, 1) (TUser 1) [f1_r1] false (Flt [] [1; 2] None []);
    OInstall 1 (1, 2, 2) false 2 no_faults;
    OCommit 1 (1, 2, 2) (TUser 2) [f1_r2] false no_faults;
    OInstall 2 (1, 3, 3) false 2 (Flt [] [] None [1]);
    OInstall 2 (1, 3, 3) false 2 no_faults;
    OCommit 2 (1, 3, 3) (TUser 3) [f1_r3] false no_faults;
    ODown 1; OUp 1 ].
Definition c01_codes_in_from (first : qop) (allowed : list N) (alphabet : list qop) (len : nat) : bool :=
  forallb (fun s => existsb (N.eqb (C01_monitor (model_case f1_cfg (first :: s)))) allowed) (schedules01 alphabet len).

(* 37449 schedules: only 0 and the known-finding codes 2 and 3, never 1 *)
Lemma c01_bounded_lost_page_replies :
  c01_codes_in_from (OInstall 3 (1, 1, 1) false 2 no_faults) [0; 2; 3] k2_alphabet 5 = true.
Proof. vm_compute. reflexivity. Qed.
