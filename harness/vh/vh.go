// Package vh is the shared skeleton of every /verif harness main: flag
// handling, one PRNG seed for everything, panic capture, JSON-lines output and
// printers for the Coq terms that go into generated case files.
//
// It is mapped into /repo as internal/verifh/vh by the build overlay
// (/verif/check); nothing of it exists in /repo itself.
package vh

import (
	"bufio"
	"encoding/hex"
	"encoding/json"
	"flag"
	"fmt"
	"io"
	"math/rand/v2"
	"os"
	"runtime/debug"
	"strconv"
	"strings"
	"time"
)

// Result is what a harness reports for one case.
type Result struct {
	// Coq is the Coq term of the case (input and implementation observations),
	// of the property's case type.
	Coq string
	// Obs is a JSON-friendly rendering of the observations for replay files.
	Obs any
	// Class labels the case for the input-distribution histogram.
	Class string
	// Trivial marks cases that do not exercise the property (empty history, ...).
	Trivial bool
}

type line struct {
	I       int    `json:"i"`
	Input   any    `json:"input"`
	Obs     any    `json:"obs,omitempty"`
	Coq     string `json:"coq,omitempty"`
	Class   string `json:"class,omitempty"`
	Trivial bool   `json:"trivial,omitempty"`
	Panic   string `json:"panic,omitempty"`
}

// Harness describes one property harness. I is the JSON-serialisable input type.
type Harness[I any] struct {
	// EmitConsts prints the regenerated Gen/Consts_<ID>.v (may be nil).
	EmitConsts func(w io.Writer)
	// Gen draws case number i. All randomness must come from r.
	Gen func(r *rand.Rand, tier string, i int) I
	// Run executes the implementation on in.
	Run func(in I) Result
}

// Main parses flags and runs the harness.
func Main[I any](h Harness[I]) {
	seed := flag.Uint64("seed", 1, "PRNG seed")
	n := flag.Int("n", 100, "number of generated cases")
	tier := flag.String("tier", "quick", "quick|thorough")
	emit := flag.Bool("emit-consts", false, "print Gen/Consts file and exit")
	input := flag.String("input", "", "JSONL file of inputs to run instead of generating")
	caseTimeout := flag.Duration("case-timeout", 60*time.Second, "per-case wall limit; a case exceeding it is reported like a panic")
	flag.Parse()

	out := bufio.NewWriterSize(os.Stdout, 1<<20)
	defer out.Flush()
	if *emit {
		if h.EmitConsts != nil {
			h.EmitConsts(out)
		}
		return
	}
	enc := json.NewEncoder(out)
	enc.SetEscapeHTML(false)
	timeouts := 0
	runOne := func(i int, in I) {
		l := line{I: i, Input: in}
		done := make(chan line, 1)
		go func() {
			l2 := l
			defer func() {
				if r := recover(); r != nil {
					l2.Panic = fmt.Sprintf("%v\n%s", r, debug.Stack())
				}
				done <- l2
			}()
			res := h.Run(in)
			l2.Coq, l2.Obs, l2.Class, l2.Trivial = res.Coq, res.Obs, res.Class, res.Trivial
		}()
		select {
		case l = <-done:
		case <-time.After(*caseTimeout):
			l.Panic = fmt.Sprintf("case timeout: the implementation did not finish this case within %s (hang / livelock)", *caseTimeout)
			timeouts++
		}
		if err := enc.Encode(l); err != nil {
			fmt.Fprintln(os.Stderr, "encode:", err)
			os.Exit(2)
		}
		// flush per case: a fatal runtime error (out of memory, ...) must not lose the cases already run
		out.Flush()
		if timeouts >= 3 {
			out.Flush()
			fmt.Fprintln(os.Stderr, "three cases timed out; stopping the run")
			os.Exit(0)
		}
	}
	if *input != "" {
		f, err := os.Open(*input)
		if err != nil {
			fmt.Fprintln(os.Stderr, err)
			os.Exit(2)
		}
		defer f.Close()
		sc := bufio.NewScanner(f)
		sc.Buffer(make([]byte, 1<<20), 1<<28)
		i := 0
		for sc.Scan() {
			b := sc.Bytes()
			if len(strings.TrimSpace(string(b))) == 0 {
				continue
			}
			var in I
			if err := json.Unmarshal(b, &in); err != nil {
				fmt.Fprintln(os.Stderr, "bad input line:", err)
				os.Exit(2)
			}
			runOne(i, in)
			i++
		}
		return
	}
	r := rand.New(rand.NewPCG(*seed, 0x9E3779B97F4A7C15))
	for i := 0; i < *n; i++ {
		runOne(i, h.Gen(r, *tier, i))
	}
}

// ---- Coq term printers -------------------------------------------------------

// Hex renders a byte string as (hx "6869").
func Hex(b []byte) string { return `(hx "` + hex.EncodeToString(b) + `")` }

// HexS renders a Go string's bytes.
func HexS(s string) string { return Hex([]byte(s)) }

// N renders an unsigned number (N_scope numeral).
func N(u uint64) string { return strconv.FormatUint(u, 10) }

// Z renders a signed number in parentheses with %Z.
func Z(i int64) string { return "(" + strconv.FormatInt(i, 10) + ")%Z" }

// B renders a bool.
func B(b bool) string {
	if b {
		return "true"
	}
	return "false"
}

// List renders [a; b; c].
func List(items []string) string { return "[" + strings.Join(items, "; ") + "]" }

// ListOf maps and renders.
func ListOf[T any](xs []T, f func(T) string) string {
	items := make([]string, len(xs))
	for i, x := range xs {
		items[i] = f(x)
	}
	return List(items)
}

// NList renders a list of numbers.
func NList(xs []uint64) string { return ListOf(xs, N) }

// Some / None.
func Some(s string) string { return "(Some " + s + ")" }
func None() string         { return "None" }

// App renders (f a b c).
func App(f string, args ...string) string {
	return "(" + f + " " + strings.Join(args, " ") + ")"
}

// Pair renders (a, b).
func Pair(a, b string) string { return "(" + a + ", " + b + ")" }

// ---- generator helpers -----------------------------------------------------------

// Bytes draws n random bytes.
func Bytes(r *rand.Rand, n int) []byte {
	b := make([]byte, n)
	for i := range b {
		b[i] = byte(r.UintN(256))
	}
	return b
}

// Pick returns one of xs.
func Pick[T any](r *rand.Rand, xs ...T) T { return xs[r.IntN(len(xs))] }

// Chance returns true with probability p.
func Chance(r *rand.Rand, p float64) bool { return r.Float64() < p }

// U64Edge draws a uint64 biased to boundaries and small values.
func U64Edge(r *rand.Rand) uint64 {
	switch r.IntN(8) {
	case 0:
		return 0
	case 1:
		return ^uint64(0)
	case 2:
		return ^uint64(0) - uint64(r.IntN(3))
	case 3:
		return uint64(r.IntN(4))
	case 4:
		return uint64(r.IntN(1 << 16))
	default:
		return r.Uint64() >> uint(r.IntN(64))
	}
}
