package main

// Message-domain scenarios: build a source store by a small history (exact appends under
// sealed proposals, plain appends, checkpoints, epoch history, retention, truncation,
// dispatch cursors, raw inconsistent system rows), then export / import / re-export,
// crash-and-retry, exhaustive corruption sweeps and re-sealed structural corruption.

import (
	"bytes"
	"context"
	"encoding/binary"
	"fmt"
	"math/rand/v2"
	"sort"
	"strings"

	"github.com/WuKongIM/WuKongIM/internal/verifh/vh"
	"github.com/WuKongIM/WuKongIM/pkg/db/message"
	channel "github.com/WuKongIM/WuKongIM/pkg/db/message/channelcompat"
)

var chanKeys = []string{"a", "ab", "b"}
var chanIDs = []string{"ca", "cab", "cb"}
var chanTypes = []uint8{1, 2, 1}

func cleanupAll() {}

type msgDB struct {
	eng *message.Engine
}

func openMsgDB() *msgDB {
	eng, err := message.VerifC11OpenMem()
	if err != nil {
		panic(fmt.Sprintf("message.VerifC11OpenMem: %v", err))
	}
	return &msgDB{eng}
}

func (d *msgDB) close() {
	if d.eng != nil {
		_ = d.eng.Close()
		d.eng = nil
	}
}

func (d *msgDB) db() *message.MessageDB { return d.eng.VerifC11DB() }

type chain struct {
	leo        uint64
	epoch      uint64
	term       uint64
	prevTerm   uint64
	prevIndex  uint64
	prevDigest [32]byte
	cmd        uint64
	hw         uint64 // last stored checkpoint hw
	logStart   uint64
	ckptEpoch  uint64
	written    bool
}

type msgRun struct {
	src    *msgDB
	stores [3]*message.ChannelStore
	ch     [3]chain
	nextID uint64
	terms  []string
	labels []string
	r      *rand.Rand
}

var bg = context.Background()

func (m *msgRun) store(c int) *message.ChannelStore {
	if m.stores[c] == nil {
		s, err := m.src.eng.ForChannel(channel.ChannelKey(chanKeys[c]), channel.ChannelID{ID: chanIDs[c], Type: chanTypes[c]})
		if err != nil {
			panic(fmt.Sprintf("ForChannel: %v", err))
		}
		m.stores[c] = s
	}
	return m.stores[c]
}

func (m *msgRun) rows(c int, n int, r *rand.Rand) []message.VerifCompatRow11 {
	out := make([]message.VerifCompatRow11, n)
	for i := range out {
		m.nextID++
		out[i] = message.VerifCompatRow11{
			MessageID: m.nextID, ClientMsgNo: cno(m.nextID, r), FromUID: vh.Pick(r, "u1", "u2"),
			ChannelID: chanIDs[c], ChannelType: chanTypes[c], Payload: vh.Bytes(r, r.IntN(6)),
			ServerTimestampMS: 1_700_000_000_000 + int64(m.nextID), FramerFlags: uint8(r.IntN(2) * 4),
		}
	}
	return out
}

// cno: mostly unique client message numbers (a reused one makes the append an idempotency conflict)
func cno(id uint64, r *rand.Rand) string {
	if r.IntN(10) == 0 {
		return fmt.Sprintf("n%d", r.IntN(4))
	}
	return fmt.Sprintf("m%d", id)
}

// history ops ------------------------------------------------------------------------------------

func (m *msgRun) history(o op) {
	c := ((o.C % 3) + 3) % 3
	r := sub(o.Seed)
	ch := &m.ch[c]
	st := m.store(c)
	switch o.Op {
	case "exact":
		n := 1 + o.A%3
		if ch.epoch == 0 {
			ch.epoch, ch.term = 3, 5
		}
		var cmd [32]byte
		ch.cmd++
		binary.BigEndian.PutUint64(cmd[:8], ch.cmd)
		cmd[31] = byte(c + 1)
		digest, err := message.VerifC11ExactAppend(bg, st, ch.leo, m.rows(c, n, r), ch.epoch, ch.term, 7, cmd, ch.prevTerm, ch.prevIndex, ch.prevDigest)
		if err == nil {
			ch.leo += uint64(n)
			ch.prevTerm, ch.prevIndex, ch.prevDigest = ch.term, ch.leo, digest
			ch.written = true
		}
	case "plain":
		n := 1 + o.A%3
		var recs []channel.Record
		for _, row := range m.rows(c, n, r) {
			rec, err := message.VerifC11Record(row)
			if err != nil {
				panic(err)
			}
			recs = append(recs, rec)
		}
		if _, err := st.Append(recs); err == nil {
			ch.leo += uint64(n)
			ch.written = true
		}
	case "ckpt":
		hw := ch.leo
		switch o.A % 5 {
		case 1:
			if hw > 0 {
				hw--
			}
		case 2:
			hw = uint64(r.IntN(int(ch.leo) + 1))
		case 3:
			hw = ch.leo / 2
		}
		if hw < ch.logStart {
			hw = ch.logStart
		}
		ep := ch.epoch
		if ep == 0 {
			ep = 1
		}
		if err := st.StoreCheckpoint(channel.Checkpoint{Epoch: ep, LogStartOffset: ch.logStart, HW: hw}); err == nil {
			ch.hw, ch.ckptEpoch = hw, ep
		}
	case "hist":
		ep := ch.epoch
		if ep == 0 {
			ep = 1
		}
		_ = st.AppendHistory(channel.EpochPoint{Epoch: ep + uint64(o.A%2), StartOffset: ch.leo})
	case "trim":
		if ch.hw > 0 {
			through := 1 + uint64(o.A)%ch.hw
			if err := st.AdoptRetentionBoundary(bg, through, "retention"); err == nil {
				if st.TrimMessagesThrough(bg, through) == nil && through > ch.logStart {
					ch.logStart = through
				}
			}
		}
	case "trunc":
		to := ch.hw + uint64(o.A%2)
		if to < ch.leo {
			if err := st.Truncate(to); err == nil {
				ch.leo = to
				// the proposal chain above [to] is gone; further exact appends re-chain from what is left
				if ch.prevIndex > to {
					ch.prevIndex = 0 // unknown predecessor: later exact appends will be refused
				}
			}
		}
	case "cursor":
		_ = st.StoreCommittedDispatchCursor(vh.Pick(r, "disp", "push"), uint64(o.A)%(ch.leo+1))
	case "rawsys":
		key := message.ChannelKey(chanKeys[c])
		prefix := message.VerifC11SystemAllPrefix(key)
		dumps, err := m.src.db().VerifC11Dump([]message.ChannelKey{key}, []message.ChannelID{{ID: chanIDs[c], Type: chanTypes[c]}})
		if err != nil || len(dumps) != 1 {
			return
		}
		var pick *message.VerifC11SysEntry
		for i := range dumps[0].Sys {
			e := &dumps[0].Sys[i]
			if (o.A%3 == 0 && e.Kind == 2) || (o.A%3 == 1 && e.Kind == 3) || (o.A%3 == 2 && e.Kind == 1) {
				pick = e
				if r.IntN(2) == 0 {
					break
				}
			}
		}
		switch {
		case pick != nil && o.B%3 == 0: // drop one row of a pair / one identity / one history point
			_ = m.src.db().VerifC11RawDelete(pick.Key)
		case pick != nil && o.B%3 == 1: // corrupt its value
			v := append([]byte(nil), pick.Value...)
			if len(v) > 0 {
				v[r.IntN(len(v))] ^= byte(1 << r.UintN(8))
			}
			_ = m.src.db().VerifC11RawSet(pick.Key, v)
		default: // an unknown system row
			_ = m.src.db().VerifC11RawSet(append(append([]byte(nil), prefix...), 0, 0, 0, 1, 0x7f, byte(o.A)), vh.Bytes(r, 3))
		}
	}
}

// dumps -------------------------------------------------------------------------------------------

func chanIDOf(key string) message.ChannelID {
	for i, k := range chanKeys {
		if k == key {
			return message.ChannelID{ID: chanIDs[i], Type: chanTypes[i]}
		}
	}
	return message.ChannelID{}
}

func dumpDB(d *msgDB, keys []string, ids []message.ChannelID) []message.VerifC11ChanDump {
	ks := make([]message.ChannelKey, len(keys))
	for i, k := range keys {
		ks[i] = message.ChannelKey(k)
	}
	out, err := d.db().VerifC11Dump(ks, ids)
	if err != nil {
		panic(fmt.Sprintf("VerifC11Dump: %v", err))
	}
	return out
}

func sysKV(es []message.VerifC11SysEntry) ([][]byte, [][]byte) {
	ks, vs := make([][]byte, len(es)), make([][]byte, len(es))
	for i, e := range es {
		ks[i], vs[i] = e.Key, e.Value
	}
	return ks, vs
}

func pSys(e message.VerifC11SysEntry) string {
	return vh.App("SE", hexs(e.Key), hexs(e.Value), vh.N(uint64(e.Kind)), vh.N(e.A), vh.N(e.B), vh.B(e.Ok), vh.N(e.Err))
}

func pDump(d message.VerifC11ChanDump, id message.ChannelID) string {
	cat := "None"
	if d.CatalogPresent {
		cat = vh.Some(vh.Pair(hexs([]byte(d.CatalogID)), vh.N(uint64(d.CatalogType))))
	}
	ck := "None"
	if d.CkptPresent {
		ck = vh.Some(hexs(d.Ckpt))
	}
	ret := "None"
	if d.RetPresent {
		ret = vh.Some(vh.Pair(vh.N(d.RetErr), vh.N(d.RetainedMax)))
	}
	ks, vs := sysKV(d.Sys)
	rows := make([]string, len(d.Rows))
	for i, r := range d.Rows {
		identOK := true
		if r.Err == 0 {
			_, _, _, ok, ierr := message.VerifC11RowCheck(message.ChannelKey(d.Key), id, r.Seq, r.Header, r.Payload, ks, vs)
			identOK = ok && ierr == 0
		}
		rows[i] = vh.App("RW", vh.N(r.Seq), hexs(r.Header), hexs(r.Payload), vh.N(r.MessageID), vh.N(r.Err), vh.B(r.ChanOK), vh.B(identOK))
	}
	return vh.App("CHD", hexs([]byte(d.Key)), cat, vh.N(d.CatalogErr), ck, ret, vh.ListOf(d.Sys, pSys), vh.List(rows))
}

func pDumps(ds []message.VerifC11ChanDump) string {
	items := make([]string, len(ds))
	for i, d := range ds {
		items[i] = pDump(d, chanIDOf(d.Key))
	}
	return vh.List(items)
}

// cuts ---------------------------------------------------------------------------------------------

func pCut(c message.BackupChannelCut) string {
	return vh.App("CUT", hexs([]byte(c.Key)), hexs([]byte(c.ID.ID)), vh.N(uint64(c.ID.Type)), vh.N(c.Checkpoint.Epoch),
		vh.N(c.Checkpoint.LogStartOffset), vh.N(c.Checkpoint.HW))
}

// kept replicates the export's filter over classified system entries (to know which list
// validateBackupProposalSystemEntries is asked about); ok=false when the filter itself errors.
func kept(es []message.VerifC11SysEntry, hw uint64) ([]message.VerifC11SysEntry, bool) {
	var out []message.VerifC11SysEntry
	for _, e := range es {
		switch e.Kind {
		case 0:
			return nil, false
		case 1:
			if e.A <= hw {
				out = append(out, e)
			}
		case 2:
			if !e.Ok || (e.A < hw && e.B > hw) {
				return nil, false
			}
			if e.B <= hw {
				out = append(out, e)
			}
		case 3:
			if !e.Ok {
				return nil, false
			}
			if e.A <= hw {
				out = append(out, e)
			}
		default:
			out = append(out, e)
		}
	}
	return out, true
}

// validTable lists, for every (channel, hw) a cut asks about, what
// validateBackupProposalSystemEntries answers on the kept entries.
func validTable(dumps []message.VerifC11ChanDump, cuts []message.BackupChannelCut) string {
	var items []string
	for _, c := range cuts {
		for _, d := range dumps {
			if d.Key != string(c.Key) {
				continue
			}
			k, ok := kept(d.Sys, c.Checkpoint.HW)
			if !ok {
				continue
			}
			ks, vs := sysKV(k)
			class := message.VerifC11SysValid(c.Key, c.Checkpoint.HW, ks, vs)
			keys := make([]string, len(ks))
			for i := range ks {
				keys[i] = hexs(ks[i])
			}
			items = append(items, "("+hexs([]byte(d.Key))+", "+vh.N(c.Checkpoint.HW)+", "+vh.List(keys)+", "+vh.N(class)+")")
		}
	}
	return vh.List(items)
}

// streamOracle answers, for every section of a well-framed stream, what the abstract
// decoders of the importer say (system-entry validation, identity map, every row).
func streamOracle(stream []byte) string {
	s, _ := parseMsgStream(stream)
	items := make([]string, len(s.Chans))
	for i, ch := range s.Chans {
		key := message.ChannelKey(ch.Key)
		id := message.ChannelID{ID: ch.ID, Type: ch.Type}
		ks, vs := make([][]byte, len(ch.Sys)), make([][]byte, len(ch.Sys))
		for j, e := range ch.Sys {
			ks[j], vs[j] = e.Key, e.Value
		}
		hw := uint64(0)
		if len(ch.Ckpt) == 24 {
			hw = binary.BigEndian.Uint64(ch.Ckpt[16:24])
		}
		valid := message.VerifC11SysValid(key, hw, ks, vs)
		identErr := uint64(0)
		rows := make([]string, len(ch.Rows))
		for j, r := range ch.Rows {
			class, mid, chanOK, identOK, ierr := message.VerifC11RowCheck(key, id, r.Seq, r.Header, r.Payload, ks, vs)
			if ierr != 0 {
				identErr = ierr
			}
			rows[j] = "(" + vh.N(class) + ", " + vh.N(mid) + ", " + vh.B(chanOK) + ", " + vh.B(identOK) + ")"
		}
		if len(ch.Rows) == 0 {
			_, _, _, _, identErr = message.VerifC11RowCheck(key, id, 1, nil, nil, ks, vs)
		}
		items[i] = vh.App("CO", vh.N(valid), vh.N(identErr), vh.List(rows))
	}
	return vh.List(items)
}

// export / import primitives ---------------------------------------------------------------------

func exportStream(d *msgDB, hs uint16, cuts []message.BackupChannelCut) ([]byte, uint64) {
	rd, err := d.db().OpenBackupSnapshot(bg, message.BackupSnapshotRequest{HashSlot: hs, Channels: cuts})
	if err != nil {
		return nil, message.VerifC11ErrClass(err)
	}
	var buf bytes.Buffer
	_, err = buf.ReadFrom(rd)
	_ = rd.Close()
	if err != nil {
		return nil, message.VerifC11ErrClass(err)
	}
	return buf.Bytes(), 0
}

// budgetCtx is a context that reports cancellation after n successful polls (n < 0: never).
// pkg/db/message polls with a select on Done(); pkg/db/meta polls Err().
type budgetCtx struct {
	context.Context
	left    int
	pollErr bool // count polls of Err() (meta) instead of Done() (message)
	dead    bool
}

var closedChan = func() chan struct{} { c := make(chan struct{}); close(c); return c }()

func (c *budgetCtx) poll() bool {
	if c.dead {
		return true
	}
	if c.left < 0 {
		return false
	}
	if c.left == 0 {
		c.dead = true
		return true
	}
	c.left--
	return false
}

func (c *budgetCtx) Done() <-chan struct{} {
	if c.pollErr {
		if c.dead {
			return closedChan
		}
		return nil
	}
	if c.poll() {
		return closedChan
	}
	return nil
}

func (c *budgetCtx) Err() error {
	if c.pollErr {
		if c.poll() {
			return context.Canceled
		}
		return nil
	}
	if c.dead {
		return context.Canceled
	}
	return nil
}

func importReader(d *msgDB, stream []byte, budget int) (message.BackupSnapshotStats, uint64) {
	ctx := &budgetCtx{Context: bg, left: budget}
	st, err := d.db().ImportBackupSnapshotReader(ctx, bytes.NewReader(stream), int64(len(stream)))
	return st, message.VerifC11ErrClass(err)
}

func importData(d *msgDB, stream []byte) (message.BackupSnapshotStats, uint64) {
	st, err := d.db().ImportBackupSnapshot(bg, stream)
	return st, message.VerifC11ErrClass(err)
}

func pStats(s message.BackupSnapshotStats) string {
	return vh.App("ST", vh.N(uint64(s.HashSlot)), vh.N(s.ChannelCount), vh.N(s.MessageCount), vh.N(s.MaxMessageID))
}

func keysOfStream(stream []byte) ([]string, []message.ChannelID) {
	s, ok := parseMsgStream(stream)
	var keys []string
	var ids []message.ChannelID
	seen := map[string]bool{}
	if ok {
		for _, ch := range s.Chans {
			if !seen[ch.Key] {
				seen[ch.Key] = true
				keys = append(keys, ch.Key)
				ids = append(ids, message.ChannelID{ID: ch.ID, Type: ch.Type})
			}
		}
	}
	for i, k := range chanKeys {
		if !seen[k] {
			seen[k] = true
			keys = append(keys, k)
			ids = append(ids, message.ChannelID{ID: chanIDs[i], Type: chanTypes[i]})
		}
	}
	// sorted by key, like the physical store
	idx := make([]int, len(keys))
	for i := range idx {
		idx[i] = i
	}
	sort.Slice(idx, func(a, b int) bool { return keys[idx[a]] < keys[idx[b]] })
	k2, i2 := make([]string, len(keys)), make([]message.ChannelID, len(keys))
	for i, j := range idx {
		k2[i], i2[i] = keys[j], ids[j]
	}
	return k2, i2
}

func dumpFor(d *msgDB, stream []byte) string {
	keys, ids := keysOfStream(stream)
	ds := dumpDB(d, keys, ids)
	items := make([]string, len(ds))
	for i := range ds {
		items[i] = pDump(ds[i], ids[i])
	}
	return vh.List(items)
}

func sameKV(a, b *msgDB) bool {
	x, err1 := a.db().VerifC11AllKV()
	y, err2 := b.db().VerifC11AllKV()
	if err1 != nil || err2 != nil || len(x) != len(y) {
		return false
	}
	for i := range x {
		if !bytes.Equal(x[i][0], y[i][0]) || !bytes.Equal(x[i][1], y[i][1]) {
			return false
		}
	}
	return true
}

func leoOf(d *msgDB, c int) uint64 {
	s, err := d.eng.ForChannel(channel.ChannelKey(chanKeys[c]), channel.ChannelID{ID: chanIDs[c], Type: chanTypes[c]})
	if err != nil {
		return ^uint64(0)
	}
	defer s.Close()
	leo, err := s.LEOWithError()
	if err != nil {
		return ^uint64(0)
	}
	return leo
}

// backup ops ------------------------------------------------------------------------------------------

func (m *msgRun) cuts(o op) []message.BackupChannelCut {
	r := sub(o.Seed)
	var cuts []message.BackupChannelCut
	for c := 0; c < 3; c++ {
		ch := m.ch[c]
		if !ch.written && o.B%4 != 3 {
			continue
		}
		if o.A&(1<<c) != 0 && o.A != 7 { // a subset of the channels
			continue
		}
		ep := ch.ckptEpoch
		if ep == 0 {
			ep = 1
		}
		cut := message.BackupChannelCut{Key: message.ChannelKey(chanKeys[c]), ID: message.ChannelID{ID: chanIDs[c], Type: chanTypes[c]},
			Checkpoint: message.Checkpoint{Epoch: ep, LogStartOffset: ch.logStart, HW: ch.hw}}
		switch o.D % 12 {
		case 1:
			cut.Checkpoint.HW = ch.leo
		case 2:
			cut.Checkpoint.HW = ch.leo + 1 // above the log end
		case 3:
			if ch.leo > 0 {
				cut.Checkpoint.HW = uint64(r.IntN(int(ch.leo) + 1)) // possibly inside a proposal
			}
		case 4:
			cut.ID.ID = "other"
		case 5:
			cut.Checkpoint.LogStartOffset = cut.Checkpoint.HW + 1
		case 6:
			cut.Checkpoint.HW = 0
			cut.Checkpoint.LogStartOffset = 0
		}
		if cut.Checkpoint.LogStartOffset > cut.Checkpoint.HW && o.D%12 != 5 {
			cut.Checkpoint.LogStartOffset = cut.Checkpoint.HW
		}
		cuts = append(cuts, cut)
	}
	switch o.D % 12 {
	case 7:
		if len(cuts) > 0 {
			cuts = append(cuts, cuts[0]) // duplicate channel
		}
	case 8:
		if len(cuts) > 0 {
			cuts[0].Key = ""
		}
	case 9: // reversed request order: the export sorts
		for i, j := 0, len(cuts)-1; i < j; i, j = i+1, j-1 {
			cuts[i], cuts[j] = cuts[j], cuts[i]
		}
	}
	return cuts
}

// round: export, import into a fresh store (both importers), re-export from the restored store.
func (m *msgRun) round(o op) []byte {
	cuts := m.cuts(o)
	hs := uint16(o.C)
	srcDump := dumpDB(m.src, chanKeys, []message.ChannelID{chanIDOf("a"), chanIDOf("ab"), chanIDOf("b")})
	stream, class := exportStream(m.src, hs, cuts)
	cutTerms := vh.ListOf(cuts, pCut)
	if class != 0 {
		m.terms = append(m.terms, vh.App("MExport", pDumps(srcDump), vh.N(uint64(hs)), cutTerms, validTable(srcDump, cuts), pRes(class, "")))
		m.labels = append(m.labels, fmt.Sprintf("export=E%d", class))
		return nil
	}
	m.terms = append(m.terms, vh.App("MExport", pDumps(srcDump), vh.N(uint64(hs)), cutTerms, validTable(srcDump, cuts), pRes(0, hexs(stream))))
	// fresh target, streaming importer
	tgt := openMsgDB()
	defer tgt.close()
	before := dumpFor(tgt, stream)
	st, iclass := importReader(tgt, stream, -1)
	after := dumpFor(tgt, stream)
	m.terms = append(m.terms, vh.App("MImport", "true", before, hexs(stream), streamOracle(stream), "None", pRes(iclass, pStats(st)), after))
	// re-export from the restored store with the same cuts
	tgtDump := dumpDB(tgt, chanKeys, []message.ChannelID{chanIDOf("a"), chanIDOf("ab"), chanIDOf("b")})
	stream2, class2 := exportStream(tgt, hs, cuts)
	if iclass == 0 {
		m.terms = append(m.terms, vh.App("MExport", pDumps(tgtDump), vh.N(uint64(hs)), cutTerms, validTable(tgtDump, cuts), pRes(class2, hexs(stream2))))
	}
	var leos []string
	for _, cut := range cuts {
		for c := 0; c < 3; c++ {
			if chanKeys[c] != string(cut.Key) {
				continue
			}
			retained := uint64(0)
			for _, d := range srcDump {
				if d.Key == chanKeys[c] && d.RetPresent && d.RetErr == 0 {
					retained = d.RetainedMax
				}
			}
			leos = append(leos, "("+vh.N(cut.Checkpoint.HW)+", "+vh.N(leoOf(tgt, c))+", "+vh.N(retained)+")")
		}
	}
	m.terms = append(m.terms, vh.App("MReexport", hexs(stream), vh.B(iclass == 0), pRes(class2, hexs(stream2)), vh.List(leos)))
	// the in-memory importer on another fresh target must end in the same store
	tgt2 := openMsgDB()
	defer tgt2.close()
	_, dclass := importData(tgt2, stream)
	m.terms = append(m.terms, vh.App("MImportData", hexs(stream), vh.B(iclass == 0), vh.N(dclass), vh.B(sameKV(tgt, tgt2))))
	eq := "ne"
	if bytes.Equal(stream, stream2) {
		eq = "eq"
	}
	leoNote := ""
	for _, cut := range cuts {
		for c := 0; c < 3; c++ {
			if chanKeys[c] == string(cut.Key) && iclass == 0 && leoOf(tgt, c) != cut.Checkpoint.HW {
				leoNote = fmt.Sprintf(",leo%d!=hw%d", leoOf(tgt, c), cut.Checkpoint.HW)
			}
		}
	}
	m.labels = append(m.labels, fmt.Sprintf("round(chans=%d,bytes<%d00)=I%d/R%d%s%s", len(cuts), len(stream)/100+1, iclass, class2, eq, leoNote))
	return stream
}

// crash: interrupt the streaming importer after k context checks, dump, import again.
func (m *msgRun) crash(stream []byte, o op) {
	if stream == nil {
		return
	}
	clean := openMsgDB()
	defer clean.close()
	if _, c := importReader(clean, stream, -1); c != 0 {
		return
	}
	tgt := openMsgDB()
	defer tgt.close()
	k := o.A
	before := dumpFor(tgt, stream)
	st, c1 := importReader(tgt, stream, k)
	mid := dumpFor(tgt, stream)
	m.terms = append(m.terms, vh.App("MImport", "true", before, hexs(stream), streamOracle(stream), vh.Some(vh.N(uint64(k))), pRes(c1, pStats(st)), mid))
	st2, c2 := importReader(tgt, stream, -1)
	after := dumpFor(tgt, stream)
	m.terms = append(m.terms, vh.App("MImport", "true", mid, hexs(stream), streamOracle(stream), "None", pRes(c2, pStats(st2)), after))
	m.terms = append(m.terms, vh.App("MRetry", vh.N(c1), vh.N(c2), vh.B(sameKV(tgt, clean))))
	m.labels = append(m.labels, fmt.Sprintf("crash@%d=E%d->E%d", k, c1, c2))
}

// sweep: every single-byte corruption / every truncation of the stream (all positions when
// it is short, a stride otherwise) into one fresh store that must stay empty.
func (m *msgRun) sweep(stream []byte, o op) {
	if stream == nil {
		return
	}
	tgt := openMsgDB()
	defer func() { tgt.close() }()
	base, _ := tgt.db().VerifC11CountKeys()
	limit := 700
	if o.B > 0 {
		limit = o.B
	}
	step := 1
	if len(stream) > limit {
		step = len(stream)/limit + 1
	}
	r := sub(o.Seed)
	var bad []string
	tried := 0
	check := func(pos int, variant []byte, reader bool) {
		tried++
		var c uint64
		if reader {
			_, c = importReader(tgt, variant, -1)
		} else {
			_, c = importData(tgt, variant)
		}
		n, _ := tgt.db().VerifC11CountKeys()
		n -= base
		if c == 0 || n != 0 {
			bad = append(bad, "("+vh.N(uint64(pos))+", "+vh.N(c)+", "+vh.N(uint64(n))+")")
			tgt.close()
			tgt = openMsgDB()
		}
	}
	for pos := r.IntN(step); pos < len(stream); pos += step {
		if o.A%2 == 0 {
			v := append([]byte(nil), stream...)
			v[pos] ^= byte(1 << r.UintN(8))
			check(pos, v, o.A%4 < 2)
		} else {
			check(pos, stream[:pos], o.A%4 < 2)
		}
	}
	kind := "flip"
	if o.A%2 == 1 {
		kind = "trunc"
	}
	m.terms = append(m.terms, vh.App("MSweep", vh.N(uint64(o.A%2)), vh.N(uint64(tried)), vh.List(bad)))
	m.labels = append(m.labels, fmt.Sprintf("sweep-%s(%d)=bad%d", kind, tried, len(bad)))
}

// reseal: change the framing or one section of the stream, recompute the checksum, and
// import it (both importers) into fresh stores.
func (m *msgRun) reseal(stream []byte, o op) {
	if stream == nil {
		return
	}
	r := sub(o.Seed)
	s, ok := parseMsgStream(stream)
	if !ok {
		return
	}
	label := ""
	var variant []byte
	pick := func() *rawChan {
		if len(s.Chans) == 0 {
			return nil
		}
		return &s.Chans[r.IntN(len(s.Chans))]
	}
	switch o.A % 14 {
	case 0: // a byte of the payload, anywhere
		p := append([]byte(nil), stream[:len(stream)-4]...)
		p[r.IntN(len(p))] ^= byte(1 << r.UintN(8))
		variant, label = reseal(p), "byte"
	case 1: // declared message count off by one
		if ch := pick(); ch != nil {
			ch.Count += uint64(1 + r.IntN(2))
		}
		label = "count+"
	case 2:
		if ch := pick(); ch != nil && len(ch.Rows) > 0 {
			ch.Rows = ch.Rows[:len(ch.Rows)-1]
			ch.Count--
		}
		label = "drop-last-row"
	case 3: // rows out of order
		if ch := pick(); ch != nil && len(ch.Rows) > 1 {
			ch.Rows[0], ch.Rows[1] = ch.Rows[1], ch.Rows[0]
		}
		label = "row-order"
	case 4: // a row above the cut
		if ch := pick(); ch != nil && len(ch.Rows) > 0 && len(ch.Ckpt) == 24 {
			hw := binary.BigEndian.Uint64(ch.Ckpt[16:24])
			ch.Rows[len(ch.Rows)-1].Seq = hw + 1
		}
		label = "row-above-hw"
	case 5: // the header of one row moved under another sequence (its key-bound checksum fails)
		if ch := pick(); ch != nil && len(ch.Rows) > 1 {
			ch.Rows[0].Header, ch.Rows[1].Header = ch.Rows[1].Header, ch.Rows[0].Header
		}
		label = "header-swap"
	case 6: // channels out of order / duplicated
		if len(s.Chans) > 1 {
			s.Chans[0], s.Chans[1] = s.Chans[1], s.Chans[0]
		} else if len(s.Chans) == 1 {
			s.Chans = append(s.Chans, s.Chans[0])
		}
		label = "chan-order"
	case 7: // a system entry of another channel / the checkpoint row itself
		if ch := pick(); ch != nil {
			other := "zz"
			k := message.VerifC11SystemAllPrefix(message.ChannelKey(other))
			if r.IntN(2) == 0 {
				k = message.VerifC11CheckpointKey(message.ChannelKey(ch.Key))
			}
			ch.Sys = append(ch.Sys, rawEntry{append(k, 1), []byte{1}})
		}
		label = "foreign-sys-key"
	case 8: // drop one system entry (breaks pairing / the identity chain)
		if ch := pick(); ch != nil && len(ch.Sys) > 0 {
			i := r.IntN(len(ch.Sys))
			ch.Sys = append(ch.Sys[:i:i], ch.Sys[i+1:]...)
		}
		label = "drop-sys"
	case 9: // another channel identity in the header (rows carry the real one)
		if ch := pick(); ch != nil {
			ch.ID = "other"
		}
		label = "chan-id"
	case 10: // hw lowered under the rows
		if ch := pick(); ch != nil && len(ch.Ckpt) == 24 {
			ck := append([]byte(nil), ch.Ckpt...)
			hw := binary.BigEndian.Uint64(ck[16:24])
			if hw > 0 {
				binary.BigEndian.PutUint64(ck[16:24], hw-1)
				if binary.BigEndian.Uint64(ck[8:16]) > hw-1 {
					binary.BigEndian.PutUint64(ck[8:16], hw-1)
				}
			}
			ch.Ckpt = ck
		}
		label = "hw-1"
	case 11: // trailing byte before the trailer
		variant, label = reseal(append(append([]byte(nil), stream[:len(stream)-4]...), byte(r.UintN(256)))), "trailing-byte"
	case 12: // header fields
		p := append([]byte(nil), stream[:len(stream)-4]...)
		switch r.IntN(3) {
		case 0:
			p[r.IntN(4)] ^= 0x20
		case 1:
			p[5] ^= 3
		default:
			binary.BigEndian.PutUint32(p[8:12], binary.BigEndian.Uint32(p[8:12])+1)
		}
		variant, label = reseal(p), "header"
	case 13: // a non-canonical uvarint for the first key length: same sections, other bytes
		p := stream[:len(stream)-4]
		if len(p) > 13 && p[12] < 0x80 {
			q := append([]byte(nil), p[:12]...)
			q = append(q, p[12]|0x80, 0)
			q = append(q, p[13:]...)
			variant, label = reseal(q), "long-uvarint"
		}
	}
	if variant == nil {
		variant = encodeMsgStream(message.VerifC11Magic, message.VerifC11Version, s)
	}
	if label == "" {
		label = "none"
	}
	tgt := openMsgDB()
	defer tgt.close()
	base, _ := tgt.db().VerifC11CountKeys()
	before := dumpFor(tgt, variant)
	st, c1 := importReader(tgt, variant, -1)
	after := dumpFor(tgt, variant)
	n1, _ := tgt.db().VerifC11CountKeys()
	n1 -= base
	m.terms = append(m.terms, vh.App("MImport", "true", before, hexs(variant), streamOracle(variant), "None", pRes(c1, pStats(st)), after))
	tgt2 := openMsgDB()
	defer tgt2.close()
	_, c2 := importData(tgt2, variant)
	n2, _ := tgt2.db().VerifC11CountKeys()
	n2 -= base
	m.terms = append(m.terms, vh.App("MResealData", vh.N(c1), vh.N(uint64(n1)), vh.N(c2), vh.N(uint64(n2)), vh.B(sameKV(tgt, tgt2))))
	m.labels = append(m.labels, fmt.Sprintf("reseal-%s=R%d/D%d", label, c1, c2))
}

// conflict: import into a store that already holds the channel under another checkpoint or identity.
func (m *msgRun) conflict(stream []byte, o op) {
	if stream == nil {
		return
	}
	s, ok := parseMsgStream(stream)
	if !ok || len(s.Chans) == 0 {
		return
	}
	r := sub(o.Seed)
	tgt := openMsgDB()
	defer tgt.close()
	ch := s.Chans[r.IntN(len(s.Chans))]
	key := message.ChannelKey(ch.Key)
	switch o.A % 3 {
	case 0: // same channel installed under another checkpoint
		ck := append([]byte(nil), ch.Ckpt...)
		ck[7] ^= 1
		_ = tgt.db().VerifC11RawSet(message.VerifC11CheckpointKey(key), ck)
	case 1: // the catalog names another identity
		other := openMsgDB()
		st, err := other.eng.ForChannel(channel.ChannelKey(ch.Key), channel.ChannelID{ID: "zz", Type: 9})
		if err == nil {
			_ = st.StoreCheckpoint(channel.Checkpoint{Epoch: 1})
			st.Close()
			kv, _ := other.db().VerifC11AllKV()
			for _, e := range kv {
				if bytes.Equal(e[0], message.VerifC11CatalogKey(key)) {
					_ = tgt.db().VerifC11RawSet(e[0], e[1])
				}
			}
		}
		other.close()
	default: // an exact replay
		importReader(tgt, stream, -1)
	}
	before := dumpFor(tgt, stream)
	st, c := importReader(tgt, stream, -1)
	after := dumpFor(tgt, stream)
	m.terms = append(m.terms, vh.App("MImport", "false", before, hexs(stream), streamOracle(stream), "None", pRes(c, pStats(st)), after))
	m.labels = append(m.labels, fmt.Sprintf("conflict%d=E%d", o.A%3, c))
}

func runMsg(in input) vh.Result {
	m := &msgRun{src: openMsgDB(), nextID: 1000}
	defer func() {
		for _, s := range m.stores {
			if s != nil {
				s.Close()
			}
		}
		m.src.close()
	}()
	var last []byte
	for _, o := range in.Ops {
		switch o.Op {
		case "round":
			if s := m.round(o); s != nil {
				last = s
			}
		case "crash":
			m.crash(last, o)
		case "sweep":
			m.sweep(last, o)
		case "reseal":
			m.reseal(last, o)
		case "conflict":
			m.conflict(last, o)
		default:
			m.history(o)
		}
	}
	class := "msg/" + strings.Join(m.labels, ",")
	if len(class) > 110 {
		class = class[:110]
	}
	return vh.Result{
		Coq:     vh.App("CaseMsg", vh.List(m.terms)),
		Obs:     map[string]any{"labels": m.labels},
		Class:   class,
		Trivial: len(m.terms) == 0,
	}
}

func genMsg(r *rand.Rand, tier string) input {
	in := input{Kind: "msg"}
	add := func(o op) { in.Ops = append(in.Ops, o) }
	seed := func() uint64 { return r.Uint64() >> 1 }
	n := 3 + r.IntN(10)
	for i := 0; i < n; i++ {
		k := vh.Pick(r, "exact", "exact", "exact", "exact", "plain", "ckpt", "ckpt", "hist", "trim", "trunc", "cursor", "rawsys")
		if k == "rawsys" && r.IntN(3) != 0 {
			k = "exact"
		}
		add(op{Op: k, C: r.IntN(3), A: r.IntN(16), B: r.IntN(3), Seed: seed()})
	}
	for c := 0; c < 3; c++ {
		if r.IntN(3) != 0 {
			add(op{Op: "ckpt", C: c, A: vh.Pick(r, 0, 0, 1, 2, 3), Seed: seed()})
		}
	}
	add(op{Op: "round", C: r.IntN(1024), A: vh.Pick(r, 7, 7, 7, r.IntN(8)), B: r.IntN(4), D: vh.Pick(r, 0, 0, 0, 0, 0, 1, 3, r.IntN(12)), Seed: seed()})
	rounds := 2 + r.IntN(3)
	if tier == "thorough" {
		rounds += 2
	}
	for i := 0; i < rounds; i++ {
		switch r.IntN(8) {
		case 0:
			add(op{Op: "crash", A: r.IntN(14), Seed: seed()})
		case 1:
			add(op{Op: "sweep", A: r.IntN(4), B: vh.Pick(r, 0, 0, 120), Seed: seed()})
		case 2, 3, 4:
			add(op{Op: "reseal", A: r.IntN(14), Seed: seed()})
		case 5:
			add(op{Op: "conflict", A: r.IntN(3), Seed: seed()})
		case 6:
			add(op{Op: vh.Pick(r, "exact", "ckpt", "trim"), C: r.IntN(3), A: r.IntN(16), Seed: seed()})
		default:
			add(op{Op: "round", C: r.IntN(1024), A: 7, B: r.IntN(4), D: vh.Pick(r, 0, 0, 1, r.IntN(12)), Seed: seed()})
		}
	}
	return in
}
