package main

// Metadata scenarios: populate hash slots through the typed API (users, devices, channels,
// subscribers, runtime meta, hash-slot migration state, raw rows of an unknown table), then
// export / import / re-export with the streaming importer in its three flavours, crash and
// retry, corruption sweeps, re-sealed structural corruption, foreign hash slots.

import (
	"bytes"
	"context"
	"encoding/binary"
	"fmt"
	"io"
	"math/rand/v2"
	"strings"

	"github.com/WuKongIM/WuKongIM/internal/verifh/vh"
	metadb "github.com/WuKongIM/WuKongIM/pkg/db/meta"
)

type metaDB struct{ db *metadb.DB }

func openMetaDB() *metaDB {
	db, err := metadb.VerifC11OpenMem()
	if err != nil {
		panic(fmt.Sprintf("meta.VerifC11OpenMem: %v", err))
	}
	return &metaDB{db}
}

func (d *metaDB) close() {
	if d.db != nil {
		_ = d.db.Close()
		d.db = nil
	}
}

func (d *metaDB) kv() [][2][]byte {
	out, err := d.db.MetaDB().VerifC11AllKV()
	if err != nil {
		panic(err)
	}
	return out
}

func pKV(kv [][2][]byte) string {
	items := make([]string, len(kv))
	for i, e := range kv {
		items[i] = "(" + hexs(e[0]) + ", " + hexs(e[1]) + ")"
	}
	return vh.List(items)
}

func sameMetaKV(a, b [][2][]byte) bool {
	if len(a) != len(b) {
		return false
	}
	for i := range a {
		if !bytes.Equal(a[i][0], b[i][0]) || !bytes.Equal(a[i][1], b[i][1]) {
			return false
		}
	}
	return true
}

var slotPool = []uint16{3, 7, 300}

type metaRun struct {
	src    *metaDB
	terms  []string
	labels []string
}

func (m *metaRun) populate(o op) {
	r := sub(o.Seed)
	hs := slotPool[((o.C%3)+3)%3]
	sh := m.src.db.MetaDB().HashSlot(metadb.HashSlot(hs))
	uid := fmt.Sprintf("u%d", r.IntN(5))
	cid := fmt.Sprintf("g%d", r.IntN(4))
	switch o.Op {
	case "user":
		_ = sh.UpsertUser(bg, metadb.User{UID: uid, Token: vh.Pick(r, "tok", "", "t2"), DeviceFlag: int64(r.IntN(3)), DeviceLevel: int64(r.IntN(2))})
	case "device":
		_ = sh.UpsertDevice(bg, metadb.Device{UID: uid, DeviceFlag: int64(r.IntN(3)), Token: vh.Pick(r, "dt", "x"), DeviceLevel: 1})
	case "channel":
		_ = sh.UpsertChannel(bg, metadb.Channel{ChannelID: cid, ChannelType: int64(1 + r.IntN(2)), Ban: int64(r.IntN(2)), Large: int64(r.IntN(2))})
	case "subs":
		_ = sh.AddSubscribers(bg, cid, 2, []string{uid, fmt.Sprintf("u%d", r.IntN(5))}, uint64(1+r.IntN(9)))
	case "runtime":
		_, _ = sh.UpsertChannelRuntimeMeta(bg, metadb.ChannelRuntimeMeta{ChannelID: cid, ChannelType: 2, ChannelEpoch: 1, LeaderEpoch: 1,
			RouteGeneration: uint64(1 + r.IntN(4)), Replicas: []uint64{1, 2, 3}, ISR: []uint64{1, 2}, Leader: 1, MinISR: 2, Status: 1})
	case "migration":
		_ = sh.UpsertHashSlotMigrationState(bg, metadb.HashSlotMigrationState{HashSlot: metadb.HashSlot(hs), SourceSlot: 1, TargetSlot: 2, Phase: uint8(1 + r.IntN(3)), FenceIndex: uint64(r.IntN(50))})
	case "rawrow": // a row / index / system key of a table the registry does not know, or a malformed user value
		prefix := []byte{metadb.VerifC11DomainMeta, metadb.VerifC11PartitionHashSlot, byte(hs >> 8), byte(hs)}
		switch o.A % 4 {
		case 0:
			k := append(append([]byte(nil), prefix...), metadb.VerifC11SpaceRow, 0, 0, 0xfd, 0xe8, byte(r.IntN(4)))
			_ = m.src.db.MetaDB().VerifC11RawSet(k, vh.Bytes(r, 1+r.IntN(4)))
		case 1:
			k := append(append([]byte(nil), prefix...), metadb.VerifC11SpaceSystem, 0, 0, 0, 0, 0, byte(1+r.IntN(3)))
			_ = m.src.db.MetaDB().VerifC11RawSet(k, vh.Bytes(r, 1+r.IntN(4)))
		case 2:
			k := append(append([]byte(nil), prefix...), metadb.VerifC11SpaceIndex, 0, 0, 0xfd, 0xe8, 0, 1, byte(r.IntN(4)))
			_ = m.src.db.MetaDB().VerifC11RawSet(k, nil)
		default: // a user row whose value does not start with a length-prefixed token
			k := append(append([]byte(nil), prefix...), metadb.VerifC11SpaceRow, 0, 0, 0, byte(metadb.VerifC11TableUser), 0, 2, 'z', byte('0'+r.IntN(3)), 0, 0)
			_ = m.src.db.MetaDB().VerifC11RawSet(k, []byte{0xff})
		}
	}
}

func readAllMeta(rd io.ReadCloser, err error) ([]byte, uint64) {
	if err != nil {
		return nil, metadb.VerifC11ErrClass(err)
	}
	var buf bytes.Buffer
	_, err = buf.ReadFrom(rd)
	_ = rd.Close()
	if err != nil {
		return nil, metadb.VerifC11ErrClass(err)
	}
	return buf.Bytes(), 0
}

func exportMeta(d *metaDB, slots []uint16, backupOnly bool) ([]byte, uint64) {
	if backupOnly {
		return readAllMeta(d.db.MetaDB().OpenBackupHashSlotSnapshot(bg, slots))
	}
	return readAllMeta(d.db.MetaDB().OpenHashSlotSnapshot(bg, slots))
}

// mode: 0 ImportHashSlotSnapshotReader, 1 …PreservingMigrationMeta, 2 …ForRestoreWithStats(invalidate=false), 3 …(invalidate=true)
func importMeta(d *metaDB, slots []uint16, stream []byte, mode int, budget int) (uint64, uint64) {
	var ctx context.Context = &budgetCtx{Context: bg, left: budget, pollErr: true}
	rd := bytes.NewReader(stream)
	var err error
	var count uint64
	switch mode {
	case 0:
		err = d.db.MetaDB().ImportHashSlotSnapshotReader(ctx, slots, rd, int64(len(stream)))
	case 1:
		err = d.db.MetaDB().ImportHashSlotSnapshotReaderPreservingMigrationMeta(ctx, slots, rd, int64(len(stream)))
	default:
		var st metadb.BackupSnapshotStats
		st, err = d.db.MetaDB().ImportHashSlotSnapshotReaderForRestoreWithStats(ctx, slots, rd, int64(len(stream)), mode == 3)
		count = st.EntryCount
	}
	return count, metadb.VerifC11ErrClass(err)
}

func slotsOf(o op) []uint16 {
	var out []uint16
	for i, hs := range slotPool {
		if o.A&(1<<i) != 0 {
			out = append(out, hs)
		}
	}
	if len(out) == 0 {
		out = []uint16{slotPool[0]}
	}
	switch o.D % 8 {
	case 1: // unsorted with a duplicate: the code normalises
		out = append([]uint16{out[len(out)-1]}, out...)
	}
	return out
}

func pSlots(s []uint16) string {
	u := make([]uint64, len(s))
	for i, x := range s {
		u[i] = uint64(x)
	}
	return vh.NList(u)
}

// preTarget fills a target store so that the import has something to replace / preserve.
func preTarget(t *metaDB, r *rand.Rand, how int) {
	switch how % 4 {
	case 1: // other data in the same slots, and in a slot outside the request
		for _, hs := range []uint16{3, 7, 9} {
			sh := t.db.MetaDB().HashSlot(metadb.HashSlot(hs))
			_ = sh.UpsertUser(bg, metadb.User{UID: "old", Token: "keep"})
			_ = sh.UpsertChannel(bg, metadb.Channel{ChannelID: "oldc", ChannelType: 1})
		}
	case 2: // local migration rows (kept by the preserving flavours)
		for _, hs := range []uint16{3, 300} {
			sh := t.db.MetaDB().HashSlot(metadb.HashSlot(hs))
			_ = sh.UpsertHashSlotMigrationState(bg, metadb.HashSlotMigrationState{HashSlot: metadb.HashSlot(hs), SourceSlot: 9, TargetSlot: 8, Phase: 1})
		}
	}
}

func (m *metaRun) round(o op) ([]byte, []uint16) {
	r := sub(o.Seed)
	slots := slotsOf(o)
	backupOnly := o.B%2 == 1
	mode := o.C % 4
	src := m.src.kv()
	stream, class := exportMeta(m.src, slots, backupOnly)
	m.terms = append(m.terms, vh.App("XExport", pKV(src), pSlots(slots), vh.B(backupOnly), pRes(class, hexs(stream))))
	if class != 0 {
		m.labels = append(m.labels, fmt.Sprintf("mexport=E%d", class))
		return nil, nil
	}
	tgt := openMetaDB()
	defer tgt.close()
	preTarget(tgt, r, o.D/8)
	before := tgt.kv()
	cnt, ic := importMeta(tgt, slots, stream, mode, -1)
	after := tgt.kv()
	m.terms = append(m.terms, vh.App("XImport", vh.N(uint64(mode)), pKV(before), pSlots(slots), hexs(stream), "None", pRes(ic, vh.N(cnt)), pKV(after)))
	// re-export from the restored store
	stream2, c2 := exportMeta(tgt, slots, backupOnly)
	m.terms = append(m.terms, vh.App("XExport", pKV(after), pSlots(slots), vh.B(backupOnly), pRes(c2, hexs(stream2))))
	fresh := len(before) == 0
	m.terms = append(m.terms, vh.App("XReexport", hexs(stream), vh.B(ic == 0), vh.B(fresh), vh.N(uint64(mode)), pRes(c2, hexs(stream2))))
	eq := "ne"
	if bytes.Equal(stream, stream2) {
		eq = "eq"
	}
	m.labels = append(m.labels, fmt.Sprintf("mround(slots=%d,backup=%v,mode=%d,pre=%d,entries<%d0)=I%d/R%d%s", len(slots), backupOnly, mode, (o.D/8)%4, len(src)/10+1, ic, c2, eq))
	return stream, slots
}

func (m *metaRun) crash(stream []byte, slots []uint16, o op) {
	if stream == nil {
		return
	}
	r := sub(o.Seed)
	mode := o.C % 4
	clean := openMetaDB()
	defer clean.close()
	preTarget(clean, r, o.D)
	if _, c := importMeta(clean, slots, stream, mode, -1); c != 0 {
		return
	}
	tgt := openMetaDB()
	defer tgt.close()
	preTarget(tgt, sub(o.Seed), o.D)
	before := tgt.kv()
	cnt, c1 := importMeta(tgt, slots, stream, mode, o.A)
	mid := tgt.kv()
	m.terms = append(m.terms, vh.App("XImport", vh.N(uint64(mode)), pKV(before), pSlots(slots), hexs(stream), vh.Some(vh.N(uint64(o.A))), pRes(c1, vh.N(cnt)), pKV(mid)))
	cnt2, c2 := importMeta(tgt, slots, stream, mode, -1)
	after := tgt.kv()
	m.terms = append(m.terms, vh.App("XImport", vh.N(uint64(mode)), pKV(mid), pSlots(slots), hexs(stream), "None", pRes(c2, vh.N(cnt2)), pKV(after)))
	m.terms = append(m.terms, vh.App("XRetry", vh.N(c1), vh.N(c2), vh.B(sameMetaKV(after, clean.kv()))))
	m.labels = append(m.labels, fmt.Sprintf("mcrash@%d=E%d->E%d", o.A, c1, c2))
}

func (m *metaRun) sweep(stream []byte, slots []uint16, o op) {
	if stream == nil {
		return
	}
	tgt := openMetaDB()
	defer func() { tgt.close() }()
	limit := 700
	if o.B > 0 {
		limit = o.B
	}
	step := 1
	if len(stream) > limit {
		step = len(stream)/limit + 1
	}
	r := sub(o.Seed)
	var bad []string
	tried := 0
	for pos := r.IntN(step); pos < len(stream); pos += step {
		var v []byte
		if o.A%2 == 0 {
			v = append([]byte(nil), stream...)
			v[pos] ^= byte(1 << r.UintN(8))
		} else {
			v = stream[:pos]
		}
		tried++
		_, c := importMeta(tgt, slots, v, o.C%4, -1)
		n := len(tgt.kv())
		if c == 0 || n != 0 {
			bad = append(bad, "("+vh.N(uint64(pos))+", "+vh.N(c)+", "+vh.N(uint64(n))+")")
			tgt.close()
			tgt = openMetaDB()
		}
	}
	m.terms = append(m.terms, vh.App("XSweep", vh.N(uint64(o.A%2)), vh.N(uint64(tried)), vh.List(bad)))
	m.labels = append(m.labels, fmt.Sprintf("msweep%d(%d)=bad%d", o.A%2, tried, len(bad)))
}

func (m *metaRun) reseal(stream []byte, slots []uint16, o op) {
	if stream == nil {
		return
	}
	r := sub(o.Seed)
	s, ok := parseMetaStream(stream)
	if !ok {
		return
	}
	label := ""
	var variant []byte
	reqSlots := slots
	switch o.A % 12 {
	case 0:
		p := append([]byte(nil), stream[:len(stream)-4]...)
		p[r.IntN(len(p))] ^= byte(1 << r.UintN(8))
		variant, label = reseal(p), "byte"
	case 1:
		s.Count += uint64(1 + r.IntN(2))
		label = "count+"
	case 2:
		if len(s.Entries) > 0 {
			s.Entries = s.Entries[:len(s.Entries)-1]
		}
		label = "count-mismatch"
	case 3: // an entry of a hash slot outside the stream's list
		k := []byte{metadb.VerifC11DomainMeta, metadb.VerifC11PartitionHashSlot, 0, 9, metadb.VerifC11SpaceRow, 0, 0, 0, 1, 0, 1, 'q', 0, 0}
		s.Entries = append(s.Entries, rawEntry{k, []byte{0, 0}})
		s.Count++
		label = "foreign-slot-key"
	case 4: // a key that is in no data span at all
		s.Entries = append(s.Entries, rawEntry{[]byte{metadb.VerifC11DomainMeta, 0, 1}, []byte{1}})
		s.Count++
		label = "non-span-key"
	case 5: // the slot list of the stream differs from the request
		s.Slots = append(s.Slots, 9)
		label = "stream-slots+"
	case 6: // the request differs from the stream
		reqSlots = append(append([]uint16(nil), slots...), 9)
		variant, label = stream, "request-slots+"
	case 7: // entries out of key order / a duplicate key: order is not part of the format
		if len(s.Entries) > 1 {
			s.Entries[0], s.Entries[len(s.Entries)-1] = s.Entries[len(s.Entries)-1], s.Entries[0]
		} else if len(s.Entries) == 1 {
			s.Entries = append(s.Entries, rawEntry{s.Entries[0].Key, []byte{9}})
			s.Count++
		}
		label = "entry-order"
	case 8:
		variant, label = reseal(append(append([]byte(nil), stream[:len(stream)-4]...), byte(r.UintN(256)))), "trailing-byte"
	case 9: // lengths that wrap around in 64 bits
		p := append([]byte(nil), stream[:len(stream)-4]...)
		hdr := 4 + 2 + 2 + 2*len(s.Slots)
		q := append([]byte(nil), p[:hdr]...)
		q = binary.BigEndian.AppendUint64(q, s.Count+1)
		q = binary.AppendUvarint(q, ^uint64(0))
		q = binary.AppendUvarint(q, 2)
		q = append(q, 0xaa)
		q = append(q, p[hdr+8:]...)
		variant, label = reseal(q), "wrapping-lengths"
		// the same payload through the in-memory importer (it used to panic: fixed as 7a5f0648f)
		func() {
			e := openMetaDB()
			defer e.close()
			n, _ := metadb.VerifC11Normalize(slots)
			err := e.db.MetaDB().ImportHashSlotSnapshot(bg, metadb.SlotSnapshot{HashSlots: n, Data: variant})
			m.terms = append(m.terms, vh.App("XDataReject", vh.N(metadb.VerifC11ErrClass(err)), vh.N(uint64(len(e.kv())))))
		}()
	case 10: // a user row whose value has no token prefix
		hs := s.Slots[0]
		k := []byte{metadb.VerifC11DomainMeta, metadb.VerifC11PartitionHashSlot, byte(hs >> 8), byte(hs), metadb.VerifC11SpaceRow, 0, 0, 0, byte(metadb.VerifC11TableUser), 0, 2, 'z', 'z', 0, 0}
		s.Entries = append(s.Entries, rawEntry{k, []byte{0xff}})
		s.Count++
		label = "bad-user-value"
	case 11:
		p := append([]byte(nil), stream[:len(stream)-4]...)
		p[r.IntN(8)] ^= 1
		variant, label = reseal(p), "header"
	}
	if variant == nil {
		variant = encodeMetaStream(metadb.VerifC11Magic, metadb.VerifC11Version, s)
	}
	mode := o.C % 4
	tgt := openMetaDB()
	defer tgt.close()
	preTarget(tgt, r, o.D)
	before := tgt.kv()
	cnt, c := importMeta(tgt, reqSlots, variant, mode, -1)
	after := tgt.kv()
	m.terms = append(m.terms, vh.App("XImport", vh.N(uint64(mode)), pKV(before), pSlots(reqSlots), hexs(variant), "None", pRes(c, vh.N(cnt)), pKV(after)))
	m.labels = append(m.labels, fmt.Sprintf("mreseal-%s(mode=%d)=E%d", label, mode, c))
}

// dataImport: the in-memory ImportHashSlotSnapshot of the same payload must end in the same store.
func (m *metaRun) dataImport(stream []byte, slots []uint16, o op) {
	if stream == nil {
		return
	}
	a, b := openMetaDB(), openMetaDB()
	defer a.close()
	defer b.close()
	r := sub(o.Seed)
	preTarget(a, r, o.D)
	preTarget(b, sub(o.Seed), o.D)
	_, c1 := importMeta(a, slots, stream, 0, -1)
	n, _ := metadb.VerifC11Normalize(slots)
	err := b.db.MetaDB().ImportHashSlotSnapshot(bg, metadb.SlotSnapshot{HashSlots: n, Data: stream})
	c2 := metadb.VerifC11ErrClass(err)
	m.terms = append(m.terms, vh.App("XData", vh.N(c1), vh.N(c2), vh.B(sameMetaKV(a.kv(), b.kv()))))
	m.labels = append(m.labels, fmt.Sprintf("mdata=E%d/E%d", c1, c2))
}

func runMeta(in input) vh.Result {
	m := &metaRun{src: openMetaDB()}
	defer m.src.close()
	var last []byte
	var lastSlots []uint16
	for _, o := range in.Ops {
		switch o.Op {
		case "mround":
			if s, sl := m.round(o); s != nil {
				last, lastSlots = s, sl
			}
		case "mcrash":
			m.crash(last, lastSlots, o)
		case "msweep":
			m.sweep(last, lastSlots, o)
		case "mreseal":
			m.reseal(last, lastSlots, o)
		case "mdata":
			m.dataImport(last, lastSlots, o)
		default:
			m.populate(o)
		}
	}
	class := "meta/" + strings.Join(m.labels, ",")
	if len(class) > 120 {
		class = class[:120]
	}
	return vh.Result{
		Coq:     vh.App("CaseMeta", vh.List(m.terms)),
		Obs:     map[string]any{"labels": m.labels},
		Class:   class,
		Trivial: len(m.terms) == 0,
	}
}

func genMeta(r *rand.Rand, tier string) input {
	in := input{Kind: "meta"}
	add := func(o op) { in.Ops = append(in.Ops, o) }
	seed := func() uint64 { return r.Uint64() >> 1 }
	n := 2 + r.IntN(12)
	for i := 0; i < n; i++ {
		k := vh.Pick(r, "user", "user", "device", "channel", "channel", "subs", "subs", "runtime", "migration", "rawrow")
		add(op{Op: k, C: r.IntN(3), A: r.IntN(3), Seed: seed()})
	}
	if r.IntN(12) == 0 { // enough rows for more than one import batch
		for i := 0; i < 40; i++ {
			add(op{Op: "subs", C: 0, Seed: seed()})
		}
	}
	add(op{Op: "mround", A: 1 + r.IntN(7), B: r.IntN(2), C: r.IntN(4), D: r.IntN(32), Seed: seed()})
	rounds := 2 + r.IntN(3)
	if tier == "thorough" {
		rounds += 2
	}
	for i := 0; i < rounds; i++ {
		switch r.IntN(8) {
		case 0:
			add(op{Op: "mcrash", A: r.IntN(12), C: r.IntN(4), D: r.IntN(4), Seed: seed()})
		case 1:
			add(op{Op: "msweep", A: r.IntN(2), B: vh.Pick(r, 0, 0, 150), C: r.IntN(4), Seed: seed()})
		case 2, 3, 4:
			add(op{Op: "mreseal", A: r.IntN(12), C: r.IntN(4), D: r.IntN(4), Seed: seed()})
		case 5:
			add(op{Op: "mdata", D: r.IntN(4), Seed: seed()})
		default:
			add(op{Op: "mround", A: 1 + r.IntN(7), B: r.IntN(2), C: r.IntN(4), D: r.IntN(32), Seed: seed()})
		}
	}
	return in
}
