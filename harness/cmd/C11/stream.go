package main

// An independent reader / writer of the two portable stream framings (WKMB message
// snapshots, WKDB hash-slot metadata snapshots): used to enumerate the sections of a
// stream for the oracle tables, to build crafted streams, and to print Coq terms.

import (
	"encoding/binary"
	"hash/crc32"

	"github.com/WuKongIM/WuKongIM/internal/verifh/vh"
)

type rawEntry struct{ Key, Value []byte }

type rawRow struct {
	Seq             uint64
	Header, Payload []byte
}

type rawChan struct {
	Key, ID string
	Type    uint8
	Ckpt    []byte // 24 bytes
	Sys     []rawEntry
	Count   uint64 // declared message count
	Rows    []rawRow
}

type rawMsgSnapshot struct {
	HashSlot uint16
	Chans    []rawChan
}

type cursor struct {
	b   []byte
	bad bool
}

func (c *cursor) take(n uint64) []byte {
	if c.bad || n > uint64(len(c.b)) {
		c.bad = true
		return nil
	}
	out := c.b[:n]
	c.b = c.b[n:]
	return out
}
func (c *cursor) u8() uint8 {
	b := c.take(1)
	if c.bad {
		return 0
	}
	return b[0]
}
func (c *cursor) u16() uint16 {
	b := c.take(2)
	if c.bad {
		return 0
	}
	return binary.BigEndian.Uint16(b)
}
func (c *cursor) u32() uint32 {
	b := c.take(4)
	if c.bad {
		return 0
	}
	return binary.BigEndian.Uint32(b)
}
func (c *cursor) u64() uint64 {
	b := c.take(8)
	if c.bad {
		return 0
	}
	return binary.BigEndian.Uint64(b)
}
func (c *cursor) uvarint() uint64 {
	if c.bad {
		return 0
	}
	v, n := binary.Uvarint(c.b)
	if n <= 0 {
		c.bad = true
		return 0
	}
	c.b = c.b[n:]
	return v
}
func (c *cursor) field() []byte { return c.take(c.uvarint()) }

// parseMsgStream reads the framing of a WKMB stream (no semantic checks, no checksum check);
// ok = the framing is complete and nothing is left before the 4-byte trailer. When it is
// not, the sections (and rows) read before the defect are still returned.
func parseMsgStream(stream []byte) (rawMsgSnapshot, bool) {
	var s rawMsgSnapshot
	if len(stream) < 16 {
		return s, false
	}
	c := &cursor{b: stream[:len(stream)-4]}
	c.take(4)
	c.u16()
	s.HashSlot = c.u16()
	n := c.u32()
	if c.bad {
		return s, false
	}
	for i := uint32(0); i < n && i < 64; i++ {
		var ch rawChan
		ch.Key = string(c.field())
		ch.ID = string(c.field())
		ch.Type = c.u8()
		ch.Ckpt = c.take(24)
		sys := c.uvarint()
		if c.bad || sys > 4096 {
			return s, false
		}
		for j := uint64(0); j < sys; j++ {
			k := c.field()
			v := c.field()
			ch.Sys = append(ch.Sys, rawEntry{k, v})
		}
		ch.Count = c.uvarint()
		if c.bad {
			return s, false
		}
		s.Chans = append(s.Chans, ch)
		cur := &s.Chans[len(s.Chans)-1]
		for j := uint64(0); j < ch.Count && j < 1<<16; j++ {
			seq := c.u64()
			h := c.field()
			p := c.field()
			if c.bad {
				return s, false
			}
			cur.Rows = append(cur.Rows, rawRow{seq, h, p})
		}
		if ch.Count >= 1<<16 {
			return s, false
		}
	}
	return s, !c.bad && len(c.b) == 0 && n < 64
}

func appendField(dst, b []byte) []byte {
	dst = binary.AppendUvarint(dst, uint64(len(b)))
	return append(dst, b...)
}

// encodeMsgStream writes a WKMB stream with a correct trailer.
func encodeMsgStream(magic [4]byte, version uint16, s rawMsgSnapshot) []byte {
	out := append([]byte(nil), magic[:]...)
	out = binary.BigEndian.AppendUint16(out, version)
	out = binary.BigEndian.AppendUint16(out, s.HashSlot)
	out = binary.BigEndian.AppendUint32(out, uint32(len(s.Chans)))
	for _, ch := range s.Chans {
		out = appendField(out, []byte(ch.Key))
		out = appendField(out, []byte(ch.ID))
		out = append(out, ch.Type)
		out = append(out, ch.Ckpt...)
		out = binary.AppendUvarint(out, uint64(len(ch.Sys)))
		for _, e := range ch.Sys {
			out = appendField(out, e.Key)
			out = appendField(out, e.Value)
		}
		out = binary.AppendUvarint(out, ch.Count)
		for _, r := range ch.Rows {
			out = binary.BigEndian.AppendUint64(out, r.Seq)
			out = appendField(out, r.Header)
			out = appendField(out, r.Payload)
		}
	}
	return reseal(out)
}

// reseal appends the CRC-32 trailer of payload.
func reseal(payload []byte) []byte {
	return binary.BigEndian.AppendUint32(append([]byte(nil), payload...), crc32.ChecksumIEEE(payload))
}

type rawMetaSnapshot struct {
	Slots   []uint16
	Count   uint64
	Entries []rawEntry
}

func parseMetaStream(stream []byte) (rawMetaSnapshot, bool) {
	var s rawMetaSnapshot
	if len(stream) < 20 {
		return s, false
	}
	c := &cursor{b: stream[:len(stream)-4]}
	c.take(4)
	c.u16()
	n := c.u16()
	for i := uint16(0); i < n; i++ {
		s.Slots = append(s.Slots, c.u16())
	}
	s.Count = c.u64()
	if c.bad || s.Count > 1<<20 {
		return s, false
	}
	for i := uint64(0); i < s.Count; i++ {
		kl := c.uvarint()
		vl := c.uvarint()
		k := c.take(kl)
		v := c.take(vl)
		if c.bad {
			return s, false
		}
		s.Entries = append(s.Entries, rawEntry{k, v})
	}
	return s, !c.bad && len(c.b) == 0
}

func encodeMetaStream(magic [4]byte, version uint16, s rawMetaSnapshot) []byte {
	out := append([]byte(nil), magic[:]...)
	out = binary.BigEndian.AppendUint16(out, version)
	out = binary.BigEndian.AppendUint16(out, uint16(len(s.Slots)))
	for _, hs := range s.Slots {
		out = binary.BigEndian.AppendUint16(out, hs)
	}
	out = binary.BigEndian.AppendUint64(out, s.Count)
	for _, e := range s.Entries {
		out = binary.AppendUvarint(out, uint64(len(e.Key)))
		out = binary.AppendUvarint(out, uint64(len(e.Value)))
		out = append(out, e.Key...)
		out = append(out, e.Value...)
	}
	return reseal(out)
}

// ---- Coq printers ---------------------------------------------------------------------

func hexs(b []byte) string {
	if len(b) == 0 {
		return "[]"
	}
	return vh.Hex(b)
}

func pRes(class uint64, ok string) string {
	if class != 0 {
		return "(Err " + vh.N(class) + ")"
	}
	return "(Ok " + ok + ")"
}
