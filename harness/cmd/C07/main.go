// Harness for C07: the Pebble-backed message store (pkg/db/message) behaves as a
// faithful sequential log.
//
// One case = one history of typed ChannelLog calls (Append in three modes,
// ApplyFetch, TruncateFrom, TrimPrefixThroughLimit, StoreCheckpoint, reads and
// index lookups), compatibility ChannelStore appends / Truncate, lease
// close and whole-database close + reopen, over three channels sharing one real
// on-disk Pebble database (os.MkdirTemp; one database serves 20 histories, each
// in its own channel-key / message-id namespace).  After every mutating op the
// channel is dumped through LEO + Read; at the end the physical keys of the
// history are decoded.  The Coq model replays the history and must reproduce
// every result; the property monitor replays a plain sequential log.
package main

import (
	"fmt"
	"io"
	"math/rand/v2"
	"strings"

	"github.com/WuKongIM/WuKongIM/internal/verifh/vh"
	msgh "github.com/WuKongIM/WuKongIM/pkg/db/verifh_msgstore"
)

func gen(r *rand.Rand, tier string, i int) msgh.Input {
	p := msgh.Profile{MinOps: 6, MaxOps: 34, Collide: 0.12, EmptyPayload: 0.0015, MutWeight: 62, BatchRate: 0.03, TrimRetry: 0.5, TrimScenario: 0.12, DiscardRate: 0.02}
	if tier == "thorough" {
		p.MaxOps = 90
	}
	switch x := r.IntN(20); {
	case x == 0:
		p.Malformed = true
	case x == 1:
		p.Collide = 0.4
	case x == 2:
		p.MutWeight = 85
	}
	return msgh.GenHistory(r, p)
}

func run(in msgh.Input) vh.Result {
	steps, kv := msgh.RunHistory(in)
	return vh.Result{
		Coq:     msgh.CoqCase("C07Case", in, steps, kv),
		Obs:     map[string]any{"steps": steps, "kv": kv},
		Class:   classify(in, steps),
		Trivial: len(in.Ops) == 0,
	}
}

func classify(in msgh.Input, steps []msgh.Step) string {
	f := map[string]bool{}
	for i, op := range in.Ops {
		switch op.K {
		case "trunc", "ctrunc":
			f["trunc"] = true
		case "trim":
			f["trim"] = true
		case "reopen":
			f["reopen"] = true
		}
		switch steps[i].Out.Err {
		case 2:
			f["conflict"] = true
		case 4:
			f["corrupt"] = true
		}
	}
	var parts []string
	for _, k := range []string{"trunc", "trim", "reopen", "conflict", "corrupt"} {
		if f[k] {
			parts = append(parts, k)
		}
	}
	return fmt.Sprintf("ops<%d0:%s", len(in.Ops)/10+1, strings.Join(parts, "+"))
}

func emitConsts(w io.Writer) { msgh.EmitConsts(w, "C07") }

func main() {
	defer msgh.CleanupAll()
	vh.Main(vh.Harness[msgh.Input]{EmitConsts: emitConsts, Gen: gen, Run: run})
}
