package main

import (
	"encoding/json"
	"fmt"
	"math/rand/v2"
	"strings"

	"github.com/WuKongIM/WuKongIM/internal/verifh/vh"
)

var strPool = []string{"", "a", "u1", "user-1", "g100", "2.0", "0", "消息", "a\"b\\c", "line\nbreak", " ", "tok€n", "x y", "null", "{}"}
var idPool = []string{"r1", "req-7", "1", "", "null", "id with space", "标识", "r1"}
var badStrPool = []string{"\xff", "a\xc3", "\xed\xa0\x80", "ok\x80ok"}

func genStr(r *rand.Rand) string {
	if r.IntN(40) == 0 {
		return vh.Pick(r, badStrPool...)
	}
	if r.IntN(10) == 0 {
		n := r.IntN(12)
		b := make([]byte, n)
		for i := range b {
			b[i] = byte(32 + r.IntN(95))
		}
		return string(b)
	}
	return vh.Pick(r, strPool...)
}

func genID(r *rand.Rand) hexs {
	if r.IntN(30) == 0 {
		return hx(genStr(r))
	}
	return hx(vh.Pick(r, idPool...))
}

func genFramer(r *rand.Rand) framerIn {
	f := framerIn{}
	if r.IntN(3) == 0 {
		return f
	}
	f.NoPersist, f.RedDot, f.SyncOnce, f.DUP, f.End = r.IntN(2) == 0, r.IntN(2) == 0, r.IntN(3) == 0, r.IntN(3) == 0, r.IntN(4) == 0
	if r.IntN(4) == 0 {
		f.HSV = true
	}
	if r.IntN(5) == 0 {
		f.Type, f.RemLen, f.Size = uint8(r.IntN(16)), uint32(r.IntN(1000)), int64(r.IntN(1000))
	}
	return f
}

func genI64(r *rand.Rand) int64 {
	switch r.IntN(8) {
	case 0:
		return 0
	case 1:
		return vh.Pick(r, int64(9223372036854775807), -9223372036854775808, -1, 1, 9223372036854775806)
	case 2:
		return -int64(vh.U64Edge(r) >> 1)
	default:
		return int64(vh.U64Edge(r) >> 1)
	}
}

func genU8(r *rand.Rand) uint8 {
	if r.IntN(3) == 0 {
		return vh.Pick(r, uint8(0), 1, 2, 127, 128, 255)
	}
	return uint8(r.IntN(256))
}

func genPayload(r *rand.Rand) hexs {
	switch r.IntN(5) {
	case 0:
		return ""
	case 1:
		return hx("hello")
	default:
		return hexs(fmt.Sprintf("%x", vh.Bytes(r, r.IntN(24))))
	}
}

var inboundKinds = []string{"connect", "send", "recvack", "disconnect", "ping"}
var outboundKinds = []string{"connack", "sendack", "recv", "event", "disconnect", "pong"}

func genFrame(r *rand.Rand, kind string) *frameIn {
	f := &frameIn{T: kind, Fr: genFramer(r)}
	switch kind {
	case "connect":
		f.Version, f.ClientKey, f.DeviceID, f.DeviceFlag = vh.Pick(r, uint8(0), 0, 3, 5, 6, genU8(r)), hx(genStr(r)), hx(genStr(r)), genU8(r)
		f.ClientTimestamp, f.UID, f.Token = genI64(r), hx(genStr(r)), hx(genStr(r))
	case "send":
		f.Setting = genU8(r)
		if r.IntN(3) == 0 {
			f.Setting &= 0xAA
		}
		f.MsgKey, f.Expire, f.ClientSeq = hx(genStr(r)), uint32(vh.U64Edge(r)), vh.U64Edge(r)
		if r.IntN(2) == 0 {
			f.ClientSeq = 0
		}
		f.ClientMsgNo, f.StreamNo, f.ChannelID, f.ChannelType, f.Topic, f.Payload = hx(genStr(r)), hx(genStr(r)), hx(genStr(r)), genU8(r), hx(genStr(r)), genPayload(r)
	case "recvack":
		f.MessageID, f.MessageSeq = genI64(r), vh.U64Edge(r)
	case "disconnect":
		f.ReasonCode, f.Reason = genU8(r), hx(genStr(r))
	case "connack":
		f.ServerVersion, f.ServerKey, f.Salt, f.TimeDiff, f.ReasonCode, f.NodeID = genU8(r), hx(genStr(r)), hx(genStr(r)), genI64(r), genU8(r), vh.U64Edge(r)
	case "sendack":
		f.MessageID, f.MessageSeq, f.ClientSeq, f.ClientMsgNo, f.ReasonCode = genI64(r), vh.U64Edge(r), vh.U64Edge(r), hx(genStr(r)), genU8(r)
	case "recv":
		f.Setting, f.MsgKey, f.Expire, f.MessageID, f.MessageSeq = genU8(r), hx(genStr(r)), uint32(vh.U64Edge(r)), genI64(r), vh.U64Edge(r)
		if r.IntN(3) == 0 {
			f.Setting = 0
		}
		f.ClientMsgNo, f.StreamNo, f.StreamID, f.StreamFlag, f.Timestamp = hx(genStr(r)), hx(genStr(r)), vh.U64Edge(r), genU8(r), int64(int32(r.Uint32()))
		f.ChannelID, f.ChannelType, f.Topic, f.FromUID, f.Payload = hx(genStr(r)), genU8(r), hx(genStr(r)), hx(genStr(r)), genPayload(r)
	case "event":
		f.EvID, f.EvType, f.Timestamp, f.Data = hx(genStr(r)), hx(genStr(r)), genI64(r), hx(vh.Pick(r, `{"a":1}`, "", "text", genStr(r)))
	}
	return f
}

func genZ(r *rand.Rand) int64 {
	switch r.IntN(6) {
	case 0:
		return int64(genU8(r))
	case 1:
		return vh.Pick(r, int64(256), 257, 300, 511, 512, 65536, -1, -255, -256, -257)
	case 2:
		return genI64(r)
	default:
		return int64(r.IntN(13))
	}
}

var msgIDPool = []string{"0", "1", "42", "-5", "+5", "9223372036854775807", "9223372036854775808", "-9223372036854775808", "-9223372036854775809",
	"18446744073709551615", "18446744073709551616", "99999999999999999999x", "12x", "x12", "", "+", "-", "--1", "1_000", "0x10", " 1", "00012", "1e3"}

func genMsg(r *rand.Rand) *msgIn {
	kind := vh.Pick(r, "connect", "send", "send", "ping", "disconnect", "recvack", "recvack", "subscribe", "unsubscribe", "pong", "generic")
	m := &msgIn{T: kind, ID: genID(r)}
	m.NoPersist, m.RedDot, m.SyncOnce, m.DUP, m.End = r.IntN(2) == 0, r.IntN(2) == 0, r.IntN(3) == 0, r.IntN(3) == 0, r.IntN(4) == 0
	switch kind {
	case "connect":
		m.Version, m.ClientKey, m.DeviceID, m.DeviceFlag, m.ClientTimestamp, m.UID, m.Token = genZ(r), hx(genStr(r)), hx(genStr(r)), genZ(r), genI64(r), hx(genStr(r)), hx(genStr(r))
	case "send":
		m.Receipt, m.Signal, m.Stream, m.TopicFlag = r.IntN(2) == 0, r.IntN(2) == 0, r.IntN(2) == 0, r.IntN(2) == 0
		m.MsgKey, m.Expire, m.ClientMsgNo, m.StreamNo = hx(genStr(r)), uint32(vh.U64Edge(r)), hx(genStr(r)), hx(genStr(r))
		m.ChannelID, m.ChannelType, m.Topic, m.Payload = hx(genStr(r)), genZ(r), hx(genStr(r)), genPayload(r)
	case "disconnect":
		m.ReasonCode, m.Reason = genZ(r), hx(genStr(r))
	case "recvack":
		m.MessageID, m.MessageSeq = hx(vh.Pick(r, msgIDPool...)), vh.U64Edge(r)
		if r.IntN(4) == 0 {
			m.MessageID = hx(fmt.Sprint(genI64(r)))
		}
	case "subscribe", "unsubscribe":
		m.ChannelID, m.ChannelType = hx(genStr(r)), genZ(r)
	}
	return m
}

// ---- JSON documents -----------------------------------------------------------------------------------

var methods = []string{"connect", "send", "recvack", "subscribe", "unsubscribe", "ping", "disconnect", "recv", "event", "connect", "send", "recvack", "subscribe", "unsubscribe", "ping", "disconnect", "recv", "event", "connect", "send", "recvack", "subscribe", "unsubscribe", "ping", "disconnect", "recv", "event", "pong", "foo", "", "Connect"}

func validParams(method string) string {
	switch method {
	case "connect":
		return `{"uid":"u1","token":"t","deviceFlag":1,"version":4}`
	case "send":
		return `{"channelId":"c","channelType":2,"payload":"aGk=","header":{"redDot":true},"setting":{"topic":true}}`
	case "recvack":
		return `{"messageId":"12","messageSeq":3}`
	case "subscribe", "unsubscribe":
		return `{"subNo":"s","channelId":"c","channelType":2}`
	case "disconnect":
		return `{"reasonCode":1,"reason":"bye"}`
	case "recv":
		return `{"messageId":"1","messageSeq":1,"timestamp":1,"channelId":"c","channelType":1,"fromUid":"u","payload":"aGk="}`
	case "event":
		return `{"id":"e","type":"t","timestamp":1,"data":"d"}`
	default:
		return `{}`
	}
}

func genDoc(r *rand.Rand) []byte {
	var parts []string
	add := func(k, v string) { parts = append(parts, fmt.Sprintf("%q:%s", k, v)) }
	key := func(k string) string { // encoding/json matches keys case-insensitively
		if r.IntN(25) == 0 {
			return strings.ToUpper(k)
		}
		return k
	}
	method := vh.Pick(r, methods...)
	shape := r.IntN(10) // 0-4 request, 5-6 notification, 7-8 response, 9 free mix
	if r.IntN(5) != 0 { // usually a method that fits the shape
		if shape <= 4 {
			method = vh.Pick(r, "connect", "send", "subscribe", "unsubscribe", "ping", "disconnect")
		} else if shape <= 6 {
			method = vh.Pick(r, "recv", "recvack", "disconnect", "event")
		}
	}
	has := func(p float64) bool { return vh.Chance(r, p) }
	mostly := func(good string, bad ...string) string { // 88% the well-formed value
		if has(0.88) {
			return good
		}
		return vh.Pick(r, bad...)
	}
	if has(0.8) {
		add(key("jsonrpc"), mostly(`"2.0"`, `"1.0"`, `null`, `2`, `""`, `{}`))
	}
	wantID := shape <= 4 || shape == 7 || shape == 8 || (shape == 9 && has(0.5))
	if wantID {
		add(key("id"), mostly(vh.Pick(r, `"r1"`, `"req-9"`, `"消"`), `""`, `null`, `5`, `{}`, `["a"]`, `true`))
	}
	wantMethod := shape <= 6 || (shape == 9 && has(0.5))
	if wantMethod {
		mv, _ := json.Marshal(method)
		add(key("method"), mostly(string(mv), `null`, `5`, `""`))
	}
	if (shape <= 6 && has(0.9)) || (shape >= 7 && has(0.1)) {
		add(key("params"), mostly(validParams(method), `{}`, `null`, `5`, `"s"`, `[]`,
			`{"channelType":"x"}`, `{"messageSeq":-1}`, `{"payload":"!!"}`, `{"header":5}`, `{"reasonCode":"a"}`, `{"uid":5}`))
	}
	if (shape == 7 || shape == 8 || (shape == 9 && has(0.4))) && has(0.8) || (shape <= 6 && has(0.04)) {
		add(key("result"), vh.Pick(r, `{}`, `null`, `1`, `"ok"`, `{"messageId":"1"}`))
	}
	if (shape == 8 || (shape == 9 && has(0.4))) && has(0.7) || (shape == 7 && has(0.15)) || (shape <= 6 && has(0.04)) {
		add(key("error"), mostly(`{"code":1,"message":"m"}`, `null`, `"str"`, `5`, `{"code":"x"}`, `{}`))
	}
	if has(0.1) {
		add("extra", `[1,2,{"a":null}]`)
	}
	if has(0.05) && len(parts) > 0 { // duplicate key: last one wins
		parts = append(parts, parts[r.IntN(len(parts))])
	}
	r.Shuffle(len(parts), func(i, j int) { parts[i], parts[j] = parts[j], parts[i] })
	doc := []byte("{" + strings.Join(parts, ",") + "}")
	switch r.IntN(30) {
	case 0: // truncate
		doc = doc[:r.IntN(len(doc)+1)]
	case 1: // flip a byte
		if len(doc) > 0 {
			doc[r.IntN(len(doc))] ^= byte(1 << uint(r.IntN(8)))
		}
	case 2: // not an object
		doc = []byte(vh.Pick(r, `[1]`, `"str"`, `5`, `null`, `true`, ``, ` `, `[{"id":"a","method":"ping"}]`, "\xff\xfe", `{`, `}`, `{"id":}`))
	case 3: // whitespace / trailing data
		doc = append([]byte(" \n\t"), append(doc, []byte(vh.Pick(r, " ", "\n", " {}", "x", ","))...)...)
	case 4: // insert a random byte
		k := r.IntN(len(doc) + 1)
		doc = append(append(append([]byte(nil), doc[:k]...), byte(r.IntN(256))), doc[k:]...)
	}
	return doc
}

func genOp(r *rand.Rand) opIn {
	switch k := r.IntN(20); {
	case k < 5:
		return opIn{K: "in", ID: genID(r), Wire: vh.Pick(r, 0, 0, 1, 1, 2), Frame: genFrame(r, vh.Pick(r, inboundKinds...))}
	case k < 8:
		return opIn{K: "msg", Wire: vh.Pick(r, 0, 0, 0, 1, 2), Msg: genMsg(r)}
	case k < 13:
		kind := vh.Pick(r, outboundKinds...)
		if r.IntN(20) == 0 {
			kind = vh.Pick(r, "sub", "suback", "connect", "send", "ping", "recvack")
		}
		return opIn{K: "out", ID: genID(r), Frame: genFrame(r, kind)}
	default:
		return opIn{K: "doc", Doc: hexs(fmt.Sprintf("%x", genDoc(r)))}
	}
}

func gen(r *rand.Rand, tier string, i int) input {
	n := 1 + r.IntN(5)
	ops := make([]opIn, n)
	for j := range ops {
		ops[j] = genOp(r)
	}
	return input{Ops: ops}
}
