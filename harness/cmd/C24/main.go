// Harness for C24: the JSON-RPC protocol is a faithful frame bridge.
//
// One case is a short list of independent operations:
//
//	in    a frame the client wants to send + its request id: the client's message for it
//	      (built here, mirror of msg_of_frame in the model) goes through jsonrpc.ToFrame
//	      directly, or encoded and through the gateway jsonrpc / wsmux adapter's Decode
//	msg   an arbitrary inbound message value (any int / string field values) through ToFrame
//	out   jsonrpc.FromFrame(reqId, frame); the typed message, whether Encode + json.Unmarshal
//	      gives the value back, what the package's own Decode says about the encoded bytes,
//	      and the gateway adapters' Encode
//	doc   an arbitrary / mutated JSON document through jsonrpc.Decode (and ToFrame on the
//	      result), with the abstract Probe the model's decision procedure runs on
//
// JSON syntax is outside the Coq model: the harness tells the model what encoding/json
// made of the raw fields (probe classes, "params unmarshal ok" bits).
package main

import (
	"bytes"
	"encoding/hex"
	"encoding/json"
	"errors"
	"fmt"
	"io"
	"reflect"
	"strconv"
	"strings"
	"unicode/utf8"

	"github.com/WuKongIM/WuKongIM/internal/verifh/vh"
	gwjsonrpc "github.com/WuKongIM/WuKongIM/pkg/gateway/protocol/jsonrpc"
	"github.com/WuKongIM/WuKongIM/pkg/gateway/protocol/wsmux"
	"github.com/WuKongIM/WuKongIM/pkg/gateway/session"
	gatewaytypes "github.com/WuKongIM/WuKongIM/pkg/gateway/types"
	"github.com/WuKongIM/WuKongIM/pkg/protocol/frame"
	"github.com/WuKongIM/WuKongIM/pkg/protocol/jsonrpc"
)

// ---- input ------------------------------------------------------------------------------

type hexs string // hex of a byte string

func (h hexs) b() []byte {
	b, err := hex.DecodeString(string(h))
	if err != nil {
		panic("bad hex in input: " + err.Error())
	}
	return b
}
func (h hexs) s() string { return string(h.b()) }
func hx(s string) hexs   { return hexs(hex.EncodeToString([]byte(s))) }

type framerIn struct {
	NoPersist, RedDot, SyncOnce, DUP, End, HSV bool   `json:",omitempty"`
	Type                                       uint8  `json:",omitempty"`
	RemLen                                     uint32 `json:",omitempty"`
	Size                                       int64  `json:",omitempty"`
}

// frameIn: T = connect send recvack disconnect ping connack sendack recv event pong sub suback
type frameIn struct {
	T               string   `json:"t"`
	Fr              framerIn `json:"fr"`
	Version         uint8    `json:",omitempty"`
	ClientKey       hexs     `json:",omitempty"`
	DeviceID        hexs     `json:",omitempty"`
	DeviceFlag      uint8    `json:",omitempty"`
	ClientTimestamp int64    `json:",omitempty"`
	UID             hexs     `json:",omitempty"`
	Token           hexs     `json:",omitempty"`
	Setting         uint8    `json:",omitempty"`
	MsgKey          hexs     `json:",omitempty"`
	Expire          uint32   `json:",omitempty"`
	ClientSeq       uint64   `json:",omitempty"`
	ClientMsgNo     hexs     `json:",omitempty"`
	StreamNo        hexs     `json:",omitempty"`
	ChannelID       hexs     `json:",omitempty"`
	ChannelType     uint8    `json:",omitempty"`
	Topic           hexs     `json:",omitempty"`
	Payload         hexs     `json:",omitempty"`
	MessageID       int64    `json:",omitempty"`
	MessageSeq      uint64   `json:",omitempty"`
	ReasonCode      uint8    `json:",omitempty"`
	Reason          hexs     `json:",omitempty"`
	ServerVersion   uint8    `json:",omitempty"`
	ServerKey       hexs     `json:",omitempty"`
	Salt            hexs     `json:",omitempty"`
	TimeDiff        int64    `json:",omitempty"`
	NodeID          uint64   `json:",omitempty"`
	StreamID        uint64   `json:",omitempty"`
	StreamFlag      uint8    `json:",omitempty"`
	Timestamp       int64    `json:",omitempty"`
	FromUID         hexs     `json:",omitempty"`
	EvID            hexs     `json:",omitempty"`
	EvType          hexs     `json:",omitempty"`
	Data            hexs     `json:",omitempty"`
}

// msgIn: T = connect send ping disconnect recvack subscribe unsubscribe pong generic
type msgIn struct {
	T                                     string `json:"t"`
	ID                                    hexs   `json:",omitempty"`
	NoPersist, RedDot, SyncOnce, DUP, End bool   `json:",omitempty"`
	Receipt, Signal, Stream, TopicFlag    bool   `json:",omitempty"`
	Version                               int64  `json:",omitempty"`
	ClientKey, DeviceID, UID, Token       hexs   `json:",omitempty"`
	DeviceFlag                            int64  `json:",omitempty"`
	ClientTimestamp                       int64  `json:",omitempty"`
	MsgKey, ClientMsgNo, StreamNo         hexs   `json:",omitempty"`
	ChannelID, Topic, Payload             hexs   `json:",omitempty"`
	Expire                                uint32 `json:",omitempty"`
	ChannelType                           int64  `json:",omitempty"`
	ReasonCode                            int64  `json:",omitempty"`
	Reason                                hexs   `json:",omitempty"`
	MessageID                             hexs   `json:",omitempty"`
	MessageSeq                            uint64 `json:",omitempty"`
}

type opIn struct {
	K     string   `json:"k"`
	ID    hexs     `json:"id,omitempty"`
	Wire  int      `json:"wire,omitempty"` // 0 ToFrame directly, 1 gateway jsonrpc adapter, 2 wsmux adapter
	Frame *frameIn `json:"frame,omitempty"`
	Msg   *msgIn   `json:"msg,omitempty"`
	Doc   hexs     `json:"doc,omitempty"`
}

type input struct {
	Ops []opIn `json:"ops"`
}

// ---- Coq printers ------------------------------------------------------------------------------

// lit renders a byte string as (pk len [w0; w1; ...]%uint63), 7 bytes per primitive integer.
func lit(b []byte) string {
	if len(b) == 0 {
		return "[]"
	}
	var sb strings.Builder
	sb.WriteString("(pk ")
	sb.WriteString(strconv.Itoa(len(b)))
	sb.WriteString(" [")
	for i := 0; i < len(b); i += 7 {
		var w uint64
		for j := 6; j >= 0; j-- {
			w <<= 8
			if i+j < len(b) {
				w |= uint64(b[i+j])
			}
		}
		if i > 0 {
			sb.WriteString("; ")
		}
		sb.WriteString(strconv.FormatUint(w, 10))
	}
	sb.WriteString("]%uint63)")
	return sb.String()
}
func litS(s string) string { return lit([]byte(s)) }

func framerTerm(f frame.Framer) string {
	return vh.App("Framer", vh.B(f.NoPersist), vh.B(f.RedDot), vh.B(f.SyncOnce), vh.B(f.DUP), vh.B(f.End), vh.B(f.HasServerVersion),
		vh.N(uint64(f.FrameType)), vh.N(uint64(f.RemainingLength)), vh.Z(f.FrameSize))
}

func frameTerm(f frame.Frame) string {
	switch p := f.(type) {
	case *frame.ConnectPacket:
		return vh.App("FConnect", framerTerm(p.Framer), vh.N(uint64(p.Version)), litS(p.ClientKey), litS(p.DeviceID),
			vh.N(uint64(p.DeviceFlag)), vh.Z(p.ClientTimestamp), litS(p.UID), litS(p.Token))
	case *frame.SendPacket:
		return vh.App("FSend", framerTerm(p.Framer), vh.N(uint64(p.Setting)), litS(p.MsgKey), vh.N(uint64(p.Expire)), vh.N(p.ClientSeq),
			litS(p.ClientMsgNo), litS(p.StreamNo), litS(p.ChannelID), vh.N(uint64(p.ChannelType)), litS(p.Topic), lit(p.Payload))
	case *frame.RecvackPacket:
		return vh.App("FRecvack", framerTerm(p.Framer), vh.Z(p.MessageID), vh.N(p.MessageSeq))
	case *frame.DisconnectPacket:
		return vh.App("FDisconnect", framerTerm(p.Framer), vh.N(uint64(p.ReasonCode)), litS(p.Reason))
	case *frame.PingPacket:
		return vh.App("FPing", framerTerm(p.Framer))
	case *frame.ConnackPacket:
		return vh.App("FConnack", framerTerm(p.Framer), vh.N(uint64(p.ServerVersion)), litS(p.ServerKey), litS(p.Salt), vh.Z(p.TimeDiff),
			vh.N(uint64(p.ReasonCode)), vh.N(p.NodeId))
	case *frame.SendackPacket:
		return vh.App("FSendack", framerTerm(p.Framer), vh.Z(p.MessageID), vh.N(p.MessageSeq), vh.N(p.ClientSeq), litS(p.ClientMsgNo),
			vh.N(uint64(p.ReasonCode)))
	case *frame.RecvPacket:
		return vh.App("FRecv", framerTerm(p.Framer), vh.N(uint64(p.Setting)), litS(p.MsgKey), vh.N(uint64(p.Expire)), vh.Z(p.MessageID),
			vh.N(p.MessageSeq), litS(p.ClientMsgNo), litS(p.StreamNo), vh.N(p.StreamId), vh.N(uint64(p.StreamFlag)), vh.Z(int64(p.Timestamp)),
			litS(p.ChannelID), vh.N(uint64(p.ChannelType)), litS(p.Topic), litS(p.FromUID), lit(p.Payload))
	case *frame.EventPacket:
		return vh.App("FEvent", framerTerm(p.Framer), litS(p.Id), litS(p.Type), vh.Z(p.Timestamp), lit(p.Data))
	case *frame.PongPacket:
		return vh.App("FPong", framerTerm(p.Framer))
	default:
		return vh.App("FOther", vh.N(uint64(f.GetFrameType())))
	}
}

func headerTerm(h jsonrpc.Header) string {
	return vh.App("Header", vh.B(h.NoPersist), vh.B(h.RedDot), vh.B(h.SyncOnce), vh.B(h.Dup), vh.B(h.End))
}
func optHeaderTerm(h *jsonrpc.Header) string {
	if h == nil {
		return vh.None()
	}
	return vh.Some(headerTerm(*h))
}
func flagsTerm(s jsonrpc.SettingFlags) string {
	return vh.App("SettingFlags", vh.B(s.Receipt), vh.B(s.Signal), vh.B(s.Stream), vh.B(s.Topic))
}
func disconnectTerm(rc jsonrpc.ReasonCodeEnum, reason string) string {
	return vh.App("DisconnectParams", vh.Z(int64(rc)), litS(reason))
}

// msgTerm prints a message value as rpc_msg.
func msgTerm(m interface{}) string {
	switch p := m.(type) {
	case jsonrpc.ConnectRequest:
		q := p.Params
		return vh.App("ConnectRequest", litS(p.ID), vh.App("ConnectParams", headerTerm(q.Header), vh.Z(int64(q.Version)), litS(q.ClientKey),
			litS(q.DeviceID), vh.Z(int64(q.DeviceFlag)), vh.Z(q.ClientTimestamp), litS(q.UID), litS(q.Token)))
	case jsonrpc.SendRequest:
		q := p.Params
		return vh.App("SendRequest", litS(p.ID), vh.App("SendParams", headerTerm(q.Header), flagsTerm(q.Setting), litS(q.MsgKey),
			vh.N(uint64(q.Expire)), litS(q.ClientMsgNo), litS(q.StreamNo), litS(q.ChannelID), vh.Z(int64(q.ChannelType)), litS(q.Topic), lit(q.Payload)))
	case jsonrpc.PingRequest:
		return vh.App("PingRequest", litS(p.ID))
	case jsonrpc.DisconnectRequest:
		return vh.App("DisconnectRequest", litS(p.ID), disconnectTerm(p.Params.ReasonCode, p.Params.Reason))
	case jsonrpc.RecvAckNotification:
		return vh.App("RecvAckNotification", vh.App("RecvAckParams", headerTerm(p.Params.Header), litS(p.Params.MessageID), vh.N(p.Params.MessageSeq)))
	case jsonrpc.SubscribeRequest:
		return vh.App("SubscribeRequest", litS(p.ID))
	case jsonrpc.UnsubscribeRequest:
		return vh.App("UnsubscribeRequest", litS(p.ID))
	case jsonrpc.GenericResponse:
		return vh.App("GenericResponse", litS(p.ID))
	case jsonrpc.ConnectResponse:
		r := vh.None()
		if p.Result != nil {
			q := p.Result
			r = vh.Some(vh.App("ConnectResult", optHeaderTerm(q.Header), vh.Z(int64(q.ServerVersion)), litS(q.ServerKey), litS(q.Salt),
				vh.Z(q.TimeDiff), vh.Z(int64(q.ReasonCode)), vh.N(q.NodeID)))
		}
		return vh.App("ConnectResponse", litS(p.Jsonrpc), litS(p.ID), r)
	case jsonrpc.SendResponse:
		r := vh.None()
		if p.Result != nil {
			q := p.Result
			r = vh.Some(vh.App("SendResult", optHeaderTerm(q.Header), litS(q.MessageID), vh.N(q.MessageSeq), vh.Z(int64(q.ReasonCode))))
		}
		return vh.App("SendResponse", litS(p.Jsonrpc), litS(p.ID), r)
	case jsonrpc.PongResponse:
		return vh.App("PongResponse", litS(p.Jsonrpc), litS(p.ID))
	case jsonrpc.RecvNotification:
		q := p.Params
		st := vh.None()
		if q.Setting != nil {
			st = vh.Some(flagsTerm(*q.Setting))
		}
		return vh.App("RecvNotification", litS(p.Jsonrpc), litS(p.Method), vh.App("RecvNotificationParams", optHeaderTerm(q.Header), st,
			litS(q.MsgKey), vh.N(uint64(q.Expire)), litS(q.MessageID), vh.N(q.MessageSeq), litS(q.ClientMsgNo), litS(q.StreamNo), litS(q.StreamID),
			vh.Z(int64(q.StreamFlag)), vh.Z(int64(q.Timestamp)), litS(q.ChannelID), vh.Z(int64(q.ChannelType)), litS(q.Topic), litS(q.FromUID),
			lit(q.Payload)))
	case jsonrpc.EventNotification:
		q := p.Params
		return vh.App("EventNotification", litS(p.Jsonrpc), litS(p.Method), vh.App("EventNotificationParams", optHeaderTerm(q.Header), litS(q.ID),
			litS(q.Type), vh.Z(q.Timestamp), litS(q.Data)))
	case jsonrpc.DisconnectNotification:
		return vh.App("DisconnectNotification", litS(p.Jsonrpc), litS(p.Method), disconnectTerm(p.Params.ReasonCode, p.Params.Reason))
	default:
		panic(fmt.Sprintf("msgTerm: unexpected message type %T", m))
	}
}

// ---- building values from the input -------------------------------------------------------------

func mkFramer(f framerIn) frame.Framer {
	return frame.Framer{NoPersist: f.NoPersist, RedDot: f.RedDot, SyncOnce: f.SyncOnce, DUP: f.DUP, End: f.End, HasServerVersion: f.HSV,
		FrameType: frame.FrameType(f.Type), RemainingLength: f.RemLen, FrameSize: f.Size}
}

func mkFrame(in *frameIn) frame.Frame {
	fr := mkFramer(in.Fr)
	switch in.T {
	case "connect":
		return &frame.ConnectPacket{Framer: fr, Version: in.Version, ClientKey: in.ClientKey.s(), DeviceID: in.DeviceID.s(),
			DeviceFlag: frame.DeviceFlag(in.DeviceFlag), ClientTimestamp: in.ClientTimestamp, UID: in.UID.s(), Token: in.Token.s()}
	case "send":
		return &frame.SendPacket{Framer: fr, Setting: frame.Setting(in.Setting), MsgKey: in.MsgKey.s(), Expire: in.Expire, ClientSeq: in.ClientSeq,
			ClientMsgNo: in.ClientMsgNo.s(), StreamNo: in.StreamNo.s(), ChannelID: in.ChannelID.s(), ChannelType: in.ChannelType,
			Topic: in.Topic.s(), Payload: in.Payload.b()}
	case "recvack":
		return &frame.RecvackPacket{Framer: fr, MessageID: in.MessageID, MessageSeq: in.MessageSeq}
	case "disconnect":
		return &frame.DisconnectPacket{Framer: fr, ReasonCode: frame.ReasonCode(in.ReasonCode), Reason: in.Reason.s()}
	case "ping":
		return &frame.PingPacket{Framer: fr}
	case "connack":
		return &frame.ConnackPacket{Framer: fr, ServerVersion: in.ServerVersion, ServerKey: in.ServerKey.s(), Salt: in.Salt.s(),
			TimeDiff: in.TimeDiff, ReasonCode: frame.ReasonCode(in.ReasonCode), NodeId: in.NodeID}
	case "sendack":
		return &frame.SendackPacket{Framer: fr, MessageID: in.MessageID, MessageSeq: in.MessageSeq, ClientSeq: in.ClientSeq,
			ClientMsgNo: in.ClientMsgNo.s(), ReasonCode: frame.ReasonCode(in.ReasonCode)}
	case "recv":
		return &frame.RecvPacket{Framer: fr, Setting: frame.Setting(in.Setting), MsgKey: in.MsgKey.s(), Expire: in.Expire, MessageID: in.MessageID,
			MessageSeq: in.MessageSeq, ClientMsgNo: in.ClientMsgNo.s(), StreamNo: in.StreamNo.s(), StreamId: in.StreamID,
			StreamFlag: frame.StreamFlag(in.StreamFlag), Timestamp: int32(in.Timestamp), ChannelID: in.ChannelID.s(), ChannelType: in.ChannelType,
			Topic: in.Topic.s(), FromUID: in.FromUID.s(), Payload: in.Payload.b()}
	case "event":
		return &frame.EventPacket{Framer: fr, Id: in.EvID.s(), Type: in.EvType.s(), Timestamp: in.Timestamp, Data: in.Data.b()}
	case "pong":
		return &frame.PongPacket{Framer: fr}
	case "sub":
		return &frame.SubPacket{Framer: fr}
	case "suback":
		return &frame.SubackPacket{Framer: fr}
	default:
		panic("unknown frame kind " + in.T)
	}
}

func header5(f frame.Framer) jsonrpc.Header {
	return jsonrpc.Header{NoPersist: f.NoPersist, RedDot: f.RedDot, SyncOnce: f.SyncOnce, Dup: f.DUP, End: f.End}
}

// msgOfFrame: the message a client sends for a frame (mirror of msg_of_frame in the model).
func msgOfFrame(id string, f frame.Frame) interface{} {
	ver := jsonrpc.VerifJSONRPCVersion()
	switch p := f.(type) {
	case *frame.ConnectPacket:
		return jsonrpc.ConnectRequest{BaseRequest: jsonrpc.BaseRequest{Jsonrpc: ver, Method: jsonrpc.MethodConnect, ID: id},
			Params: jsonrpc.ConnectParams{Header: header5(p.Framer), Version: int(p.Version), ClientKey: p.ClientKey, DeviceID: p.DeviceID,
				DeviceFlag: jsonrpc.DeviceFlagEnum(p.DeviceFlag), ClientTimestamp: p.ClientTimestamp, UID: p.UID, Token: p.Token}}
	case *frame.SendPacket:
		return jsonrpc.SendRequest{BaseRequest: jsonrpc.BaseRequest{Jsonrpc: ver, Method: jsonrpc.MethodSend, ID: id},
			Params: jsonrpc.SendParams{Header: header5(p.Framer),
				Setting: jsonrpc.SettingFlags{Receipt: p.Setting.IsSet(frame.SettingReceiptEnabled), Signal: p.Setting.IsSet(frame.SettingSignal),
					Stream: p.Setting.IsSet(frame.SettingStream), Topic: p.Setting.IsSet(frame.SettingTopic)},
				MsgKey: p.MsgKey, Expire: p.Expire, ClientMsgNo: p.ClientMsgNo, StreamNo: p.StreamNo, ChannelID: p.ChannelID,
				ChannelType: int(p.ChannelType), Topic: p.Topic, Payload: p.Payload}}
	case *frame.RecvackPacket:
		return jsonrpc.RecvAckNotification{BaseNotification: jsonrpc.BaseNotification{Jsonrpc: ver, Method: jsonrpc.MethodRecvAck},
			Params: jsonrpc.RecvAckParams{Header: header5(p.Framer), MessageID: strconv.FormatInt(p.MessageID, 10), MessageSeq: p.MessageSeq}}
	case *frame.DisconnectPacket:
		return jsonrpc.DisconnectRequest{BaseRequest: jsonrpc.BaseRequest{Jsonrpc: ver, Method: jsonrpc.MethodDisconnect, ID: id},
			Params: jsonrpc.DisconnectParams{ReasonCode: jsonrpc.ReasonCodeEnum(p.ReasonCode), Reason: p.Reason}}
	case *frame.PingPacket:
		return jsonrpc.PingRequest{BaseRequest: jsonrpc.BaseRequest{Jsonrpc: ver, Method: jsonrpc.MethodPing, ID: id}}
	default:
		return nil
	}
}

func mkMsg(in *msgIn) interface{} {
	ver := jsonrpc.VerifJSONRPCVersion()
	id := in.ID.s()
	h := jsonrpc.Header{NoPersist: in.NoPersist, RedDot: in.RedDot, SyncOnce: in.SyncOnce, Dup: in.DUP, End: in.End}
	switch in.T {
	case "connect":
		return jsonrpc.ConnectRequest{BaseRequest: jsonrpc.BaseRequest{Jsonrpc: ver, Method: jsonrpc.MethodConnect, ID: id},
			Params: jsonrpc.ConnectParams{Header: h, Version: int(in.Version), ClientKey: in.ClientKey.s(), DeviceID: in.DeviceID.s(),
				DeviceFlag: jsonrpc.DeviceFlagEnum(in.DeviceFlag), ClientTimestamp: in.ClientTimestamp, UID: in.UID.s(), Token: in.Token.s()}}
	case "send":
		return jsonrpc.SendRequest{BaseRequest: jsonrpc.BaseRequest{Jsonrpc: ver, Method: jsonrpc.MethodSend, ID: id},
			Params: jsonrpc.SendParams{Header: h, Setting: jsonrpc.SettingFlags{Receipt: in.Receipt, Signal: in.Signal, Stream: in.Stream, Topic: in.TopicFlag},
				MsgKey: in.MsgKey.s(), Expire: in.Expire, ClientMsgNo: in.ClientMsgNo.s(), StreamNo: in.StreamNo.s(), ChannelID: in.ChannelID.s(),
				ChannelType: int(in.ChannelType), Topic: in.Topic.s(), Payload: in.Payload.b()}}
	case "ping":
		return jsonrpc.PingRequest{BaseRequest: jsonrpc.BaseRequest{Jsonrpc: ver, Method: jsonrpc.MethodPing, ID: id}}
	case "disconnect":
		return jsonrpc.DisconnectRequest{BaseRequest: jsonrpc.BaseRequest{Jsonrpc: ver, Method: jsonrpc.MethodDisconnect, ID: id},
			Params: jsonrpc.DisconnectParams{ReasonCode: jsonrpc.ReasonCodeEnum(in.ReasonCode), Reason: in.Reason.s()}}
	case "recvack":
		return jsonrpc.RecvAckNotification{BaseNotification: jsonrpc.BaseNotification{Jsonrpc: ver, Method: jsonrpc.MethodRecvAck},
			Params: jsonrpc.RecvAckParams{Header: h, MessageID: in.MessageID.s(), MessageSeq: in.MessageSeq}}
	case "subscribe":
		return jsonrpc.SubscribeRequest{BaseRequest: jsonrpc.BaseRequest{Jsonrpc: ver, Method: jsonrpc.MethodSubscribe, ID: id},
			Params: jsonrpc.SubscribeParams{SubNo: "s", ChannelID: in.ChannelID.s(), ChannelType: int(in.ChannelType)}}
	case "unsubscribe":
		return jsonrpc.UnsubscribeRequest{BaseRequest: jsonrpc.BaseRequest{Jsonrpc: ver, Method: jsonrpc.MethodUnsubscribe, ID: id},
			Params: jsonrpc.UnsubscribeParams{SubNo: "s", ChannelID: in.ChannelID.s(), ChannelType: int(in.ChannelType)}}
	case "pong":
		return jsonrpc.PongResponse{BaseResponse: jsonrpc.BaseResponse{Jsonrpc: ver, ID: id}}
	case "generic":
		return jsonrpc.GenericResponse{BaseResponse: jsonrpc.BaseResponse{Jsonrpc: ver, ID: id}, Result: json.RawMessage("1")}
	default:
		panic("unknown message kind " + in.T)
	}
}

// ---- session stub -----------------------------------------------------------------------------------

type stubSession struct{ vals map[string]any }

func (s *stubSession) ID() uint64                                           { return 1 }
func (s *stubSession) Listener() string                                     { return "verif" }
func (s *stubSession) RemoteAddr() string                                   { return "" }
func (s *stubSession) LocalAddr() string                                    { return "" }
func (s *stubSession) WriteFrame(frame.Frame, ...session.WriteOption) error { return nil }
func (s *stubSession) Close() error                                         { return nil }
func (s *stubSession) SetValue(k string, v any)                             { s.vals[k] = v }
func (s *stubSession) Value(k string) any                                   { return s.vals[k] }

type adapter interface {
	Decode(sess session.Session, in []byte) ([]frame.Frame, int, error)
	Encode(sess session.Session, f frame.Frame, meta session.OutboundMeta) ([]byte, error)
	TakeReplyTokens(sess session.Session, count int) []string
}

func newAdapter(wire int) (adapter, *stubSession) {
	sess := &stubSession{vals: map[string]any{}}
	if wire == 2 {
		return wsmux.New(), sess
	}
	a := gwjsonrpc.New()
	_ = a.OnOpen(sess)
	return a, sess
}

// ---- error / kind classes ------------------------------------------------------------------------------

func eclass(err error) uint64 {
	switch {
	case err == nil:
		return 0
	case errors.Is(err, jsonrpc.ErrInvalidVersion):
		return 1
	case errors.Is(err, jsonrpc.ErrResponseFormat):
		return 3
	case errors.Is(err, jsonrpc.ErrRequestFormat):
		return 4
	case errors.Is(err, jsonrpc.ErrNotificationFormat):
		return 5
	case errors.Is(err, jsonrpc.ErrUnknownMethod):
		return 6
	case errors.Is(err, jsonrpc.ErrMissingParams):
		return 7
	case errors.Is(err, jsonrpc.ErrUnmarshalFieldFailed):
		return 8
	case errors.Is(err, jsonrpc.ErrInvalidStructure):
		return 2
	default:
		return 9
	}
}

// kindOf: message kind number and request id of a decoded message.
func kindOf(m interface{}) (uint64, *string) {
	switch p := m.(type) {
	case jsonrpc.ConnectRequest:
		return 1, &p.ID
	case jsonrpc.SendRequest:
		return 2, &p.ID
	case jsonrpc.SubscribeRequest:
		return 3, &p.ID
	case jsonrpc.UnsubscribeRequest:
		return 4, &p.ID
	case jsonrpc.PingRequest:
		return 5, &p.ID
	case jsonrpc.DisconnectRequest:
		return 6, &p.ID
	case jsonrpc.GenericResponse:
		return 7, &p.ID
	case jsonrpc.RecvNotification:
		return 8, nil
	case jsonrpc.RecvAckNotification:
		return 9, nil
	case jsonrpc.DisconnectNotification:
		return 10, nil
	case jsonrpc.EventNotification:
		return 11, nil
	default:
		return 99, nil
	}
}

func outcomeTerm(m interface{}, err error) string {
	if err != nil || m == nil {
		return vh.App("OErr", vh.N(eclass(err)))
	}
	k, id := kindOf(m)
	if id == nil {
		return vh.App("OMsg", vh.N(k), vh.None())
	}
	return vh.App("OMsg", vh.N(k), vh.Some(litS(*id)))
}

func rawClass(r json.RawMessage) string {
	switch {
	case r == nil:
		return "RawAbsent"
	case string(r) == "null":
		return "RawNull"
	case len(r) > 0 && r[0] == '"':
		var s string
		if err := json.Unmarshal(r, &s); err != nil {
			return "RawOther"
		}
		return vh.App("RawString", litS(s))
	default:
		return "RawOther"
	}
}

// paramsOK: does probe.Params unmarshal into the params type Decode uses for this method.
func paramsOK(method string, params json.RawMessage) bool {
	if params == nil {
		return true
	}
	var target interface{}
	switch method {
	case jsonrpc.MethodConnect:
		target = &jsonrpc.ConnectParams{}
	case jsonrpc.MethodSend:
		target = &jsonrpc.SendParams{}
	case jsonrpc.MethodSubscribe:
		target = &jsonrpc.SubscribeParams{}
	case jsonrpc.MethodUnsubscribe:
		target = &jsonrpc.UnsubscribeParams{}
	case jsonrpc.MethodPing:
		target = &jsonrpc.PingParams{}
	case jsonrpc.MethodDisconnect:
		target = &jsonrpc.DisconnectParams{}
	case jsonrpc.MethodRecv:
		target = &jsonrpc.RecvNotificationParams{}
	case jsonrpc.MethodRecvAck:
		target = &jsonrpc.RecvAckParams{}
	case jsonrpc.MethodEvent:
		target = &jsonrpc.EventNotificationParams{}
	default:
		return true
	}
	return json.Unmarshal(params, target) == nil
}

func resTerm(f frame.Frame, tok string, err error) string {
	if err != nil || f == nil {
		return vh.None()
	}
	return vh.Some(vh.Pair(frameTerm(f), litS(tok)))
}

func allUTF8(m interface{}) bool {
	b, err := json.Marshal(m)
	if err != nil {
		return false
	}
	// a string with invalid UTF-8 is written with U+FFFD: compare a decode of the encoding with the value
	v := reflect.New(reflect.TypeOf(m))
	if err := json.Unmarshal(b, v.Interface()); err != nil {
		return false
	}
	return reflect.DeepEqual(normalize(v.Elem().Interface()), normalize(m))
}

// normalize maps nil and empty byte slices to the same value for DeepEqual.
func normalize(m interface{}) interface{} {
	switch p := m.(type) {
	case jsonrpc.SendRequest:
		if len(p.Params.Payload) == 0 {
			p.Params.Payload = nil
		}
		return p
	case jsonrpc.RecvNotification:
		if len(p.Params.Payload) == 0 {
			p.Params.Payload = nil
		}
		return p
	}
	return m
}

// through sends an inbound message through ToFrame (wire 0) or a gateway adapter (wire 1, 2).
func through(m interface{}, wire int) (frame.Frame, string, error) {
	if wire == 0 {
		return jsonrpc.ToFrame(m)
	}
	doc, err := jsonrpc.Encode(m)
	if err != nil {
		return nil, "", err
	}
	a, sess := newAdapter(wire)
	frames, n, err := a.Decode(sess, doc)
	if err != nil {
		return nil, "", err
	}
	if len(frames) != 1 || n != len(doc) {
		return nil, "", fmt.Errorf("adapter returned %d frames, consumed %d of %d bytes", len(frames), n, len(doc))
	}
	tok := ""
	if toks := a.TakeReplyTokens(sess, 1); len(toks) == 1 {
		tok = toks[0]
	}
	return frames[0], tok, nil
}

func runOp(op opIn) (term string, obs map[string]any, class string) {
	obs = map[string]any{"k": op.K}
	switch op.K {
	case "in":
		f := mkFrame(op.Frame)
		id := op.ID.s()
		m := msgOfFrame(id, f)
		wire := op.Wire
		if m != nil && wire != 0 && !allUTF8(m) {
			wire = 0 // JSON cannot carry strings that are not UTF-8: such inputs only go through ToFrame directly
		}
		var res string
		if m == nil {
			res = vh.None()
			class = "in:" + op.Frame.T + ",unsupported"
		} else {
			f2, tok, err := through(m, wire)
			res = resTerm(f2, tok, err)
			class = fmt.Sprintf("in:%s,wire=%d,ok=%v", op.Frame.T, wire, err == nil)
			obs["ok"], obs["token"] = err == nil, hex.EncodeToString([]byte(tok))
		}
		term = vh.App("OpIn", litS(id), frameTerm(f), vh.B(wire != 0), res)

	case "msg":
		m := mkMsg(op.Msg)
		wire := op.Wire
		if op.Msg.T == "pong" || op.Msg.T == "generic" || (wire != 0 && !allUTF8(m)) {
			wire = 0
		}
		f2, tok, err := through(m, wire)
		class = fmt.Sprintf("msg:%s,wire=%d,ok=%v", op.Msg.T, wire, err == nil)
		obs["ok"], obs["token"] = err == nil, hex.EncodeToString([]byte(tok))
		term = vh.App("OpMsg", msgTerm(m), vh.B(wire != 0), resTerm(f2, tok, err))

	case "out":
		f := mkFrame(op.Frame)
		// a reply token is the id of a decoded JSON document, hence valid UTF-8
		id := strings.ToValidUTF8(op.ID.s(), "\uFFFD")
		m, err := jsonrpc.FromFrame(id, f)
		msg, wireSame, dec := vh.None(), true, vh.App("OErr", "0")
		class = fmt.Sprintf("out:%s,ok=%v", op.Frame.T, err == nil)
		if err == nil {
			msg = vh.Some(msgTerm(m))
			doc, eerr := jsonrpc.Encode(m)
			if eerr != nil {
				wireSame = false
			} else {
				// the encoded document decodes back into the same value (JSON carries only UTF-8 strings:
				// inputs with other strings are exempt), and the gateway adapters emit the same bytes
				v := reflect.New(reflect.TypeOf(m))
				uerr := json.Unmarshal(doc, v.Interface())
				same := uerr == nil && reflect.DeepEqual(normalize(v.Elem().Interface()), normalize(m))
				if !same && validStrings(f) {
					wireSame = false
				}
				for _, w := range []int{1, 2} {
					a, sess := newAdapter(w)
					if w == 2 {
						sess.SetValue(gatewaytypes.SessionValueProtocolName, gwjsonrpc.Name)
					}
					b, aerr := a.Encode(sess, f, session.OutboundMeta{ReplyToken: id})
					if aerr != nil || !bytes.Equal(b, doc) {
						obs[fmt.Sprintf("adapter%d", w)] = fmt.Sprintf("%v %s", aerr, b)
						wireSame = false
					}
				}
				dm, _, derr := jsonrpc.Decode(json.NewDecoder(bytes.NewReader(doc)))
				dec = outcomeTerm(dm, derr)
				class += fmt.Sprintf(",decode_err=%d", eclass(derr))
				obs["doc"], obs["decode_err"] = string(doc), eclass(derr)
			}
		}
		obs["wire_same"] = wireSame
		term = vh.App("OpOut", litS(id), frameTerm(f), msg, vh.B(wireSame), dec)

	case "doc":
		doc := op.Doc.b()
		var probe jsonrpc.Probe
		perr := json.NewDecoder(bytes.NewReader(doc)).Decode(&probe)
		m, _, err := jsonrpc.Decode(json.NewDecoder(bytes.NewReader(doc)))
		xor := (m == nil) != (err == nil)
		if perr != nil {
			class = "doc:syntax"
			obs["err"] = fmt.Sprint(err)
			term = vh.App("OpSyntax", vh.B(m == nil && err != nil))
			break
		}
		tok := vh.None()
		if err == nil {
			if f2, t, terr := jsonrpc.ToFrame(m); terr == nil && f2 != nil {
				tok = vh.Some(litS(t))
			}
		}
		mt, _, dmtErr := jsonrpc.VerifDetermineMessageType(&probe)
		dmt := vh.App("inl", vh.N(uint64(mt)))
		if dmtErr != nil {
			dmt = vh.App("inr", vh.N(eclass(dmtErr)))
		}
		eok := probe.Error == nil || json.Unmarshal(probe.Error, &jsonrpc.ErrorObject{}) == nil
		k, _ := kindOf(m)
		class = fmt.Sprintf("doc:err=%d,kind=%d", eclass(err), k)
		if err != nil {
			class = fmt.Sprintf("doc:err=%d", eclass(err))
		}
		obs["err"], obs["xor"] = eclass(err), xor
		term = vh.App("OpDecode",
			vh.App("Probe", rawClass(probe.Jsonrpc), rawClass(probe.ID), litS(probe.Method), rawClass(probe.Params), rawClass(probe.Result), rawClass(probe.Error)),
			vh.App("JBits", vh.B(paramsOK(probe.Method, probe.Params)), vh.B(eok)), dmt, outcomeTerm(m, err), vh.B(xor), tok)

	default:
		panic("unknown op kind " + op.K)
	}
	return
}

// validStrings: every string field of the frame is valid UTF-8 (Event data included: it is sent as a JSON string).
func validStrings(f frame.Frame) bool {
	ok := func(ss ...string) bool {
		for _, s := range ss {
			if !utf8.ValidString(s) {
				return false
			}
		}
		return true
	}
	switch p := f.(type) {
	case *frame.ConnackPacket:
		return ok(p.ServerKey, p.Salt)
	case *frame.RecvPacket:
		return ok(p.MsgKey, p.ClientMsgNo, p.StreamNo, p.ChannelID, p.Topic, p.FromUID)
	case *frame.EventPacket:
		return ok(p.Id, p.Type, string(p.Data))
	case *frame.DisconnectPacket:
		return ok(p.Reason)
	}
	return true
}

func run(in input) vh.Result {
	terms := make([]string, 0, len(in.Ops))
	obsAll := make([]map[string]any, 0, len(in.Ops))
	first := ""
	for _, op := range in.Ops {
		t, obs, class := runOp(op)
		terms = append(terms, t)
		obsAll = append(obsAll, obs)
		if first == "" {
			first = class
		}
	}
	return vh.Result{Coq: vh.App("C24Case", vh.List(terms)), Obs: obsAll, Class: first, Trivial: len(in.Ops) == 0}
}

// ---- constants ------------------------------------------------------------------------------------------

func coqBytes(s string) string {
	parts := make([]string, len(s))
	for i := 0; i < len(s); i++ {
		parts[i] = fmt.Sprint(s[i])
	}
	return "[" + strings.Join(parts, "; ") + "]"
}

func emitConsts(w io.Writer) {
	fmt.Fprintln(w, "(* GENERATED by harness/cmd/C24 -emit-consts from the compiled /repo tree. Do not edit. *)")
	fmt.Fprintln(w, "From Coq Require Import List NArith. Import ListNotations. Open Scope N_scope.")
	fmt.Fprintln(w, "(* pkg/protocol/jsonrpc: version string and method names (byte strings) *)")
	fmt.Fprintf(w, "Definition jsonRPCVersion : list N := %s.\n", coqBytes(jsonrpc.VerifJSONRPCVersion()))
	for _, c := range []struct{ n, v string }{
		{"MethodConnect", jsonrpc.MethodConnect}, {"MethodSend", jsonrpc.MethodSend}, {"MethodRecvAck", jsonrpc.MethodRecvAck},
		{"MethodSubscribe", jsonrpc.MethodSubscribe}, {"MethodUnsubscribe", jsonrpc.MethodUnsubscribe}, {"MethodPing", jsonrpc.MethodPing},
		{"MethodPong", jsonrpc.MethodPong}, {"MethodDisconnect", jsonrpc.MethodDisconnect}, {"MethodRecv", jsonrpc.MethodRecv},
		{"MethodEvent", jsonrpc.MethodEvent}} {
		fmt.Fprintf(w, "Definition %s : list N := %s. (* %q *)\n", c.n, coqBytes(c.v), c.v)
	}
	fmt.Fprintln(w, "(* pkg/protocol/frame: Setting bits the bridge maps, protocol version *)")
	fmt.Fprintf(w, "Definition SettingReceiptEnabled : N := %d.\n", frame.SettingReceiptEnabled)
	fmt.Fprintf(w, "Definition SettingSignal : N := %d.\n", frame.SettingSignal)
	fmt.Fprintf(w, "Definition SettingStream : N := %d.\n", frame.SettingStream)
	fmt.Fprintf(w, "Definition SettingTopic : N := %d.\n", frame.SettingTopic)
	fmt.Fprintf(w, "Definition LatestVersion : N := %d.\n", frame.LatestVersion)
	rq, rs, nt := jsonrpc.VerifMsgTypes()
	fmt.Fprintln(w, "(* msgTypeRequest, msgTypeResponse, msgTypeNotification *)")
	fmt.Fprintf(w, "Definition MsgTypeRequest : N := %d.\nDefinition MsgTypeResponse : N := %d.\nDefinition MsgTypeNotification : N := %d.\n", rq, rs, nt)
}

func main() {
	vh.Main(vh.Harness[input]{EmitConsts: emitConsts, Gen: gen, Run: run})
}
