// Harness for C09: storage mutations of pkg/db/message are crash-atomic.
//
// One case = one history of mutations (typed Append / ApplyFetch with
// checkpoint and epoch point / TruncateFrom / TrimPrefixThroughLimit /
// StoreCheckpoint, compatibility appends through the commit coordinator,
// multi-channel StoreAppendBatch, compat Truncate, the paged compat
// DiscardForRestore, reopen) run on a Pebble
// database that lives on Pebble's crash-simulating in-memory file system
// (vfs.NewCrashableMem, injected through the verif-only seam
// engine.VerifOpenFS).  An errorfs hook in front of every file-system write
// operation (file write, sync, create, rename, remove, ...) takes CRASH CLONES of
// the file system: what survives a power loss at that instant with 0 % / 50 % /
// 100 % of the unsynced data (100 % = process kill).  A clone is also taken, with
// 0 % unsynced data, right after every mutation has returned.  Every clone is
// recovered with the production open path and its physical keys and per-channel
// LEO are reported together with the window [lo, hi] of history prefixes that
// were possible at that instant (lo = ops already returned).  Coq then checks
// that the recovered store IS the model's store after one of those prefixes
// (correspondence) and, on the implementation alone, that it is a whole
// prefix of the plain sequential logs with consistent indexes (monitor).
package main

import (
	"encoding/json"
	"fmt"
	"io"
	"math/rand/v2"
	mrand "math/rand/v2"
	"sort"
	"sync"
	"sync/atomic"

	"github.com/WuKongIM/WuKongIM/internal/verifh/vh"
	msgh "github.com/WuKongIM/WuKongIM/pkg/db/verifh_msgstore"
	"github.com/cockroachdb/pebble/v2/vfs"
	"github.com/cockroachdb/pebble/v2/vfs/errorfs"
)

type input struct {
	Ops       []msgh.Op `json:"ops"`
	CrashSeed uint64    `json:"crash_seed"`
	Budget    int       `json:"budget"` // sampled in-flight crash points (boundary points are always taken)
	// QuietUntil: no crash clones before this op index (the > 1024-row script: the
	// interesting window is the paged discard, earlier images would be huge).
	QuietUntil int `json:"quiet_until,omitempty"`
	// Dense: during op QuietUntil (one truncation call over > 1024 rows) a power-loss
	// and a process-kill clone are taken at EVERY file-system write event: a call the
	// model commits in one batch must never show a store between before and after.
	Dense bool `json:"dense,omitempty"`
}

func gen(r *rand.Rand, tier string, i int) input {
	p := msgh.Profile{MinOps: 6, MaxOps: 22, Collide: 0.1, MutWeight: 88, BatchRate: 0.15, SaneCheckpoints: true,
		DiscardRate: 0.07, BigDiscard: 0.03, BigTrunc: 0.04}
	budget := 14
	if tier == "thorough" {
		p.MaxOps = 50
		budget = 40
		p.BigDiscard = 0.01
		p.BigTrunc = 0.015
	}
	h := msgh.GenHistory(r, p)
	in := input{Ops: h.Ops, CrashSeed: r.Uint64(), Budget: budget}
	if len(h.Ops) > 0 && len(h.Ops[0].Recs) >= 300 {
		for i, op := range h.Ops {
			if op.K == "discard" || op.K == "ctrunc" || op.K == "trunc" {
				in.QuietUntil = i
				in.Dense = op.K != "discard"
				break
			}
		}
	}
	return in
}

type label struct {
	Lo, Hi, Pct uint64
}

type snap struct {
	label
	fs *vfs.MemFS
}

type recorder struct {
	mem      *vfs.MemFS
	mu       sync.Mutex
	rng      *mrand.Rand
	armed    atomic.Bool
	done     atomic.Uint64
	inflight atomic.Bool
	budget   int
	dense    atomic.Bool
	denseN   int
	events   int
	snaps    []snap
	kinds    map[string]int
}

func (rc *recorder) take(pct int) {
	// caller holds rc.mu
	lo := rc.done.Load()
	hi := lo
	if rc.inflight.Load() {
		hi++
	}
	cfg := vfs.CrashCloneCfg{UnsyncedDataPercent: pct}
	if pct > 0 {
		cfg.RNG = mrand.New(mrand.NewPCG(rc.rng.Uint64(), 7))
	}
	rc.snaps = append(rc.snaps, snap{label{lo, hi, uint64(pct)}, rc.mem.CrashClone(cfg)})
}

func (rc *recorder) hook(op errorfs.Op) error {
	if !rc.armed.Load() || op.Kind.ReadOrWrite() != errorfs.OpIsWrite || op.Kind == errorfs.OpFileClose {
		return nil
	}
	rc.mu.Lock()
	defer rc.mu.Unlock()
	rc.events++
	rc.kinds[fmt.Sprintf("kind%d", int(op.Kind))]++
	if rc.dense.Load() && rc.denseN < 120 {
		rc.denseN++
		rc.take(0)
		rc.take(100)
		return nil
	}
	if rc.budget > 0 && rc.rng.IntN(4) == 0 {
		rc.budget--
		rc.take([]int{0, 0, 50, 100}[rc.rng.IntN(4)])
	}
	return nil
}

type crashObs struct {
	Labels []label      `json:"labels"`
	Leos   []uint64     `json:"leos"`
	KV     []msgh.KVEnt `json:"kv"`
}

func run(in input) vh.Result {
	mem := vfs.NewCrashableMem()
	rc := &recorder{mem: mem, rng: mrand.New(mrand.NewPCG(in.CrashSeed, 99)), budget: in.Budget, kinds: map[string]int{}}
	fs := errorfs.Wrap(mem, errorfs.InjectorFunc(rc.hook))
	e := msgh.NewEnvOnFS(fs)
	e.NoDumps = true
	// DiscardForRestore polls its context between two of its batches (before every
	// page read): a process-kill image (100 %) and a power-loss image (0 %) are
	// taken at EVERY such poll, so each state between pages / before the terminal
	// partition delete is observed.
	// The context is polled far more often than between batches (every few rows of a
	// page read): a pair of clones is taken only when the file system was written to
	// since the previous pair, i.e. once per committed page.
	polls, lastEvents := 0, -1
	e.Poll = func() {
		if !rc.armed.Load() || !rc.inflight.Load() {
			return
		}
		rc.mu.Lock()
		defer rc.mu.Unlock()
		if polls < 40 && rc.events != lastEvents {
			lastEvents = rc.events
			polls++
			rc.take(100)
			rc.take(0)
		}
	}
	rc.armed.Store(in.QuietUntil == 0)
	steps := make([]msgh.Step, len(in.Ops))
	for i, op := range in.Ops {
		if i == in.QuietUntil {
			rc.armed.Store(true)
		}
		rc.inflight.Store(true)
		rc.dense.Store(in.Dense && i == in.QuietUntil)
		out, dumps := e.Exec(op)
		rc.mu.Lock()
		rc.dense.Store(false)
		rc.done.Add(1)
		rc.inflight.Store(false)
		if rc.armed.Load() && (msgh.IsMutation(op.K) || op.K == "reopen") {
			rc.take(0) // the mutation has returned: it must survive a power loss now
		}
		rc.mu.Unlock()
		steps[i] = msgh.Step{Out: out, Dumps: dumps}
	}
	rc.armed.Store(false)
	finalKV := e.FinalKV()
	e.Close()

	// recover every clone; group identical recovered states
	groups := map[string]*crashObs{}
	var order []string
	unrecoverable := 0
	for _, s := range rc.snaps {
		kv, leos, err := e.RecoverFS(s.fs)
		if err != nil {
			if s.Pct > 0 && s.Pct < 100 {
				// A random subset of unsynced DIRECTORY entries survived.  Pebble creates a new
				// MANIFEST and moves its marker file with one directory sync at the end, so
				// "marker entry persisted, manifest entry not" makes Pebble itself refuse to
				// open.  That is Pebble's crash protocol (trusted base), not a property of
				// pkg/db/message: the clone is counted and skipped.  Clones with exactly the
				// synced state (0 %) or the complete state (100 %) must always recover.
				unrecoverable++
				continue
			}
			panic(fmt.Sprintf("recovery of a crash clone (lo=%d hi=%d pct=%d) failed: %v", s.Lo, s.Hi, s.Pct, err))
		}
		keyb, _ := json.Marshal(struct {
			K []msgh.KVEnt
			L []uint64
		}{kv, leos})
		g := groups[string(keyb)]
		if g == nil {
			g = &crashObs{Leos: leos, KV: kv}
			groups[string(keyb)] = g
			order = append(order, string(keyb))
		}
		dup := false
		for _, l := range g.Labels {
			if l == s.label {
				dup = true
			}
		}
		if !dup {
			g.Labels = append(g.Labels, s.label)
		}
	}
	crashes := make([]crashObs, 0, len(order))
	for _, k := range order {
		crashes = append(crashes, *groups[k])
	}

	hin := msgh.Input{Ops: in.Ops, Compact: true}
	coqCr := vh.ListOf(crashes, func(c crashObs) string {
		return vh.App("Cr", vh.ListOf(c.Labels, func(l label) string {
			return "(" + vh.N(l.Lo) + ", " + vh.N(l.Hi) + ", " + vh.N(l.Pct) + ")"
		}), vh.NList(c.Leos), vh.ListOf(c.KV, msgh.CoqKV))
	})
	kinds := make([]string, 0, len(rc.kinds))
	for k := range rc.kinds {
		kinds = append(kinds, k)
	}
	sort.Strings(kinds)
	inflightPts, lossy := 0, 0
	for _, s := range rc.snaps {
		if s.Hi > s.Lo {
			inflightPts++
		}
		if s.Pct < 100 {
			lossy++
		}
	}
	return vh.Result{
		Coq: vh.App("C09Case", msgh.CoqCase("C07Case", hin, steps, finalKV), coqCr),
		Obs: map[string]any{"steps": steps, "crashes": crashes, "fs_write_events": rc.events, "event_kinds": rc.kinds, "pebble_unopenable_partial_dir_clones": unrecoverable},
		Class: fmt.Sprintf("ops<%d0,crashpts=%s,inflight=%s,states=%s%s", len(in.Ops)/10+1,
			bucket(len(rc.snaps)), bucket(inflightPts), bucket(len(crashes)), discardClass(in, polls)),
		Trivial: len(rc.snaps) == 0,
	}
}

// discardClass: does the history discard a channel (paged DiscardForRestore), how
// many between-batch polls were cloned, and is it the > 1024-row (two pages) script?
func discardClass(in input, polls int) string {
	n, rows := 0, 0
	for _, op := range in.Ops {
		if op.K == "discard" {
			n++
		}
		if op.K == "append" && len(op.Recs) > rows {
			rows = len(op.Recs)
		}
	}
	switch {
	case n == 0 && in.Dense:
		return ",bigtrunc"
	case n == 0:
		return ""
	case rows >= 300:
		return fmt.Sprintf(",discard=multipage,polls=%s", bucket(polls))
	default:
		return fmt.Sprintf(",discard=%s,polls=%s", bucket(n), bucket(polls))
	}
}

func bucket(n int) string {
	switch {
	case n == 0:
		return "0"
	case n < 5:
		return "1-4"
	case n < 15:
		return "5-14"
	case n < 30:
		return "15-29"
	default:
		return "30+"
	}
}

func emitConsts(w io.Writer) { msgh.EmitConsts(w, "C09") }

func main() {
	vh.Main(vh.Harness[input]{EmitConsts: emitConsts, Gen: gen, Run: run})
}
