// Harness for C16: per-user conversation cursors are monotonic.
//
// Three streams of cases:
//   - "resolve": the exported pure resolvers resolveUserChannelMembership and
//     resolveEnsuredUserChannelMembership on one (existing, exists, incoming) triple;
//   - "resolvecmd": resolveUserCMDChannelMembership likewise;
//   - "history": a sequence of public meta.Shard / meta.WriteBatch operations on
//     UserChannelMembership and UserCMDChannelMembership rows (upsert, ensure,
//     read advance, activate, hide, delete, CMD upsert / ack / tombstone, write
//     batches of those, and complete paginated directory passes with arbitrary
//     page sizes interleaved with mutations of other users) on a fresh
//     Pebble-backed DB in a temporary directory.  After every operation every
//     row of the history's key alphabets is read back.
package main

import (
	"context"
	"errors"
	"fmt"
	"io"
	"math/rand/v2"
	"os"
	"sort"
	"strings"

	"github.com/WuKongIM/WuKongIM/internal/verifh/vh"
	"github.com/WuKongIM/WuKongIM/pkg/db/meta"
	"github.com/WuKongIM/WuKongIM/pkg/wklog"
)

// ---- JSON input --------------------------------------------------------------------

type memJ struct {
	UID    string `json:"uid"`
	Ch     string `json:"ch"`
	Ty     int64  `json:"ty"`
	Join   uint64 `json:"join"`
	Read   uint64 `json:"read"`
	Del    uint64 `json:"del"`
	Act    int64  `json:"act"`
	Tomb   bool   `json:"tomb"`
	TombAt int64  `json:"tombat"`
	SV     uint64 `json:"sv"`
	Upd    int64  `json:"upd"`
}

type cmdJ struct {
	UID    string `json:"uid"`
	Ch     string `json:"ch"`
	Ty     int64  `json:"ty"`
	Start  uint64 `json:"start"`
	Ack    uint64 `json:"ack"`
	Tomb   bool   `json:"tomb"`
	TombAt int64  `json:"tombat"`
	Upd    int64  `json:"upd"`
}

type keyJ struct {
	Slot uint16 `json:"slot"`
	UID  string `json:"uid"`
	Ch   string `json:"ch"`
	Ty   int64  `json:"ty"`
}

// mutJ kinds: upsert ensure (Slot, M) | read (Key, U=readSeq, Upd) | setact activate (Key, A, Upd)
// | hide (Key, U=deletedToSeq, Upd) | delete (Key) | cupsert cack_b ctomb_b (Slot, C)
// | cack_s (Key, U=ackSeq, Upd) | ctomb_s (Key, A=tombstoneAt)
type mutJ struct {
	K    string `json:"k"`
	Slot uint16 `json:"slot,omitempty"`
	M    *memJ  `json:"m,omitempty"`
	C    *cmdJ  `json:"c,omitempty"`
	Key  *keyJ  `json:"key,omitempty"`
	U    uint64 `json:"u,omitempty"`
	A    int64  `json:"a,omitempty"`
	Upd  int64  `json:"upd,omitempty"`
}

// opJ kinds: direct (U) | batch (B) | scan (Slot, UID, Limits, Between)
type opJ struct {
	K       string  `json:"k"`
	U       *mutJ   `json:"u,omitempty"`
	B       []mutJ  `json:"b,omitempty"`
	Slot    uint16  `json:"slot,omitempty"`
	UID     string  `json:"uid,omitempty"`
	Limits  []int64 `json:"limits,omitempty"`
	Between []mutJ  `json:"between,omitempty"`
}

type input struct {
	Kind string `json:"kind"` // resolve | resolvecmd | history
	// resolve
	Existing *memJ `json:"existing,omitempty"`
	Exists   bool  `json:"exists,omitempty"`
	Incoming *memJ `json:"incoming,omitempty"`
	// resolvecmd
	CExisting *cmdJ `json:"cexisting,omitempty"`
	CIncoming *cmdJ `json:"cincoming,omitempty"`
	// history
	Ops []opJ `json:"ops,omitempty"`
}

func (m memJ) real() meta.UserChannelMembership {
	return meta.UserChannelMembership{UID: m.UID, ChannelID: m.Ch, ChannelType: m.Ty, JoinSeq: m.Join, ReadSeq: m.Read,
		DeletedToSeq: m.Del, ActivatedAt: m.Act, Tombstone: m.Tomb, TombstoneAt: m.TombAt, SourceVersion: m.SV, UpdatedAt: m.Upd}
}

func (c cmdJ) real() meta.UserCMDChannelMembership {
	return meta.UserCMDChannelMembership{UID: c.UID, CommandChannelID: c.Ch, ChannelType: c.Ty, StartSeq: c.Start, AckSeq: c.Ack,
		Tombstone: c.Tomb, TombstoneAt: c.TombAt, UpdatedAt: c.Upd}
}

func (k keyJ) ck() meta.ChannelKey { return meta.ChannelKey{ChannelID: k.Ch, ChannelType: k.Ty} }

// ---- Coq printers ----------------------------------------------------------------------

func coqMem(m meta.UserChannelMembership) string {
	return vh.App("Membership", vh.HexS(m.UID), vh.HexS(m.ChannelID), vh.Z(m.ChannelType), vh.N(m.JoinSeq), vh.N(m.ReadSeq),
		vh.N(m.DeletedToSeq), vh.Z(m.ActivatedAt), vh.B(m.Tombstone), vh.Z(m.TombstoneAt), vh.N(m.SourceVersion), vh.Z(m.UpdatedAt))
}

func coqCmd(c meta.UserCMDChannelMembership) string {
	return vh.App("CmdMembership", vh.HexS(c.UID), vh.HexS(c.CommandChannelID), vh.Z(c.ChannelType), vh.N(c.StartSeq), vh.N(c.AckSeq),
		vh.B(c.Tombstone), vh.Z(c.TombstoneAt), vh.Z(c.UpdatedAt))
}

func coqKey(k keyJ) string {
	return vh.App("MKey", vh.N(uint64(k.Slot)), vh.HexS(k.UID), vh.HexS(k.Ch), vh.Z(k.Ty))
}

func coqMut(u mutJ) string {
	switch u.K {
	case "upsert":
		return vh.App("MUpsert", vh.N(uint64(u.Slot)), coqMem(u.M.real()))
	case "ensure":
		return vh.App("MEnsure", vh.N(uint64(u.Slot)), coqMem(u.M.real()))
	case "read":
		return vh.App("MAdvanceRead", coqKey(*u.Key), vh.N(u.U), vh.Z(u.Upd))
	case "setact":
		return vh.App("MSetActivated", coqKey(*u.Key), vh.Z(u.A), vh.Z(u.Upd))
	case "activate":
		return vh.App("MActivate", coqKey(*u.Key), vh.Z(u.A), vh.Z(u.Upd))
	case "hide":
		return vh.App("MHide", coqKey(*u.Key), vh.N(u.U), vh.Z(u.Upd))
	case "delete":
		return vh.App("MDelete", coqKey(*u.Key))
	case "cupsert":
		return vh.App("MCmdUpsert", vh.N(uint64(u.Slot)), coqCmd(u.C.real()))
	case "cack_s":
		return vh.App("MCmdAdvanceShard", coqKey(*u.Key), vh.N(u.U), vh.Z(u.Upd))
	case "cack_b":
		return vh.App("MCmdAdvanceBatch", vh.N(uint64(u.Slot)), coqCmd(u.C.real()))
	case "ctomb_s":
		return vh.App("MCmdTombstoneShard", coqKey(*u.Key), vh.Z(u.A))
	case "ctomb_b":
		return vh.App("MCmdTombstoneBatch", vh.N(uint64(u.Slot)), coqCmd(u.C.real()))
	}
	panic("bad mutation kind " + u.K)
}

func coqCursor(c meta.UserChannelMembershipCursor) string {
	return vh.App("PageCursor", vh.Z(c.ActivatedAt), vh.HexS(c.ChannelID), vh.Z(c.ChannelType))
}

func errClass(err error) string {
	switch {
	case err == nil:
		return "ENone"
	case errors.Is(err, meta.ErrInvalidArgument):
		return "EInvalidArgument"
	case errors.Is(err, meta.ErrNotFound):
		return "ENotFound"
	case errors.Is(err, meta.ErrAlreadyExists):
		return "EAlreadyExists"
	case errors.Is(err, meta.ErrStaleMeta):
		return "EConflict"
	default:
		return "EOther"
	}
}

// ---- generator ------------------------------------------------------------------------------

var memPool = []keyJ{{5, "u1", "a", 2}, {5, "u1", "b", 2}, {5, "u1", "ab", 2}, {5, "u1", "a", 1}, {5, "u1", "ba", 2},
	{5, "u2", "a", 2}, {5, "u2", "c", 2}, {9, "u1", "a", 2}}
var cmdPool = []keyJ{{5, "u1", "k1", 1}, {5, "u2", "k1", 1}, {5, "u1", "k2", 1}}

func seqv(r *rand.Rand) uint64 { return vh.Pick(r, uint64(0), 3, 5, 8, 10, 12, 20, 30) }
func actv(r *rand.Rand) int64  { return vh.Pick(r, int64(0), 0, 10, 20, 20, 30, 40) }
func updv(r *rand.Rand) int64 {
	if vh.Chance(r, 0.02) {
		return -1
	}
	return vh.Pick(r, int64(0), 100, 200, 300, 400, 500)
}

func genMem(r *rand.Rand, k keyJ) memJ {
	m := memJ{UID: k.UID, Ch: k.Ch, Ty: k.Ty, Join: seqv(r), Read: seqv(r), Del: seqv(r), Act: actv(r), SV: uint64(r.IntN(4)), Upd: updv(r)}
	if vh.Chance(r, 0.2) {
		m.Tomb, m.TombAt = true, vh.Pick(r, int64(50), 150, 250)
	}
	return m
}

func genCmd(r *rand.Rand, k keyJ) cmdJ {
	c := cmdJ{UID: k.UID, Ch: k.Ch, Ty: k.Ty, Start: seqv(r), Ack: seqv(r), Upd: updv(r)}
	if vh.Chance(r, 0.2) {
		c.Tomb, c.TombAt = true, vh.Pick(r, int64(50), 150, 250)
	}
	if vh.Chance(r, 0.02) {
		c.TombAt = -1
	}
	return c
}

// the generator's picture of a row (only what it needs to aim follow-up ops)
type shadowRow struct {
	sv   uint64
	tomb bool
}

type genState struct {
	r     *rand.Rand
	mkeys []keyJ
	ckeys []keyJ
	rows  map[keyJ]*shadowRow
	cmds  map[keyJ]*shadowRow
}

// memKey / cmdKey prefer keys whose row the generator believes to exist.
func (g *genState) memKey() keyJ {
	for i := 0; i < 6; i++ {
		k := g.mkeys[g.r.IntN(len(g.mkeys))]
		if g.rows[k] != nil || vh.Chance(g.r, 0.08) {
			return k
		}
	}
	return g.mkeys[g.r.IntN(len(g.mkeys))]
}
func (g *genState) cmdKey() keyJ {
	for i := 0; i < 6; i++ {
		k := g.ckeys[g.r.IntN(len(g.ckeys))]
		if g.cmds[k] != nil || vh.Chance(g.r, 0.08) {
			return k
		}
	}
	return g.ckeys[g.r.IntN(len(g.ckeys))]
}

// create draws a row-creating mutation for k.
func (g *genState) create(k keyJ) mutJ {
	m := genMem(g.r, k)
	if vh.Chance(g.r, 0.8) {
		m.Tomb, m.TombAt = false, 0
	}
	g.rows[k] = &shadowRow{sv: m.SV, tomb: m.Tomb}
	if !m.Tomb && vh.Chance(g.r, 0.3) {
		return mutJ{K: "ensure", Slot: k.Slot, M: &m}
	}
	return mutJ{K: "upsert", Slot: k.Slot, M: &m}
}

// genMut draws one mutation; batch selects the Batch-only / Shard-only variants.
func (g *genState) genMut(batch bool, keyFilter func(keyJ) bool) mutJ {
	r := g.r
	pick := func(pool func() keyJ) keyJ {
		for i := 0; i < 20; i++ {
			k := pool()
			if keyFilter == nil || keyFilter(k) {
				return k
			}
		}
		return pool()
	}
	badKey := func(k keyJ) keyJ {
		if vh.Chance(r, 0.02) {
			if vh.Chance(r, 0.5) {
				k.UID = ""
			} else {
				k.Ch = ""
			}
		}
		return k
	}
	switch x := r.IntN(100); {
	case x < 26: // upsert
		k := pick(g.memKey)
		m := genMem(r, k)
		sh := g.rows[k]
		if sh != nil {
			switch y := r.IntN(10); {
			case y < 4: // newer source version
				m.SV = sh.sv + 1
			case y < 6: // same source version (replay / reactivation)
				m.SV = sh.sv
			case y < 7 && sh.sv > 0: // older
				m.SV = sh.sv - 1
			}
			if sh.tomb && vh.Chance(r, 0.6) {
				m.Tomb, m.TombAt = false, 0 // rejoin
			}
		}
		kk := badKey(k)
		m.UID, m.Ch = kk.UID, kk.Ch
		if sh == nil {
			g.rows[k] = &shadowRow{sv: m.SV, tomb: m.Tomb}
		} else if m.SV > sh.sv {
			sh.sv = m.SV
			sh.tomb = m.Tomb
		} else if m.SV == sh.sv && sh.tomb && !m.Tomb {
			sh.tomb = false
		}
		return mutJ{K: "upsert", Slot: k.Slot, M: &m}
	case x < 38: // ensure
		k := pick(g.memKey)
		m := genMem(r, k)
		m.Tomb, m.TombAt = false, 0
		if sh := g.rows[k]; sh != nil {
			switch y := r.IntN(10); {
			case y < 5:
				m.SV = sh.sv + 1
				sh.sv = m.SV
			case y < 8:
				m.SV = sh.sv
			}
		} else {
			g.rows[k] = &shadowRow{sv: m.SV}
		}
		return mutJ{K: "ensure", Slot: k.Slot, M: &m}
	case x < 52:
		k := badKey(pick(g.memKey))
		return mutJ{K: "read", Key: &k, U: seqv(r), Upd: updv(r)}
	case x < 64:
		k := badKey(pick(g.memKey))
		a := actv(r)
		if vh.Chance(r, 0.03) {
			a = -1
		}
		if batch {
			return mutJ{K: "activate", Key: &k, A: a, Upd: updv(r)}
		}
		return mutJ{K: "setact", Key: &k, A: a, Upd: updv(r)}
	case x < 72:
		k := badKey(pick(g.memKey))
		return mutJ{K: "hide", Key: &k, U: seqv(r), Upd: updv(r)}
	case x < 77:
		k := pick(g.memKey)
		delete(g.rows, k)
		kk := badKey(k)
		return mutJ{K: "delete", Key: &kk}
	case x < 86: // CMD upsert
		k := pick(g.cmdKey)
		c := genCmd(r, k)
		sh := g.cmds[k]
		if sh != nil && sh.tomb && vh.Chance(r, 0.6) {
			c.Tomb, c.TombAt = false, 0 // rebind
		}
		if sh == nil {
			g.cmds[k] = &shadowRow{tomb: c.Tomb}
		} else if sh.tomb && !c.Tomb {
			sh.tomb = false
		}
		return mutJ{K: "cupsert", Slot: k.Slot, C: &c}
	case x < 94: // CMD ack
		k := pick(g.cmdKey)
		if batch {
			c := cmdJ{UID: k.UID, Ch: k.Ch, Ty: k.Ty, Ack: seqv(r), Upd: updv(r)}
			return mutJ{K: "cack_b", Slot: k.Slot, C: &c}
		}
		kk := badKey(k)
		return mutJ{K: "cack_s", Key: &kk, U: seqv(r), Upd: updv(r)}
	default: // CMD tombstone
		k := pick(g.cmdKey)
		if sh := g.cmds[k]; sh != nil {
			sh.tomb = true
		}
		if batch {
			c := cmdJ{UID: k.UID, Ch: k.Ch, Ty: k.Ty, TombAt: vh.Pick(r, int64(50), 150, 250), Upd: updv(r)}
			return mutJ{K: "ctomb_b", Slot: k.Slot, C: &c}
		}
		return mutJ{K: "ctomb_s", Key: &k, A: vh.Pick(r, int64(50), 150, 250)}
	}
}

func genHistory(r *rand.Rand, tier string) input {
	maxOps := 18
	if tier == "thorough" {
		maxOps = 50
	}
	g := &genState{r: r, rows: map[keyJ]*shadowRow{}, cmds: map[keyJ]*shadowRow{}}
	// 3..5 membership keys (the first four pool entries are u1 in slot 5, so passes see several rows)
	perm := r.Perm(len(memPool))
	nk := 3 + r.IntN(3)
	for _, i := range perm[:nk] {
		g.mkeys = append(g.mkeys, memPool[i])
	}
	if vh.Chance(r, 0.7) {
		g.mkeys = append(g.mkeys, memPool[0], memPool[1], memPool[2])
	}
	g.ckeys = append(g.ckeys, cmdPool[r.IntN(len(cmdPool))])
	if vh.Chance(r, 0.4) {
		g.ckeys = append(g.ckeys, cmdPool[r.IntN(len(cmdPool))])
	}
	n := 5 + r.IntN(maxOps-4)
	var ops []opJ
	// setup: most rows of the alphabet exist before the random part starts
	var setup []mutJ
	seen := map[keyJ]bool{}
	for _, k := range g.mkeys {
		if !seen[k] && vh.Chance(r, 0.85) {
			setup = append(setup, g.create(k))
		}
		seen[k] = true
	}
	for _, k := range g.ckeys {
		if g.cmds[k] == nil && vh.Chance(r, 0.8) {
			c := genCmd(r, k)
			c.Tomb, c.TombAt = false, 0
			g.cmds[k] = &shadowRow{}
			setup = append(setup, mutJ{K: "cupsert", Slot: k.Slot, C: &c})
		}
	}
	if vh.Chance(r, 0.5) {
		ops = append(ops, opJ{K: "batch", B: setup})
	} else {
		for i := range setup {
			ops = append(ops, opJ{K: "direct", U: &setup[i]})
		}
	}
	n += len(ops)
	for len(ops) < n {
		switch x := r.IntN(20); {
		case x < 10:
			u := g.genMut(false, nil)
			ops = append(ops, opJ{K: "direct", U: &u})
		case x < 16:
			var b []mutJ
			for m := 1 + r.IntN(4); m > 0; m-- {
				b = append(b, g.genMut(true, nil))
			}
			ops = append(ops, opJ{K: "batch", B: b})
		default:
			uid, slot := "u1", uint16(5)
			if vh.Chance(r, 0.2) {
				uid = "u2"
			}
			if vh.Chance(r, 0.1) {
				slot = 9
			}
			if vh.Chance(r, 0.02) {
				uid = ""
			}
			var limits []int64
			for m := 1 + r.IntN(3); m > 0; m-- {
				limits = append(limits, vh.Pick(r, int64(1), 1, 1, 2, 2, 3, 5))
			}
			if vh.Chance(r, 0.03) {
				limits = []int64{vh.Pick(r, int64(0), -1)}
			}
			var between []mutJ
			for m := r.IntN(4); m > 0; m-- {
				filter := func(k keyJ) bool { return k.UID != uid }
				if vh.Chance(r, 0.1) {
					filter = nil // may touch the scanned user's rows: the listing check is skipped
				}
				between = append(between, g.genMut(false, filter))
			}
			ops = append(ops, opJ{K: "scan", Slot: slot, UID: uid, Limits: limits, Between: between})
		}
	}
	return input{Kind: "history", Ops: ops}
}

func genResolve(r *rand.Rand) input {
	k := memPool[r.IntN(len(memPool))]
	ex, in := genMem(r, k), genMem(r, k)
	switch r.IntN(4) {
	case 0:
		in.SV = ex.SV
	case 1:
		in.SV = ex.SV + 1
	}
	return input{Kind: "resolve", Existing: &ex, Exists: !vh.Chance(r, 0.08), Incoming: &in}
}

func genResolveCmd(r *rand.Rand) input {
	k := cmdPool[r.IntN(len(cmdPool))]
	ex, in := genCmd(r, k), genCmd(r, k)
	return input{Kind: "resolvecmd", CExisting: &ex, Exists: !vh.Chance(r, 0.08), CIncoming: &in}
}

func gen(r *rand.Rand, tier string, i int) input {
	switch i % 5 {
	case 0:
		return genHistory(r, tier)
	case 1:
		return genResolveCmd(r)
	default:
		return genResolve(r)
	}
}

// ---- running the implementation ------------------------------------------------------------------

func runResolve(in input) vh.Result {
	ex, inc := in.Existing.real(), in.Incoming.real()
	if !in.Exists {
		ex = meta.UserChannelMembership{}
	}
	u := meta.VerifResolveUserChannelMembership(ex, in.Exists, inc)
	e := meta.VerifResolveEnsuredUserChannelMembership(ex, in.Exists, inc)
	class := "resolve:"
	switch {
	case !in.Exists:
		class += "absent"
	case inc.SourceVersion < ex.SourceVersion:
		class += "older"
	case inc.SourceVersion == ex.SourceVersion:
		class += "same"
	default:
		class += "newer"
	}
	if in.Exists {
		if ex.Tombstone {
			class += ",stored-tombstone"
		}
		if inc.Tombstone {
			class += ",incoming-tombstone"
		}
		if u.ReadSeq < ex.ReadSeq || u.DeletedToSeq < ex.DeletedToSeq {
			class += ",upsert-recreates"
		}
		if e.ReadSeq < ex.ReadSeq || e.DeletedToSeq < ex.DeletedToSeq {
			class += ",ensure-recreates"
		}
	}
	return vh.Result{
		Coq:   vh.App("C16Resolve", coqMem(ex), vh.B(in.Exists), coqMem(inc), coqMem(u), coqMem(e)),
		Obs:   map[string]any{"upsert": u, "ensure": e},
		Class: class,
	}
}

func runResolveCmd(in input) vh.Result {
	ex, inc := in.CExisting.real(), in.CIncoming.real()
	if !in.Exists {
		ex = meta.UserCMDChannelMembership{}
	}
	n := meta.VerifResolveUserCMDChannelMembership(ex, in.Exists, inc)
	class := "resolvecmd:"
	switch {
	case !in.Exists:
		class += "absent"
	case ex.Tombstone && !inc.Tombstone:
		class += "rebind"
	case ex.Tombstone:
		class += "stays-tombstone"
	default:
		class += "live"
	}
	return vh.Result{
		Coq:   vh.App("C16ResolveCmd", coqCmd(ex), vh.B(in.Exists), coqCmd(inc), coqCmd(n)),
		Obs:   map[string]any{"next": n},
		Class: class,
	}
}

func tmpBase() string {
	if st, err := os.Stat("/dev/shm"); err == nil && st.IsDir() {
		return "/dev/shm"
	}
	return ""
}

func mutKey(u mutJ) (keyJ, bool) {
	switch {
	case u.M != nil:
		return keyJ{u.Slot, u.M.UID, u.M.Ch, u.M.Ty}, false
	case u.C != nil:
		return keyJ{u.Slot, u.C.UID, u.C.Ch, u.C.Ty}, true
	case u.Key != nil:
		return *u.Key, strings.HasPrefix(u.K, "c")
	}
	panic("mutation without key")
}

func alphabets(ops []opJ) (mkeys, ckeys []keyJ) {
	seenM, seenC := map[keyJ]bool{}, map[keyJ]bool{}
	add := func(u mutJ) {
		k, isCmd := mutKey(u)
		if k.UID == "" || k.Ch == "" || len(k.UID) > 200 || len(k.Ch) > 200 {
			return
		}
		if isCmd {
			if !seenC[k] {
				seenC[k] = true
				ckeys = append(ckeys, k)
			}
		} else if !seenM[k] {
			seenM[k] = true
			mkeys = append(mkeys, k)
		}
	}
	for _, op := range ops {
		if op.U != nil {
			add(*op.U)
		}
		for _, u := range op.B {
			add(u)
		}
		for _, u := range op.Between {
			add(u)
		}
	}
	return
}

// stage stages u into wb and returns the staging error.
func stage(wb *meta.WriteBatch, u mutJ) error {
	switch u.K {
	case "upsert":
		return wb.UpsertUserChannelMembership(u.Slot, u.M.real())
	case "ensure":
		return wb.EnsureUserChannelMembership(u.Slot, u.M.real())
	case "read":
		return wb.AdvanceUserChannelMembershipReadSeq(u.Key.Slot, u.Key.UID, u.Key.ck(), u.U, u.Upd)
	case "activate":
		return wb.ActivateUserChannelMembership(u.Key.Slot, u.Key.UID, u.Key.ck(), u.A, u.Upd)
	case "hide":
		return wb.HideUserChannelMembership(u.Key.Slot, u.Key.UID, u.Key.ck(), u.U, u.Upd)
	case "delete":
		return wb.DeleteUserChannelMembership(u.Key.Slot, u.Key.UID, u.Key.ck())
	case "cupsert":
		return wb.UpsertUserCMDChannelMembership(u.Slot, u.C.real())
	case "cack_b":
		return wb.AdvanceUserCMDChannelMembershipAckSeq(u.Slot, u.C.real())
	case "ctomb_b":
		return wb.TombstoneUserCMDChannelMembership(u.Slot, u.C.real())
	}
	panic("mutation kind " + u.K + " has no WriteBatch method")
}

// direct applies u as one call: the Shard method where it exists, else a one-op WriteBatch.
func direct(ctx context.Context, db *meta.DB, u mutJ) error {
	sh := func(slot uint16) *meta.Shard { return db.MetaDB().HashSlot(meta.HashSlot(slot)) }
	switch u.K {
	case "upsert":
		return sh(u.Slot).UpsertUserChannelMembership(ctx, u.M.real())
	case "ensure":
		return sh(u.Slot).EnsureUserChannelMembership(ctx, u.M.real())
	case "read":
		return sh(u.Key.Slot).AdvanceUserChannelMembershipReadSeq(ctx, u.Key.UID, u.Key.ck(), u.U, u.Upd)
	case "setact":
		return sh(u.Key.Slot).SetUserChannelMembershipActivatedAt(ctx, u.Key.UID, u.Key.ck(), u.A, u.Upd)
	case "hide":
		return sh(u.Key.Slot).HideUserChannelMembership(ctx, u.Key.UID, u.Key.ck(), u.U, u.Upd)
	case "delete":
		return sh(u.Key.Slot).DeleteUserChannelMembership(ctx, u.Key.UID, u.Key.ck())
	case "cupsert":
		return sh(u.Slot).UpsertUserCMDChannelMembership(ctx, u.C.real())
	case "cack_s":
		return sh(u.Key.Slot).AdvanceUserCMDChannelMembershipAckSeq(ctx, u.Key.UID, u.Key.Ch, u.Key.Ty, u.U, u.Upd)
	case "ctomb_s":
		return sh(u.Key.Slot).TombstoneUserCMDChannelMembership(ctx, u.Key.UID, u.Key.Ch, u.Key.Ty, u.A)
	}
	wb := db.NewWriteBatch()
	defer wb.Close()
	if err := stage(wb, u); err != nil {
		return err
	}
	return wb.Commit()
}

const scanFuel = 64

func runHistory(in input) vh.Result {
	dir, err := os.MkdirTemp(tmpBase(), "verif-c16-")
	if err != nil {
		panic(err)
	}
	defer os.RemoveAll(dir)
	db, err := meta.OpenWithLogger(dir, wklog.NewNop())
	if err != nil {
		panic(err)
	}
	defer db.Close()
	ctx := context.Background()
	mkeys, ckeys := alphabets(in.Ops)
	flags := map[string]bool{}
	var steps []string
	var obsJSON []any

	prevM := make([]*meta.UserChannelMembership, len(mkeys))
	snapshot := func() (string, []any) {
		ms := make([]string, len(mkeys))
		cs := make([]string, len(ckeys))
		var js []any
		for i, k := range mkeys {
			row, ok, err := db.MetaDB().HashSlot(meta.HashSlot(k.Slot)).GetUserChannelMembership(ctx, k.UID, k.Ch, k.Ty)
			if err != nil {
				panic(fmt.Sprintf("GetUserChannelMembership(%v): %v", k, err))
			}
			if ok {
				ms[i] = vh.Some(coqMem(row))
				js = append(js, row)
				if p := prevM[i]; p != nil && (row.ReadSeq < p.ReadSeq || row.DeletedToSeq < p.DeletedToSeq) {
					flags["cursor-reset-at-boundary"] = true
				}
				r2 := row
				prevM[i] = &r2
			} else {
				ms[i] = vh.None()
				js = append(js, nil)
				prevM[i] = nil
			}
		}
		for i, k := range ckeys {
			row, ok, err := db.MetaDB().HashSlot(meta.HashSlot(k.Slot)).GetUserCMDChannelMembership(ctx, k.UID, k.Ch, k.Ty)
			if err != nil {
				panic(fmt.Sprintf("GetUserCMDChannelMembership(%v): %v", k, err))
			}
			if ok {
				cs[i] = vh.Some(coqCmd(row))
				js = append(js, row)
			} else {
				cs[i] = vh.None()
				js = append(js, nil)
			}
		}
		return vh.Pair(vh.List(ms), vh.List(cs)), js
	}

	for _, op := range in.Ops {
		var coqOp, coqObs string
		var o any
		switch op.K {
		case "direct":
			err := direct(ctx, db, *op.U)
			coqOp = vh.App("OpDirect", coqMut(*op.U))
			coqObs = vh.App("ObsErr", errClass(err))
			o = map[string]any{"err": errClass(err)}
			flags[op.U.K] = true
			if err != nil {
				flags["err-"+strings.TrimPrefix(errClass(err), "E")] = true
			}
		case "batch":
			wb := db.NewWriteBatch()
			stageErrs := make([]string, len(op.B))
			for i, u := range op.B {
				stageErrs[i] = errClass(stage(wb, u))
			}
			cerr := wb.Commit()
			wb.Close()
			coqOp = vh.App("OpBatch", vh.ListOf(op.B, coqMut))
			coqObs = vh.App("ObsBatch", vh.List(stageErrs), errClass(cerr))
			o = map[string]any{"stage": stageErrs, "commit": errClass(cerr)}
			if cerr == nil {
				flags["batch-ok"] = true
			} else {
				flags["batch-"+strings.TrimPrefix(errClass(cerr), "E")] = true
			}
		case "scan":
			shard := db.MetaDB().HashSlot(meta.HashSlot(op.Slot))
			var pages, berrs []string
			var pj []any
			cursor := meta.UserChannelMembershipCursor{}
			between := op.Between
			for i := 0; i < scanFuel; i++ {
				limit := int64(1)
				if len(op.Limits) > 0 {
					limit = op.Limits[i%len(op.Limits)]
				}
				rows, next, done, err := shard.ListUserChannelMembershipPage(ctx, op.UID, cursor, int(limit))
				pe := "PageOk"
				if err != nil {
					if !errors.Is(err, meta.ErrInvalidArgument) {
						panic(fmt.Sprintf("ListUserChannelMembershipPage: %v", err))
					}
					pe = "PageInvalid"
					flags["scan-invalid"] = true
				}
				pages = append(pages, vh.App("PageObs", vh.ListOf(rows, coqMem), coqCursor(next), vh.B(done), pe))
				pj = append(pj, map[string]any{"rows": rows, "next": next, "done": done, "err": pe})
				if err != nil || done {
					break
				}
				if len(between) > 0 {
					berr := direct(ctx, db, between[0])
					berrs = append(berrs, errClass(berr))
					between = between[1:]
					flags["scan-interleaved"] = true
				}
				cursor = next
			}
			if len(pages) > 1 {
				flags["scan-multi-page"] = true
			} else {
				flags["scan-one-page"] = true
			}
			limits := make([]string, len(op.Limits))
			for i, l := range op.Limits {
				limits[i] = vh.Z(l)
			}
			coqOp = vh.App("OpScan", vh.N(uint64(op.Slot)), vh.HexS(op.UID), vh.List(limits), vh.ListOf(op.Between, coqMut))
			coqObs = vh.App("ObsScan", vh.List(pages), vh.List(berrs))
			o = map[string]any{"pages": pj, "between": berrs}
		default:
			panic("bad op kind " + op.K)
		}
		snap, snapJ := snapshot()
		steps = append(steps, "("+coqOp+", "+coqObs+", "+snap+")")
		obsJSON = append(obsJSON, map[string]any{"obs": o, "rows": snapJ})
	}
	names := make([]string, 0, len(flags))
	for f := range flags {
		names = append(names, f)
	}
	sort.Strings(names)
	return vh.Result{
		Coq:     vh.App("C16History", vh.ListOf(mkeys, coqKey), vh.ListOf(ckeys, coqKey), vh.List(steps)),
		Obs:     obsJSON,
		Class:   "history:" + strings.Join(names, ","),
		Trivial: len(in.Ops) == 0,
	}
}

func run(in input) vh.Result {
	switch in.Kind {
	case "resolve":
		return runResolve(in)
	case "resolvecmd":
		return runResolveCmd(in)
	case "history":
		return runHistory(in)
	}
	panic("bad case kind " + in.Kind)
}

func emitConsts(w io.Writer) {
	fmt.Fprintln(w, "(* GENERATED by harness/cmd/C16 -emit-consts from the compiled /repo tree. Do not edit. *)")
	fmt.Fprintln(w, "From Coq Require Import NArith. Open Scope N_scope.")
	fmt.Fprintln(w, "(* pkg/db/meta maxKeyStringLen (validateKeyString) *)")
	fmt.Fprintf(w, "Definition maxKeyStringLen : N := %d.\n", meta.VerifMembershipMaxKeyStringLen)
}

func main() {
	vh.Main(vh.Harness[input]{EmitConsts: emitConsts, Gen: gen, Run: run})
}
