package main

import (
	"bytes"
	"context"
	"encoding/binary"
	"encoding/hex"
	"errors"
	"fmt"
	"io"
	"math/rand/v2"
	"net"
	"sort"
	"strings"
	"sync"
	"time"

	"github.com/WuKongIM/WuKongIM/internal/verifh/vh"
	"github.com/WuKongIM/WuKongIM/pkg/transport"
	"github.com/WuKongIM/WuKongIM/pkg/transport/internal/conn"
	"github.com/WuKongIM/WuKongIM/pkg/transport/internal/core"
	"github.com/WuKongIM/WuKongIM/pkg/transport/internal/rpc"
	"github.com/WuKongIM/WuKongIM/pkg/transport/wire"
)

func verifDefaultPendingShards() int { return rpc.VerifDefaultPendingShards }

// opIn is one step of a pend / conn history.
type opIn struct {
	Op      string `json:"op"`
	ID      uint64 `json:"id,omitempty"`      // request id (pend: store/delete/complete; conn: respond)
	C       int    `json:"c,omitempty"`       // pend: channel number
	K       int    `json:"k,omitempty"`       // conn: call number
	Status  uint8  `json:"status,omitempty"`  // conn respond: status byte
	Err     int    `json:"err,omitempty"`     // error code (index into harnessErrs), 0 = nil
	Payload string `json:"payload,omitempty"` // hex
	Words   int    `json:"words,omitempty"`   // conn respond: the payload is Payload repeated this many times (0 = once)
}

// opPayload expands a (possibly repeated) payload.
func opPayload(o opIn) []byte {
	p := mustHex(o.Payload)
	if o.Words > 1 {
		p = bytes.Repeat(p, o.Words)
	}
	return p
}

// coqBytes prints long byte strings that are one 8-byte word repeated as
// (rep (hx "word") n): Coq's literal parser is the expensive part of a case file.
func coqBytes(b []byte) string {
	if len(b) >= 64 && len(b)%8 == 0 {
		same := true
		for off := 8; off < len(b) && same; off += 8 {
			same = bytes.Equal(b[off:off+8], b[:8])
		}
		if same {
			return vh.App("rep", vh.Hex(b[:8]), vh.N(uint64(len(b)/8)))
		}
	}
	return vh.Hex(b)
}

var harnessErrs = []error{nil, errors.New("verif: err 1"), errors.New("verif: err 2"), errors.New("verif: err 3")}

// error classes shared with Model/Pending.v
const (
	eRemote         = 20
	eRemoteNotFound = 21
	eCanceled       = 30
	eStopped        = 31
	eRead           = 32
	eDeadline       = 33
	eInvalidFrame   = 34
	eHang           = 98
	eOther          = 99
)

func errCode(err error) (msg []byte, code int) {
	if err == nil {
		return nil, 0
	}
	for i, e := range harnessErrs {
		if e != nil && errors.Is(err, e) {
			return nil, i
		}
	}
	var re core.RemoteError
	switch {
	case errors.As(err, &re):
		if re.Code == core.RemoteErrorCodeServiceNotFound {
			return []byte(re.Message), eRemoteNotFound
		}
		return []byte(re.Message), eRemote
	case errors.Is(err, core.ErrCanceled), errors.Is(err, context.Canceled):
		return nil, eCanceled
	case errors.Is(err, core.ErrStopped):
		return nil, eStopped
	case errors.Is(err, io.EOF), errors.Is(err, io.ErrClosedPipe), errors.Is(err, net.ErrClosed), errors.Is(err, io.ErrUnexpectedEOF):
		return nil, eRead
	case errors.Is(err, context.DeadlineExceeded), errors.Is(err, core.ErrTimeout):
		return nil, eDeadline
	case errors.Is(err, core.ErrInvalidFrame):
		return nil, eInvalidFrame
	}
	return nil, eOther
}

func coqOutcome(payload []byte, err error) string {
	if err == nil {
		return vh.Pair(vh.Hex(payload), "0")
	}
	msg, code := errCode(err)
	return vh.Pair(vh.Hex(msg), vh.N(uint64(code)))
}

// ---------------------------------------------------------------------------------------
// pend: rpc.PendingTable driven sequentially
// ---------------------------------------------------------------------------------------

func genPend(r *rand.Rand) input {
	in := input{Kind: "pend", Shards: vh.Pick(r, 0, 1, 2, 4, 16, 3, -1, 8)}
	nch := 2 + r.IntN(3)
	for i := 0; i < nch; i++ {
		in.Chunks = append(in.Chunks, vh.Pick(r, 1, 1, 1, 2, 1, 1, 1, 1, 2, 0)) // channel capacities
	}
	// a planner that knows what is registered, so that most Completes hit, most
	// Recvs find something, and ids / channels collide often
	stored := map[uint64]int{} // id -> channel
	mail := map[int]int{}      // channel -> messages waiting (approximate)
	closed := false
	freshID := func() uint64 {
		switch r.IntN(8) {
		case 0:
			return vh.Pick(r, uint64(16), 17, 32, 1<<63, ^uint64(0))
		default:
			return uint64(r.IntN(5))
		}
	}
	storedID := func() (uint64, bool) {
		if len(stored) == 0 {
			return 0, false
		}
		ids := make([]uint64, 0, len(stored))
		for id := range stored {
			ids = append(ids, id)
		}
		sort.Slice(ids, func(i, j int) bool { return ids[i] < ids[j] })
		return ids[r.IntN(len(ids))], true
	}
	ch := func() int {
		if r.IntN(30) == 0 {
			return nch + r.IntN(2) // nil channel
		}
		return r.IntN(nch)
	}
	n := 4 + r.IntN(20)
	for i := 0; i < n; i++ {
		var o opIn
		switch x := r.IntN(100); {
		case x < 30:
			o = opIn{Op: "store", ID: freshID(), C: ch()}
			if o.C < nch && in.Chunks[o.C] > 0 {
				if closed {
					mail[o.C]++
				} else {
					stored[o.ID] = o.C
				}
			}
		case x < 36:
			o = opIn{Op: "delete", ID: freshID()}
			if id, ok := storedID(); ok && r.IntN(2) == 0 {
				o.ID = id
			}
			delete(stored, o.ID)
		case x < 64:
			o = opIn{Op: "complete", ID: freshID(), Err: vh.Pick(r, 0, 0, 0, 1, 2), Payload: hex.EncodeToString(vh.Bytes(r, r.IntN(4)))}
			if id, ok := storedID(); ok && r.IntN(10) < 7 {
				o.ID = id
			}
			if c, ok := stored[o.ID]; ok {
				mail[c]++
				delete(stored, o.ID)
			}
		case x < 68 || (closed && x < 70):
			o = opIn{Op: "failall", Err: vh.Pick(r, 1, 2, 3, 0)}
			for _, c := range stored {
				mail[c]++
			}
			stored, closed = map[uint64]int{}, true
		case x < 76:
			o = opIn{Op: "len"}
		default:
			o = opIn{Op: "recv", C: r.IntN(nch)}
			for c := 0; c < nch; c++ { // prefer a channel that has something
				if mail[c] > 0 && r.IntN(3) != 0 {
					o.C = c
					break
				}
			}
			if mail[o.C] > 0 {
				mail[o.C]--
			}
		}
		in.Ops = append(in.Ops, o)
	}
	return in
}

func runPend(in input) vh.Result {
	table := rpc.NewPendingTable(in.Shards)
	chans := make([]chan rpc.Response, len(in.Chunks))
	caps := make([]uint64, len(in.Chunks))
	for i, c := range in.Chunks {
		caps[i] = uint64(c)
		chans[i] = make(chan rpc.Response, c) // capacity 0: unbuffered, Store must panic
	}
	chanOf := func(c int) chan rpc.Response {
		if c < 0 || c >= len(chans) {
			return nil
		}
		return chans[c]
	}
	var coqOps []string
	var obsList []string
	classes := map[string]bool{}
	ids := map[uint64]bool{}
	for _, o := range in.Ops {
		var op, ob string
		switch o.Op {
		case "store":
			op = vh.App("PStore", vh.N(o.ID), vh.N(uint64(o.C)))
			ids[o.ID] = true
			func() {
				defer func() {
					if rec := recover(); rec != nil {
						ob = "OPanic"
						classes["store-panic"] = true
					}
				}()
				table.Store(o.ID, chanOf(o.C))
				ob = "OUnit"
			}()
		case "delete":
			op = vh.App("PDelete", vh.N(o.ID))
			table.Delete(o.ID)
			ob = "OUnit"
		case "complete":
			payload := mustHex(o.Payload)
			op = vh.App("PComplete", vh.N(o.ID), vh.Hex(payload), vh.N(uint64(o.Err)))
			ok := table.Complete(o.ID, rpc.Response{Payload: payload, Err: harnessErrs[o.Err]})
			ob = vh.App("OBool", vh.B(ok))
			if ok {
				classes["complete-hit"] = true
			}
		case "failall":
			op = vh.App("PFailAll", vh.N(uint64(o.Err)))
			table.FailAll(harnessErrs[o.Err])
			ob = "OUnit"
			classes["failall"] = true
		case "len":
			op = "PLen"
			ob = vh.App("ONum", vh.N(uint64(table.Len())))
		case "recv":
			op = vh.App("PRecv", vh.N(uint64(o.C)))
			select {
			case resp := <-chanOf(o.C):
				_, code := errCode(resp.Err) // a Response carries both fields; the table passes them through
				ob = vh.App("ORecv", vh.Some(vh.Pair(vh.Hex(resp.Payload), vh.N(uint64(code)))))
				if resp.Err != nil {
					classes["recv-err"] = true
				} else {
					classes["recv-payload"] = true
				}
			default:
				ob = vh.App("ORecv", vh.None())
			}
		default:
			panic("unknown pend op " + o.Op)
		}
		coqOps = append(coqOps, vh.Pair(op, ob))
		obsList = append(obsList, ob)
	}
	var probe []string
	sorted := make([]uint64, 0, len(ids))
	for id := range ids {
		sorted = append(sorted, id)
	}
	sort.Slice(sorted, func(i, j int) bool { return sorted[i] < sorted[j] })
	for _, id := range sorted {
		probe = append(probe, vh.Pair(vh.N(id), vh.N(table.VerifShardIndex(id))))
	}
	return vh.Result{
		Coq: vh.App("C26Pend", vh.Z(int64(in.Shards)), vh.NList(caps), vh.List(coqOps),
			vh.N(uint64(table.VerifShardCount())), vh.List(probe)),
		Obs:     map[string]any{"obs": obsList, "shards": table.VerifShardCount()},
		Class:   "pend:" + classSet(classes),
		Trivial: len(in.Ops) == 0,
	}
}

func classSet(m map[string]bool) string {
	keys := make([]string, 0, len(m))
	for k := range m {
		keys = append(keys, k)
	}
	sort.Strings(keys)
	if len(keys) == 0 {
		return "-"
	}
	return strings.Join(keys, "+")
}

// ---------------------------------------------------------------------------------------
// conn: conn.Conn over a synchronous pipe, scripted peer
// ---------------------------------------------------------------------------------------

// genConnBig: responses larger than the small slab classes, kept by the callers
// while further large frames arrive (responses to other calls, duplicates for
// answered ids), and re-read only when the case ends.
func genConnBig(r *rand.Rand) input {
	in := input{Kind: "conn"}
	n := 2 + r.IntN(2)
	words := func() int { return vh.Pick(r, 513, 520, 600, 513, 64, 500, 1100) }
	stamp := func(k int) string {
		return hex.EncodeToString(binary.BigEndian.AppendUint64(nil, 0xC26C26<<40|uint64(k)<<20|uint64(r.IntN(1<<20))))
	}
	for k := 0; k < n; k++ {
		in.Ops = append(in.Ops, opIn{Op: "start", K: k, Payload: hex.EncodeToString(nonceBytes(r, k))})
	}
	w := words()
	order := r.Perm(n)
	for i, k := range order {
		in.Ops = append(in.Ops, opIn{Op: "respond", ID: uint64(k + 1), Payload: stamp(k), Words: w})
		if r.IntN(3) != 0 {
			in.Ops = append(in.Ops, opIn{Op: "await", K: k})
		}
		if i == 0 && r.IntN(2) == 0 { // a duplicate for the answered id: dropped by the table, but it is one more large frame
			in.Ops = append(in.Ops, opIn{Op: "respond", ID: uint64(k + 1), Payload: stamp(100 + k), Words: w})
		}
	}
	// further traffic of the same size while the earlier results are still held
	in.Ops = append(in.Ops, opIn{Op: "start", K: n, Payload: hex.EncodeToString(nonceBytes(r, n))},
		opIn{Op: "respond", ID: uint64(n + 1), Payload: stamp(n), Words: w},
		opIn{Op: "await", K: n})
	if r.IntN(3) == 0 {
		in.Ops = append(in.Ops, opIn{Op: vh.Pick(r, "reset", "close"), Err: r.IntN(4)})
	}
	return in
}

func genConn(r *rand.Rand) input {
	if r.IntN(8) == 0 {
		return genConnBig(r)
	}
	in := input{Kind: "conn"}
	n := 4 + r.IntN(12)
	next := uint64(0)
	active := map[int]uint64{} // running calls: k -> request id
	answered := map[int]bool{} // a response was delivered to the running call
	finished := map[int]bool{} // returned, not yet collected
	down := false
	k := 0
	keys := func(m map[int]uint64) []int {
		out := make([]int, 0, len(m))
		for x := range m {
			out = append(out, x)
		}
		sort.Ints(out)
		return out
	}
	for i := 0; i < n; i++ {
		x := r.IntN(100)
		switch {
		case x < 32 || len(active) == 0 && x < 60:
			next++
			in.Ops = append(in.Ops, opIn{Op: "start", K: k, Payload: hex.EncodeToString(nonceBytes(r, k))})
			if down {
				finished[k] = true
			} else {
				active[k] = next
			}
			k++
		case x < 36:
			next++
			in.Ops = append(in.Ops, opIn{Op: "start_canceled", K: k, Payload: hex.EncodeToString(nonceBytes(r, k))})
			k++
		case x < 70:
			o := opIn{Op: "respond", Status: vh.Pick(r, uint8(0), 0, 0, 0, 1, 2, 3), Payload: hex.EncodeToString(vh.Bytes(r, 1+r.IntN(4)))}
			ks := keys(active)
			switch y := r.IntN(10); {
			case y < 7 && len(ks) > 0:
				c := ks[r.IntN(len(ks))]
				o.ID = active[c]
				if !down {
					answered[c] = true
				}
			case y < 8:
				o.ID = uint64(r.IntN(int(next) + 1)) // an id already used (duplicate / cancelled) or 0
				for c, id := range active {
					if id == o.ID && !down {
						answered[c] = true
					}
				}
			default:
				o.ID = next + 1 + uint64(r.IntN(3)) // not issued yet
			}
			if r.IntN(10) == 0 {
				o.Op = "respond_empty"
			}
			in.Ops = append(in.Ops, o)
		case x < 80:
			c := r.IntN(k + 1)
			in.Ops = append(in.Ops, opIn{Op: "cancel", K: c})
			delete(active, c)
			delete(answered, c)
			delete(finished, c)
		case x < 96 || i < 3:
			var cands []int
			for c := range answered {
				cands = append(cands, c)
			}
			for c := range finished {
				cands = append(cands, c)
			}
			if len(cands) == 0 {
				continue
			}
			sort.Ints(cands)
			c := cands[r.IntN(len(cands))]
			in.Ops = append(in.Ops, opIn{Op: "await", K: c})
			delete(active, c)
			delete(answered, c)
			delete(finished, c)
		default:
			in.Ops = append(in.Ops, opIn{Op: vh.Pick(r, "reset", "garbage", "close"), Err: r.IntN(4)})
			if !down {
				for c := range active {
					finished[c] = true
				}
				active, answered, down = map[int]uint64{}, map[int]bool{}, true
			}
		}
	}
	return in
}

func nonceBytes(r *rand.Rand, k int) []byte {
	b := binary.BigEndian.AppendUint16(nil, uint16(k))
	return append(b, vh.Bytes(r, 2)...)
}

type callResult struct {
	payload []byte
	err     error
}

const connStepTimeout = 5 * time.Second

func runConn(in input) vh.Result {
	clientEnd, serverEnd := net.Pipe()
	limits := core.Limits{MaxFrameBodyBytes: 1 << 20, MaxQueuedBytesPerConn: 4 << 20, MaxQueuedItemsPerConn: 256,
		MaxBatchBytes: 1 << 20, MaxBatchFrames: 8}
	c := conn.New(clientEnd, conn.Config{Limits: limits, NodeID: 2}, nil)
	c.Start()
	down := false
	results := map[int]chan callResult{}
	cancels := map[int]context.CancelFunc{}
	collected := map[int]bool{}
	classes := map[string]bool{}

	collect := func(k int) ([]byte, int) {
		select {
		case res := <-results[k]:
			collected[k] = true
			msg, code := errCode(res.err)
			switch {
			case res.err == nil:
				classes["ok"] = true
				msg = res.payload
			case code == eRemote || code == eRemoteNotFound:
				classes["remote-err"] = true
			case code == eCanceled:
				classes["canceled"] = true
			default:
				classes["conn-err"] = true
			}
			return msg, code
		case <-time.After(connStepTimeout):
			collected[k] = true
			classes["HANG"] = true
			return nil, eHang
		}
	}
	// What Call returned is the caller's own: its bytes are READ only when the case
	// ends, after all later traffic, so observations are formatted lazily.
	coOutcome := func(k int) func() string {
		msg, code := collect(k)
		return func() string { return vh.App("CoOutcome", coqBytes(msg), vh.N(uint64(code))) }
	}
	now := func(s string) func() string { return func() string { return s } }
	start := func(k int, payload []byte, ctx context.Context, cancel context.CancelFunc) {
		ch := make(chan callResult, 1)
		results[k], cancels[k] = ch, cancel
		go func() {
			p, err := c.Call(ctx, conn.Outbound{Priority: core.PriorityRPC, ServiceID: 7, Payload: core.CopyOwnedBuffer(payload)})
			ch <- callResult{p, err}
		}()
	}
	waitDown := func() {
		select {
		case <-c.Done():
		case <-time.After(connStepTimeout):
			classes["HANG"] = true
		}
		c.Close(nil) // returns after the shutdown that is in progress has completed
		_ = serverEnd.Close()
		down = true
	}
	writeResponse := func(reqid uint64, body []byte) bool {
		_ = serverEnd.SetWriteDeadline(time.Now().Add(connStepTimeout))
		hdr := wire.Header{Kind: core.FrameKindRPCResponse, Priority: core.PriorityRPC, ServiceID: 7, RequestID: reqid}
		if err := wire.WriteFrame(serverEnd, wire.Frame{Header: hdr, Body: core.CopyOwnedBuffer(body)}, limits.MaxFrameBodyBytes); err != nil {
			return false
		}
		// barrier: the read loop takes the next header only after it has handled the
		// previous frame; request id 2^64-1 is never issued
		hdr.RequestID = ^uint64(0)
		return wire.WriteFrame(serverEnd, wire.Frame{Header: hdr, Body: core.CopyOwnedBuffer([]byte{wire.ResponseOK})}, limits.MaxFrameBodyBytes) == nil
	}

	var script, obsList []string
	var ops []string
	var obs []func() string
	for _, o := range in.Ops {
		var op string
		var ob func() string
		switch o.Op {
		case "start":
			payload := mustHex(o.Payload)
			op = vh.App("CStart", vh.N(uint64(o.K)), vh.Hex(payload))
			ctx, cancel := context.WithCancel(context.Background())
			start(o.K, payload, ctx, cancel)
			if down {
				ob = coOutcome(o.K)
			} else {
				_ = serverEnd.SetReadDeadline(time.Now().Add(connStepTimeout))
				f, err := wire.ReadFrame(serverEnd, limits.MaxFrameBodyBytes)
				if err != nil || f.Header.Kind != core.FrameKindRPCRequest {
					ob = now(vh.App("CoRead", vh.N(^uint64(0)), vh.Hex([]byte(fmt.Sprint(err)))))
				} else {
					ob = now(vh.App("CoRead", vh.N(f.Header.RequestID), vh.Hex(f.Body.Bytes())))
				}
			}
		case "start_canceled":
			payload := mustHex(o.Payload)
			op = vh.App("CStartCanceled", vh.N(uint64(o.K)), vh.Hex(payload))
			ctx, cancel := context.WithCancel(context.Background())
			cancel()
			start(o.K, payload, ctx, cancel)
			ob = coOutcome(o.K)
		case "respond", "respond_empty":
			payload := opPayload(o)
			body := append([]byte{o.Status}, payload...)
			if o.Op == "respond_empty" {
				op, body = vh.App("CRespondEmpty", vh.N(o.ID)), nil
			} else {
				op = vh.App("CRespond", vh.N(o.ID), vh.N(uint64(o.Status)), coqBytes(payload))
				if len(payload) > 4096 {
					classes["big-response"] = true
				}
			}
			ob = now(vh.App("CoWrite", vh.B(writeResponse(o.ID, body))))
		case "cancel", "await":
			if o.Op == "cancel" {
				op = vh.App("CCancel", vh.N(uint64(o.K)))
			} else {
				op = vh.App("CAwait", vh.N(uint64(o.K)))
			}
			if results[o.K] == nil || collected[o.K] {
				ob = now("CoNone")
			} else {
				if o.Op == "cancel" {
					cancels[o.K]()
				}
				ob = coOutcome(o.K)
			}
		case "reset":
			op, ob = "CReset", now("CoNone")
			if !down {
				_ = serverEnd.Close()
				waitDown()
				classes["reset"] = true
			}
		case "garbage":
			op, ob = "CGarbage", now("CoNone")
			if !down {
				bad := wire.EncodeHeader(wire.Header{Kind: core.FrameKindRPCResponse, Priority: core.PriorityRPC})
				bad[0] ^= 0xff
				_ = serverEnd.SetWriteDeadline(time.Now().Add(connStepTimeout))
				_, _ = serverEnd.Write(bad[:])
				waitDown()
				classes["garbage"] = true
			}
		case "close":
			op, ob = vh.App("CClose", vh.N(uint64(o.Err))), now("CoNone")
			if !down {
				c.Close(harnessErrs[o.Err])
				_ = serverEnd.Close()
				down = true
				classes["close"] = true
			}
		default:
			panic("unknown conn op " + o.Op)
		}
		ops = append(ops, op)
		obs = append(obs, ob)
	}
	// end of script: stop the conn and collect whatever is left
	c.Close(nil)
	_ = serverEnd.Close()
	var final []string
	ks := make([]int, 0, len(results))
	for k := range results {
		if !collected[k] {
			ks = append(ks, k)
		}
	}
	sort.Ints(ks)
	type fin struct {
		k    int
		msg  []byte
		code int
	}
	var fins []fin
	for _, k := range ks {
		msg, code := collect(k)
		cancels[k]()
		fins = append(fins, fin{k, msg, code})
	}
	// only now are the retained results looked at
	for i := range ops {
		ob := obs[i]()
		script = append(script, vh.Pair(ops[i], ob))
		obsList = append(obsList, ob)
	}
	for _, f := range fins {
		final = append(final, vh.Pair(vh.N(uint64(f.k)), vh.Pair(coqBytes(f.msg), vh.N(uint64(f.code)))))
	}
	for _, cancel := range cancels {
		cancel()
	}
	return vh.Result{
		Coq:     vh.App("C26Conn", vh.List(script), vh.List(final)),
		Obs:     map[string]any{"obs": obsList, "final": final},
		Class:   "conn:" + classSet(classes),
		Trivial: len(in.Ops) == 0,
	}
}

// ---------------------------------------------------------------------------------------
// stress: transport.Client / transport.Server over loopback, concurrent calls
// ---------------------------------------------------------------------------------------

type stressCall struct {
	Mode      uint8 `json:"mode"`       // 0 echo, 1 handler error, 2 slow echo
	SleepMS   uint8 `json:"sleep_ms"`   // handler delay for mode 2
	TimeoutMS int   `json:"timeout_ms"` // caller deadline; 0 = none
	CancelMS  int   `json:"cancel_ms"`  // caller cancels after this long; 0 = never
	Words     int   `json:"words"`      // the reply carries this many extra 8-byte copies of the nonce (size = 9 + 8*Words)
}

// stressReply is what the handler / echo peer answers: "R" ‖ nonce ‖ nonce × words.
func stressReply(nonce []byte, words int) []byte {
	out := make([]byte, 0, 9+8*words)
	out = append(append(out, 'R'), nonce...)
	for i := 0; i < words; i++ {
		out = append(out, nonce...)
	}
	return out
}

func stressRequest(nonce []byte, c stressCall) []byte {
	req := append(append([]byte(nil), nonce...), c.Mode, c.SleepMS)
	return binary.BigEndian.AppendUint16(req, uint16(c.Words))
}

type stress struct {
	Salt   uint32       `json:"salt"`
	Conc   int          `json:"conc"`
	Pool   int          `json:"pool"`
	Calls  []stressCall `json:"calls"`
	Resets []int        `json:"resets_ms"` // ClosePeer at these offsets
}

type staticDiscovery map[transport.NodeID]string

func (d staticDiscovery) Resolve(id transport.NodeID) (string, error) {
	if a, ok := d[id]; ok {
		return a, nil
	}
	return "", transport.ErrNodeNotFound
}

func genStress(r *rand.Rand, tier string) input {
	n := 32 + r.IntN(33)
	if tier == "thorough" {
		n = 40 + r.IntN(120)
	}
	st := &stress{Salt: r.Uint32(), Conc: vh.Pick(r, 4, 8, 16, 16, 32), Pool: vh.Pick(r, 0, 0, 1, 1, 2)}
	for i := 0; i < n; i++ {
		c := stressCall{Mode: vh.Pick(r, uint8(0), 0, 0, 1, 2, 2), SleepMS: uint8(r.IntN(6))}
		// reply sizes across the slab classes (512 / 4096 / 65536 / 1 MiB): 9 B ... ~72 KiB
		switch r.IntN(12) {
		case 0, 1:
			c.Words = 60 // 489 B
		case 2:
			c.Words = 500 // ~4 KiB
		case 3, 4, 5:
			c.Words = vh.Pick(r, 512, 513, 1024, 1024, 2000) // just over 4 KiB ... 16 KiB
		case 6:
			c.Words = vh.Pick(r, 8100, 8190, 9000) // ~64 KiB, and the 1 MiB class
		case 7:
			c.Words = 1
		}
		switch r.IntN(5) {
		case 0:
			c.TimeoutMS = 1 + r.IntN(4)
		case 1:
			c.CancelMS = 1 + r.IntN(3)
		}
		st.Calls = append(st.Calls, c)
	}
	for k := r.IntN(3); k > 0; k-- {
		st.Resets = append(st.Resets, 1+r.IntN(15))
	}
	return input{Kind: "stress", Stress: st}
}

func runStress(in input) vh.Result {
	st := in.Stress
	var doCall func(ctx context.Context, i int, req []byte) ([]byte, error)
	var reset func()
	if st.Pool == 0 {
		// conn.Conn directly over a synchronous pipe; the peer answers every request
		// frame with the handler's reply under the same request id, from several
		// goroutines so that responses overtake each other
		clientEnd, serverEnd := net.Pipe()
		limits := core.Limits{MaxFrameBodyBytes: 1 << 20, MaxQueuedBytesPerConn: 8 << 20, MaxQueuedItemsPerConn: 1024,
			MaxBatchBytes: 1 << 20, MaxBatchFrames: 16}
		c := conn.New(clientEnd, conn.Config{Limits: limits, NodeID: 2}, nil)
		c.Start()
		defer c.Close(nil)
		defer serverEnd.Close()
		var wmu sync.Mutex
		go func() {
			for {
				f, err := wire.ReadFrame(serverEnd, limits.MaxFrameBodyBytes)
				if err != nil {
					return
				}
				payload := append([]byte(nil), f.Body.Bytes()...)
				f.Body.Release()
				hdr := f.Header
				go func() {
					if len(payload) != 12 {
						return
					}
					nonce, mode, sleep := payload[:8], payload[8], payload[9]
					status, body := wire.ResponseOK, stressReply(nonce, int(binary.BigEndian.Uint16(payload[10:])))
					switch mode {
					case 1:
						status, body = wire.ResponseErr, append([]byte("E"), nonce...)
					case 2:
						time.Sleep(time.Duration(sleep) * time.Millisecond)
					}
					hdr.Kind = core.FrameKindRPCResponse
					wmu.Lock()
					defer wmu.Unlock()
					_ = serverEnd.SetWriteDeadline(time.Now().Add(time.Second))
					_ = wire.WriteFrame(serverEnd, wire.Frame{Header: hdr, Body: core.CopyOwnedBuffer(append([]byte{status}, body...))}, limits.MaxFrameBodyBytes)
				}()
			}
		}()
		doCall = func(ctx context.Context, i int, req []byte) ([]byte, error) {
			return c.Call(ctx, conn.Outbound{Priority: core.PriorityRPC, ServiceID: 7, Payload: core.CopyOwnedBuffer(req)})
		}
		reset = func() {} // a pipe cannot be re-dialled; resets are exercised by the loopback mode
		return stressCalls(st, doCall, reset)
	}
	limits := transport.DefaultLimits()
	server, err := transport.NewServer(transport.ServerConfig{NodeID: 2, Limits: limits})
	if err != nil {
		panic(err)
	}
	defer server.Stop()
	handler := func(ctx context.Context, payload []byte) ([]byte, error) {
		if len(payload) != 12 {
			return nil, fmt.Errorf("bad request length %d", len(payload))
		}
		nonce, mode, sleep := payload[:8], payload[8], payload[9]
		switch mode {
		case 1:
			return nil, errors.New("E" + string(nonce))
		case 2:
			time.Sleep(time.Duration(sleep) * time.Millisecond)
		}
		return stressReply(nonce, int(binary.BigEndian.Uint16(payload[10:]))), nil
	}
	if err := server.Handle(7, handler, transport.ServiceOptions{Concurrency: 4, QueueSize: 1024, MaxQueueBytes: 8 << 20}); err != nil {
		panic(err)
	}
	if err := server.ListenAndServe("127.0.0.1:0"); err != nil {
		panic(err)
	}
	client, err := transport.NewClient(transport.ClientConfig{NodeID: 1, Discovery: staticDiscovery{2: server.Addr()},
		PoolSize: st.Pool, Limits: limits})
	if err != nil {
		panic(err)
	}
	defer client.Stop()

	doCall = func(ctx context.Context, i int, req []byte) ([]byte, error) {
		return client.Call(ctx, 2, uint64(i%max(st.Pool, 1)), transport.PriorityRPC, 7, req)
	}
	reset = func() { client.ClosePeer(2) }
	return stressCalls(st, doCall, reset)
}

func stressCalls(st *stress, doCall func(ctx context.Context, i int, req []byte) ([]byte, error), reset func()) vh.Result {
	type out struct {
		payload []byte
		err     error
	}
	outs := make([]out, len(st.Calls))
	nonces := make([][]byte, len(st.Calls))
	var wg sync.WaitGroup
	done := make(chan struct{})
	go func() { // connection resets
		begin := time.Now()
		resets := append([]int(nil), st.Resets...)
		sort.Ints(resets)
		for _, ms := range resets {
			select {
			case <-done:
				return
			case <-time.After(time.Until(begin.Add(time.Duration(ms) * time.Millisecond))):
				reset()
			}
		}
	}()
	// calls go out in bursts: every goroutine of a burst is released by the same
	// gate, so that Call is entered (request id allocation, Store) truly concurrently
	conc := max(st.Conc, 1)
	for base := 0; base < len(st.Calls); base += conc {
		gate := make(chan struct{})
		var burst sync.WaitGroup
		for i := base; i < min(base+conc, len(st.Calls)); i++ {
			call := st.Calls[i]
			nonce := binary.BigEndian.AppendUint32(binary.BigEndian.AppendUint32(nil, st.Salt), uint32(i))
			nonces[i] = nonce
			wg.Add(1)
			burst.Add(1)
			go func(i int, call stressCall) {
				defer wg.Done()
				defer burst.Done()
				ctx, cancel := context.WithTimeout(context.Background(), 400*time.Millisecond)
				if call.TimeoutMS > 0 {
					ctx, cancel = context.WithTimeout(context.Background(), time.Duration(call.TimeoutMS)*time.Millisecond)
				}
				defer cancel()
				req := stressRequest(nonce, call)
				<-gate
				if call.CancelMS > 0 {
					t := time.AfterFunc(time.Duration(call.CancelMS)*time.Millisecond, cancel)
					defer t.Stop()
				}
				p, err := doCall(ctx, i, req)
				outs[i] = out{p, err}
			}(i, call)
		}
		close(gate)
		burst.Wait()
	}
	wg.Wait()
	close(done)

	// Every response is still held by its caller.  More traffic of the large
	// sizes goes through the same process, and only then are the held bytes read.
	maxWords := 0
	for _, c := range st.Calls {
		maxWords = max(maxWords, c.Words)
	}
	if maxWords > 0 {
		var extra sync.WaitGroup
		for j := 0; j < 6; j++ {
			extra.Add(1)
			go func(j int) {
				defer extra.Done()
				ctx, cancel := context.WithTimeout(context.Background(), 400*time.Millisecond)
				defer cancel()
				nonce := binary.BigEndian.AppendUint32(binary.BigEndian.AppendUint32(nil, ^st.Salt), uint32(j))
				words := maxWords
				if j%2 == 1 {
					words = 513
				}
				_, _ = doCall(ctx, j, stressRequest(nonce, stressCall{Words: words}))
			}(j)
		}
		extra.Wait()
	}

	classes := map[string]int{}
	calls := make([]string, len(outs))
	big, held := 0, 0
	for i, o := range outs {
		// the retained bytes, as they are NOW: head, length, and the distinct 8-byte
		// words after the head
		msg, code := errCode(o.err)
		if o.err == nil {
			msg = o.payload
		}
		head, rest := msg, []byte(nil)
		if len(msg) > 9 {
			head, rest = msg[:9], msg[9:]
		}
		var stamps []string
		seen := map[string]bool{}
		for off := 0; off < len(rest); off += 8 {
			w := string(rest[off:min(off+8, len(rest))])
			if !seen[w] {
				seen[w] = true
				stamps = append(stamps, vh.Hex([]byte(w)))
			}
		}
		if o.err == nil && len(msg) > 4096 {
			big++
		}
		if o.err == nil {
			held++
		}
		calls[i] = vh.App("SCall", vh.Hex(nonces[i]), vh.N(uint64(st.Calls[i].Mode)), vh.N(uint64(st.Calls[i].Words)),
			vh.Hex(head), vh.N(uint64(code)), vh.N(uint64(len(msg))), vh.List(stamps))
		classes[fmt.Sprint(code)]++
	}
	ok, local := classes["0"]+classes[fmt.Sprint(eRemote)], 0
	for k, v := range classes {
		if k != "0" && k != fmt.Sprint(eRemote) {
			local += v
		}
	}
	class := "stress:answered"
	if local > 0 {
		class = "stress:answered+local-errors"
	}
	if big > 0 {
		class += "+held>4KiB"
	}
	if ok == 0 {
		class = "stress:none-answered"
	}
	return vh.Result{
		Coq:     vh.App("C26Stress", vh.List(calls)),
		Obs:     map[string]any{"outcome_classes": classes, "held": held, "held_over_4KiB": big},
		Class:   class,
		Trivial: len(outs) == 0,
	}
}
