package main

import (
	"math/rand/v2"

	"github.com/WuKongIM/WuKongIM/internal/verifh/vh"
	"github.com/WuKongIM/WuKongIM/pkg/transport/internal/rpc"
)

type opIn struct{}
type stress struct{}

func verifDefaultPendingShards() int { return rpc.VerifDefaultPendingShards }

func genPend(r *rand.Rand) input               { return genDec(r) }
func genConn(r *rand.Rand) input               { return genRead(r) }
func genStress(r *rand.Rand, tier string) input { return genWrite(r) }
func runPend(in input) vh.Result               { panic("todo") }
func runConn(in input) vh.Result               { panic("todo") }
func runStress(in input) vh.Result             { panic("todo") }
