package main

import (
	"bytes"
	"encoding/binary"
	"encoding/hex"
	"errors"
	"fmt"
	"io"
	"math"
	"math/rand/v2"
	"runtime"

	"github.com/WuKongIM/WuKongIM/internal/verifh/vh"
	"github.com/WuKongIM/WuKongIM/pkg/transport/internal/core"
	"github.com/WuKongIM/WuKongIM/pkg/transport/wire"
)

type hdrIn struct {
	Kind      uint8  `json:"kind"`
	Priority  uint8  `json:"prio"`
	ServiceID uint16 `json:"svc"`
	RequestID uint64 `json:"req"`
	BodyLen   uint32 `json:"len"`
}

type frameIn struct {
	Hdr  hdrIn  `json:"hdr"`
	Body string `json:"body"` // hex
}

func (h hdrIn) wire() wire.Header {
	return wire.Header{Kind: core.FrameKind(h.Kind), Priority: core.Priority(h.Priority),
		ServiceID: h.ServiceID, RequestID: h.RequestID, BodyLen: h.BodyLen}
}

func coqHeader(h wire.Header) string {
	return vh.App("Header", vh.N(uint64(h.Kind)), vh.N(uint64(h.Priority)), vh.N(uint64(h.ServiceID)),
		vh.N(h.RequestID), vh.N(uint64(h.BodyLen)))
}

func errClass(err error) string {
	switch {
	case errors.Is(err, core.ErrInvalidFrame):
		return "EInvalidFrame"
	case errors.Is(err, core.ErrInvalidPriority):
		return "EInvalidPriority"
	case errors.Is(err, core.ErrMsgTooLarge):
		return "ETooLarge"
	case errors.Is(err, io.ErrUnexpectedEOF):
		return "EUnexpectedEOF"
	case errors.Is(err, io.EOF):
		return "EEOF"
	}
	return "EOther"
}

func coqErr(err error) string { return vh.App("WErr", errClass(err)) }

func mustHex(s string) []byte {
	b, err := hex.DecodeString(s)
	if err != nil {
		panic(err)
	}
	return b
}

// ---- generators ----------------------------------------------------------------

func genMax(r *rand.Rand) int64 {
	switch r.IntN(12) {
	case 0:
		return -1
	case 1:
		return 0
	case 2:
		return 1
	case 3:
		return int64(r.IntN(64))
	case 4:
		return 1 << 20
	case 5:
		return 64 << 20
	case 6:
		return math.MaxInt32
	case 7:
		return math.MaxUint32
	case 8:
		return math.MaxUint32 + 1
	case 9:
		return math.MaxInt64
	case 10:
		return math.MinInt64
	default:
		return int64(r.IntN(4096))
	}
}

func genHdr(r *rand.Rand, max int64) hdrIn {
	h := hdrIn{
		Kind:      uint8(1 + r.IntN(5)),
		Priority:  uint8(1 + r.IntN(4)),
		ServiceID: uint16(vh.U64Edge(r)),
		RequestID: vh.U64Edge(r),
	}
	switch r.IntN(6) {
	case 0:
		h.BodyLen = 0
	case 1:
		if max >= 0 && max <= math.MaxUint32 {
			h.BodyLen = uint32(max)
		}
	case 2:
		if max >= 0 && max < math.MaxUint32 {
			h.BodyLen = uint32(max + 1)
		}
	case 3:
		h.BodyLen = math.MaxUint32 - uint32(r.IntN(2))
	default:
		if max > 0 {
			h.BodyLen = uint32(r.Int64N(min64(max, math.MaxUint32) + 1))
		}
	}
	// sometimes an invalid enum value
	switch r.IntN(12) {
	case 0:
		h.Kind = vh.Pick(r, uint8(0), 6, 7, 255, 128)
	case 1:
		h.Priority = vh.Pick(r, uint8(0), 5, 6, 255, 128)
	}
	return h
}

func min64(a, b int64) int64 {
	if a < b {
		return a
	}
	return b
}

// mutateHeader damages one region of an encoded header (or leaves it alone).
func mutateHeader(r *rand.Rand, enc []byte) ([]byte, string) {
	offs := wire.VerifHeaderOffsets()
	e := append([]byte(nil), enc...)
	flip := func(off, n int) {
		i := off + r.IntN(n)
		e[i] ^= byte(1 << uint(r.IntN(8)))
	}
	switch r.IntN(17) {
	case 0:
		flip(offs["headerMagicOffset"], 2)
		return e, "magic"
	case 1:
		e[offs["headerVersionOffset"]] = vh.Pick(r, byte(0), 2, 255, byte(r.IntN(256)))
		return e, "version"
	case 2:
		e[offs["headerFlagsOffset"]] = vh.Pick(r, byte(1), 128, 255, byte(r.IntN(256)))
		return e, "flags"
	case 3:
		flip(offs["headerReservedOffset"], 4)
		return e, "reserved"
	case 4:
		e[offs["headerKindOffset"]] = vh.Pick(r, byte(0), 6, 255, byte(r.IntN(256)))
		return e, "kind"
	case 5:
		e[offs["headerPriorityOffset"]] = vh.Pick(r, byte(0), 5, 255, byte(r.IntN(256)))
		return e, "prio"
	case 6:
		flip(offs["headerBodyLenOffset"], 4)
		return e, "bodylen"
	case 7:
		return e[:r.IntN(len(e))], "short"
	case 8:
		return append(e, vh.Bytes(r, 1+r.IntN(8))...), "long"
	case 9:
		return vh.Bytes(r, wire.HeaderSize), "random"
	default:
		return e, "none"
	}
}

func genDec(r *rand.Rand) input {
	max := genMax(r)
	enc := wire.EncodeHeader(genHdr(r, max).wire())
	e, _ := mutateHeader(r, enc[:])
	return input{Kind: "dec", Hex: hex.EncodeToString(e), Max: max}
}

func genEnc(r *rand.Rand) input {
	max := genMax(r)
	h := genHdr(r, max)
	if r.IntN(4) == 0 {
		h = hdrIn{Kind: uint8(r.IntN(256)), Priority: uint8(r.IntN(256)), ServiceID: uint16(r.IntN(65536)),
			RequestID: r.Uint64(), BodyLen: r.Uint32()}
	}
	return input{Kind: "enc", Hdr: &h, Max: max}
}

const bigBody = 1 << 20 // claimed body sizes at/over this are watched for premature allocation

func genRead(r *rand.Rand) input {
	var max int64
	switch r.IntN(6) {
	case 0:
		max = int64(r.IntN(8))
	case 1:
		max = 64 << 20
	case 2:
		max = -1
	default:
		max = int64(16 + r.IntN(200))
	}
	h := hdrIn{Kind: uint8(1 + r.IntN(5)), Priority: uint8(1 + r.IntN(4)), ServiceID: uint16(r.IntN(9)), RequestID: vh.U64Edge(r)}
	bodyLen := 0
	if max > 0 {
		bodyLen = r.IntN(int(min64(max, 120)) + 1)
	}
	h.BodyLen = uint32(bodyLen)
	body := vh.Bytes(r, bodyLen)
	switch r.IntN(10) {
	case 0: // oversize claim, far beyond max: must be rejected before any allocation
		h.BodyLen = vh.Pick(r, uint32(bigBody+1), 8<<20, 64<<20+1, math.MaxInt32, math.MaxUint32)
		if int64(h.BodyLen) <= max {
			max = int64(r.IntN(1 << 16))
		}
	case 1: // just over max
		if max >= 0 {
			h.BodyLen = uint32(max + 1)
		}
	case 2: // truncated body
		if len(body) > 0 {
			body = body[:r.IntN(len(body))]
		}
	case 3: // big claim + malformed elsewhere
		h.BodyLen = 2 << 20
	}
	enc := wire.EncodeHeader(h.wire())
	e := enc[:]
	if r.IntN(3) == 0 {
		e, _ = mutateHeader(r, e)
	}
	stream := append(append([]byte(nil), e...), body...)
	if r.IntN(4) == 0 {
		stream = append(stream, vh.Bytes(r, r.IntN(30))...) // next frame's bytes
	}
	if r.IntN(25) == 0 {
		stream = nil
	}
	var chunks []int
	for n := r.IntN(5); n > 0; n-- {
		chunks = append(chunks, 1+r.IntN(30))
	}
	return input{Kind: "read", Hex: hex.EncodeToString(stream), Max: max, Chunks: chunks}
}

func genWrite(r *rand.Rand) input {
	max := int64(vh.Pick(r, 0, 8, 32, 64, 1<<20, -1, math.MaxInt64))
	n := r.IntN(5)
	frames := make([]frameIn, n)
	for i := range frames {
		h := genHdr(r, max)
		h.BodyLen = uint32(r.IntN(1000)) // ignored by the writer
		frames[i] = frameIn{Hdr: h, Body: hex.EncodeToString(vh.Bytes(r, r.IntN(40)))}
	}
	return input{Kind: "write", Frames: frames, Max: max}
}

// ---- runners ---------------------------------------------------------------------

func clampInt(v int64) int { return int(v) } // int is 64-bit on the supported platforms

func runDec(in input) vh.Result {
	enc := mustHex(in.Hex)
	h, err := wire.DecodeHeader(enc, clampInt(in.Max))
	res, reenc, class := "", vh.None(), ""
	if err != nil {
		res, class = coqErr(err), errClass(err)
	} else {
		res, class = vh.App("WOk", coqHeader(h)), "ok"
		re := wire.EncodeHeader(h)
		reenc = vh.Some(vh.Hex(re[:]))
	}
	return vh.Result{
		Coq:   vh.App("C26Dec", vh.Hex(enc), vh.Z(in.Max), res, reenc),
		Obs:   map[string]any{"res": res},
		Class: "dec:" + class,
	}
}

func runEnc(in input) vh.Result {
	h := in.Hdr.wire()
	enc := wire.EncodeHeader(h)
	d, err := wire.DecodeHeader(enc[:], clampInt(in.Max))
	dec, class := "", ""
	if err != nil {
		dec, class = coqErr(err), errClass(err)
	} else {
		dec, class = vh.App("WOk", coqHeader(d)), "ok"
	}
	return vh.Result{
		Coq:   vh.App("C26Enc", coqHeader(h), vh.Z(in.Max), vh.Hex(enc[:]), dec),
		Obs:   map[string]any{"enc": hex.EncodeToString(enc[:]), "dec": dec},
		Class: "enc:" + class,
	}
}

// chunkReader delivers data in the given chunk sizes (then whatever is asked),
// and records what ReadFrame asks for.
type chunkReader struct {
	data     []byte
	pos      int
	chunks   []int
	calls    int
	beyond   bool // a Read call was issued after the header bytes had been delivered
	maxAsked int
}

func (c *chunkReader) Read(p []byte) (int, error) {
	c.calls++
	if c.pos >= wire.HeaderSize {
		c.beyond = true
	}
	if len(p) > c.maxAsked {
		c.maxAsked = len(p)
	}
	if c.pos >= len(c.data) {
		return 0, io.EOF
	}
	n := len(p)
	if len(c.chunks) > 0 {
		if c.chunks[0] < n {
			n = c.chunks[0]
		}
		c.chunks = c.chunks[1:]
	}
	if n > len(c.data)-c.pos {
		n = len(c.data) - c.pos
	}
	copy(p, c.data[c.pos:c.pos+n])
	c.pos += n
	return n, nil
}

func coqHB(f wire.Frame) string {
	return vh.App("WOk", vh.Pair(coqHeader(f.Header), vh.Hex(f.Body.Bytes())))
}

func runRead(in input) vh.Result {
	stream := mustHex(in.Hex)
	var (
		frame wire.Frame
		err   error
		rd    *chunkReader
		grew  uint64
	)
	// heap growth across the call; repeated so that unrelated background
	// allocations cannot be mistaken for a body allocation
	claimed := uint32(0)
	if len(stream) >= wire.HeaderSize {
		claimed = binary.BigEndian.Uint32(stream[wire.VerifHeaderOffsets()["headerBodyLenOffset"]:])
	}
	for attempt := 0; attempt < 3; attempt++ {
		rd = &chunkReader{data: stream, chunks: append([]int(nil), in.Chunks...)}
		if claimed < bigBody { // nothing body-sized could be allocated on behalf of this header
			frame, err = wire.ReadFrame(rd, clampInt(in.Max))
			break
		}
		var before, after runtime.MemStats
		runtime.ReadMemStats(&before)
		frame, err = wire.ReadFrame(rd, clampInt(in.Max))
		runtime.ReadMemStats(&after)
		g := after.TotalAlloc - before.TotalAlloc
		if attempt == 0 || g < grew {
			grew = g
		}
		if grew < bigBody || !isValidation(err) {
			break // retry only when a body-sized growth is NOT expected
		}
	}
	allocOver := grew >= bigBody
	res, reenc, class := "", vh.None(), ""
	if err != nil {
		res, class = coqErr(err), errClass(err)
	} else {
		res, class = coqHB(frame), "ok"
		re := wire.EncodeHeader(frame.Header)
		reenc = vh.Some(vh.Hex(re[:]))
		if frame.Body.Len() == 0 {
			class = "ok-empty"
		}
	}
	return vh.Result{
		Coq: vh.App("C26Read", vh.Hex(stream), vh.Z(in.Max), res, vh.N(uint64(rd.pos)), vh.B(rd.beyond),
			vh.B(allocOver), reenc),
		Obs:   map[string]any{"res": res, "consumed": rd.pos, "calls": rd.calls, "max_asked": rd.maxAsked, "heap_grew": grew},
		Class: "read:" + class,
	}
}

func isValidation(err error) bool {
	if err == nil {
		return false
	}
	switch errClass(err) {
	case "EInvalidFrame", "EInvalidPriority", "ETooLarge":
		return true
	}
	return false
}

func runWrite(in input) vh.Result {
	frames := make([]wire.Frame, len(in.Frames))
	coqFrames := make([]string, len(in.Frames))
	for i, f := range in.Frames {
		body := mustHex(f.Body)
		frames[i] = wire.Frame{Header: f.Hdr.wire(), Body: core.CopyOwnedBuffer(body)}
		coqFrames[i] = vh.App("Frame", coqHeader(f.Hdr.wire()), vh.Hex(body))
	}
	var buf bytes.Buffer
	err := wire.WriteFrames(&buf, frames, clampInt(in.Max))
	res, class := "", ""
	var readback []string
	if err != nil {
		res, class = coqErr(err), errClass(err)
		if buf.Len() != 0 {
			panic(fmt.Sprintf("WriteFrames returned %v after writing %d bytes", err, buf.Len()))
		}
	} else {
		res, class = vh.App("WOk", vh.Hex(buf.Bytes())), "ok"
		rd := bytes.NewReader(buf.Bytes())
		for range frames {
			f, rerr := wire.ReadFrame(rd, clampInt(in.Max))
			if rerr != nil {
				readback = append(readback, coqErr(rerr))
				break
			}
			readback = append(readback, coqHB(f))
			f.Body.Release()
		}
	}
	return vh.Result{
		Coq:     vh.App("C26Write", vh.List(coqFrames), vh.Z(in.Max), res, vh.List(readback)),
		Obs:     map[string]any{"res": res, "readback": readback},
		Class:   fmt.Sprintf("write:%s:n=%d", class, len(frames)),
		Trivial: len(frames) == 0,
	}
}
