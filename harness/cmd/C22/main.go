// Harness for C22: WKProto frames round-trip exactly.
//
// One case = (version, frame, tail).  The implementation is asked for
//   - encodedFrameSize(frame, version)        (through the overlay export)
//   - WKProto.EncodeFrame(frame, version)     -> bytes | error | panic
//   - WKProto.DecodeFrame(bytes ++ tail, version) -> frame, consumed | need-more | error
//
// and the Coq case carries the input together with these three observations.
package main

import (
	"encoding/hex"
	"fmt"
	"math/rand/v2"
	"strings"

	"github.com/WuKongIM/WuKongIM/internal/verifh/vh"
	"github.com/WuKongIM/WuKongIM/internal/verifh/wkp"
	"github.com/WuKongIM/WuKongIM/pkg/protocol/codec"
	"github.com/WuKongIM/WuKongIM/pkg/protocol/frame"
)

type input struct {
	V    uint8       `json:"v"`
	F    wkp.FrameIn `json:"f"`
	Tail string      `json:"tail"`
	// Junk fills the input Framer's bookkeeping fields (FrameType, RemainingLength,
	// FrameSize, End) with garbage: the encoder must ignore them.
	Junk bool `json:"junk,omitempty"`
}

func gen(r *rand.Rand, tier string, i int) input {
	// the first cases sweep type x version systematically
	var t, v uint8
	if i < 12*8 {
		t, v = wkp.Types[i%12], uint8(i/12)
	} else {
		t, v = wkp.GenType(r), wkp.GenVersion(r)
	}
	o := wkp.GenOpts{Big: r.IntN(8) == 0, Wild: r.IntN(5) == 0}
	in := input{V: v, F: wkp.GenFrame(r, t, v, o)}
	if r.IntN(60) == 0 {
		wkp.Boundary(r, &in.F)
	}
	if r.IntN(6) == 0 { // value relations between numeric fields and string lengths (after Boundary: lengths are final)
		wkp.RelateAny(r, &in.F, v)
	}
	switch r.IntN(4) {
	case 0:
	case 1:
		in.Tail = hex.EncodeToString(vh.Bytes(r, 1))
	default:
		in.Tail = hex.EncodeToString(vh.Bytes(r, 1+r.IntN(6)))
	}
	in.Junk = r.IntN(6) == 0
	return in
}

type encOutcome struct {
	bytes    []byte
	err      error
	panicked bool
}

func safeEncode(p *codec.WKProto, f frame.Frame, v uint8) (out encOutcome) {
	defer func() {
		if r := recover(); r != nil {
			out = encOutcome{panicked: true}
		}
	}()
	b, err := p.EncodeFrame(f, v)
	return encOutcome{bytes: b, err: err}
}

// DecodeCoq runs DecodeFrame and renders the outcome as a [dec_result] term.
func decodeCoq(it *wkp.Interner, p *codec.WKProto, data []byte, v uint8) (term string, class string) {
	defer func() {
		if r := recover(); r != nil {
			term, class = "DPanic", "dec-panic"
		}
	}()
	f, n, err := p.DecodeFrame(data, v)
	switch {
	case err != nil:
		return "DErr", "dec-err"
	case f == nil:
		if n != 0 {
			return "DPanic", "dec-nil-frame-with-progress"
		}
		return "DNeed", "dec-need"
	}
	fi, m := wkp.FromFrame(f)
	return vh.App("DFrame", it.Ref(fi.Coq()), m.Coq(), vh.N(uint64(n))), "dec-ok"
}

func setJunk(f frame.Frame) {
	j := func(fr *frame.Framer) {
		fr.FrameType, fr.RemainingLength, fr.FrameSize, fr.End = frame.FrameType(13), 123456, 987, true
	}
	switch p := f.(type) {
	case *frame.ConnectPacket:
		j(&p.Framer)
	case *frame.ConnackPacket:
		j(&p.Framer)
	case *frame.SendPacket:
		j(&p.Framer)
	case *frame.SendackPacket:
		j(&p.Framer)
	case *frame.RecvPacket:
		j(&p.Framer)
	case *frame.RecvackPacket:
		j(&p.Framer)
	case *frame.PingPacket:
		j(&p.Framer)
	case *frame.PongPacket:
		j(&p.Framer)
	case *frame.DisconnectPacket:
		j(&p.Framer)
	case *frame.SubPacket:
		j(&p.Framer)
	case *frame.SubackPacket:
		j(&p.Framer)
	case *frame.EventPacket:
		j(&p.Framer)
	}
}

func run(in input) vh.Result {
	tail, err := hex.DecodeString(in.Tail)
	if err != nil {
		panic(err)
	}
	f := wkp.Build(in.F)
	if in.Junk {
		setJunk(f)
	}
	proto := codec.New()
	size := codec.VerifEncodedFrameSize(f, in.V)
	enc := safeEncode(proto, f, in.V)

	var encTerm, decTerm, class string
	it := &wkp.Interner{}
	inTerm := it.Ref(in.F.Coq())
	switch {
	case enc.panicked:
		encTerm, decTerm, class = "EncPanic", vh.None(), "enc-panic"
	case enc.err != nil:
		encTerm, decTerm, class = "EncErr", vh.None(), "enc-err"
	default:
		encTerm = vh.App("EncOk", wkp.CoqBytes(enc.bytes))
		data := append(append([]byte(nil), enc.bytes...), tail...)
		decTerm, class = decodeCoq(it, proto, data, in.V)
		decTerm = vh.Some(decTerm)
	}
	// the encoder must not change its argument
	after, _ := wkp.FromFrame(f)
	unchanged := after.Coq() == in.F.Coq()

	// histogram class: TYPE/outcome[/big]; outcome = exact (decoded == input), norm (decoded differs:
	// fields the version does not carry, or values outside the limits), need, err, panic
	outcome := class
	if class == "dec-ok" {
		outcome = "norm"
		if strings.Contains(decTerm, " "+inTerm+" ") {
			outcome = "exact"
		}
	}
	cls := fmt.Sprintf("%s/%s", typeName[in.F.T], outcome)
	for _, h := range in.F.S {
		if len(h) > 2*1000 {
			cls += "/big"
			break
		}
	}
	return vh.Result{
		Coq: it.Wrap(vh.App("C22Case", vh.N(uint64(in.V)), inTerm, vh.Hex(tail), vh.N(uint64(size)), encTerm, decTerm, vh.B(unchanged))),
		Obs: map[string]any{"size": size, "enc": hex.EncodeToString(enc.bytes), "enc_err": fmt.Sprint(enc.err),
			"enc_panic": enc.panicked, "dec": decTerm},
		Class:   cls,
		Trivial: false,
	}
}

var typeName = map[uint8]string{1: "CONNECT", 2: "CONNACK", 3: "SEND", 4: "SENDACK", 5: "RECV", 6: "RECVACK",
	7: "PING", 8: "PONG", 9: "DISCONNECT", 10: "SUB", 11: "SUBACK", 12: "EVENT"}

func main() {
	vh.Main(vh.Harness[input]{EmitConsts: wkp.EmitConsts, Gen: gen, Run: run})
}
