package main

import (
	"encoding/hex"
	"fmt"
	"hash/crc32"
	"io"
	"math"
	"math/rand/v2"
	"sort"
	"strings"

	"github.com/WuKongIM/WuKongIM/internal/verifh/vh"
	"go.etcd.io/raft/v3/raftpb"
)

var castagnoli = crc32.MakeTable(crc32.Castagnoli)

func crc32c(b []byte) uint32 { return crc32.Checksum(b, castagnoli) }

// ---- classes -------------------------------------------------------------------

func reqClass(q reqIn, code uint64) string {
	switch q.K {
	case "mark":
		return "mark"
	case "cfg":
		return "cfg"
	}
	c := "save"
	if q.Sn != nil {
		c = "snap"
	}
	switch code {
	case 1:
		return c + "-outofdate"
	case 2:
		return c + "-error"
	case 3:
		return c + "-refused"
	}
	return c
}

// rarest features first; a case is labelled by its two rarest features
var featureOrder = []string{
	"k1", "snap-short", "k1-converging", "stress", "snap-error", "snap-outofdate", "snap-resave", "save-error", "malformed", "mode2", "overwrite", "snap-compact",
	"mode1", "confchange", "group", "snap-install", "reopen", "entries-limited", "snap", "term", "entries", "mark", "cfg", "save",
}

func classString(cls map[string]bool) string {
	var out []string
	for _, f := range featureOrder {
		if cls[f] {
			out = append(out, f)
			if len(out) == 2 {
				break
			}
		}
	}
	if len(out) == 0 {
		var rest []string
		for k := range cls {
			rest = append(rest, k)
		}
		sort.Strings(rest)
		out = rest
	}
	if len(out) == 0 {
		return "empty"
	}
	return strings.Join(out, "+")
}

// ---- generator -----------------------------------------------------------------

// shadow is the generator's own picture of one scope (reference semantics), used
// only to aim the next request; the verdict never depends on it.
type shadow struct {
	snapIdx, snapTerm uint64
	snapV             []uint64
	snapD             string
	terms             []uint64 // terms of the entries snapIdx+1 ...
	commit, term      uint64
	vote              uint64
	applied           uint64
	dead              bool // a malformed request was issued: no more aiming
}

func (s *shadow) last() uint64 { return s.snapIdx + uint64(len(s.terms)) }
func (s *shadow) termAt(i uint64) uint64 {
	if i == s.snapIdx {
		return s.snapTerm
	}
	if i > s.snapIdx && i <= s.last() {
		return s.terms[i-s.snapIdx-1]
	}
	return 0
}
func (s *shadow) lastTerm() uint64 { return s.termAt(s.last()) }

func randData(r *rand.Rand) string {
	n := vh.Pick(r, 0, 1, 1, 2, 3, 5)
	return hex.EncodeToString(vh.Bytes(r, n))
}

func randVoters(r *rand.Rand) []uint64 {
	v := []uint64{1}
	for n := uint64(2); n <= 5; n++ {
		if vh.Chance(r, 0.4) {
			v = append(v, n)
		}
	}
	return v
}

func (s *shadow) mkEntries(r *rand.Rand, from uint64, k int, term uint64, allowCC bool) []entIn {
	var out []entIn
	for j := 0; j < k; j++ {
		e := entIn{I: from + uint64(j), T: term}
		if allowCC && vh.Chance(r, 0.15) {
			if s.snapIdx > 0 && vh.Chance(r, 0.35) {
				e.CC = []uint64{uint64(raftpb.ConfChangeRemoveNode), uint64(4 + r.IntN(2))}
			} else {
				e.CC = []uint64{uint64(raftpb.ConfChangeAddNode), uint64(1 + r.IntN(5))}
			}
		} else {
			e.D = randData(r)
		}
		out = append(out, e)
	}
	return out
}

func (s *shadow) applyEntries(es []entIn) {
	if len(es) == 0 {
		return
	}
	first := es[0].I
	if first <= s.snapIdx {
		cut := s.snapIdx + 1 - first
		if cut >= uint64(len(es)) {
			return
		}
		es = es[cut:]
		first = es[0].I
	}
	s.terms = s.terms[:first-s.snapIdx-1]
	for _, e := range es {
		s.terms = append(s.terms, e.T)
	}
}

func (s *shadow) hs(r *rand.Rand, minCommit uint64) []uint64 {
	c := s.commit
	if c < minCommit {
		c = minCommit
	}
	if l := s.last(); l > c && vh.Chance(r, 0.7) {
		c += uint64(r.IntN(int(l-c) + 1))
	}
	s.commit = c
	if vh.Chance(r, 0.2) {
		s.vote = uint64(r.IntN(4))
	}
	return []uint64{s.term, s.vote, c}
}

// genSave draws one save for the scope; feat receives the feature names.
func (s *shadow) genSave(r *rand.Rand, sc int, feat map[string]bool, willCommit bool) reqIn {
	q := reqIn{S: sc, K: "save"}
	if s.term == 0 {
		s.term = 1
	}
	// work on a copy unless the request will be committed
	w := *s
	w.terms = append([]uint64(nil), s.terms...)
	defer func() {
		if willCommit {
			*s = w
		}
	}()
	if w.dead {
		// keep the scope busy with plain appends after whatever is there
		q.E = w.mkEntries(r, w.last()+1, 1+r.IntN(2), w.term, false)
		return q
	}
	x := r.IntN(1000)
	switch {
	case x >= 880 && x < 940:
		x = 2000 // snapshot strictly inside the log + a shorter new suffix, in ONE save
	case x >= 940 && x < 970:
		x = 0 // keep the malformed stream at 3% of the saves
	}
	switch {
	case x < 380: // append at the tail
		if vh.Chance(r, 0.12) {
			w.term++
		}
		if w.term < w.lastTerm() {
			w.term = w.lastTerm()
		}
		q.E = w.mkEntries(r, w.last()+1, 1+r.IntN(3), w.term, true)
		for _, e := range q.E {
			if e.CC != nil {
				feat["confchange"] = true
			}
		}
		w.applyEntries(q.E)
		if vh.Chance(r, 0.6) {
			q.HS = w.hs(r, 0)
		}
	case x < 470: // overwrite a conflicting uncommitted suffix
		lo := w.commit
		if lo < w.snapIdx {
			lo = w.snapIdx
		}
		if w.last() <= lo {
			q.HS = w.hs(r, 0)
			break
		}
		from := lo + 1 + uint64(r.IntN(int(w.last()-lo)))
		w.term++
		q.E = w.mkEntries(r, from, 1+r.IntN(3), w.term, true)
		w.applyEntries(q.E)
		feat["overwrite"] = true
		if vh.Chance(r, 0.6) {
			q.HS = w.hs(r, 0)
		}
	case x < 560: // hard state only
		if vh.Chance(r, 0.2) {
			w.term++
		}
		q.HS = w.hs(r, 0)
	case x < 690: // local compaction: snapshot at a committed index of the log
		hi := w.commit
		if hi > w.last() {
			hi = w.last()
		}
		if hi <= w.snapIdx {
			q.HS = w.hs(r, 0)
			break
		}
		i := w.snapIdx + 1 + uint64(r.IntN(int(hi-w.snapIdx)))
		t := w.termAt(i)
		q.Sn = &snapIn{I: i, T: t, V: randVoters(r), D: randData(r)}
		w.terms = append([]uint64(nil), w.terms[i-w.snapIdx:]...)
		w.snapIdx, w.snapTerm, w.snapV, w.snapD = i, t, q.Sn.V, q.Sn.D
		feat["snap-compact"] = true
		if vh.Chance(r, 0.2) {
			q.HS = w.hs(r, i)
		}
	case x < 780: // snapshot from the leader, at or beyond the end of the log
		i := w.last() + uint64(r.IntN(4))
		if i == 0 {
			i = 1
		}
		t := w.term + uint64(r.IntN(2))
		if i == w.last() {
			t = w.termAt(i) + 1 // does not match the log: everything is replaced
		}
		if i <= w.snapIdx {
			i = w.snapIdx + 1
		}
		if t == 0 {
			t = 1
		}
		if t > w.term {
			w.term = t
		}
		q.Sn = &snapIn{I: i, T: t, V: randVoters(r), D: randData(r)}
		w.terms = nil
		w.snapIdx, w.snapTerm, w.snapV, w.snapD = i, t, q.Sn.V, q.Sn.D
		if w.commit < i {
			w.commit = i
		}
		feat["snap-install"] = true
		if vh.Chance(r, 0.35) { // entries that follow (or overlap) the snapshot in the same save
			from := i + 1
			if vh.Chance(r, 0.3) && i > 1 {
				from = i - uint64(r.IntN(2))
			}
			q.E = w.mkEntries(r, from, 1+r.IntN(3)+int(i+1-from), w.term, false)
			w.applyEntries(q.E)
		}
		if vh.Chance(r, 0.6) {
			q.HS = w.hs(r, i)
		}
	case x < 786: // K1: a snapshot strictly inside the log that the log does not contain
		if w.last() < w.snapIdx+2 {
			q.HS = w.hs(r, 0)
			break
		}
		i := w.snapIdx + 1 + uint64(r.IntN(int(w.last()-w.snapIdx-1)))
		t := w.termAt(i) + 1
		if t > w.term {
			w.term = t
		}
		q.Sn = &snapIn{I: i, T: t, V: randVoters(r), D: randData(r)}
		w.terms = nil
		w.snapIdx, w.snapTerm, w.snapV, w.snapD = i, t, q.Sn.V, q.Sn.D
		if w.commit < i {
			w.commit = i
		}
		feat["k1"] = true
		if vh.Chance(r, 0.4) {
			q.HS = w.hs(r, i)
		}
	case x < 850: // the stored snapshot again (idempotent), or with other bytes (refused)
		if w.snapIdx == 0 {
			q.HS = w.hs(r, 0)
			break
		}
		q.Sn = &snapIn{I: w.snapIdx, T: w.snapTerm, V: w.snapV, D: w.snapD}
		feat["snap-resave"] = true
		switch r.IntN(4) {
		case 0:
			q.Sn.D = randData(r) + "ff"
		case 1:
			q.Sn.T++
		}
	case x < 880: // stale snapshot
		if w.snapIdx < 2 {
			q.HS = w.hs(r, 0)
			break
		}
		q.Sn = &snapIn{I: 1 + uint64(r.IntN(int(w.snapIdx-1))), T: 1, V: randVoters(r), D: randData(r)}
	case x == 2000: // one Ready with a snapshot strictly inside the log AND fewer entries than the suffix it leaves
		if w.last() < w.snapIdx+3 {
			// not enough log yet: grow it
			q.E = w.mkEntries(r, w.last()+1, 3, w.term, false)
			w.applyEntries(q.E)
			break
		}
		lo := w.snapIdx + 1
		if w.commit > lo && w.commit <= w.last()-2 {
			lo = w.commit
		}
		i := lo + uint64(r.IntN(int(w.last()-2-lo)+1))
		t := w.termAt(i)
		if vh.Chance(r, 0.4) {
			t++ // the local log diverged (K1 signature; the following entries make the outcome agree)
			feat["k1-converging"] = true
		}
		retained := int(w.last() - i)
		k := 1 + r.IntN(retained-1)
		w.term++
		if w.term < t {
			w.term = t
		}
		q.Sn = &snapIn{I: i, T: t, V: randVoters(r), D: randData(r)}
		q.E = w.mkEntries(r, i+1, k, w.term, false)
		w.terms = nil
		w.snapIdx, w.snapTerm, w.snapV, w.snapD = i, t, q.Sn.V, q.Sn.D
		w.applyEntries(q.E)
		if w.commit < i {
			w.commit = i
		}
		if w.commit > w.last() {
			w.commit = w.last()
		}
		feat["snap-short"] = true
		if vh.Chance(r, 0.7) {
			q.HS = w.hs(r, i)
		}
	default: // malformed: outside what Raft hands to a storage
		feat["malformed"] = true
		w.dead = true
		switch r.IntN(5) {
		case 0: // gap
			q.E = w.mkEntries(r, w.last()+2+uint64(r.IntN(2)), 1+r.IntN(2), w.term, false)
		case 1: // below the snapshot, without a snapshot
			from := uint64(1)
			if w.snapIdx > 1 {
				from = 1 + uint64(r.IntN(int(w.snapIdx)))
			}
			q.E = w.mkEntries(r, from, 1+r.IntN(3), w.term, false)
		case 2: // zero index or term in a snapshot
			q.Sn = &snapIn{I: uint64(r.IntN(2)) * (w.last() + 1), T: 0, V: randVoters(r), D: randData(r)}
		case 3: // holes inside the slice
			q.E = w.mkEntries(r, w.last()+1, 3, w.term, false)
			q.E[2].I += 1 + uint64(r.IntN(2))
		default: // removing the only voter
			q.E = []entIn{{I: w.last() + 1, T: w.term, CC: []uint64{uint64(raftpb.ConfChangeRemoveNode), 1}}}
			q.HS = []uint64{w.term, 0, w.last() + 1}
		}
	}
	return q
}

func (s *shadow) genReq(r *rand.Rand, sc int, feat map[string]bool, willCommit bool) reqIn {
	switch x := r.IntN(100); {
	case x < 10:
		i := s.applied
		if s.commit > i {
			i += uint64(r.IntN(int(s.commit-i) + 1))
		}
		if vh.Chance(r, 0.1) {
			i = uint64(r.IntN(20))
		}
		if willCommit {
			s.applied = i
		}
		return reqIn{S: sc, K: "mark", X: i}
	case x < 14:
		return reqIn{S: sc, K: "cfg", X: uint64(r.IntN(int(s.last()) + 2))}
	default:
		return s.genSave(r, sc, feat, willCommit)
	}
}

func (s *shadow) genQuery(r *rand.Rand, sc int) opIn {
	first, last := s.snapIdx+1, s.last()
	if vh.Chance(r, 0.45) {
		var i uint64
		switch r.IntN(6) {
		case 0:
			i = 0
		case 1:
			i = s.snapIdx
		case 2:
			i = last + 1 + uint64(r.IntN(3))
		case 3:
			if s.snapIdx > 0 {
				i = uint64(r.IntN(int(s.snapIdx)))
			}
		default:
			i = first + uint64(r.IntN(int(last+1-first)+1))
		}
		return opIn{Op: "term", S: sc, I: i}
	}
	o := opIn{Op: "entries", S: sc, Max: vh.Pick[uint64](r, 0, 0, 1, 8, 12, 20, 40, math.MaxUint64)}
	if vh.Chance(r, 0.7) { // inside [first, last+1]
		o.Lo = first + uint64(r.IntN(int(last+1-first)+1))
		o.Hi = o.Lo + uint64(r.IntN(int(last+1-o.Lo)+1))
	} else {
		switch r.IntN(5) {
		case 0:
			o.Lo, o.Hi = 0, 0
		case 1:
			o.Lo, o.Hi = uint64(r.IntN(int(first)+1)), last+1+uint64(r.IntN(3))
		case 2:
			o.Lo, o.Hi = first, 0
		case 3:
			o.Lo, o.Hi = last+1, first
		default:
			o.Lo, o.Hi = uint64(r.IntN(int(last)+3)), uint64(r.IntN(int(last)+3))
		}
	}
	return o
}

func gen(r *rand.Rand, tier string, i int) input {
	var sh [nScopes]shadow
	n := 10 + r.IntN(26)
	var ops []opIn
	stressed := false
	for len(ops) < n {
		switch x := r.IntN(100); {
		case x < 70:
			mode := 0
			switch y := r.IntN(100); {
			case y < 7:
				mode = 1
			case y < 12:
				mode = 2
			}
			k := 1
			if vh.Chance(r, 0.25) {
				k = 2 + r.IntN(2)
			}
			perm := r.Perm(nScopes)
			feat := map[string]bool{}
			shortSc := -1
			var reqs []reqIn
			haveSnap := false
			for _, sc := range perm[:k] {
				saved := sh[sc]
				saved.terms = append([]uint64(nil), sh[sc].terms...)
				q := sh[sc].genReq(r, sc, feat, mode == 0)
				if k > 1 && q.K == "save" && q.Sn != nil {
					if haveSnap { // snapshot saves are serialised DB-wide (snapshotLifecycleMu)
						sh[sc] = saved
						continue
					}
					haveSnap = true
				}
				if k > 1 && mode == 0 && q.K == "save" && isRiskyInGroup(q) {
					// a staging error of one scope fails the whole batch; keep those in single-request groups
					sh[sc] = saved
					q = reqIn{S: sc, K: "mark", X: sh[sc].applied}
				}
				if feat["snap-short"] && shortSc < 0 {
					shortSc = sc
				}
				reqs = append(reqs, q)
			}
			var fs []string
			for f := range feat {
				fs = append(fs, f)
			}
			sort.Strings(fs)
			ops = append(ops, opIn{Op: "write", Mode: mode, Reqs: reqs, F: fs})
			if shortSc >= 0 && mode == 0 {
				// look past LastIndex, reopen, append, look again
				z := &sh[shortSc]
				ops = append(ops,
					opIn{Op: "term", S: shortSc, I: z.last() + 1 + uint64(r.IntN(2))},
					opIn{Op: "entries", S: shortSc, Lo: z.snapIdx + 1, Hi: z.last() + 2 + uint64(r.IntN(4))})
				if vh.Chance(r, 0.7) {
					ops = append(ops, opIn{Op: "reopen"})
				}
				if !z.dead {
					e := z.mkEntries(r, z.last()+1, 1+r.IntN(2), z.term, false)
					z.applyEntries(e)
					ops = append(ops,
						opIn{Op: "write", Reqs: []reqIn{{S: shortSc, K: "save", E: e}}},
						opIn{Op: "term", S: shortSc, I: z.last() + 1},
						opIn{Op: "entries", S: shortSc, Lo: z.snapIdx + 1, Hi: z.last() + 3})
				}
			}
		case x < 72 && !stressed && vh.Chance(r, 0.5):
			// concurrent free-running writers of the three scopes
			stressed = true
			feat := map[string]bool{}
			var reqs []reqIn
			for k := 6 + r.IntN(12); k > 0; k-- {
				sc := r.IntN(nScopes)
				saved := sh[sc]
				saved.terms = append([]uint64(nil), sh[sc].terms...)
				q := sh[sc].genReq(r, sc, feat, true)
				if q.K == "save" && isRiskyInGroup(q) {
					sh[sc] = saved
					q = reqIn{S: sc, K: "mark", X: sh[sc].applied}
				}
				reqs = append(reqs, q)
			}
			var fs []string
			for f := range feat {
				fs = append(fs, f)
			}
			sort.Strings(fs)
			ops = append(ops, opIn{Op: "stress", Reqs: reqs, F: fs})
		case x < 74:
			ops = append(ops, opIn{Op: "reopen"})
		case x < 77:
			ops = append(ops, opIn{Op: "obs", S: r.IntN(nScopes)})
		default:
			sc := r.IntN(nScopes)
			ops = append(ops, sh[sc].genQuery(r, sc))
		}
	}
	ops = append(ops, opIn{Op: "reopen"})
	return input{Ops: ops}
}

// isRiskyInGroup: a conf change that may remove the last voter makes saveOp.apply
// fail after the request was enqueued, which fails the other scopes' requests too.
func isRiskyInGroup(q reqIn) bool {
	for _, e := range q.E {
		if len(e.CC) == 2 && e.CC[0] == uint64(raftpb.ConfChangeRemoveNode) {
			return true
		}
	}
	return false
}

func emitConsts(w io.Writer) {
	fmt.Fprintln(w, "(* GENERATED by harness/cmd/C14 -emit-consts from the compiled /repo tree. Do not edit. *)")
	fmt.Fprintln(w, "From Coq Require Import List NArith. Import ListNotations. Open Scope N_scope.")
	fmt.Fprintln(w, "(* raftpb entry types and conf-change types as linked into pkg/raftlog *)")
	fmt.Fprintf(w, "Definition c14_EntryNormal : N := %d.\n", raftpb.EntryNormal)
	fmt.Fprintf(w, "Definition c14_EntryConfChange : N := %d.\n", raftpb.EntryConfChange)
	fmt.Fprintf(w, "Definition c14_EntryConfChangeV2 : N := %d.\n", raftpb.EntryConfChangeV2)
	fmt.Fprintf(w, "Definition c14_ConfChangeAddNode : N := %d.\n", raftpb.ConfChangeAddNode)
	fmt.Fprintf(w, "Definition c14_ConfChangeRemoveNode : N := %d.\n", raftpb.ConfChangeRemoveNode)
	fmt.Fprintf(w, "Definition c14_ConfChangeUpdateNode : N := %d.\n", raftpb.ConfChangeUpdateNode)
	fmt.Fprintln(w, "(* math.MaxUint64 *)")
	fmt.Fprintf(w, "Definition c14_MaxUint64 : N := %d.\n", uint64(math.MaxUint64))
}
