// Harness for C14: the durable Raft log (pkg/raftlog pebble store) and
// memory.go against the reference Raft storage.
//
// One case = one temporary database shared by three scopes (controller, slot 1,
// slot 2).  Every write group is forced into ONE Pebble batch: the write worker
// is parked inside writeCommitTestHook of a padding write until all requests of
// the group sit in DB.writeCh; the hook of the group's own flush then lets the
// commit pass, refuses it, or copies the on-disk files (the image a killed
// process would leave) and refuses it.
package main

import (
	"context"
	"encoding/hex"
	"errors"
	"fmt"
	"io"
	"os"
	"path/filepath"
	"runtime"
	"sync"
	"time"

	"github.com/WuKongIM/WuKongIM/internal/verifh/vh"
	"github.com/WuKongIM/WuKongIM/pkg/raftlog"
	"github.com/WuKongIM/WuKongIM/pkg/slot/multiraft"
	"github.com/WuKongIM/WuKongIM/pkg/wklog"
	raft "go.etcd.io/raft/v3"
	"go.etcd.io/raft/v3/raftpb"
)

// ---- input ---------------------------------------------------------------------

type entIn struct {
	I  uint64   `json:"i"`
	T  uint64   `json:"t"`
	D  string   `json:"d,omitempty"`  // hex payload of a normal entry
	CC []uint64 `json:"cc,omitempty"` // [type, node]: the entry is an EntryConfChange
}

type snapIn struct {
	I uint64   `json:"i"`
	T uint64   `json:"t"`
	V []uint64 `json:"v"`
	D string   `json:"d,omitempty"`
}

type reqIn struct {
	S  int      `json:"s"`            // scope 0 (controller), 1, 2 (slots)
	K  string   `json:"k"`            // save | mark | cfg
	HS []uint64 `json:"hs,omitempty"` // [term, vote, commit]
	E  []entIn  `json:"e,omitempty"`
	Sn *snapIn  `json:"sn,omitempty"`
	X  uint64   `json:"x,omitempty"` // index of mark / cfg
}

type opIn struct {
	Op   string   `json:"op"`             // write | reopen | obs | entries | term
	Mode int      `json:"mode,omitempty"` // write: 0 commit, 1 commit refused, 2 killed at the commit cut
	Reqs []reqIn  `json:"reqs,omitempty"`
	S    int      `json:"s,omitempty"`
	Lo   uint64   `json:"lo,omitempty"`
	Hi   uint64   `json:"hi,omitempty"`
	Max  uint64   `json:"max,omitempty"`
	I    uint64   `json:"i,omitempty"`
	F    []string `json:"f,omitempty"` // generator's label of what the op aims at (histogram only)
}

type input struct {
	Ops []opIn `json:"ops"`
}

const nScopes = 3

func scopeOf(s int) raftlog.Scope {
	if s == 0 {
		return raftlog.ControllerScope()
	}
	return raftlog.SlotScope(uint64(s))
}

// ---- conversions ---------------------------------------------------------------

func mustHex(s string) []byte {
	b, err := hex.DecodeString(s)
	if err != nil {
		panic("bad hex in input: " + err.Error())
	}
	if len(b) == 0 {
		return nil
	}
	return b
}

func toEntry(e entIn) raftpb.Entry {
	if len(e.CC) == 2 {
		cc := raftpb.ConfChange{Type: raftpb.ConfChangeType(e.CC[0]), NodeID: e.CC[1]}
		data, err := cc.Marshal()
		if err != nil {
			panic(err)
		}
		return raftpb.Entry{Index: e.I, Term: e.T, Type: raftpb.EntryConfChange, Data: data}
	}
	return raftpb.Entry{Index: e.I, Term: e.T, Type: raftpb.EntryNormal, Data: mustHex(e.D)}
}

func toSnap(s *snapIn) *raftpb.Snapshot {
	if s == nil {
		return nil
	}
	var voters []uint64
	if len(s.V) > 0 {
		voters = append(voters, s.V...)
	}
	return &raftpb.Snapshot{Data: mustHex(s.D), Metadata: raftpb.SnapshotMetadata{Index: s.I, Term: s.T, ConfState: raftpb.ConfState{Voters: voters}}}
}

func toState(q reqIn) multiraft.PersistentState {
	st := multiraft.PersistentState{Snapshot: toSnap(q.Sn)}
	if len(q.HS) == 3 {
		st.HardState = &raftpb.HardState{Term: q.HS[0], Vote: q.HS[1], Commit: q.HS[2]}
	}
	for _, e := range q.E {
		st.Entries = append(st.Entries, toEntry(e))
	}
	return st
}

func coqHS(h raftpb.HardState) string {
	return vh.App("HS", vh.N(h.Term), vh.N(h.Vote), vh.N(h.Commit))
}

func coqEntry(e raftpb.Entry) string {
	cc := vh.None()
	switch e.Type {
	case raftpb.EntryNormal:
	case raftpb.EntryConfChange:
		var c raftpb.ConfChange
		if err := c.Unmarshal(e.Data); err != nil {
			panic("conf change payload does not decode: " + err.Error())
		}
		cc = vh.Some(vh.Pair(vh.N(uint64(c.Type)), vh.N(c.NodeID)))
	default:
		panic("entry type outside the modelled domain")
	}
	return vh.App("E", vh.N(e.Index), vh.N(e.Term), vh.N(uint64(e.Type)), vh.Hex(e.Data), cc)
}

func coqEntries(es []raftpb.Entry) string { return vh.ListOf(es, coqEntry) }

func coqConf(cs raftpb.ConfState) string {
	if len(cs.Learners) > 0 || len(cs.VotersOutgoing) > 0 || len(cs.LearnersNext) > 0 || cs.AutoLeave {
		panic("conf state outside the modelled domain")
	}
	return vh.NList(cs.Voters)
}

func coqSnap(s raftpb.Snapshot) string {
	return vh.App("SN", vh.N(s.Metadata.Index), vh.N(s.Metadata.Term), coqConf(s.Metadata.ConfState), vh.Hex(s.Data), vh.N(uint64(crc32c(s.Data))))
}

func coqReq(q reqIn) string {
	var w string
	switch q.K {
	case "save":
		st := toState(q)
		hs := vh.None()
		if st.HardState != nil {
			hs = vh.Some(coqHS(*st.HardState))
		}
		sn := vh.None()
		if st.Snapshot != nil {
			sn = vh.Some(coqSnap(*st.Snapshot))
		}
		w = vh.App("WSave", hs, coqEntries(st.Entries), sn)
	case "mark":
		w = vh.App("WMark", vh.N(q.X))
	case "cfg":
		w = vh.App("WCfg", vh.N(q.X))
	default:
		panic("unknown request kind " + q.K)
	}
	return vh.Pair(vh.N(uint64(q.S)), w)
}

// ---- the database under test ------------------------------------------------

var errInjected = errors.New("c14: commit refused by the harness")

type hookAction struct {
	entered chan struct{} // plug: closed when the worker is parked
	release chan struct{} // plug: the worker continues when this is closed
	fail    bool
	image   func() // kill: copy the files before refusing the commit
}

type sut struct {
	root    string // directory holding db and db-snapshots
	gen     int    // generation of the image directories
	db      *raftlog.DB
	mem     [nScopes]multiraft.Storage
	mu      sync.Mutex
	actions []*hookAction
	flushes int
	pad     uint64
}

func (s *sut) dbPath() string { return filepath.Join(s.root, fmt.Sprintf("g%d", s.gen), "db") }

func (s *sut) hook() error {
	s.mu.Lock()
	s.flushes++
	var a *hookAction
	if len(s.actions) > 0 {
		a = s.actions[0]
		s.actions = s.actions[1:]
	}
	s.mu.Unlock()
	if a == nil {
		return nil
	}
	if a.entered != nil {
		close(a.entered)
		<-a.release
		return nil
	}
	if a.image != nil {
		a.image()
	}
	if a.fail {
		return errInjected
	}
	return nil
}

func (s *sut) open() {
	db, err := raftlog.Open(s.dbPath(), raftlog.Options{
		Logger:             wklog.NewNop(),
		WriteBatchMaxWait:  200 * time.Microsecond,
		WriteBatchMaxItems: 16,
	})
	if err != nil {
		panic("open: " + err.Error())
	}
	raftlog.VerifSetWriteCommitHook(db, s.hook)
	s.db = db
}

func (s *sut) closeDB() {
	if err := s.db.Close(); err != nil {
		panic("close: " + err.Error())
	}
}

func copyTree(src, dst string) {
	_ = filepath.Walk(src, func(p string, info os.FileInfo, err error) error {
		if err != nil {
			return nil // a GC pass may remove an unreferenced directory under our feet
		}
		rel, _ := filepath.Rel(src, p)
		out := filepath.Join(dst, rel)
		if info.IsDir() {
			return os.MkdirAll(out, 0o755)
		}
		in, err := os.Open(p)
		if err != nil {
			return nil
		}
		defer in.Close()
		f, err := os.Create(out)
		if err != nil {
			panic(err)
		}
		defer f.Close()
		if _, err := io.Copy(f, in); err != nil {
			panic(err)
		}
		return nil
	})
}

// image copies database and snapshot directories into the next generation.
func (s *sut) image() {
	src := filepath.Join(s.root, fmt.Sprintf("g%d", s.gen))
	dst := filepath.Join(s.root, fmt.Sprintf("g%d", s.gen+1))
	copyTree(src, dst)
}

type reqResult struct {
	err error
}

func classify(err error) uint64 {
	switch {
	case err == nil:
		return 0
	case errors.Is(err, errInjected):
		return 3
	case errors.Is(err, raft.ErrSnapOutOfDate):
		return 1
	default:
		return 2
	}
}

func doReq(ctx context.Context, st multiraft.Storage, q reqIn) error {
	switch q.K {
	case "save":
		return st.Save(ctx, toState(q))
	case "mark":
		return st.MarkApplied(ctx, q.X)
	case "cfg":
		return st.(multiraft.ConfigAppliedIndexStorage).MarkConfigApplied(ctx, q.X)
	}
	panic("unknown request kind")
}

// runGroup executes the requests concurrently as ONE write batch.
func (s *sut) runGroup(mode int, reqs []reqIn) []uint64 {
	ctx := context.Background()
	imaged := false
	var act *hookAction
	switch mode {
	case 0:
		act = &hookAction{}
	case 1:
		act = &hookAction{fail: true}
	case 2:
		act = &hookAction{fail: true, image: func() { s.image(); imaged = true }}
	default:
		panic("unknown write mode")
	}
	codes := make([]uint64, len(reqs))
	s.mu.Lock()
	before := s.flushes
	s.mu.Unlock()
	maxFlushes := 1
	if len(reqs) == 1 {
		// a single request is a batch of its own: no need to park the worker
		s.mu.Lock()
		s.actions = append(s.actions, act)
		s.mu.Unlock()
		codes[0] = classify(doReq(ctx, s.db.For(scopeOf(reqs[0].S)), reqs[0]))
	} else {
		maxFlushes = 2
		// 1. park the worker inside the hook of a padding write
		plug := &hookAction{entered: make(chan struct{}), release: make(chan struct{})}
		s.mu.Lock()
		s.actions = append(s.actions, plug, act)
		s.mu.Unlock()
		padDone := make(chan error, 1)
		s.pad++
		padIdx := s.pad
		go func() {
			padDone <- s.db.For(raftlog.SlotScope(1000)).(multiraft.ConfigAppliedIndexStorage).MarkConfigApplied(ctx, padIdx)
		}()
		<-plug.entered
		// 2. start the requests and wait until each has returned or sits in the queue
		results := make([]chan error, len(reqs))
		var returned int
		var rmu sync.Mutex
		for i, q := range reqs {
			results[i] = make(chan error, 1)
			go func(i int, q reqIn) {
				err := doReq(ctx, s.db.For(scopeOf(q.S)), q)
				rmu.Lock()
				returned++
				rmu.Unlock()
				results[i] <- err
			}(i, q)
		}
		deadline := time.Now().Add(30 * time.Second)
		for {
			rmu.Lock()
			r := returned
			rmu.Unlock()
			if r+raftlog.VerifWriteQueueLen(s.db) >= len(reqs) {
				break
			}
			if time.Now().After(deadline) {
				panic("requests neither returned nor were enqueued")
			}
			runtime.Gosched()
		}
		// 3. let the worker go: it takes every queued request into one batch
		close(plug.release)
		for i := range reqs {
			codes[i] = classify(<-results[i])
		}
		if err := <-padDone; err != nil {
			panic("padding write failed: " + err.Error())
		}
	}
	s.mu.Lock()
	used := s.flushes - before
	// drop the action of a flush that never happened (nothing was enqueued, or staging failed)
	for i, a := range s.actions {
		if a == act {
			s.actions = append(s.actions[:i], s.actions[i+1:]...)
			break
		}
	}
	s.mu.Unlock()
	if used > maxFlushes {
		panic(fmt.Sprintf("the group was split into %d batches", used-maxFlushes+1))
	}
	if mode == 2 {
		if !imaged {
			s.image()
		}
		s.closeDB()
		old := filepath.Join(s.root, fmt.Sprintf("g%d", s.gen))
		s.gen++
		_ = os.RemoveAll(old)
		s.open()
	}
	return codes
}

type obs struct {
	ok    bool
	hs    raftpb.HardState
	conf  raftpb.ConfState
	app   uint64
	cfg   uint64
	first uint64
	last  uint64
	snap  raftpb.Snapshot
	ents  []raftpb.Entry
}

func observe(st multiraft.Storage, hiAll uint64) obs {
	ctx := context.Background()
	var o obs
	bs, err := st.InitialState(ctx)
	if err != nil {
		return o
	}
	o.hs, o.conf, o.app, o.cfg = bs.HardState, bs.ConfState, bs.AppliedIndex, bs.ConfigAppliedIndex
	if o.first, err = st.FirstIndex(ctx); err != nil {
		return o
	}
	if o.last, err = st.LastIndex(ctx); err != nil {
		return o
	}
	if o.snap, err = st.Snapshot(ctx); err != nil {
		return o
	}
	if o.ents, err = st.Entries(ctx, 0, hiAll, 0); err != nil {
		return o
	}
	o.ok = true
	return o
}

func coqObs(o obs) string {
	if !o.ok {
		return vh.None()
	}
	return vh.Some(vh.App("FO", coqHS(o.hs), coqConf(o.conf), vh.N(o.app), vh.N(o.cfg), vh.N(o.first), vh.N(o.last), coqSnap(o.snap), coqEntries(o.ents)))
}

// ---- run ---------------------------------------------------------------------

func tmpRoot() string {
	base := os.TempDir()
	if fi, err := os.Stat("/dev/shm"); err == nil && fi.IsDir() {
		base = "/dev/shm"
	}
	d, err := os.MkdirTemp(base, "c14-")
	if err != nil {
		panic(err)
	}
	return d
}

func normalizeGroup(reqs []reqIn) []reqIn {
	seen := map[int]bool{}
	snap := false
	var out []reqIn
	for _, q := range reqs {
		if q.S < 0 || q.S >= nScopes || seen[q.S] {
			continue // one request per scope can be in flight (per-scope mutation lock)
		}
		if q.K == "save" && q.Sn != nil {
			// publishSnapshotAndCommit holds the DB-wide snapshotLifecycleMu across the
			// commit: two snapshot saves can never share a batch
			if snap {
				continue
			}
			snap = true
		}
		seen[q.S] = true
		out = append(out, q)
	}
	return out
}

func run(in input) vh.Result {
	tRun := time.Now()
	if os.Getenv("C14_TIMING") != "" {
		defer func() { fmt.Fprintf(os.Stderr, "run total %v\n", time.Since(tRun)) }()
	}
	s := &sut{root: tmpRoot()}
	defer os.RemoveAll(s.root)
	s.open()
	defer func() {
		if s.db != nil {
			_ = s.db.Close()
		}
	}()
	for i := range s.mem {
		s.mem[i] = raftlog.NewMemory()
	}
	ctx := context.Background()
	var steps []string
	var obsJSON []any
	cls := map[string]bool{}
	writes := 0
	step := func(op, res string) { steps = append(steps, vh.Pair(op, res)) }
	observeScope := func(sc int) {
		p := observe(s.db.For(scopeOf(sc)), 0)
		m := observe(s.mem[sc], ^uint64(0))
		step(vh.App("OObserve", vh.N(uint64(sc))), vh.App("RObs", coqObs(p), coqObs(m)))
		obsJSON = append(obsJSON, map[string]any{"obs": sc, "ok": p.ok, "first": p.first, "last": p.last, "snap": p.snap.Metadata.Index, "n": len(p.ents), "mem_last": m.last})
	}
	for _, o := range in.Ops {
		t0 := time.Now()
		if os.Getenv("C14_TIMING") != "" {
			defer func(op string) { fmt.Fprintf(os.Stderr, "%s %v\n", op, time.Since(t0)) }(o.Op + fmt.Sprint(o.Mode, len(o.Reqs)))
		}
		switch o.Op {
		case "write":
			reqs := normalizeGroup(o.Reqs)
			if len(reqs) == 0 {
				continue
			}
			codes := s.runGroup(o.Mode, reqs)
			for i, q := range reqs {
				if codes[i] == 0 {
					if err := doReq(ctx, s.mem[q.S], q); err != nil {
						panic("memory store refused a request: " + err.Error())
					}
				}
				cls[reqClass(q, codes[i])] = true
			}
			if len(reqs) > 1 {
				cls["group"] = true
			}
			for _, f := range o.F {
				cls[f] = true
			}
			if o.Mode != 0 {
				cls[fmt.Sprintf("mode%d", o.Mode)] = true
			}
			writes++
			step(vh.App("OWrite", vh.N(uint64(o.Mode)), vh.ListOf(reqs, coqReq)), vh.App("RWrite", vh.NList(codes)))
			obsJSON = append(obsJSON, map[string]any{"write": codes})
			if o.Mode == 2 {
				for sc := 0; sc < nScopes; sc++ {
					observeScope(sc)
				}
			} else {
				for _, q := range reqs {
					observeScope(q.S)
				}
			}
		case "stress":
			// free-running writers, one goroutine per scope, no parking: the write worker
			// batches by its own timer.  Scopes are independent, so the outcome must be
			// the one of running each scope's requests one after the other.
			var per [nScopes][]reqIn
			for _, q := range o.Reqs {
				if q.S >= 0 && q.S < nScopes {
					per[q.S] = append(per[q.S], q)
				}
			}
			var codes [nScopes][]uint64
			var wg sync.WaitGroup
			for sc := 0; sc < nScopes; sc++ {
				codes[sc] = make([]uint64, len(per[sc]))
				wg.Add(1)
				go func(sc int) {
					defer wg.Done()
					st := s.db.For(scopeOf(sc))
					for i, q := range per[sc] {
						codes[sc][i] = classify(doReq(ctx, st, q))
					}
				}(sc)
			}
			wg.Wait()
			for sc := 0; sc < nScopes; sc++ {
				for i, q := range per[sc] {
					if codes[sc][i] == 0 {
						if err := doReq(ctx, s.mem[sc], q); err != nil {
							panic("memory store refused a request: " + err.Error())
						}
					}
					cls[reqClass(q, codes[sc][i])] = true
					writes++
					step(vh.App("OWrite", vh.N(0), vh.List([]string{coqReq(q)})), vh.App("RWrite", vh.NList([]uint64{codes[sc][i]})))
				}
			}
			cls["stress"] = true
			for _, f := range o.F {
				cls[f] = true
			}
			obsJSON = append(obsJSON, map[string]any{"stress": codes})
			for sc := 0; sc < nScopes; sc++ {
				observeScope(sc)
			}
		case "reopen":
			s.closeDB()
			s.open()
			cls["reopen"] = true
			step("OReopen", "RNone")
			for sc := 0; sc < nScopes; sc++ {
				observeScope(sc)
			}
		case "obs":
			if o.S >= 0 && o.S < nScopes {
				observeScope(o.S)
			}
		case "entries":
			if o.S < 0 || o.S >= nScopes {
				continue
			}
			pe, err := s.db.For(scopeOf(o.S)).Entries(ctx, o.Lo, o.Hi, o.Max)
			p := vh.None()
			if err == nil {
				p = vh.Some(coqEntries(pe))
			}
			me, err := s.mem[o.S].Entries(ctx, o.Lo, o.Hi, o.Max)
			if err != nil {
				panic(err)
			}
			cls["entries"] = true
			if o.Max > 0 && len(pe) > 0 {
				cls["entries-limited"] = true
			}
			step(vh.App("OQuery", vh.N(uint64(o.S)), vh.App("QEntries", vh.N(o.Lo), vh.N(o.Hi), vh.N(o.Max))),
				vh.App("REntries", p, coqEntries(me)))
			obsJSON = append(obsJSON, map[string]any{"entries": len(pe), "mem": len(me)})
		case "term":
			if o.S < 0 || o.S >= nScopes {
				continue
			}
			pt, err := s.db.For(scopeOf(o.S)).Term(ctx, o.I)
			p := vh.None()
			if err == nil {
				p = vh.Some(vh.N(pt))
			}
			mt, err := s.mem[o.S].Term(ctx, o.I)
			if err != nil {
				panic(err)
			}
			cls["term"] = true
			step(vh.App("OQuery", vh.N(uint64(o.S)), vh.App("QTerm", vh.N(o.I))), vh.App("RTerm", p, vh.N(mt)))
			obsJSON = append(obsJSON, map[string]any{"term": pt, "mem": mt})
		default:
			panic("unknown op " + o.Op)
		}
	}
	return vh.Result{
		Coq:     vh.App("C14Case", vh.List(steps)),
		Obs:     obsJSON,
		Class:   classString(cls),
		Trivial: writes < 2,
	}
}

func main() {
	vh.Main(vh.Harness[input]{EmitConsts: emitConsts, Gen: gen, Run: run})
}
