// Harness for C30: node message ids are unique, increasing, and respect the restore floor.
// Sequential cases observe the floor after every call (exact replay of the model);
// concurrent cases record call/return stamps from one global atomic ticket.
package main

import (
	"fmt"
	"math/rand/v2"
	"sort"
	"sync"
	"sync/atomic"

	"github.com/WuKongIM/WuKongIM/internal/app"
	"github.com/WuKongIM/WuKongIM/internal/verifh/vh"
)

type op struct {
	T     int    `json:"t"`              // thread
	K     string `json:"k"`              // "next" | "floor"
	Base  string `json:"base,omitempty"` // floor argument: "last" (last id this thread saw), "zero", "huge", "cur" (current floor)
	Delta int64  `json:"delta,omitempty"`
}

type input struct {
	Mode    string `json:"mode"` // "seq" | "conc"
	Threads int    `json:"threads"`
	Node    uint64 `json:"node"`
	Ops     []op   `json:"ops"`
}

func gen(r *rand.Rand, tier string, i int) input {
	in := input{Node: uint64(1 + r.IntN(1000))}
	if r.IntN(3) == 0 {
		in.Mode, in.Threads = "seq", 1
	} else {
		in.Mode, in.Threads = "conc", 2+r.IntN(7)
	}
	n := 4 + r.IntN(40)
	if in.Mode == "conc" {
		n = 20 + r.IntN(160)
	}
	for j := 0; j < n; j++ {
		o := op{T: r.IntN(in.Threads), K: "next"}
		if r.IntN(5) == 0 {
			o.K = "floor"
			o.Base = vh.Pick(r, "last", "last", "last", "cur", "zero", "huge")
			switch r.IntN(6) {
			case 0:
				o.Delta = 0
			case 1:
				o.Delta = -int64(r.IntN(1 << 24))
			case 2:
				o.Delta = int64(r.IntN(3)) // same millisecond: probe may or may not exceed it
			case 3:
				o.Delta = int64(1<<22) * int64(1+r.IntN(3)) // 1–3 ms ahead
			case 4:
				o.Delta = int64(1) << uint(30+r.IntN(20)) // far future
			default:
				o.Delta = int64(r.IntN(1 << 12))
			}
		}
		in.Ops = append(in.Ops, o)
	}
	return in
}

type rec struct {
	tid        int
	start, end uint64
	kind       int // 0 next, 1 setfloor ok, 2 setfloor err
	val        uint64
	floorAfter uint64
}

func floorArg(o op, last, cur uint64) uint64 {
	var base uint64
	switch o.Base {
	case "last":
		base = last
	case "cur":
		base = cur
	case "huge":
		base = 1 << 62
	}
	if o.Delta < 0 {
		d := uint64(-o.Delta)
		if d > base {
			return 0
		}
		return base - d
	}
	return base + uint64(o.Delta)
}

func run(in input) vh.Result {
	ids, err := app.VerifNewMessageIDs(in.Node)
	if err != nil {
		panic(err)
	}
	var ticket atomic.Uint64
	var mu sync.Mutex
	var recs []rec
	perThread := make([][]op, in.Threads)
	for _, o := range in.Ops {
		if o.T >= 0 && o.T < in.Threads {
			perThread[o.T] = append(perThread[o.T], o)
		}
	}
	worker := func(tid int, ops []op) {
		var last uint64
		local := make([]rec, 0, len(ops))
		for _, o := range ops {
			var rc rec
			rc.tid = tid
			if o.K == "next" {
				rc.start = ticket.Add(1)
				id := ids.Next()
				rc.end = ticket.Add(1)
				rc.kind, rc.val = 0, id
				last = id
			} else {
				f := floorArg(o, last, ids.Floor())
				rc.start = ticket.Add(1)
				e := ids.SetFloor(f)
				rc.end = ticket.Add(1)
				rc.val = f
				if e == nil {
					rc.kind = 1
				} else {
					rc.kind = 2
				}
			}
			if in.Mode == "seq" {
				rc.floorAfter = ids.Floor()
			}
			local = append(local, rc)
		}
		mu.Lock()
		recs = append(recs, local...)
		mu.Unlock()
	}
	if in.Mode == "seq" {
		worker(0, in.Ops)
	} else {
		var wg sync.WaitGroup
		for t := 0; t < in.Threads; t++ {
			wg.Add(1)
			go func(t int) { defer wg.Done(); worker(t, perThread[t]) }(t)
		}
		wg.Wait()
	}
	sort.Slice(recs, func(i, j int) bool { return recs[i].end < recs[j].end })
	dones := make([]string, len(recs))
	floors := []uint64{}
	nOk, nErr, nNext := 0, 0, 0
	obs := make([]map[string]any, 0, len(recs))
	for i, rc := range recs {
		var ret string
		switch rc.kind {
		case 0:
			ret = vh.App("RNext", vh.N(rc.val))
			nNext++
		case 1:
			ret = vh.App("RSetOk", vh.N(rc.val))
			nOk++
		default:
			ret = vh.App("RSetErr", vh.N(rc.val))
			nErr++
		}
		dones[i] = vh.App("Done", fmt.Sprintf("%d%%nat", rc.tid), vh.N(rc.start), vh.N(rc.end), ret)
		if in.Mode == "seq" {
			floors = append(floors, rc.floorAfter)
		}
		if i < 40 {
			obs = append(obs, map[string]any{"t": rc.tid, "start": rc.start, "end": rc.end, "kind": rc.kind, "val": rc.val, "floor": rc.floorAfter})
		}
	}
	return vh.Result{
		Coq:     vh.App("C30Case", vh.B(in.Mode == "seq"), vh.List(dones), vh.NList(floors)),
		Obs:     obs,
		Class:   fmt.Sprintf("%s,threads=%d,setok=%v,seterr=%v", in.Mode, in.Threads, nOk > 0, nErr > 0),
		Trivial: nNext < 2,
	}
}

func main() {
	vh.Main(vh.Harness[input]{Gen: gen, Run: run})
}
