// Harness for C08: within a channel a (sender, client message number) pair maps
// to at most one stored message; a message id is stored at most once (strict
// mode).
//
// Same store driver and case shape as C07 (real on-disk Pebble database, typed
// ChannelLog + compatibility appends), but the generator collides on purpose:
// small id / (uid, cno) alphabets, duplicates inside one batch, in a later
// batch, after lease release, after whole-database reopen, after truncation and
// trims, in strict / server-allocated / trusted-contiguous modes; a "saturate"
// stream first stores > 384 distinct idempotency keys in one channel so that the
// primary layer of the negative membership filter is full and the overflow
// layer is in use (histogram class "...:overflow").
package main

import (
	"fmt"
	"io"
	"math/rand/v2"

	"github.com/WuKongIM/WuKongIM/internal/verifh/vh"
	msgh "github.com/WuKongIM/WuKongIM/pkg/db/verifh_msgstore"
)

func gen(r *rand.Rand, tier string, i int) msgh.Input {
	p := msgh.Profile{MinOps: 8, MaxOps: 36, Collide: 0.45, MutWeight: 70, AppendHeavy: true, BatchRate: 0.06, TrimRetry: 0.7, TrimScenario: 0.2}
	if tier == "thorough" {
		p.MaxOps = 80
	}
	switch x := r.IntN(20); {
	case x < 2:
		p.Saturate = true
		p.MinOps, p.MaxOps = 10, 24
	case x < 5:
		p.Collide = 0.8
	case x < 7:
		p.Collide = 0.2
	}
	in := msgh.GenHistory(r, p)
	in.Compact = p.Saturate
	return in
}

func run(in msgh.Input) vh.Result {
	steps, kv, st := msgh.RunHistoryStats(in)
	class := classify(in, steps)
	if st.Overflow {
		class += ":overflow"
	} else if st.MaxPrimaryAdds >= 100 {
		class += ":filter100+"
	}
	return vh.Result{
		Coq:     msgh.CoqCase("C07Case", in, steps, kv),
		Obs:     map[string]any{"steps": steps, "kv": kv, "filter": st},
		Class:   class,
		Trivial: len(in.Ops) == 0,
	}
}

func classify(in msgh.Input, steps []msgh.Step) string {
	dupRejected, dupBatch, acceptedAfter := 0, 0, 0
	f := map[string]bool{}
	for i, op := range in.Ops {
		switch op.K {
		case "reopen", "release":
			f[op.K] = true
		case "trunc", "ctrunc", "trim":
			f["cut"] = true
		}
		if (op.K == "append" || op.K == "capp" || op.K == "apply") && (steps[i].Out.Err == 2 || (op.K == "capp" && steps[i].Out.Err == 4)) {
			dupRejected++
			seen := map[[2]string]bool{}
			for _, r := range op.Recs {
				k := [2]string{r.Uid, r.Cno}
				if r.Uid != "" && r.Cno != "" && seen[k] {
					dupBatch++
				}
				seen[k] = true
			}
		} else if steps[i].Out.Err == 0 && (op.K == "append" || op.K == "capp") {
			acceptedAfter++
		}
	}
	s := fmt.Sprintf("rej=%s,inbatch=%s", bucket(dupRejected), bucket(dupBatch))
	for _, k := range []string{"cut", "release", "reopen"} {
		if f[k] {
			s += "+" + k
		}
	}
	return s
}

func bucket(n int) string {
	switch {
	case n == 0:
		return "0"
	case n < 4:
		return "1-3"
	default:
		return "4+"
	}
}

func emitConsts(w io.Writer) { msgh.EmitConsts(w, "C08") }

func main() {
	defer msgh.CleanupAll()
	vh.Main(vh.Harness[msgh.Input]{EmitConsts: emitConsts, Gen: gen, Run: run})
}
