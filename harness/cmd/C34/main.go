// Harness for C34: conversation unread counts and visibility.
//
// One case = an initial membership row (or none) of one user in one channel and
// a history of ops. Every op carries the channel head the (scripted) hydrator
// answers with, and the clock value. The real conversation.App runs on the real
// pkg/db/meta store (memberships written through meta.WriteBatch exactly like
// the slot FSM does, read through meta.Shard); only the head hydrator is a fake.
// After every op the harness records: error class, the store mutation the App
// issued, the stored row, and what List and Retry report for that row and head.
// "pure" ops call the exported conversationFromMembership directly on an
// arbitrary row.
package main

import (
	"context"
	"errors"
	"fmt"
	"io"
	"math"
	"math/rand/v2"
	"os"
	"sync"
	"time"

	"github.com/WuKongIM/WuKongIM/internal/usecase/conversation"
	"github.com/WuKongIM/WuKongIM/internal/verifh/vh"
	metadb "github.com/WuKongIM/WuKongIM/pkg/db/meta"
)

type headIn struct {
	Outcome uint8   `json:"outcome"`
	Last    uint64  `json:"last"`
	Ret     uint64  `json:"ret"`
	Own     uint64  `json:"own"`
	Msg     *uint64 `json:"msg,omitempty"` // LastMessage.MessageSeq, nil = no LastMessage
}

type rowIn struct {
	Join      uint64 `json:"join"`
	Read      uint64 `json:"read"`
	Deleted   uint64 `json:"deleted"`
	Activated int64  `json:"activated"`
	Tomb      bool   `json:"tomb,omitempty"`
	Updated   int64  `json:"updated"`
}

type opIn struct {
	K    string `json:"k"` // clear | set | delete | activate | observe | pure
	N    int64  `json:"n,omitempty"`
	Now  int64  `json:"now"`
	Head headIn `json:"head"`
	Row  *rowIn `json:"row,omitempty"` // pure only
}

type input struct {
	Row *rowIn `json:"row,omitempty"` // nil = the user has no membership row
	Ops []opIn `json:"ops"`
}

const (
	channelID   = "g1"
	channelType = 2
	hashSlot    = 7
)

// ---- the store: real meta DB --------------------------------------------------

var (
	dbOnce sync.Once
	dbDir  string
	db     *metadb.DB
	uidSeq int
)

func openDB() *metadb.DB {
	dbOnce.Do(func() {
		base := "/dev/shm"
		if st, err := os.Stat(base); err != nil || !st.IsDir() {
			base = os.TempDir()
		}
		d, err := os.MkdirTemp(base, "verif_c34_")
		if err != nil {
			panic(err)
		}
		dbDir = d
		h, err := metadb.Open(d)
		if err != nil {
			panic(err)
		}
		db = h
	})
	return db
}

type call struct {
	kind string // "", advance, hide, activate
	v    uint64
	a    int64
	at   int64
}

// store adapts the real meta DB to conversation.MembershipMutationStore and
// conversation.DirectoryStore; mutations go through a WriteBatch like pkg/slot/fsm.
type store struct {
	db   *metadb.DB
	last call
}

func (s *store) shard() *metadb.Shard { return s.db.MetaDB().HashSlot(metadb.HashSlot(hashSlot)) }

func (s *store) GetUserChannelMembership(ctx context.Context, uid, ch string, ct int64) (metadb.UserChannelMembership, bool, error) {
	return s.shard().GetUserChannelMembership(ctx, uid, ch, ct)
}

func (s *store) ListUserChannelMembershipPage(ctx context.Context, uid string, after metadb.UserChannelMembershipCursor, limit int) ([]metadb.UserChannelMembership, metadb.UserChannelMembershipCursor, bool, error) {
	return s.shard().ListUserChannelMembershipPage(ctx, uid, after, limit)
}

func (s *store) commit(stage func(wb *metadb.WriteBatch) error) error {
	wb := s.db.NewWriteBatch()
	defer wb.Close()
	if err := stage(wb); err != nil {
		return err
	}
	return wb.Commit()
}

func (s *store) AdvanceUserChannelMembershipReadSeq(_ context.Context, uid, ch string, ct int64, readSeq uint64, updatedAt int64) error {
	s.last = call{kind: "advance", v: readSeq, at: updatedAt}
	return s.commit(func(wb *metadb.WriteBatch) error {
		return wb.AdvanceUserChannelMembershipReadSeq(hashSlot, uid, metadb.ChannelKey{ChannelID: ch, ChannelType: ct}, readSeq, updatedAt)
	})
}

func (s *store) HideUserChannelMembership(_ context.Context, uid, ch string, ct int64, deletedToSeq uint64, updatedAt int64) error {
	s.last = call{kind: "hide", v: deletedToSeq, at: updatedAt}
	return s.commit(func(wb *metadb.WriteBatch) error {
		return wb.HideUserChannelMembership(hashSlot, uid, metadb.ChannelKey{ChannelID: ch, ChannelType: ct}, deletedToSeq, updatedAt)
	})
}

func (s *store) ActivateUserChannelMembership(_ context.Context, uid, ch string, ct int64, activatedAt, updatedAt int64) error {
	s.last = call{kind: "activate", a: activatedAt, at: updatedAt}
	return s.commit(func(wb *metadb.WriteBatch) error {
		return wb.ActivateUserChannelMembership(hashSlot, uid, metadb.ChannelKey{ChannelID: ch, ChannelType: ct}, activatedAt, updatedAt)
	})
}

// hydrator answers every membership with the head of the current op.
type hydrator struct{ head headIn }

func (h *hydrator) result(row metadb.UserChannelMembership) conversation.HydrationResult {
	r := conversation.HydrationResult{
		Key:                    conversation.ConversationKey{ChannelID: row.ChannelID, ChannelType: row.ChannelType},
		Outcome:                conversation.HydrationOutcome(h.head.Outcome),
		LastCommittedSeq:       h.head.Last,
		RetentionThroughSeq:    h.head.Ret,
		CurrentUserLastSendSeq: h.head.Own,
	}
	if h.head.Msg != nil {
		r.LastMessage = &conversation.LastMessage{MessageID: 1000 + *h.head.Msg, MessageSeq: *h.head.Msg, FromUID: "peer", Payload: []byte("p")}
	}
	return r
}

func (h *hydrator) HydrateConversationHeads(_ context.Context, _ string, rows []metadb.UserChannelMembership) ([]conversation.HydrationResult, error) {
	out := make([]conversation.HydrationResult, len(rows))
	for i, row := range rows {
		out[i] = h.result(row)
	}
	return out, nil
}

// ---- observations ----------------------------------------------------------------

func errClass(err error) uint64 {
	switch {
	case err == nil:
		return 0
	case errors.Is(err, metadb.ErrNotFound):
		return 1
	case errors.Is(err, conversation.ErrRouteNotReady):
		return 2
	case errors.Is(err, metadb.ErrInvalidArgument):
		return 3
	default:
		return 4
	}
}

func coqRow(r metadb.UserChannelMembership) string {
	return vh.App("MRow", vh.N(r.JoinSeq), vh.N(r.ReadSeq), vh.N(r.DeletedToSeq), vh.Z(r.ActivatedAt), vh.B(r.Tombstone), vh.Z(r.UpdatedAt))
}

func coqRowIn(r rowIn) string {
	return vh.App("MRow", vh.N(r.Join), vh.N(r.Read), vh.N(r.Deleted), vh.Z(r.Activated), vh.B(r.Tomb), vh.Z(r.Updated))
}

func coqHead(h headIn) string {
	msg := vh.None()
	if h.Msg != nil {
		msg = vh.Some(vh.N(*h.Msg))
	}
	return vh.App("Head", vh.N(uint64(h.Outcome)), vh.N(h.Last), vh.N(h.Ret), vh.N(h.Own), msg)
}

func coqConv(c conversation.Conversation) string {
	last := vh.None()
	if c.LastMessage != nil {
		last = vh.Some(vh.N(c.LastMessage.MessageSeq))
	}
	return vh.App("LItem", vh.App("Conv", vh.N(c.JoinSeq), vh.Z(c.ActiveAt), vh.N(c.ReadSeq), vh.N(c.DeletedToSeq), vh.Z(c.UpdatedAt), last, vh.N(c.Unread)))
}

type listObs struct {
	Kind   string `json:"kind"`
	Unread uint64 `json:"unread,omitempty"`
	Last   *uint64 `json:"last,omitempty"`
	Read   uint64 `json:"read,omitempty"`
}

// listing summarises a ListResult that can mention at most one key.
func listing(res conversation.ListResult, err error) (string, listObs) {
	if err != nil {
		return "LErr", listObs{Kind: "error"}
	}
	n := len(res.Items) + len(res.Deletes) + len(res.Unresolved)
	switch {
	case n == 0:
		return "LNone", listObs{Kind: "none"}
	case n > 1:
		panic(fmt.Sprintf("one membership produced %d list entries: %+v", n, res))
	case len(res.Deletes) == 1:
		if res.Deletes[0] != (conversation.ConversationKey{ChannelID: channelID, ChannelType: channelType}) {
			panic("delete for a foreign key")
		}
		return "LDelete", listObs{Kind: "delete"}
	case len(res.Unresolved) == 1:
		if res.Unresolved[0] != (conversation.ConversationKey{ChannelID: channelID, ChannelType: channelType}) {
			panic("unresolved for a foreign key")
		}
		return "LUnresolved", listObs{Kind: "unresolved"}
	default:
		c := res.Items[0]
		if c.ChannelID != channelID || c.ChannelType != channelType {
			panic("item for a foreign key")
		}
		o := listObs{Kind: "item", Unread: c.Unread, Read: c.ReadSeq}
		if c.LastMessage != nil {
			v := c.LastMessage.MessageSeq
			o.Last = &v
		}
		return coqConv(c), o
	}
}

type stepObs struct {
	Err   uint64  `json:"err"`
	Call  string  `json:"call,omitempty"`
	List  listObs `json:"list"`
	Retry listObs `json:"retry"`
}

func run(in input) vh.Result {
	d := openDB()
	uidSeq++
	uid := fmt.Sprintf("u%d", uidSeq)
	ctx := context.Background()
	st := &store{db: d}
	hy := &hydrator{}
	now := int64(0)
	app := conversation.New(conversation.Options{
		Directory: st, Hydrator: hy, MembershipMutations: st,
		Now: func() time.Time { return time.Unix(0, now) },
	})
	if in.Row != nil {
		r := *in.Row
		err := d.ForHashSlot(hashSlot).UpsertUserChannelMembership(ctx, metadb.UserChannelMembership{
			UID: uid, ChannelID: channelID, ChannelType: channelType, JoinSeq: r.Join, ReadSeq: r.Read,
			DeletedToSeq: r.Deleted, ActivatedAt: r.Activated, Tombstone: r.Tomb, UpdatedAt: r.Updated,
		})
		if err != nil {
			panic(fmt.Sprintf("seeding the membership row: %v", err))
		}
	}
	initRow := vh.None()
	if in.Row != nil {
		initRow = vh.Some(coqRowIn(*in.Row))
	}

	steps := make([]string, 0, len(in.Ops))
	obs := make([]stepObs, 0, len(in.Ops))
	kinds := map[string]bool{}
	items, errs, unreadPos, hidden, lastShown := 0, 0, 0, 0, 0
	for _, op := range in.Ops {
		hy.head = op.Head
		now = op.Now
		st.last = call{}
		var err error
		var kind string
		pure := false
		switch op.K {
		case "clear":
			kind = "OClear"
			err = app.ClearUnread(ctx, conversation.ClearUnreadCommand{UID: uid, ChannelID: channelID, ChannelType: channelType})
		case "set":
			kind = vh.App("OSet", vh.Z(op.N))
			err = app.SetUnread(ctx, conversation.SetUnreadCommand{UID: uid, ChannelID: channelID, ChannelType: channelType, Unread: int(op.N)})
		case "delete":
			kind = "ODelete"
			err = app.DeleteConversation(ctx, conversation.DeleteConversationCommand{UID: uid, ChannelID: channelID, ChannelType: channelType})
		case "activate":
			kind = "OActivate"
			err = app.ActivateConversation(ctx, conversation.ActivateConversationCommand{UID: uid, ChannelID: channelID, ChannelType: channelType})
		case "observe":
			kind = "OObserve"
		case "pure":
			if op.Row == nil {
				panic("pure op without row")
			}
			kind = vh.App("OPure", coqRowIn(*op.Row))
			pure = true
		default:
			panic("unknown op " + op.K)
		}
		kinds[op.K] = true
		callCoq, callObs := "CNone", ""
		switch st.last.kind {
		case "advance":
			callCoq, callObs = vh.App("CAdvance", vh.N(st.last.v), vh.Z(st.last.at)), fmt.Sprintf("advance(%d)", st.last.v)
		case "hide":
			callCoq, callObs = vh.App("CHide", vh.N(st.last.v), vh.Z(st.last.at)), fmt.Sprintf("hide(%d)", st.last.v)
		case "activate":
			callCoq, callObs = vh.App("CActivate", vh.Z(st.last.a), vh.Z(st.last.at)), fmt.Sprintf("activate(%d)", st.last.a)
		}
		rowAfter := vh.None()
		stored, ok, gerr := st.GetUserChannelMembership(ctx, uid, channelID, channelType)
		if gerr != nil {
			panic(gerr)
		}
		if ok {
			rowAfter = vh.Some(coqRow(stored))
		}
		var lCoq, rCoq string
		var lObs, rObs listObs
		if pure {
			r := *op.Row
			c, shown := conversation.VerifConversationFromMembership(metadb.UserChannelMembership{
				UID: uid, ChannelID: channelID, ChannelType: channelType, JoinSeq: r.Join, ReadSeq: r.Read,
				DeletedToSeq: r.Deleted, ActivatedAt: r.Activated, Tombstone: r.Tomb, UpdatedAt: r.Updated,
			}, hy.result(metadb.UserChannelMembership{ChannelID: channelID, ChannelType: channelType}))
			res := conversation.ListResult{}
			if shown {
				res.Items = []conversation.Conversation{c}
			}
			lCoq, lObs = listing(res, nil)
			rCoq, rObs = lCoq, lObs
		} else {
			lres, lerr := app.List(ctx, conversation.ListRequest{UID: uid, Limit: 10})
			lCoq, lObs = listing(lres, lerr)
			rres, rerr := app.Retry(ctx, conversation.RetryRequest{UID: uid, Keys: []conversation.ConversationKey{{ChannelID: channelID, ChannelType: channelType}}})
			rCoq, rObs = listing(rres, rerr)
		}
		ec := errClass(err)
		if ec != 0 {
			errs++
		}
		if rObs.Kind == "item" {
			items++
			if rObs.Unread > 0 {
				unreadPos++
			}
			if rObs.Last != nil {
				lastShown++
			}
		} else if rObs.Kind == "none" {
			hidden++
		}
		steps = append(steps, vh.Pair(
			vh.App("Op", kind, vh.Z(op.Now), coqHead(op.Head)),
			vh.App("Obs", vh.N(ec), callCoq, rowAfter, lCoq, rCoq)))
		obs = append(obs, stepObs{Err: ec, Call: callObs, List: lObs, Retry: rObs})
	}
	rk := "live"
	switch {
	case in.Row == nil:
		rk = "norow"
	case in.Row.Tomb:
		rk = "tomb"
	}
	flag := func(b bool, s string) string {
		if b {
			return s
		}
		return "-"
	}
	_ = lastShown
	class := rk + "/" + flag(items > 0, "item") + flag(unreadPos > 0, "+unread") + flag(hidden > 0, "+hidden") + flag(errs > 0, "+err") +
		"/" + flag(kinds["clear"] || kinds["set"], "badge") + flag(kinds["delete"], "+del")
	return vh.Result{
		Coq:     vh.App("C34Case", initRow, vh.List(steps)),
		Obs:     obs,
		Class:   class,
		Trivial: len(in.Ops) == 0,
	}
}

// ---- generator -----------------------------------------------------------------

// near draws a value close to base (wrapping is fine: it lands near 0 or near max).
func near(r *rand.Rand, base uint64) uint64 {
	switch r.IntN(10) {
	case 0:
		return 0
	case 1:
		return vh.U64Edge(r)
	default:
		return base + uint64(r.IntN(9)) - 3
	}
}

func genRow(r *rand.Rand, base uint64, forDB bool) rowIn {
	row := rowIn{Join: near(r, base), Read: near(r, base), Deleted: near(r, base)}
	if vh.Chance(r, 0.3) {
		row.Join = vh.Pick(r, uint64(0), 1)
	}
	if vh.Chance(r, 0.3) {
		row.Deleted = 0
	}
	if vh.Chance(r, 0.3) {
		row.Read = 0
	}
	switch r.IntN(4) {
	case 0:
		row.Activated = 0
	case 1:
		row.Activated = int64(1 + r.IntN(50))
	case 2:
		row.Activated = int64(r.IntN(3))
	default:
		if forDB {
			row.Activated = 0
		} else {
			row.Activated = vh.Pick(r, int64(-1), math.MinInt64, math.MaxInt64, -5)
		}
	}
	row.Updated = int64(r.IntN(40))
	row.Tomb = vh.Chance(r, 0.08)
	return row
}

func genHeadArbitrary(r *rand.Rand, base uint64) headIn {
	h := headIn{Last: near(r, base+2), Ret: near(r, base), Own: near(r, base)}
	if vh.Chance(r, 0.4) {
		h.Ret = 0
	}
	if vh.Chance(r, 0.4) {
		h.Own = 0
	}
	switch r.IntN(12) {
	case 0:
		h.Outcome = 3
	case 1:
		h.Outcome = 4
	case 2:
		h.Outcome = vh.Pick(r, uint8(0), 5, 255)
	case 3, 4:
		h.Outcome = 2
	default:
		h.Outcome = 1
	}
	if h.Outcome == 1 || vh.Chance(r, 0.1) {
		m := h.Last
		if vh.Chance(r, 0.3) {
			m = near(r, base)
		}
		h.Msg = &m
	}
	if vh.Chance(r, 0.05) {
		h.Msg = nil
	}
	return h
}

func gen(r *rand.Rand, tier string, i int) input {
	base := vh.Pick(r, uint64(0), 4, 4, 10, 100, 1<<32, 1<<63, math.MaxUint64-8)
	var in input
	if !vh.Chance(r, 0.06) {
		row := genRow(r, base, true)
		in.Row = &row
	}
	structured := vh.Chance(r, 0.6)
	// channel simulation for the structured mode: sends and retention sweeps
	// between ops keep the head self-consistent
	last := near(r, base+1)
	if last > math.MaxUint64-64 {
		last = math.MaxUint64 - 64
	}
	ret, own := uint64(0), uint64(0)
	if vh.Chance(r, 0.3) && last > 0 {
		ret = last - uint64(r.IntN(int(min(last, 4))+1))
	}
	if vh.Chance(r, 0.3) && last > 0 {
		own = last - uint64(r.IntN(int(min(last, 4))+1))
	}
	now := int64(r.IntN(30))
	n := 1 + r.IntN(8)
	for j := 0; j < n; j++ {
		var h headIn
		if structured {
			for k := r.IntN(3); k > 0; k-- { // sends
				last++
				if vh.Chance(r, 0.15) {
					own = last
				}
			}
			if vh.Chance(r, 0.15) && last > ret { // retention sweep
				ret += uint64(r.IntN(int(min(last-ret, 5)) + 1))
			}
			h = headIn{Outcome: 2, Last: last, Ret: ret, Own: own}
			if last > ret {
				m := last
				h.Msg = &m
				h.Outcome = 1
			}
			if vh.Chance(r, 0.06) {
				h.Outcome = vh.Pick(r, uint8(3), 4)
			}
		} else {
			h = genHeadArbitrary(r, base)
		}
		switch r.IntN(10) {
		case 0:
			now -= int64(r.IntN(5))
		case 1:
		default:
			now += int64(r.IntN(6))
		}
		opNow := now
		if vh.Chance(r, 0.03) {
			opNow = vh.Pick(r, int64(-1), 0, math.MinInt64)
		}
		op := opIn{Now: opNow, Head: h}
		switch r.IntN(12) {
		case 0, 1:
			op.K = "clear"
		case 2, 3, 4:
			op.K = "set"
			switch r.IntN(8) {
			case 0:
				op.N = 0
			case 1:
				op.N = -1 - int64(r.IntN(3))
			case 2:
				op.N = math.MaxInt64
			case 3:
				op.N = int64(h.Last & math.MaxInt64)
			default:
				op.N = int64(r.IntN(7))
			}
		case 5:
			op.K = "delete"
		case 6:
			op.K = "activate"
		case 7, 8:
			op.K = "pure"
			row := genRow(r, base, false)
			op.Row = &row
		default:
			op.K = "observe"
		}
		in.Ops = append(in.Ops, op)
	}
	return in
}

func emitConsts(w io.Writer) {
	fmt.Fprintln(w, "(* GENERATED by harness/cmd/C34 -emit-consts from the compiled /repo tree. Do not edit. *)")
	fmt.Fprintln(w, "From Coq Require Import NArith. Open Scope N_scope.")
	fmt.Fprintln(w, "(* conversation.HydrationOutcome *)")
	fmt.Fprintf(w, "Definition HydrationOK : N := %d.\n", conversation.HydrationOK)
	fmt.Fprintf(w, "Definition HydrationNoVisibleMessage : N := %d.\n", conversation.HydrationNoVisibleMessage)
	fmt.Fprintf(w, "Definition HydrationDelete : N := %d.\n", conversation.HydrationDelete)
	fmt.Fprintf(w, "Definition HydrationRetryable : N := %d.\n", conversation.HydrationRetryable)
}

func main() {
	defer func() {
		if db != nil {
			_ = db.Close()
		}
		if dbDir != "" {
			_ = os.RemoveAll(dbDir)
		}
	}()
	vh.Main(vh.Harness[input]{EmitConsts: emitConsts, Gen: gen, Run: run})
}
